import NormModel.Model.Reports
import NormModel.Model.Cli
import NormModel.Model.Lexer
