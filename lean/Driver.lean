/-
Line-protocol driver over `NormModel.Model` (no Mathlib below it, so it links).
One JSON request per line on stdin, one JSON reply per line on stdout.
-/
import Lean.Data.Json
import NormModel.Model.Reports
import NormModel.Model.Cli
import NormModel.Model.Lexer
import NormModel.Model.Engine
import NormModel.Model.Header
import NormModel.Model.Guard
import NormModel.Model.Limits
import NormModel.Model.Checks
import NormModel.Model.Spacing
import NormModel.Generated.HeaderRegex
open Lean Norm

/-- engine op: the rule table is replayed from the decisions recorded on the real run:
each decision is `null` (no primary matched) or `[rule, jump]`, or `"fatal"`. -/
def headerHandle (op : String) (j : Json) : Except String Json := do
  match op with
  | "hdr" =>
    let cs ← (← (j.getObjValD "text").getArr?).toList.mapM (fun x => do let n ← x.getNat?; pure (Char.ofNat n))
    pure (Json.mkObj [("search", Json.bool (searchNfa Generated.headerRegex cs))])
  | "hdrrun" =>
    let evs ← (← (j.getObjValD "events").getArr?).toList.mapM (fun e => do
      let a ← e.getArr?
      let isC ← a[0]!.getBool?
      let v ← if a[1]!.isNull then pure none else do
        let cs ← (← a[1]!.getArr?).toList.mapM (fun x => do let n ← x.getNat?; pure (Char.ofNat n))
        pure (some cs)
      pure (⟨isC, v⟩ : HEvent))
    let st := headerRun (searchNfa Generated.headerRegex) evs
    pure (Json.mkObj [("errors", Json.num (st.errors : JsonNumber)), ("parsed", Json.bool st.parsed)])
  | "linelen" =>
    let toks ← (← (j.getObjValD "toks").getArr?).toList.mapM (fun e => do
      let a ← e.getArr?
      pure ((← a[0]!.getNat?), (← a[1]!.getNat?)))
    pure (Json.mkObj [("lines", Json.arr ((checkLineLen toks []).map (fun (x : Nat) => Json.num (x : JsonNumber))).toArray)])
  | "commentlen" =>
    let col ← (j.getObjValD "col").getNat?
    let lens ← (← (j.getObjValD "lens").getArr?).toList.mapM (·.getNat?)
    let block ← (j.getObjValD "block").getBool?
    let out : List Nat := if block then blockCommentTooLong col lens
      else (if lineCommentTooLong col (lens.headD 0) then [0] else [])
    pure (Json.mkObj [("lines", Json.arr (out.map (fun (x : Nat) => Json.num (x : JsonNumber))).toArray)])
  | "guard" =>
    let chars := fun (k : String) => do
      let a ← (j.getObjValD k).getArr?
      a.toList.mapM (fun x => do let n ← x.getNat?; pure (Char.ofNat n))
    let base ← chars "base"
    let kind ← (j.getObjValD "dir").getStr?
    let dir ← match kind with
      | "ifndef" => do pure (GuardDir.ifndef (← chars "sym"))
      | "endif" => do pure (GuardDir.endif (← (j.getObjValD "after").getBool?))
      | _ => pure GuardDir.other
    let inp : GuardIn := ⟨← (j.getObjValD "isHeader").getBool?, dir, ← (j.getObjValD "indent").getNat?,
      ← (j.getObjValD "prot").getBool?, ← (j.getObjValD "defined").getBool?, ← (j.getObjValD "codeBefore").getBool?⟩
    let out := guardCheck (guardOf base) inp
    pure (Json.mkObj [("codes", Json.arr (out.codes.map Json.str).toArray), ("prot", Json.bool out.prot),
                      ("guard", Json.str (String.ofList (guardOf base)))])
  | _ => throw ("unknown op " ++ op)

/-- the rule table as observed on the implementation: the i-th iteration's decision -/
def decisionStep (ds : Array Json) : Nat → Nat → StepRes Nat := fun i _ =>
  match ds[i]? with
  | none => .crash "decisions exhausted"
  | some d =>
    if d.isNull then .noMatch (i + 1)
    else match d.getArr? with
      | .ok a =>
        match a[0]!.getStr?, a[1]!.getInt? with
        | .ok r, .ok jmp => .matched r jmp (i + 1)
        | _, _ => .crash "bad decision"
      | .error _ => .fatal "rule raised"

def engineHandle (op : String) (j : Json) : Except String Json := do
  if op != "engine" then return (← headerHandle op j)
  let n ← (j.getObjValD "n").getNat?
  let debug ← (j.getObjValD "debug").getNat?
  let ds ← (j.getObjValD "decisions").getArr?
  let step := decisionStep ds
  let segJson (t : List Segment) : Json :=
    Json.arr (t.map (fun g => Json.arr #[Json.str g.rule, Json.num (g.start : JsonNumber), Json.num (g.len : JsonNumber)])).toArray
  let natsJson (l : List Nat) : Json := Json.arr (l.map (fun (x : Nat) => Json.num (x : JsonNumber))).toArray
  match engineRun step debug 0 n with
  | .ok used t u => pure (Json.mkObj [("outcome", "ok"), ("trace", segJson t), ("unrec", natsJson u), ("used", Json.num (used : JsonNumber))])
  | .fatal m t u => pure (Json.mkObj [("outcome", "fatal"), ("msg", Json.str m), ("trace", segJson t), ("unrec", natsJson u)])
  | .crash w => pure (Json.mkObj [("outcome", "crash"), ("what", Json.str w)])
  | .hang => pure (Json.mkObj [("outcome", "hang")])

def cps (s : String) : Json := Json.arr (s.toList.map (fun c => Json.num c.toNat)).toArray
def ofCps (j : Json) : Except String String := do
  let a ← j.getArr?
  let cs ← a.toList.mapM (fun x => do let n ← x.getNat?; pure (Char.ofNat n))
  pure (String.ofList cs)

def optNat : Option Nat → Json
  | none => Json.null
  | some n => Json.num n
def optStr : Option String → Json
  | none => Json.null
  | some s => cps s

def hlJson (h : Highlight) : Json :=
  Json.arr #[Json.num h.line, Json.num h.col, optNat h.length, optStr h.hint]
def diagJson (d : Diag) : Json :=
  Json.arr #[cps d.name, cps d.text, Json.str d.level.str, Json.arr (d.highlights.map hlJson).toArray]

def getOptNat (j : Json) : Except String (Option Nat) :=
  if j.isNull then pure none else do let n ← j.getNat?; pure (some n)
def getOptStr (j : Json) : Except String (Option String) :=
  if j.isNull then pure none else do let s ← ofCps j; pure (some s)

def hlOf (j : Json) : Except String Highlight := do
  let a ← j.getArr?
  if a.size != 4 then throw "highlight arity"
  pure ⟨← a[0]!.getNat?, ← a[1]!.getNat?, ← getOptNat a[2]!, ← getOptStr a[3]!⟩
def diagOf (j : Json) : Except String Diag := do
  let a ← j.getArr?
  if a.size != 4 then throw "diag arity"
  let lvl ← a[2]!.getStr?
  let hs ← (← a[3]!.getArr?).toList.mapM hlOf
  pure { name := ← ofCps a[0]!, text := ← ofCps a[1]!,
         level := if lvl == "Notice" then .notice else .error, highlights := hs }
def diagsOf (j : Json) : Except String (List Diag) := do
  (← j.getArr?).toList.mapM diagOf

def tokJson (t : Token) : Json :=
  Json.arr #[Json.str t.type, Json.num t.line, Json.num t.col, optStr t.value, Json.num t.start, Json.num t.stop]

def uniOf (j : Json) : Except String Uni := do
  let ud := (j.getObjValD "ud")
  let uw := (j.getObjValD "uw")
  let ds ← if ud.isNull then pure [] else (← ud.getArr?).toList.mapM (·.getNat?)
  let ws ← if uw.isNull then pure [] else (← uw.getArr?).toList.mapM (·.getNat?)
  pure { digit := fun c => ds.contains c.toNat, word := fun c => ws.contains c.toNat }

def shownJson (d : ShownDiag) : Json :=
  Json.arr #[Json.str d.level.str, cps d.name, Json.num d.line, Json.num d.col, cps d.text]
def shownFileJson (f : ShownFile) : Json :=
  Json.arr #[cps f.basename, Json.str f.status.str, Json.arr (f.diags.map shownJson).toArray]
def jsonFileJson (f : JsonFile) : Json :=
  Json.arr #[cps f.path, Json.str f.status.str, Json.arr (f.errors.map diagJson).toArray]

def colorOf (name : String) : Option String := assoc Generated.errorColors name

def fileRepOf (j : Json) : Except String FileRep := do
  pure ⟨← ofCps (j.getObjValD "path"), ← ofCps (j.getObjValD "basename"),
        ← ofCps (j.getObjValD "abspath"), ← diagsOf (j.getObjValD "diags")⟩

def cliFileOf (j : Json) : Except String CliFile := do
  let fatal := j.getObjValD "fatal"
  let outcome ← if fatal.isNull then do pure (FileOutcome.analysed (← diagsOf (j.getObjValD "diags")))
                else do pure (FileOutcome.fatal (← ofCps fatal))
  pure ⟨← ofCps (j.getObjValD "path"), ← ofCps (j.getObjValD "basename"),
        ← ofCps (j.getObjValD "abspath"), outcome⟩

def entryOf (j : Json) : Except String Entry := do
  let p ← (← (j.getObjValD "p").getArr?).toList.mapM ofCps
  let d ← (j.getObjValD "d").getBool?
  pure ⟨p, d⟩

def strList (l : List String) : Json := Json.arr (l.map cps).toArray

def handle (j : Json) : Except String Json := do
  let op ← (j.getObjValD "op").getStr?
  match op with
  | "lex" =>
    let src ← ofCps (j.getObjValD "src")
    let u ← uniOf j
    match lex u src.toList with
    | .error e => pure (Json.mkObj [("exc", Json.str (match e with | .keyError => "KeyError" | .outOfFuel => "OutOfFuel"))])
    | .ok r =>
      let items := r.items.map fun
        | .tok t => tokJson t
        | .bad c p => Json.arr #[Json.str "BAD", Json.num c.toNat, Json.num p]
      pure (Json.mkObj [("tokens", Json.arr (r.tokens.map tokJson).toArray),
                        ("diags", Json.arr (r.diags.map diagJson).toArray),
                        ("items", Json.arr items.toArray)])
  | "always" =>
    -- source text -> model lexer -> engine loop (observed decisions) -> the always-run checks
    let src ← ofCps (j.getObjValD "src")
    let u ← uniOf j
    let n ← (j.getObjValD "n").getNat?
    let debug ← (j.getObjValD "debug").getNat?
    let dsj ← (j.getObjValD "decisions").getArr?
    match lex u src.toList with
    | .error _ => pure (Json.mkObj [("outcome", "lexfail")])
    | .ok r =>
      if r.tokens.length != n then pure (Json.mkObj [("outcome", "token-count"), ("n", Json.num (r.tokens.length : JsonNumber))])
      else match engineRun (decisionStep dsj) debug 0 n with
        | .ok _ t _ =>
          let ds := alwaysDiagsRun r.tokens t ++ headerDiagsRun (searchNfa Generated.headerRegex) r.tokens t ++ spacingDiagsRun r.tokens t ++ manyInstrDiagsRun r.tokens t ++ commentLenDiagsRun r.tokens t
          pure (Json.mkObj [("outcome", "ok"), ("diags", Json.arr (ds.map diagJson).toArray)])
        | _ => pure (Json.mkObj [("outcome", "other")])
  | "sort" =>
    let ds ← diagsOf (j.getObjValD "diags")
    pure (Json.mkObj [("sorted", Json.arr ((sortDiags ds).map diagJson).toArray),
                      ("status", Json.str (status ds).str)])
  | "fmt" =>
    let fs ← (← (j.getObjValD "files").getArr?).toList.mapM fileRepOf
    let colors := (j.getObjValD "colors").getBool?.toOption.getD true
    let human : Json := match humanDoc fs with
      | none => Json.null
      | some doc => Json.mkObj [("doc", Json.arr (doc.map shownFileJson).toArray),
                                ("text", cps (renderHuman colorOf colors doc))]
    let jd := jsonDoc fs
    let proj : Json := match projectJson jd with
      | none => Json.null
      | some doc => Json.arr (doc.map shownFileJson).toArray
    pure (Json.mkObj [("human", human), ("json", Json.arr (jd.map jsonFileJson).toArray), ("proj", proj)])
  | "cli" =>
    let fs ← (← (j.getObjValD "files").getArr?).toList.mapM cliFileOf
    let fmt := if (j.getObjValD "format").getStr?.toOption == some "json" then Format.json else Format.humanized
    let colors := (j.getObjValD "colors").getBool?.toOption.getD true
    let out := cliRun fmt fs
    let printed : Json := match out.printed with
      | .human doc => Json.mkObj [("kind", "human"), ("text", cps (renderHuman colorOf colors doc)),
                                  ("doc", Json.arr (doc.map shownFileJson).toArray)]
      | .json doc => Json.mkObj [("kind", "json"), ("doc", Json.arr (doc.map jsonFileJson).toArray)]
      | .fatal p m => Json.mkObj [("kind", "fatal"), ("path", cps p), ("msg", cps m)]
      | .crash => Json.mkObj [("kind", "crash")]
    pure (Json.mkObj [("printed", printed), ("exit", Json.num out.exit)])
  | "select" =>
    let tree ← (← (j.getObjValD "tree").getArr?).toList.mapM entryOf
    let argv ← (← (j.getObjValD "argv").getArr?).toList.mapM (fun a => do (← a.getArr?).toList.mapM ofCps)
    let s := select tree argv
    pure (Json.mkObj [("files", strList s.files), ("msgs", strList s.msgs), ("abort", Json.bool s.abort)])
  | "suffix" =>
    pure (Json.mkObj [("suffix", cps (suffixOf (← ofCps (j.getObjValD "name"))))])
  | _ => engineHandle op j

partial def loop (h : IO.FS.Stream) (out : IO.FS.Stream) : IO Unit := do
  let line ← h.getLine
  if line.isEmpty then return ()
  let reply : Json := match Json.parse line with
    | .error e => Json.mkObj [("error", Json.str ("parse: " ++ e))]
    | .ok j => match handle j with
      | .error e => Json.mkObj [("error", Json.str e)]
      | .ok r => r
  out.putStrLn reply.compress
  out.flush
  loop h out

def main : IO Unit := do
  let i ← IO.getStdin
  let o ← IO.getStdout
  loop i o
  o.flush
