import NormModel.Properties.C13
#print axioms Norm.C13.pattern_shape
#print axioms Norm.C13.pattern_flags
#print axioms Norm.C13.m_frame
#print axioms Norm.C13.m_any
#print axioms Norm.C13.m_file
#print axioms Norm.C13.m_by
#print axioms Norm.C13.m_stamp
#print axioms Norm.C13.header_matches
#print axioms Norm.C13.accept
#print axioms Norm.C13.at_most_once
#print axioms Norm.C13.reject_no_header
#print axioms Norm.C13.at_most_once_file
#print axioms Norm.C13.reject_file
#print axioms Norm.C13.accept_file
#print axioms Norm.C13.headerDiags_length
