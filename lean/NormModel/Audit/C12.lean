import NormModel.Properties.C12
#print axioms Norm.C12.tables_are_the_standard
#print axioms Norm.C12.spellings_ok
#print axioms Norm.C12.peek_respell
#print axioms Norm.C12.brackets_of_peek
#print axioms Norm.C12.bracket_spellings
#print axioms Norm.C12.bracket_plain
#print axioms Norm.C12.splice_between_tokens
#print axioms Norm.C12.table_targets_mem
#print axioms Norm.C12.table_targets
#print axioms Norm.C12.respelled_reads_same
#print axioms Norm.C12.operator_longest_match
#print axioms Norm.C12.punctuator_token
#print axioms Norm.C12.lex_respell
#print axioms Norm.C12.toks_of_items
#print axioms Norm.C12.tokens_respell
