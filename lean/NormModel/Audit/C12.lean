import NormModel.Properties.C12
#print axioms Norm.C12.tables_are_the_standard
#print axioms Norm.C12.spellings_ok
#print axioms Norm.C12.peek_respell
#print axioms Norm.C12.brackets_of_peek
#print axioms Norm.C12.bracket_spellings
#print axioms Norm.C12.bracket_plain
#print axioms Norm.C12.splice_between_tokens
