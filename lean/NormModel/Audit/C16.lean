import NormModel.Properties.C16
#print axioms Norm.C16.format_independent
#print axioms Norm.C16.options_table
#print axioms Norm.C16.args_read
#print axioms Norm.C16.debug_readers_known
