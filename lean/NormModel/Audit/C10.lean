import NormModel.Properties.C10
#print axioms Norm.C10.tiling
#print axioms Norm.C10.progress
#print axioms Norm.C10.bad_reported
#print axioms Norm.C10.all_consumed
#print axioms Norm.C10.dict_injective
#print axioms Norm.C10.content
#print axioms Norm.C10.roundtrip
