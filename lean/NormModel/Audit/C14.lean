import NormModel.Properties.C14
#print axioms Norm.C14.upper_dot
#print axioms Norm.C14.guardOf_spec
#print axioms Norm.C14.guardOf_length
#print axioms Norm.C14.c_file_never
#print axioms Norm.C14.accept_ifndef
#print axioms Norm.C14.accept_endif
#print axioms Norm.C14.wrong_symbol
#print axioms Norm.C14.missing_define
#print axioms Norm.C14.doubled
#print axioms Norm.C14.code_before
#print axioms Norm.C14.code_after
