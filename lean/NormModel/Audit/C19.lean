import NormModel.Properties.C19
#print axioms Norm.C19.advPos_lines
#print axioms Norm.C19.advPos_ends_nl
#print axioms Norm.C19.visualPos_prefix
#print axioms Norm.C19.token_shift
#print axioms Norm.C19.lexItems_fuel_mono
#print axioms Norm.C19.lex_shift
#print axioms Norm.C19.lex_after_prefix
