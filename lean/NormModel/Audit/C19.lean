import NormModel.Properties.C19
#print axioms Norm.C19.advPos_lines
#print axioms Norm.C19.advPos_ends_nl
#print axioms Norm.C19.visualPos_prefix
#print axioms Norm.C19.token_shift
#print axioms Norm.C19.lexItems_fuel_mono
#print axioms Norm.C19.lex_shift
#print axioms Norm.C19.lex_after_prefix
#print axioms Norm.C19.triAt_second
#print axioms Norm.C19.triAt_cons3
#print axioms Norm.C19.peek1_append_len3
#print axioms Norm.C19.selfReadsB_sound
#print axioms Norm.C19.noEarlyCloseB_sound
#print axioms Norm.C19.lineOKB_sound
#print axioms Norm.C19.cline_length_ge
#print axioms Norm.C19.clines_length_ge
#print axioms Norm.C19.comment_lines_prefix
