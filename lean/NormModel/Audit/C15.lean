import NormModel.Properties.C15
#print axioms Norm.C15.foldl_selStep_noabort
#print axioms Norm.C15.selection
#print axioms Norm.C15.foldl_selStep_abort
#print axioms Norm.C15.foldl_selStep_missing
#print axioms Norm.C15.missing_aborts
#print axioms Norm.C15.default_is_cwd
#print axioms Norm.C15.other_suffix_rejected
