import NormModel.Properties.C03
#print axioms Norm.C03.checkLineLen_mem
#print axioms Norm.C03.linelen_iff
#print axioms Norm.C03.linelen_nodup
#print axioms Norm.C03.newline_column
#print axioms Norm.C03.code_line_reported_iff
#print axioms Norm.C03.linelen_runs_on_every_rule
#print axioms Norm.C03.line_comment_iff
#print axioms Norm.C03.block_comment_iff
#print axioms Norm.C03.counters_exact
#print axioms Norm.C03.tokDiag_name
#print axioms Norm.C03.tokDiag_highlights
#print axioms Norm.C03.linelen_e2e
#print axioms Norm.C03.linelen_source
#print axioms Norm.C03.newline_column_rest
#print axioms Norm.C03.long_line_reported
#print axioms Norm.C03.short_lines_silent
