import NormModel.Properties.C03
#print axioms Norm.C03.checkLineLen_mem
#print axioms Norm.C03.linelen_iff
#print axioms Norm.C03.linelen_nodup
#print axioms Norm.C03.newline_column
#print axioms Norm.C03.code_line_reported_iff
#print axioms Norm.C03.linelen_runs_on_every_rule
#print axioms Norm.C03.line_comment_iff
#print axioms Norm.C03.block_comment_iff
#print axioms Norm.C03.counters_exact
