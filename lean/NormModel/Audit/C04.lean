import NormModel.Properties.C04
#print axioms Norm.C04.one_verdict
#print axioms Norm.C04.one_verdict_json
#print axioms Norm.C04.ok_iff
#print axioms Norm.C04.exit_iff
#print axioms Norm.C04.exit_perm
#print axioms Norm.C04.fatal
#print axioms Norm.C04.fatal_nonzero
#print axioms Norm.C04.empty
#print axioms Norm.C04.exit_le_one
