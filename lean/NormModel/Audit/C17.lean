import NormModel.Properties.C17
#print axioms Norm.C17.pop_opaque
#print axioms Norm.C17.string_body_swap
#print axioms Norm.C17.swap_token
#print axioms Norm.C17.alphabet_opaque
