import NormModel.Properties.C07
#print axioms Norm.C07.tiling
#print axioms Norm.C07.nonempty
#print axioms Norm.C07.no_silent_drop
#print axioms Norm.C07.statements_tile
#print axioms Norm.C07.terminates
#print axioms Norm.C07.crash_is_rule_crash
