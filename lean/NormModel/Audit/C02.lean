import NormModel.Properties.C02
#print axioms Norm.C02.v82_line_too_long
#print axioms Norm.C02.ternary_e2e
#print axioms Norm.C02.ternary_sound
#print axioms Norm.C02.trailing_space_e2e
#print axioms Norm.C02.many_instr_e2e
#print axioms Norm.C02.many_instr_sound
#print axioms Norm.C02.counters_fire
#print axioms Norm.C02.verdict_error
