import NormModel.Properties.C01
#print axioms Norm.C01.verdict_ok
#print axioms Norm.C01.col_mono
#print axioms Norm.C01.linelen_silent
#print axioms Norm.C01.token_col_le
#print axioms Norm.C01.spacing_silent
#print axioms Norm.C01.always_silent
#print axioms Norm.C01.many_instr_silent
