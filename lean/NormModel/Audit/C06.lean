import NormModel.Properties.C06
#print axioms Norm.C06.sortPrimaries_perm_invariant
#print axioms Norm.C06.priorities_nodup
#print axioms Norm.C06.rule_names_nodup
#print axioms Norm.C06.registry_perm
#print axioms Norm.C06.sortByNameDesc_perm_invariant
#print axioms Norm.C06.dependencies_perm
#print axioms Norm.C06.no_shared_state
#print axioms Norm.C06.no_start_end_checks
