import NormModel.Properties.C05
#print axioms Norm.C05.lex_total
#print axioms Norm.C05.engine_terminates
#print axioms Norm.C05.checkSpacing_terminates
#print axioms Norm.C05.operator_keys
#print axioms Norm.C05.parsers_order
#print axioms Norm.C05.patterns_unchanged
