import NormModel.Properties.C08
#print axioms Norm.C08.sorted_display
#print axioms Norm.C08.sorted_perm
#print axioms Norm.C08.sorted_ties_by_name
#print axioms Norm.C08.status_ok_iff
#print axioms Norm.C08.formats_agree
#print axioms Norm.C08.json_errors_sorted
#print axioms Norm.C08.lexer_codes_in_catalogue
#print axioms Norm.C08.catalogue_keys_nodup
#print axioms Norm.C08.catalogue_texts_distinct
#print axioms Norm.C08.lexer_diags_have_highlight
#print axioms Norm.C08.lexer_diag_inside_file
