import NormModel.Properties.C11
#print axioms Norm.C11.suffix_table_complete
#print axioms Norm.C11.render_word
#print axioms Norm.C11.int_valid
#print axioms Norm.C11.float_suffix_table_complete
#print axioms Norm.C11.float_valid
#print axioms Norm.C11.hexfloat_valid
#print axioms Norm.C11.char_valid
#print axioms Norm.C11.char_escape_valid
#print axioms Norm.C11.char_octal_valid
#print axioms Norm.C11.char_hex_valid
#print axioms Norm.C11.string_valid
#print axioms Norm.C11.string_units_valid
