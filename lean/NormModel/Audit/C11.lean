import NormModel.Properties.C11
#print axioms Norm.C11.suffix_table_complete
#print axioms Norm.C11.render_word
#print axioms Norm.C11.int_valid
