import NormModel.Properties.C09
#print axioms Norm.C09.token_positions
#print axioms Norm.C09.tokens_ordered
#print axioms Norm.C09.diag_positions
