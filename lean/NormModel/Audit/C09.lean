import NormModel.Properties.C09
#print axioms Norm.C09.token_positions
#print axioms Norm.C09.column_one_iff_line_start
#print axioms Norm.C09.tokens_ordered
#print axioms Norm.C09.diag_positions
