import NormModel.Properties.C18
#print axioms Norm.C18.ident_body
#print axioms Norm.C18.rename_same_length
#print axioms Norm.C18.rename_token
#print axioms Norm.C18.keyword_names
