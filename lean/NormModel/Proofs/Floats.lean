/- Decimal floating constants: the float parser on well-formed constants. -/
import NormModel.Proofs.Ident
namespace Norm
open Spec

theorem fsuffix_tbl : ∀ s ∈ Spec.floatSuffixes,
    Generated.floatSuffixes.contains s = true ∧ (∀ c ∈ s.toList, c ∈ wordChars) ∧
    (∀ c ∈ s.toList, c ∉ decDigits ∧ isE c = false ∧ c ≠ '.' ∧ c ≠ '+' ∧ c ≠ '-') := by
  decide +kernel

theorem isE_facts : isE 'e' = true ∧ isE 'E' = true ∧ (∀ c ∈ decDigits, isE c = false) ∧
    isE '+' = false ∧ isE '-' = false ∧ isE '.' = false := by decide

/-- the head of `sfx ++ rest` (a floating suffix followed by an allowed continuation) is neither a
digit, an exponent letter, a dot nor a sign -/
theorem after_float (u : Uni) {sfx : String} (hs : sfx ∈ Spec.floatSuffixes) {rest : List Char} (hb : boundaryOK rest) :
    ∀ c, (sfx.toList ++ rest).head? = some c →
      u.isD c = false ∧ isE c = false ∧ c ≠ '.' ∧ c ≠ '+' ∧ c ≠ '-' := by
  intro c hc
  obtain ⟨_, hw, hf⟩ := fsuffix_tbl sfx hs
  cases hsl : sfx.toList with
  | nil =>
    rw [hsl] at hc
    simp only [List.nil_append] at hc
    obtain ⟨h1, h2, _, _, _, h6, h7, h8⟩ := boundary_head u hb c hc
    refine ⟨h2, ?_, h6, h7, h8⟩
    -- not a word character, so not `e`/`E`
    cases he : isE c
    · rfl
    · exfalso
      unfold isE at he
      simp only [Bool.or_eq_true, beq_iff_eq] at he
      have : u.isW c = true := by
        rcases he with rfl | rfl <;> exact word_facts u (by decide)
      rw [h1] at this; cases this
  | cons d tl =>
    rw [hsl] at hc
    simp only [List.cons_append, List.head?_cons, Option.some.injEq] at hc
    subst hc
    have hd := hf d (by rw [hsl]; simp)
    have hwd := hw d (by rw [hsl]; simp)
    refine ⟨?_, hd.2.1, hd.2.2.1, hd.2.2.2.1, hd.2.2.2.2⟩
    have h128 := (word_tbl d hwd).1
    rw [isD_ascii u h128]
    cases h : isAsciiDigit d
    · rfl
    · exact absurd (by unfold isAsciiDigit at h; simpa [decDigits_eq] using h) hd.1

/-- the exponent group on a well-formed exponent part: exactly that part -/
theorem matchExp_valid (u : Uni) (x : ExpPart) (hx : x.WF) (after : List Char)
    (ha : ∀ c, after.head? = some c → u.isD c = false) (tail : List Char → Nat) :
    matchExp isE u.isD tail (x.render ++ after) = x.render := by
  obtain ⟨he, hsign, hne, hdig⟩ := hx
  have hisE : isE x.e = true := by rcases he with h | h <;> rw [h] <;> decide
  have hdD : ∀ c ∈ x.digits, u.isD c = true := fun c hc => (dec_facts u (hdig c hc)).1
  have hdE : ∀ c ∈ x.digits, isE c = false := fun c hc => isE_facts.2.2.1 c (hdig c hc)
  obtain ⟨d0, ds, hds⟩ : ∃ d0 ds, x.digits = d0 :: ds := by
    cases hd : x.digits with
    | nil => exact absurd hd hne
    | cons a b => exact ⟨a, b, rfl⟩
  have htw : (x.digits ++ after).takeWhile u.isD = x.digits := takeWhile_app hdD ha
  unfold matchExp spanP ExpPart.render
  cases hs : x.sign with
  | none =>
    simp only [Option.toList_none, List.nil_append, List.cons_append]
    have h1 : (x.e :: (x.digits ++ after)).takeWhile isE = [x.e] := by
      rw [hds]; simp [List.takeWhile, hisE, hdE d0 (by rw [hds]; simp)]
    have h2 : (x.e :: (x.digits ++ after)).dropWhile isE = x.digits ++ after := by
      rw [hds]; simp [List.dropWhile, hisE, hdE d0 (by rw [hds]; simp)]
    simp only [h1, h2, List.isEmpty_cons, Bool.false_eq_true, ↓reduceIte]
    have hnots : (d0 == '+' || d0 == '-') = false := by
      have := hdig d0 (by rw [hds]; simp)
      have : ∀ c ∈ decDigits, (c == '+' || c == '-') = false := by decide
      exact this d0 (hdig d0 (by rw [hds]; simp))
    rw [hds] at htw ⊢
    simp only [List.cons_append, hnots, Bool.false_eq_true, ↓reduceIte]
    rw [show d0 :: (ds ++ after) = (d0 :: ds) ++ after by rfl, htw]
    simp
  | some sg =>
    have hsg := hsign sg hs
    simp only [Option.toList_some, List.cons_append, List.nil_append]
    have hsgE : isE sg = false := by rcases hsg with rfl | rfl <;> decide
    have h1 : (x.e :: sg :: (x.digits ++ after)).takeWhile isE = [x.e] := by
      simp [List.takeWhile, hisE, hsgE]
    have h2 : (x.e :: sg :: (x.digits ++ after)).dropWhile isE = sg :: (x.digits ++ after) := by
      simp [List.dropWhile, hisE, hsgE]
    simp only [h1, h2, List.isEmpty_cons, Bool.false_eq_true, ↓reduceIte]
    have hsgb : (sg == '+' || sg == '-') = true := by rcases hsg with rfl | rfl <;> decide
    simp only [hsgb, ↓reduceIte, htw]
    rw [hds]
    simp

end Norm

namespace Norm
open Spec

theorem floatSuffix_valid (u : Uni) {sfx : String} (hs : sfx ∈ Spec.floatSuffixes) {rest : List Char}
    (hb : boundaryOK rest) : floatSuffix u (sfx.toList ++ rest) = sfx.toList := by
  obtain ⟨_, hw, _⟩ := fsuffix_tbl sfx hs
  unfold floatSuffix
  apply takeWhile_app
  · intro c hc; simp [word_facts u (hw c hc)]
  · intro c hc
    obtain ⟨h1, _, _, _, _, h6, _⟩ := boundary_head u hb c hc
    simp [h1, h6]

theorem goodExponent_valid (u : Uni) (x : ExpPart) (hx : x.WF) : goodExponent u x.render = true := by
  obtain ⟨he, hsign, hne, hdig⟩ := hx
  have hisE : isE x.e = true := by rcases he with h | h <;> rw [h] <;> decide
  obtain ⟨d0, ds, hds⟩ : ∃ d0 ds, x.digits = d0 :: ds := by
    cases hd : x.digits with
    | nil => exact absurd hd hne
    | cons a b => exact ⟨a, b, rfl⟩
  have hd0 : u.isD d0 = true := (dec_facts u (hdig d0 (by rw [hds]; simp))).1
  unfold goodExponent ExpPart.render
  cases hs : x.sign with
  | none =>
    have hnots : (d0 == '+' || d0 == '-') = false := by
      have : ∀ c ∈ decDigits, (c == '+' || c == '-') = false := by decide
      exact this d0 (hdig d0 (by rw [hds]; simp))
    simp [hisE, hds, hnots, hd0]
  | some sg =>
    have hsgb : (sg == '+' || sg == '-') = true := by
      rcases hsign sg hs with rfl | rfl <;> decide
    simp [hisE, hds, hsgb, hd0]

theorem count_dot_digits (l : List Char) (h : ∀ c ∈ l, c ∈ decDigits) : l.count '.' = 0 := by
  apply List.count_eq_zero.mpr
  intro hm
  have := h '.' hm
  revert this; decide

theorem fsuffix_nodot {sfx : String} (hs : sfx ∈ Spec.floatSuffixes) : sfx.toList.count '.' = 0 := by
  obtain ⟨_, _, hf⟩ := fsuffix_tbl sfx hs
  apply List.count_eq_zero.mpr
  intro hm
  exact (hf '.' hm).2.2.1 rfl

/-- **The float parser on a well-formed decimal floating constant**: a match whose three groups
spell exactly the constant, and no diagnostic. -/
theorem floatLogic_dec_valid (u : Uni) (k : DecFloat) (hk : k.WF) (rest : List Char) (hb : boundaryOK rest)
    (line col : Nat) :
    ∃ m, floatLogic u line col (k.render ++ rest) = .tok m none ∧ m.const ++ m.exp ++ m.suf = k.render := by
  cases k with
  | exp ip x sfx =>
    obtain ⟨hipne, hip, hx, hs⟩ := hk
    have haf := after_float u hs hb
    have hxe : isE x.e = true := by rcases hx.1 with h | h <;> rw [h] <;> decide
    have hxd : u.isD x.e = false := by
      have : x.e ∈ wordChars ∧ isAsciiDigit x.e = false := by rcases hx.1 with h | h <;> rw [h] <;> decide
      rw [isD_ascii u (word_tbl _ this.1).1]; exact this.2
    have hipD : ∀ c ∈ ip, u.isD c = true := fun c hc => (dec_facts u (hip c hc)).1
    have hsrc : DecFloat.render (.exp ip x sfx) ++ rest = ip ++ (x.render ++ (sfx.toList ++ rest)) := by
      simp [DecFloat.render, List.append_assoc]
    have hhead : ∀ c, (x.render ++ (sfx.toList ++ rest)).head? = some c → u.isD c = false := by
      intro c hc; simp [ExpPart.render] at hc; subst hc; exact hxd
    have htw : (ip ++ (x.render ++ (sfx.toList ++ rest))).takeWhile u.isD = ip := takeWhile_app hipD hhead
    have hdw : (ip ++ (x.render ++ (sfx.toList ++ rest))).dropWhile u.isD = x.render ++ (sfx.toList ++ rest) :=
      dropWhile_app hipD hhead
    have hme := matchExp_valid u x hx (sfx.toList ++ rest) (fun c hc => (haf c hc).1) (tailDec u)
    have hm : matchFloatExp u (ip ++ (x.render ++ (sfx.toList ++ rest))) =
        some ⟨.exponent, ip, x.render, sfx.toList⟩ := by
      unfold matchFloatExp spanP
      simp only [htw, hdw, hme]
      have h1 : ip.isEmpty = false := by cases ip with | nil => exact absurd rfl hipne | cons a b => rfl
      have h2 : x.render.isEmpty = false := by simp [ExpPart.render]
      simp only [h1, h2, Bool.false_eq_true, ↓reduceIte, List.drop_left', floatSuffix_valid u hs hb]
    refine ⟨⟨.exponent, ip, x.render, sfx.toList⟩, ?_, by simp [DecFloat.render, List.append_assoc]⟩
    rw [hsrc]
    unfold floatLogic
    simp only [hm]
    have hge := goodExponent_valid u x hx
    have hcnt : ip.count '.' = 0 := count_dot_digits ip hip
    have hsf : Generated.floatSuffixes.contains (String.ofList sfx.toList) = true := by
      rw [String.ofList_toList]; exact (fsuffix_tbl sfx hs).1
    have hsf' : sfx ∈ Generated.floatSuffixes := by simpa using hsf
    simp [hge, hcnt, hsf']
  | frac ip fp x sfx =>
    obtain ⟨hne, hip, hfp, hxw, hs⟩ := hk
    have haf := after_float u hs hb
    have hipD : ∀ c ∈ ip, u.isD c = true := fun c hc => (dec_facts u (hip c hc)).1
    have hfpD : ∀ c ∈ fp, u.isD c = true := fun c hc => (dec_facts u (hfp c hc)).1
    -- X = the rendered exponent part (possibly empty); its head, if any, is no digit
    let X : List Char := ExpPart.renderOpt x
    have hXhead : ∀ c, (X ++ (sfx.toList ++ rest)).head? = some c → u.isD c = false := by
      intro c hc
      cases hx : x with
      | none => simp only [X, hx, ExpPart.renderOpt, List.nil_append] at hc; exact (haf c hc).1
      | some y =>
        simp only [X, hx, ExpPart.renderOpt, ExpPart.render, List.cons_append, List.head?_cons, Option.some.injEq] at hc
        subst hc
        have hy := hxw y hx
        have : y.e ∈ wordChars ∧ isAsciiDigit y.e = false := by rcases hy.1 with h | h <;> rw [h] <;> decide
        rw [isD_ascii u (word_tbl _ this.1).1]; exact this.2
    have hsrc : DecFloat.render (.frac ip fp x sfx) ++ rest = ip ++ ('.' :: (fp ++ (X ++ (sfx.toList ++ rest)))) := by
      simp [DecFloat.render, X, List.append_assoc]
    have hdot : ∀ c, ('.' :: (fp ++ (X ++ (sfx.toList ++ rest)))).head? = some c → u.isD c = false := by
      intro c hc; simp at hc; subst hc
      rw [isD_ascii u (by decide)]; decide
    have htw : (ip ++ ('.' :: (fp ++ (X ++ (sfx.toList ++ rest))))).takeWhile u.isD = ip := takeWhile_app hipD hdot
    have hdw : (ip ++ ('.' :: (fp ++ (X ++ (sfx.toList ++ rest))))).dropWhile u.isD = '.' :: (fp ++ (X ++ (sfx.toList ++ rest))) :=
      dropWhile_app hipD hdot
    have hfs : (fp ++ (X ++ (sfx.toList ++ rest))).takeWhile u.isD = fp := takeWhile_app hfpD hXhead
    -- the exponent group on X ++ sfx ++ rest
    have hme : matchExp isE u.isD (tailDec u) (X ++ (sfx.toList ++ rest)) = X := by
      cases hx : x with
      | none =>
        simp only [X, hx, ExpPart.renderOpt, List.nil_append]
        unfold matchExp spanP
        have : (sfx.toList ++ rest).takeWhile isE = [] := by
          cases hl : sfx.toList ++ rest with
          | nil => rfl
          | cons c tl =>
            have := (haf c (by rw [hl]; rfl)).2.1
            simp [List.takeWhile, this]
        simp [this]
      | some y =>
        simp only [X, hx, ExpPart.renderOpt]
        exact matchExp_valid u y (hxw y hx) (sfx.toList ++ rest) (fun c hc => (haf c hc).1) (tailDec u)
    -- the exponent pattern does not apply (a dot follows the digits, or there are no digits)
    have hm1 : matchFloatExp u (ip ++ ('.' :: (fp ++ (X ++ (sfx.toList ++ rest))))) = none := by
      unfold matchFloatExp spanP
      simp only [htw, hdw]
      split
      · rfl
      · have : matchExp isE u.isD (tailDec u) ('.' :: (fp ++ (X ++ (sfx.toList ++ rest)))) = [] := by
          unfold matchExp spanP
          simp [List.takeWhile, isE_facts.2.2.2.2.2]
        simp [this]
    let c := if fp.isEmpty then ip ++ ['.'] else ip ++ '.' :: fp
    have hm2 : matchFloatFrac u (ip ++ ('.' :: (fp ++ (X ++ (sfx.toList ++ rest))))) =
        some ⟨.fractional, ip ++ '.' :: fp, X, sfx.toList⟩ := by
      unfold matchFloatFrac spanP
      simp only [htw, hdw, hfs]
      cases hfe : fp with
      | nil =>
        have hipne : ip.isEmpty = false := by
          rcases hne with h | h
          · cases ip with | nil => exact absurd rfl h | cons a b => rfl
          · exact absurd hfe h
        simp only [List.isEmpty_nil, Bool.not_true, Bool.false_eq_true, ↓reduceIte, hipne, Bool.not_false,
          List.nil_append]
        simp [hme, floatSuffix_valid u hs hb]
      | cons f0 fs =>
        simp only [List.isEmpty_cons, Bool.not_false, ↓reduceIte]
        have hdrop : (f0 :: fs ++ (X ++ (sfx.toList ++ rest))).drop (f0 :: fs).length = X ++ (sfx.toList ++ rest) := by
          simp
        rw [hdrop]
        simp only [hme, List.drop_left', floatSuffix_valid u hs hb]
    refine ⟨⟨.fractional, ip ++ '.' :: fp, X, sfx.toList⟩, ?_, by simp [DecFloat.render, X, List.append_assoc]⟩
    rw [hsrc]
    unfold floatLogic
    simp only [hm1, hm2]
    have hsf : Generated.floatSuffixes.contains (String.ofList sfx.toList) = true := by
      rw [String.ofList_toList]; exact (fsuffix_tbl sfx hs).1
    have hsd := fsuffix_nodot hs
    have hsf' : sfx ∈ Generated.floatSuffixes := by simpa using hsf
    have hgx : ¬ X = [] → goodExponent u X = true := by
      intro hX
      cases hx : x with
      | none => simp [X, hx, ExpPart.renderOpt] at hX
      | some y =>
        have := goodExponent_valid u y (hxw y hx)
        simpa [X, hx, ExpPart.renderOpt] using this
    simp [hsf', hsd]
    exact hgx

end Norm

namespace Norm
open Spec

theorem plain_of_word {c : Char} (h : c ∈ wordChars) : plainChar c := by
  obtain ⟨a, b, c', d, e, _, _⟩ := word_plain c h
  exact ⟨a, b, c', d, e⟩

theorem dec_sub_word : ∀ c ∈ decDigits, c ∈ wordChars := by decide

theorem expPart_plain (x : ExpPart) (hx : x.WF) : ∀ c ∈ x.render, plainChar c := by
  obtain ⟨he, hsign, _, hdig⟩ := hx
  intro c hc
  simp only [ExpPart.render, List.mem_cons, List.mem_append, Option.mem_toList] at hc
  rcases hc with rfl | hc | hc
  · rcases he with h | h <;> rw [h] <;> (unfold plainChar; decide)
  · rcases hsign c hc with rfl | rfl <;> (unfold plainChar; decide)
  · exact plain_of_word (dec_sub_word c (hdig c hc))

theorem decFloat_plain (k : DecFloat) (hk : k.WF) : ∀ c ∈ k.render, plainChar c := by
  cases k with
  | exp ip x sfx =>
    obtain ⟨_, hip, hx, hs⟩ := hk
    intro c hc
    simp only [DecFloat.render, List.mem_append] at hc
    rcases hc with (hc | hc) | hc
    · exact plain_of_word (dec_sub_word c (hip c hc))
    · exact expPart_plain x hx c hc
    · exact plain_of_word ((fsuffix_tbl sfx hs).2.1 c hc)
  | frac ip fp x sfx =>
    obtain ⟨_, hip, hfp, hxw, hs⟩ := hk
    intro c hc
    simp only [DecFloat.render, List.mem_append, List.mem_cons] at hc
    rcases hc with ((hc | rfl | hc) | hc) | hc
    · exact plain_of_word (dec_sub_word c (hip c hc))
    · unfold plainChar; decide
    · exact plain_of_word (dec_sub_word c (hfp c hc))
    · cases hx : x with
      | none => rw [hx] at hc; simp [ExpPart.renderOpt] at hc
      | some y => rw [hx] at hc; exact expPart_plain y (hxw y hx) c hc
    · exact plain_of_word ((fsuffix_tbl sfx hs).2.1 c hc)

/-- **A well-formed decimal floating constant becomes one CONSTANT token spanning exactly the
constant, with no lexical diagnostic** — digit strings of any length, with or without a fraction,
with or without an exponent (either letter, either sign or none), every suffix of the standard, at
any position, whatever follows (within `boundaryOK`). -/
theorem float_valid (u : Uni) (k : DecFloat) (hk : k.WF) (rest : List Char) (hb : boundaryOK rest)
    (s : LexSt) (hr : s.rest = k.render ++ rest) :
    ∃ s' t, trySubLexers u s = .ok (some (s', t)) ∧ t.type = "CONSTANT" ∧
      t.value = some (String.ofList k.render) ∧ t.line = s.line ∧ t.col = s.col ∧
      s'.rest = rest ∧ s'.diags = s.diags := by
  obtain ⟨m, hfl, hm⟩ := floatLogic_dec_valid u k hk rest hb s.line s.col
  have hlen : m.const.length + m.exp.length + m.suf.length = k.render.length := by
    rw [← hm]; simp [List.length_append]; omega
  obtain ⟨n1, n2, n3⟩ := popN_plain k.render rest s hr (decFloat_plain k hk)
  have hne : k.render ≠ [] := by
    cases k with
    | exp ip x sfx => simp [DecFloat.render, ExpPart.render]
    | frac ip fp x sfx => simp [DecFloat.render]
  have hpf : ∃ s', parseFloat u s = some (s', mkTok "CONSTANT" s s' (some k.render)) ∧ s'.rest = rest ∧ s'.diags = s.diags := by
    unfold parseFloat
    rw [hr]
    cases hkr : k.render ++ rest with
    | nil =>
      exfalso
      have := congrArg List.length hkr
      simp only [List.length_append, List.length_nil] at this
      have : k.render.length = 0 := by omega
      exact hne (List.eq_nil_of_length_eq_zero this)
    | cons c0 tl0 =>
      simp only
      rw [← hkr, hfl]
      simp only [LexSt.addDiag?, hlen]
      cases hpn : popN k.render.length s with
      | mk s2 r2 =>
        rw [hpn] at n1 n2 n3
        simp only at n1 n2 n3
        subst n1
        exact ⟨s2, rfl, n2, n3⟩
  obtain ⟨s', h1, h2, h3⟩ := hpf
  refine ⟨s', mkTok "CONSTANT" s s' (some k.render), ?_, rfl, rfl, rfl, rfl, h2, h3⟩
  unfold trySubLexers
  rw [h1]

end Norm
