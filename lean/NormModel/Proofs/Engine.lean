/- Invariants of the engine loop, for every rule table (`step`). -/
import NormModel.Model.Engine
namespace Norm

/-- how many times token index `i` has been accounted for: segments containing it plus
occurrences in the unrecognised list -/
def cover (trace : List Segment) (unrec : List Nat) (i : Nat) : Nat :=
  (trace.filter (fun g => decide (g.start ≤ i ∧ i < g.start + g.len))).length + unrec.count i

theorem cover_nil (i : Nat) : cover [] [] i = 0 := by simp [cover]

theorem cover_snoc_seg (trace : List Segment) (u : List Nat) (g : Segment) (i : Nat) :
    cover (trace ++ [g]) u i = cover trace u i + (if g.start ≤ i ∧ i < g.start + g.len then 1 else 0) := by
  unfold cover
  simp only [List.filter_append, List.length_append, List.filter_cons, List.filter_nil]
  split <;> simp_all <;> omega

theorem cover_snoc_unrec (trace : List Segment) (u : List Nat) (p i : Nat) :
    cover trace (u ++ [p]) i = cover trace u i + (if i = p then 1 else 0) := by
  unfold cover
  by_cases h : i = p
  · subst h; simp [List.count_append]; omega
  · have h' : ¬ p = i := fun e => h e.symm
    simp [List.count_append, h, h']

/-- the loop invariant -/
structure EInv (N pos n : Nat) (trace : List Segment) (unrec dropped : List Nat) (debug : Nat) : Prop where
  total : pos + n = N
  cov : ∀ i, cover trace (dropped ++ unrec) i = if i < pos then 1 else 0
  segs : ∀ g ∈ trace, 1 ≤ g.len ∧ g.start + g.len ≤ pos
  nodrop : debug = 0 → dropped = []

/-- what a finished run guarantees -/
structure EPost (N : Nat) (trace : List Segment) (u : List Nat) : Prop where
  cov : ∀ i, cover trace u i = if i < N then 1 else 0
  segs : ∀ g ∈ trace, 1 ≤ g.len ∧ g.start + g.len ≤ N

theorem einv_init (n debug : Nat) : EInv n 0 n [] [] [] debug where
  total := by omega
  cov := by intro i; simp [cover]
  segs := by intro g hg; cases hg
  nodrop := fun _ => rfl

theorem engineLoop_post {σ : Type} (step : σ → Nat → StepRes σ) (debug N : Nat) :
    ∀ (fuel : Nat) (s : σ) (pos n : Nat) (trace : List Segment) (unrec dropped : List Nat),
      EInv N pos n trace unrec dropped debug →
      ∀ s' t u, engineLoop step debug fuel s pos n trace unrec dropped = .ok s' t u →
        EPost N t u ∧ (debug = 0 → u = []) := by
  intro fuel
  induction fuel with
  | zero => intro s pos n trace unrec dropped _ s' t u h; simp [engineLoop] at h
  | succ fuel ih =>
    intro s pos n trace unrec dropped inv s' t u h
    unfold engineLoop at h
    split at h
    · rename_i hn
      split at h
      · cases h
      · rename_i hcond
        simp only [EngineOut.ok.injEq] at h
        obtain ⟨_, rfl, rfl⟩ := h
        have hpos : pos = N := by have := inv.total; omega
        refine ⟨⟨by rw [← hpos]; exact inv.cov, by rw [← hpos]; exact inv.segs⟩, ?_⟩
        intro hd
        have h1 := inv.nodrop hd
        have h2 : unrec = [] := by
          by_cases hu : unrec = []
          · exact hu
          · exact absurd ⟨hu, hd⟩ hcond
        simp [h1, h2]
    · rename_i hn
      split at h
      · cases h
      · cases h
      · cases h
      · -- noMatch
        rename_i s2 _
        apply ih _ _ _ _ _ _ _ _ _ _ h
        refine ⟨by have := inv.total; omega, ?_, ?_, inv.nodrop⟩
        · intro i
          rw [← List.append_assoc, cover_snoc_unrec, inv.cov i]
          repeat' split
          all_goals omega
        · intro g hg
          obtain ⟨a, b⟩ := inv.segs g hg
          exact ⟨a, by omega⟩
      · -- matched
        rename_i rule jump s2 _
        split at h
        · cases h
        · rename_i hj
          split at h
          · cases h
          · rename_i hcond
            apply ih _ _ _ _ _ _ _ _ _ _ h
            have hk : 1 ≤ min jump.toNat n := by
              have : 1 ≤ jump.toNat := by omega
              omega
            have hkn : min jump.toNat n ≤ n := Nat.min_le_right _ _
            refine ⟨by have := inv.total; omega, ?_, ?_, ?_⟩
            · intro i
              simp only [List.append_nil]
              rw [cover_snoc_seg, inv.cov i]
              simp only
              repeat' split
              all_goals omega
            · intro g hg
              rcases List.mem_append.mp hg with hg | hg
              · obtain ⟨a, b⟩ := inv.segs g hg
                exact ⟨a, by omega⟩
              · simp only [List.mem_singleton] at hg
                subst hg
                exact ⟨hk, by simp⟩
            · intro hd
              have h1 := inv.nodrop hd
              have h2 : unrec = [] := by
                by_cases hu : unrec = []
                · exact hu
                · exact absurd ⟨hu, hd⟩ hcond
              simp [h1, h2]

/-- Termination: with fuel > n the loop never runs out of fuel; `hang` only comes from a
rule that does not return. -/
theorem engineLoop_no_hang {σ : Type} (step : σ → Nat → StepRes σ) (debug : Nat)
    (hstep : ∀ s p, ∀ (_ : step s p = .hang), False) :
    ∀ (fuel : Nat) (s : σ) (pos n : Nat) (trace : List Segment) (unrec dropped : List Nat),
      n < fuel → engineLoop step debug fuel s pos n trace unrec dropped ≠ .hang := by
  intro fuel
  induction fuel with
  | zero => intro s pos n _ _ _ h; omega
  | succ fuel ih =>
    intro s pos n trace unrec dropped hf
    unfold engineLoop
    split
    · split <;> simp
    · rename_i hn
      split
      · simp
      · simp
      · rename_i hh; exact absurd hh (fun h => hstep _ _ h)
      · exact ih _ _ _ _ _ _ (by omega)
      · split
        · simp
        · rename_i hj
          split
          · simp
          · rename_i jump _ _ _
            apply ih
            have : 1 ≤ min jump.toNat n := by
              have : 1 ≤ jump.toNat := by omega
              omega
            omega

/-- A crash of the run is a crash of some rule call (the loop itself raises nothing else). -/
theorem engineLoop_crash {σ : Type} (step : σ → Nat → StepRes σ) (debug : Nat) :
    ∀ (fuel : Nat) (s : σ) (pos n : Nat) (trace : List Segment) (unrec dropped : List Nat) (w : String),
      engineLoop step debug fuel s pos n trace unrec dropped = .crash w → ∃ s p, step s p = .crash w := by
  intro fuel
  induction fuel with
  | zero => intro s pos n trace unrec dropped w h; simp [engineLoop] at h
  | succ fuel ih =>
    intro s pos n trace unrec dropped w h
    unfold engineLoop at h
    split at h
    · split at h <;> cases h
    · split at h
      · cases h
      · rename_i w' hw
        simp only [EngineOut.crash.injEq] at h
        subst h
        exact ⟨_, _, hw⟩
      · cases h
      · exact ih _ _ _ _ _ _ _ h
      · split at h
        · cases h
        · split at h
          · cases h
          · exact ih _ _ _ _ _ _ _ h

end Norm
