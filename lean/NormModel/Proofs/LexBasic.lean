/-
Refinement of the lexer primitives to the position specification: every state the model
reaches `Follows` the previous one, i.e. it consumed a prefix of the unread input, moved
(line, col) exactly as `Spec.advPos` says for the consumed raw characters, and only
appended diagnostics that carry a highlight.
-/
import NormModel.Model.Lexer
import NormModel.Spec.Position
import NormModel.Proofs.Reports
namespace Norm
open Spec

/-! ### the position specification -/

theorem advPos_append (p : Nat × Nat) (a b : List Char) :
    advPos p (a ++ b) = advPos (advPos p a) b := by
  simp [advPos, List.foldl_append]

theorem advPos_nil (p : Nat × Nat) : advPos p [] = p := rfl

def Clean (cs : List Char) : Prop := ∀ c ∈ cs, c ≠ '\n' ∧ c ≠ '\t'

theorem advPos_clean (p : Nat × Nat) (cs : List Char) (h : Clean cs) :
    advPos p cs = (p.1, p.2 + cs.length) := by
  induction cs generalizing p with
  | nil => simp [advPos]
  | cons c cs ih =>
    have hc := h c (by simp)
    have := ih (advPos1 p c) (fun x hx => h x (by simp [hx]))
    simp only [advPos, List.foldl_cons] at this ⊢
    rw [this]
    simp [advPos1, hc.1, hc.2]
    omega

theorem advPos_snoc_nl (p : Nat × Nat) (cs : List Char) :
    advPos p (cs ++ ['\n']) = ((advPos p cs).1 + 1, 1) := by
  rw [advPos_append]; simp [advPos, advPos1]

theorem advPos_line_eq (p : Nat × Nat) (l : List Char) : (advPos p l).1 = p.1 + l.count '\n' := by
  induction l generalizing p with
  | nil => simp [advPos]
  | cons c cs ih =>
    have := ih (advPos1 p c)
    simp only [advPos, List.foldl_cons] at this ⊢
    rw [this]
    unfold advPos1
    by_cases h : c = '\n'
    · subst h; simp; omega
    · by_cases h2 : c = '\t'
      · subst h2; simp
      · have : ¬ ('\n' = c) := fun e => h e.symm
        simp [h, h2, List.count_cons, this]

theorem advPos_col_pos (p : Nat × Nat) (l : List Char) (hp : 1 ≤ p.2) : 1 ≤ (advPos p l).2 := by
  induction l generalizing p with
  | nil => simpa [advPos] using hp
  | cons c cs ih =>
    have : 1 ≤ (advPos1 p c).2 := by
      unfold advPos1
      by_cases h : c = '\n'
      · subst h; simp
      · by_cases h2 : c = '\t'
        · subst h2; simp; omega
        · simp [h, h2]
    have := ih (advPos1 p c) this
    simpa [advPos, List.foldl_cons] using this

/-- the column is 1 exactly at the first character of a line -/
theorem visualPos_col_one (src : List Char) (k : Nat) (hk : k ≤ src.length) :
    (visualPos src k).2 = 1 ↔ (k = 0 ∨ src[k - 1]? = some '\n') := by
  cases k with
  | zero => simp [visualPos, advPos]
  | succ j =>
    have hj : j < src.length := by omega
    have htake : src.take (j + 1) = src.take j ++ [src[j]] := by
      rw [List.take_succ_eq_append_getElem hj]
    have hget : src[j + 1 - 1]? = some src[j] := by
      simp [List.getElem?_eq_getElem hj]
    have hp := advPos_col_pos (1, 1) (src.take j) (by decide)
    unfold visualPos
    rw [htake, advPos_append, hget]
    generalize advPos (1, 1) (src.take j) = q at hp
    have hq : advPos q [src[j]] = advPos1 q src[j] := rfl
    rw [hq]
    unfold advPos1
    by_cases h1 : src[j] = '\n'
    · simp [h1]
    · by_cases h2 : src[j] = '\t'
      · have h3 : ¬ ('\t' = '\n') := by decide
        simp only [h2, h3, ↓reduceIte, Option.some.injEq]
        constructor
        · intro h; omega
        · intro h; rcases h with h | h
          · omega
          · exact h.elim
      · simp only [h1, h2, ↓reduceIte, Option.some.injEq]
        constructor
        · intro h; omega
        · intro h; rcases h with h | h
          · omega
          · exact h.elim

/-! ### Follows -/

/-- the first highlight of `d` is the position of one of the unread raw characters of `s`
(`k` characters ahead), computed by the position specification -/
def DiagAt (s : LexSt) (d : Diag) : Prop :=
  ∃ hl tl k, d.highlights = hl :: tl ∧ k < s.rest.length ∧
    (hl.line, hl.col) = advPos (s.line, s.col) (s.rest.take k)

theorem DiagAt.hasHl {s : LexSt} {d : Diag} (h : DiagAt s d) : HasHl d := by
  obtain ⟨hl, tl, k, h1, _, _⟩ := h
  unfold HasHl; rw [h1]; simp

/-- `t` is reached from `s` by consuming exactly `n` raw characters. -/
def FollowsN (n : Nat) (s t : LexSt) : Prop :=
  n ≤ s.rest.length ∧ t.rest = s.rest.drop n ∧ t.pos = s.pos + n ∧
  (t.line, t.col) = advPos (s.line, s.col) (s.rest.take n) ∧
  ∃ ds, t.diags = s.diags ++ ds ∧ ∀ d ∈ ds, DiagAt s d

theorem DiagAt.of_follows {n : Nat} {s t : LexSt} {d : Diag}
    (h1 : n ≤ s.rest.length) (h2 : t.rest = s.rest.drop n)
    (h4 : (t.line, t.col) = advPos (s.line, s.col) (s.rest.take n)) (h : DiagAt t d) : DiagAt s d := by
  obtain ⟨hl, tl, k, e1, e2, e3⟩ := h
  rw [h2] at e2 e3
  simp only [List.length_drop] at e2
  refine ⟨hl, tl, n + k, e1, by omega, ?_⟩
  rw [e3, h4, ← advPos_append, List.take_add]

/-- a diagnostic at the very position of `s` (which still has a character to read) -/
theorem DiagAt.here {s : LexSt} {d : Diag} {hl : Highlight} {tl : List Highlight}
    (hd : d.highlights = hl :: tl) (hne : 0 < s.rest.length) (hp : (hl.line, hl.col) = (s.line, s.col)) :
    DiagAt s d :=
  ⟨hl, tl, 0, hd, hne, by simpa [advPos] using hp⟩

/-- a diagnostic `k` clean characters ahead of `s` -/
theorem DiagAt.ahead {s : LexSt} {d : Diag} {hl : Highlight} {tl : List Highlight} (k : Nat)
    (hd : d.highlights = hl :: tl) (hk : k < s.rest.length) (hc : Clean (s.rest.take k))
    (hp : (hl.line, hl.col) = (s.line, s.col + k)) : DiagAt s d := by
  refine ⟨hl, tl, k, hd, hk, ?_⟩
  rw [advPos_clean _ _ hc, hp]
  simp [List.length_take, Nat.min_eq_left (Nat.le_of_lt hk)]

def Follows (s t : LexSt) : Prop := ∃ n, FollowsN n s t
def Progress (s t : LexSt) : Prop := ∃ n, 0 < n ∧ FollowsN n s t

theorem FollowsN.refl (s : LexSt) : FollowsN 0 s s :=
  ⟨Nat.zero_le _, by simp, by simp, by simp [advPos], [], by simp, by simp⟩

theorem FollowsN.trans {n m : Nat} {s t u : LexSt} (h1 : FollowsN n s t) (h2 : FollowsN m t u) :
    FollowsN (n + m) s u := by
  obtain ⟨a1, a2, a3, a4, d1, a5, a6⟩ := h1
  obtain ⟨b1, b2, b3, b4, d2, b5, b6⟩ := h2
  rw [a2] at b1 b2 b4
  simp only [List.length_drop] at b1
  refine ⟨by omega, ?_, by omega, ?_, d1 ++ d2, ?_, ?_⟩
  · rw [b2, List.drop_drop]
  · rw [b4]
    have : s.rest.take (n + m) = s.rest.take n ++ (s.rest.drop n).take m := by
      rw [List.take_add]
    rw [this, advPos_append, a4]
  · rw [b5, a5, List.append_assoc]
  · intro d hd
    rcases List.mem_append.mp hd with h | h
    · exact a6 d h
    · exact DiagAt.of_follows a1 a2 a4 (b6 d h)

theorem Follows.refl (s : LexSt) : Follows s s := ⟨0, FollowsN.refl s⟩
theorem Follows.trans {s t u : LexSt} (h1 : Follows s t) (h2 : Follows t u) : Follows s u := by
  obtain ⟨n, h1⟩ := h1; obtain ⟨m, h2⟩ := h2; exact ⟨n + m, h1.trans h2⟩
theorem Progress.follows {s t : LexSt} (h : Progress s t) : Follows s t := by
  obtain ⟨n, _, h⟩ := h; exact ⟨n, h⟩
theorem Progress.trans_follows {s t u : LexSt} (h1 : Progress s t) (h2 : Follows t u) : Progress s u := by
  obtain ⟨n, hn, h1⟩ := h1; obtain ⟨m, h2⟩ := h2; exact ⟨n + m, by omega, h1.trans h2⟩
theorem Follows.trans_progress {s t u : LexSt} (h1 : Follows s t) (h2 : Progress t u) : Progress s u := by
  obtain ⟨n, h1⟩ := h1; obtain ⟨m, hm, h2⟩ := h2; exact ⟨n + m, by omega, h1.trans h2⟩

theorem follows_addDiag (s : LexSt) (d : Diag) (h : DiagAt s d) : FollowsN 0 s (s.addDiag d) :=
  ⟨Nat.zero_le _, by simp [LexSt.addDiag], by simp [LexSt.addDiag], by simp [LexSt.addDiag, advPos],
   [d], by simp [LexSt.addDiag], by simpa using h⟩

theorem follows_addDiags (s : LexSt) (ds : List Diag) (h : ∀ d ∈ ds, DiagAt s d) :
    FollowsN 0 s { s with diags := s.diags ++ ds } :=
  ⟨Nat.zero_le _, by simp, by simp, by simp [advPos], ds, rfl, h⟩

/-- a diagnostic placed relative to the state the step started from -/
theorem FollowsN.addDiag {n : Nat} {s t : LexSt} {d : Diag} (h : FollowsN n s t) (hd : DiagAt s d) :
    FollowsN n s (t.addDiag d) := by
  obtain ⟨a1, a2, a3, a4, ds, a5, a6⟩ := h
  refine ⟨a1, by simpa [LexSt.addDiag] using a2, by simpa [LexSt.addDiag] using a3,
    by simpa [LexSt.addDiag] using a4, ds ++ [d], by simp [LexSt.addDiag, a5], ?_⟩
  intro x hx
  rcases List.mem_append.mp hx with h | h
  · exact a6 x h
  · simp at h; subst h; exact hd

theorem FollowsN.addDiags {n : Nat} {s t : LexSt} {es : List Diag} (h : FollowsN n s t) (hd : ∀ d ∈ es, DiagAt s d) :
    FollowsN n s { t with diags := t.diags ++ es } := by
  obtain ⟨a1, a2, a3, a4, ds, a5, a6⟩ := h
  refine ⟨a1, a2, a3, a4, ds ++ es, by simp [a5], ?_⟩
  intro x hx
  rcases List.mem_append.mp hx with h | h
  · exact a6 x h
  · exact hd x h

theorem Follows.addDiag {s t : LexSt} {d : Diag} (h : Follows s t) (hd : DiagAt s d) : Follows s (t.addDiag d) := by
  obtain ⟨n, h⟩ := h; exact ⟨n, h.addDiag hd⟩
theorem Progress.addDiag {s t : LexSt} {d : Diag} (h : Progress s t) (hd : DiagAt s d) : Progress s (t.addDiag d) := by
  obtain ⟨n, hn, h⟩ := h; exact ⟨n, hn, h.addDiag hd⟩
theorem Follows.addDiags {s t : LexSt} {es : List Diag} (h : Follows s t) (hd : ∀ d ∈ es, DiagAt s d) :
    Follows s { t with diags := t.diags ++ es } := by
  obtain ⟨n, h⟩ := h; exact ⟨n, h.addDiags hd⟩
theorem Progress.addDiags {s t : LexSt} {es : List Diag} (h : Progress s t) (hd : ∀ d ∈ es, DiagAt s d) :
    Progress s { t with diags := t.diags ++ es } := by
  obtain ⟨n, hn, h⟩ := h; exact ⟨n, hn, h.addDiags hd⟩

/-! ### position-only steps (no claim about the diagnostics added) -/

def MovesN (n : Nat) (s t : LexSt) : Prop :=
  n ≤ s.rest.length ∧ t.rest = s.rest.drop n ∧ t.pos = s.pos + n ∧
  (t.line, t.col) = advPos (s.line, s.col) (s.rest.take n)
def Moves (s t : LexSt) : Prop := ∃ n, MovesN n s t

theorem FollowsN.moves {n : Nat} {s t : LexSt} (h : FollowsN n s t) : MovesN n s t :=
  ⟨h.1, h.2.1, h.2.2.1, h.2.2.2.1⟩
theorem Follows.moves {s t : LexSt} (h : Follows s t) : Moves s t := by
  obtain ⟨n, h⟩ := h; exact ⟨n, h.moves⟩
theorem Moves.refl (s : LexSt) : Moves s s := (Follows.refl s).moves

theorem MovesN.trans {n m : Nat} {s t u : LexSt} (h1 : MovesN n s t) (h2 : MovesN m t u) : MovesN (n + m) s u := by
  obtain ⟨a1, a2, a3, a4⟩ := h1
  obtain ⟨b1, b2, b3, b4⟩ := h2
  rw [a2] at b1 b2 b4
  simp only [List.length_drop] at b1
  refine ⟨by omega, ?_, by omega, ?_⟩
  · rw [b2, List.drop_drop]
  · rw [b4]
    have : s.rest.take (n + m) = s.rest.take n ++ (s.rest.drop n).take m := by
      rw [List.take_add]
    rw [this, advPos_append, a4]
theorem Moves.trans {s t u : LexSt} (h1 : Moves s t) (h2 : Moves t u) : Moves s u := by
  obtain ⟨n, h1⟩ := h1; obtain ⟨m, h2⟩ := h2; exact ⟨n + m, h1.trans h2⟩
theorem Moves.addDiag {s t : LexSt} (h : Moves s t) (d : Diag) : Moves s (t.addDiag d) := by
  obtain ⟨n, a1, a2, a3, a4⟩ := h
  exact ⟨n, a1, by simpa [LexSt.addDiag] using a2, by simpa [LexSt.addDiag] using a3, by simpa [LexSt.addDiag] using a4⟩
theorem MovesN.pos_sub {n : Nat} {s t : LexSt} (h : MovesN n s t) : t.pos - s.pos = n := by
  obtain ⟨_, _, h3, _⟩ := h; omega

theorem hasHl_mkDiag (name : String) (lvl : Level) (h : Highlight) (hs : List Highlight) :
    HasHl (mkDiag name lvl (h :: hs)) := by
  simp [HasHl, mkDiag]

theorem mkDiag_highlights (name : String) (lvl : Level) (hs : List Highlight) :
    (mkDiag name lvl hs).highlights = hs := rfl

/-- consuming `n` clean characters (no newline, no tab): the column moves by `n` -/
theorem follows_clean (s : LexSt) (n : Nat) (hn : n ≤ s.rest.length) (hc : Clean (s.rest.take n)) :
    FollowsN n s { advance s n with col := s.col + n } := by
  refine ⟨hn, by simp [advance], by simp [advance], ?_, [], by simp [advance], by simp⟩
  rw [advPos_clean _ _ hc]
  simp [advance, List.length_take, Nat.min_eq_left hn]

end Norm
