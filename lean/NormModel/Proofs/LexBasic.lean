/-
Refinement of the lexer primitives to the position specification: every state the model
reaches `Follows` the previous one, i.e. it consumed a prefix of the unread input, moved
(line, col) exactly as `Spec.advPos` says for the consumed raw characters, and only
appended diagnostics that carry a highlight.
-/
import NormModel.Model.Lexer
import NormModel.Spec.Position
import NormModel.Proofs.Reports
namespace Norm
open Spec

/-! ### the position specification -/

theorem advPos_append (p : Nat × Nat) (a b : List Char) :
    advPos p (a ++ b) = advPos (advPos p a) b := by
  simp [advPos, List.foldl_append]

theorem advPos_nil (p : Nat × Nat) : advPos p [] = p := rfl

def Clean (cs : List Char) : Prop := ∀ c ∈ cs, c ≠ '\n' ∧ c ≠ '\t'

theorem advPos_clean (p : Nat × Nat) (cs : List Char) (h : Clean cs) :
    advPos p cs = (p.1, p.2 + cs.length) := by
  induction cs generalizing p with
  | nil => simp [advPos]
  | cons c cs ih =>
    have hc := h c (by simp)
    have := ih (advPos1 p c) (fun x hx => h x (by simp [hx]))
    simp only [advPos, List.foldl_cons] at this ⊢
    rw [this]
    simp [advPos1, hc.1, hc.2]
    omega

theorem advPos_snoc_nl (p : Nat × Nat) (cs : List Char) :
    advPos p (cs ++ ['\n']) = ((advPos p cs).1 + 1, 1) := by
  rw [advPos_append]; simp [advPos, advPos1]

/-! ### Follows -/

/-- `t` is reached from `s` by consuming exactly `n` raw characters. -/
def FollowsN (n : Nat) (s t : LexSt) : Prop :=
  n ≤ s.rest.length ∧ t.rest = s.rest.drop n ∧ t.pos = s.pos + n ∧
  (t.line, t.col) = advPos (s.line, s.col) (s.rest.take n) ∧
  ∃ ds, t.diags = s.diags ++ ds ∧ ∀ d ∈ ds, HasHl d

def Follows (s t : LexSt) : Prop := ∃ n, FollowsN n s t
def Progress (s t : LexSt) : Prop := ∃ n, 0 < n ∧ FollowsN n s t

theorem FollowsN.refl (s : LexSt) : FollowsN 0 s s :=
  ⟨Nat.zero_le _, by simp, by simp, by simp [advPos], [], by simp, by simp⟩

theorem FollowsN.trans {n m : Nat} {s t u : LexSt} (h1 : FollowsN n s t) (h2 : FollowsN m t u) :
    FollowsN (n + m) s u := by
  obtain ⟨a1, a2, a3, a4, d1, a5, a6⟩ := h1
  obtain ⟨b1, b2, b3, b4, d2, b5, b6⟩ := h2
  rw [a2] at b1 b2 b4
  simp only [List.length_drop] at b1
  refine ⟨by omega, ?_, by omega, ?_, d1 ++ d2, ?_, ?_⟩
  · rw [b2, List.drop_drop]
  · rw [b4]
    have : s.rest.take (n + m) = s.rest.take n ++ (s.rest.drop n).take m := by
      rw [List.take_add]
    rw [this, advPos_append, a4]
  · rw [b5, a5, List.append_assoc]
  · intro d hd
    rcases List.mem_append.mp hd with h | h
    · exact a6 d h
    · exact b6 d h

theorem Follows.refl (s : LexSt) : Follows s s := ⟨0, FollowsN.refl s⟩
theorem Follows.trans {s t u : LexSt} (h1 : Follows s t) (h2 : Follows t u) : Follows s u := by
  obtain ⟨n, h1⟩ := h1; obtain ⟨m, h2⟩ := h2; exact ⟨n + m, h1.trans h2⟩
theorem Progress.follows {s t : LexSt} (h : Progress s t) : Follows s t := by
  obtain ⟨n, _, h⟩ := h; exact ⟨n, h⟩
theorem Progress.trans_follows {s t u : LexSt} (h1 : Progress s t) (h2 : Follows t u) : Progress s u := by
  obtain ⟨n, hn, h1⟩ := h1; obtain ⟨m, h2⟩ := h2; exact ⟨n + m, by omega, h1.trans h2⟩
theorem Follows.trans_progress {s t u : LexSt} (h1 : Follows s t) (h2 : Progress t u) : Progress s u := by
  obtain ⟨n, h1⟩ := h1; obtain ⟨m, hm, h2⟩ := h2; exact ⟨n + m, by omega, h1.trans h2⟩

theorem follows_addDiag (s : LexSt) (d : Diag) (h : HasHl d) : FollowsN 0 s (s.addDiag d) :=
  ⟨Nat.zero_le _, by simp [LexSt.addDiag], by simp [LexSt.addDiag], by simp [LexSt.addDiag, advPos],
   [d], by simp [LexSt.addDiag], by simpa using h⟩

theorem follows_addDiags (s : LexSt) (ds : List Diag) (h : ∀ d ∈ ds, HasHl d) :
    FollowsN 0 s { s with diags := s.diags ++ ds } :=
  ⟨Nat.zero_le _, by simp, by simp, by simp [advPos], ds, rfl, h⟩

theorem hasHl_mkDiag (name : String) (lvl : Level) (h : Highlight) (hs : List Highlight) :
    HasHl (mkDiag name lvl (h :: hs)) := by
  simp [HasHl, mkDiag]

/-- consuming `n` clean characters (no newline, no tab): the column moves by `n` -/
theorem follows_clean (s : LexSt) (n : Nat) (hn : n ≤ s.rest.length) (hc : Clean (s.rest.take n)) :
    FollowsN n s { advance s n with col := s.col + n } := by
  refine ⟨hn, by simp [advance], by simp [advance], ?_, [], by simp [advance], by simp⟩
  rw [advPos_clean _ _ hc]
  simp [advance, List.length_take, Nat.min_eq_left hn]

end Norm
