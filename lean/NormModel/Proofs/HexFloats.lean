/- Hexadecimal floating constants: the float parser on well-formed constants. -/
import NormModel.Proofs.Floats
namespace Norm
open Spec

theorem isP_facts : isP 'p' = true ∧ isP 'P' = true ∧ (∀ c ∈ hexDigits, isP c = false) ∧
    isP '+' = false ∧ isP '-' = false ∧ isP '.' = false := by decide

/-- the part of a floating suffix that the hexadecimal exponent group swallows (`f`, `F` are hexadecimal digits) and
the part left for the suffix group -/
def sfxSplit (sfx : String) : List Char × List Char :=
  if sfx = "f" ∨ sfx = "F" then (sfx.toList, []) else ([], sfx.toList)

theorem sfxSplit_spec : ∀ s ∈ Spec.floatSuffixes,
    (sfxSplit s).1 ++ (sfxSplit s).2 = s.toList ∧ (∀ c ∈ (sfxSplit s).1, c ∈ hexDigits) ∧
    (∀ c, (sfxSplit s).2.head? = some c → c ∉ hexDigits ∧ c ∈ wordChars) ∧
    Generated.floatSuffixes.contains (String.ofList (sfxSplit s).2) = true ∧ (sfxSplit s).2.count '.' = 0 ∧
    (∀ c ∈ (sfxSplit s).2, c ∈ wordChars) := by
  decide +kernel

/-- the exponent group of the hexadecimal pattern on a well-formed binary exponent, followed by hexadecimal digits
`H` (the `f`/`F` of a suffix) and then something that is no hexadecimal digit: the part and `H` -/
theorem matchBinExp_valid (u : Uni) (x : BinExp) (hx : x.WF) (H after : List Char) (hH : ∀ c ∈ H, c ∈ hexDigits)
    (ha : ∀ c, after.head? = some c → u.isH c = false) (tail : List Char → Nat) :
    matchExp isP u.isH tail (x.render ++ (H ++ after)) = x.render ++ H := by
  obtain ⟨hp, hsign, hne, hdig⟩ := hx
  have hisP : isP x.p = true := by rcases hp with h | h <;> rw [h] <;> decide
  have hdH : ∀ c ∈ x.digits ++ H, u.isH c = true := by
    intro c hc
    rcases List.mem_append.mp hc with h | h
    · exact (dec_facts u (hdig c h)).2.1
    · exact (hex_facts u (hH c h)).1
  have hdec_sub : ∀ c ∈ decDigits, c ∈ hexDigits := by decide
  obtain ⟨d0, ds, hds⟩ : ∃ d0 ds, x.digits = d0 :: ds := by
    cases hd : x.digits with
    | nil => exact absurd hd hne
    | cons a b => exact ⟨a, b, rfl⟩
  have hd0P : isP d0 = false := isP_facts.2.2.1 d0 (hdec_sub d0 (hdig d0 (by rw [hds]; simp)))
  have htw : ((x.digits ++ H) ++ after).takeWhile u.isH = x.digits ++ H := takeWhile_app hdH ha
  unfold matchExp spanP BinExp.render
  cases hs : x.sign with
  | none =>
    simp only [Option.toList_none, List.nil_append, List.cons_append]
    have h1 : (x.p :: (x.digits ++ (H ++ after))).takeWhile isP = [x.p] := by
      rw [hds]; simp [List.takeWhile, hisP, hd0P]
    have h2 : (x.p :: (x.digits ++ (H ++ after))).dropWhile isP = x.digits ++ (H ++ after) := by
      rw [hds]; simp [List.dropWhile, hisP, hd0P]
    simp only [h1, h2, List.isEmpty_cons, Bool.false_eq_true, ↓reduceIte]
    have hnots : (d0 == '+' || d0 == '-') = false := by
      have : ∀ c ∈ decDigits, (c == '+' || c == '-') = false := by decide
      exact this d0 (hdig d0 (by rw [hds]; simp))
    have htw' : (x.digits ++ (H ++ after)).takeWhile u.isH = x.digits ++ H := by
      rw [← List.append_assoc]; exact htw
    rw [hds] at htw' ⊢
    simp only [List.cons_append, hnots, Bool.false_eq_true, ↓reduceIte]
    rw [show d0 :: (ds ++ (H ++ after)) = (d0 :: ds) ++ (H ++ after) by rfl, htw']
    simp
  | some sg =>
    have hsg := hsign sg hs
    simp only [Option.toList_some, List.cons_append, List.nil_append]
    have hsgP : isP sg = false := by rcases hsg with rfl | rfl <;> decide
    have h1 : (x.p :: sg :: (x.digits ++ (H ++ after))).takeWhile isP = [x.p] := by
      simp [List.takeWhile, hisP, hsgP]
    have h2 : (x.p :: sg :: (x.digits ++ (H ++ after))).dropWhile isP = sg :: (x.digits ++ (H ++ after)) := by
      simp [List.dropWhile, hisP, hsgP]
    simp only [h1, h2, List.isEmpty_cons, Bool.false_eq_true, ↓reduceIte]
    have hsgb : (sg == '+' || sg == '-') = true := by rcases hsg with rfl | rfl <;> decide
    have htw' : (x.digits ++ (H ++ after)).takeWhile u.isH = x.digits ++ H := by
      rw [← List.append_assoc]; exact htw
    simp only [hsgb, ↓reduceIte, htw']
    rw [hds]
    simp

theorem goodBinExponent_valid (u : Uni) (x : BinExp) (hx : x.WF) (H : List Char) : goodBinExponent u (x.render ++ H) = true := by
  obtain ⟨hp, hsign, hne, hdig⟩ := hx
  have hisP : isP x.p = true := by rcases hp with h | h <;> rw [h] <;> decide
  obtain ⟨d0, ds, hds⟩ : ∃ d0 ds, x.digits = d0 :: ds := by
    cases hd : x.digits with
    | nil => exact absurd hd hne
    | cons a b => exact ⟨a, b, rfl⟩
  have hd0 : u.isD d0 = true := (dec_facts u (hdig d0 (by rw [hds]; simp))).1
  unfold goodBinExponent BinExp.render
  cases hs : x.sign with
  | none =>
    have hnots : (d0 == '+' || d0 == '-') = false := by
      have : ∀ c ∈ decDigits, (c == '+' || c == '-') = false := by decide
      exact this d0 (hdig d0 (by rw [hds]; simp))
    simp [hisP, hds, hnots, hd0]
  | some sg =>
    have hsgb : (sg == '+' || sg == '-') = true := by
      rcases hsign sg hs with rfl | rfl <;> decide
    simp [hisP, hds, hsgb, hd0]

theorem x_facts (u : Uni) {x : Char} (hx : x = 'x' ∨ x = 'X') :
    u.isD x = false ∧ u.isH x = false ∧ isE x = false ∧ x ≠ '.' ∧ (x == 'x' || x == 'X') = true ∧
    (Generated.hexadecimalDigits.toList ++ ['.']).contains x = false := by
  rcases hx with rfl | rfl
  · refine ⟨by rw [isD_ascii u (by decide)]; decide, by rw [isH_ascii u (by decide)]; decide, by decide, by decide, by decide, by decide⟩
  · refine ⟨by rw [isD_ascii u (by decide)]; decide, by rw [isH_ascii u (by decide)]; decide, by decide, by decide, by decide, by decide⟩

theorem hexbucket : ∀ c ∈ hexDigits, (Generated.hexadecimalDigits.toList ++ ['.']).contains c = true ∧
    (c == 'x' || c == 'X') = false ∧ c ≠ '.' := by decide

/-- `str.strip(hexadecimal digits + ".")` of `0x<mantissa>` is `x` -/
theorem strip_hexconst (x : Char) (hx : x = 'x' ∨ x = 'X') (mant : List Char)
    (hm : ∀ c ∈ mant, (Generated.hexadecimalDigits.toList ++ ['.']).contains c = true) :
    stripChars (Generated.hexadecimalDigits.toList ++ ['.']) ('0' :: x :: mant) = [x] := by
  have hxb : (Generated.hexadecimalDigits.toList ++ ['.']).contains x = false := by
    rcases hx with rfl | rfl <;> decide
  have h0 : (Generated.hexadecimalDigits.toList ++ ['.']).contains '0' = true := by decide
  unfold stripChars
  have e1 : ('0' :: x :: mant).dropWhile (Generated.hexadecimalDigits.toList ++ ['.']).contains = x :: mant := by
    simp only [List.dropWhile_cons, h0, hxb, ↓reduceIte, Bool.false_eq_true]
  rw [e1]
  have e2 : (x :: mant).reverse = mant.reverse ++ [x] := by simp
  rw [e2]
  have e3 : (mant.reverse ++ [x]).dropWhile (Generated.hexadecimalDigits.toList ++ ['.']).contains = [x] := by
    apply dropWhile_app
    · intro c hc; exact hm c (List.mem_reverse.mp hc)
    · intro c hc; simp at hc; subst hc; exact hxb
  rw [e3]; rfl

/-- the mantissa of the hexadecimal pattern on `ip`, `ip.`, `ip.fp`, `.fp`, followed by a text whose head is no
hexadecimal digit and no dot -/
theorem hexMantissa_valid (u : Uni) (ip : List Char) (frac : Option (List Char)) (tl : List Char)
    (hip : ∀ c ∈ ip, c ∈ hexDigits)
    (hfr : fracOK ip frac)
    (htl : ∀ c, tl.head? = some c → u.isH c = false ∧ c ≠ '.') :
    hexMantissa u ((ip ++ fracText frac) ++ tl) = some (ip ++ fracText frac, tl) := by
  have hipH : ∀ c ∈ ip, u.isH c = true := fun c hc => (hex_facts u (hip c hc)).1
  unfold hexMantissa
  cases frac with
  | none =>
    simp only [fracOK] at hfr
    simp only [fracText, List.append_nil]
    have t1 : (ip ++ tl).takeWhile u.isH = ip := takeWhile_app hipH (fun c hc => (htl c hc).1)
    have d1 : (ip ++ tl).dropWhile u.isH = tl := dropWhile_app hipH (fun c hc => (htl c hc).1)
    rw [t1, d1]
    cases hipl : ip with
    | nil => exact absurd hipl hfr
    | cons a as =>
      simp only
      cases htl' : tl with
      | nil => rfl
      | cons c r =>
        have hc : c ≠ '.' := (htl c (by rw [htl']; rfl)).2
        split
        · rename_i r' heq
          first
            | (simp only [List.cons.injEq] at heq; exact absurd heq.1 hc)
            | (simp only [List.cons.injEq] at r'; exact absurd r'.1 hc)
        · rfl
  | some fp =>
    simp only [fracOK] at hfr
    obtain ⟨hfp, hne⟩ := hfr
    have hfpH : ∀ c ∈ fp, u.isH c = true := fun c hc => (hex_facts u (hfp c hc)).1
    have hdot : ∀ c, ('.' :: (fp ++ tl)).head? = some c → u.isH c = false := by
      intro c hc; simp at hc; subst hc; rw [isH_ascii u (by decide)]; decide
    have t1 : (ip ++ ('.' :: (fp ++ tl))).takeWhile u.isH = ip := takeWhile_app hipH hdot
    have d1 : (ip ++ ('.' :: (fp ++ tl))).dropWhile u.isH = '.' :: (fp ++ tl) := dropWhile_app hipH hdot
    have t2 : (fp ++ tl).takeWhile u.isH = fp := takeWhile_app hfpH (fun c hc => (htl c hc).1)
    have d2 : (fp ++ tl).dropWhile u.isH = tl := dropWhile_app hfpH (fun c hc => (htl c hc).1)
    simp only [fracText, List.append_assoc, List.cons_append]
    rw [t1]
    cases hipl : ip with
    | nil =>
      simp only [List.nil_append]
      rw [t2]
      cases hfpl : fp with
      | nil => rcases hne with h | h; exact absurd hipl h; exact absurd hfpl h
      | cons f fs =>
        simp only
        rw [← hfpl]
        have : (fp ++ tl).drop fp.length = tl := by simp
        rw [this]
    | cons a as =>
      simp only
      rw [← hipl, d1]
      simp only [t2, d2]

/-- the three patterns and the diagnostic logic, once the mantissa, the exponent group and the suffix group are known -/
theorem floatLogic_hex_core (u : Uni) (line col : Nat) (x : Char) (hx : x = 'x' ∨ x = 'X') (mant E H L rest : List Char)
    (hmant : hexMantissa u (mant ++ (E ++ (H ++ (L ++ rest)))) = some (mant, E ++ (H ++ (L ++ rest))))
    (hme : matchExp isP u.isH (tailHex u) (E ++ (H ++ (L ++ rest))) = E ++ H)
    (hsuf : floatSuffix u (L ++ rest) = L)
    (hmh : ∀ c, (mant ++ (E ++ (H ++ (L ++ rest)))).head? = some c → (c == 'x' || c == 'X') = false)
    (hmantb : ∀ c ∈ mant, (Generated.hexadecimalDigits.toList ++ ['.']).contains c = true)
    (hEne : (E ++ H).isEmpty = false) (hgood : goodBinExponent u (E ++ H) = true)
    (hLdot : L.count '.' = 0) (hLs : String.ofList L ∈ Generated.floatSuffixes) :
    floatLogic u line col ('0' :: x :: (mant ++ (E ++ (H ++ (L ++ rest))))) =
      .tok ⟨.hexadecimal, '0' :: x :: mant, E ++ H, L⟩ none := by
  obtain ⟨x1, x2, x3, x4, x5, x6⟩ := x_facts u hx
  have h0 : u.isD '0' = true := by rw [isD_ascii u (by decide)]; decide
  have htwD : ('0' :: x :: (mant ++ (E ++ (H ++ (L ++ rest))))).takeWhile u.isD = ['0'] := by
    simp only [List.takeWhile_cons, h0, x1, ↓reduceIte, Bool.false_eq_true]
  have hdwD : ('0' :: x :: (mant ++ (E ++ (H ++ (L ++ rest))))).dropWhile u.isD = x :: (mant ++ (E ++ (H ++ (L ++ rest)))) := by
    simp only [List.dropWhile_cons, h0, x1, ↓reduceIte, Bool.false_eq_true]
  have hm1 : matchFloatExp u ('0' :: x :: (mant ++ (E ++ (H ++ (L ++ rest))))) = none := by
    unfold matchFloatExp spanP
    simp only [htwD, hdwD]
    have : matchExp isE u.isD (tailDec u) (x :: (mant ++ (E ++ (H ++ (L ++ rest))))) = [] :=
      matchExp_nil (by intro c hc; simp at hc; subst hc; exact x3)
    simp [this]
  have hm2 : matchFloatFrac u ('0' :: x :: (mant ++ (E ++ (H ++ (L ++ rest))))) = none := by
    unfold matchFloatFrac spanP
    simp only [htwD, hdwD]
    split
    · rfl
    · rename_i c r hc
      split at hc
      · rename_i r' heq
        simp only [List.cons.injEq] at heq
        exact absurd heq.1 x4
      · cases hc
  have hm3 : matchFloatHex u ('0' :: x :: (mant ++ (E ++ (H ++ (L ++ rest))))) =
      some ⟨.hexadecimal, '0' :: x :: mant, E ++ H, L⟩ := by
    unfold matchFloatHex
    simp only
    have tx : (x :: (mant ++ (E ++ (H ++ (L ++ rest))))).takeWhile (fun c => c == 'x' || c == 'X') = [x] := by
      have := takeWhile_app (p := fun c => c == 'x' || c == 'X') (s := [x]) (rest := mant ++ (E ++ (H ++ (L ++ rest))))
        (by intro c hc; simp at hc; subst hc; exact x5) hmh
      simpa using this
    have dx : (x :: (mant ++ (E ++ (H ++ (L ++ rest))))).dropWhile (fun c => c == 'x' || c == 'X') = mant ++ (E ++ (H ++ (L ++ rest))) := by
      have := dropWhile_app (p := fun c => c == 'x' || c == 'X') (s := [x]) (rest := mant ++ (E ++ (H ++ (L ++ rest))))
        (by intro c hc; simp at hc; subst hc; exact x5) hmh
      simpa using this
    rw [tx, dx, hmant]
    simp only [hme]
    have : (E ++ (H ++ (L ++ rest))).drop (E ++ H).length = L ++ rest := by
      rw [← List.append_assoc]; simp
    rw [this, hsuf]
    simp
  unfold floatLogic
  simp only [hm1, hm2, hm3]
  have hstrip := strip_hexconst x hx mant hmantb
  have hbad : (([x] : List Char) == ['x'] || ([x] : List Char) == ['X']) = true := by
    rcases hx with h | h <;> rw [h] <;> decide
  simp [hEne, hstrip, hgood, hLdot, hLs]
  try exact fun h => hx.resolve_left h

/-- **The float parser on a well-formed hexadecimal floating constant**: a match whose three groups spell exactly the
constant, and no diagnostic. -/
theorem floatLogic_hex_valid (u : Uni) (k : HexFloat) (hk : k.WF) (rest : List Char) (hb : boundaryOK rest)
    (line col : Nat) :
    ∃ m, floatLogic u line col (k.render ++ rest) = .tok m none ∧ m.const ++ m.exp ++ m.suf = k.render := by
  obtain ⟨hx, hip, hfr, hexp, hs⟩ := hk
  obtain ⟨sp1, sp2, sp3, sp4, sp5, sp6⟩ := sfxSplit_spec k.sfx hs
  generalize (sfxSplit k.sfx).1 = H at sp1 sp2
  generalize (sfxSplit k.sfx).2 = L at sp1 sp3 sp4 sp5 sp6
  have hnotH : ∀ c ∈ wordChars, c ∉ hexDigits → u.isH c = false := by
    intro c hw hn
    obtain ⟨h128, _⟩ := word_tbl c hw
    rw [isH_ascii u h128]
    have : ∀ c ∈ wordChars, c ∉ hexDigits → (isAsciiDigit c || hexLetters.contains c) = false := by decide
    exact this c hw hn
  have hLH : ∀ c, (L ++ rest).head? = some c → u.isH c = false := by
    intro c hc
    cases hL : L with
    | nil =>
      rw [hL] at hc; simp only [List.nil_append] at hc
      exact (boundary_head u hb c hc).2.2.1
    | cons d tl =>
      rw [hL] at hc; simp only [List.cons_append, List.head?_cons, Option.some.injEq] at hc
      subst hc
      obtain ⟨h1, h2⟩ := sp3 d (by rw [hL]; rfl)
      exact hnotH d h2 h1
  have hme := matchBinExp_valid u k.exp hexp H (L ++ rest) sp2 hLH (tailHex u)
  have hsuf : floatSuffix u (L ++ rest) = L := by
    unfold floatSuffix
    apply takeWhile_app
    · intro c hc; simp [word_facts u (sp6 c hc)]
    · intro c hc
      obtain ⟨h1, _, _, _, _, h6, _⟩ := boundary_head u hb c hc
      simp [h1, h6]
  have hEhead : ∀ c, (k.exp.render ++ (H ++ (L ++ rest))).head? = some c → u.isH c = false ∧ c ≠ '.' := by
    intro c hc
    simp only [BinExp.render, List.cons_append, List.head?_cons, Option.some.injEq] at hc
    subst hc
    rcases hexp.1 with h | h <;> rw [h]
    · exact ⟨by rw [isH_ascii u (by decide)]; decide, by decide⟩
    · exact ⟨by rw [isH_ascii u (by decide)]; decide, by decide⟩
  have hmant := hexMantissa_valid u k.ip k.frac (k.exp.render ++ (H ++ (L ++ rest))) hip hfr hEhead
  have hmh : ∀ c, (k.mant ++ (k.exp.render ++ (H ++ (L ++ rest)))).head? = some c → (c == 'x' || c == 'X') = false := by
    intro c hc
    unfold HexFloat.mant at hc
    cases hipl : k.ip with
    | cons a as =>
      rw [hipl] at hc; simp at hc; subst hc
      exact (hexbucket a (hip a (by rw [hipl]; simp))).2.1
    | nil =>
      rw [hipl] at hc
      cases hfrac : k.frac with
      | some fp => rw [hfrac] at hc; simp [fracText] at hc; subst hc; decide
      | none => rw [hfrac] at hfr; simp only [fracOK] at hfr; exact absurd hipl hfr
  have hmantb : ∀ c ∈ k.mant, (Generated.hexadecimalDigits.toList ++ ['.']).contains c = true := by
    intro c hc
    unfold HexFloat.mant at hc
    rcases List.mem_append.mp hc with h | h
    · exact (hexbucket c (hip c h)).1
    · cases hfrac : k.frac with
      | none => rw [hfrac] at h; simp [fracText] at h
      | some fp =>
        rw [hfrac] at h hfr
        simp only [fracOK] at hfr
        simp only [fracText] at h
        rcases List.mem_cons.mp h with rfl | h
        · decide
        · exact (hexbucket c (hfr.1 c h)).1
  have hcore := floatLogic_hex_core u line col k.x hx k.mant k.exp.render H L rest hmant hme hsuf hmh hmantb
    (by simp [BinExp.render]) (goodBinExponent_valid u k.exp hexp H) sp5 (by simpa using sp4)
  have hsrc : k.render ++ rest = '0' :: k.x :: (k.mant ++ (k.exp.render ++ (H ++ (L ++ rest)))) := by
    simp [HexFloat.render, ← sp1, List.append_assoc]
  refine ⟨⟨.hexadecimal, '0' :: k.x :: k.mant, k.exp.render ++ H, L⟩, by rw [hsrc]; exact hcore, ?_⟩
  simp [HexFloat.render, ← sp1, List.append_assoc]

theorem hex_sub_word : ∀ c ∈ hexDigits, c ∈ wordChars := by decide

theorem binExp_plain (x : BinExp) (hx : x.WF) : ∀ c ∈ x.render, plainChar c := by
  obtain ⟨hp, hsign, _, hdig⟩ := hx
  intro c hc
  simp only [BinExp.render, List.mem_cons, List.mem_append, Option.mem_toList] at hc
  rcases hc with rfl | hc | hc
  · rcases hp with h | h <;> rw [h] <;> (unfold plainChar; decide)
  · rcases hsign c hc with rfl | rfl <;> (unfold plainChar; decide)
  · exact plain_of_word (dec_sub_word c (hdig c hc))

theorem hexFloat_plain (k : HexFloat) (hk : k.WF) : ∀ c ∈ k.render, plainChar c := by
  obtain ⟨hx, hip, hfr, hexp, hs⟩ := hk
  intro c hc
  simp only [HexFloat.render, HexFloat.mant, List.mem_cons, List.mem_append] at hc
  rcases hc with rfl | rfl | (hc | hc) | hc | hc
  · unfold plainChar; decide
  · rcases hx with h | h <;> rw [h] <;> (unfold plainChar; decide)
  · exact plain_of_word (hex_sub_word c (hip c hc))
  · cases hfrac : k.frac with
    | none => rw [hfrac] at hc; simp [fracText] at hc
    | some fp =>
      rw [hfrac] at hc hfr
      simp only [fracText, List.mem_cons] at hc
      rcases hc with rfl | hc
      · unfold plainChar; decide
      · exact plain_of_word (hex_sub_word c (hfr.1 c hc))
  · exact binExp_plain k.exp hexp c hc
  · exact plain_of_word ((fsuffix_tbl k.sfx hs).2.1 c hc)

/-- **A well-formed hexadecimal floating constant becomes one CONSTANT token spanning exactly the constant, with no
lexical diagnostic** — `0x`/`0X`, hexadecimal digit strings of any length with or without a dot (digits on at least one
side), the mandatory binary exponent (either letter, either sign or none, decimal digits), every suffix of the
standard, at any position, whatever follows (within `boundaryOK`). -/
theorem hexfloat_valid (u : Uni) (k : HexFloat) (hk : k.WF) (rest : List Char) (hb : boundaryOK rest)
    (s : LexSt) (hr : s.rest = k.render ++ rest) :
    ∃ s' t, trySubLexers u s = .ok (some (s', t)) ∧ t.type = "CONSTANT" ∧
      t.value = some (String.ofList k.render) ∧ t.line = s.line ∧ t.col = s.col ∧
      s'.rest = rest ∧ s'.diags = s.diags := by
  obtain ⟨m, hfl, hm⟩ := floatLogic_hex_valid u k hk rest hb s.line s.col
  have hlen : m.const.length + m.exp.length + m.suf.length = k.render.length := by
    rw [← hm]; simp [List.length_append]; omega
  obtain ⟨n1, n2, n3⟩ := popN_plain k.render rest s hr (hexFloat_plain k hk)
  have hpf : ∃ s', parseFloat u s = some (s', mkTok "CONSTANT" s s' (some k.render)) ∧ s'.rest = rest ∧ s'.diags = s.diags := by
    unfold parseFloat
    rw [hr]
    have hkr : k.render ++ rest = '0' :: (k.x :: (k.mant ++ (k.exp.render ++ k.sfx.toList)) ++ rest) := by
      simp [HexFloat.render]
    rw [hkr]
    simp only
    rw [← hkr, hfl]
    simp only [LexSt.addDiag?, hlen]
    cases hpn : popN k.render.length s with
    | mk s2 r2 =>
      rw [hpn] at n1 n2 n3
      simp only at n1 n2 n3
      subst n1
      exact ⟨s2, rfl, n2, n3⟩
  obtain ⟨s', h1, h2, h3⟩ := hpf
  refine ⟨s', mkTok "CONSTANT" s s' (some k.render), ?_, rfl, rfl, rfl, rfl, h2, h3⟩
  unfold trySubLexers
  rw [h1]

end Norm
