/- `popOne` / `popN` refine the position specification. -/
import NormModel.Proofs.LexPeek
namespace Norm
open Spec

theorem peek1_first_raw {rest : List Char} {off : Nat} {t : Char} {k : Nat}
    (h : peek1 rest off = some (t, k)) :
    off + 1 ≤ rest.length ∧
    ∃ r, (rest.drop off).head? = some r ∧ ((k = 1 ∧ r = t) ∨ (cleanChar r ∧ cleanChar t)) := by
  obtain ⟨h1, h2, h3 | ⟨h3, h4, h5⟩⟩ := peek1_spec h
  · exact ⟨by omega, t, h3.2, Or.inl ⟨h3.1, rfl⟩⟩
  · refine ⟨by omega, ?_⟩
    cases hd : rest.drop off with
    | nil =>
      have := congrArg List.length hd
      simp at this; omega
    | cons r tl =>
      refine ⟨r, rfl, Or.inr ⟨?_, h5⟩⟩
      apply h4 r
      rw [hd]
      cases k with
      | zero => omega
      | succ k => simp

theorem clean_append {a b : List Char} (ha : Clean a) (hb : Clean b) : Clean (a ++ b) := by
  intro x hx
  rcases List.mem_append.mp hx with h | h
  · exact ha x h
  · exact hb x h

theorem take_add_prefix {l pre : List Char} {n : Nat} (h : pre <+: l.drop n) :
    l.take (n + pre.length) = l.take n ++ pre := by
  rw [List.take_add]
  congr 1
  exact List.prefix_iff_eq_take.mp h |>.symm

theorem prefix_length_le_drop {l pre : List Char} {n : Nat} (h : pre <+: l.drop n) (hn : n ≤ l.length) :
    n + pre.length ≤ l.length := by
  have := h.length_le
  simp only [List.length_drop] at this
  omega

theorem simpleEscapes_clean : ∀ c ∈ simpleEscapes, cleanChar c := by decide
theorem isHexDigit_clean {c : Char} (h : isHexDigit c = true) : cleanChar c := by
  constructor <;> (intro e; subst e; revert h; decide)
theorem isOctal_clean {c : Char} (h : isOctal c = true) : cleanChar c := by
  constructor <;> (intro e; subst e; revert h; decide)

theorem clean_takeWhile {p : Char → Bool} (hp : ∀ c, p c = true → cleanChar c) (l : List Char) :
    Clean (l.takeWhile p) := by
  intro x hx
  exact hp x (List.all_eq_true.mp List.all_takeWhile x hx)

/-- The escape handling of `pop(use_escape=True)`: it consumes `sz'` raw characters in all,
all on the same line; the column moves by `sz'` plus the tab adjustment. -/
theorem escape_spec (s : LexSt) (sz : Nat) (t : Char) (k : Nat)
    (hp : peek1 s.rest 0 = some ('\\', sz)) (hq : peek1 s.rest sz = some (t, k)) (ht : t ≠ '\n') :
    let r := escape s sz t k
    1 ≤ r.2.1 ∧ r.2.1 ≤ s.rest.length ∧ (∀ d ∈ r.2.2.1, DiagAt s d) ∧
    advPos (s.line, s.col) (s.rest.take r.2.1) = (s.line, s.col + r.2.2.2 + r.2.1) := by
  obtain ⟨hsz1, hszlen, _⟩ := peek1_spec hp
  simp only [Nat.zero_add] at hszlen
  have hcl : Clean (s.rest.take sz) := peek1_clean hp (by decide)
  obtain ⟨hlen1, r, hr, hrt⟩ := peek1_first_raw hq
  obtain ⟨hk1, hklen, hkspec⟩ := peek1_spec hq
  have htake : s.rest.take (sz + 1) = s.rest.take sz ++ [r] := take_succ_of_head hr
  have htakek : s.rest.take (sz + k) = s.rest.take sz ++ (s.rest.drop sz).take k := List.take_add
  -- the generic "sz+1 clean characters" conclusion
  have clean1 : cleanChar r → advPos (s.line, s.col) (s.rest.take (sz + 1)) = (s.line, s.col + 0 + (sz + 1)) := by
    intro hrc
    have : Clean (s.rest.take (sz + 1)) := by
      rw [htake]; exact clean_append hcl (by intro x hx; simp at hx; subst hx; exact hrc)
    rw [advPos_clean _ _ this]
    simp [List.length_take]; omega
  -- the spelling of `t` is clean unless it is a raw tab
  have cleank : t ≠ '\t' → advPos (s.line, s.col) (s.rest.take (sz + k)) = (s.line, s.col + 0 + (sz + k)) := by
    intro htab
    have hc2 : Clean ((s.rest.drop sz).take k) := by
      rcases hkspec with ⟨rfl, hh⟩ | ⟨_, hc, _⟩
      · intro x hx
        cases hd : s.rest.drop sz with
        | nil => rw [hd] at hx; simp at hx
        | cons y ys =>
          rw [hd] at hh hx
          simp at hh hx
          subst hh; subst hx
          exact ⟨ht, htab⟩
      · exact hc
    rw [htakek, advPos_clean _ _ (clean_append hcl hc2)]
    simp [List.length_take]; omega
  unfold escape
  simp only
  split
  · -- simple escape
    rename_i hs
    have htab : t ≠ '\t' := (simpleEscapes_clean t (by simpa using hs)).2
    exact ⟨Nat.le_trans hsz1 (Nat.le_add_right _ _), hklen, by simp, cleank htab⟩
  · split
    · -- \x
      rename_i _ hx
      have htx : t = 'x' := by simpa using hx
      have hrc : cleanChar r := by
        rcases hrt with ⟨_, rfl⟩ | ⟨h, _⟩
        · rw [htx]; decide
        · exact h
      simp only [takeWhileFrom]
      by_cases hds : ((s.rest.drop (sz + 1)).takeWhile isHexDigit).isEmpty = true
      · simp only [hds, ↓reduceIte]
        refine ⟨Nat.le_add_left 1 sz, hlen1, ?_, clean1 hrc⟩
        intro d hd; simp at hd; subst hd
        exact DiagAt.ahead sz (mkDiag_highlights _ _ _) (by omega) hcl (by simp)
      · -- hex digits
        simp only [hds, Bool.false_eq_true, ↓reduceIte]
        have hpre : (s.rest.drop (sz + 1)).takeWhile isHexDigit <+: s.rest.drop (sz + 1) := List.takeWhile_prefix _
        have hcl2 : Clean ((s.rest.drop (sz + 1)).takeWhile isHexDigit) := clean_takeWhile (fun c => isHexDigit_clean) _
        refine ⟨Nat.le_trans (Nat.le_add_left 1 sz) (Nat.le_add_right _ _), prefix_length_le_drop hpre hlen1, by simp, ?_⟩
        rw [take_add_prefix hpre]
        have : Clean (s.rest.take (sz + 1) ++ (s.rest.drop (sz + 1)).takeWhile isHexDigit) := by
          rw [htake]
          exact clean_append (clean_append hcl (by intro x hx; simp at hx; subst hx; exact hrc)) hcl2
        rw [advPos_clean _ _ this]
        simp [List.length_take]; omega
    · split
      · -- octal
        simp only [takeWhileFrom]
        have hpre : (s.rest.drop sz).takeWhile isOctal <+: s.rest.drop sz := List.takeWhile_prefix _
        have hcl2 : Clean ((s.rest.drop sz).takeWhile isOctal) := clean_takeWhile (fun c => isOctal_clean) _
        refine ⟨Nat.le_trans hsz1 (Nat.le_add_right _ _), prefix_length_le_drop hpre hszlen, by simp, ?_⟩
        rw [take_add_prefix hpre, advPos_clean _ _ (clean_append hcl hcl2)]
        simp [List.length_take]; omega
      · -- unknown escape
        refine ⟨Nat.le_trans hsz1 (Nat.le_add_right _ _), hklen,
          by intro d hd; simp at hd; subst hd; exact DiagAt.ahead sz (mkDiag_highlights _ _ _) (by omega) hcl (by simp), ?_⟩
        by_cases htab : t = '\t'
        · subst htab
          have hk : k = 1 := by
            rcases hkspec with ⟨h, _⟩ | ⟨_, _, h⟩
            · exact h
            · exact absurd rfl h.2
          subst hk
          have hr' : r = '\t' := by
            rcases hrt with ⟨_, h⟩ | ⟨_, h⟩
            · exact h
            · exact absurd rfl h.2
          subst hr'
          rw [htake, advPos_append, advPos_clean _ _ hcl]
          simp only [advPos, List.foldl_cons, List.foldl_nil, advPos1, List.length_take,
            Nat.min_eq_left hszlen, beq_self_eq_true, ↓reduceIte]
          simp
          have := Nat.mod_lt (s.col + sz - 1) (by decide : 0 < 4)
          omega
        · have hb : (t == '\t') = false := by simp [htab]
          simp only [hb, Bool.false_eq_true, ↓reduceIte]
          exact cleank htab

theorem escape_head (s : LexSt) (sz : Nat) (t : Char) (k : Nat) : (escape s sz t k).1.head? = some '\\' := by
  unfold escape
  simp only
  repeat' split
  all_goals rfl

theorem ne_of_head {l : List Char} {a b : Char} (h : l.head? = some a) (hab : a ≠ b) :
    (l == [b]) = false := by
  cases l with
  | nil => rfl
  | cons x xs => simp at h; subst h; simp [hab]

/-- `escOf` either leaves the peeked character alone or is an escape sequence. -/
theorem escOf_spec (ue : Bool) (s : LexSt) (c : Char) (sz : Nat) (hp : peek1 s.rest 0 = some (c, sz)) :
    escOf ue s c sz = ([c], sz, [], 0) ∨
    (c = '\\' ∧ (escOf ue s c sz).1.head? = some '\\' ∧
      1 ≤ (escOf ue s c sz).2.1 ∧ (escOf ue s c sz).2.1 ≤ s.rest.length ∧
      (∀ d ∈ (escOf ue s c sz).2.2.1, DiagAt s d) ∧
      advPos (s.line, s.col) (s.rest.take (escOf ue s c sz).2.1)
        = (s.line, s.col + (escOf ue s c sz).2.2.2 + (escOf ue s c sz).2.1)) := by
  unfold escOf
  split
  · rename_i hc
    simp only [Bool.and_eq_true, beq_iff_eq] at hc
    obtain ⟨rfl, _⟩ := hc
    split
    · rename_i t k hq
      split
      · rename_i ht
        have ht' : t ≠ '\n' := by simpa using ht
        right
        obtain ⟨h1, h2, h3, h4⟩ := escape_spec s sz t k hp hq ht'
        exact ⟨rfl, escape_head s sz t k, h1, h2, h3, h4⟩
      · left; rfl
    · left; rfl
  · left; rfl

theorem finishPop_plain (us : Bool) (s : LexSt) (c : Char) (sz : Nat)
    (hp : peek1 s.rest 0 = some (c, sz)) :
    FollowsN sz s (finishPop us s ([c], sz, [], 0)).1 ∧ 1 ≤ sz ∧
    ∃ cs, (finishPop us s ([c], sz, [], 0)).2 = some cs := by
  obtain ⟨hsz1, hszlen, _⟩ := peek1_spec hp
  simp only [Nat.zero_add] at hszlen
  refine ⟨?_, hsz1, ?_⟩
  · unfold finishPop
    simp only [List.append_nil]
    by_cases hnl : c = '\n'
    · subst hnl
      obtain ⟨rfl, hhead⟩ := peek1_ws hp (Or.inl rfl)
      simp only [beq_self_eq_true, ↓reduceIte]
      have := follows_splice s 0 hszlen (by intro x hx; simp at hx) (by simpa using hhead)
      simpa using this
    · have h1 : ([c] == ['\n']) = false := by simp [hnl]
      simp only [h1, Bool.false_eq_true, ↓reduceIte]
      by_cases htab : c = '\t'
      · subst htab
        obtain ⟨rfl, hhead⟩ := peek1_ws hp (Or.inr rfl)
        simp only [beq_self_eq_true, ↓reduceIte]
        refine ⟨hszlen, by simp [advance], by simp [advance], ?_, [], by simp [advance], by simp⟩
        have : s.rest.take 1 = ['\t'] := by
          have := take_succ_of_head (n := 0) (by simpa using hhead)
          simpa using this
        rw [this]
        simp [advPos, advPos1, advance]
      · have h2 : ([c] == ['\t']) = false := by simp [htab]
        simp only [h2, Bool.false_eq_true, ↓reduceIte]
        have hcl := peek1_clean hp ⟨hnl, htab⟩
        have := follows_clean s sz hszlen hcl
        simpa using this
  · unfold finishPop
    simp only
    split
    · exact ⟨_, rfl⟩
    · split <;> exact ⟨_, rfl⟩

theorem popOne_spec (us ue : Bool) (s : LexSt) :
    (∀ cs, (popOne us ue s).2 = some cs → Progress s (popOne us ue s).1) ∧
    ((popOne us ue s).2 = none → Follows s (popOne us ue s).1 ∧ (popOne us ue s).1.rest = []) := by
  obtain ⟨i1, i2, i3⟩ := spliceLoop_spec (s.rest.length + 1) s
  unfold popOne
  cases hsl : spliceLoop (s.rest.length + 1) s with
  | mk s1 r =>
    rw [hsl] at i1 i2 i3
    simp only at i1 i2 i3
    cases r with
    | none =>
      simp only
      exact ⟨(by intro cs h; cases h), fun _ => ⟨i1, i3 (by omega) rfl⟩⟩
    | some p =>
      obtain ⟨c, sz⟩ := p
      simp only
      have hp := i2 c sz rfl
      refine ⟨?_, ?_⟩
      · intro cs _
        rcases escOf_spec ue s1 c sz hp with he | ⟨_, hhead, h1, h2, h3, h4⟩
        · rw [he]
          obtain ⟨hf, hsz, _⟩ := finishPop_plain us s1 c sz hp
          exact i1.trans_progress ⟨sz, hsz, hf⟩
        · -- escape sequence: never a lone newline / tab
          apply i1.trans_progress
          refine ⟨(escOf ue s1 c sz).2.1, h1, ?_⟩
          unfold finishPop
          have hne1 : ((escOf ue s1 c sz).1 == ['\n']) = false := ne_of_head hhead (by decide)
          have hne2 : ((escOf ue s1 c sz).1 == ['\t']) = false := ne_of_head hhead (by decide)
          simp only [hne1, hne2, Bool.false_eq_true, ↓reduceIte]
          refine ⟨h2, by simp [advance], by simp [advance], ?_, (escOf ue s1 c sz).2.2.1, by simp [advance], h3⟩
          simp only [advance]
          rw [h4]
      · intro h
        exfalso
        unfold finishPop at h
        simp only at h
        split at h
        · cases h
        · split at h <;> cases h

/-- `popOne` either fails at the very end of the input or makes progress. -/
theorem popOne_some_of_rest (us ue : Bool) (s : LexSt) :
    (popOne us ue s).2 = none → (popOne us ue s).1.rest = [] := fun h => ((popOne_spec us ue s).2 h).2

theorem popN_spec (n : Nat) (s : LexSt) :
    Follows s (popN n s).1 ∧ (∀ cs, (popN n s).2 = some cs → 0 < n → Progress s (popN n s).1) := by
  induction n generalizing s with
  | zero => exact ⟨Follows.refl s, by intro _ _ h; omega⟩
  | succ n ih =>
    unfold popN
    obtain ⟨p1, p2⟩ := popOne_spec false false s
    cases hpo : popOne false false s with
    | mk s1 r =>
      rw [hpo] at p1 p2
      simp only at p1 p2
      cases r with
      | none => exact ⟨(p2 rfl).1, by intro cs h; cases h⟩
      | some cs =>
        have hp := p1 cs rfl
        obtain ⟨q1, _⟩ := ih s1
        simp only
        cases hpn : popN n s1 with
        | mk s2 r2 =>
          rw [hpn] at q1
          cases r2 with
          | none => exact ⟨hp.follows.trans q1, by intro cs h; cases h⟩
          | some ds => exact ⟨hp.follows.trans q1, fun _ _ _ => hp.trans_follows q1⟩

end Norm
