/- C11: the integer matcher on every well-formed integer constant. -/
import NormModel.Model.Lexer
import NormModel.Spec.Literals
namespace Norm
open Spec

/-! ### character-class facts (finite tables, checked case by case by `decide`) -/

theorem isW_ascii (u : Uni) {c : Char} (h : c.val < 128) :
    u.isW c = (isAsciiDigit c || isAsciiLetter c || c == '_') := by
  unfold Uni.isW; simp [h]
theorem isD_ascii (u : Uni) {c : Char} (h : c.val < 128) : u.isD c = isAsciiDigit c := by
  unfold Uni.isD; simp [h]
theorem isH_ascii (u : Uni) {c : Char} (h : c.val < 128) : u.isH c = (isAsciiDigit c || hexLetters.contains c) := by
  unfold Uni.isH; rw [isD_ascii u h]

theorem dec_tbl : ∀ c ∈ decDigits, c.val < 128 ∧ isAsciiDigit c = true ∧ isXc c = false ∧ isBc c = false ∧ c ≠ '.' := by
  decide
theorem hex_tbl : ∀ c ∈ hexDigits, c.val < 128 ∧ (isAsciiDigit c || hexLetters.contains c) = true ∧ isXc c = false
    ∧ "0123456789abcdefABCDEF".toList.contains c = true
    ∧ (isAsciiDigit c || isAsciiLetter c || c == '_') = true := by
  decide
theorem oct_tbl : ∀ c ∈ octDigits, c ∈ decDigits ∧ "01234567".toList.contains c = true := by decide
theorem bin_tbl : ∀ c ∈ binDigits, c ∈ decDigits ∧ "01".toList.contains c = true := by decide
theorem nonzero_tbl : ∀ c ∈ nonzeroDigits, c ∈ decDigits ∧ c ≠ '0' := by decide
theorem digits_sub_word : ∀ c ∈ asciiDigits, c ∈ wordChars := by decide
theorem letters_sub_word : ∀ c ∈ asciiLetters, c ∈ wordChars := by decide
theorem hexletters_sub_word : ∀ c ∈ hexLetters, c ∈ wordChars := by decide
theorem word_tbl : ∀ c ∈ wordChars, c.val < 128 ∧ (isAsciiDigit c || isAsciiLetter c || c == '_') = true := by
  decide

theorem dec_facts (u : Uni) {c : Char} (hc : c ∈ decDigits) :
    u.isD c = true ∧ u.isH c = true ∧ u.isW c = true ∧ isXc c = false ∧ isBc c = false ∧ c ≠ '.' := by
  obtain ⟨h1, h2, h3, h4, h5⟩ := dec_tbl c hc
  refine ⟨by rw [isD_ascii u h1]; exact h2, by rw [isH_ascii u h1, h2]; rfl, by rw [isW_ascii u h1, h2]; rfl, h3, h4, h5⟩

theorem hex_facts (u : Uni) {c : Char} (hc : c ∈ hexDigits) :
    u.isH c = true ∧ u.isW c = true ∧ isXc c = false ∧ "0123456789abcdefABCDEF".toList.contains c = true := by
  obtain ⟨h1, h2, h3, h4, h5⟩ := hex_tbl c hc
  exact ⟨by rw [isH_ascii u h1]; exact h2, by rw [isW_ascii u h1]; exact h5, h3, h4⟩

theorem word_facts (u : Uni) {c : Char} (hc : c ∈ wordChars) : u.isW c = true := by
  obtain ⟨h1, h2⟩ := word_tbl c hc
  rw [isW_ascii u h1]; exact h2

/-- a character that is ASCII and not a word character is in none of the classes -/
theorem nonword_facts (u : Uni) {c : Char} (ha : c.val < 128) (hw : c ∉ wordChars) :
    u.isW c = false ∧ u.isD c = false ∧ u.isH c = false ∧ isXc c = false ∧ isBc c = false := by
  have hd : isAsciiDigit c = false := by
    unfold isAsciiDigit
    cases h : asciiDigits.contains c
    · rfl
    · exact absurd (digits_sub_word c (by simpa using h)) hw
  have hl : isAsciiLetter c = false := by
    unfold isAsciiLetter
    cases h : asciiLetters.contains c
    · rfl
    · exact absurd (letters_sub_word c (by simpa using h)) hw
  have hu : (c == '_') = false := by
    cases h : c == '_'
    · rfl
    · have : c = '_' := by simpa using h
      subst this; exact absurd (by decide) hw
  have hx : hexLetters.contains c = false := by
    cases h : hexLetters.contains c
    · rfl
    · exact absurd (hexletters_sub_word c (by simpa using h)) hw
  refine ⟨by rw [isW_ascii u ha, hd, hl, hu]; rfl, by rw [isD_ascii u ha, hd], by rw [isH_ascii u ha, hd, hx]; rfl, ?_, ?_⟩
  · cases h : isXc c
    · rfl
    · unfold isXc at h; simp at h; rcases h with rfl | rfl <;> exact absurd (by decide) hw
  · cases h : isBc c
    · rfl
    · unfold isBc at h; simp at h; rcases h with rfl | rfl <;> exact absurd (by decide) hw

/-! ### span lemmas -/

theorem takeWhile_app {p : Char → Bool} {s rest : List Char} (hs : ∀ c ∈ s, p c = true)
    (hr : ∀ c, rest.head? = some c → p c = false) : (s ++ rest).takeWhile p = s := by
  rw [List.takeWhile_append_of_pos hs]
  cases rest with
  | nil => simp
  | cons c tl => simp [List.takeWhile_cons, hr c rfl]

theorem dropWhile_app {p : Char → Bool} {s rest : List Char} (hs : ∀ c ∈ s, p c = true)
    (hr : ∀ c, rest.head? = some c → p c = false) : (s ++ rest).dropWhile p = rest := by
  rw [List.dropWhile_append_of_pos hs]
  cases rest with
  | nil => simp
  | cons c tl => simp [List.dropWhile_cons, hr c rfl]

/-- what `boundaryOK` gives about the first character of the continuation -/
theorem boundary_head (u : Uni) {rest : List Char} (hb : boundaryOK rest) :
    ∀ c, rest.head? = some c →
      u.isW c = false ∧ u.isD c = false ∧ u.isH c = false ∧ isXc c = false ∧ isBc c = false ∧
      c ≠ '.' ∧ c ≠ '+' ∧ c ≠ '-' := by
  intro c hc
  cases rest with
  | nil => cases hc
  | cons d tl =>
    simp at hc; subst hc
    obtain ⟨h1, h2, h3, h4, h5⟩ := hb
    obtain ⟨a, b, c', d', e⟩ := nonword_facts u h1 h2
    exact ⟨a, b, c', d', e, h3, h4, h5⟩

theorem suffix_tbl : ∀ s ∈ Spec.integerSuffixes,
    Generated.integerSuffixes.contains s = true ∧ (∀ c ∈ s.toList, c ∈ wordChars) ∧
    (∀ c, s.toList.head? = some c →
      c ∉ hexDigits ∧ c ∉ decDigits ∧ isXc c = false ∧ isBc c = false ∧ c ≠ '.' ∧ c ≠ '+' ∧ c ≠ '-') := by
  decide +kernel

/-- the `Suffix` group picks up exactly a well-formed suffix -/
theorem intSuffix_eq (u : Uni) (last : Option Char) {s rest : List Char}
    (hs : ∀ c ∈ s, c ∈ wordChars) (hb : boundaryOK rest) : intSuffix u last (s ++ rest) = s := by
  have hbh := boundary_head u hb
  unfold intSuffix
  split
  · apply takeWhile_app
    · intro c hc; simp [word_facts u (hs c hc)]
    · intro c hc
      obtain ⟨h1, _, _, _, _, h6, h7, h8⟩ := hbh c hc
      simp [h1, h6, h7, h8]
  · cases s with
    | nil =>
      simp only [List.nil_append]
      cases rest with
      | nil => rfl
      | cons c tl => simp [(hbh c rfl).1]
    | cons c tl =>
      simp only [List.cons_append, word_facts u (hs c (by simp)), ↓reduceIte, List.cons.injEq, true_and]
      apply takeWhile_app
      · intro d hd; simp [word_facts u (hs d (by simp [hd]))]
      · intro d hd
        obtain ⟨h1, _, _, _, _, h6, _⟩ := hbh d hd
        simp [h1, h6]

theorem decDigits_eq : decDigits = asciiDigits := rfl
theorem hexLetters_sub : ∀ c ∈ hexLetters, c ∈ hexDigits := by decide

theorem nondigit_facts (u : Uni) {c : Char} (ha : c.val < 128) (h1 : c ∉ decDigits) (h2 : c ∉ hexDigits) :
    u.isD c = false ∧ u.isH c = false := by
  have hd : isAsciiDigit c = false := by
    unfold isAsciiDigit
    cases h : asciiDigits.contains c
    · rfl
    · exact absurd (by rw [decDigits_eq]; simpa using h) h1
  have hx : hexLetters.contains c = false := by
    cases h : hexLetters.contains c
    · rfl
    · exact absurd (hexLetters_sub c (by simpa using h)) h2
  exact ⟨by rw [isD_ascii u ha, hd], by rw [isH_ascii u ha, hd, hx]; rfl⟩

theorem shape_tbl : ∀ c ∈ wordChars, suffixHeadBad.contains c = false →
    c ∉ hexDigits ∧ c ∉ decDigits ∧ isXc c = false ∧ isBc c = false ∧ c ≠ '.' ∧ c ≠ '+' ∧ c ≠ '-' ∧
    isE c = false ∧ isP c = false := by decide

/-- what `suffixShape` says -/
theorem suffixShape_facts {s : List Char} (h : suffixShape s = true) :
    (∀ c ∈ s, c ∈ wordChars) ∧
    (∀ c, s.head? = some c →
      c ∉ hexDigits ∧ c ∉ decDigits ∧ isXc c = false ∧ isBc c = false ∧ c ≠ '.' ∧ c ≠ '+' ∧ c ≠ '-' ∧
      isE c = false ∧ isP c = false) := by
  unfold suffixShape at h
  simp only [Bool.and_eq_true, List.all_eq_true] at h
  obtain ⟨h1, h2⟩ := h
  have hw : ∀ c ∈ s, c ∈ wordChars := fun c hc => by simpa using h1 c hc
  refine ⟨hw, ?_⟩
  intro c hc
  cases s with
  | nil => cases hc
  | cons d tl =>
    simp at hc; subst hc
    simp only [Bool.not_eq_true'] at h2
    exact shape_tbl d (hw d (by simp)) h2

theorem suffix_shape_tbl : ∀ s ∈ Spec.integerSuffixes, suffixShape s.toList = true := by decide +kernel

theorem Spec.IntConst.WF.shape {k : IntConst} (h : k.WF) : k.Shape := by
  obtain ⟨hs, hb⟩ := h
  refine ⟨suffix_shape_tbl _ hs, ?_⟩
  cases hbse : k.base with
  | dec => rw [hbse] at hb; exact hb
  | oct =>
    rw [hbse] at hb; simp only at hb ⊢
    intro c hc
    have := (oct_tbl c (by have := hb c hc; unfold isOct at this; simpa using this)).1
    unfold isDec; simpa using this
  | hex x => rw [hbse] at hb; exact hb
  | bin b =>
    rw [hbse] at hb; simp only at hb ⊢
    refine ⟨hb.1, hb.2.1, ?_⟩
    intro c hc
    have := (bin_tbl c (by have := hb.2.2 c hc; unfold isBin at this; simpa using this)).1
    unfold isDec; simpa using this

/-- the first character after the digits of a constant (suffix or continuation) -/
theorem after_head (u : Uni) {sfx : List Char} (hs : suffixShape sfx = true) {rest : List Char}
    (hb : boundaryOK rest) : ∀ c, (sfx ++ rest).head? = some c →
      u.isD c = false ∧ u.isH c = false ∧ isXc c = false ∧ isBc c = false := by
  intro c hc
  obtain ⟨hw, hh⟩ := suffixShape_facts hs
  cases hl : sfx with
  | nil =>
    rw [hl] at hc
    obtain ⟨_, b, c', d, e, _⟩ := boundary_head u hb c (by simpa using hc)
    exact ⟨b, c', d, e⟩
  | cons d tl =>
    rw [hl] at hc
    simp at hc; subst hc
    obtain ⟨h1, h2, h3, h4, _⟩ := hh d (by rw [hl]; rfl)
    have hwd := (word_tbl d (hw d (by rw [hl]; simp))).1
    obtain ⟨a, b⟩ := nondigit_facts u hwd h2 h1
    exact ⟨a, b, h3, h4⟩

theorem badDigits_nil (line col : Nat) (m : IntMatch) (name : String) (bucket : List Char)
    (h : ∀ c ∈ m.const, bucket.contains c = true) : badDigits line col m name bucket = [] := by
  unfold badDigits
  have : (m.const.zipIdx m.pre.length).filterMap (fun (x : Char × Nat) =>
      if bucket.contains x.1 then none else some (⟨line, col + x.2, some 1, none⟩ : Highlight)) = [] := by
    rw [List.filterMap_eq_nil_iff]
    intro x hx
    have : x.1 ∈ m.const := by
      have := List.mem_zipIdx hx
      -- membership of the first component
      obtain ⟨i, hi⟩ := List.mem_iff_getElem.mp hx
      obtain ⟨hlt, hget⟩ := hi
      simp at hget
      rw [← hget]
      simp
    have hb := h x.1 this
    simp at hb
    simp [hb]
  simp only at this ⊢
  rw [this]; rfl

/-- result of closing a match: the suffix group is exactly the suffix-shaped text -/
theorem intFin_valid (u : Uni) (pre const : List Char) (hc : const ≠ []) {sfx : List Char}
    (hw : ∀ c ∈ sfx, c ∈ wordChars) {rest : List Char} (hb : boundaryOK rest) :
    intFin u pre const (sfx ++ rest) = some ⟨pre, const, sfx⟩ := by
  unfold intFin
  have : const.isEmpty = false := by cases const <;> simp_all
  simp only [this, Bool.false_eq_true, ↓reduceIte]
  rw [intSuffix_eq u _ hw hb]

theorem suffix_diag_nil {sfx : String} (hs : sfx ∈ Spec.integerSuffixes) :
    Generated.integerSuffixes.contains (String.ofList sfx.toList) = true := by
  rw [String.ofList_toList]; exact (suffix_tbl sfx hs).1

/-- the `Prefix` and `Constant` groups of the match of a constant of the given shape -/
def Spec.IntConst.mpre (k : IntConst) : List Char :=
  match k.base with
  | .dec => []
  | .oct => if k.digits = [] then [] else ['0']
  | .hex x => ['0', x]
  | .bin b => ['0', b]
def Spec.IntConst.mconst (k : IntConst) : List Char :=
  match k.base with
  | .oct => if k.digits = [] then ['0'] else k.digits
  | _ => k.digits

/-- **Every integer constant of the given shape — well-formed or not — is matched whole**: the groups of the
match are the prefix, the digits and the suffix-shaped text, whatever follows it (within `boundaryOK`). Unbounded
digit strings, all four bases, every suffix shape. -/
theorem matchInt_shape (u : Uni) (k : IntConst) (hk : k.Shape) (rest : List Char) (hb : boundaryOK rest) :
    matchInt u (k.render ++ rest) = some ⟨k.mpre, k.mconst, k.suffix.toList⟩ ∧
      k.mpre ++ k.mconst ++ k.suffix.toList = k.render := by
  obtain ⟨hs, hbase⟩ := hk
  have hah := after_head u hs hb
  have hw := (suffixShape_facts hs).1
  unfold IntConst.mpre IntConst.mconst
  unfold IntConst.render IntConst.body
  cases hbse : k.base with
  | dec =>
    rw [hbse] at hbase
    simp only at hbase ⊢
    obtain ⟨d, ds, hd, hnz, hds⟩ := hbase
    have hall : ∀ c ∈ k.digits, c ∈ decDigits := by
      rw [hd]; intro c hc
      rcases List.mem_cons.mp hc with rfl | hc
      · exact (nonzero_tbl _ hnz).1
      · have := hds c hc; unfold isDec at this; simpa using this
    have hd0 : d ≠ '0' := (nonzero_tbl d hnz).2
    have htw : (k.digits ++ (k.suffix.toList ++ rest)).takeWhile u.isD = k.digits :=
      takeWhile_app (fun c hc => (dec_facts u (hall c hc)).1) (fun c hc => (hah c hc).1)
    have hdw : (k.digits ++ (k.suffix.toList ++ rest)).dropWhile u.isD = k.suffix.toList ++ rest :=
      dropWhile_app (fun c hc => (dec_facts u (hall c hc)).1) (fun c hc => (hah c hc).1)
    have hne : k.digits ≠ [] := by rw [hd]; simp
    refine ⟨?_, by simp⟩
    rw [List.append_assoc]
    unfold matchInt
    rw [hd] at htw hdw ⊢
    simp only [List.cons_append] at htw hdw ⊢
    rw [htw, hdw, ← hd]
    exact intFin_valid u [] k.digits hne hw hb
  | oct =>
    rw [hbse] at hbase
    simp only at hbase ⊢
    have hall : ∀ c ∈ k.digits, c ∈ decDigits := fun c hc => by have := hbase c hc; unfold isDec at this; simpa using this
    -- what follows the leading `0`
    have htl_head : ∀ c, (k.digits ++ (k.suffix.toList ++ rest)).head? = some c → isXc c = false ∧ isBc c = false := by
      intro c hc
      cases hdg : k.digits with
      | nil => rw [hdg] at hc; obtain ⟨_, _, a, b⟩ := hah c (by simpa using hc); exact ⟨a, b⟩
      | cons e es =>
        rw [hdg] at hc
        simp only [List.cons_append, List.head?_cons, Option.some.injEq] at hc
        rw [← hc]
        obtain ⟨_, _, _, a, b, _⟩ := dec_facts u (hall e (by rw [hdg]; simp))
        exact ⟨a, b⟩
    have hX : intAltX u (k.digits ++ (k.suffix.toList ++ rest)) = none := by
      unfold intAltX
      have : (k.digits ++ (k.suffix.toList ++ rest)).takeWhile isXc = [] := by
        cases hl : k.digits ++ (k.suffix.toList ++ rest) with
        | nil => rfl
        | cons c tl => simp [List.takeWhile_cons, (htl_head c (by rw [hl]; rfl)).1]
      rw [this]
    have hB : intAltB u (k.digits ++ (k.suffix.toList ++ rest)) = none := by
      unfold intAltB
      have : (k.digits ++ (k.suffix.toList ++ rest)).takeWhile isBc = [] := by
        cases hl : k.digits ++ (k.suffix.toList ++ rest) with
        | nil => rfl
        | cons c tl => simp [List.takeWhile_cons, (htl_head c (by rw [hl]; rfl)).2]
      rw [this]
    have htw : (k.digits ++ (k.suffix.toList ++ rest)).takeWhile u.isD = k.digits :=
      takeWhile_app (fun c hc => (dec_facts u (hall c hc)).1) (fun c hc => (hah c hc).1)
    have hdw : (k.digits ++ (k.suffix.toList ++ rest)).dropWhile u.isD = k.suffix.toList ++ rest :=
      dropWhile_app (fun c hc => (dec_facts u (hall c hc)).1) (fun c hc => (hah c hc).1)
    have h0 : u.isD '0' = true := (dec_facts u (by decide : '0' ∈ decDigits)).1
    by_cases hne : k.digits = []
    · -- the constant `0`
      rw [if_pos hne, if_pos hne]
      refine ⟨?_, by simp [hne]⟩
      · unfold matchInt
        simp only [List.cons_append, List.append_assoc, hX, hB]
        rw [htw, hdw, hne]
        simp only [intFin, List.isEmpty_nil, ↓reduceIte, List.nil_append]
        have htw0 : ('0' :: (k.suffix.toList ++ rest)).takeWhile u.isD = ['0'] := by
          have := takeWhile_app (p := u.isD) (s := ['0']) (rest := k.suffix.toList ++ rest)
            (by intro c hc; simp at hc; subst hc; exact h0) (fun c hc => (hah c hc).1)
          simpa using this
        have hdw0 : ('0' :: (k.suffix.toList ++ rest)).dropWhile u.isD = k.suffix.toList ++ rest := by
          have := dropWhile_app (p := u.isD) (s := ['0']) (rest := k.suffix.toList ++ rest)
            (by intro c hc; simp at hc; subst hc; exact h0) (fun c hc => (hah c hc).1)
          simpa using this
        rw [htw0, hdw0]
        have := intFin_valid u [] ['0'] (by simp) hw hb
        simpa [intFin] using this
    · rw [if_neg hne, if_neg hne]
      refine ⟨?_, by simp⟩
      · unfold matchInt
        simp only [List.cons_append, List.append_assoc, hX, hB]
        rw [htw, hdw, intFin_valid u ['0'] k.digits hne hw hb]
  | hex x =>
    rw [hbse] at hbase
    simp only at hbase ⊢
    obtain ⟨hx, hne, hhex⟩ := hbase
    have hall : ∀ c ∈ k.digits, c ∈ hexDigits := fun c hc => by have := hhex c hc; unfold isHex at this; simpa using this
    have hxX : isXc x = true := by rcases hx with rfl | rfl <;> decide
    have htwx : (x :: (k.digits ++ (k.suffix.toList ++ rest))).takeWhile isXc = [x] := by
      have := takeWhile_app (p := isXc) (s := [x]) (rest := k.digits ++ (k.suffix.toList ++ rest))
        (by intro c hc; simp at hc; subst hc; exact hxX)
        (by
          intro c hc
          cases hdg : k.digits with
          | nil => exact absurd hdg hne
          | cons e es =>
            rw [hdg] at hc
            simp only [List.cons_append, List.head?_cons, Option.some.injEq] at hc
            rw [← hc]; exact (hex_facts u (hall e (by rw [hdg]; simp))).2.2.1)
      simpa using this
    have hdwx : (x :: (k.digits ++ (k.suffix.toList ++ rest))).dropWhile isXc = k.digits ++ (k.suffix.toList ++ rest) := by
      have := dropWhile_app (p := isXc) (s := [x]) (rest := k.digits ++ (k.suffix.toList ++ rest))
        (by intro c hc; simp at hc; subst hc; exact hxX)
        (by
          intro c hc
          cases hdg : k.digits with
          | nil => exact absurd hdg hne
          | cons e es =>
            rw [hdg] at hc
            simp only [List.cons_append, List.head?_cons, Option.some.injEq] at hc
            rw [← hc]; exact (hex_facts u (hall e (by rw [hdg]; simp))).2.2.1)
      simpa using this
    have htw : (k.digits ++ (k.suffix.toList ++ rest)).takeWhile u.isH = k.digits :=
      takeWhile_app (fun c hc => (hex_facts u (hall c hc)).1) (fun c hc => (hah c hc).2.1)
    have hdw : (k.digits ++ (k.suffix.toList ++ rest)).dropWhile u.isH = k.suffix.toList ++ rest :=
      dropWhile_app (fun c hc => (hex_facts u (hall c hc)).1) (fun c hc => (hah c hc).2.1)
    refine ⟨?_, by simp⟩
    · unfold matchInt
      simp only [List.cons_append, List.append_assoc]
      unfold intAltX
      simp only [htwx, hdwx, htw, hdw, intFin_valid u ['0', x] k.digits hne hw hb]
  | bin b =>
    rw [hbse] at hbase
    simp only at hbase ⊢
    obtain ⟨hbb, hne, hbin⟩ := hbase
    have hall : ∀ c ∈ k.digits, c ∈ decDigits := fun c hc => by have := hbin c hc; unfold isDec at this; simpa using this
    have hbX : isXc b = false := by rcases hbb with rfl | rfl <;> decide
    have hbB : isBc b = true := by rcases hbb with rfl | rfl <;> decide
    have hX : intAltX u (b :: (k.digits ++ (k.suffix.toList ++ rest))) = none := by
      unfold intAltX; simp [List.takeWhile_cons, hbX]
    have hdig_head : ∀ c, (k.digits ++ (k.suffix.toList ++ rest)).head? = some c → isBc c = false := by
      intro c hc
      cases hdg : k.digits with
      | nil => exact absurd hdg hne
      | cons e es =>
        rw [hdg] at hc
        simp only [List.cons_append, List.head?_cons, Option.some.injEq] at hc
        rw [← hc]; exact (dec_facts u (hall e (by rw [hdg]; simp))).2.2.2.2.1
    have htwb : (b :: (k.digits ++ (k.suffix.toList ++ rest))).takeWhile isBc = [b] := by
      have := takeWhile_app (p := isBc) (s := [b]) (rest := k.digits ++ (k.suffix.toList ++ rest))
        (by intro c hc; simp at hc; subst hc; exact hbB) hdig_head
      simpa using this
    have hdwb : (b :: (k.digits ++ (k.suffix.toList ++ rest))).dropWhile isBc = k.digits ++ (k.suffix.toList ++ rest) := by
      have := dropWhile_app (p := isBc) (s := [b]) (rest := k.digits ++ (k.suffix.toList ++ rest))
        (by intro c hc; simp at hc; subst hc; exact hbB) hdig_head
      simpa using this
    have htw : (k.digits ++ (k.suffix.toList ++ rest)).takeWhile u.isD = k.digits :=
      takeWhile_app (fun c hc => (dec_facts u (hall c hc)).1) (fun c hc => (hah c hc).1)
    have hdw : (k.digits ++ (k.suffix.toList ++ rest)).dropWhile u.isD = k.suffix.toList ++ rest :=
      dropWhile_app (fun c hc => (dec_facts u (hall c hc)).1) (fun c hc => (hah c hc).1)
    refine ⟨?_, by simp⟩
    · unfold matchInt
      simp only [List.cons_append, List.append_assoc, hX]
      unfold intAltB
      simp only [htwb, hdwb, htw, hdw, intFin_valid u ['0', b] k.digits hne hw hb]

end Norm
