/-
The numeric matchers (`re.match` of the four literal patterns on the raw text) return a text that is a
prefix of the raw input and consists of characters that are neither a newline nor a tab.  Needed to place
the diagnostics of numeric literals: `col + k` is then the visual column of the k-th raw character.
-/
import NormModel.Proofs.LexPop
namespace Norm
open Spec

/-- `e` is a prefix of `l`, all of whose characters are clean -/
def CPrefix (e l : List Char) : Prop := e <+: l ∧ ∀ c ∈ e, cleanChar c

theorem CPrefix.nil (l : List Char) : CPrefix [] l := ⟨List.nil_prefix, by simp⟩

theorem mem_takeWhile_sat {q : Char → Bool} {l : List Char} {c : Char} (h : c ∈ l.takeWhile q) : q c = true :=
  List.all_eq_true.mp List.all_takeWhile c h

theorem CPrefix.takeWhile {q : Char → Bool} (hq : ∀ c, q c = true → cleanChar c) (l : List Char) :
    CPrefix (l.takeWhile q) l :=
  ⟨List.takeWhile_prefix _, fun c hc => hq c (mem_takeWhile_sat hc)⟩

theorem CPrefix.cons {c : Char} {e tl : List Char} (hc : cleanChar c) (h : CPrefix e tl) : CPrefix (c :: e) (c :: tl) := by
  obtain ⟨⟨r, hr⟩, hcl⟩ := h
  refine ⟨⟨r, by simp [hr]⟩, ?_⟩
  intro x hx
  simp only [List.mem_cons] at hx
  rcases hx with rfl | hx
  · exact hc
  · exact hcl x hx

theorem CPrefix.append {a b l : List Char} (ha : CPrefix a l) (hb : CPrefix b (l.drop a.length)) : CPrefix (a ++ b) l := by
  obtain ⟨⟨r, hr⟩, hca⟩ := ha
  obtain ⟨⟨r', hr'⟩, hcb⟩ := hb
  subst hr
  simp only [List.drop_left] at hr'
  subst hr'
  refine ⟨⟨r', by simp⟩, ?_⟩
  intro x hx
  rcases List.mem_append.mp hx with h | h
  · exact hca x h
  · exact hcb x h

theorem CPrefix.clean {e l : List Char} (h : CPrefix e l) : Clean e := h.2

theorem CPrefix.take_eq {e l : List Char} (h : CPrefix e l) : l.take e.length = e := by
  obtain ⟨⟨r, hr⟩, _⟩ := h
  subst hr; simp

theorem CPrefix.length_le {e l : List Char} (h : CPrefix e l) : e.length ≤ l.length := h.1.length_le

theorem drop_takeWhile_len (q : Char → Bool) (l : List Char) : l.drop (l.takeWhile q).length = l.dropWhile q := by
  induction l with
  | nil => rfl
  | cons x xs ih =>
    by_cases h : q x = true
    · simp [h, ih]
    · simp [h]

theorem take_takeWhile_len (q : Char → Bool) (l : List Char) : l.take (l.takeWhile q).length = l.takeWhile q := by
  induction l with
  | nil => rfl
  | cons x xs ih =>
    by_cases h : q x = true
    · simp [h, ih]
    · simp [h]

/-! ### the character classes are clean -/

theorem ascii_ne_of_ge {c : Char} (h : ¬ c.val < 128) : cleanChar c := by
  constructor <;> (intro e; subst e; exact h (by decide))

theorem isAsciiDigit_clean {c : Char} (h : isAsciiDigit c = true) : cleanChar c := by
  constructor <;> (intro e; subst e; revert h; decide)
theorem isAsciiLetter_clean {c : Char} (h : isAsciiLetter c = true) : cleanChar c := by
  constructor <;> (intro e; subst e; revert h; decide)

theorem isD_clean (u : Uni) {c : Char} (h : u.isD c = true) : cleanChar c := by
  unfold Uni.isD at h
  by_cases hc : c.val < 128
  · simp only [hc, ↓reduceIte] at h; exact isAsciiDigit_clean h
  · exact ascii_ne_of_ge hc

theorem isW_clean (u : Uni) {c : Char} (h : u.isW c = true) : cleanChar c := by
  unfold Uni.isW at h
  by_cases hc : c.val < 128
  · simp only [hc, ↓reduceIte, Bool.or_eq_true, beq_iff_eq] at h
    rcases h with (h | h) | h
    · exact isAsciiDigit_clean h
    · exact isAsciiLetter_clean h
    · subst h; exact ⟨by decide, by decide⟩
  · exact ascii_ne_of_ge hc

theorem isH_clean (u : Uni) {c : Char} (h : u.isH c = true) : cleanChar c := by
  unfold Uni.isH at h
  simp only [Bool.or_eq_true] at h
  rcases h with h | h
  · exact isD_clean u h
  · constructor <;> (intro e; subst e; revert h; decide)

theorem sign_clean {c : Char} (h : (c == '+' || c == '-') = true) : cleanChar c := by
  simp only [Bool.or_eq_true, beq_iff_eq] at h
  rcases h with rfl | rfl <;> exact ⟨by decide, by decide⟩

theorem isE_clean {c : Char} (h : isE c = true) : cleanChar c := by
  unfold isE at h; simp only [Bool.or_eq_true, beq_iff_eq] at h
  rcases h with rfl | rfl <;> exact ⟨by decide, by decide⟩
theorem isP_clean {c : Char} (h : isP c = true) : cleanChar c := by
  unfold isP at h; simp only [Bool.or_eq_true, beq_iff_eq] at h
  rcases h with rfl | rfl <;> exact ⟨by decide, by decide⟩
theorem isXc_clean {c : Char} (h : isXc c = true) : cleanChar c := by
  unfold isXc at h; simp only [Bool.or_eq_true, beq_iff_eq] at h
  rcases h with rfl | rfl <;> exact ⟨by decide, by decide⟩
theorem isBc_clean {c : Char} (h : isBc c = true) : cleanChar c := by
  unfold isBc at h; simp only [Bool.or_eq_true, beq_iff_eq] at h
  rcases h with rfl | rfl <;> exact ⟨by decide, by decide⟩
theorem dot_clean : cleanChar '.' := ⟨by decide, by decide⟩

theorem dotOr_clean {q : Char → Bool} (hq : ∀ c, q c = true → cleanChar c) :
    ∀ c, (c == '.' || q c) = true → cleanChar c := by
  intro c h
  simp only [Bool.or_eq_true, beq_iff_eq] at h
  rcases h with rfl | h
  · exact dot_clean
  · exact hq c h

theorem orDot_clean {q : Char → Bool} (hq : ∀ c, q c = true → cleanChar c) :
    ∀ c, (q c || c == '.') = true → cleanChar c := by
  intro c h
  simp only [Bool.or_eq_true, beq_iff_eq] at h
  rcases h with h | rfl
  · exact hq c h
  · exact dot_clean

/-! ### the exponent group -/

/-- the optional tail of the third alternative is a `takeWhile` of clean characters -/
def CTail (tail : List Char → Nat) : Prop :=
  ∃ q : Char → Bool, (∀ c, q c = true → cleanChar c) ∧ ∀ l, tail l = (l.takeWhile q).length

theorem tailDec_ctail (u : Uni) : CTail (tailDec u) :=
  ⟨fun c => c == '.' || u.isD c, dotOr_clean (fun _ h => isD_clean u h), fun _ => rfl⟩
theorem tailHex_ctail (u : Uni) : CTail (tailHex u) :=
  ⟨fun c => c == '.' || u.isH c, dotOr_clean (fun _ h => isH_clean u h), fun _ => rfl⟩

theorem expIter_pre (isL : Char → Bool) (hL : ∀ c, isL c = true → cleanChar c) (tail : List Char → Nat) (ht : CTail tail)
    (fuel : Nat) (l : List Char) : CPrefix (expIter isL tail fuel l) l := by
  obtain ⟨q, hq, hqt⟩ := ht
  induction fuel generalizing l with
  | zero => exact CPrefix.nil _
  | succ fuel ih =>
    unfold expIter
    cases l with
    | nil => exact CPrefix.nil _
    | cons c tl =>
      simp only
      by_cases hc : isL c = true
      · simp only [hc, ↓reduceIte]
        have key : ∀ (sign tl1 : List Char), tl = sign ++ tl1 → (∀ x ∈ sign, cleanChar x) →
            CPrefix (c :: sign ++ tl1.take (tail tl1) ++ expIter isL tail fuel (tl1.drop (tail tl1))) (c :: tl) := by
          intro sign tl1 e hs
          have h1 : CPrefix sign tl := ⟨⟨tl1, e.symm⟩, hs⟩
          have h2 : CPrefix (tl1.take (tail tl1)) (tl.drop sign.length) := by
            rw [e, List.drop_left, hqt, take_takeWhile_len]
            exact CPrefix.takeWhile hq tl1
          have h3 : CPrefix (expIter isL tail fuel (tl1.drop (tail tl1))) (tl.drop (sign ++ tl1.take (tail tl1)).length) := by
            have : tl.drop (sign ++ tl1.take (tail tl1)).length = tl1.drop (tail tl1) := by
              rw [e, List.length_append, ← List.drop_drop, List.drop_left, hqt, take_takeWhile_len]
            rw [this]; exact ih _
          have := CPrefix.cons (hL c hc) ((h1.append h2).append h3)
          simpa [List.append_assoc] using this
        cases tl with
        | nil => exact key [] [] rfl (by simp)
        | cons s r =>
          simp only
          by_cases hsg : (s == '+' || s == '-') = true
          · simp only [hsg, ↓reduceIte]
            exact key [s] r rfl (by intro x hx; simp only [List.mem_singleton] at hx; subst hx; exact sign_clean hsg)
          · simp only [hsg, Bool.false_eq_true, ↓reduceIte]
            exact key [] (s :: r) rfl (by simp)
      · simp only [hc, Bool.false_eq_true, ↓reduceIte]
        exact CPrefix.nil _

theorem matchExp_pre (isL isD : Char → Bool) (hL : ∀ c, isL c = true → cleanChar c) (hD : ∀ c, isD c = true → cleanChar c)
    (tail : List Char → Nat) (ht : CTail tail) (l : List Char) : CPrefix (matchExp isL isD tail l) l := by
  unfold matchExp spanP
  simp only
  by_cases hls : (l.takeWhile isL).isEmpty = true
  · simp only [hls, ↓reduceIte]; exact CPrefix.nil _
  · simp only [hls, Bool.false_eq_true, ↓reduceIte]
    have h1 : CPrefix (l.takeWhile isL) l := CPrefix.takeWhile hL l
    have fallback : CPrefix (if (!((l.dropWhile isL).takeWhile isD).isEmpty) = true then l.takeWhile isL ++ (l.dropWhile isL).takeWhile isD
        else expIter isL tail (l.length + 1) l) l := by
      split
      · apply h1.append
        rw [drop_takeWhile_len]
        exact CPrefix.takeWhile hD _
      · exact expIter_pre isL hL tail ht _ l
    cases hafter : l.dropWhile isL with
    | nil => simp only; rw [hafter] at fallback; exact fallback
    | cons s r =>
      simp only
      by_cases hsg : (s == '+' || s == '-') = true
      · simp only [hsg, ↓reduceIte]
        by_cases hds : (r.takeWhile isD).isEmpty = true
        · simp only [hds, ↓reduceIte]; rw [hafter] at fallback; exact fallback
        · simp only [hds, Bool.false_eq_true, ↓reduceIte]
          rw [List.append_assoc]
          apply h1.append
          rw [drop_takeWhile_len, hafter]
          exact CPrefix.cons (sign_clean hsg) (CPrefix.takeWhile hD r)
      · simp only [hsg, Bool.false_eq_true, ↓reduceIte]; rw [hafter] at fallback; exact fallback

theorem floatSuffix_pre (u : Uni) (l : List Char) : CPrefix (floatSuffix u l) l :=
  CPrefix.takeWhile (orDot_clean (fun _ h => isW_clean u h)) l

/-! ### the three floating patterns -/

theorem matchFloatExp_pre {u : Uni} {src : List Char} {m : FloatMatch} (h : matchFloatExp u src = some m) :
    CPrefix (m.const ++ m.exp ++ m.suf) src := by
  unfold matchFloatExp at h
  simp only [spanP] at h
  by_cases h1 : (List.takeWhile u.isD src).isEmpty = true
  · simp [h1] at h
  · by_cases h2 : (matchExp isE u.isD (tailDec u) (List.dropWhile u.isD src)).isEmpty = true
    · simp [h1, h2] at h
    · simp only [h1, h2, Bool.false_eq_true, ↓reduceIte, Option.some.injEq] at h
      subst h
      simp only
      have a := CPrefix.takeWhile (fun c h => isD_clean u h) src
      have b : CPrefix (matchExp isE u.isD (tailDec u) (src.dropWhile u.isD)) (src.drop (src.takeWhile u.isD).length) := by
        rw [drop_takeWhile_len]
        exact matchExp_pre isE u.isD (fun c h => isE_clean h) (fun c h => isD_clean u h) (tailDec u) (tailDec_ctail u) _
      have ab := a.append b
      apply ab.append
      rw [List.length_append, ← List.drop_drop, drop_takeWhile_len]
      exact floatSuffix_pre u _

theorem fracConst_pre {u : Uni} {src c rest : List Char}
    (h : (match src.dropWhile u.isD with
      | '.' :: r =>
        let fs := r.takeWhile u.isD
        if !fs.isEmpty then some (src.takeWhile u.isD ++ '.' :: fs, r.drop fs.length)
        else if !(src.takeWhile u.isD).isEmpty then some (src.takeWhile u.isD ++ ['.'], r)
        else none
      | _ => none) = some (c, rest)) : CPrefix c src ∧ rest = src.drop c.length := by
  have a := CPrefix.takeWhile (fun c h => isD_clean u h) src
  split at h
  · rename_i r hr
    simp only at h
    have hd : src.drop (src.takeWhile u.isD).length = '.' :: r := by rw [drop_takeWhile_len, hr]
    split at h
    · simp only [Option.some.injEq, Prod.mk.injEq] at h
      obtain ⟨rfl, rfl⟩ := h
      refine ⟨a.append (by rw [hd]; exact CPrefix.cons dot_clean (CPrefix.takeWhile (fun c h => isD_clean u h) r)), ?_⟩
      rw [List.length_append, ← List.drop_drop, hd]
      simp
    · split at h
      · simp only [Option.some.injEq, Prod.mk.injEq] at h
        obtain ⟨rfl, rfl⟩ := h
        refine ⟨a.append (by rw [hd]; exact CPrefix.cons dot_clean (CPrefix.nil _)), ?_⟩
        rw [List.length_append, ← List.drop_drop, hd]
        simp
      · cases h
  · cases h

theorem matchFloatFrac_pre {u : Uni} {src : List Char} {m : FloatMatch} (h : matchFloatFrac u src = some m) :
    CPrefix (m.const ++ m.exp ++ m.suf) src := by
  unfold matchFloatFrac at h
  simp only [spanP] at h
  split at h
  · cases h
  · rename_i c rest hc
    simp only [Option.some.injEq] at h
    subst h
    simp only
    obtain ⟨pc, rfl⟩ := fracConst_pre hc
    have b := matchExp_pre isE u.isD (fun c h => isE_clean h) (fun c h => isD_clean u h) (tailDec u) (tailDec_ctail u) (src.drop c.length)
    apply (pc.append b).append
    rw [List.length_append, ← List.drop_drop]
    exact floatSuffix_pre u _

theorem hexMantissa_pre {u : Uni} {a1 mant a3 : List Char} (h : hexMantissa u a1 = some (mant, a3)) :
    CPrefix mant a1 ∧ a3 = a1.drop mant.length := by
  have a := CPrefix.takeWhile (fun c h => isH_clean u h) a1
  unfold hexMantissa at h
  split at h
  · split at h
    · rename_i r _
      split at h
      · cases h
      · simp only [Option.some.injEq, Prod.mk.injEq] at h
        obtain ⟨rfl, rfl⟩ := h
        exact ⟨CPrefix.cons dot_clean (CPrefix.takeWhile (fun c h => isH_clean u h) r), by simp⟩
    · cases h
  · rename_i hne
    split at h
    · rename_i r hr
      simp only [Option.some.injEq, Prod.mk.injEq] at h
      obtain ⟨rfl, rfl⟩ := h
      have hd : a1.drop (a1.takeWhile u.isH).length = '.' :: r := by rw [drop_takeWhile_len, hr]
      refine ⟨a.append (by rw [hd]; exact CPrefix.cons dot_clean (CPrefix.takeWhile (fun c h => isH_clean u h) r)), ?_⟩
      rw [List.length_append, ← List.drop_drop, hd]
      simp [drop_takeWhile_len]
    · simp only [Option.some.injEq, Prod.mk.injEq] at h
      obtain ⟨rfl, rfl⟩ := h
      exact ⟨a, (drop_takeWhile_len _ _).symm⟩

theorem matchFloatHex_pre {u : Uni} {src : List Char} {m : FloatMatch} (h : matchFloatHex u src = some m) :
    CPrefix (m.const ++ m.exp ++ m.suf) src := by
  unfold matchFloatHex at h
  split at h
  · rename_i tl
    split at h
    · cases h
    · split at h
      · cases h
      · rename_i mant a3 hm
        simp only [Option.some.injEq] at h
        subst h
        simp only
        obtain ⟨pm, rfl⟩ := hexMantissa_pre hm
        have hx : ∀ c, (c == 'x' || c == 'X') = true → cleanChar c := fun c h => isXc_clean (by simpa [isXc] using h)
        have ax := CPrefix.takeWhile hx tl
        rw [← drop_takeWhile_len] at pm
        have c1 : CPrefix ('0' :: (tl.takeWhile (fun c => c == 'x' || c == 'X') ++ mant)) ('0' :: tl) :=
          CPrefix.cons ⟨by decide, by decide⟩ (ax.append pm)
        have e1 : ('0' :: tl).drop ('0' :: (tl.takeWhile (fun c => c == 'x' || c == 'X') ++ mant)).length =
            (tl.dropWhile (fun c => c == 'x' || c == 'X')).drop mant.length := by
          simp only [List.length_cons, List.drop_succ_cons, List.length_append]
          rw [← List.drop_drop, drop_takeWhile_len]
        have b : CPrefix (matchExp isP u.isH (tailHex u) ((tl.dropWhile (fun c => c == 'x' || c == 'X')).drop mant.length))
            (('0' :: tl).drop ('0' :: (tl.takeWhile (fun c => c == 'x' || c == 'X') ++ mant)).length) := by
          rw [e1]
          exact matchExp_pre isP u.isH (fun c h => isP_clean h) (fun c h => isH_clean u h) (tailHex u) (tailHex_ctail u) _
        have cb := c1.append b
        have : '0' :: tl.takeWhile (fun c => c == 'x' || c == 'X') ++ mant = '0' :: (tl.takeWhile (fun c => c == 'x' || c == 'X') ++ mant) := rfl
        rw [this]
        apply cb.append
        rw [List.length_append, ← List.drop_drop, e1]
        exact floatSuffix_pre u _
  · cases h

/-- every match of `floatLogic` is a clean prefix of the raw input -/
theorem floatLogic_pre {u : Uni} {line col : Nat} {src : List Char} {m : FloatMatch} {d : Option Diag}
    (h : floatLogic u line col src = .tok m d) : CPrefix (m.const ++ m.exp ++ m.suf) src := by
  unfold floatLogic at h
  simp only at h
  split at h
  · cases h
  · rename_i m' hm
    have hpre : CPrefix (m'.const ++ m'.exp ++ m'.suf) src := by
      split at hm
      · rename_i m1 h1
        simp only [Option.some.injEq] at hm; subst hm
        exact matchFloatExp_pre h1
      · split at hm
        · rename_i m2 h2
          simp only [Option.some.injEq] at hm; subst hm
          exact matchFloatFrac_pre h2
        · exact matchFloatHex_pre hm
    repeat' split at h
    all_goals try cases h
    all_goals exact hpre

/-! ### the integer pattern -/

theorem intSuffix_pre (u : Uni) (last : Option Char) (after : List Char) : CPrefix (intSuffix u last after) after := by
  unfold intSuffix
  split
  · apply CPrefix.takeWhile
    intro c h
    simp only [Bool.or_eq_true, beq_iff_eq] at h
    rcases h with ((h | rfl) | rfl) | rfl
    · exact isW_clean u h
    · exact ⟨by decide, by decide⟩
    · exact ⟨by decide, by decide⟩
    · exact dot_clean
  · split
    · rename_i c tl
      split
      · rename_i hc
        exact CPrefix.cons (isW_clean u hc) (CPrefix.takeWhile (orDot_clean (fun _ h => isW_clean u h)) tl)
      · exact CPrefix.nil _
    · exact CPrefix.nil _

theorem intFin_pre {u : Uni} {src pre : List Char} {q : Char → Bool} {m : IntMatch} (hq : ∀ c, q c = true → cleanChar c)
    (hp : CPrefix pre src)
    (h : intFin u pre ((src.drop pre.length).takeWhile q) ((src.drop pre.length).dropWhile q) = some m) :
    CPrefix (m.pre ++ m.const ++ m.suf) src := by
  unfold intFin at h
  split at h
  · cases h
  · simp only [Option.some.injEq] at h
    subst h
    simp only
    have b := CPrefix.takeWhile hq (src.drop pre.length)
    apply (hp.append b).append
    rw [List.length_append, ← List.drop_drop, drop_takeWhile_len]
    exact intSuffix_pre u _ _

theorem matchInt_pre {u : Uni} {src : List Char} {m : IntMatch} (h : matchInt u src = some m) :
    CPrefix (m.pre ++ m.const ++ m.suf) src := by
  have zero_clean : cleanChar '0' := ⟨by decide, by decide⟩
  have plain : ∀ {m}, intFin u [] (src.takeWhile u.isD) (src.dropWhile u.isD) = some m → CPrefix (m.pre ++ m.const ++ m.suf) src := by
    intro m hm
    exact intFin_pre (src := src) (pre := []) (fun c h => isD_clean u h) (CPrefix.nil _) (by simpa using hm)
  unfold matchInt at h
  split at h
  · cases h
  · rename_i tl
    split at h
    · rename_i m1 h1
      simp only [Option.some.injEq] at h; subst h
      unfold intAltX at h1
      have ax := CPrefix.takeWhile (fun c h => isXc_clean h) tl
      split at h1
      · cases h1
      · rename_i x hx
        rw [hx] at ax
        have p0 : CPrefix ['0', x] ('0' :: tl) := CPrefix.cons zero_clean ax
        have hdrop : ('0' :: tl).drop ['0', x].length = tl.dropWhile isXc := by
          have := drop_takeWhile_len isXc tl
          rw [hx] at this
          simpa using this
        exact intFin_pre (fun c h => isH_clean u h) p0 (by rw [hdrop]; exact h1)
      · rename_i xs _ _
        generalize hxs : tl.takeWhile isXc = ys at h1 ax
        have p0 : CPrefix ('0' :: ys) ('0' :: tl) := CPrefix.cons zero_clean ax
        have hdrop : ('0' :: tl).drop ('0' :: ys).length = tl.dropWhile isXc := by
          have := drop_takeWhile_len isXc tl
          rw [hxs] at this
          simpa using this
        exact intFin_pre (fun c h => isD_clean u h) p0 (by rw [hdrop]; exact h1)
    · split at h
      · rename_i m2 h2
        simp only [Option.some.injEq] at h; subst h
        unfold intAltB at h2
        have ab := CPrefix.takeWhile (fun c h => isBc_clean h) tl
        split at h2
        · cases h2
        · generalize hbs : tl.takeWhile isBc = ys at h2 ab
          have p0 : CPrefix ('0' :: ys) ('0' :: tl) := CPrefix.cons zero_clean ab
          have hdrop : ('0' :: tl).drop ('0' :: ys).length = tl.dropWhile isBc := by
            have := drop_takeWhile_len isBc tl
            rw [hbs] at this
            simpa using this
          exact intFin_pre (fun c h => isD_clean u h) p0 (by rw [hdrop]; exact h2)
      · split at h
        · rename_i m3 h3
          simp only [Option.some.injEq] at h; subst h
          have p0 : CPrefix ['0'] ('0' :: tl) := CPrefix.cons zero_clean (CPrefix.nil _)
          exact intFin_pre (fun c h => isD_clean u h) p0 (by simpa using h3)
        · exact plain h
  · exact plain h

end Norm
