/-
C11, malformed character constants and strings: empty character constant, character constant or string that the
file ends in, character constant that the line ends in.  Bodies of any length over opaque characters.
-/
import NormModel.Proofs.CharString
import NormModel.Proofs.CommentLine
namespace Norm
open Spec

theorem shiftCols_zero (s : LexSt) : shiftCols s 0 s.rest = s := by cases s; rfl

theorem popOne_nil (us ue : Bool) (s : LexSt) (hr : s.rest = []) : popOne us ue s = (s, none) := by
  unfold popOne
  have hp : peek1 ([] : List Char) 0 = none := by rfl
  have : spliceLoop (s.rest.length + 1) s = (s, none) := by
    unfold spliceLoop
    rw [hr, hp]
  rw [this]

/-- the character loop over opaque characters up to the end of the input -/
theorem charLoop_opaque_eof (line col : Nat) (body : List Char) (s : LexSt) (v : List Char) (n fuel : Nat)
    (hr : s.rest = body) (hb : ∀ c ∈ body, OpaqueChar c ∧ c ≠ '\'') (hf : body.length + 1 ≤ fuel) :
    charLoop line col fuel s v n =
      ((shiftCols s body.length []).addDiag
        (mkDiag "UNEXPECTED_EOF_CHR" .error [⟨line, col, some (v ++ body).length, none⟩]), v ++ body, n + body.length) := by
  induction body generalizing s v n fuel with
  | nil =>
    cases fuel with
    | zero => omega
    | succ fuel =>
      unfold charLoop
      rw [popOne_nil false true s hr]
      simp only [List.append_nil, List.length_nil, Nat.add_zero]
      rw [← hr, shiftCols_zero]
  | cons c cs ih =>
    cases fuel with
    | zero => simp at hf
    | succ fuel =>
      obtain ⟨hc, hcq⟩ := hb c (by simp)
      unfold charLoop
      rw [popOne_opaque false true s c cs hr hc]
      simp only
      have e1 : ([c] == ['\n']) = false := by simp [hc.2.1]
      have e2 : ([c] == ['\'']) = false := by simp [hcq]
      simp only [e1, e2, Bool.false_eq_true, ↓reduceIte]
      rw [ih _ _ _ fuel rfl (fun d hd => hb d (by simp [hd])) (by simp at hf; omega)]
      have e : ∀ a : Nat, a + 1 + cs.length = a + (cs.length + 1) := by intro a; omega
      simp [shiftCols, List.append_assoc, e]

/-- … up to the end of the line: the newline is left unread -/
theorem charLoop_opaque_eol (line col : Nat) (body tl : List Char) (s : LexSt) (v : List Char) (n fuel : Nat)
    (hr : s.rest = body ++ '\n' :: tl) (hb : ∀ c ∈ body, OpaqueChar c ∧ c ≠ '\'') (hf : body.length + 1 ≤ fuel) :
    charLoop line col fuel s v n =
      ((shiftCols s body.length ('\n' :: tl)).addDiag
        (mkDiag "UNEXPECTED_EOL_CHR" .error
          [⟨line, col, some (v ++ body).length, none⟩, ⟨line, col + (v ++ body).length, some 1, some charHint⟩]),
        v ++ body, n + body.length) := by
  induction body generalizing s v n fuel with
  | nil =>
    cases fuel with
    | zero => omega
    | succ fuel =>
      unfold charLoop
      rw [popOne_newline false true s tl (by simpa using hr)]
      simp only [show (['\n'] == ['\n']) = true by decide, ↓reduceIte, List.append_nil, List.length_nil, Nat.add_zero]
      have hr' : s.rest = '\n' :: tl := by simpa using hr
      rw [← hr', shiftCols_zero]
  | cons c cs ih =>
    cases fuel with
    | zero => simp at hf
    | succ fuel =>
      obtain ⟨hc, hcq⟩ := hb c (by simp)
      unfold charLoop
      rw [popOne_opaque false true s c (cs ++ '\n' :: tl) (by simpa using hr) hc]
      simp only
      have e1 : ([c] == ['\n']) = false := by simp [hc.2.1]
      have e2 : ([c] == ['\'']) = false := by simp [hcq]
      simp only [e1, e2, Bool.false_eq_true, ↓reduceIte]
      rw [ih _ _ _ fuel rfl (fun d hd => hb d (by simp [hd])) (by simp at hf; omega)]
      have e : ∀ a : Nat, a + 1 + cs.length = a + (cs.length + 1) := by intro a; omega
      simp [shiftCols, List.append_assoc, e]

/-- the string loop over opaque characters up to the end of the input -/
theorem strLoop_opaque_eof (body : List Char) (s : LexSt) (v : List Char) (fuel : Nat)
    (hr : s.rest = body) (hb : ∀ c ∈ body, OpaqueChar c ∧ c ≠ '"') (hf : body.length + 1 ≤ fuel) :
    strLoop fuel s v = (shiftCols s body.length [], v ++ body, true) := by
  induction body generalizing s v fuel with
  | nil =>
    cases fuel with
    | zero => omega
    | succ fuel =>
      unfold strLoop
      have hp : peek1 ([] : List Char) 0 = none := by rfl
      rw [hr, hp]
      simp only [List.append_nil, List.length_nil]
      rw [← hr, shiftCols_zero]
  | cons c cs ih =>
    cases fuel with
    | zero => simp at hf
    | succ fuel =>
      obtain ⟨hc, hcq⟩ := hb c (by simp)
      unfold strLoop
      have hpk : peek1 s.rest 0 = some (c, 1) := by
        rw [hr]; exact peek1_raw hc.1.1 hc.1.2.1 hc.1.2.2.1 hc.1.2.2.2.1
      simp only [hpk]
      rw [popOne_opaque false true s c cs hr hc]
      simp only
      have hne : ([c] == ['"']) = false := by simp [hcq]
      simp only [hne, Bool.false_eq_true, ↓reduceIte]
      rw [ih _ _ fuel rfl (fun d hd => hb d (by simp [hd])) (by simp at hf; omega)]
      have e : ∀ a : Nat, a + 1 + cs.length = a + (cs.length + 1) := by intro a; omega
      simp [shiftCols, List.append_assoc, e]

end Norm

namespace Norm
open Spec

theorem endsWithTwoQuotes_snoc (init : List Char) (l : Char) (hl : l ≠ '\'') : endsWithTwoQuotes (init ++ [l]) = false := by
  unfold endsWithTwoQuotes
  simp only [List.reverse_append, List.reverse_cons, List.reverse_nil, List.nil_append, List.cons_append]
  split
  · rename_i heq
    simp only [List.cons.injEq] at heq
    exact absurd heq.1 hl
  · rfl

/-- an opening quote after an encoding prefix, followed by characters other than the quote, never ends in `''` -/
theorem no_two_quotes (pre : String) (hp : pre ∈ litPrefixes) (body : List Char) (hb : ∀ c ∈ body, c ≠ '\'') :
    endsWithTwoQuotes (pre.toList ++ '\'' :: body) = false := by
  rcases List.eq_nil_or_concat body with rfl | ⟨init, l, rfl⟩
  · simp only [litPrefixes, List.mem_cons, List.mem_nil_iff, or_false] at hp
    rcases hp with rfl | rfl | rfl | rfl | rfl <;> decide
  · rw [List.concat_eq_append] at hb ⊢
    have : pre.toList ++ '\'' :: (init ++ [l]) = (pre.toList ++ '\'' :: init) ++ [l] := by simp
    rw [this]
    exact endsWithTwoQuotes_snoc _ l (hb l (by simp))

theorem getLast_not_quote (pre : List Char) (body : List Char) (hne : body ≠ []) (hb : ∀ c ∈ body, c ≠ '\'') :
    ((pre ++ '\'' :: body).getLast? == some '\'') = false := by
  rcases List.eq_nil_or_concat body with rfl | ⟨init, l, rfl⟩
  · exact absurd rfl hne
  · rw [List.concat_eq_append] at hb ⊢
    have : pre ++ '\'' :: (init ++ [l]) = (pre ++ '\'' :: init) ++ [l] := by simp
    rw [this, List.getLast?_append]
    simp [hb l (by simp)]

/-- the tail of `parseChar` on an unterminated constant adds nothing more -/
theorem charFin_unterminated (s r1 : LexSt) (pre : String) (hp : pre ∈ litPrefixes) (body : List Char)
    (hb : ∀ c ∈ body, c ≠ '\'') :
    charFin s (r1, pre.toList ++ '\'' :: body, body.length) =
      some (r1, mkTok "CHAR_CONST" s r1 (some (pre.toList ++ '\'' :: body))) := by
  have hcond : (decide (body.length > 1) && (pre.toList ++ '\'' :: body).getLast? == some '\'') = false := by
    by_cases hne : body = []
    · subst hne; simp
    · rw [getLast_not_quote _ _ hne hb]; simp
  unfold charFin
  simp only [no_two_quotes pre hp body hb, Bool.and_false, Bool.false_eq_true, ↓reduceIte, hcond]

theorem trySub_of_char {u : Uni} {s X : LexSt} {v : List Char} (hf : parseFloat u s = none) (hi : parseInt u s = none)
    (hpc : parseChar s = some (X, mkTok "CHAR_CONST" s X (some v))) :
    ∃ t, trySubLexers u s = .ok (some (X, t)) ∧ t.type = "CHAR_CONST" ∧
      t.value = some (String.ofList v) ∧ t.line = s.line ∧ t.col = s.col := by
  refine ⟨mkTok "CHAR_CONST" s X (some v), ?_, rfl, rfl, rfl, rfl⟩
  unfold trySubLexers
  rw [hf, hi, hpc]

/-- the common front of the character-constant theorems: the chain reaches the body loop -/
theorem parseChar_front (u : Uni) (pre : String) (hp : pre ∈ litPrefixes) (tl : List Char) (s : LexSt)
    (hr : s.rest = pre.toList ++ '\'' :: tl) :
    parseFloat u s = none ∧ parseInt u s = none ∧
    ∃ s2, s2.rest = tl ∧ s2.diags = s.diags ∧
      parseChar s = charFin s (charLoop s.line s.col (tl.length + 1) s2 (pre.toList ++ ['\'']) 0) := by
  obtain ⟨hplain, c0, tl0, h0, hd0, hdot0⟩ := litPrefix_facts u pre hp '\'' (Or.inl rfl) tl
  obtain ⟨hf, hi⟩ := numeric_fail u s c0 tl0 (by rw [hr, h0]) hd0 hdot0
  obtain ⟨n1, n2, n3⟩ := popN_plain pre.toList ('\'' :: tl) s hr hplain
  refine ⟨hf, hi, ?_⟩
  rw [parseChar_eq, hr, quotePrefix_lit pre hp '\'' (Or.inl rfl)]
  simp only
  cases hpn : popN pre.toList.length s with
  | mk s1 r1 =>
    rw [hpn] at n1 n2 n3
    simp only at n1 n2 n3
    subst n1
    simp only
    have hrp : (rawPeek s1.rest != some ['\'']) = false := by rw [n2]; simp [rawPeek]
    simp only [hrp, Bool.false_eq_true, ↓reduceIte]
    have hq1 := popOne_peeked false false s1 '\'' tl n2
      (by rw [n2]; exact peek1_raw (by decide) (by decide) (by decide) (by decide)) (by decide) (by decide) (by decide)
    rw [hq1]
    exact ⟨{ s1 with rest := tl, pos := s1.pos + 1, col := s1.col + 1 }, rfl, n3, rfl⟩

/-- **Empty character constant** `pre ''`: one CHAR_CONST token spanning it and EMPTY_CHAR at its start. -/
theorem empty_char_reported (u : Uni) (pre : String) (hp : pre ∈ litPrefixes) (rest : List Char) (s : LexSt)
    (hr : s.rest = pre.toList ++ '\'' :: '\'' :: rest) :
    ∃ s' t, trySubLexers u s = .ok (some (s', t)) ∧ t.type = "CHAR_CONST" ∧
      t.value = some (String.ofList (pre.toList ++ ['\'', '\''])) ∧ t.line = s.line ∧ t.col = s.col ∧
      s'.rest = rest ∧
      s'.diags = s.diags ++ [mkDiag "EMPTY_CHAR" .error [⟨s.line, s.col, some (pre.toList ++ ['\'', '\'']).length, none⟩]] := by
  obtain ⟨hf, hi, s2, h2r, h2d, hpc⟩ := parseChar_front u pre hp ('\'' :: rest) s hr
  have hq := popOne_peeked false true s2 '\'' rest h2r
    (by rw [h2r]; exact peek1_raw (by decide) (by decide) (by decide) (by decide)) (by decide) (by decide) (by decide)
  have hloop : charLoop s.line s.col (('\'' :: rest).length + 1) s2 (pre.toList ++ ['\'']) 0 =
      ({ s2 with rest := rest, pos := s2.pos + 1, col := s2.col + 1 }, pre.toList ++ ['\''] ++ ['\''], 0) := by
    simp only [List.length_cons]
    unfold charLoop
    rw [hq]
    simp only [show (['\''] == ['\n']) = false by decide, show (['\''] == ['\'']) = true by decide,
      Bool.false_eq_true, ↓reduceIte]
  rw [hloop] at hpc
  have h2q : endsWithTwoQuotes (pre.toList ++ ['\''] ++ ['\'']) = true := by
    unfold endsWithTwoQuotes; simp
  have hfin : charFin s ({ s2 with rest := rest, pos := s2.pos + 1, col := s2.col + 1 }, pre.toList ++ ['\''] ++ ['\''], 0) =
      some (({ s2 with rest := rest, pos := s2.pos + 1, col := s2.col + 1 } : LexSt).addDiag
          (mkDiag "EMPTY_CHAR" .error [⟨s.line, s.col, some (pre.toList ++ ['\''] ++ ['\'']).length, none⟩]),
        mkTok "CHAR_CONST" s (({ s2 with rest := rest, pos := s2.pos + 1, col := s2.col + 1 } : LexSt).addDiag
          (mkDiag "EMPTY_CHAR" .error [⟨s.line, s.col, some (pre.toList ++ ['\''] ++ ['\'']).length, none⟩]))
          (some (pre.toList ++ ['\''] ++ ['\'']))) := by
    unfold charFin
    simp only [h2q, beq_self_eq_true, Bool.and_self, ↓reduceIte]
    simp
  rw [hfin] at hpc
  obtain ⟨t, h1, h2, h3, h4, h5⟩ := trySub_of_char hf hi hpc
  refine ⟨_, t, h1, h2, ?_, h4, h5, ?_, ?_⟩
  · rw [h3]; simp
  · simp [LexSt.addDiag]
  · simp [LexSt.addDiag, h2d]

/-- **Character constant that the file ends in** `pre ' body` + end of input (body: any opaque characters other than
the quote, possibly none): one CHAR_CONST token spanning everything and UNEXPECTED_EOF_CHR at its start. -/
theorem char_eof_reported (u : Uni) (pre : String) (hp : pre ∈ litPrefixes) (body : List Char)
    (hb : ∀ c ∈ body, OpaqueChar c ∧ c ≠ '\'') (s : LexSt) (hr : s.rest = pre.toList ++ '\'' :: body) :
    ∃ s' t, trySubLexers u s = .ok (some (s', t)) ∧ t.type = "CHAR_CONST" ∧
      t.value = some (String.ofList (pre.toList ++ '\'' :: body)) ∧ t.line = s.line ∧ t.col = s.col ∧
      s'.rest = [] ∧
      s'.diags = s.diags ++ [mkDiag "UNEXPECTED_EOF_CHR" .error
        [⟨s.line, s.col, some (pre.toList ++ '\'' :: body).length, none⟩]] := by
  obtain ⟨hf, hi, s2, h2r, h2d, hpc⟩ := parseChar_front u pre hp body s hr
  rw [charLoop_opaque_eof s.line s.col body s2 (pre.toList ++ ['\'']) 0 (body.length + 1) h2r hb (Nat.le_refl _)] at hpc
  have hv : pre.toList ++ ['\''] ++ body = pre.toList ++ '\'' :: body := by simp
  rw [hv, Nat.zero_add, charFin_unterminated s _ pre hp body (fun c hc => (hb c hc).2)] at hpc
  obtain ⟨t, h1, h2, h3, h4, h5⟩ := trySub_of_char hf hi hpc
  refine ⟨_, t, h1, h2, h3, h4, h5, ?_, ?_⟩
  · simp [LexSt.addDiag, shiftCols]
  · simp [LexSt.addDiag, shiftCols, h2d]

/-- **Character constant that the line ends in** `pre ' body` + newline: one CHAR_CONST token spanning the text up
to the newline, which stays unread, and UNEXPECTED_EOL_CHR (highlights: the token, and the place of the missing quote). -/
theorem char_eol_reported (u : Uni) (pre : String) (hp : pre ∈ litPrefixes) (body : List Char)
    (hb : ∀ c ∈ body, OpaqueChar c ∧ c ≠ '\'') (rest : List Char) (s : LexSt)
    (hr : s.rest = pre.toList ++ '\'' :: (body ++ '\n' :: rest)) :
    ∃ s' t, trySubLexers u s = .ok (some (s', t)) ∧ t.type = "CHAR_CONST" ∧
      t.value = some (String.ofList (pre.toList ++ '\'' :: body)) ∧ t.line = s.line ∧ t.col = s.col ∧
      s'.rest = '\n' :: rest ∧
      s'.diags = s.diags ++ [mkDiag "UNEXPECTED_EOL_CHR" .error
        [⟨s.line, s.col, some (pre.toList ++ '\'' :: body).length, none⟩,
         ⟨s.line, s.col + (pre.toList ++ '\'' :: body).length, some 1, some charHint⟩]] := by
  obtain ⟨hf, hi, s2, h2r, h2d, hpc⟩ := parseChar_front u pre hp (body ++ '\n' :: rest) s hr
  rw [charLoop_opaque_eol s.line s.col body rest s2 (pre.toList ++ ['\'']) 0 ((body ++ '\n' :: rest).length + 1) h2r hb
    (by simp)] at hpc
  have hv : pre.toList ++ ['\''] ++ body = pre.toList ++ '\'' :: body := by simp
  rw [hv, Nat.zero_add, charFin_unterminated s _ pre hp body (fun c hc => (hb c hc).2)] at hpc
  obtain ⟨t, h1, h2, h3, h4, h5⟩ := trySub_of_char hf hi hpc
  refine ⟨_, t, h1, h2, h3, h4, h5, ?_, ?_⟩
  · simp [LexSt.addDiag, shiftCols]
  · simp [LexSt.addDiag, shiftCols, h2d]

/-- **String that the file ends in** `pre " body` + end of input: one STRING token spanning everything and
UNEXPECTED_EOF_STR (highlights: the token, and the place of the missing quote). -/
theorem string_eof_reported (u : Uni) (pre : String) (hp : pre ∈ litPrefixes) (body : List Char)
    (hb : ∀ c ∈ body, OpaqueChar c ∧ c ≠ '"') (s : LexSt) (hr : s.rest = pre.toList ++ '"' :: body) :
    ∃ s' t, trySubLexers u s = .ok (some (s', t)) ∧ t.type = "STRING" ∧
      t.value = some (String.ofList (pre.toList ++ '"' :: body)) ∧ t.line = s.line ∧ t.col = s.col ∧
      s'.rest = [] ∧
      s'.diags = s.diags ++ [mkDiag "UNEXPECTED_EOF_STR" .error
        [⟨s.line, s.col, some (pre.toList ++ '"' :: body).length, none⟩,
         ⟨s.line, s.col + (pre.toList ++ '"' :: body).length, some 1, some strHint⟩]] := by
  obtain ⟨hplain, c0, tl0, h0, hd0, hdot0⟩ := litPrefix_facts u pre hp '"' (Or.inr rfl) body
  obtain ⟨hf, hi⟩ := numeric_fail u s c0 tl0 (by rw [hr, h0]) hd0 hdot0
  have hch := parseChar_none_of_string pre hp body s hr
  obtain ⟨n1, n2, n3⟩ := popN_plain pre.toList ('"' :: body) s hr hplain
  have hps : ∃ s', parseString s = some (s', mkTok "STRING" s s' (some (pre.toList ++ '"' :: body)))
      ∧ s'.rest = [] ∧ s'.diags = s.diags ++ [mkDiag "UNEXPECTED_EOF_STR" .error
        [⟨s.line, s.col, some (pre.toList ++ '"' :: body).length, none⟩,
         ⟨s.line, s.col + (pre.toList ++ '"' :: body).length, some 1, some strHint⟩]] := by
    rw [parseString_eq]
    have hpk : ∃ p, peek1 s.rest 0 = some p := by
      have : 0 < s.rest.length := by rw [hr, h0]; simp
      obtain ⟨c, sz, h⟩ := peek1_isSome this
      exact ⟨_, h⟩
    obtain ⟨p, hpk⟩ := hpk
    rw [hpk]
    simp only
    rw [hr, quotePrefix_lit pre hp '"' (Or.inr rfl)]
    simp only
    cases hpn : popN pre.toList.length s with
    | mk s1 r1 =>
      rw [hpn] at n1 n2 n3
      simp only at n1 n2 n3
      subst n1
      simp only
      have hrp : (rawPeek s1.rest != some ['"']) = false := by rw [n2]; simp [rawPeek]
      simp only [hrp, Bool.false_eq_true, ↓reduceIte]
      have hq1 := popOne_peeked false false s1 '"' body n2
        (by rw [n2]; exact peek1_raw (by decide) (by decide) (by decide) (by decide)) (by decide) (by decide) (by decide)
      rw [hq1]
      simp only
      rw [strLoop_opaque_eof body { s1 with rest := body, pos := s1.pos + 1, col := s1.col + 1 } (pre.toList ++ ['"'])
        (body.length + 1) rfl hb (Nat.le_refl _)]
      refine ⟨(shiftCols { s1 with rest := body, pos := s1.pos + 1, col := s1.col + 1 } body.length []).addDiag
          (mkDiag "UNEXPECTED_EOF_STR" .error
            [⟨s.line, s.col, some (pre.toList ++ ['"'] ++ body).length, none⟩,
             ⟨s.line, s.col + (pre.toList ++ ['"'] ++ body).length, some 1, some strHint⟩]), ?_, ?_, ?_⟩
      · simp [strFin, List.append_assoc]
      · simp [LexSt.addDiag, shiftCols]
      · simp [LexSt.addDiag, shiftCols, n3, List.append_assoc]
  obtain ⟨s', h1, h2, h3⟩ := hps
  refine ⟨s', mkTok "STRING" s s' (some (pre.toList ++ '"' :: body)), ?_, rfl, rfl, rfl, rfl, h2, h3⟩
  unfold trySubLexers
  rw [hf, hi, hch, h1]

end Norm
