/- Content refinement of the loops and sub-lexers: the value of every token is a reading
(`Spec.Den`) of the raw characters consumed for it. -/
import NormModel.Proofs.LexContent
import NormModel.Proofs.LexSub
import NormModel.Proofs.LexTotal
namespace Norm
open Spec

theorem Content.congr_pos {tabs : Bool} {s t t' : LexSt} {o : List Char} (h : t'.pos = t.pos)
    (c : Content tabs s t o) : Content tabs s t' o := by
  unfold Content at *; rw [h]; exact c

theorem popOne_none_content (tabs us ue : Bool) (s : LexSt) (h : (popOne us ue s).2 = none) :
    Content tabs s (popOne us ue s).1 [] := by
  have c1 := spliceLoop_content tabs (s.rest.length + 1) s
  unfold popOne at h ⊢
  cases hsl : spliceLoop (s.rest.length + 1) s with
  | mk s1 r =>
    rw [hsl] at c1 h
    cases r with
    | none => simpa using c1
    | some p =>
      exfalso
      simp only at h
      unfold finishPop at h
      simp only at h
      split at h
      · cases h
      · split at h <;> cases h

theorem popN_content (n : Nat) (s : LexSt) (cs : List Char) (h : (popN n s).2 = some cs) :
    Content false s (popN n s).1 cs := by
  induction n generalizing s cs with
  | zero =>
    simp only [popN, Option.some.injEq] at h ⊢
    subst h; exact Content.refl false s
  | succ n ih =>
    unfold popN at h ⊢
    obtain ⟨p1, _⟩ := popOne_spec false false s
    have pc := popOne_content false false s
    cases hpo : popOne false false s with
    | mk s1 r =>
      rw [hpo] at p1 pc h
      simp only at p1 pc h ⊢
      cases r with
      | none => simp at h
      | some a =>
        simp only at h ⊢
        obtain ⟨q1, _⟩ := popN_spec n s1
        have ihn := ih s1
        cases hpn : popN n s1 with
        | mk s2 r2 =>
          rw [hpn] at q1 ihn h
          simp only at q1 ihn h ⊢
          cases r2 with
          | none => simp at h
          | some b =>
            simp only [Option.some.injEq] at h
            subst h
            exact Content.trans (p1 a rfl).follows q1 (pc a rfl) (ihn b rfl)

/-! ### loops: the value grows by a reading of what the loop consumed -/

theorem charLoop_content (line col fuel : Nat) (s : LexSt) (v : List Char) (n : Nat) :
    ∃ out, (charLoop line col fuel s v n).2.1 = v ++ out ∧
      Content false s (charLoop line col fuel s v n).1 out := by
  induction fuel generalizing s v n with
  | zero => exact ⟨[], by simp [charLoop], Content.refl false s⟩
  | succ fuel ih =>
    unfold charLoop
    obtain ⟨p1, _⟩ := popOne_spec false true s
    have pc := popOne_content false true s
    have pn := popOne_none_content false false true s
    cases hpo : popOne false true s with
    | mk s1 r =>
      rw [hpo] at p1 pc pn
      simp only at p1 pc pn
      cases r with
      | none =>
        refine ⟨[], by simp, ?_⟩
        exact Content.congr_pos (by simp [LexSt.addDiag]) (pn rfl)
      | some ch =>
        simp only
        split
        · refine ⟨[], by simp, ?_⟩
          exact Content.of_same_pos (by simp [LexSt.addDiag])
        · split
          · exact ⟨ch, rfl, pc ch rfl⟩
          · obtain ⟨out, h1, h2⟩ := ih s1 (v ++ ch) (n + 1)
            refine ⟨ch ++ out, by rw [h1, List.append_assoc], ?_⟩
            exact Content.trans_moves (p1 ch rfl).follows.moves (charLoop_moves _ _ _ _ _ _) (pc ch rfl) h2

theorem strLoop_content (fuel : Nat) (s : LexSt) (v : List Char) :
    ∃ out, (strLoop fuel s v).2.1 = v ++ out ∧ Content false s (strLoop fuel s v).1 out := by
  induction fuel generalizing s v with
  | zero => exact ⟨[], by simp [strLoop], Content.refl false s⟩
  | succ fuel ih =>
    unfold strLoop
    split
    · exact ⟨[], by simp, Content.refl false s⟩
    · obtain ⟨p1, _⟩ := popOne_spec false true s
      have pc := popOne_content false true s
      have pn := popOne_none_content false false true s
      cases hpo : popOne false true s with
      | mk s1 r =>
        rw [hpo] at p1 pc pn
        simp only at p1 pc pn
        cases r with
        | none => exact ⟨[], by simp, pn rfl⟩
        | some ch =>
          simp only
          split
          · exact ⟨ch, rfl, pc ch rfl⟩
          · obtain ⟨out, h1, h2⟩ := ih s1 (v ++ ch)
            refine ⟨ch ++ out, by rw [h1, List.append_assoc], ?_⟩
            exact Content.trans (p1 ch rfl).follows (strLoop_follows _ _ _) (pc ch rfl) h2

theorem identLoop_content (fuel : Nat) (s : LexSt) (v : List Char) :
    ∃ out, (identLoop fuel s v).2 = v ++ out ∧ Content false s (identLoop fuel s v).1 out := by
  induction fuel generalizing s v with
  | zero => exact ⟨[], by simp [identLoop], Content.refl false s⟩
  | succ fuel ih =>
    unfold identLoop
    split
    · split
      · obtain ⟨p1, _⟩ := popOne_spec false false s
        have pc := popOne_content false false s
        have pn := popOne_none_content false false false s
        cases hpo : popOne false false s with
        | mk s1 r =>
          rw [hpo] at p1 pc pn
          simp only at p1 pc pn
          cases r with
          | none => exact ⟨[], by simp, pn rfl⟩
          | some ch =>
            simp only
            obtain ⟨out, h1, h2⟩ := ih s1 (v ++ ch)
            refine ⟨ch ++ out, by rw [h1, List.append_assoc], ?_⟩
            exact Content.trans (p1 ch rfl).follows (identLoop_follows _ _ _) (pc ch rfl) h2
      · exact ⟨[], by simp, Content.refl false s⟩
    · exact ⟨[], by simp, Content.refl false s⟩

theorem lineCommentLoop_content (fuel : Nat) (s : LexSt) (v : List Char) :
    ∃ out, (lineCommentLoop fuel s v).2 = v ++ out ∧ Content false s (lineCommentLoop fuel s v).1 out := by
  induction fuel generalizing s v with
  | zero => exact ⟨[], by simp [lineCommentLoop], Content.refl false s⟩
  | succ fuel ih =>
    unfold lineCommentLoop
    split
    · exact ⟨[], by simp, Content.refl false s⟩
    · split
      · exact ⟨[], by simp, Content.refl false s⟩
      · obtain ⟨p1, _⟩ := popOne_spec false false s
        have pc := popOne_content false false s
        have pn := popOne_none_content false false false s
        cases hpo : popOne false false s with
        | mk s1 r =>
          rw [hpo] at p1 pc pn
          simp only at p1 pc pn
          cases r with
          | none => exact ⟨[], by simp, pn rfl⟩
          | some ch =>
            simp only
            obtain ⟨out, h1, h2⟩ := ih s1 (v ++ ch)
            refine ⟨ch ++ out, by rw [h1, List.append_assoc], ?_⟩
            exact Content.trans (p1 ch rfl).follows (lineCommentLoop_follows _ _ _) (pc ch rfl) h2

theorem multiCommentLoop_content (fuel : Nat) (s : LexSt) (v : List Char) :
    ∃ out, (multiCommentLoop fuel s v).2.1 = v ++ out ∧ Content true s (multiCommentLoop fuel s v).1 out := by
  induction fuel generalizing s v with
  | zero => exact ⟨[], by simp [multiCommentLoop], Content.refl true s⟩
  | succ fuel ih =>
    unfold multiCommentLoop
    split
    · exact ⟨[], by simp, Content.refl true s⟩
    · obtain ⟨p1, _⟩ := popOne_spec true false s
      have pc := popOne_content true false s
      have pn := popOne_none_content true true false s
      cases hpo : popOne true false s with
      | mk s1 r =>
        rw [hpo] at p1 pc pn
        simp only at p1 pc pn
        cases r with
        | none => exact ⟨[], by simp, pn rfl⟩
        | some ch =>
          simp only
          split
          · exact ⟨ch, rfl, pc ch rfl⟩
          · obtain ⟨out, h1, h2⟩ := ih s1 (v ++ ch)
            refine ⟨ch ++ out, by rw [h1, List.append_assoc], ?_⟩
            exact Content.trans (p1 ch rfl).follows (multiCommentLoop_follows _ _ _) (pc ch rfl) h2

end Norm

namespace Norm
open Spec

/-! ### the text of a token -/

def wsTable : List (String × String) := [(" ", "SPACE"), ("\t", "TAB"), ("\n", "NEWLINE")]

/-- the text a token stands for: its value, or — for a token without value — a spelling that the
dictionaries list for its type -/
def TokText (t : Token) (text : List Char) : Prop :=
  match t.value with
  | some v => v = String.ofList text
  | none => (String.ofList text, t.type) ∈ Generated.keywords ++ Generated.operators ++ Generated.brackets ++ wsTable

/-- what a sub-lexer guarantees about the token it cut between `s` and `s'` -/
def TokContent (s s' : LexSt) (t : Token) : Prop :=
  ∃ text, TokText t text ∧
    (Content false s s' text ∨ (t.type = "MULT_COMMENT" ∧ Content true s s' text))

theorem Content.congr_start {tabs : Bool} {s s0 t : LexSt} {o : List Char}
    (h1 : s0.rest = s.rest) (h2 : s0.pos = s.pos) (h3 : s0.line = s.line) (h4 : s0.col = s.col)
    (c : Content tabs s0 t o) : Content tabs s t o := by
  unfold Content at *; rw [← h1, ← h2, ← h3, ← h4]; exact c

theorem tokContent_value {ty : String} {s s' : LexSt} {v : List Char} (h : Content false s s' v) :
    TokContent s s' (mkTok ty s s' (some v)) :=
  ⟨v, by simp [TokText, mkTok], Or.inl h⟩

theorem parseFloat_content {u : Uni} {s s' : LexSt} {t : Token} (h : parseFloat u s = some (s', t)) :
    TokContent s s' t := by
  unfold parseFloat at h
  split at h
  · cases h
  · split at h
    · cases h
    · rename_i m d hfl
      simp only at h
      split at h
      · cases h
      · rename_i s2 v hpn
        simp only [Option.some.injEq, Prod.mk.injEq] at h
        obtain ⟨rfl, rfl⟩ := h
        have := popN_content _ (s.addDiag? d) v (by rw [hpn])
        rw [hpn] at this
        apply tokContent_value
        refine Content.congr_start ?_ ?_ ?_ ?_ this <;> cases d <;> rfl

theorem parseInt_content {u : Uni} {s s' : LexSt} {t : Token} (h : parseInt u s = some (s', t)) :
    TokContent s s' t := by
  unfold parseInt at h
  split at h
  · cases h
  · rename_i m hm
    split at h
    · cases h
    · rename_i s2 v hpn
      simp only [Option.some.injEq, Prod.mk.injEq] at h
      obtain ⟨rfl, rfl⟩ := h
      have := popN_content _ s v (by rw [hpn])
      rw [hpn] at this
      exact tokContent_value (Content.congr_pos rfl this)

theorem parseChar_content {s s' : LexSt} {t : Token} (h : parseChar s = some (s', t)) :
    TokContent s s' t := by
  unfold parseChar at h
  split at h
  · cases h
  · rename_i n _
    split at h
    · cases h
    · rename_i s1 pre hpn
      split at h
      · cases h
      · split at h
        · cases h
        · rename_i s2 q hpo
          simp only at h
          obtain ⟨out, hv, hc⟩ := charLoop_content s.line s.col (s2.rest.length + 1) s2 (pre ++ q) 0
          cases hcl : charLoop s.line s.col (s2.rest.length + 1) s2 (pre ++ q) 0 with
          | mk s3 r =>
            obtain ⟨v, chars⟩ := r
            rw [hcl] at h hv hc
            simp only [Option.some.injEq, Prod.mk.injEq] at h hv hc
            obtain ⟨rfl, rfl⟩ := h
            have c1 := popN_content n s pre (by rw [hpn])
            rw [hpn] at c1
            have c2 := popOne_content false false s1 q (by rw [hpo])
            rw [hpo] at c2
            have f1 : Follows s s1 := by have := (popN_spec n s).1; rwa [hpn] at this
            have f2 : Follows s1 s2 := by
              have := ((popOne_spec false false s1).1 q (by rw [hpo])).follows; rwa [hpo] at this
            have f3 : Moves s2 s3 := by
              have := charLoop_moves s.line s.col (s2.rest.length + 1) s2 (pre ++ q) 0; rwa [hcl] at this
            have c12 := Content.trans f1 f2 c1 c2
            have c123 := Content.trans_moves (f1.trans f2).moves f3 c12 hc
            rw [hv]
            apply tokContent_value
            refine Content.congr_pos ?_ c123
            split <;> split <;> simp [LexSt.addDiag]

theorem parseString_content {s s' : LexSt} {t : Token} (h : parseString s = some (s', t)) :
    TokContent s s' t := by
  unfold parseString at h
  split at h
  · cases h
  · split at h
    · cases h
    · rename_i n _
      split at h
      · cases h
      · rename_i s1 pre hpn
        split at h
        · cases h
        · split at h
          · cases h
          · rename_i s2 q hpo
            simp only at h
            obtain ⟨out, hv, hc⟩ := strLoop_content (s2.rest.length + 1) s2 (pre ++ q)
            cases hcl : strLoop (s2.rest.length + 1) s2 (pre ++ q) with
            | mk s3 r =>
              obtain ⟨v, eof⟩ := r
              rw [hcl] at h hv hc
              simp only [Option.some.injEq, Prod.mk.injEq] at h hv hc
              obtain ⟨rfl, rfl⟩ := h
              have c1 := popN_content n s pre (by rw [hpn])
              rw [hpn] at c1
              have c2 := popOne_content false false s1 q (by rw [hpo])
              rw [hpo] at c2
              have f1 : Follows s s1 := by have := (popN_spec n s).1; rwa [hpn] at this
              have f2 : Follows s1 s2 := by
                have := ((popOne_spec false false s1).1 q (by rw [hpo])).follows; rwa [hpo] at this
              have f3 : Follows s2 s3 := by
                have := strLoop_follows (s2.rest.length + 1) s2 (pre ++ q); rwa [hcl] at this
              have c12 := Content.trans f1 f2 c1 c2
              have c123 := Content.trans (f1.trans f2) f3 c12 hc
              rw [hv]
              apply tokContent_value
              refine Content.congr_pos ?_ c123
              split <;> simp [LexSt.addDiag]

end Norm

namespace Norm
open Spec

theorem tokContent_table {ty : String} {s s' : LexSt} {text : List Char}
    (hm : (String.ofList text, ty) ∈ Generated.keywords ++ Generated.operators ++ Generated.brackets ++ wsTable)
    (h : Content false s s' text) : TokContent s s' (mkTok ty s s' none) :=
  ⟨text, by simpa [TokText, mkTok] using hm, Or.inl h⟩

theorem parseIdent_content {s s' : LexSt} {t : Token} (h : parseIdent s = some (s', t)) :
    TokContent s s' t := by
  unfold parseIdent at h
  split at h
  · rename_i c tl hr
    split at h
    · cases h
    · split at h
      · cases h
      · rename_i s1 ch hpo
        simp only at h
        obtain ⟨out, hv, hc⟩ := identLoop_content (s1.rest.length + 1) s1 ch
        cases hil : identLoop (s1.rest.length + 1) s1 ch with
        | mk s2 v =>
          rw [hil] at h hv hc
          simp only at h hv hc
          have c1 := popOne_content false false s ch (by rw [hpo])
          rw [hpo] at c1
          have f1 : Follows s s1 := by
            have := ((popOne_spec false false s).1 ch (by rw [hpo])).follows; rwa [hpo] at this
          have f2 : Follows s1 s2 := by
            have := identLoop_follows (s1.rest.length + 1) s1 ch; rwa [hil] at this
          have c12 := Content.trans f1 f2 c1 hc
          rw [← hv] at c12
          split at h
          · rename_i kw hkw
            simp only [Option.some.injEq, Prod.mk.injEq] at h
            obtain ⟨rfl, rfl⟩ := h
            refine tokContent_table ?_ c12
            have := assoc_mem hkw
            simp only [List.mem_append]
            exact Or.inl (Or.inl (Or.inl this))
          · simp only [Option.some.injEq, Prod.mk.injEq] at h
            obtain ⟨rfl, rfl⟩ := h
            exact tokContent_value c12
  · cases h

theorem parseWhitespace_content {s s' : LexSt} {t : Token} (h : parseWhitespace s = some (s', t)) :
    TokContent s s' t := by
  unfold parseWhitespace at h
  split at h
  · rename_i c tl hr
    simp only at h
    split at h
    · cases h
    · rename_i ty hty
      have hc3 : (c = ' ' ∧ ty = "SPACE") ∨ (c = '\t' ∧ ty = "TAB") ∨ (c = '\n' ∧ ty = "NEWLINE") := by
        by_cases h1 : c = ' '
        · subst h1; simp at hty; exact Or.inl ⟨rfl, hty.symm⟩
        · by_cases h2 : c = '\t'
          · subst h2; simp at hty; exact Or.inr (Or.inl ⟨rfl, hty.symm⟩)
          · by_cases h3 : c = '\n'
            · subst h3; simp at hty; exact Or.inr (Or.inr ⟨rfl, hty.symm⟩)
            · simp [h1, h2, h3] at hty
      have hp : peek1 s.rest 0 = some (c, 1) := by
        rw [hr]
        rcases hc3 with ⟨rfl, _⟩ | ⟨rfl, _⟩ | ⟨rfl, _⟩ <;>
          exact peek1_raw (by decide) (by decide) (by decide) (by decide)
      have hne : c ≠ '\\' := by rcases hc3 with ⟨rfl, _⟩ | ⟨rfl, _⟩ | ⟨rfl, _⟩ <;> decide
      obtain ⟨p1, _⟩ := popOne_plain hp hne
      split at h
      · cases h
      · rename_i s1 out hpo
        simp only [Option.some.injEq, Prod.mk.injEq] at h
        obtain ⟨rfl, rfl⟩ := h
        have c1 := popOne_content false false s out (by rw [hpo])
        rw [hpo] at c1 p1
        simp only [Option.some.injEq] at p1
        subst p1
        refine tokContent_table ?_ c1
        simp only [List.mem_append]
        right
        rcases hc3 with ⟨rfl, rfl⟩ | ⟨rfl, rfl⟩ | ⟨rfl, rfl⟩ <;> simp [wsTable]
  · cases h

theorem parseLineComment_content {s s' : LexSt} {t : Token} (h : parseLineComment s = some (s', t)) :
    TokContent s s' t := by
  unfold parseLineComment at h
  split at h
  · cases h
  · split at h
    · cases h
    · rename_i s1 v0 hpn
      simp only at h
      obtain ⟨out, hv, hc⟩ := lineCommentLoop_content (s1.rest.length + 1) s1 v0
      cases hl : lineCommentLoop (s1.rest.length + 1) s1 v0 with
      | mk s2 v =>
        rw [hl] at h hv hc
        simp only [Option.some.injEq, Prod.mk.injEq] at h hv hc
        obtain ⟨rfl, rfl⟩ := h
        have c1 := popN_content 2 s v0 (by rw [hpn])
        rw [hpn] at c1
        have f1 : Follows s s1 := by have := (popN_spec 2 s).1; rwa [hpn] at this
        have f2 : Follows s1 s2 := by
          have := lineCommentLoop_follows (s1.rest.length + 1) s1 v0; rwa [hl] at this
        rw [hv]
        exact tokContent_value (Content.trans f1 f2 c1 hc)

theorem parseMultiComment_content {s s' : LexSt} {t : Token} (h : parseMultiComment s = some (s', t)) :
    TokContent s s' t := by
  unfold parseMultiComment at h
  split at h
  · cases h
  · split at h
    · cases h
    · rename_i s1 v0 hpn
      simp only at h
      obtain ⟨out, hv, hc⟩ := multiCommentLoop_content (s1.rest.length + 1) s1 v0
      cases hl : multiCommentLoop (s1.rest.length + 1) s1 v0 with
      | mk s2 r =>
        obtain ⟨v, eof⟩ := r
        rw [hl] at h hv hc
        simp only [Option.some.injEq, Prod.mk.injEq] at h hv hc
        obtain ⟨rfl, rfl⟩ := h
        have c1 := popN_content 2 s v0 (by rw [hpn])
        rw [hpn] at c1
        have c1' : Content true s s1 v0 := by unfold Content at *; exact Den.mono c1
        have f1 : Follows s s1 := by have := (popN_spec 2 s).1; rwa [hpn] at this
        have f2 : Follows s1 s2 := by
          have := multiCommentLoop_follows (s1.rest.length + 1) s1 v0; rwa [hl] at this
        have c12 := Content.trans f1 f2 c1' hc
        rw [hv]
        refine ⟨v0 ++ out, by simp [TokText, mkTok], Or.inr ⟨rfl, ?_⟩⟩
        refine Content.congr_pos ?_ c12
        split <;> simp [LexSt.addDiag]

theorem opFin_content {s s' : LexSt} {t : Token} {n : Nat} (h : opFin s n = some (some (s', t))) :
    TokContent s s' t := by
  unfold opFin at h
  split at h
  · cases h
  · rename_i s1 v hpn
    split at h
    · rename_i ty hty
      simp only [Option.some.injEq, Prod.mk.injEq] at h
      obtain ⟨rfl, rfl⟩ := h
      have c1 := popN_content n s v (by rw [hpn])
      rw [hpn] at c1
      refine tokContent_table ?_ c1
      have := assoc_mem hty
      simp only [List.mem_append]
      exact Or.inl (Or.inl (Or.inr this))
    · cases h

theorem parseOperator_content {s s' : LexSt} {t : Token} (h : parseOperator s = some (some (s', t))) :
    TokContent s s' t := by
  unfold parseOperator at h
  split at h
  · cases h
  · split at h
    · cases h
    · split at h
      · simp only at h
        split at h
        · exact opFin_content h
        · split at h
          · cases h
          · split at h
            · exact opFin_content h
            · split at h
              · exact opFin_content h
              · split at h
                · exact opFin_content h
                · exact opFin_content h
      · exact opFin_content h

theorem parseBrackets_content {s s' : LexSt} {t : Token} (h : parseBrackets s = some (s', t)) :
    TokContent s s' t := by
  unfold parseBrackets at h
  split at h
  · cases h
  · rename_i c sz hp
    split at h
    · cases h
    · rename_i ty hty
      have hne : c ≠ '\\' := by
        intro e; subst e
        have : assoc Generated.brackets (String.ofList ['\\']) = none := by decide
        rw [this] at hty; cases hty
      obtain ⟨p1, _⟩ := popOne_plain hp hne
      split at h
      · cases h
      · rename_i s1 out hpo
        simp only [Option.some.injEq, Prod.mk.injEq] at h
        obtain ⟨rfl, rfl⟩ := h
        have c1 := popOne_content false false s out (by rw [hpo])
        rw [hpo] at c1 p1
        simp only [Option.some.injEq] at p1
        subst p1
        refine tokContent_table ?_ c1
        have := assoc_mem hty
        simp only [List.mem_append]
        exact Or.inl (Or.inr this)

theorem trySubLexers_content {u : Uni} {s s' : LexSt} {t : Token}
    (h : trySubLexers u s = .ok (some (s', t))) : TokContent s s' t := by
  unfold trySubLexers at h
  split at h
  · rename_i r hr; simp only [Except.ok.injEq, Option.some.injEq] at h; subst h; exact parseFloat_content hr
  · split at h
    · rename_i r hr; simp only [Except.ok.injEq, Option.some.injEq] at h; subst h; exact parseInt_content hr
    · split at h
      · rename_i r hr; simp only [Except.ok.injEq, Option.some.injEq] at h; subst h; exact parseChar_content hr
      · split at h
        · rename_i r hr; simp only [Except.ok.injEq, Option.some.injEq] at h; subst h; exact parseString_content hr
        · split at h
          · rename_i r hr; simp only [Except.ok.injEq, Option.some.injEq] at h; subst h; exact parseIdent_content hr
          · split at h
            · rename_i r hr; simp only [Except.ok.injEq, Option.some.injEq] at h; subst h; exact parseWhitespace_content hr
            · split at h
              · rename_i r hr; simp only [Except.ok.injEq, Option.some.injEq] at h; subst h; exact parseLineComment_content hr
              · split at h
                · rename_i r hr; simp only [Except.ok.injEq, Option.some.injEq] at h; subst h; exact parseMultiComment_content hr
                · split at h
                  · cases h
                  · rename_i r hr; simp only [Except.ok.injEq, Option.some.injEq] at h; subst h; exact parseOperator_content hr
                  · simp only [Except.ok.injEq] at h; exact parseBrackets_content h

end Norm
