/- Every sub-lexer, when it produces a token, makes progress and `Follows` the position
specification; the token records the start state. -/
import NormModel.Proofs.LexPop
import NormModel.Proofs.NumPrefix
namespace Norm
open Spec

/-- the token `t` was cut between states `s` and `s'` -/
def TokOK (s s' : LexSt) (t : Token) : Prop :=
  Progress s s' ∧ t.line = s.line ∧ t.col = s.col ∧ t.start = s.pos ∧ t.stop = s'.pos

theorem tokOK_mk {ty : String} {s s' : LexSt} {v : Option (List Char)} (h : Progress s s') :
    TokOK s s' (mkTok ty s s' v) := ⟨h, rfl, rfl, rfl, rfl⟩

theorem Follows.addDiag_if {s t : LexSt} {b : Bool} {d : Diag} (h : Follows s t) (hd : DiagAt s d) :
    Follows s (if b then t.addDiag d else t) := by
  split
  · exact h.addDiag hd
  · exact h

/-- a diagnostic inside a clean prefix of the unread input, `k` characters ahead -/
theorem CPrefix.diagAt {e : List Char} {s : LexSt} (hp : CPrefix e s.rest) {d : Diag} {hl : Highlight} {tl : List Highlight}
    (k : Nat) (hd : d.highlights = hl :: tl) (hk : k < e.length) (hpos : (hl.line, hl.col) = (s.line, s.col + k)) :
    DiagAt s d := by
  refine DiagAt.ahead k hd (Nat.lt_of_lt_of_le hk hp.length_le) ?_ hpos
  obtain ⟨⟨r, hr⟩, hcl⟩ := hp
  rw [← hr, List.take_append_of_le_length (Nat.le_of_lt hk)]
  intro x hx
  exact hcl x (List.mem_of_mem_take hx)

/-! ### loops -/

theorem charLoop_progress (s0 : LexSt) (hne : 0 < s0.rest.length) (fuel : Nat) (s : LexSt) (v : List Char) (n : Nat)
    (h0 : Progress s0 s) : Progress s0 (charLoop s0.line s0.col fuel s v n).1 := by
  induction fuel generalizing s v n with
  | zero => exact h0
  | succ fuel ih =>
    unfold charLoop
    obtain ⟨p1, p2⟩ := popOne_spec false true s
    cases hpo : popOne false true s with
    | mk s1 r =>
      rw [hpo] at p1 p2
      cases r with
      | none =>
        exact (h0.trans_follows (p2 rfl).1).addDiag (DiagAt.here (mkDiag_highlights _ _ _) hne rfl)
      | some ch =>
        have hp := (p1 ch rfl).follows
        simp only
        split
        · -- newline: position restored, only the diagnostics of the pop are kept
          obtain ⟨n, _, _, _, _, ds, h5, h6⟩ := hp
          have : FollowsN 0 s { s with diags := s1.diags } := by
            rw [h5]; exact follows_addDiags s ds h6
          exact (h0.trans_follows ⟨0, this⟩).addDiag (DiagAt.here (mkDiag_highlights _ _ _) hne rfl)
        · split
          · exact h0.trans_follows hp
          · exact ih _ _ _ (h0.trans_follows hp)

theorem charLoop_moves (line col fuel : Nat) (s : LexSt) (v : List Char) (n : Nat) :
    Moves s (charLoop line col fuel s v n).1 := by
  induction fuel generalizing s v n with
  | zero => exact Moves.refl s
  | succ fuel ih =>
    unfold charLoop
    obtain ⟨p1, p2⟩ := popOne_spec false true s
    cases hpo : popOne false true s with
    | mk s1 r =>
      rw [hpo] at p1 p2
      cases r with
      | none => exact (p2 rfl).1.moves.addDiag _
      | some ch =>
        have hp := (p1 ch rfl).follows.moves
        simp only
        split
        · have : Moves s { s with diags := s1.diags } := ⟨0, Nat.zero_le _, by simp, by simp, by simp [advPos]⟩
          exact this.addDiag _
        · split
          · exact hp
          · exact hp.trans (ih _ _ _)

theorem Progress.addDiag_if {s t : LexSt} {b : Bool} {d : Diag} (h : Progress s t) (hd : DiagAt s d) :
    Progress s (if b then t.addDiag d else t) := by
  split
  · exact h.addDiag hd
  · exact h

theorem Progress.rest_pos {s t : LexSt} (h : Progress s t) : 0 < s.rest.length := by
  obtain ⟨k, hk, hk1, _⟩ := h
  omega

theorem strLoop_follows (fuel : Nat) (s : LexSt) (v : List Char) :
    Follows s (strLoop fuel s v).1 := by
  induction fuel generalizing s v with
  | zero => exact Follows.refl s
  | succ fuel ih =>
    unfold strLoop
    split
    · exact Follows.refl s
    · obtain ⟨p1, p2⟩ := popOne_spec false true s
      cases hpo : popOne false true s with
      | mk s1 r =>
        rw [hpo] at p1 p2
        cases r with
        | none => exact (p2 rfl).1
        | some ch =>
          have hp := (p1 ch rfl).follows
          simp only
          split
          · exact hp
          · exact hp.trans (ih _ _)

theorem identLoop_follows (fuel : Nat) (s : LexSt) (v : List Char) :
    Follows s (identLoop fuel s v).1 := by
  induction fuel generalizing s v with
  | zero => exact Follows.refl s
  | succ fuel ih =>
    unfold identLoop
    split
    · split
      · obtain ⟨p1, p2⟩ := popOne_spec false false s
        cases hpo : popOne false false s with
        | mk s1 r =>
          rw [hpo] at p1 p2
          cases r with
          | none => exact (p2 rfl).1
          | some ch => exact (p1 ch rfl).follows.trans (ih _ _)
      · exact Follows.refl s
    · exact Follows.refl s

theorem lineCommentLoop_follows (fuel : Nat) (s : LexSt) (v : List Char) :
    Follows s (lineCommentLoop fuel s v).1 := by
  induction fuel generalizing s v with
  | zero => exact Follows.refl s
  | succ fuel ih =>
    unfold lineCommentLoop
    split
    · exact Follows.refl s
    · split
      · exact Follows.refl s
      · obtain ⟨p1, p2⟩ := popOne_spec false false s
        cases hpo : popOne false false s with
        | mk s1 r =>
          rw [hpo] at p1 p2
          cases r with
          | none => exact (p2 rfl).1
          | some ch => exact (p1 ch rfl).follows.trans (ih _ _)

theorem multiCommentLoop_follows (fuel : Nat) (s : LexSt) (v : List Char) :
    Follows s (multiCommentLoop fuel s v).1 := by
  induction fuel generalizing s v with
  | zero => exact Follows.refl s
  | succ fuel ih =>
    unfold multiCommentLoop
    split
    · exact Follows.refl s
    · obtain ⟨p1, p2⟩ := popOne_spec true false s
      cases hpo : popOne true false s with
      | mk s1 r =>
        rw [hpo] at p1 p2
        cases r with
        | none => exact (p2 rfl).1
        | some ch =>
          have hp := (p1 ch rfl).follows
          simp only
          split
          · exact hp
          · exact hp.trans (ih _ _)

end Norm

namespace Norm
open Spec

/-! ### numeric literal matchers produce non-empty constants -/

theorem pos_of_not_isEmpty {α} {l : List α} (h : ¬ l.isEmpty = true) : 0 < l.length := by
  cases l with
  | nil => simp at h
  | cons x xs => simp

theorem matchFloatExp_pos {u : Uni} {src : List Char} {m : FloatMatch}
    (h : matchFloatExp u src = some m) : 0 < m.const.length := by
  unfold matchFloatExp at h
  simp only [spanP] at h
  by_cases h1 : (List.takeWhile u.isD src).isEmpty = true
  · simp [h1] at h
  · by_cases h2 : (matchExp isE u.isD (tailDec u) (List.dropWhile u.isD src)).isEmpty = true
    · simp [h1, h2] at h
    · simp only [h1, h2, Bool.false_eq_true, ↓reduceIte, Option.some.injEq] at h
      subst h
      exact pos_of_not_isEmpty h1

theorem matchFloatFrac_pos {u : Uni} {src : List Char} {m : FloatMatch}
    (h : matchFloatFrac u src = some m) : 0 < m.const.length := by
  unfold matchFloatFrac at h
  simp only [spanP] at h
  split at h
  · cases h
  · rename_i c rest hc
    simp only [Option.some.injEq] at h
    subst h
    simp only
    split at hc
    · rename_i r _
      cases h1 : (List.takeWhile u.isD r).isEmpty
      · simp only [h1, Bool.not_false, ↓reduceIte, Option.some.injEq, Prod.mk.injEq] at hc
        rw [← hc.1]; simp only [List.length_append, List.length_cons]; omega
      · cases h2 : (List.takeWhile u.isD src).isEmpty
        · simp only [h1, h2, Bool.not_true, Bool.not_false, Bool.false_eq_true, ↓reduceIte,
            Option.some.injEq, Prod.mk.injEq] at hc
          rw [← hc.1]; simp
        · simp [h1, h2] at hc
    · cases hc

theorem matchFloatHex_pos {u : Uni} {src : List Char} {m : FloatMatch}
    (h : matchFloatHex u src = some m) : 0 < m.const.length := by
  unfold matchFloatHex at h
  split at h
  · split at h
    · cases h
    · split at h
      · cases h
      · simp only [Option.some.injEq] at h
        subst h
        simp
  · cases h

theorem matchFloatExp_kind {u : Uni} {src : List Char} {m : FloatMatch}
    (h : matchFloatExp u src = some m) : m.kind = .exponent := by
  unfold matchFloatExp at h
  simp only [spanP] at h
  by_cases h1 : (List.takeWhile u.isD src).isEmpty = true
  · simp [h1] at h
  · by_cases h2 : (matchExp isE u.isD (tailDec u) (List.dropWhile u.isD src)).isEmpty = true
    · simp [h1, h2] at h
    · simp only [h1, h2, Bool.false_eq_true, ↓reduceIte, Option.some.injEq] at h
      subst h; rfl

theorem matchFloatFrac_kind {u : Uni} {src : List Char} {m : FloatMatch}
    (h : matchFloatFrac u src = some m) : m.kind = .fractional := by
  unfold matchFloatFrac at h
  simp only [spanP] at h
  split at h
  · cases h
  · simp only [Option.some.injEq] at h
    subst h; rfl

theorem len_pos_of_ne_nil {α} {l : List α} (h : l ≠ []) : 0 < l.length := by
  cases l with
  | nil => exact absurd rfl h
  | cons x xs => simp

theorem matchFloatHex_len2 {u : Uni} {src : List Char} {m : FloatMatch}
    (h : matchFloatHex u src = some m) : 2 ≤ m.const.length := by
  unfold matchFloatHex at h
  split at h
  · rename_i tl
    cases hxs : tl.takeWhile (fun c => c == 'x' || c == 'X') with
    | nil => rw [hxs] at h; cases h
    | cons x xs =>
      rw [hxs] at h
      simp only at h
      split at h
      · cases h
      · simp only [Option.some.injEq] at h
        subst h
        simp only [List.cons_append, List.length_cons, List.length_append]
        omega
  · cases h

theorem floatSuffixes_nil : Generated.floatSuffixes.contains (String.ofList []) = true := by decide

theorem floatLogic_tok {u : Uni} {s : LexSt} {m : FloatMatch} {d : Option Diag}
    (h : floatLogic u s.line s.col s.rest = .tok m d) :
    0 < m.const.length ∧ ∀ x, d = some x → DiagAt s x := by
  have hpre := floatLogic_pre h
  unfold floatLogic at h
  simp only at h
  split at h
  · cases h
  · rename_i m' hm
    have hpos : 0 < m'.const.length ∧ (m'.kind = .hexadecimal → 2 ≤ m'.const.length) := by
      split at hm
      · rename_i m1 h1
        simp only [Option.some.injEq] at hm; subst hm
        refine ⟨matchFloatExp_pos h1, ?_⟩
        intro hk
        rw [matchFloatExp_kind h1] at hk; cases hk
      · split at hm
        · rename_i m2 h2
          simp only [Option.some.injEq] at hm; subst hm
          refine ⟨matchFloatFrac_pos h2, ?_⟩
          intro hk
          rw [matchFloatFrac_kind h2] at hk; cases hk
        · exact ⟨matchFloatHex_pos hm, fun _ => matchFloatHex_len2 hm⟩
    have tot : (m.const ++ m.exp ++ m.suf).length = m.const.length + m.exp.length + m.suf.length := by
      simp only [List.length_append]
    split at h
    · -- BAD_EXPONENT (decimal)
      rename_i hc
      simp only [FloatRes.tok.injEq] at h
      obtain ⟨rfl, rfl⟩ := h
      refine ⟨hpos.1, ?_⟩
      intro x hx; cases hx
      have he : 0 < m'.exp.length := by
        simp only [Bool.and_eq_true, Bool.not_eq_true', List.isEmpty_eq_false_iff] at hc
        exact len_pos_of_ne_nil hc.1.2
      exact hpre.diagAt m'.const.length (mkDiag_highlights _ _ _) (by omega) rfl
    · split at h
      · cases h
      · split at h
        · -- MULTIPLE_X
          rename_i hc
          simp only [FloatRes.tok.injEq] at h
          obtain ⟨rfl, rfl⟩ := h
          refine ⟨hpos.1, ?_⟩
          intro x hx; cases hx
          have hk : m'.kind = .hexadecimal := by
            simp only [Bool.and_eq_true, beq_iff_eq] at hc
            exact hc.1
          have := hpos.2 hk
          refine hpre.diagAt 1 (mkDiag_highlights _ _ _) (by omega) ?_
          simp only [Prod.mk.injEq, true_and]
          omega
        · split at h
          · -- BAD_EXPONENT (hexadecimal)
            rename_i hc
            simp only [FloatRes.tok.injEq] at h
            obtain ⟨rfl, rfl⟩ := h
            refine ⟨hpos.1, ?_⟩
            intro x hx; cases hx
            have he : 0 < m'.exp.length := by
              simp only [Bool.and_eq_true, Bool.not_eq_true', List.isEmpty_eq_false_iff] at hc
              exact len_pos_of_ne_nil hc.1.2
            exact hpre.diagAt m'.const.length (mkDiag_highlights _ _ _) (by omega) rfl
          · split at h
            · -- MULTIPLE_DOTS
              rename_i hc
              simp only [FloatRes.tok.injEq] at h
              obtain ⟨rfl, rfl⟩ := h
              refine ⟨hpos.1, ?_⟩
              intro x hx; cases hx
              have he : 0 < m'.suf.length := by
                simp only [Bool.and_eq_true, decide_eq_true_eq] at hc
                have := List.count_le_length (a := '.') (l := m'.suf)
                omega
              exact hpre.diagAt m'.const.length (mkDiag_highlights _ _ _) (by omega) rfl
            · split at h
              · -- BAD_FLOAT_SUFFIX
                rename_i hc
                simp only [FloatRes.tok.injEq] at h
                obtain ⟨rfl, rfl⟩ := h
                refine ⟨hpos.1, ?_⟩
                intro x hx; cases hx
                have he : 0 < m'.suf.length := by
                  apply len_pos_of_ne_nil
                  intro e
                  rw [e, floatSuffixes_nil] at hc
                  simp at hc
                refine hpre.diagAt (m'.const.length + m'.exp.length) (mkDiag_highlights _ _ _) (by omega) ?_
                simp only [Prod.mk.injEq, true_and]
                omega
              · simp only [FloatRes.tok.injEq] at h
                obtain ⟨rfl, rfl⟩ := h
                exact ⟨hpos.1, by intro x hx; cases hx⟩

theorem parseFloat_ok {u : Uni} {s s' : LexSt} {t : Token} (h : parseFloat u s = some (s', t)) :
    TokOK s s' t := by
  unfold parseFloat at h
  split at h
  · cases h
  · split at h
    · cases h
    · rename_i m d hfl
      obtain ⟨hpos, hd⟩ := floatLogic_tok hfl
      simp only at h
      split at h
      · cases h
      · rename_i s2 v hpn
        simp only [Option.some.injEq, Prod.mk.injEq] at h
        obtain ⟨rfl, rfl⟩ := h
        have hs1 : Follows s (s.addDiag? d) := by
          cases d with
          | none => exact Follows.refl s
          | some x => exact ⟨0, follows_addDiag s x (hd x rfl)⟩
        have := (popN_spec (m.const.length + m.exp.length + m.suf.length) (s.addDiag? d)).2 v
          (by rw [hpn]) (by omega)
        rw [hpn] at this
        exact tokOK_mk (hs1.trans_progress this)

end Norm

namespace Norm
open Spec

theorem intFin_pos {u : Uni} {pre c after : List Char} {m : IntMatch}
    (h : intFin u pre c after = some m) : 0 < m.const.length := by
  unfold intFin at h
  cases hc : c.isEmpty
  · simp only [hc, Bool.false_eq_true, ↓reduceIte, Option.some.injEq] at h
    subst h
    exact pos_of_not_isEmpty (by simp [hc])
  · simp [hc] at h

theorem matchInt_pos {u : Uni} {src : List Char} {m : IntMatch}
    (h : matchInt u src = some m) : 0 < m.const.length := by
  unfold matchInt at h
  split at h
  · cases h
  · rename_i tl
    split at h
    · rename_i m1 h1
      simp only [Option.some.injEq] at h; subst h
      unfold intAltX at h1
      split at h1
      · cases h1
      · exact intFin_pos h1
      · exact intFin_pos h1
    · split at h
      · rename_i m2 h2
        simp only [Option.some.injEq] at h; subst h
        unfold intAltB at h2
        split at h2
        · cases h2
        · exact intFin_pos h2
      · split at h
        · rename_i m3 h3
          simp only [Option.some.injEq] at h; subst h
          exact intFin_pos h3
        · exact intFin_pos h
  · exact intFin_pos h

theorem popOne_ff_len {s : LexSt} {cs : List Char} (h : (popOne false false s).2 = some cs) : cs.length = 1 := by
  unfold popOne at h
  split at h
  · cases h
  · rename_i s1 c sz _
    have he : escOf false s1 c sz = ([c], sz, [], 0) := by unfold escOf; simp
    rw [he] at h
    unfold finishPop at h
    simp only at h
    split at h
    · simp only [Option.some.injEq] at h; subst h; rfl
    · split at h
      · simp only [Bool.false_eq_true, ↓reduceIte, Option.some.injEq] at h; subst h; rfl
      · simp only [Option.some.injEq] at h; subst h; rfl

theorem popN_len (n : Nat) (s : LexSt) (v : List Char) (h : (popN n s).2 = some v) : v.length = n := by
  induction n generalizing s v with
  | zero => unfold popN at h; simp only [Option.some.injEq] at h; subst h; rfl
  | succ n ih =>
    unfold popN at h
    cases hpo : popOne false false s with
    | mk s1 r =>
      rw [hpo] at h
      cases r with
      | none => cases h
      | some cs =>
        simp only at h
        have h1 := popOne_ff_len (s := s) (cs := cs) (by rw [hpo])
        cases hpn : popN n s1 with
        | mk s2 r2 =>
          rw [hpn] at h
          cases r2 with
          | none => cases h
          | some ds =>
            simp only [Option.some.injEq] at h
            subst h
            have h2 := ih s1 ds (by rw [hpn])
            simp only [List.length_append]; omega

theorem badDigits_at {s : LexSt} {m : IntMatch} (hpre : CPrefix (m.pre ++ m.const ++ m.suf) s.rest)
    (name : String) (bucket : List Char) :
    ∀ d ∈ badDigits s.line s.col m name bucket, DiagAt s d := by
  intro d hd
  unfold badDigits at hd
  simp only at hd
  split at hd
  · simp at hd
  · rename_i hne
    simp only [List.mem_singleton] at hd
    subst hd
    generalize hhs : (m.const.zipIdx m.pre.length).filterMap (fun x : Char × Nat =>
      if bucket.contains x.1 = true then none else some ({ line := s.line, col := s.col + x.2, length := some 1 } : Highlight)) = hs at hne
    cases hs with
    | nil => simp at hne
    | cons hl tl =>
      have hmem : hl ∈ (m.const.zipIdx m.pre.length).filterMap (fun x : Char × Nat =>
          if bucket.contains x.1 = true then none else some ({ line := s.line, col := s.col + x.2, length := some 1 } : Highlight)) := by
        rw [hhs]; simp
      simp only [List.mem_filterMap] at hmem
      obtain ⟨⟨c, i⟩, hci, hf⟩ := hmem
      have hlo := List.le_snd_of_mem_zipIdx hci
      have hhi := List.snd_lt_of_mem_zipIdx hci
      simp only at hlo hhi hf
      split at hf
      · cases hf
      · simp only [Option.some.injEq] at hf
        subst hf
        refine hpre.diagAt i (mkDiag_highlights _ _ _) ?_ rfl
        simp only [List.length_append]; omega

theorem integerSuffixes_nil : Generated.integerSuffixes.contains (String.ofList []) = true := by decide

theorem intDiags_at {s : LexSt} {m : IntMatch} (hpre : CPrefix (m.pre ++ m.const ++ m.suf) s.rest) :
    ∀ d ∈ intDiags s.line s.col (m.pre.length + m.const.length + m.suf.length) m, DiagAt s d := by
  intro d hd
  unfold intDiags at hd
  simp only [List.mem_append] at hd
  rcases hd with hd | hd
  · split at hd
    · simp at hd
    · split at hd
      · rename_i c tl hsuf
        have hk : m.pre.length + m.const.length < (m.pre ++ m.const ++ m.suf).length := by
          simp only [List.length_append, hsuf, List.length_cons]; omega
        have hp : m.pre.length + m.const.length + m.suf.length - m.suf.length = m.pre.length + m.const.length := by omega
        split at hd
        · simp only [List.mem_singleton] at hd; subst hd
          refine hpre.diagAt (m.pre.length + m.const.length) (mkDiag_highlights _ _ _) hk ?_
          simp only [hp]
        · simp only [List.mem_singleton] at hd; subst hd
          refine hpre.diagAt (m.pre.length + m.const.length) (mkDiag_highlights _ _ _) hk ?_
          simp only [hp]
      · simp at hd
  · repeat' split at hd
    all_goals first
      | (simp at hd; done)
      | exact badDigits_at hpre _ _ d hd

theorem parseInt_ok {u : Uni} {s s' : LexSt} {t : Token} (h : parseInt u s = some (s', t)) :
    TokOK s s' t := by
  unfold parseInt at h
  split at h
  · cases h
  · rename_i m hm
    have hpos := matchInt_pos hm
    split at h
    · cases h
    · rename_i s2 v hpn
      simp only [Option.some.injEq, Prod.mk.injEq] at h
      obtain ⟨rfl, rfl⟩ := h
      have := (popN_spec (m.pre.length + m.const.length + m.suf.length) s).2 v (by rw [hpn]) (by omega)
      rw [hpn] at this
      have hv : v.length = m.pre.length + m.const.length + m.suf.length := popN_len _ s v (by rw [hpn])
      rw [hv]
      exact tokOK_mk (this.addDiags (intDiags_at (matchInt_pre hm)))

theorem parseChar_ok {s s' : LexSt} {t : Token} (h : parseChar s = some (s', t)) :
    TokOK s s' t := by
  unfold parseChar at h
  split at h
  · cases h
  · rename_i n _
    split at h
    · cases h
    · rename_i s1 pre hpn
      have f1 : Follows s s1 := by have := (popN_spec n s).1; rw [hpn] at this; exact this
      split at h
      · cases h
      · split at h
        · cases h
        · rename_i s2 q hpo
          have p2 : Progress s1 s2 := by
            have := (popOne_spec false false s1).1 q (by rw [hpo]); rw [hpo] at this; exact this
          simp only [Option.some.injEq, Prod.mk.injEq] at h
          obtain ⟨rfl, rfl⟩ := h
          apply tokOK_mk
          have hne := (f1.trans_progress p2).rest_pos
          have f3 := charLoop_progress s hne (s2.rest.length + 1) s2 (pre ++ q) 0 (f1.trans_progress p2)
          apply Progress.addDiag_if _ (DiagAt.here (mkDiag_highlights _ _ _) hne rfl)
          exact f3.addDiag_if (DiagAt.here (mkDiag_highlights _ _ _) hne rfl)

theorem parseString_ok {s s' : LexSt} {t : Token} (h : parseString s = some (s', t)) :
    TokOK s s' t := by
  unfold parseString at h
  split at h
  · cases h
  · split at h
    · cases h
    · rename_i n _
      split at h
      · cases h
      · rename_i s1 pre hpn
        have f1 : Follows s s1 := by have := (popN_spec n s).1; rw [hpn] at this; exact this
        split at h
        · cases h
        · split at h
          · cases h
          · rename_i s2 q hpo
            have p2 : Progress s1 s2 := by
              have := (popOne_spec false false s1).1 q (by rw [hpo]); rw [hpo] at this; exact this
            simp only [Option.some.injEq, Prod.mk.injEq] at h
            obtain ⟨rfl, rfl⟩ := h
            apply tokOK_mk
            have hne := (f1.trans_progress p2).rest_pos
            have f3 := strLoop_follows (s2.rest.length + 1) s2 (pre ++ q)
            exact ((f1.trans_progress p2).trans_follows f3).addDiag_if (DiagAt.here (mkDiag_highlights _ _ _) hne rfl)

theorem parseIdent_ok {s s' : LexSt} {t : Token} (h : parseIdent s = some (s', t)) :
    TokOK s s' t := by
  unfold parseIdent at h
  split at h
  · split at h
    · cases h
    · split at h
      · cases h
      · rename_i s1 ch hpo
        have p1 : Progress s s1 := by
          have := (popOne_spec false false s).1 ch (by rw [hpo]); rw [hpo] at this; exact this
        have f2 := identLoop_follows (s1.rest.length + 1) s1 ch
        simp only at h
        split at h <;>
        · simp only [Option.some.injEq, Prod.mk.injEq] at h
          obtain ⟨rfl, rfl⟩ := h
          exact tokOK_mk (p1.trans_follows f2)
  · cases h

theorem parseWhitespace_ok {s s' : LexSt} {t : Token} (h : parseWhitespace s = some (s', t)) :
    TokOK s s' t := by
  unfold parseWhitespace at h
  split at h
  · simp only at h
    split at h
    · cases h
    · split at h
      · cases h
      · rename_i s1 ch hpo
        have p1 : Progress s s1 := by
          have := (popOne_spec false false s).1 ch (by rw [hpo]); rw [hpo] at this; exact this
        simp only [Option.some.injEq, Prod.mk.injEq] at h
        obtain ⟨rfl, rfl⟩ := h
        exact tokOK_mk p1
  · cases h

theorem parseLineComment_ok {s s' : LexSt} {t : Token} (h : parseLineComment s = some (s', t)) :
    TokOK s s' t := by
  unfold parseLineComment at h
  split at h
  · cases h
  · split at h
    · cases h
    · rename_i s1 v0 hpn
      have p1 : Progress s s1 := by
        have := (popN_spec 2 s).2 v0 (by rw [hpn]) (by omega); rw [hpn] at this; exact this
      simp only [Option.some.injEq, Prod.mk.injEq] at h
      obtain ⟨rfl, rfl⟩ := h
      exact tokOK_mk (p1.trans_follows (lineCommentLoop_follows _ _ _))

theorem parseMultiComment_ok {s s' : LexSt} {t : Token} (h : parseMultiComment s = some (s', t)) :
    TokOK s s' t := by
  unfold parseMultiComment at h
  split at h
  · cases h
  · split at h
    · cases h
    · rename_i s1 v0 hpn
      have p1 : Progress s s1 := by
        have := (popN_spec 2 s).2 v0 (by rw [hpn]) (by omega); rw [hpn] at this; exact this
      simp only [Option.some.injEq, Prod.mk.injEq] at h
      obtain ⟨rfl, rfl⟩ := h
      apply tokOK_mk
      exact (p1.trans_follows (multiCommentLoop_follows _ _ _)).addDiag_if (DiagAt.here (mkDiag_highlights _ _ _) p1.rest_pos rfl)

theorem parseBrackets_ok {s s' : LexSt} {t : Token} (h : parseBrackets s = some (s', t)) :
    TokOK s s' t := by
  unfold parseBrackets at h
  split at h
  · cases h
  · split at h
    · cases h
    · split at h
      · cases h
      · rename_i s1 ch hpo
        have p1 : Progress s s1 := by
          have := (popOne_spec false false s).1 ch (by rw [hpo]); rw [hpo] at this; exact this
        simp only [Option.some.injEq, Prod.mk.injEq] at h
        obtain ⟨rfl, rfl⟩ := h
        exact tokOK_mk p1

end Norm

namespace Norm
open Spec

theorem opFin_ok {s s' : LexSt} {t : Token} {n : Nat} (hn : 0 < n)
    (h : opFin s n = some (some (s', t))) : TokOK s s' t := by
  unfold opFin at h
  split at h
  · cases h
  · rename_i s1 v hpn
    split at h
    · simp only [Option.some.injEq, Prod.mk.injEq] at h
      obtain ⟨rfl, rfl⟩ := h
      have := (popN_spec n s).2 v (by rw [hpn]) hn
      rw [hpn] at this
      exact tokOK_mk this
    · cases h

theorem parseOperator_ok {s s' : LexSt} {t : Token} (h : parseOperator s = some (some (s', t))) :
    TokOK s s' t := by
  unfold parseOperator at h
  simp only at h
  repeat' split at h
  all_goals first
    | (cases h; done)
    | exact opFin_ok (by decide) h

theorem trySubLexers_ok {u : Uni} {s s' : LexSt} {t : Token}
    (h : trySubLexers u s = .ok (some (s', t))) : TokOK s s' t := by
  unfold trySubLexers at h
  repeat' split at h
  all_goals first
    | (cases h; done)
    | (simp only [Except.ok.injEq, Option.some.injEq] at h; subst h
       first
         | exact parseFloat_ok ‹_›
         | exact parseInt_ok ‹_›
         | exact parseChar_ok ‹_›
         | exact parseString_ok ‹_›
         | exact parseIdent_ok ‹_›
         | exact parseWhitespace_ok ‹_›
         | exact parseLineComment_ok ‹_›
         | exact parseMultiComment_ok ‹_›
         | exact parseOperator_ok ‹_›)
    | (simp only [Except.ok.injEq] at h; exact parseBrackets_ok h)

theorem skipSplices_follows (fuel : Nat) (s : LexSt) : Follows s (skipSplices fuel s) := by
  induction fuel generalizing s with
  | zero => exact Follows.refl s
  | succ fuel ih =>
    unfold skipSplices
    split
    · rename_i h1
      have h1' : rawPeek s.rest 0 2 = some ['\\', '\n'] := by simpa using h1
      unfold rawPeek at h1'
      split at h1'
      · simp only [List.drop_zero, Option.some.injEq] at h1'
        have hlen : 2 ≤ s.rest.length := by
          have := congrArg List.length h1'; simp at this; omega
        have hnl : (s.rest.drop 1).head? = some '\n' := by
          match hr : s.rest, h1' with
          | a :: b :: tl, h1' => simp at h1'; simp [h1'.2]
          | [_], h1' => simp at h1'
          | [], h1' => simp at h1'
        have hcl : Clean (s.rest.take 1) := by
          match hr : s.rest, h1' with
          | a :: b :: tl, h1' =>
            simp at h1'; intro x hx; simp at hx; subst hx; rw [h1'.1]; decide
          | [_], h1' => simp at h1'
          | [], h1' => simp at h1'
        exact Follows.trans ⟨_, follows_splice s 1 hlen hcl hnl⟩ (ih _)
      · cases h1'
    · split
      · rename_i _ h2
        have h2' : rawPeek s.rest 0 4 = some ['?', '?', '/', '\n'] := by simpa using h2
        unfold rawPeek at h2'
        split at h2'
        · simp only [List.drop_zero, Option.some.injEq] at h2'
          have hlen : 4 ≤ s.rest.length := by
            have := congrArg List.length h2'; simp at this; omega
          match hr : s.rest, h2', hlen with
          | a :: b :: c :: d :: tl, h2', _ =>
            simp at h2'
            obtain ⟨rfl, rfl, rfl, rfl⟩ := h2'
            have hf := follows_splice s 3 (by rw [hr]; simp) (by rw [hr]; intro x hx; simp at hx; rcases hx with rfl | rfl | rfl <;> decide) (by rw [hr]; simp)
            exact Follows.trans ⟨_, hf⟩ (ih _)
          | [_, _, _], _, hl => simp at hl
          | [_, _], _, hl => simp at hl
          | [_], _, hl => simp at hl
          | [], _, hl => simp at hl
        · cases h2'
      · exact Follows.refl s

end Norm
