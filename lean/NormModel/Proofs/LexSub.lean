/- Every sub-lexer, when it produces a token, makes progress and `Follows` the position
specification; the token records the start state. -/
import NormModel.Proofs.LexPop
namespace Norm
open Spec

/-- the token `t` was cut between states `s` and `s'` -/
def TokOK (s s' : LexSt) (t : Token) : Prop :=
  Progress s s' ∧ t.line = s.line ∧ t.col = s.col ∧ t.start = s.pos ∧ t.stop = s'.pos

theorem tokOK_mk {ty : String} {s s' : LexSt} {v : Option (List Char)} (h : Progress s s') :
    TokOK s s' (mkTok ty s s' v) := ⟨h, rfl, rfl, rfl, rfl⟩

theorem follows_of_addDiag_if {s : LexSt} {b : Bool} {d : Diag} (h : HasHl d) :
    Follows s (if b then s.addDiag d else s) := by
  split
  · exact ⟨0, follows_addDiag s d h⟩
  · exact Follows.refl s

/-! ### loops -/

theorem charLoop_follows (line col fuel : Nat) (s : LexSt) (v : List Char) (n : Nat) :
    Follows s (charLoop line col fuel s v n).1 := by
  induction fuel generalizing s v n with
  | zero => exact Follows.refl s
  | succ fuel ih =>
    unfold charLoop
    obtain ⟨p1, p2⟩ := popOne_spec false true s
    cases hpo : popOne false true s with
    | mk s1 r =>
      rw [hpo] at p1 p2
      cases r with
      | none =>
        exact (p2 rfl).1.trans ⟨0, follows_addDiag _ _ (hasHl_mkDiag _ _ _ _)⟩
      | some ch =>
        have hp := (p1 ch rfl).follows
        simp only
        split
        · -- newline: position restored, only the diagnostics of the pop are kept
          obtain ⟨n, _, _, _, _, ds, h5, h6⟩ := hp
          have : FollowsN 0 s { s with diags := s1.diags } := by
            rw [h5]; exact follows_addDiags s ds h6
          exact Follows.trans ⟨0, this⟩ ⟨0, follows_addDiag _ _ (hasHl_mkDiag _ _ _ _)⟩
        · split
          · exact hp
          · exact hp.trans (ih _ _ _)

theorem strLoop_follows (fuel : Nat) (s : LexSt) (v : List Char) :
    Follows s (strLoop fuel s v).1 := by
  induction fuel generalizing s v with
  | zero => exact Follows.refl s
  | succ fuel ih =>
    unfold strLoop
    split
    · exact Follows.refl s
    · obtain ⟨p1, p2⟩ := popOne_spec false true s
      cases hpo : popOne false true s with
      | mk s1 r =>
        rw [hpo] at p1 p2
        cases r with
        | none => exact (p2 rfl).1
        | some ch =>
          have hp := (p1 ch rfl).follows
          simp only
          split
          · exact hp
          · exact hp.trans (ih _ _)

theorem identLoop_follows (fuel : Nat) (s : LexSt) (v : List Char) :
    Follows s (identLoop fuel s v).1 := by
  induction fuel generalizing s v with
  | zero => exact Follows.refl s
  | succ fuel ih =>
    unfold identLoop
    split
    · split
      · obtain ⟨p1, p2⟩ := popOne_spec false false s
        cases hpo : popOne false false s with
        | mk s1 r =>
          rw [hpo] at p1 p2
          cases r with
          | none => exact (p2 rfl).1
          | some ch => exact (p1 ch rfl).follows.trans (ih _ _)
      · exact Follows.refl s
    · exact Follows.refl s

theorem lineCommentLoop_follows (fuel : Nat) (s : LexSt) (v : List Char) :
    Follows s (lineCommentLoop fuel s v).1 := by
  induction fuel generalizing s v with
  | zero => exact Follows.refl s
  | succ fuel ih =>
    unfold lineCommentLoop
    split
    · exact Follows.refl s
    · split
      · exact Follows.refl s
      · obtain ⟨p1, p2⟩ := popOne_spec false false s
        cases hpo : popOne false false s with
        | mk s1 r =>
          rw [hpo] at p1 p2
          cases r with
          | none => exact (p2 rfl).1
          | some ch => exact (p1 ch rfl).follows.trans (ih _ _)

theorem multiCommentLoop_follows (fuel : Nat) (s : LexSt) (v : List Char) :
    Follows s (multiCommentLoop fuel s v).1 := by
  induction fuel generalizing s v with
  | zero => exact Follows.refl s
  | succ fuel ih =>
    unfold multiCommentLoop
    split
    · exact Follows.refl s
    · obtain ⟨p1, p2⟩ := popOne_spec true false s
      cases hpo : popOne true false s with
      | mk s1 r =>
        rw [hpo] at p1 p2
        cases r with
        | none => exact (p2 rfl).1
        | some ch =>
          have hp := (p1 ch rfl).follows
          simp only
          split
          · exact hp
          · exact hp.trans (ih _ _)

end Norm

namespace Norm
open Spec

/-! ### numeric literal matchers produce non-empty constants -/

theorem pos_of_not_isEmpty {α} {l : List α} (h : ¬ l.isEmpty = true) : 0 < l.length := by
  cases l with
  | nil => simp at h
  | cons x xs => simp

theorem matchFloatExp_pos {u : Uni} {src : List Char} {m : FloatMatch}
    (h : matchFloatExp u src = some m) : 0 < m.const.length := by
  unfold matchFloatExp at h
  simp only [spanP] at h
  by_cases h1 : (List.takeWhile u.isD src).isEmpty = true
  · simp [h1] at h
  · by_cases h2 : (matchExp isE u.isD (tailDec u) (List.dropWhile u.isD src)).isEmpty = true
    · simp [h1, h2] at h
    · simp only [h1, h2, Bool.false_eq_true, ↓reduceIte, Option.some.injEq] at h
      subst h
      exact pos_of_not_isEmpty h1

theorem matchFloatFrac_pos {u : Uni} {src : List Char} {m : FloatMatch}
    (h : matchFloatFrac u src = some m) : 0 < m.const.length := by
  unfold matchFloatFrac at h
  simp only [spanP] at h
  split at h
  · cases h
  · rename_i c rest hc
    simp only [Option.some.injEq] at h
    subst h
    simp only
    split at hc
    · rename_i r _
      cases h1 : (List.takeWhile u.isD r).isEmpty
      · simp only [h1, Bool.not_false, ↓reduceIte, Option.some.injEq, Prod.mk.injEq] at hc
        rw [← hc.1]; simp only [List.length_append, List.length_cons]; omega
      · cases h2 : (List.takeWhile u.isD src).isEmpty
        · simp only [h1, h2, Bool.not_true, Bool.not_false, Bool.false_eq_true, ↓reduceIte,
            Option.some.injEq, Prod.mk.injEq] at hc
          rw [← hc.1]; simp
        · simp [h1, h2] at hc
    · cases hc

theorem matchFloatHex_pos {u : Uni} {src : List Char} {m : FloatMatch}
    (h : matchFloatHex u src = some m) : 0 < m.const.length := by
  unfold matchFloatHex at h
  split at h
  · split at h
    · cases h
    · split at h
      · cases h
      · simp only [Option.some.injEq] at h
        subst h
        simp
  · cases h

theorem floatLogic_tok {u : Uni} {line col : Nat} {src : List Char} {m : FloatMatch} {d : Option Diag}
    (h : floatLogic u line col src = .tok m d) :
    0 < m.const.length ∧ ∀ x, d = some x → HasHl x := by
  unfold floatLogic at h
  simp only at h
  split at h
  · cases h
  · rename_i m' hm
    have hpos : 0 < m'.const.length := by
      split at hm
      · rename_i m1 h1
        simp only [Option.some.injEq] at hm; subst hm
        exact matchFloatExp_pos h1
      · split at hm
        · rename_i m2 h2
          simp only [Option.some.injEq] at hm; subst hm
          exact matchFloatFrac_pos h2
        · exact matchFloatHex_pos hm
    repeat' split at h
    all_goals try cases h
    all_goals (refine ⟨hpos, ?_⟩; intro x hx; cases hx; try exact hasHl_mkDiag _ _ _ _)

theorem parseFloat_ok {u : Uni} {s s' : LexSt} {t : Token} (h : parseFloat u s = some (s', t)) :
    TokOK s s' t := by
  unfold parseFloat at h
  split at h
  · cases h
  · split at h
    · cases h
    · rename_i m d hfl
      obtain ⟨hpos, hd⟩ := floatLogic_tok hfl
      simp only at h
      split at h
      · cases h
      · rename_i s2 v hpn
        simp only [Option.some.injEq, Prod.mk.injEq] at h
        obtain ⟨rfl, rfl⟩ := h
        have hs1 : Follows s (s.addDiag? d) := by
          cases d with
          | none => exact Follows.refl s
          | some x => exact ⟨0, follows_addDiag s x (hd x rfl)⟩
        have := (popN_spec (m.const.length + m.exp.length + m.suf.length) (s.addDiag? d)).2 v
          (by rw [hpn]) (by omega)
        rw [hpn] at this
        exact tokOK_mk (hs1.trans_progress this)

end Norm

namespace Norm
open Spec

theorem intFin_pos {u : Uni} {pre c after : List Char} {m : IntMatch}
    (h : intFin u pre c after = some m) : 0 < m.const.length := by
  unfold intFin at h
  cases hc : c.isEmpty
  · simp only [hc, Bool.false_eq_true, ↓reduceIte, Option.some.injEq] at h
    subst h
    exact pos_of_not_isEmpty (by simp [hc])
  · simp [hc] at h

theorem matchInt_pos {u : Uni} {src : List Char} {m : IntMatch}
    (h : matchInt u src = some m) : 0 < m.const.length := by
  unfold matchInt at h
  split at h
  · cases h
  · rename_i tl
    split at h
    · rename_i m1 h1
      simp only [Option.some.injEq] at h; subst h
      unfold intAltX at h1
      split at h1
      · cases h1
      · exact intFin_pos h1
      · exact intFin_pos h1
    · split at h
      · rename_i m2 h2
        simp only [Option.some.injEq] at h; subst h
        unfold intAltB at h2
        split at h2
        · cases h2
        · exact intFin_pos h2
      · split at h
        · rename_i m3 h3
          simp only [Option.some.injEq] at h; subst h
          exact intFin_pos h3
        · exact intFin_pos h
  · exact intFin_pos h

theorem badDigits_hasHl (line col : Nat) (m : IntMatch) (name : String) (bucket : List Char) :
    ∀ d ∈ badDigits line col m name bucket, HasHl d := by
  intro d hd
  unfold badDigits at hd
  simp only at hd
  split at hd
  · simp at hd
  · rename_i hne
    simp only [List.mem_singleton] at hd
    subst hd
    unfold HasHl mkDiag
    simp only
    intro h
    rw [h] at hne
    simp at hne

theorem intDiags_hasHl (line col total : Nat) (m : IntMatch) :
    ∀ d ∈ intDiags line col total m, HasHl d := by
  intro d hd
  unfold intDiags at hd
  simp only [List.mem_append] at hd
  rcases hd with hd | hd
  · repeat' split at hd
    all_goals first
      | (simp at hd; done)
      | (simp only [List.mem_singleton] at hd; subst hd; exact hasHl_mkDiag _ _ _ _)
  · repeat' split at hd
    all_goals first
      | (simp at hd; done)
      | exact badDigits_hasHl _ _ _ _ _ d hd

theorem parseInt_ok {u : Uni} {s s' : LexSt} {t : Token} (h : parseInt u s = some (s', t)) :
    TokOK s s' t := by
  unfold parseInt at h
  split at h
  · cases h
  · rename_i m hm
    have hpos := matchInt_pos hm
    split at h
    · cases h
    · rename_i s2 v hpn
      simp only [Option.some.injEq, Prod.mk.injEq] at h
      obtain ⟨rfl, rfl⟩ := h
      have := (popN_spec (m.pre.length + m.const.length + m.suf.length) s).2 v (by rw [hpn]) (by omega)
      rw [hpn] at this
      exact tokOK_mk (this.trans_follows ⟨0, follows_addDiags s2 _ (intDiags_hasHl _ _ _ _)⟩)

theorem parseChar_ok {s s' : LexSt} {t : Token} (h : parseChar s = some (s', t)) :
    TokOK s s' t := by
  unfold parseChar at h
  split at h
  · cases h
  · rename_i n _
    split at h
    · cases h
    · rename_i s1 pre hpn
      have f1 : Follows s s1 := by have := (popN_spec n s).1; rw [hpn] at this; exact this
      split at h
      · cases h
      · split at h
        · cases h
        · rename_i s2 q hpo
          have p2 : Progress s1 s2 := by
            have := (popOne_spec false false s1).1 q (by rw [hpo]); rw [hpo] at this; exact this
          simp only [Option.some.injEq, Prod.mk.injEq] at h
          obtain ⟨rfl, rfl⟩ := h
          apply tokOK_mk
          apply (f1.trans_progress p2).trans_follows
          have f3 := charLoop_follows s.line s.col (s2.rest.length + 1) s2 (pre ++ q) 0
          refine f3.trans ?_
          refine Follows.trans ?_ (follows_of_addDiag_if (hasHl_mkDiag _ _ _ _))
          exact follows_of_addDiag_if (hasHl_mkDiag _ _ _ _)

theorem parseString_ok {s s' : LexSt} {t : Token} (h : parseString s = some (s', t)) :
    TokOK s s' t := by
  unfold parseString at h
  split at h
  · cases h
  · split at h
    · cases h
    · rename_i n _
      split at h
      · cases h
      · rename_i s1 pre hpn
        have f1 : Follows s s1 := by have := (popN_spec n s).1; rw [hpn] at this; exact this
        split at h
        · cases h
        · split at h
          · cases h
          · rename_i s2 q hpo
            have p2 : Progress s1 s2 := by
              have := (popOne_spec false false s1).1 q (by rw [hpo]); rw [hpo] at this; exact this
            simp only [Option.some.injEq, Prod.mk.injEq] at h
            obtain ⟨rfl, rfl⟩ := h
            apply tokOK_mk
            apply (f1.trans_progress p2).trans_follows
            have f3 := strLoop_follows (s2.rest.length + 1) s2 (pre ++ q)
            exact f3.trans (follows_of_addDiag_if (hasHl_mkDiag _ _ _ _))

theorem parseIdent_ok {s s' : LexSt} {t : Token} (h : parseIdent s = some (s', t)) :
    TokOK s s' t := by
  unfold parseIdent at h
  split at h
  · split at h
    · cases h
    · split at h
      · cases h
      · rename_i s1 ch hpo
        have p1 : Progress s s1 := by
          have := (popOne_spec false false s).1 ch (by rw [hpo]); rw [hpo] at this; exact this
        have f2 := identLoop_follows (s1.rest.length + 1) s1 ch
        simp only at h
        split at h <;>
        · simp only [Option.some.injEq, Prod.mk.injEq] at h
          obtain ⟨rfl, rfl⟩ := h
          exact tokOK_mk (p1.trans_follows f2)
  · cases h

theorem parseWhitespace_ok {s s' : LexSt} {t : Token} (h : parseWhitespace s = some (s', t)) :
    TokOK s s' t := by
  unfold parseWhitespace at h
  split at h
  · simp only at h
    split at h
    · cases h
    · split at h
      · cases h
      · rename_i s1 ch hpo
        have p1 : Progress s s1 := by
          have := (popOne_spec false false s).1 ch (by rw [hpo]); rw [hpo] at this; exact this
        simp only [Option.some.injEq, Prod.mk.injEq] at h
        obtain ⟨rfl, rfl⟩ := h
        exact tokOK_mk p1
  · cases h

theorem parseLineComment_ok {s s' : LexSt} {t : Token} (h : parseLineComment s = some (s', t)) :
    TokOK s s' t := by
  unfold parseLineComment at h
  split at h
  · cases h
  · split at h
    · cases h
    · rename_i s1 v0 hpn
      have p1 : Progress s s1 := by
        have := (popN_spec 2 s).2 v0 (by rw [hpn]) (by omega); rw [hpn] at this; exact this
      simp only [Option.some.injEq, Prod.mk.injEq] at h
      obtain ⟨rfl, rfl⟩ := h
      exact tokOK_mk (p1.trans_follows (lineCommentLoop_follows _ _ _))

theorem parseMultiComment_ok {s s' : LexSt} {t : Token} (h : parseMultiComment s = some (s', t)) :
    TokOK s s' t := by
  unfold parseMultiComment at h
  split at h
  · cases h
  · split at h
    · cases h
    · rename_i s1 v0 hpn
      have p1 : Progress s s1 := by
        have := (popN_spec 2 s).2 v0 (by rw [hpn]) (by omega); rw [hpn] at this; exact this
      simp only [Option.some.injEq, Prod.mk.injEq] at h
      obtain ⟨rfl, rfl⟩ := h
      apply tokOK_mk
      apply p1.trans_follows
      exact (multiCommentLoop_follows _ _ _).trans (follows_of_addDiag_if (hasHl_mkDiag _ _ _ _))

theorem parseBrackets_ok {s s' : LexSt} {t : Token} (h : parseBrackets s = some (s', t)) :
    TokOK s s' t := by
  unfold parseBrackets at h
  split at h
  · cases h
  · split at h
    · cases h
    · split at h
      · cases h
      · rename_i s1 ch hpo
        have p1 : Progress s s1 := by
          have := (popOne_spec false false s).1 ch (by rw [hpo]); rw [hpo] at this; exact this
        simp only [Option.some.injEq, Prod.mk.injEq] at h
        obtain ⟨rfl, rfl⟩ := h
        exact tokOK_mk p1

end Norm

namespace Norm
open Spec

theorem opFin_ok {s s' : LexSt} {t : Token} {n : Nat} (hn : 0 < n)
    (h : opFin s n = some (some (s', t))) : TokOK s s' t := by
  unfold opFin at h
  split at h
  · cases h
  · rename_i s1 v hpn
    split at h
    · simp only [Option.some.injEq, Prod.mk.injEq] at h
      obtain ⟨rfl, rfl⟩ := h
      have := (popN_spec n s).2 v (by rw [hpn]) hn
      rw [hpn] at this
      exact tokOK_mk this
    · cases h

theorem parseOperator_ok {s s' : LexSt} {t : Token} (h : parseOperator s = some (some (s', t))) :
    TokOK s s' t := by
  unfold parseOperator at h
  simp only at h
  repeat' split at h
  all_goals first
    | (cases h; done)
    | exact opFin_ok (by decide) h

theorem trySubLexers_ok {u : Uni} {s s' : LexSt} {t : Token}
    (h : trySubLexers u s = .ok (some (s', t))) : TokOK s s' t := by
  unfold trySubLexers at h
  repeat' split at h
  all_goals first
    | (cases h; done)
    | (simp only [Except.ok.injEq, Option.some.injEq] at h; subst h
       first
         | exact parseFloat_ok ‹_›
         | exact parseInt_ok ‹_›
         | exact parseChar_ok ‹_›
         | exact parseString_ok ‹_›
         | exact parseIdent_ok ‹_›
         | exact parseWhitespace_ok ‹_›
         | exact parseLineComment_ok ‹_›
         | exact parseMultiComment_ok ‹_›
         | exact parseOperator_ok ‹_›)
    | (simp only [Except.ok.injEq] at h; exact parseBrackets_ok h)

theorem skipSplices_follows (fuel : Nat) (s : LexSt) : Follows s (skipSplices fuel s) := by
  induction fuel generalizing s with
  | zero => exact Follows.refl s
  | succ fuel ih =>
    unfold skipSplices
    split
    · rename_i h1
      have h1' : rawPeek s.rest 0 2 = some ['\\', '\n'] := by simpa using h1
      unfold rawPeek at h1'
      split at h1'
      · simp only [List.drop_zero, Option.some.injEq] at h1'
        have hlen : 2 ≤ s.rest.length := by
          have := congrArg List.length h1'; simp at this; omega
        have hnl : (s.rest.drop 1).head? = some '\n' := by
          match hr : s.rest, h1' with
          | a :: b :: tl, h1' => simp at h1'; simp [h1'.2]
          | [_], h1' => simp at h1'
          | [], h1' => simp at h1'
        have hcl : Clean (s.rest.take 1) := by
          match hr : s.rest, h1' with
          | a :: b :: tl, h1' =>
            simp at h1'; intro x hx; simp at hx; subst hx; rw [h1'.1]; decide
          | [_], h1' => simp at h1'
          | [], h1' => simp at h1'
        exact Follows.trans ⟨_, follows_splice s 1 hlen hcl hnl⟩ (ih _)
      · cases h1'
    · split
      · rename_i _ h2
        have h2' : rawPeek s.rest 0 4 = some ['?', '?', '/', '\n'] := by simpa using h2
        unfold rawPeek at h2'
        split at h2'
        · simp only [List.drop_zero, Option.some.injEq] at h2'
          have hlen : 4 ≤ s.rest.length := by
            have := congrArg List.length h2'; simp at this; omega
          match hr : s.rest, h2', hlen with
          | a :: b :: c :: d :: tl, h2', _ =>
            simp at h2'
            obtain ⟨rfl, rfl, rfl, rfl⟩ := h2'
            have hf := follows_splice s 3 (by rw [hr]; simp) (by rw [hr]; intro x hx; simp at hx; rcases hx with rfl | rfl | rfl <;> decide) (by rw [hr]; simp)
            exact Follows.trans ⟨_, hf⟩ (ih _)
          | [_, _, _], _, hl => simp at hl
          | [_, _], _, hl => simp at hl
          | [_], _, hl => simp at hl
          | [], _, hl => simp at hl
        · cases h2'
      · exact Follows.refl s

end Norm
