/- Respelling: two texts that `peek` reads as the same characters (whatever mix of plain
characters, digraphs and trigraphs spells them) give the same operator and bracket tokens. -/
import NormModel.Proofs.Ident
namespace Norm
open Spec

/-- **Reading equivalence**: the two texts are read by `peek` as the same sequence of characters. -/
inductive ReadEq : List Char → List Char → Prop
  | nil : ReadEq [] []
  | step {a b : List Char} {c : Char} {ka kb : Nat} :
      peek1 a 0 = some (c, ka) → peek1 b 0 = some (c, kb) → ReadEq (a.drop ka) (b.drop kb) → ReadEq a b

theorem peek1_nil_iff {a : List Char} : peek1 a 0 = none ↔ a = [] := by
  constructor
  · intro h
    have := peek1_none h
    exact List.eq_nil_of_length_eq_zero (by omega)
  · intro h; subst h; rfl

theorem ReadEq.refl (a : List Char) : ReadEq a a := by
  induction hn : a.length using Nat.strongRecOn generalizing a with
  | _ n ih =>
    cases hp : peek1 a 0 with
    | none => rw [peek1_nil_iff.mp hp]; exact ReadEq.nil
    | some p =>
      obtain ⟨c, k⟩ := p
      obtain ⟨h1, h2, _⟩ := peek1_spec hp
      exact ReadEq.step hp hp (ih (a.drop k).length (by simp; omega) _ rfl)

theorem ReadEq.symm {a b : List Char} (h : ReadEq a b) : ReadEq b a := by
  induction h with
  | nil => exact ReadEq.nil
  | step h1 h2 _ ih => exact ReadEq.step h2 h1 ih

theorem ReadEq.peek {a b : List Char} (h : ReadEq a b) :
    (peek1 a 0 = none ∧ peek1 b 0 = none ∧ a = [] ∧ b = []) ∨
    ∃ c ka kb, peek1 a 0 = some (c, ka) ∧ peek1 b 0 = some (c, kb) ∧ ReadEq (a.drop ka) (b.drop kb) := by
  cases h with
  | nil => exact Or.inl ⟨rfl, rfl, rfl, rfl⟩
  | step h1 h2 h3 => exact Or.inr ⟨_, _, _, h1, h2, h3⟩

/-- the characters that have an alternative spelling -/
def altTargets : List Char := "#\\^[]|{}~".toList

theorem tri_targets : ∀ p ∈ Generated.trigraphs, ∀ c, p.2.toList.head? = some c → c ∈ altTargets := by decide
theorem di_targets : ∀ p ∈ Generated.digraphs, ∀ c, p.2.toList.head? = some c → c ∈ altTargets := by decide

theorem triAt_target {l : List Char} {t : Char} (h : triAt l = some t) : t ∈ altTargets := by
  unfold triAt at h
  split at h
  · simp only [Option.bind_eq_some_iff] at h
    obtain ⟨v, hv, hh⟩ := h
    exact tri_targets _ (assoc_mem hv) t hh
  · cases h

theorem diAt_target {l : List Char} {t : Char} (h : diAt l = some t) : t ∈ altTargets := by
  unfold diAt at h
  split at h
  · simp only [Option.bind_eq_some_iff] at h
    obtain ⟨v, hv, hh⟩ := h
    exact di_targets _ (assoc_mem hv) t hh
  · cases h

/-- a character without alternative spelling is read only from itself -/
theorem peek1_unspelled {b : List Char} {c : Char} {k : Nat} (h : peek1 b 0 = some (c, k))
    (hc : c ∉ altTargets) : k = 1 ∧ ∃ tl, b = c :: tl := by
  cases b with
  | nil => simp [peek1, triAt, diAt] at h
  | cons x tl =>
    unfold peek1 at h
    simp only [List.drop_zero] at h
    cases ht : triAt (x :: tl) with
    | some t =>
      rw [ht] at h
      simp only [Option.some.injEq, Prod.mk.injEq] at h
      exact absurd (h.1 ▸ triAt_target ht) hc
    | none =>
      rw [ht] at h
      simp only at h
      cases hd : diAt (x :: tl) with
      | some d =>
        rw [hd] at h
        simp only [Option.some.injEq, Prod.mk.injEq] at h
        exact absurd (h.1 ▸ diAt_target hd) hc
      | none =>
        rw [hd] at h
        simp only [Option.some.injEq, Prod.mk.injEq] at h
        exact ⟨h.2.symm, tl, by rw [h.1]⟩

/-- read `n` characters: the characters and the text left -/
def readN : Nat → List Char → Option (List Char × List Char)
  | 0, l => some ([], l)
  | n + 1, l =>
    match peek1 l 0 with
    | none => none
    | some (c, k) =>
      match readN n (l.drop k) with
      | none => none
      | some (cs, r) => some (c :: cs, r)

/-- what two readings have in common -/
def ReadSim : Option (List Char × List Char) → Option (List Char × List Char) → Prop
  | none, none => True
  | some (cs, ra), some (cs', rb) => cs = cs' ∧ ReadEq ra rb
  | _, _ => False

theorem readN_readEq (n : Nat) {a b : List Char} (h : ReadEq a b) : ReadSim (readN n a) (readN n b) := by
  induction n generalizing a b with
  | zero => exact ⟨rfl, h⟩
  | succ n ih =>
    unfold readN
    rcases h.peek with ⟨h1, h2, _, _⟩ | ⟨c, ka, kb, h1, h2, h3⟩
    · rw [h1, h2]; trivial
    · rw [h1, h2]
      simp only
      have := ih h3
      cases ha : readN n (a.drop ka) with
      | none =>
        cases hb : readN n (b.drop kb) with
        | none => trivial
        | some q => rw [ha, hb] at this; exact this.elim
      | some p =>
        cases hb : readN n (b.drop kb) with
        | none => rw [ha, hb] at this; exact this.elim
        | some q =>
          rw [ha, hb] at this
          obtain ⟨cs, ra⟩ := p
          obtain ⟨cs', rb⟩ := q
          exact ⟨by rw [this.1], this.2⟩

/-- `pop(times=n)` returns the next `n` characters read, when none of them is a backslash -/
theorem popN_readN (n : Nat) (s : LexSt) (cs r : List Char) (h : readN n s.rest = some (cs, r))
    (hb : '\\' ∉ cs) : (popN n s).2 = some cs ∧ (popN n s).1.rest = r := by
  induction n generalizing s cs with
  | zero =>
    simp only [readN, Option.some.injEq, Prod.mk.injEq] at h
    obtain ⟨rfl, rfl⟩ := h
    exact ⟨rfl, rfl⟩
  | succ n ih =>
    unfold readN at h
    cases hp : peek1 s.rest 0 with
    | none => rw [hp] at h; cases h
    | some p =>
      obtain ⟨c, k⟩ := p
      rw [hp] at h
      simp only at h
      cases hr : readN n (s.rest.drop k) with
      | none => rw [hr] at h; cases h
      | some q =>
        obtain ⟨cs', r'⟩ := q
        rw [hr] at h
        simp only [Option.some.injEq, Prod.mk.injEq] at h
        obtain ⟨rfl, rfl⟩ := h
        have hc : c ≠ '\\' := fun e => hb (by rw [e]; simp)
        obtain ⟨p1, p2⟩ := popOne_plain hp hc
        unfold popN
        cases hpo : popOne false false s with
        | mk s1 v =>
          rw [hpo] at p1 p2
          simp only at p1 p2
          subst p1
          simp only
          have := ih s1 cs' (by rw [p2]; exact hr) (fun hm => hb (List.mem_cons_of_mem _ hm))
          cases hpn : popN n s1 with
          | mk s2 w =>
            rw [hpn] at this
            simp only at this
            obtain ⟨rfl, rfl⟩ := this
            exact ⟨rfl, rfl⟩

/-! ### operators -/

def r3flag (rest : List Char) : Bool :=
  let r3 := rawPeek rest 0 3
  r3 == some ">>=".toList || r3 == some "<<=".toList || r3 == some "...".toList

/-- how many characters `parse_operator` takes, from what it looked at -/
def opCount (c : Char) (f : Bool) (t : Option (List Char)) : Option Nat :=
  if opChars2.contains c then
    if f then some 3 else
    match t with
    | none => none
    | some temp =>
      if temp == ">>".toList || temp == "<<".toList || temp == "->".toList then some 2
      else if temp == [c, '='] && (assoc Generated.operators (String.ofList temp)).isSome then some 2
      else if opChars3.contains c && temp == [c, c] then some 2
      else some 1
  else some 1

theorem parseOperator_eq (s : LexSt) : parseOperator s =
    (match peek1 s.rest 0 with
    | none => some none
    | some (c, _) =>
      if !opChars.contains c then some none else
      match opCount c (r3flag s.rest) ((peek2 s.rest).map (·.1)) with
      | none => some none
      | some n => opFin s n) := by
  unfold parseOperator
  cases hp : peek1 s.rest 0 with
  | none => rfl
  | some p =>
    obtain ⟨c, k⟩ := p
    simp only
    by_cases h1 : (!opChars.contains c) = true
    · simp only [h1, ↓reduceIte]
    · simp only [h1, Bool.false_eq_true, ↓reduceIte]
      unfold opCount r3flag
      by_cases h2 : opChars2.contains c = true
      · simp only [h2, ↓reduceIte]
        by_cases h3 : (rawPeek s.rest 0 3 == some ">>=".toList || rawPeek s.rest 0 3 == some "<<=".toList ||
            rawPeek s.rest 0 3 == some "...".toList) = true
        · simp only [h3, ↓reduceIte]
        · simp only [h3, Bool.false_eq_true, ↓reduceIte]
          cases hq : peek2 s.rest with
          | none => rfl
          | some q =>
            obtain ⟨temp, m⟩ := q
            simp only [Option.map_some]
            by_cases c1 : (temp == ">>".toList || temp == "<<".toList || temp == "->".toList) = true
            · simp only [c1, ↓reduceIte]
            · simp only [c1, Bool.false_eq_true, ↓reduceIte]
              by_cases c2 : (temp == [c, '='] && (assoc Generated.operators (String.ofList temp)).isSome) = true
              · simp only [c2, ↓reduceIte]
              · simp only [c2, Bool.false_eq_true, ↓reduceIte]
                by_cases c3 : (opChars3.contains c && temp == [c, c]) = true
                · simp only [c3, ↓reduceIte]
                · simp only [c3, Bool.false_eq_true, ↓reduceIte]
      · simp only [h2, Bool.false_eq_true, ↓reduceIte]

/-! #### the three-character look-ahead is raw, yet spelling-independent -/

def ops3 : List (List Char) := [">>=".toList, "<<=".toList, "...".toList]

theorem ops3_unspelled : ∀ w ∈ ops3, (∀ c ∈ w, c ∉ altTargets) ∧ w.length = 3 ∧ '\\' ∉ w := by decide

theorem readN3_of_raw : ∀ w ∈ ops3, ∀ tl, readN 3 (w ++ tl) = some (w, tl) := by
  intro w hw tl
  simp only [ops3, List.mem_cons, List.not_mem_nil, or_false] at hw
  have dlt : ∀ l, diAt ('<' :: '<' :: l) = none := by intro l; simp only [diAt]; decide
  have dle : ∀ l, diAt ('<' :: '=' :: l) = none := by intro l; simp only [diAt]; decide
  rcases hw with rfl | rfl | rfl
  · have p1 : ∀ l, peek1 ('>' :: l) 0 = some ('>', 1) := fun l => peek1_raw (by decide) (by decide) (by decide) (by decide)
    have p2 : ∀ l, peek1 ('=' :: l) 0 = some ('=', 1) := fun l => peek1_raw (by decide) (by decide) (by decide) (by decide)
    show readN 3 ('>' :: '>' :: '=' :: tl) = _
    simp [readN, p1, p2]
  · have p1 : peek1 ('<' :: '<' :: '=' :: tl) 0 = some ('<', 1) := peek1_of_diAt_none (by decide) (dlt _)
    have p1' : peek1 ('<' :: '=' :: tl) 0 = some ('<', 1) := peek1_of_diAt_none (by decide) (dle _)
    have p2 : ∀ l, peek1 ('=' :: l) 0 = some ('=', 1) := fun l => peek1_raw (by decide) (by decide) (by decide) (by decide)
    show readN 3 ('<' :: '<' :: '=' :: tl) = _
    simp [readN, p1, p1', p2]
  · have p1 : ∀ l, peek1 ('.' :: l) 0 = some ('.', 1) := fun l => peek1_raw (by decide) (by decide) (by decide) (by decide)
    show readN 3 ('.' :: '.' :: '.' :: tl) = _
    simp [readN, p1]

theorem readN_unspelled (n : Nat) (b cs r : List Char) (h : readN n b = some (cs, r))
    (hu : ∀ c ∈ cs, c ∉ altTargets) : b = cs ++ r := by
  induction n generalizing b cs with
  | zero =>
    simp only [readN, Option.some.injEq, Prod.mk.injEq] at h
    obtain ⟨rfl, rfl⟩ := h; rfl
  | succ n ih =>
    unfold readN at h
    cases hp : peek1 b 0 with
    | none => rw [hp] at h; cases h
    | some p =>
      obtain ⟨c, k⟩ := p
      rw [hp] at h
      simp only at h
      cases hr : readN n (b.drop k) with
      | none => rw [hr] at h; cases h
      | some q =>
        obtain ⟨cs', r'⟩ := q
        rw [hr] at h
        simp only [Option.some.injEq, Prod.mk.injEq] at h
        obtain ⟨rfl, rfl⟩ := h
        obtain ⟨hk, tl, rfl⟩ := peek1_unspelled hp (hu c (by simp))
        subst hk
        have := ih (List.drop 1 (c :: tl)) cs' hr (fun c' hc' => hu c' (List.mem_cons_of_mem _ hc'))
        simp only [List.drop_succ_cons, List.drop_zero] at this
        rw [this]; rfl

theorem r3flag_iff (a : List Char) : r3flag a = true ↔ ∃ w ∈ ops3, ∃ tl, a = w ++ tl := by
  constructor
  · intro h
    unfold r3flag rawPeek at h
    by_cases hl : 0 < a.length
    · simp only [hl, ↓reduceIte, List.drop_zero, Bool.or_eq_true, beq_iff_eq, Option.some.injEq] at h
      have hsplit : a = a.take 3 ++ a.drop 3 := (List.take_append_drop 3 a).symm
      rcases h with (h | h) | h
      · exact ⟨">>=".toList, by decide, a.drop 3, by rw [← h]; exact hsplit⟩
      · exact ⟨"<<=".toList, by decide, a.drop 3, by rw [← h]; exact hsplit⟩
      · exact ⟨"...".toList, by decide, a.drop 3, by rw [← h]; exact hsplit⟩
    · simp [hl] at h
  · rintro ⟨w, hw, tl, rfl⟩
    simp only [ops3, List.mem_cons, List.not_mem_nil, or_false] at hw
    rcases hw with rfl | rfl | rfl <;> simp [r3flag, rawPeek]

theorem r3flag_readEq {a b : List Char} (h : ReadEq a b) (hf : r3flag a = true) :
    r3flag b = true ∧ ∃ w ∈ ops3, ∃ ta tb, readN 3 a = some (w, ta) ∧ readN 3 b = some (w, tb) ∧ ReadEq ta tb := by
  obtain ⟨w, hw, ta, rfl⟩ := (r3flag_iff a).mp hf
  have ha := readN3_of_raw w hw ta
  have hs := readN_readEq 3 h
  rw [ha] at hs
  cases hb : readN 3 b with
  | none => rw [hb] at hs; exact hs.elim
  | some q =>
    obtain ⟨cs, tb⟩ := q
    rw [hb] at hs
    obtain ⟨rfl, hre⟩ := hs
    have hbe := readN_unspelled 3 b w tb hb (ops3_unspelled w hw).1
    exact ⟨(r3flag_iff b).mpr ⟨w, hw, tb, hbe⟩, w, hw, ta, tb, ha, rfl, hre⟩

theorem r3flag_eq {a b : List Char} (h : ReadEq a b) : r3flag a = r3flag b := by
  cases ha : r3flag a with
  | true => exact ((r3flag_readEq h ha).1).symm
  | false =>
    cases hb : r3flag b with
    | false => rfl
    | true => have := (r3flag_readEq h.symm hb).1; rw [ha] at this; cases this

/-! #### the two-character look-ahead -/

theorem peek2_readEq {a b : List Char} (h : ReadEq a b) : (peek2 a).map (·.1) = (peek2 b).map (·.1) := by
  unfold peek2
  rcases h.peek with ⟨h1, h2, _, _⟩ | ⟨c, ka, kb, h1, h2, h3⟩
  · rw [h1, h2]
  · rw [h1, h2]
    simp only
    rw [peek1_off a ka, peek1_off b kb]
    rcases h3.peek with ⟨g1, g2, _, _⟩ | ⟨d, ja, jb, g1, g2, _⟩
    · rw [g1, g2]; rfl
    · rw [g1, g2]; rfl

theorem peek2_readN {a : List Char} {x y : Char} (h : (peek2 a).map (·.1) = some [x, y]) :
    ∃ r, readN 2 a = some ([x, y], r) := by
  unfold peek2 at h
  cases hp : peek1 a 0 with
  | none => rw [hp] at h; cases h
  | some p =>
    obtain ⟨c, k⟩ := p
    rw [hp] at h
    simp only at h
    cases hq : peek1 a k with
    | none => rw [hq] at h; simp at h
    | some q =>
      obtain ⟨d, j⟩ := q
      rw [hq] at h
      simp only [Option.map_some, Option.some.injEq, List.cons.injEq, and_true] at h
      obtain ⟨rfl, rfl⟩ := h
      rw [peek1_off] at hq
      exact ⟨(a.drop k).drop j, by simp [readN, hp, hq]⟩

theorem opCount_cases {c : Char} {f : Bool} {t : Option (List Char)} {n : Nat} (hc : c ∈ opChars)
    (h : opCount c f t = some n) :
    (n = 3 ∧ f = true) ∨ (n = 2 ∧ ∃ x y, t = some [x, y] ∧ x ≠ '\\' ∧ y ≠ '\\') ∨ n = 1 := by
  have hcb := opChars_no_backslash c hc
  unfold opCount at h
  split at h
  · split at h
    · rename_i hf
      simp only [Option.some.injEq] at h
      exact Or.inl ⟨h.symm, hf⟩
    · split at h
      · cases h
      · rename_i temp
        split at h
        · rename_i c1
          simp only [Option.some.injEq] at h
          simp only [Bool.or_eq_true, beq_iff_eq] at c1
          refine Or.inr (Or.inl ⟨h.symm, ?_⟩)
          rcases c1 with (rfl | rfl) | rfl
          · exact ⟨'>', '>', rfl, by decide, by decide⟩
          · exact ⟨'<', '<', rfl, by decide, by decide⟩
          · exact ⟨'-', '>', rfl, by decide, by decide⟩
        · split at h
          · rename_i c2
            simp only [Option.some.injEq] at h
            simp only [Bool.and_eq_true, beq_iff_eq] at c2
            exact Or.inr (Or.inl ⟨h.symm, c, '=', by rw [c2.1], hcb, by decide⟩)
          · split at h
            · rename_i c3
              simp only [Option.some.injEq] at h
              simp only [Bool.and_eq_true, beq_iff_eq] at c3
              exact Or.inr (Or.inl ⟨h.symm, c, c, by rw [c3.2], hcb, hcb⟩)
            · simp only [Option.some.injEq] at h
              exact Or.inr (Or.inr h.symm)
  · simp only [Option.some.injEq] at h
    exact Or.inr (Or.inr h.symm)

/-! #### the operator token -/

/-- what two outcomes of a sub-lexer have in common: same kind, same value, and the texts left
are again read as the same characters -/
def TokSim : Option (LexSt × Token) → Option (LexSt × Token) → Prop
  | none, none => True
  | some (s1, x), some (t1, y) => x.type = y.type ∧ x.value = y.value ∧ ReadEq s1.rest t1.rest
  | _, _ => False

def OpSim : Option (Option (LexSt × Token)) → Option (Option (LexSt × Token)) → Prop
  | none, none => True
  | some x, some y => TokSim x y
  | _, _ => False

theorem opFin_sim (s t : LexSt) (n : Nat) (cs ra rb : List Char) (ha : readN n s.rest = some (cs, ra))
    (hb : readN n t.rest = some (cs, rb)) (hbs : '\\' ∉ cs) (hre : ReadEq ra rb) :
    OpSim (opFin s n) (opFin t n) := by
  obtain ⟨a1, a2⟩ := popN_readN n s cs ra ha hbs
  obtain ⟨b1, b2⟩ := popN_readN n t cs rb hb hbs
  unfold opFin
  cases hps : popN n s with
  | mk s1 v =>
    cases hpt : popN n t with
    | mk t1 w =>
      rw [hps] at a1 a2
      rw [hpt] at b1 b2
      simp only at a1 a2 b1 b2
      subst a1; subst b1
      simp only
      cases assoc Generated.operators (String.ofList cs) with
      | none => trivial
      | some ty => exact ⟨rfl, rfl, by rw [a2, b2]; exact hre⟩

/-- **Operators are recognised from what is read, not from how it is spelled.** -/
theorem parseOperator_readEq (s t : LexSt) (h : ReadEq s.rest t.rest) :
    OpSim (parseOperator s) (parseOperator t) := by
  rw [parseOperator_eq s, parseOperator_eq t]
  rcases h.peek with ⟨h1, h2, _, _⟩ | ⟨c, ka, kb, h1, h2, h3⟩
  · rw [h1, h2]; trivial
  · rw [h1, h2]
    simp only
    by_cases hoc : (!opChars.contains c) = true
    · simp only [hoc, ↓reduceIte]; trivial
    · simp only [hoc, Bool.false_eq_true, ↓reduceIte]
      have hc : c ∈ opChars := by simpa using hoc
      rw [← r3flag_eq h, ← peek2_readEq h]
      cases hn : opCount c (r3flag s.rest) ((peek2 s.rest).map (·.1)) with
      | none => trivial
      | some n =>
        simp only
        rcases opCount_cases hc hn with ⟨rfl, hf⟩ | ⟨rfl, x, y, ht, hx, hy⟩ | rfl
        · obtain ⟨_, w, hw, ta, tb, r1, r2, hre⟩ := r3flag_readEq h hf
          exact opFin_sim s t 3 w ta tb r1 r2 (ops3_unspelled w hw).2.2 hre
        · obtain ⟨ra, r1⟩ := peek2_readN ht
          have hs := readN_readEq 2 h
          rw [r1] at hs
          cases r2 : readN 2 t.rest with
          | none => rw [r2] at hs; exact hs.elim
          | some q =>
            obtain ⟨cs, rb⟩ := q
            rw [r2] at hs
            obtain ⟨rfl, hre⟩ := hs
            exact opFin_sim s t 2 _ ra rb r1 r2 (by simp [hx.symm, hy.symm]) hre
        · have r1 : readN 1 s.rest = some ([c], s.rest.drop ka) := by simp [readN, h1]
          have r2 : readN 1 t.rest = some ([c], t.rest.drop kb) := by simp [readN, h2]
          exact opFin_sim s t 1 _ _ _ r1 r2 (by simp [(opChars_no_backslash c hc).symm]) h3

/-! ### brackets -/

theorem brackets_no_backslash : ∀ b ∈ Generated.brackets, b.1 ≠ "\\" := by decide

theorem parseBrackets_readEq (s t : LexSt) (h : ReadEq s.rest t.rest) :
    TokSim (parseBrackets s) (parseBrackets t) := by
  unfold parseBrackets
  rcases h.peek with ⟨h1, h2, _, _⟩ | ⟨c, ka, kb, h1, h2, h3⟩
  · rw [h1, h2]; trivial
  · rw [h1, h2]
    simp only
    cases hty : assoc Generated.brackets (String.ofList [c]) with
    | none => trivial
    | some ty =>
      simp only
      have hc : c ≠ '\\' := by
        intro e; subst e
        exact brackets_no_backslash _ (assoc_mem hty) rfl
      obtain ⟨a1, a2⟩ := popOne_plain h1 hc
      obtain ⟨b1, b2⟩ := popOne_plain h2 hc
      cases hps : popOne false false s with
      | mk s1 v =>
        cases hpt : popOne false false t with
        | mk t1 w =>
          rw [hps] at a1 a2
          rw [hpt] at b1 b2
          simp only at a1 a2 b1 b2
          subst a1; subst b1
          exact ⟨rfl, rfl, by rw [a2, b2]; exact h3⟩

/-! ### through the whole chain of sub-lexers -/

/-- the raw characters a punctuator other than `/` and `.` can start with, in any spelling -/
def spellStarts : List Char := "#^[]|{}~?<%:+-*,>&!=;()".toList

theorem spellStarts_facts : ∀ c ∈ spellStarts,
    c.val < 128 ∧ isAsciiDigit c = false ∧ c ≠ '.' ∧ isIdChar c = false ∧ isIdStart c = false ∧ c ≠ '\'' ∧ c ≠ '"' ∧
    c ≠ ' ' ∧ c ≠ '\t' ∧ c ≠ '\n' ∧ c ≠ '/' := by decide

/-- none of the sub-lexers tried before the operators takes a text that starts with such a character -/
theorem early_none (u : Uni) (s : LexSt) (r0 : Char) (tl : List Char) (hr : s.rest = r0 :: tl) (h0 : r0 ∈ spellStarts) :
    parseFloat u s = none ∧ parseInt u s = none ∧ parseChar s = none ∧ parseString s = none ∧ parseIdent s = none ∧
    parseWhitespace s = none ∧ parseLineComment s = none ∧ parseMultiComment s = none := by
  obtain ⟨f1, f2, f3, f4, f5, f6, f7, f8, f9, f10, f11⟩ := spellStarts_facts r0 h0
  have hd : u.isD r0 = false := by unfold Uni.isD; simp [f1, f2]
  obtain ⟨n1, n2⟩ := numeric_fail u s r0 tl hr hd f3
  have hne : s.rest ≠ [] := by rw [hr]; simp
  have hnp : ∀ q : Char, ∀ p ∈ Generated.quotePrefixes,
      ¬ (p.toList.isPrefixOf s.rest = true ∧ s.rest[p.toList.length]? = some q) := by
    intro q p hp ⟨hpre, _⟩
    obtain ⟨_, _, hid, hnn⟩ := quotePrefixes_tbl p hp
    rw [hr] at hpre
    cases hpl : p.toList with
    | nil => exact hnn hpl
    | cons p0 ps =>
      rw [hpl] at hpre hid
      simp only [List.isPrefixOf, Bool.and_eq_true, beq_iff_eq] at hpre
      have := hid p0 (by simp)
      rw [hpre.1, f4] at this; cases this
  have hrp : ∀ q : Char, (q = '\'' ∨ q = '"') → (rawPeek s.rest != some [q]) = true := by
    intro q hq
    rw [hr]
    rcases hq with rfl | rfl
    · simp [rawPeek, f6]
    · simp [rawPeek, f7]
  refine ⟨n1, n2, ?_, ?_, ?_, ?_, ?_, ?_⟩
  · rw [parseChar_eq, quotePrefix_zero '\'' s.rest hne (Or.inl rfl) (hnp '\'')]
    simp only [popN, hrp '\'' (Or.inl rfl), ↓reduceIte]
  · rw [parseString_eq]
    obtain ⟨c, sz, hpk⟩ := peek1_isSome (rest := s.rest) (off := 0) (List.length_pos_iff.mpr hne)
    rw [hpk]
    simp only [quotePrefix_zero '"' s.rest hne (Or.inr rfl) (hnp '"'), popN, hrp '"' (Or.inr rfl), ↓reduceIte]
  · unfold parseIdent; rw [hr]; simp [f5]
  · unfold parseWhitespace; rw [hr]; simp [f8, f9, f10]
  · unfold parseLineComment; rw [hr]; simp [rawPeek, f11]
  · unfold parseMultiComment; rw [hr]; simp [rawPeek, f11]

/-- the characters punctuators start with, other than `/` (comments) and `.` (floating constants) -/
def altPunct : List Char := "#^[]|{}~?<%:+-*,>&!=;()".toList

theorem altPunct_sub : ∀ c ∈ altPunct, c ∈ spellStarts := by decide

/-- the first raw character of any spelling of such a character -/
theorem first_raw_of_peek {rest : List Char} {c : Char} {k : Nat} (hp : peek1 rest 0 = some (c, k)) (hc : c ∈ altPunct) :
    ∃ r0 tl, rest = r0 :: tl ∧ r0 ∈ spellStarts := by
  cases rest with
  | nil => simp [peek1, triAt, diAt] at hp
  | cons x tl =>
    refine ⟨x, tl, rfl, ?_⟩
    unfold peek1 at hp
    simp only [List.drop_zero] at hp
    cases ht : triAt (x :: tl) with
    | some t => rw [triAt_first ht]; decide
    | none =>
      rw [ht] at hp
      simp only at hp
      cases hd : diAt (x :: tl) with
      | some d => rcases diAt_first hd with e | e | e <;> (rw [e]; decide)
      | none =>
        rw [hd] at hp
        simp only [Option.some.injEq, Prod.mk.injEq] at hp
        rw [hp.1]; exact altPunct_sub c hc

/-- what two rounds of the sub-lexer chain have in common -/
def ChainSim : Except LexExc (Option (LexSt × Token)) → Except LexExc (Option (LexSt × Token)) → Prop
  | .ok x, .ok y => TokSim x y
  | .error e, .error e' => e = e'
  | _, _ => False

/-- **A punctuator is the same token in every spelling** — through the whole chain of sub-lexers: when the next
character read starts a punctuator (any of `# ^ [ ] | { } ~ ? < % : + - * , > & ! = ; ( )`), two texts that read as the same characters give tokens of the same
kind and value (an operator by longest match, or a bracket), and what is left again reads as the same characters. -/
theorem token_readEq (u : Uni) (s t : LexSt) (h : ReadEq s.rest t.rest) (c : Char) (k : Nat)
    (hp : peek1 s.rest 0 = some (c, k)) (hc : c ∈ altPunct) :
    ChainSim (trySubLexers u s) (trySubLexers u t) := by
  rcases h.peek with ⟨h1, _, _, _⟩ | ⟨c', ka, kb, h1, h2, _⟩
  · rw [h1] at hp; cases hp
  · rw [hp] at h1
    simp only [Option.some.injEq, Prod.mk.injEq] at h1
    obtain ⟨rfl, rfl⟩ := h1
    obtain ⟨r0, tl, hr, h0⟩ := first_raw_of_peek hp hc
    obtain ⟨r0', tl', hr', h0'⟩ := first_raw_of_peek h2 hc
    obtain ⟨a1, a2, a3, a4, a5, a6, a7, a8⟩ := early_none u s r0 tl hr h0
    obtain ⟨b1, b2, b3, b4, b5, b6, b7, b8⟩ := early_none u t r0' tl' hr' h0'
    have ho := parseOperator_readEq s t h
    have hb := parseBrackets_readEq s t h
    unfold trySubLexers
    rw [a1, a2, a3, a4, a5, a6, a7, a8, b1, b2, b3, b4, b5, b6, b7, b8]
    simp only
    cases hos : parseOperator s with
    | none =>
      cases hot : parseOperator t with
      | none => rfl
      | some y => rw [hos, hot] at ho; exact ho.elim
    | some x =>
      cases hot : parseOperator t with
      | none => rw [hos, hot] at ho; exact ho.elim
      | some y =>
        rw [hos, hot] at ho
        cases x with
        | none =>
          cases y with
          | none => exact hb
          | some y => exact ho.elim
        | some x =>
          cases y with
          | none => exact ho.elim
          | some y => exact ho

/-! ### respellings give texts that read the same -/

theorem alt_plain : ∀ c ∈ altTargets, c ≠ '?' ∧ c ≠ '<' ∧ c ≠ '%' ∧ c ≠ ':' := by decide

end Norm
