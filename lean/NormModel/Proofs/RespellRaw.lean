/- Reading equivalence and the raw look-aheads of the lexer: a run of characters that have no alternative
spelling and start none is the same raw text in two texts that read the same. -/
import NormModel.Proofs.Respell
namespace Norm
open Spec

/-- read as itself, and only from itself -/
def Plain (c : Char) : Prop := c ∉ altTargets ∧ c ≠ '?' ∧ c ≠ '<' ∧ c ≠ '%' ∧ c ≠ ':'

instance (c : Char) : Decidable (Plain c) := by unfold Plain; infer_instance

theorem ReadEq.nil_left {b : List Char} (h : ReadEq [] b) : b = [] := by
  rcases h.peek with ⟨_, _, _, hb⟩ | ⟨c, ka, kb, h1, _, _⟩
  · exact hb
  · simp [peek1, triAt, diAt] at h1

theorem ReadEq.nil_right {a : List Char} (h : ReadEq a []) : a = [] := h.symm.nil_left

theorem peek1_plain {x : Char} (hx : Plain x) (l : List Char) : peek1 (x :: l) 0 = some (x, 1) :=
  peek1_raw hx.2.1 hx.2.2.1 hx.2.2.2.1 hx.2.2.2.2

/-- a plain raw character at the head of one text is at the head of the other -/
theorem ReadEq.head_plain {a' b : List Char} {x : Char} (h : ReadEq (x :: a') b) (hx : Plain x) :
    ∃ b', b = x :: b' ∧ ReadEq a' b' := by
  have hp := peek1_plain hx a'
  rcases h.peek with ⟨h1, _, _, _⟩ | ⟨c, ka, kb, h1, h2, h3⟩
  · rw [hp] at h1; cases h1
  · rw [hp] at h1
    simp only [Option.some.injEq, Prod.mk.injEq] at h1
    obtain ⟨rfl, rfl⟩ := h1
    obtain ⟨rfl, tl, rfl⟩ := peek1_unspelled h2 hx.1
    exact ⟨tl, rfl, by simpa using h3⟩

/-- a plain raw prefix of one text is a prefix of the other -/
theorem ReadEq.prefix_plain {pre a' b : List Char} (h : ReadEq (pre ++ a') b) (hp : ∀ c ∈ pre, Plain c) :
    ∃ b', b = pre ++ b' ∧ ReadEq a' b' := by
  induction pre generalizing b with
  | nil => exact ⟨b, rfl, h⟩
  | cons x pre ih =>
    obtain ⟨b1, rfl, h1⟩ := ReadEq.head_plain (by simpa using h) (hp x (by simp))
    obtain ⟨b', rfl, h2⟩ := ih h1 (fun c hc => hp c (List.mem_cons_of_mem _ hc))
    exact ⟨b', rfl, h2⟩

/-- **Raw runs**: a `takeWhile` over a class of plain characters sees the same run in both texts -/
theorem takeWhile_readEq (p : Char → Bool) (hp : ∀ c, p c = true → Plain c) {a b : List Char} (h : ReadEq a b) :
    a.takeWhile p = b.takeWhile p ∧ ReadEq (a.dropWhile p) (b.dropWhile p) := by
  induction a generalizing b with
  | nil => rw [h.nil_left]; exact ⟨rfl, ReadEq.nil⟩
  | cons x a' ih =>
    by_cases hx : p x = true
    · obtain ⟨b', rfl, h1⟩ := h.head_plain (hp x hx)
      obtain ⟨i1, i2⟩ := ih h1
      simp only [List.takeWhile_cons, hx, ↓reduceIte, List.dropWhile_cons]
      exact ⟨by rw [i1], i2⟩
    · cases b with
      | nil => have := h.nil_right; cases this
      | cons y b' =>
        have hy : ¬ p y = true := by
          intro hy
          obtain ⟨a'', e, _⟩ := h.symm.head_plain (hp y hy)
          simp only [List.cons.injEq] at e
          rw [e.1] at hx; exact hx hy
        simp only [List.takeWhile_cons, hx, hy, ↓reduceIte, List.dropWhile_cons, Bool.false_eq_true]
        exact ⟨trivial, h⟩

/-- the head of a text, when it belongs to a class of plain characters -/
def pHead (q : Char → Bool) : List Char → Option Char
  | c :: _ => if q c then some c else none
  | [] => none

theorem pHead_readEq (q : Char → Bool) (hq : ∀ c, q c = true → Plain c) {a b : List Char} (h : ReadEq a b) :
    pHead q a = pHead q b := by
  cases a with
  | nil => rw [h.nil_left]
  | cons x a' =>
    by_cases hx : q x = true
    · obtain ⟨b', rfl, _⟩ := h.head_plain (hq x hx)
      rfl
    · cases b with
      | nil => have := h.nil_right; cases this
      | cons y b' =>
        have hy : ¬ q y = true := by
          intro hy
          obtain ⟨a'', e, _⟩ := h.symm.head_plain (hq y hy)
          simp only [List.cons.injEq] at e
          rw [e.1] at hx; exact hx hy
        simp [pHead, hx, hy]

theorem drop_takeWhile_length (p : Char → Bool) (l : List Char) : l.drop (l.takeWhile p).length = l.dropWhile p := by
  induction l with
  | nil => rfl
  | cons x l ih =>
    by_cases hx : p x = true
    · simp [List.takeWhile_cons, List.dropWhile_cons, hx, ih]
    · simp [List.takeWhile_cons, List.dropWhile_cons, hx]

theorem take_takeWhile_length (p : Char → Bool) (l : List Char) : l.take (l.takeWhile p).length = l.takeWhile p := by
  induction l with
  | nil => rfl
  | cons x l ih =>
    by_cases hx : p x = true
    · simp [List.takeWhile_cons, hx, ih]
    · simp [List.takeWhile_cons, hx]

end Norm
