/- Content theorem for the whole token stream. -/
import NormModel.Proofs.LexContentSub
import NormModel.Proofs.LexStream
namespace Norm
open Spec

/-- the token's text is a reading of its slice of the source, starting at its true position;
tab expansion is allowed in block comments only -/
def TokRead (src : List Char) (t : Token) : Prop :=
  ∃ text, TokText t text ∧
    Den (decide (t.type = "MULT_COMMENT")) (visualPos src t.start) (slice src t.start t.stop) text

theorem tokRead_of_content {src : List Char} {s s' : LexSt} {t : Token} (hg : Good src s)
    (hok : TokOK s s' t) (hc : TokContent s s' t) : TokRead src t := by
  obtain ⟨hprog, _, _, h4, h5⟩ := hok
  obtain ⟨text, htext, hcon⟩ := hc
  refine ⟨text, htext, ?_⟩
  have hsl : slice src t.start t.stop = s.rest.take (s'.pos - s.pos) := by
    unfold slice; rw [h4, h5, hg.1]
  have hpos : visualPos src t.start = (s.line, s.col) := by rw [h4]; exact hg.2.2.symm
  rw [hsl, hpos]
  rcases hcon with h | ⟨hty, h⟩
  · unfold Content at h
    by_cases hm : t.type = "MULT_COMMENT"
    · simp only [hm, decide_true]; exact Den.mono h
    · simp only [hm, decide_false]; exact h
  · unfold Content at h
    simp only [hty, decide_true]; exact h

theorem lexItems_content (u : Uni) (src : List Char) (fuel : Nat) (s : LexSt) (items : List Item) (sf : LexSt)
    (hg : Good src s) (h : lexItems u fuel s = .ok (items, sf)) :
    ∀ t, Item.tok t ∈ items → TokRead src t := by
  induction fuel generalizing s items with
  | zero => simp [lexItems] at h
  | succ fuel ih =>
    unfold lexItems at h
    simp only at h
    obtain ⟨n, hfn, _⟩ := skipSplices_gap (s.rest.length + 1) s
    have hg1 : Good src (skipSplices (s.rest.length + 1) s) := hg.followsN hfn
    split at h
    · cases h
    · rename_i s1 t htry
      have htok := trySubLexers_ok htry
      have hcon := trySubLexers_content htry
      have hg2 : Good src s1 := hg1.follows htok.1.follows
      split at h
      · cases h
      · rename_i items' sf' hrec
        simp only [Except.ok.injEq, Prod.mk.injEq] at h
        obtain ⟨rfl, rfl⟩ := h
        intro t' ht'
        rcases List.mem_cons.mp ht' with e | e
        · simp only [Item.tok.injEq] at e
          subst e
          exact tokRead_of_content hg1 htok hcon
        · exact ih s1 items' hg2 hrec t' e
    · rename_i hnone
      split at h
      · simp only [Except.ok.injEq, Prod.mk.injEq] at h
        obtain ⟨rfl, rfl⟩ := h
        intro t' ht'; cases ht'
      · rename_i c tl hrest
        split at h
        · cases h
        · rename_i items' sf' hrec
          simp only [Except.ok.injEq, Prod.mk.injEq] at h
          obtain ⟨rfl, rfl⟩ := h
          have hcl : cleanChar c := by
            constructor
            · intro hc
              obtain ⟨r, hr⟩ := parseWhitespace_some_of_ws _ c tl hrest (Or.inl hc)
              rw [trySubLexers_none_ws hnone] at hr; cases hr
            · intro hc
              obtain ⟨r, hr⟩ := parseWhitespace_some_of_ws _ c tl hrest (Or.inr hc)
              rw [trySubLexers_none_ws hnone] at hr; cases hr
          have hb := badLexeme_progress _ c tl hrest hcl
          have hg2 := hg1.followsN hb
          intro t' ht'
          rcases List.mem_cons.mp ht' with e | e
          · cases e
          · exact ih _ items' hg2 hrec t' e

end Norm

namespace Norm
open Spec

/-! ### the whole input is a reading of the concatenated item texts -/

theorem spliceGap_den (tabs : Bool) (p : Nat × Nat) (g : List Char) (h : SpliceGap g) : Den tabs p g [] := by
  induction h generalizing p with
  | nil => exact Den.nil p
  | bs g _ ih =>
    have := Den.cons (tabs := tabs) p ['\\', '\n'] [] g [] (Den1.splice ['\\'] (Den1.plain '\\')) (ih _)
    simpa using this
  | tri g _ ih =>
    have hb : Den1 tabs p.2 ['?', '?', '/'] ['\\'] := by
      have := Den1.tri (tabs := tabs) (col := p.2) ("??/", "\\") '\\' (by decide) (by decide)
      simpa using this
    have := Den.cons (tabs := tabs) p ['?', '?', '/', '\n'] [] g [] (Den1.splice _ hb) (ih _)
    simpa using this

/-- what an item stands for -/
def ItemText : Item → List Char → Prop
  | .tok t, text => TokText t text
  | .bad c _, text => text = [c]

/-- item by item -/
inductive ItemTexts : List Item → List (List Char) → Prop
  | nil : ItemTexts [] []
  | cons {it : Item} {text : List Char} {items : List Item} {texts : List (List Char)} :
      ItemText it text → ItemTexts items texts → ItemTexts (it :: items) (text :: texts)

theorem visualPos_add (src : List Char) (a n : Nat) :
    visualPos src (a + n) = advPos (visualPos src a) ((src.drop a).take n) := by
  unfold visualPos
  rw [List.take_add, advPos_append]

theorem drop_eq_slice_append (src : List Char) (a b : Nat) (h1 : a ≤ b) (h2 : b ≤ src.length) :
    src.drop a = slice src a b ++ src.drop b := by
  unfold slice
  have : src.drop b = (src.drop a).drop (b - a) := by rw [List.drop_drop]; congr 1; omega
  rw [this, List.take_append_drop]

/-- From a tiling in which every token is a reading of its slice: the rest of the source from
offset `p` reads as the concatenation of the item texts. -/
theorem Tiling.den {src : List Char} {p : Nat} {items : List Item} (h : Tiling src p items)
    (hp : p ≤ src.length) (hr : ∀ t, Item.tok t ∈ items → TokRead src t) :
    ∃ texts : List (List Char), ItemTexts items texts ∧
      Den true (visualPos src p) (src.drop p) texts.flatten := by
  induction h with
  | nil p hgap => exact ⟨[], ItemTexts.nil, by simpa using spliceGap_den true _ _ hgap⟩
  | cons p it rest h1 hg h2 h3 hpos ht ih =>
    obtain ⟨texts, hf, hd⟩ := ih h3 (fun t ht' => hr t (List.mem_cons_of_mem _ ht'))
    -- the text of the item itself
    have hit : ∃ text, ItemText it text ∧ Den true (visualPos src it.start) (slice src it.start it.stop) text := by
      cases it with
      | tok t =>
        obtain ⟨text, h1', h2'⟩ := hr t (by simp)
        refine ⟨text, h1', ?_⟩
        simp only [Item.start, Item.stop]
        by_cases hm : t.type = "MULT_COMMENT"
        · simpa [hm] using h2'
        · simp only [hm, decide_false] at h2'; exact Den.mono h2'
      | bad c q =>
        refine ⟨[c], rfl, ?_⟩
        simp only [Item.start, Item.stop, Item.PosOK] at hpos h3 ⊢
        have : slice src q (q + 1) = [c] := by
          unfold slice
          have hq : q < src.length := by omega
          rw [List.getElem?_eq_getElem hq] at hpos
          simp only [Option.some.injEq] at hpos
          rw [show q + 1 - q = 1 by omega, List.drop_eq_getElem_cons hq, hpos]; rfl
        rw [this]
        exact Den.single (Den1.plain c)
    obtain ⟨text, hitext, hiden⟩ := hit
    refine ⟨text :: texts, ItemTexts.cons hitext hf, ?_⟩
    have hstartle : it.start ≤ src.length := by omega
    rw [drop_eq_slice_append src p it.start h1 hstartle, drop_eq_slice_append src it.start it.stop (by omega) h3]
    simp only [List.flatten_cons]
    -- gap (reads as nothing), then the item, then the rest
    have hgapden := spliceGap_den true (visualPos src p) _ hg
    have e1 : advPos (visualPos src p) (slice src p it.start) = visualPos src it.start := by
      have := visualPos_add src p (it.start - p)
      rw [show p + (it.start - p) = it.start by omega] at this
      rw [this]; rfl
    have e2 : advPos (visualPos src it.start) (slice src it.start it.stop) = visualPos src it.stop := by
      have := visualPos_add src it.start (it.stop - it.start)
      rw [show it.start + (it.stop - it.start) = it.stop by omega] at this
      rw [this]; rfl
    have hrest : Den true (visualPos src it.start) (slice src it.start it.stop ++ src.drop it.stop) (text ++ texts.flatten) := by
      apply Den.append hiden
      rw [e2]; exact hd
    have := Den.append hgapden (by rw [e1]; exact hrest)
    simpa using this

end Norm
