/- String literals whose body holds escape sequences (C11 6.4.5, 6.4.4.4). -/
import NormModel.Proofs.CharEscapes
namespace Norm
open Spec

/-- one element of a string body -/
inductive SUnit
  | plain (c : Char)
  | simple (e : Char)
  | octal (ds : List Char)
  | hex (ds : List Char)
deriving Repr

def SUnit.render : SUnit → List Char
  | .plain c => [c]
  | .simple e => ['\\', e]
  | .octal ds => '\\' :: ds
  | .hex ds => '\\' :: 'x' :: ds

/-- well-formedness of an element given the character that follows it (an octal or hexadecimal escape must not be
followed by a further digit of its class, which would belong to it) -/
def SUnit.OK (x : SUnit) (next : Char) : Prop :=
  match x with
  | .plain c => OpaqueChar c ∧ c ≠ '"'
  | .simple e => simpleEscapes.contains e = true ∧ e ≠ '?'
  | .octal ds => ds ≠ [] ∧ (∀ c ∈ ds, isOctal c = true) ∧ isOctal next = false
  | .hex ds => ds ≠ [] ∧ (∀ c ∈ ds, isHexDigit c = true) ∧ isHexDigit next = false

def renderAll : List SUnit → List Char
  | [] => []
  | x :: xs => x.render ++ renderAll xs

/-- the first character after an element: the head of what follows, the closing quote at the end -/
def nextChar (xs : List SUnit) : Char := (renderAll xs ++ ['"']).headD '"'

def UnitsOK : List SUnit → Prop
  | [] => True
  | x :: xs => x.OK (nextChar xs) ∧ UnitsOK xs

theorem simple_plain : ∀ e ∈ simpleEscapes, e ≠ '?' → e ≠ '?' ∧ e ≠ '<' ∧ e ≠ '%' ∧ e ≠ ':' ∧ e ≠ '\n' := by decide

/-- what one `pop` (escapes on) does with an element of a string body -/
theorem popOne_unit (x : SUnit) (tl : List Char) (next : Char) (hnext : tl.head? = some next) (hok : x.OK next) (s : LexSt)
    (hr : s.rest = x.render ++ tl) :
    (popOne false true s).2 = some x.render ∧ (popOne false true s).1.rest = tl ∧ (popOne false true s).1.diags = s.diags := by
  cases x with
  | plain c =>
    obtain ⟨hc, _⟩ := hok
    rw [popOne_opaque false true s c tl (by simpa [SUnit.render] using hr) hc]
    exact ⟨rfl, rfl, rfl⟩
  | simple e =>
    obtain ⟨he, hq⟩ := hok
    have hmem : e ∈ simpleEscapes := by simpa using he
    obtain ⟨e1, e2, e3, e4, e5⟩ := simple_plain e hmem hq
    have hr' : s.rest = '\\' :: e :: tl := by simpa [SUnit.render] using hr
    have hp0 : peek1 s.rest 0 = some ('\\', 1) := by
      rw [hr']; exact peek1_raw (by decide) (by decide) (by decide) (by decide)
    have hp1 : peek1 s.rest 1 = some (e, 1) := by
      rw [peek1_off, hr']; exact peek1_raw e1 e2 e3 e4
    have hs : spliceLoop (s.rest.length + 1) s = (s, some ('\\', 1)) := by
      unfold spliceLoop
      simp only [hp0, hp1]
      have : (e != '\n') = true := by simp [e5]
      simp [this]
    have hesc : escOf true s '\\' 1 = (['\\', e], 2, [], 0) := by
      unfold escOf
      simp only [beq_self_eq_true, Bool.and_self, ↓reduceIte, hp1]
      have : (e != '\n') = true := by simp [e5]
      simp only [this, ↓reduceIte]
      unfold escape
      simp only [he, ↓reduceIte]
    unfold popOne
    rw [hs]
    simp only
    rw [hesc]
    unfold finishPop
    simp [advance, hr', SUnit.render]
  | octal ds =>
    obtain ⟨hne, hd, hn⟩ := hok
    cases ds with
    | nil => exact absurd rfl hne
    | cons d ds' =>
      have hdo : isOctal d = true := hd d (by simp)
      obtain ⟨o1, o2, o3, o4, o5, o6, o7⟩ := octal_not_simple d (by simpa [isOctal] using hdo)
      have hr' : s.rest = '\\' :: (d :: ds' ++ tl) := by simpa [SUnit.render] using hr
      have hp0 : peek1 s.rest 0 = some ('\\', 1) := by
        rw [hr']; exact peek1_raw (by decide) (by decide) (by decide) (by decide)
      have hp1 : peek1 s.rest 1 = some (d, 1) := by
        rw [peek1_off, hr']; exact peek1_raw o4 o5 o6 o7
      have hs : spliceLoop (s.rest.length + 1) s = (s, some ('\\', 1)) := by
        unfold spliceLoop
        simp only [hp0, hp1]
        have : (d != '\n') = true := by simp [o3]
        simp [this]
      have htw : takeWhileFrom s.rest 1 isOctal = d :: ds' := by
        unfold takeWhileFrom
        rw [hr']
        exact takeWhile_app hd (by intro c hc; rw [hnext] at hc; simp at hc; subst hc; exact hn)
      have hesc : escOf true s '\\' 1 = ('\\' :: d :: ds', 1 + (d :: ds').length, [], 0) := by
        unfold escOf
        simp only [beq_self_eq_true, Bool.and_self, ↓reduceIte, hp1]
        have : (d != '\n') = true := by simp [o3]
        simp only [this, ↓reduceIte]
        unfold escape
        have hx : (d == 'x') = false := by simp [o2]
        simp only [o1, hx, hdo, Bool.false_eq_true, ↓reduceIte, htw]
      unfold popOne
      rw [hs]
      simp only
      rw [hesc]
      unfold finishPop
      simp [advance, hr', SUnit.render]
      have : 1 + (ds'.length + 1) = ds'.length + 2 := by omega
      rw [this]
      simp
  | hex ds =>
    obtain ⟨hne, hd, hn⟩ := hok
    have hr' : s.rest = '\\' :: ('x' :: ds ++ tl) := by simpa [SUnit.render] using hr
    have hp0 : peek1 s.rest 0 = some ('\\', 1) := by
      rw [hr']; exact peek1_raw (by decide) (by decide) (by decide) (by decide)
    have hp1 : peek1 s.rest 1 = some ('x', 1) := by
      rw [peek1_off, hr']; exact peek1_raw (by decide) (by decide) (by decide) (by decide)
    have hs : spliceLoop (s.rest.length + 1) s = (s, some ('\\', 1)) := by
      unfold spliceLoop
      simp only [hp0, hp1]
      simp
    have htw : takeWhileFrom s.rest (1 + 1) isHexDigit = ds := by
      unfold takeWhileFrom
      rw [hr']
      exact takeWhile_app hd (by intro c hc; rw [hnext] at hc; simp at hc; subst hc; exact hn)
    have hemp : ds.isEmpty = false := by
      cases ds with
      | nil => exact absurd rfl hne
      | cons _ _ => rfl
    have hesc : escOf true s '\\' 1 = (['\\', 'x'] ++ ds, 1 + 1 + ds.length, [], 0) := by
      unfold escOf
      simp only [beq_self_eq_true, Bool.and_self, ↓reduceIte, hp1]
      simp only [show (('x' : Char) != '\n') = true by decide, ↓reduceIte]
      unfold escape
      simp only [show simpleEscapes.contains 'x' = false by decide, Bool.false_eq_true, ↓reduceIte, beq_self_eq_true, htw, hemp]
    unfold popOne
    rw [hs]
    simp only
    rw [hesc]
    unfold finishPop
    have e1 : ((['\\', 'x'] ++ ds) == ['\n']) = false := by simp
    have e2 : ((['\\', 'x'] ++ ds) == ['\t']) = false := by simp
    simp only [e1, e2, Bool.false_eq_true, ↓reduceIte]
    simp [advance, hr', SUnit.render]
    have : 2 + ds.length = ds.length + 2 := by omega
    rw [this]
    simp

theorem render_ne_nil (x : SUnit) (next : Char) (h : x.OK next) : x.render ≠ [] ∧ (x.render == ['"']) = false := by
  cases x with
  | plain c => exact ⟨by simp [SUnit.render], by simp [SUnit.render, h.2]⟩
  | simple e => exact ⟨by simp [SUnit.render], by simp [SUnit.render]⟩
  | octal ds => exact ⟨by simp [SUnit.render], by
      cases ds with
      | nil => exact absurd rfl h.1
      | cons d ds' => simp [SUnit.render]⟩
  | hex ds => exact ⟨by simp [SUnit.render], by simp [SUnit.render]⟩

theorem nextChar_head (xs : List SUnit) (hxs : UnitsOK xs) (tl : List Char) :
    (renderAll xs ++ '"' :: tl).head? = some (nextChar xs) := by
  unfold nextChar
  cases xs with
  | nil => simp [renderAll]
  | cons x rest =>
    obtain ⟨hx, _⟩ := hxs
    obtain ⟨hne, _⟩ := render_ne_nil x _ hx
    simp only [renderAll]
    cases hr : x.render with
    | nil => exact absurd hr hne
    | cons a as => simp

/-- the body loop of `parse_string_literal` on a well-formed sequence of elements followed by the closing quote -/
theorem strLoop_units (xs : List SUnit) (tl : List Char) : ∀ (fuel : Nat) (s : LexSt) (v : List Char),
    s.rest = renderAll xs ++ '"' :: tl → (renderAll xs).length + 1 ≤ fuel → UnitsOK xs →
    (strLoop fuel s v).2 = (v ++ renderAll xs ++ ['"'], false) ∧ (strLoop fuel s v).1.rest = tl ∧
    (strLoop fuel s v).1.diags = s.diags := by
  induction xs with
  | nil =>
    intro fuel s v hr hf _
    simp only [renderAll, List.nil_append] at hr
    obtain ⟨f1, rfl⟩ : ∃ f1, fuel = f1 + 1 := ⟨fuel - 1, by simp [renderAll] at hf; omega⟩
    have hpk : peek1 s.rest 0 = some ('"', 1) := by rw [hr]; exact peek1_raw (by decide) (by decide) (by decide) (by decide)
    have hq := popOne_peeked false true s '"' tl hr hpk (by decide) (by decide) (by decide)
    unfold strLoop
    simp only [hpk]
    rw [hq]
    simp [renderAll]
  | cons x xs ih =>
    intro fuel s v hr hf hok
    obtain ⟨hx, hrest⟩ := hok
    obtain ⟨hne, hnq⟩ := render_ne_nil x _ hx
    have hr' : s.rest = x.render ++ (renderAll xs ++ '"' :: tl) := by rw [hr]; simp [renderAll, List.append_assoc]
    obtain ⟨p1, p2, p3⟩ := popOne_unit x (renderAll xs ++ '"' :: tl) (nextChar xs) (nextChar_head xs hrest tl) hx s hr'
    have hlen : 1 ≤ x.render.length := by
      cases hxr : x.render with
      | nil => exact absurd hxr hne
      | cons _ _ => simp
    obtain ⟨f1, rfl⟩ : ∃ f1, fuel = f1 + 1 := ⟨fuel - 1, by simp [renderAll] at hf; omega⟩
    have hpk : ∃ p, peek1 s.rest 0 = some p := by
      have : 0 < s.rest.length := by rw [hr']; simp; omega
      obtain ⟨c, sz, h⟩ := peek1_isSome this
      exact ⟨_, h⟩
    obtain ⟨p, hpk⟩ := hpk
    unfold strLoop
    simp only [hpk]
    cases hpo : popOne false true s with
    | mk s1 r =>
      rw [hpo] at p1 p2 p3
      simp only at p1 p2 p3
      subst p1
      simp only [hnq, Bool.false_eq_true, ↓reduceIte]
      obtain ⟨i1, i2, i3⟩ := ih f1 s1 (v ++ x.render) p2 (by simp [renderAll] at hf; omega) hrest
      refine ⟨by rw [i1]; simp [renderAll, List.append_assoc], i2, by rw [i3, p3]⟩

/-- **A string literal whose body is a sequence of plain characters and escape sequences** — simple (`\n \t \\ \" \' \a …`),
octal, hexadecimal with any number of digits; an octal or hexadecimal escape not followed by a further digit of its
class — **becomes one STRING token spanning exactly the literal, with no lexical diagnostic**, for every encoding prefix,
at any position, whatever follows. (`\?` is left out: followed by `?` and a third character it would spell a trigraph.) -/
theorem string_units_valid (u : Uni) (pre : String) (hp : pre ∈ litPrefixes) (xs : List SUnit) (hxs : UnitsOK xs)
    (rest : List Char) (s : LexSt) (hr : s.rest = pre.toList ++ '"' :: (renderAll xs ++ '"' :: rest)) :
    ∃ s' t, trySubLexers u s = .ok (some (s', t)) ∧ t.type = "STRING" ∧
      t.value = some (String.ofList (pre.toList ++ '"' :: (renderAll xs ++ ['"']))) ∧ t.line = s.line ∧ t.col = s.col ∧
      s'.rest = rest ∧ s'.diags = s.diags := by
  obtain ⟨hplain, c0, tl0, h0, hd0, hdot0⟩ := litPrefix_facts u pre hp '"' (Or.inr rfl) (renderAll xs ++ '"' :: rest)
  obtain ⟨hf, hi⟩ := numeric_fail u s c0 tl0 (by rw [hr, h0]) hd0 hdot0
  have hch := parseChar_none_of_string pre hp (renderAll xs ++ '"' :: rest) s hr
  obtain ⟨n1, n2, n3⟩ := popN_plain pre.toList ('"' :: (renderAll xs ++ '"' :: rest)) s hr hplain
  have hps : ∃ s', parseString s = some (s', mkTok "STRING" s s' (some (pre.toList ++ '"' :: (renderAll xs ++ ['"']))))
      ∧ s'.rest = rest ∧ s'.diags = s.diags := by
    rw [parseString_eq]
    have hpk : ∃ p, peek1 s.rest 0 = some p := by
      have : 0 < s.rest.length := by rw [hr, h0]; simp
      obtain ⟨c, sz, h⟩ := peek1_isSome this
      exact ⟨_, h⟩
    obtain ⟨p, hpk⟩ := hpk
    rw [hpk]
    simp only
    rw [hr, quotePrefix_lit pre hp '"' (Or.inr rfl)]
    simp only
    cases hpn : popN pre.toList.length s with
    | mk s1 r1 =>
      rw [hpn] at n1 n2 n3
      simp only at n1 n2 n3
      subst n1
      simp only
      have hrp : (rawPeek s1.rest != some ['"']) = false := by rw [n2]; simp [rawPeek]
      simp only [hrp, Bool.false_eq_true, ↓reduceIte]
      have hq1 := popOne_peeked false false s1 '"' (renderAll xs ++ '"' :: rest) n2
        (by rw [n2]; exact peek1_raw (by decide) (by decide) (by decide) (by decide)) (by decide) (by decide) (by decide)
      rw [hq1]
      simp only
      obtain ⟨l1, l2, l3⟩ := strLoop_units xs rest ((renderAll xs ++ '"' :: rest).length + 1)
        { s1 with rest := renderAll xs ++ '"' :: rest, pos := s1.pos + 1, col := s1.col + 1 } (pre.toList ++ ['"']) rfl
        (by simp) hxs
      cases hsl : strLoop ((renderAll xs ++ '"' :: rest).length + 1)
          { s1 with rest := renderAll xs ++ '"' :: rest, pos := s1.pos + 1, col := s1.col + 1 } (pre.toList ++ ['"']) with
      | mk s3 r3 =>
        rw [hsl] at l1 l2 l3
        simp only at l1 l2 l3
        subst l1
        refine ⟨s3, ?_, l2, by rw [l3]; exact n3⟩
        simp [strFin, List.append_assoc]
  obtain ⟨s', h1, h2, h3⟩ := hps
  refine ⟨s', mkTok "STRING" s s' (some (pre.toList ++ '"' :: (renderAll xs ++ ['"']))), ?_, rfl, rfl, rfl, rfl, h2, h3⟩
  unfold trySubLexers
  rw [hf, hi, hch, h1]

end Norm
