/- Identifiers: the sub-lexer chain on an identifier that is no keyword and no literal prefix. -/
import NormModel.Proofs.CharString
namespace Norm
open Spec

theorem quotePrefixes_tbl : ∀ p ∈ Generated.quotePrefixes,
    '\'' ∉ p.toList ∧ '"' ∉ p.toList ∧ (∀ c ∈ p.toList, isIdChar c = true) ∧ p.toList ≠ [] := by decide

/-- the condition tested for one candidate prefix: if it holds the text starts with the prefix
directly followed by the quote -/
theorem qp_cond_spec (q : Char) (rest pl : List Char) (hq : q ∉ pl)
    (h1 : pl.isPrefixOf (rest.take (pl.length + 1)) = true)
    (h2 : (rest.take (pl.length + 1)).getLast? = some q) :
    pl.isPrefixOf rest = true ∧ rest[pl.length]? = some q := by
  have hpre := List.isPrefixOf_iff_prefix.mp h1
  refine ⟨List.isPrefixOf_iff_prefix.mpr (hpre.trans (List.take_prefix _ _)), ?_⟩
  have hle : (rest.take (pl.length + 1)).length ≤ pl.length + 1 := by simp; omega
  have hge : pl.length ≤ (rest.take (pl.length + 1)).length := hpre.length_le
  by_cases hl : (rest.take (pl.length + 1)).length = pl.length
  · exfalso
    obtain ⟨t, ht⟩ := hpre
    have : t = [] := by
      have := congrArg List.length ht
      simp only [List.length_append] at this
      exact List.eq_nil_of_length_eq_zero (by omega)
    rw [this, List.append_nil] at ht
    rw [← ht] at h2
    exact hq (List.mem_of_getLast? h2)
  · have hl' : (rest.take (pl.length + 1)).length = pl.length + 1 := by omega
    rw [List.getLast?_eq_getElem?, hl'] at h2
    simp only [Nat.add_sub_cancel] at h2
    rw [List.getElem?_take] at h2
    simpa using h2

/-- when no candidate prefix is followed by the quote, the loop reports "no prefix" -/
theorem quotePrefix_zero (q : Char) (rest : List Char) (hne : rest ≠ []) (hq : q = '\'' ∨ q = '"')
    (h : ∀ p ∈ Generated.quotePrefixes, ¬ (p.toList.isPrefixOf rest = true ∧ rest[p.toList.length]? = some q)) :
    quotePrefix q rest Generated.quotePrefixes = some 0 := by
  have gen : ∀ ps : List String, (∀ p ∈ ps, p ∈ Generated.quotePrefixes) → quotePrefix q rest ps = some 0 := by
    intro ps
    induction ps with
    | nil => intro _; rfl
    | cons p ps ih =>
      intro hsub
      unfold quotePrefix
      simp only
      have hlen : 0 < rest.length := List.length_pos_iff.mpr hne
      have hrp : rawPeek rest 0 (p.toList.length + 1) = some (rest.take (p.toList.length + 1)) := by
        unfold rawPeek; simp [hlen]
      rw [hrp]
      simp only
      have hp := hsub p (by simp)
      have htbl := quotePrefixes_tbl p hp
      have hqp : q ∉ p.toList := by rcases hq with rfl | rfl; exact htbl.1; exact htbl.2.1
      split
      · rename_i hc
        simp only [Bool.and_eq_true, beq_iff_eq] at hc
        exact absurd (qp_cond_spec q rest p.toList hqp hc.1 hc.2) (h p hp)
      · exact ih (fun p' hp' => hsub p' (List.mem_cons_of_mem _ hp'))
  exact gen _ (fun p hp => hp)

/-- an identifier followed by something that is neither an identifier character nor a quote is
not a literal prefix -/
theorem ident_no_prefix (q : Char) (hq : q = '\'' ∨ q = '"') (body tl : List Char) (hne : body ≠ [])
    (hb : ∀ c ∈ body, isIdChar c = true)
    (hstop : ∀ c, tl.head? = some c → isIdChar c = false ∧ c ≠ '\'' ∧ c ≠ '"') :
    ∀ p ∈ Generated.quotePrefixes, ¬ (p.toList.isPrefixOf (body ++ tl) = true ∧ (body ++ tl)[p.toList.length]? = some q) := by
  intro p hp ⟨h1, h2⟩
  have htbl := quotePrefixes_tbl p hp
  have hqid : isIdChar q = false := by rcases hq with rfl | rfl <;> decide
  by_cases hk : p.toList.length < body.length
  · -- the quote would be a character of the identifier
    rw [List.getElem?_append_left hk] at h2
    have := hb q (List.mem_of_getElem? h2)
    rw [hqid] at this; cases this
  · -- the first character after the identifier is part of the prefix, or is the quote
    have hk' : body.length ≤ p.toList.length := by omega
    cases htl : tl with
    | nil =>
      rw [htl, List.append_nil] at h2
      rw [List.getElem?_eq_none (by omega)] at h2; cases h2
    | cons d ds =>
      obtain ⟨hd1, hd2, hd3⟩ := hstop d (by rw [htl]; rfl)
      by_cases he : p.toList.length = body.length
      · rw [he, htl] at h2
        simp at h2
        rcases hq with rfl | rfl
        · exact hd2 h2
        · exact hd3 h2
      · -- the prefix reaches into `tl`: its character at |body| is `d`, an identifier character
        have hlt : body.length < p.toList.length := by omega
        have hpre := List.isPrefixOf_iff_prefix.mp h1
        obtain ⟨t, ht⟩ := hpre
        have hget : (p.toList ++ t)[body.length]? = (body ++ tl)[body.length]? := by rw [ht]
        rw [List.getElem?_append_left hlt, htl] at hget
        simp at hget
        have := htbl.2.2.1 d (List.mem_of_getElem? hget)
        rw [hd1] at this; cases this

end Norm

namespace Norm
open Spec

theorem idStart_facts (u : Uni) (c : Char) (h : isIdStart c = true) :
    u.isD c = false ∧ c ≠ '.' ∧ c ≠ '\'' ∧ c ≠ '"' ∧ isIdChar c = true := by
  have hw : c ∈ wordChars ∧ isAsciiDigit c = false := by
    unfold isIdStart isAsciiLetter at h
    simp only [Bool.or_eq_true, List.contains_eq_mem, decide_eq_true_eq, beq_iff_eq] at h
    rcases h with h | h
    · refine ⟨letters_sub_word c h, ?_⟩
      have : ∀ x ∈ asciiLetters, isAsciiDigit x = false := by decide
      exact this c h
    · subst h; exact ⟨by decide, by decide⟩
  have h128 := (word_tbl c hw.1).1
  refine ⟨by unfold Uni.isD; simp [h128, hw.2], ?_, ?_, ?_, ?_⟩
  · intro e; subst e; revert h; decide
  · intro e; subst e; revert h; decide
  · intro e; subst e; revert h; decide
  · unfold isIdChar; unfold isIdStart at h
    simp only [Bool.or_eq_true] at h ⊢
    rcases h with h | h
    · exact Or.inl (Or.inl h)
    · exact Or.inr h

/-- **An identifier** — a letter or underscore followed by letters, digits and underscores, of any
length — that is not a keyword, followed by something that is neither an identifier character nor
a quote, **becomes one IDENTIFIER token with exactly its spelling and no diagnostic**; the lexer
continues right after it, `|body|` columns further. -/
theorem ident_valid (u : Uni) (c0 : Char) (cs tl : List Char) (h0 : isIdStart c0 = true)
    (hcs : ∀ c ∈ cs, isIdChar c = true)
    (hkw : assoc Generated.keywords (String.ofList (c0 :: cs)) = none)
    (hstop : ∀ c, tl.head? = some c → isIdChar c = false ∧ c ≠ '\'' ∧ c ≠ '"')
    (s : LexSt) (hr : s.rest = c0 :: cs ++ tl) :
    ∃ s' t, trySubLexers u s = .ok (some (s', t)) ∧ t.type = "IDENTIFIER" ∧
      t.value = some (String.ofList (c0 :: cs)) ∧ t.line = s.line ∧ t.col = s.col ∧
      s'.rest = tl ∧ s'.diags = s.diags ∧ s'.col = s.col + (cs.length + 1) ∧ s'.line = s.line ∧
      s'.pos = s.pos + (cs.length + 1) ∧ t.start = s.pos ∧ t.stop = s.pos + (cs.length + 1) := by
  obtain ⟨hd, hdot, hq1, hq2, hid0⟩ := idStart_facts u c0 h0
  obtain ⟨hf, hi⟩ := numeric_fail u s c0 (cs ++ tl) hr hd hdot
  have hb : ∀ c ∈ c0 :: cs, isIdChar c = true := by
    intro c hc; rcases List.mem_cons.mp hc with rfl | hc
    · exact hid0
    · exact hcs c hc
  have hne : s.rest ≠ [] := by rw [hr]; simp
  have hrp : ∀ q : Char, (q = '\'' ∨ q = '"') → (rawPeek s.rest != some [q]) = true := by
    intro q hq
    rw [hr]
    rcases hq with rfl | rfl
    · simp [rawPeek, hq1]
    · simp [rawPeek, hq2]
  -- not a character constant
  have hch : parseChar s = none := by
    rw [parseChar_eq]
    have := quotePrefix_zero '\'' s.rest hne (Or.inl rfl)
      (by rw [hr]; exact ident_no_prefix '\'' (Or.inl rfl) (c0 :: cs) tl (by simp) hb hstop)
    rw [this]
    simp only [popN, hrp '\'' (Or.inl rfl), ↓reduceIte]
  -- not a string literal
  have hst : parseString s = none := by
    rw [parseString_eq]
    obtain ⟨c, sz, hpk⟩ := peek1_isSome (rest := s.rest) (off := 0) (List.length_pos_iff.mpr hne)
    rw [hpk]
    have := quotePrefix_zero '"' s.rest hne (Or.inr rfl)
      (by rw [hr]; exact ident_no_prefix '"' (Or.inr rfl) (c0 :: cs) tl (by simp) hb hstop)
    simp only [this, popN, hrp '"' (Or.inr rfl), ↓reduceIte]
  -- the identifier itself
  have hopq : OpaqueChar c0 := by
    have hw : c0 ∈ wordChars := by
      unfold isIdStart isAsciiLetter at h0
      simp only [Bool.or_eq_true, List.contains_eq_mem, decide_eq_true_eq, beq_iff_eq] at h0
      rcases h0 with h | h
      · exact letters_sub_word c0 h
      · subst h; decide
    obtain ⟨a, b, c', d, e, f, g⟩ := word_plain c0 hw
    exact ⟨⟨a, b, c', d, e⟩, f, g⟩
  have hpi : parseIdent s = some (shiftCols { s with rest := cs ++ tl, pos := s.pos + 1, col := s.col + 1 } cs.length tl,
      mkTok "IDENTIFIER" s (shiftCols { s with rest := cs ++ tl, pos := s.pos + 1, col := s.col + 1 } cs.length tl) (some (c0 :: cs))) := by
    unfold parseIdent
    rw [hr]
    simp only [List.cons_append, h0, Bool.not_true, Bool.false_eq_true, ↓reduceIte]
    rw [popOne_opaque false false s c0 (cs ++ tl) (by simpa using hr) hopq]
    simp only
    have hloop := identLoop_opaque cs tl { s with rest := cs ++ tl, pos := s.pos + 1, col := s.col + 1 } [c0]
      ((cs ++ tl).length + 1) rfl hcs (fun c hc => (hstop c hc).1) (by simp)
    rw [hloop]
    simp only [List.singleton_append, hkw]
  refine ⟨shiftCols { s with rest := cs ++ tl, pos := s.pos + 1, col := s.col + 1 } cs.length tl,
    mkTok "IDENTIFIER" s (shiftCols { s with rest := cs ++ tl, pos := s.pos + 1, col := s.col + 1 } cs.length tl) (some (c0 :: cs)),
    ?_, rfl, rfl, rfl, rfl, ?_, ?_, ?_, ?_, ?_, rfl, ?_⟩
  · unfold trySubLexers
    rw [hf, hi, hch, hst, hpi]
  · simp [shiftCols]
  · simp [shiftCols]
  · simp [shiftCols]; omega
  · simp [shiftCols]
  · simp [shiftCols]; omega
  · simp [mkTok, shiftCols]; omega

end Norm

namespace Norm
open Spec

/-- `pop(times=n)` over opaque characters: the full resulting state -/
theorem popN_opaque (cs tl : List Char) (s : LexSt) (hr : s.rest = cs ++ tl) (hp : ∀ c ∈ cs, OpaqueChar c) :
    popN cs.length s = (shiftCols s cs.length tl, some cs) := by
  induction cs generalizing s with
  | nil => simp [popN, shiftCols, hr]; cases s; simp_all
  | cons c cs ih =>
    simp only [List.length_cons]
    unfold popN
    rw [popOne_opaque false false s c (cs ++ tl) (by simpa using hr) (hp c (by simp))]
    simp only
    rw [ih _ rfl (fun d hd => hp d (by simp [hd]))]
    simp [shiftCols]; omega

theorem litPrefix_opaque (pre : String) (hp : pre ∈ litPrefixes) : ∀ c ∈ pre.toList, OpaqueChar c := by
  simp only [litPrefixes, List.mem_cons, List.mem_nil_iff, or_false] at hp
  rcases hp with rfl | rfl | rfl | rfl | rfl <;> intro c hc <;> simp at hc
  · subst hc; unfold OpaqueChar plainChar; decide
  · subst hc; unfold OpaqueChar plainChar; decide
  · subst hc; unfold OpaqueChar plainChar; decide
  · rcases hc with rfl | rfl <;> (unfold OpaqueChar plainChar; decide)

/-- the state after a well-formed string literal with an opaque body -/
theorem string_valid_state (u : Uni) (pre : String) (hp : pre ∈ litPrefixes) (body : List Char)
    (hb : ∀ c ∈ body, OpaqueChar c ∧ c ≠ '"') (rest : List Char) (s : LexSt)
    (hr : s.rest = pre.toList ++ '"' :: (body ++ '"' :: rest)) :
    ∃ t, trySubLexers u s = .ok (some (shiftCols s (pre.toList.length + 1 + (body.length + 1)) rest, t)) ∧
      t.type = "STRING" ∧ t.value = some (String.ofList (pre.toList ++ '"' :: (body ++ ['"']))) ∧
      t.line = s.line ∧ t.col = s.col ∧ t.start = s.pos ∧ t.stop = s.pos + (pre.toList.length + 1 + (body.length + 1)) := by
  obtain ⟨hplain, c0, tl0, h0, hd0, hdot0⟩ := litPrefix_facts u pre hp '"' (Or.inr rfl) (body ++ '"' :: rest)
  obtain ⟨hf, hi⟩ := numeric_fail u s c0 tl0 (by rw [hr, h0]) hd0 hdot0
  have hch := parseChar_none_of_string pre hp (body ++ '"' :: rest) s hr
  have hpn := popN_opaque pre.toList ('"' :: (body ++ '"' :: rest)) s hr (litPrefix_opaque pre hp)
  have hps : parseString s = some (shiftCols s (pre.toList.length + 1 + (body.length + 1)) rest,
      mkTok "STRING" s (shiftCols s (pre.toList.length + 1 + (body.length + 1)) rest) (some (pre.toList ++ '"' :: (body ++ ['"'])))) := by
    rw [parseString_eq]
    obtain ⟨c, sz, hpk⟩ := peek1_isSome (rest := s.rest) (off := 0) (by rw [hr, h0]; simp)
    rw [hpk]
    simp only
    rw [hr, quotePrefix_lit pre hp '"' (Or.inr rfl)]
    simp only
    rw [hpn]
    simp only [shiftCols]
    have hrp : (rawPeek ('"' :: (body ++ '"' :: rest)) != some ['"']) = false := by simp [rawPeek]
    simp only [hrp, Bool.false_eq_true, ↓reduceIte]
    have hq1 := popOne_peeked false false
      { s with rest := '"' :: (body ++ '"' :: rest), pos := s.pos + pre.toList.length, col := s.col + pre.toList.length }
      '"' (body ++ '"' :: rest) rfl
      (peek1_raw (by decide) (by decide) (by decide) (by decide)) (by decide) (by decide) (by decide)
    rw [hq1]
    simp only
    have hloop := strLoop_opaque body rest
      { s with rest := body ++ '"' :: rest, pos := s.pos + pre.toList.length + 1, col := s.col + pre.toList.length + 1 }
      (pre.toList ++ ['"']) ((body ++ '"' :: rest).length + 1) rfl hb (by simp)
    rw [hloop]
    simp only [strFin, shiftCols, Bool.false_eq_true, ↓reduceIte, Option.some.injEq, Prod.mk.injEq]
    have e : ({ s with rest := rest, pos := s.pos + pre.toList.length + 1 + (body.length + 1),
                       col := s.col + pre.toList.length + 1 + (body.length + 1) } : LexSt)
        = { s with rest := rest, pos := s.pos + (pre.toList.length + 1 + (body.length + 1)),
                   col := s.col + (pre.toList.length + 1 + (body.length + 1)) } := by
      congr 1 <;> omega
    rw [e]
    simp [List.append_assoc]
  refine ⟨mkTok "STRING" s (shiftCols s (pre.toList.length + 1 + (body.length + 1)) rest) (some (pre.toList ++ '"' :: (body ++ ['"']))),
    ?_, rfl, rfl, rfl, rfl, rfl, ?_⟩
  · unfold trySubLexers
    rw [hf, hi, hch, hps]
  · simp [mkTok, shiftCols]

end Norm
