/- Helper lemmas for C08/C04: the order of diagnostics. -/
import NormModel.Model.Reports
import NormModel.Proofs.Sort
namespace Norm

/-- displayed position of a diagnostic that has a highlight -/
def Diag.pos? (d : Diag) : Option (Nat × Nat) := d.highlights.head?.map (fun h => (h.line, h.col))

/-- lexicographic `≤` on (line, col) -/
def posLe (a b : Nat × Nat) : Prop := a.1 < b.1 ∨ (a.1 = b.1 ∧ a.2 ≤ b.2)

instance (a b : Nat × Nat) : Decidable (posLe a b) := by unfold posLe; infer_instance

/-- the order the comparator implements on diagnostics that have a highlight -/
def keyLe (pa : Nat × Nat) (na : String) (pb : Nat × Nat) (nb : String) : Prop :=
  (pa.1 < pb.1 ∨ (pa.1 = pb.1 ∧ pa.2 < pb.2)) ∨ (pa = pb ∧ na ≤ nb)

theorem Diag.le_iff_key {a b : Diag} {ha hb : Highlight} {ra rb : List Highlight}
    (h1 : a.highlights = ha :: ra) (h2 : b.highlights = hb :: rb) :
    Diag.le a b = true ↔ keyLe (ha.line, ha.col) a.name (hb.line, hb.col) b.name := by
  unfold Diag.le Diag.lt keyLe posLt
  rw [h1, h2]
  simp only [Bool.not_eq_true']
  by_cases hc : hb.col = ha.col
  · by_cases hl : hb.line = ha.line
    · simp [hc, hl]
    · simp [hc, hl]; omega
  · by_cases hl : hb.line = ha.line
    · simp [hc, hl]
      constructor
      · intro h; left; omega
      · rintro (h | h)
        · omega
        · exact absurd h.1.symm hc
    · simp [hc, hl]
      constructor
      · intro h; left; omega
      · rintro (h | h)
        · omega
        · omega

theorem keyLe_total (pa : Nat × Nat) (na : String) (pb : Nat × Nat) (nb : String) :
    keyLe pa na pb nb ∨ keyLe pb nb pa na := by
  unfold keyLe
  rcases Nat.lt_trichotomy pa.1 pb.1 with h | h | h
  · left; left; left; exact h
  · rcases Nat.lt_trichotomy pa.2 pb.2 with h2 | h2 | h2
    · left; left; right; exact ⟨h, h2⟩
    · have : pa = pb := Prod.ext h h2
      rcases String.le_total na nb with h3 | h3
      · left; right; exact ⟨this, h3⟩
      · right; right; exact ⟨this.symm, h3⟩
    · right; left; right; exact ⟨h.symm, h2⟩
  · right; left; left; exact h

theorem keyLe_trans {pa pb pc : Nat × Nat} {na nb nc : String}
    (h1 : keyLe pa na pb nb) (h2 : keyLe pb nb pc nc) : keyLe pa na pc nc := by
  unfold keyLe at *
  rcases h1 with h1 | ⟨rfl, h1⟩
  · rcases h2 with h2 | ⟨rfl, _⟩
    · left; omega
    · left; exact h1
  · rcases h2 with h2 | ⟨rfl, h2⟩
    · left; exact h2
    · right; exact ⟨rfl, String.le_trans h1 h2⟩

theorem keyLe_posLe {pa pb : Nat × Nat} {na nb : String} (h : keyLe pa na pb nb) : posLe pa pb := by
  unfold keyLe at h; unfold posLe
  rcases h with h | ⟨rfl, _⟩
  · omega
  · right; exact ⟨rfl, Nat.le_refl _⟩

def HasHl (d : Diag) : Prop := d.highlights ≠ []

instance (d : Diag) : Decidable (HasHl d) := by unfold HasHl; infer_instance

theorem Diag.le_total {a b : Diag} (ha : HasHl a) (hb : HasHl b) :
    Diag.le a b = true ∨ Diag.le b a = true := by
  unfold HasHl at ha hb
  match h1 : a.highlights, h2 : b.highlights with
  | [], _ => exact absurd h1 ha
  | _ :: _, [] => exact absurd h2 hb
  | x :: xs, y :: ys =>
    rw [Diag.le_iff_key h1 h2, Diag.le_iff_key h2 h1]
    exact keyLe_total _ _ _ _

theorem Diag.le_trans {a b c : Diag} (ha : HasHl a) (hb : HasHl b) (hc : HasHl c)
    (h1 : Diag.le a b = true) (h2 : Diag.le b c = true) : Diag.le a c = true := by
  unfold HasHl at ha hb hc
  match e1 : a.highlights, e2 : b.highlights, e3 : c.highlights with
  | [], _, _ => exact absurd e1 ha
  | _ :: _, [], _ => exact absurd e2 hb
  | _ :: _, _ :: _, [] => exact absurd e3 hc
  | x :: xs, y :: ys, z :: zs =>
    rw [Diag.le_iff_key e1 e2] at h1
    rw [Diag.le_iff_key e2 e3] at h2
    rw [Diag.le_iff_key e1 e3]
    exact keyLe_trans h1 h2

theorem Diag.le_posLe {a b : Diag} {pa pb : Nat × Nat} (h : Diag.le a b = true)
    (ha : a.pos? = some pa) (hb : b.pos? = some pb) : posLe pa pb := by
  unfold Diag.pos? at ha hb
  match e1 : a.highlights, e2 : b.highlights with
  | [], _ => simp [e1] at ha
  | _ :: _, [] => simp [e2] at hb
  | x :: xs, y :: ys =>
    rw [Diag.le_iff_key e1 e2] at h
    simp [e1] at ha; simp [e2] at hb
    subst ha; subst hb
    exact keyLe_posLe h

theorem allSome_eq_some {α} {l : List (Option α)} {r : List α} :
    allSome l = some r ↔ l = r.map some := by
  induction l generalizing r with
  | nil => cases r <;> simp [allSome]
  | cons x xs ih =>
    cases x with
    | none => cases r <;> simp [allSome]
    | some a =>
      cases r with
      | nil => simp [allSome]
      | cons b bs =>
        simp only [allSome, Option.map_eq_some_iff, List.map_cons, List.cons.injEq, Option.some.injEq]
        constructor
        · rintro ⟨r', h1, h2, h3⟩; subst h2; subst h3; exact ⟨rfl, ih.mp h1⟩
        · rintro ⟨h1, h2⟩; exact ⟨bs, ih.mpr h2, h1, rfl⟩

theorem allSome_isSome_of {α} {l : List (Option α)} (h : ∀ x ∈ l, x.isSome) :
    ∃ r, allSome l = some r := by
  induction l with
  | nil => exact ⟨[], rfl⟩
  | cons x xs ih =>
    obtain ⟨r, hr⟩ := ih (fun y hy => h y (by simp [hy]))
    have hx := h x (by simp)
    cases x with
    | none => simp at hx
    | some a => exact ⟨a :: r, by simp [allSome, hr]⟩

theorem shownDiag?_isSome {d : Diag} (h : HasHl d) : (shownDiag? d).isSome := by
  unfold HasHl at h; unfold shownDiag?
  cases e : d.highlights with
  | nil => exact absurd e h
  | cons x xs => simp

end Norm
