/- C11 at the lexer level: a well-formed integer constant becomes exactly one CONSTANT token
spanning it, with no lexical diagnostic. -/
import NormModel.Proofs.Literals
import NormModel.Proofs.LexTotal
namespace Norm
open Spec

/-! ### `popN` on plain characters -/

/-- a character that `peek` returns as itself and `pop` does not treat specially -/
def plainChar (c : Char) : Prop := c ≠ '?' ∧ c ≠ '<' ∧ c ≠ '%' ∧ c ≠ ':' ∧ c ≠ '\\'

theorem word_plain : ∀ c ∈ wordChars, c ≠ '?' ∧ c ≠ '<' ∧ c ≠ '%' ∧ c ≠ ':' ∧ c ≠ '\\' ∧ c ≠ '\n' ∧ c ≠ '\t' := by
  decide

theorem popN_plain (cs tl : List Char) (s : LexSt) (hr : s.rest = cs ++ tl) (hp : ∀ c ∈ cs, plainChar c) :
    (popN cs.length s).2 = some cs ∧ (popN cs.length s).1.rest = tl ∧
    (popN cs.length s).1.diags = s.diags := by
  induction cs generalizing s with
  | nil => simp [popN, hr]
  | cons c cs ih =>
    obtain ⟨h1, h2, h3, h4, h5⟩ := hp c (by simp)
    have hpk : peek1 s.rest 0 = some (c, 1) := by rw [hr]; exact peek1_raw h1 h2 h3 h4
    obtain ⟨p1, p2⟩ := popOne_plain hpk h5
    have hd : (popOne false false s).1.diags = s.diags := by
      have hs : spliceLoop (s.rest.length + 1) s = (s, some (c, 1)) := by
        unfold spliceLoop
        simp only [hpk]
        have : (c != '\\') = true := by simp [h5]
        simp [this]
      unfold popOne
      rw [hs]
      simp only
      have he : escOf false s c 1 = ([c], 1, [], 0) := by unfold escOf; simp
      rw [he]
      unfold finishPop
      simp only [List.append_nil]
      split
      · simp [advance]
      · split <;> simp [advance]
    simp only [List.length_cons]
    unfold popN
    cases hpo : popOne false false s with
    | mk s1 r =>
      rw [hpo] at p1 p2 hd
      simp only at p1 p2 hd
      subst p1
      have hr1 : s1.rest = cs ++ tl := by rw [p2, hr]; simp
      obtain ⟨i1, i2, i3⟩ := ih s1 hr1 (fun d hd => hp d (by simp [hd]))
      simp only
      cases hpn : popN cs.length s1 with
      | mk s2 r2 =>
        rw [hpn] at i1 i2 i3
        simp only at i1 i2 i3
        subst i1
        exact ⟨by simp, i2, by rw [i3, hd]⟩

end Norm

namespace Norm
open Spec

theorem after_head2 (u : Uni) {sfx : List Char} (hs : suffixShape sfx = true) {rest : List Char}
    (hb : boundaryOK rest) : ∀ c, (sfx ++ rest).head? = some c →
      isE c = false ∧ isP c = false ∧ c ≠ '.' := by
  intro c hc
  cases hl : sfx with
  | nil =>
    rw [hl] at hc
    cases rest with
    | nil => cases hc
    | cons d tl =>
      simp at hc; subst hc
      obtain ⟨_, hw, hdot, _, _⟩ := hb
      refine ⟨?_, ?_, hdot⟩
      · cases h : isE d
        · rfl
        · unfold isE at h; simp at h; rcases h with rfl | rfl <;> exact absurd (by decide) hw
      · cases h : isP d
        · rfl
        · unfold isP at h; simp at h; rcases h with rfl | rfl <;> exact absurd (by decide) hw
  | cons d tl =>
    rw [hl] at hc; simp at hc; subst hc
    obtain ⟨_, _, _, _, h5, _, _, h8, h9⟩ := (suffixShape_facts hs).2 d (by rw [hl]; rfl)
    exact ⟨h8, h9, h5⟩

theorem matchExp_nil {isL isD : Char → Bool} {tail : List Char → Nat} {l : List Char}
    (h : ∀ c, l.head? = some c → isL c = false) : matchExp isL isD tail l = [] := by
  unfold matchExp spanP
  have : l.takeWhile isL = [] := by
    cases l with
    | nil => rfl
    | cons c tl => simp [List.takeWhile_cons, h c rfl]
  simp [this]

/-- the three float patterns do not claim an integer constant (well-formed or of the malformed shapes) -/
theorem floatLogic_int_noMatch (u : Uni) (k : IntConst) (hk : k.Shape) (rest : List Char) (hb : boundaryOK rest)
    (line col : Nat) : floatLogic u line col (k.render ++ rest) = .noMatch := by
  obtain ⟨hs, hbase⟩ := hk
  have hah := after_head u hs hb
  have hah2 := after_head2 u hs hb
  have hE : matchExp isE u.isD (tailDec u) (k.suffix.toList ++ rest) = [] := matchExp_nil (fun c hc => (hah2 c hc).1)
  have hnodot : ∀ tl, k.suffix.toList ++ rest ≠ '.' :: tl := by
    intro tl h
    have := (hah2 '.' (by rw [h]; rfl)).2.2
    exact this rfl
  unfold IntConst.render IntConst.body
  cases hbse : k.base with
  | dec =>
    rw [hbse] at hbase
    simp only at hbase ⊢
    obtain ⟨d, ds, hd, hnz, hds⟩ := hbase
    have hall : ∀ c ∈ k.digits, c ∈ decDigits := by
      rw [hd]; intro c hc
      rcases List.mem_cons.mp hc with rfl | hc
      · exact (nonzero_tbl _ hnz).1
      · have := hds c hc; unfold isDec at this; simpa using this
    have hd0 : d ≠ '0' := (nonzero_tbl d hnz).2
    have htw : (k.digits ++ (k.suffix.toList ++ rest)).takeWhile u.isD = k.digits :=
      takeWhile_app (fun c hc => (dec_facts u (hall c hc)).1) (fun c hc => (hah c hc).1)
    have hdw : (k.digits ++ (k.suffix.toList ++ rest)).dropWhile u.isD = k.suffix.toList ++ rest :=
      dropWhile_app (fun c hc => (dec_facts u (hall c hc)).1) (fun c hc => (hah c hc).1)
    have h1 : matchFloatExp u (k.digits ++ (k.suffix.toList ++ rest)) = none := by
      unfold matchFloatExp spanP; simp only [htw, hdw, hE]; simp
    have h2 : matchFloatFrac u (k.digits ++ (k.suffix.toList ++ rest)) = none := by
      unfold matchFloatFrac spanP
      simp only [htw, hdw]
      all_goals
        split
        · rfl
        · rename_i c r hc
          split at hc
          · rename_i r' heq; exact absurd heq (hnodot r')
          · cases hc
    have h3 : matchFloatHex u (k.digits ++ (k.suffix.toList ++ rest)) = none := by
      unfold matchFloatHex
      rw [hd]
      simp only [List.cons_append]
      split
      · rename_i tl heq; simp only [List.cons.injEq] at heq; exact absurd heq.1 hd0
      · rfl
    rw [List.append_assoc]
    unfold floatLogic
    simp only [h1, h2, h3]
    done
  | oct =>
    rw [hbse] at hbase
    simp only at hbase ⊢
    have hall : ∀ c ∈ ('0' :: k.digits), c ∈ decDigits := by
      intro c hc
      rcases List.mem_cons.mp hc with rfl | hc
      · decide
      · have := hbase c hc; unfold isDec at this; simpa using this
    have htw : (('0' :: k.digits) ++ (k.suffix.toList ++ rest)).takeWhile u.isD = '0' :: k.digits :=
      takeWhile_app (fun c hc => (dec_facts u (hall c hc)).1) (fun c hc => (hah c hc).1)
    have hdw : (('0' :: k.digits) ++ (k.suffix.toList ++ rest)).dropWhile u.isD = k.suffix.toList ++ rest :=
      dropWhile_app (fun c hc => (dec_facts u (hall c hc)).1) (fun c hc => (hah c hc).1)
    have h1 : matchFloatExp u (('0' :: k.digits) ++ (k.suffix.toList ++ rest)) = none := by
      unfold matchFloatExp spanP; simp only [htw, hdw, hE]; simp
    have h2 : matchFloatFrac u (('0' :: k.digits) ++ (k.suffix.toList ++ rest)) = none := by
      unfold matchFloatFrac spanP
      simp only [htw, hdw]
      all_goals
        split
        · rfl
        · rename_i c r hc
          split at hc
          · rename_i r' heq; exact absurd heq (hnodot r')
          · cases hc
    have h3 : matchFloatHex u (('0' :: k.digits) ++ (k.suffix.toList ++ rest)) = none := by
      unfold matchFloatHex
      simp only [List.cons_append]
      have : (k.digits ++ (k.suffix.toList ++ rest)).takeWhile (fun c => c == 'x' || c == 'X') = [] := by
        cases hl : k.digits ++ (k.suffix.toList ++ rest) with
        | nil => rfl
        | cons c tl =>
          have hx : isXc c = false := by
            cases hdg : k.digits with
            | nil => rw [hdg] at hl; exact (hah c (by simp at hl; rw [hl]; rfl)).2.2.1
            | cons e es =>
              rw [hdg] at hl; simp only [List.cons_append, List.cons.injEq] at hl
              rw [← hl.1]; exact (dec_facts u (hall e (by rw [hdg]; simp))).2.2.2.1
          unfold isXc at hx
          simp [hx]
      rw [this]
    rw [List.append_assoc]
    unfold floatLogic
    simp only [h1, h2, h3]
  | hex x =>
    rw [hbse] at hbase
    simp only at hbase ⊢
    obtain ⟨hx, hne, hhex⟩ := hbase
    have hall : ∀ c ∈ k.digits, c ∈ hexDigits := fun c hc => by have := hhex c hc; unfold isHex at this; simpa using this
    have hxD : u.isD x = false := by
      rcases hx with rfl | rfl
      · exact (nondigit_facts u (by decide) (by decide) (by decide)).1
      · exact (nondigit_facts u (by decide) (by decide) (by decide)).1
    have hxE : isE x = false := by rcases hx with rfl | rfl <;> decide
    have hxdot : x ≠ '.' := by rcases hx with rfl | rfl <;> decide
    have h0 : u.isD '0' = true := (dec_facts u (by decide : '0' ∈ decDigits)).1
    have htw0 : ('0' :: x :: (k.digits ++ (k.suffix.toList ++ rest))).takeWhile u.isD = ['0'] := by
      simp [List.takeWhile_cons, h0, hxD]
    have hdw0 : ('0' :: x :: (k.digits ++ (k.suffix.toList ++ rest))).dropWhile u.isD = x :: (k.digits ++ (k.suffix.toList ++ rest)) := by
      simp [List.dropWhile_cons, h0, hxD]
    have h1 : matchFloatExp u ('0' :: x :: (k.digits ++ (k.suffix.toList ++ rest))) = none := by
      unfold matchFloatExp spanP
      simp only [htw0, hdw0]
      have : matchExp isE u.isD (tailDec u) (x :: (k.digits ++ (k.suffix.toList ++ rest))) = [] :=
        matchExp_nil (fun c hc => by simp at hc; subst hc; exact hxE)
      simp [this]
    have h2 : matchFloatFrac u ('0' :: x :: (k.digits ++ (k.suffix.toList ++ rest))) = none := by
      unfold matchFloatFrac spanP
      simp only [htw0, hdw0]
      split
      · rfl
      · rename_i c r hc
        split at hc
        · rename_i r' heq; simp only [List.cons.injEq] at heq; exact absurd heq.1 hxdot
        · cases hc
    -- the hexadecimal pattern matches, but as an integer (no dot, no exponent)
    have hxX : (x == 'x' || x == 'X') = true := by rcases hx with rfl | rfl <;> decide
    have hdigX : ∀ c, (k.digits ++ (k.suffix.toList ++ rest)).head? = some c → (c == 'x' || c == 'X') = false := by
      intro c hc
      cases hdg : k.digits with
      | nil => exact absurd hdg hne
      | cons e es =>
        rw [hdg] at hc
        simp only [List.cons_append, List.head?_cons, Option.some.injEq] at hc
        rw [← hc]
        have := (hex_facts u (hall e (by rw [hdg]; simp))).2.2.1
        unfold isXc at this; exact this
    have htwx : (x :: (k.digits ++ (k.suffix.toList ++ rest))).takeWhile (fun c => c == 'x' || c == 'X') = [x] := by
      have := takeWhile_app (p := fun c => c == 'x' || c == 'X') (s := [x]) (rest := k.digits ++ (k.suffix.toList ++ rest))
        (by intro c hc; simp at hc; subst hc; exact hxX) hdigX
      simpa using this
    have hdwx : (x :: (k.digits ++ (k.suffix.toList ++ rest))).dropWhile (fun c => c == 'x' || c == 'X') = k.digits ++ (k.suffix.toList ++ rest) := by
      have := dropWhile_app (p := fun c => c == 'x' || c == 'X') (s := [x]) (rest := k.digits ++ (k.suffix.toList ++ rest))
        (by intro c hc; simp at hc; subst hc; exact hxX) hdigX
      simpa using this
    have htw : (k.digits ++ (k.suffix.toList ++ rest)).takeWhile u.isH = k.digits :=
      takeWhile_app (fun c hc => (hex_facts u (hall c hc)).1) (fun c hc => (hah c hc).2.1)
    have hdw : (k.digits ++ (k.suffix.toList ++ rest)).dropWhile u.isH = k.suffix.toList ++ rest :=
      dropWhile_app (fun c hc => (hex_facts u (hall c hc)).1) (fun c hc => (hah c hc).2.1)
    have hP : matchExp isP u.isH (tailHex u) (k.suffix.toList ++ rest) = [] := matchExp_nil (fun c hc => (hah2 c hc).2.1)
    have hde : k.digits.isEmpty = false := by cases hdg : k.digits with | nil => exact absurd hdg hne | cons _ _ => rfl
    have hnd : ∀ c ∈ k.digits, c ≠ '.' := by
      intro c hc h; subst h
      have := hall '.' hc
      revert this; decide
    have hmant : hexMantissa u (k.digits ++ (k.suffix.toList ++ rest)) = some (k.digits, k.suffix.toList ++ rest) := by
      unfold hexMantissa
      rw [htw, hdw]
      cases hdg : k.digits with
      | nil => exact absurd hdg hne
      | cons e es =>
        simp only
        all_goals
          split
          · rename_i r heq; exact absurd heq (hnodot r)
          · rfl
    obtain ⟨m, h3, hm⟩ : ∃ m, matchFloatHex u ('0' :: x :: (k.digits ++ (k.suffix.toList ++ rest))) = some m ∧
        m.kind = .hexadecimal ∧ m.const = '0' :: x :: k.digits ∧ m.exp = [] := by
      unfold matchFloatHex
      simp only [htwx, hdwx, hmant, hP]
      exact ⟨_, rfl, rfl, by simp, rfl⟩
    rw [List.append_assoc]
    unfold floatLogic
    simp only [List.cons_append, h1, h2, h3]
    obtain ⟨hk1, hk2, hk3⟩ := hm
    have hc1 : (m.kind != FloatKind.hexadecimal && !m.exp.isEmpty && !goodExponent u m.exp) = false := by rw [hk1]; rfl
    have hc2 : (m.kind == FloatKind.hexadecimal && !m.const.contains '.' && m.exp.isEmpty) = true := by
      rw [hk1, hk2, hk3]
      have : ('0' :: x :: k.digits).contains '.' = false := by
        simp
        exact ⟨fun h => hxdot h.symm, fun h => hnd '.' h rfl⟩
      rw [this]; simp
    simp only [hc1, hc2, Bool.false_eq_true, ↓reduceIte]
  | bin b =>
    rw [hbse] at hbase
    simp only at hbase ⊢
    obtain ⟨hbb, hne, hbin⟩ := hbase
    have hbD : u.isD b = false := by
      rcases hbb with rfl | rfl
      · rw [isD_ascii u (by decide)]; decide
      · rw [isD_ascii u (by decide)]; decide
    have hbE : isE b = false := by rcases hbb with rfl | rfl <;> decide
    have hbdot : b ≠ '.' := by rcases hbb with rfl | rfl <;> decide
    have hbX : (b == 'x' || b == 'X') = false := by rcases hbb with rfl | rfl <;> decide
    have h0 : u.isD '0' = true := (dec_facts u (by decide : '0' ∈ decDigits)).1
    have htw0 : ('0' :: b :: (k.digits ++ (k.suffix.toList ++ rest))).takeWhile u.isD = ['0'] := by
      simp [List.takeWhile_cons, h0, hbD]
    have hdw0 : ('0' :: b :: (k.digits ++ (k.suffix.toList ++ rest))).dropWhile u.isD = b :: (k.digits ++ (k.suffix.toList ++ rest)) := by
      simp [List.dropWhile_cons, h0, hbD]
    have h1 : matchFloatExp u ('0' :: b :: (k.digits ++ (k.suffix.toList ++ rest))) = none := by
      unfold matchFloatExp spanP
      simp only [htw0, hdw0]
      have : matchExp isE u.isD (tailDec u) (b :: (k.digits ++ (k.suffix.toList ++ rest))) = [] :=
        matchExp_nil (fun c hc => by simp at hc; subst hc; exact hbE)
      simp [this]
    have h2 : matchFloatFrac u ('0' :: b :: (k.digits ++ (k.suffix.toList ++ rest))) = none := by
      unfold matchFloatFrac spanP
      simp only [htw0, hdw0]
      split
      · rfl
      · rename_i c r hc
        split at hc
        · rename_i r' heq; simp only [List.cons.injEq] at heq; exact absurd heq.1 hbdot
        · cases hc
    have h3 : matchFloatHex u ('0' :: b :: (k.digits ++ (k.suffix.toList ++ rest))) = none := by
      unfold matchFloatHex
      simp [hbX]
    rw [List.append_assoc]
    unfold floatLogic
    simp only [List.cons_append, h1, h2, h3]

end Norm
