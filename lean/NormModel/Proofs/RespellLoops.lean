/- Reading equivalence through the loops of the sub-lexers (identifier, comments, character and string bodies). -/
import NormModel.Proofs.RespellPop
namespace Norm
open Spec

theorem progress_length {s t : LexSt} (h : Progress s t) : t.rest.length < s.rest.length := by
  obtain ⟨n, hn, h1, h2, _⟩ := h
  rw [h2, List.length_drop]; omega

theorem popOne_shrinks (us ue : Bool) (s : LexSt) (cs : List Char) (h : (popOne us ue s).2 = some cs) :
    (popOne us ue s).1.rest.length < s.rest.length :=
  progress_length ((popOne_spec us ue s).1 cs h)

theorem popN_readEq (n : Nat) (s t : LexSt) (h : ReadEq s.rest t.rest) :
    ReadEq (popN n s).1.rest (popN n t).1.rest ∧ (popN n s).2 = (popN n t).2 := by
  induction n generalizing s t with
  | zero => exact ⟨h, rfl⟩
  | succ n ih =>
    obtain ⟨h1, h2⟩ := popOne_readEq_ff false s t h
    unfold popN
    cases ha : popOne false false s with
    | mk s1 r =>
      cases hb : popOne false false t with
      | mk t1 r' =>
        rw [ha, hb] at h1 h2
        simp only at h1 h2
        subst h2
        cases r with
        | none => exact ⟨h1, rfl⟩
        | some cs =>
          simp only
          obtain ⟨i1, i2⟩ := ih s1 t1 h1
          cases hc : popN n s1 with
          | mk s2 q =>
            cases hd : popN n t1 with
            | mk t2 q' =>
              rw [hc, hd] at i1 i2
              simp only at i1 i2
              subst i2
              cases q with
              | none => exact ⟨i1, rfl⟩
              | some ds => exact ⟨i1, rfl⟩

theorem idChar_plain : ∀ c, isIdChar c = true → Plain c := by
  intro c hc
  have hw : c ∈ asciiLetters ∨ c ∈ asciiDigits ∨ c = '_' := by
    unfold isIdChar isAsciiLetter isAsciiDigit at hc
    simp only [Bool.or_eq_true, List.contains_eq_mem, decide_eq_true_eq, beq_iff_eq] at hc
    rcases hc with (h | h) | h
    · exact Or.inl h
    · exact Or.inr (Or.inl h)
    · exact Or.inr (Or.inr h)
  have k1 : ∀ c ∈ asciiLetters, Plain c := by decide
  have k2 : ∀ c ∈ asciiDigits, Plain c := by decide
  rcases hw with h | h | h
  · exact k1 c h
  · exact k2 c h
  · subst h; decide

/-- the identifier loop -/
theorem identLoop_readEq (fa : Nat) : ∀ (fb : Nat) (s t : LexSt) (v : List Char), s.rest.length < fa → t.rest.length < fb →
    ReadEq s.rest t.rest →
    (identLoop fa s v).2 = (identLoop fb t v).2 ∧ ReadEq (identLoop fa s v).1.rest (identLoop fb t v).1.rest := by
  induction fa with
  | zero => intro fb s t v h; omega
  | succ fa ih =>
    intro fb s t v hfa hfb h
    cases fb with
    | zero => omega
    | succ fb =>
      unfold identLoop
      have hph := pHead_readEq isIdChar idChar_plain h
      cases ha : s.rest with
      | nil =>
        rw [ha] at h
        rw [h.nil_left]
        exact ⟨rfl, by rw [ha, h.nil_left]; exact ReadEq.nil⟩
      | cons x xs =>
        cases hb : t.rest with
        | nil => rw [ha, hb] at h; have := h.nil_right; cases this
        | cons y ys =>
          rw [ha, hb] at hph
          simp only
          by_cases hx : isIdChar x = true
          · have hy : isIdChar y = true := by
              cases hyy : isIdChar y with
              | true => rfl
              | false => simp [pHead, hx, hyy] at hph
            simp only [hx, hy, ↓reduceIte]
            obtain ⟨p1, p2⟩ := popOne_readEq_ff false s t h
            cases hpa : popOne false false s with
            | mk s1 r =>
              cases hpb : popOne false false t with
              | mk t1 r' =>
                rw [hpa, hpb] at p1 p2
                simp only at p1 p2
                subst p2
                cases r with
                | none => exact ⟨rfl, p1⟩
                | some ch =>
                  simp only
                  have l1 := popOne_shrinks false false s ch (by rw [hpa])
                  have l2 := popOne_shrinks false false t ch (by rw [hpb])
                  rw [hpa] at l1; rw [hpb] at l2
                  exact ih fb s1 t1 (v ++ ch) (by simp only at l1; omega) (by simp only at l2; omega) p1
          · have hy : ¬ isIdChar y = true := by
              intro hy; simp [pHead, hx, hy] at hph
            simp only [hx, hy, Bool.false_eq_true, ↓reduceIte]
            exact ⟨by first | rfl | trivial, by rw [ha, hb] at h; first | exact h | (rw [ha, hb]; exact h)⟩

/-- the `//` comment loop -/
theorem lineCommentLoop_readEq (fa : Nat) : ∀ (fb : Nat) (s t : LexSt) (v : List Char), s.rest.length < fa → t.rest.length < fb →
    ReadEq s.rest t.rest →
    (lineCommentLoop fa s v).2 = (lineCommentLoop fb t v).2 ∧
    ReadEq (lineCommentLoop fa s v).1.rest (lineCommentLoop fb t v).1.rest := by
  induction fa with
  | zero => intro fb s t v h; omega
  | succ fa ih =>
    intro fb s t v hfa hfb h
    cases fb with
    | zero => omega
    | succ fb =>
      unfold lineCommentLoop
      rcases h.peek with ⟨h1, h2, _, _⟩ | ⟨c, ka, kb, h1, h2, _⟩
      · rw [h1, h2]; exact ⟨rfl, h⟩
      · rw [h1, h2]
        simp only
        by_cases hc : (c == '\n') = true
        · simp only [hc, ↓reduceIte]; exact ⟨by first | rfl | trivial, h⟩
        · simp only [hc, Bool.false_eq_true, ↓reduceIte]
          obtain ⟨p1, p2⟩ := popOne_readEq_ff false s t h
          cases hpa : popOne false false s with
          | mk s1 r =>
            cases hpb : popOne false false t with
            | mk t1 r' =>
              rw [hpa, hpb] at p1 p2
              simp only at p1 p2
              subst p2
              cases r with
              | none => exact ⟨rfl, p1⟩
              | some ch =>
                simp only
                have l1 := popOne_shrinks false false s ch (by rw [hpa])
                have l2 := popOne_shrinks false false t ch (by rw [hpb])
                rw [hpa] at l1; rw [hpb] at l2
                exact ih fb s1 t1 (v ++ ch) (by simp only at l1; omega) (by simp only at l2; omega) p1

/-! ### block comments: the text may differ in expanded tabs, the end is found at the same place -/

/-- without escapes one `pop` returns one character, or the blanks of an expanded tab -/
theorem popOne_noesc_val (us : Bool) (s : LexSt) (ch : List Char) (h : (popOne us false s).2 = some ch) :
    (∃ c, ch = [c]) ∨ (∃ n, 1 ≤ n ∧ ch = List.replicate n ' ') := by
  unfold popOne at h
  cases hsl : spliceLoop (s.rest.length + 1) s with
  | mk s1 r =>
    rw [hsl] at h
    cases r with
    | none => cases h
    | some p =>
      obtain ⟨c, sz⟩ := p
      simp only at h
      rw [finishPop_val] at h
      have he : (escOf false s1 c sz).1 = [c] := by unfold escOf; simp
      rw [he] at h
      simp only [Option.some.injEq] at h
      by_cases ht : (([c] : List Char) == ['\t'] && us) = true
      · simp only [ht, ↓reduceIte] at h
        exact Or.inr ⟨_, by omega, h.symm⟩
      · simp only [ht, Bool.false_eq_true, ↓reduceIte] at h
        exact Or.inl ⟨c, h.symm⟩

theorem endsWithStarSlash_snoc (v : List Char) (c : Char) :
    endsWithStarSlash (v ++ [c]) = (c == '/' && v.getLast? == some '*') := by
  unfold endsWithStarSlash
  rw [List.reverse_append]
  simp only [List.reverse_cons, List.reverse_nil, List.nil_append, List.singleton_append]
  rw [List.getLast?_eq_head?_reverse]
  cases hr : v.reverse with
  | nil => by_cases hc : c = '/' <;> simp [hc]
  | cons x xs =>
    by_cases hc : c = '/'
    · subst hc
      by_cases hx : x = '*'
      · subst hx; simp
      · simp [hx]
    · simp [hc]

theorem endsWithStarSlash_blank (v : List Char) (n : Nat) (hn : 1 ≤ n) :
    endsWithStarSlash (v ++ List.replicate n ' ') = false := by
  cases n with
  | zero => omega
  | succ n =>
    have : v ++ List.replicate (n + 1) ' ' = (v ++ List.replicate n ' ') ++ [' '] := by
      rw [List.append_assoc]; congr 1
      exact List.replicate_succ'
    rw [this, endsWithStarSlash_snoc]
    simp

/-- what the two texts of a block comment under construction have in common -/
def MCInv (v w : List Char) : Prop :=
  v.getLast? = w.getLast? ∧ 2 ≤ v.length ∧ 2 ≤ w.length ∧ (v = w ∨ (3 ≤ v.length ∧ 3 ≤ w.length))

theorem multiCommentLoop_readEq (fa : Nat) : ∀ (fb : Nat) (s t : LexSt) (v w : List Char), s.rest.length < fa → t.rest.length < fb →
    ReadEq s.rest t.rest → MCInv v w →
    (multiCommentLoop fa s v).2.2 = (multiCommentLoop fb t w).2.2 ∧
    ReadEq (multiCommentLoop fa s v).1.rest (multiCommentLoop fb t w).1.rest := by
  induction fa with
  | zero => intro fb s t v w h; omega
  | succ fa ih =>
    intro fb s t v w hfa hfb h hinv
    cases fb with
    | zero => omega
    | succ fb =>
      unfold multiCommentLoop
      rcases h.peek with ⟨h1, h2, _, _⟩ | ⟨c, ka, kb, h1, h2, _⟩
      · rw [h1, h2]; exact ⟨rfl, h⟩
      · rw [h1, h2]
        simp only
        obtain ⟨p1, p2⟩ := popOne_readEq true false s t h
        have va := popOne_noesc_val true s
        have vb := popOne_noesc_val true t
        cases hpa : popOne true false s with
        | mk s1 r =>
          cases hpb : popOne true false t with
          | mk t1 r' =>
            rw [hpa] at p1 p2 va
            rw [hpb] at p1 p2 vb
            simp only at p1 p2 va vb
            cases r with
            | none =>
              cases r' with
              | none => exact ⟨rfl, p1⟩
              | some _ => exact p2.elim
            | some ch =>
              cases r' with
              | none => exact p2.elim
              | some ch' =>
                simp only
                have l1 := popOne_shrinks true false s ch (by rw [hpa])
                have l2 := popOne_shrinks true false t ch' (by rw [hpb])
                rw [hpa] at l1; rw [hpb] at l2
                simp only at l1 l2
                obtain ⟨hl, hv2, hw2, hvw⟩ := hinv
                -- the two pieces: the same character, or two runs of blanks
                have shape : (∃ c, ch = [c] ∧ ch' = [c]) ∨ ((∃ n, 1 ≤ n ∧ ch = List.replicate n ' ') ∧ (∃ m, 1 ≤ m ∧ ch' = List.replicate m ' ')) := by
                  rcases p2 with e | ⟨_, b1, b2⟩
                  · subst e
                    rcases va ch rfl with ⟨c, hc⟩ | hb
                    · exact Or.inl ⟨c, hc, hc⟩
                    · exact Or.inr ⟨hb, hb⟩
                  · exact Or.inr ⟨b1, b2⟩
                rcases shape with ⟨c, rfl, rfl⟩ | ⟨⟨n, hn, rfl⟩, ⟨m, hm, rfl⟩⟩
                · -- one more character on both sides
                  have hcond : (endsWithStarSlash (v ++ [c]) && decide ((v ++ [c]).length ≥ 4)) =
                      (endsWithStarSlash (w ++ [c]) && decide ((w ++ [c]).length ≥ 4)) := by
                    rw [endsWithStarSlash_snoc, endsWithStarSlash_snoc, hl]
                    rcases hvw with e | ⟨g1, g2⟩
                    · rw [e]
                    · have d1 : decide ((v ++ [c]).length ≥ 4) = true := by simp; omega
                      have d2 : decide ((w ++ [c]).length ≥ 4) = true := by simp; omega
                      rw [d1, d2]
                  rw [hcond]
                  by_cases hfin : (endsWithStarSlash (w ++ [c]) && decide ((w ++ [c]).length ≥ 4)) = true
                  · simp only [hfin, ↓reduceIte]; exact ⟨by first | rfl | trivial, p1⟩
                  · simp only [hfin, Bool.false_eq_true, ↓reduceIte]
                    apply ih fb s1 t1 _ _ (by omega) (by omega) p1
                    refine ⟨by simp, by simp; omega, by simp; omega, ?_⟩
                    rcases hvw with e | ⟨g1, g2⟩
                    · exact Or.inl (by rw [e])
                    · exact Or.inr ⟨by simp; omega, by simp; omega⟩
                · -- an expanded tab on both sides
                  rw [endsWithStarSlash_blank v n hn, endsWithStarSlash_blank w m hm]
                  simp only [Bool.false_and, Bool.false_eq_true, ↓reduceIte]
                  apply ih fb s1 t1 _ _ (by omega) (by omega) p1
                  refine ⟨?_, by simp; omega, by simp; omega, Or.inr ⟨by simp; omega, by simp; omega⟩⟩
                  have e1 : (v ++ List.replicate n ' ').getLast? = some ' ' := by
                    cases n with
                    | zero => omega
                    | succ n => rw [List.replicate_succ', ← List.append_assoc]; simp
                  have e2 : (w ++ List.replicate m ' ').getLast? = some ' ' := by
                    cases m with
                    | zero => omega
                    | succ m => rw [List.replicate_succ', ← List.append_assoc]; simp
                  rw [e1, e2]

/-! ### character and string bodies -/

theorem charLoop_readEq (fa : Nat) : ∀ (fb : Nat) (la ca lb cb : Nat) (s t : LexSt) (v : List Char) (n : Nat),
    s.rest.length < fa → t.rest.length < fb → ReadEq s.rest t.rest →
    (charLoop la ca fa s v n).2 = (charLoop lb cb fb t v n).2 ∧
    ReadEq (charLoop la ca fa s v n).1.rest (charLoop lb cb fb t v n).1.rest := by
  induction fa with
  | zero => intro fb la ca lb cb s t v n h; omega
  | succ fa ih =>
    intro fb la ca lb cb s t v n hfa hfb h
    cases fb with
    | zero => omega
    | succ fb =>
      unfold charLoop
      obtain ⟨p1, p2⟩ := popOne_readEq_ff true s t h
      cases hpa : popOne false true s with
      | mk s1 r =>
        cases hpb : popOne false true t with
        | mk t1 r' =>
          rw [hpa, hpb] at p1 p2
          simp only at p1 p2
          subst p2
          cases r with
          | none => exact ⟨by first | rfl | trivial, by simpa [LexSt.addDiag] using p1⟩
          | some ch =>
            simp only
            by_cases hnl : (ch == ['\n']) = true
            · simp only [hnl, ↓reduceIte]
              exact ⟨by first | rfl | trivial, by simpa [LexSt.addDiag] using h⟩
            · simp only [hnl, Bool.false_eq_true, ↓reduceIte]
              by_cases hq : (ch == ['\'']) = true
              · simp only [hq, ↓reduceIte]; exact ⟨by first | rfl | trivial, p1⟩
              · simp only [hq, Bool.false_eq_true, ↓reduceIte]
                have l1 := popOne_shrinks false true s ch (by rw [hpa])
                have l2 := popOne_shrinks false true t ch (by rw [hpb])
                rw [hpa] at l1; rw [hpb] at l2
                exact ih fb la ca lb cb s1 t1 (v ++ ch) (n + 1) (by simp only at l1; omega) (by simp only at l2; omega) p1

theorem strLoop_readEq (fa : Nat) : ∀ (fb : Nat) (s t : LexSt) (v : List Char),
    s.rest.length < fa → t.rest.length < fb → ReadEq s.rest t.rest →
    (strLoop fa s v).2 = (strLoop fb t v).2 ∧ ReadEq (strLoop fa s v).1.rest (strLoop fb t v).1.rest := by
  induction fa with
  | zero => intro fb s t v h; omega
  | succ fa ih =>
    intro fb s t v hfa hfb h
    cases fb with
    | zero => omega
    | succ fb =>
      unfold strLoop
      rcases h.peek with ⟨h1, h2, _, _⟩ | ⟨c, ka, kb, h1, h2, _⟩
      · rw [h1, h2]; exact ⟨by first | rfl | trivial, h⟩
      · rw [h1, h2]
        simp only
        obtain ⟨p1, p2⟩ := popOne_readEq_ff true s t h
        cases hpa : popOne false true s with
        | mk s1 r =>
          cases hpb : popOne false true t with
          | mk t1 r' =>
            rw [hpa, hpb] at p1 p2
            simp only at p1 p2
            subst p2
            cases r with
            | none => exact ⟨by first | rfl | trivial, p1⟩
            | some ch =>
              simp only
              by_cases hq : (ch == ['"']) = true
              · simp only [hq, ↓reduceIte]; exact ⟨by first | rfl | trivial, p1⟩
              · simp only [hq, Bool.false_eq_true, ↓reduceIte]
                have l1 := popOne_shrinks false true s ch (by rw [hpa])
                have l2 := popOne_shrinks false true t ch (by rw [hpb])
                rw [hpa] at l1; rw [hpb] at l2
                exact ih fb s1 t1 (v ++ ch) (by simp only at l1; omega) (by simp only at l2; omega) p1

end Norm
