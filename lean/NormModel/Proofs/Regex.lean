/- Building matches of sequential patterns. -/
import NormModel.Model.Regex
namespace Norm

def lit1 (c : Char) : Atom := ⟨.lit c, 1, some 1⟩
def lits (cs : List Char) : List Atom := cs.map lit1
def anyStar : Atom := ⟨.any, 0, none⟩
def any1 : Atom := ⟨.any, 1, some 1⟩
def notSpStar : Atom := ⟨.notLit ' ', 0, none⟩

theorem ms_lit (c : Char) {rest : List Atom} {tail : List Char} (h : MatchesSeq rest tail) :
    MatchesSeq (lit1 c :: rest) (c :: tail) := by
  have := MatchesSeq.cons (lit1 c) rest [c] tail (by intro x hx; simp at hx; subst hx; simp [lit1, CSet.mem])
    (by simp [lit1]) (by intro m hm; simp [lit1] at hm; subst hm; simp) h
  simpa using this

theorem ms_lits (cs : List Char) {rest : List Atom} {tail : List Char} (h : MatchesSeq rest tail) :
    MatchesSeq (lits cs ++ rest) (cs ++ tail) := by
  induction cs with
  | nil => simpa [lits] using h
  | cons c cs ih => simpa [lits] using ms_lit c ih

theorem ms_anyStar (chunk : List Char) {rest : List Atom} {tail : List Char} (h : MatchesSeq rest tail) :
    MatchesSeq (anyStar :: rest) (chunk ++ tail) :=
  MatchesSeq.cons anyStar rest chunk tail (by intro x _; simp [anyStar, CSet.mem]) (by simp [anyStar])
    (by intro m hm; simp [anyStar] at hm) h

theorem ms_any1 (c : Char) {rest : List Atom} {tail : List Char} (h : MatchesSeq rest tail) :
    MatchesSeq (any1 :: rest) (c :: tail) := by
  have := MatchesSeq.cons any1 rest [c] tail (by intro x _; simp [any1, CSet.mem]) (by simp [any1])
    (by intro m hm; simp [any1] at hm; subst hm; simp) h
  simpa using this

theorem ms_notSpStar (chunk : List Char) (hc : ∀ c ∈ chunk, c ≠ ' ') {rest : List Atom} {tail : List Char}
    (h : MatchesSeq rest tail) : MatchesSeq (notSpStar :: rest) (chunk ++ tail) :=
  MatchesSeq.cons notSpStar rest chunk tail
    (by intro x hx; simp only [notSpStar, CSet.mem, bne_iff_ne, ne_eq]; exact fun e => hc x hx e.symm)
    (by simp [notSpStar]) (by intro m hm; simp [notSpStar] at hm) h

theorem ms_rep (a : Atom) (chunk : List Char) (n : Nat) (ha : a.min = n) (hm : a.max = some n)
    (hl : chunk.length = n) (hs : ∀ c ∈ chunk, a.set.mem c = true) {rest : List Atom} {tail : List Char}
    (h : MatchesSeq rest tail) : MatchesSeq (a :: rest) (chunk ++ tail) :=
  MatchesSeq.cons a rest chunk tail hs (by omega) (by intro m hm'; rw [hm] at hm'; cases hm'; omega) h

theorem ms_append {a b : List Atom} {s t : List Char} (h1 : MatchesSeq a s) (h2 : MatchesSeq b t) :
    MatchesSeq (a ++ b) (s ++ t) := by
  induction h1 with
  | nil => simpa using h2
  | cons x rest chunk tail hs hmin hmax _ ih =>
    have := MatchesSeq.cons x (rest ++ b) chunk (tail ++ t) hs hmin hmax ih
    simpa [List.append_assoc] using this

theorem searches_of_matches {r : List Atom} {s : List Char} (h : MatchesSeq r s) : Searches r s :=
  ⟨[], s, [], by simp, h⟩

/-- `re.search` is monotone under extension of the text on either side -/
theorem searches_mono {r : List Atom} {s : List Char} (pre post : List Char) (h : Searches r s) :
    Searches r (pre ++ s ++ post) := by
  obtain ⟨a, m, b, rfl, hm⟩ := h
  exact ⟨pre ++ a, m, b ++ post, by simp [List.append_assoc], hm⟩

end Norm
