/- Content refinement of the lexer primitives: what `pop` returns is a reading (`Spec.Den`) of the
raw characters it consumed. -/
import NormModel.Spec.Content
import NormModel.Proofs.LexPop
namespace Norm
open Spec

theorem advPos_append' (p : Nat × Nat) (a b : List Char) : advPos p (a ++ b) = advPos (advPos p a) b :=
  advPos_append p a b

theorem Den.append {tabs : Bool} {p : Nat × Nat} {a x b y : List Char}
    (h1 : Den tabs p a x) (h2 : Den tabs (advPos p a) b y) : Den tabs p (a ++ b) (x ++ y) := by
  induction h1 with
  | nil p => simpa [advPos] using h2
  | cons p r o raw out hstep _ ih =>
    rw [List.append_assoc, List.append_assoc]
    refine Den.cons p r o _ _ hstep (ih ?_)
    rw [← advPos_append]; exact h2

theorem Den.single {tabs : Bool} {p : Nat × Nat} {r o : List Char} (h : Den1 tabs p.2 r o) : Den tabs p r o := by
  have := Den.cons p r o [] [] h (Den.nil _)
  simpa using this

/-- every character read as itself -/
theorem Den.plain (tabs : Bool) (p : Nat × Nat) (raw : List Char) : Den tabs p raw raw := by
  induction raw generalizing p with
  | nil => exact Den.nil p
  | cons c cs ih => exact Den.cons p [c] [c] cs cs (Den1.plain c) (ih _)

theorem gen_tri_sub : ∀ p ∈ Generated.trigraphs, p ∈ Spec.trigraphs := by decide
theorem gen_di_sub : ∀ p ∈ Generated.digraphs, p ∈ Spec.digraphs := by decide

/-- `s` reaches `t` consuming raw characters that read as `out` -/
def Reads (tabs : Bool) (s t : LexSt) (out : List Char) : Prop :=
  ∃ n, FollowsN n s t ∧ Den tabs (s.line, s.col) (s.rest.take n) out

theorem Reads.refl (tabs : Bool) (s : LexSt) : Reads tabs s s [] :=
  ⟨0, FollowsN.refl s, by simpa using Den.nil _⟩

theorem Reads.trans {tabs : Bool} {s t u : LexSt} {o1 o2 : List Char}
    (h1 : Reads tabs s t o1) (h2 : Reads tabs t u o2) : Reads tabs s u (o1 ++ o2) := by
  obtain ⟨n, f1, d1⟩ := h1
  obtain ⟨m, f2, d2⟩ := h2
  refine ⟨n + m, f1.trans f2, ?_⟩
  have hsplit : s.rest.take (n + m) = s.rest.take n ++ (s.rest.drop n).take m := by rw [List.take_add]
  rw [hsplit]
  apply Den.append d1
  obtain ⟨_, hrest, _, hpos, _⟩ := f1
  rw [← hpos, ← hrest]; exact d2

theorem Reads.follows {tabs : Bool} {s t : LexSt} {o : List Char} (h : Reads tabs s t o) : Follows s t := by
  obtain ⟨n, f, _⟩ := h; exact ⟨n, f⟩

/-- diagnostics added without consuming anything read as nothing -/
theorem Reads.of_followsN0 {tabs : Bool} {s t : LexSt} (h : FollowsN 0 s t) : Reads tabs s t [] :=
  ⟨0, h, by simpa using Den.nil _⟩



/-! ### what `peek` looked at reads as what it returned -/

theorem triAt_den {l : List Char} {t : Char} (h : triAt l = some t) (tabs : Bool) (col : Nat) :
    Den1 tabs col (l.take 3) [t] := by
  unfold triAt at h
  split at h
  · rename_i c2 tl
    simp only [Option.bind_eq_some_iff] at h
    obtain ⟨v, hv, hhead⟩ := h
    have hm := gen_tri_sub _ (assoc_mem hv)
    have := Den1.tri (tabs := tabs) (col := col) (String.ofList ['?', '?', c2], v) t hm hhead
    simpa using this
  · cases h

theorem diAt_den {l : List Char} {t : Char} (h : diAt l = some t) (tabs : Bool) (col : Nat) :
    Den1 tabs col (l.take 2) [t] := by
  unfold diAt at h
  split at h
  · rename_i c0 c1 tl
    simp only [Option.bind_eq_some_iff] at h
    obtain ⟨v, hv, hhead⟩ := h
    have hm := gen_di_sub _ (assoc_mem hv)
    have := Den1.di (tabs := tabs) (col := col) (String.ofList [c0, c1], v) t hm hhead
    simpa using this
  · cases h

theorem peek1_den {rest : List Char} {off : Nat} {c : Char} {sz : Nat}
    (h : peek1 rest off = some (c, sz)) (tabs : Bool) (col : Nat) :
    Den1 tabs col ((rest.drop off).take sz) [c] := by
  unfold peek1 at h
  split at h
  · rename_i t ht
    simp only [Option.some.injEq, Prod.mk.injEq] at h
    obtain ⟨rfl, rfl⟩ := h
    exact triAt_den ht tabs col
  · split at h
    · rename_i d hd
      simp only [Option.some.injEq, Prod.mk.injEq] at h
      obtain ⟨rfl, rfl⟩ := h
      exact diAt_den hd tabs col
    · split at h
      · rename_i c0 tl heq
        simp only [Option.some.injEq, Prod.mk.injEq] at h
        obtain ⟨rfl, rfl⟩ := h
        rw [heq]
        simpa using Den1.plain (tabs := tabs) (col := col) c0
      · cases h

/-- content of a step between two states: the raw characters consumed read as `out` -/
def Content (tabs : Bool) (s t : LexSt) (out : List Char) : Prop :=
  Den tabs (s.line, s.col) (s.rest.take (t.pos - s.pos)) out

theorem FollowsN.pos_sub {n : Nat} {s t : LexSt} (h : FollowsN n s t) : t.pos - s.pos = n := by
  obtain ⟨_, _, h3, _⟩ := h; omega

theorem Content.refl (tabs : Bool) (s : LexSt) : Content tabs s s [] := by
  unfold Content; simpa using Den.nil _

theorem Content.trans_moves {tabs : Bool} {s t u : LexSt} {o1 o2 : List Char}
    (f1 : Moves s t) (f2 : Moves t u) (c1 : Content tabs s t o1) (c2 : Content tabs t u o2) :
    Content tabs s u (o1 ++ o2) := by
  obtain ⟨n, f1⟩ := f1
  obtain ⟨m, f2⟩ := f2
  unfold Content at *
  rw [f1.pos_sub] at c1
  rw [f2.pos_sub] at c2
  rw [(f1.trans f2).pos_sub]
  have hsplit : s.rest.take (n + m) = s.rest.take n ++ (s.rest.drop n).take m := by rw [List.take_add]
  rw [hsplit]
  apply Den.append c1
  obtain ⟨_, hrest, _, hpos⟩ := f1
  rw [← hpos, ← hrest]; exact c2

theorem Content.trans {tabs : Bool} {s t u : LexSt} {o1 o2 : List Char}
    (f1 : Follows s t) (f2 : Follows t u) (c1 : Content tabs s t o1) (c2 : Content tabs t u o2) :
    Content tabs s u (o1 ++ o2) := Content.trans_moves f1.moves f2.moves c1 c2

/-- a state change that consumes nothing (diagnostics only) has empty content -/
theorem Content.of_same_pos {tabs : Bool} {s t : LexSt} (h : t.pos = s.pos) : Content tabs s t [] := by
  unfold Content; rw [h]; simpa using Den.nil _

end Norm

namespace Norm
open Spec

theorem Den.mono {p : Nat × Nat} {r o : List Char} (h : Den false p r o) : Den true p r o := by
  induction h with
  | nil p => exact Den.nil p
  | cons p r o raw out hstep _ ih =>
    refine Den.cons p r o raw out ?_ ih
    have step : ∀ {col : Nat} {r o : List Char}, Den1 false col r o → Den1 true col r o := by
      intro col r o hs
      induction hs with
      | plain c => exact Den1.plain c
      | tri p c hp hc => exact Den1.tri p c hp hc
      | di p c hp hc => exact Den1.di p c hp hc
      | splice bs _ ih => exact Den1.splice bs ih
      | tab h => cases h
    exact step hstep

/-! ### the splice loop reads as nothing -/

theorem spliceLoop_content (tabs : Bool) (fuel : Nat) (s : LexSt) : Content tabs s (spliceLoop fuel s).1 [] := by
  induction fuel generalizing s with
  | zero => simpa [spliceLoop] using Content.refl tabs s
  | succ fuel ih =>
    unfold spliceLoop
    cases hp : peek1 s.rest 0 with
    | none => exact Content.refl tabs s
    | some p =>
      obtain ⟨c, sz⟩ := p
      simp only
      by_cases hc : c = '\\'
      · subst hc
        simp only [bne_self_eq_false, Bool.false_eq_true, ↓reduceIte]
        cases hq : peek1 s.rest sz with
        | none => exact Content.refl tabs s
        | some q =>
          obtain ⟨t, k⟩ := q
          simp only
          by_cases ht : t = '\n'
          · subst ht
            simp only [bne_self_eq_false, Bool.false_eq_true, ↓reduceIte]
            obtain ⟨hk, hhead⟩ := peek1_ws hq (Or.inl rfl)
            obtain ⟨_, hlen, _⟩ := peek1_spec hq
            subst hk
            have hcl : Clean (s.rest.take sz) := peek1_clean hp (by decide)
            have hf := follows_splice s sz hlen hcl hhead
            -- one splice step, then the rest of the loop
            have hstep : Content tabs s { advance s (sz + 1) with line := s.line + 1, col := 1 } [] := by
              unfold Content
              simp only [advance]
              rw [show s.pos + (sz + 1) - s.pos = sz + 1 by omega, take_succ_of_head hhead]
              have hd := peek1_den hp tabs s.col
              simp only [List.drop_zero] at hd
              exact Den.single (Den1.splice _ hd)
            have hrec := ih { advance s (sz + 1) with line := s.line + 1, col := 1 }
            have := Content.trans ⟨_, hf⟩ (spliceLoop_spec fuel _).1 hstep hrec
            simpa using this
          · have : (t != '\n') = true := by simp [ht]
            simp only [this, ↓reduceIte]
            exact Content.refl tabs s
      · have : (c != '\\') = true := by simp [hc]
        simp only [this, ↓reduceIte]
        exact Content.refl tabs s

end Norm

namespace Norm
open Spec

/-! ### escape sequences -/

def spellOK (p : String × String) : Bool :=
  match p.2.toList.head? with
  | some c => c != 'x' && !isOctal c
  | none => true

theorem spellings_not_x_octal : ∀ p ∈ Generated.trigraphs ++ Generated.digraphs, spellOK p = true := by decide

/-- `x` and the octal digits have no alternative spelling: `peek` saw the raw character -/
theorem peek1_raw_of_letter {rest : List Char} {off : Nat} {t : Char} {k : Nat}
    (h : peek1 rest off = some (t, k)) (ht : t = 'x' ∨ isOctal t = true) :
    k = 1 ∧ (rest.drop off).head? = some t := by
  unfold peek1 at h
  have bad : ∀ (tbl : List (String × String)) (key : String) (v : String),
      (∀ p ∈ tbl, spellOK p = true) → assoc tbl key = some v → v.toList.head? = some t → False := by
    intro tbl key v hall hv hhead
    have := hall _ (assoc_mem hv)
    unfold spellOK at this
    simp only [hhead] at this
    rcases ht with rfl | ho
    · simp at this
    · simp [ho] at this
  split at h
  · rename_i t' ht'
    simp only [Option.some.injEq, Prod.mk.injEq] at h
    obtain ⟨rfl, rfl⟩ := h
    exfalso
    unfold triAt at ht'
    split at ht'
    · simp only [Option.bind_eq_some_iff] at ht'
      obtain ⟨v, hv, hhead⟩ := ht'
      exact bad _ _ v (fun p hp => spellings_not_x_octal p (List.mem_append_left _ hp)) hv hhead
    · cases ht'
  · split at h
    · rename_i d hd
      simp only [Option.some.injEq, Prod.mk.injEq] at h
      obtain ⟨rfl, rfl⟩ := h
      exfalso
      unfold diAt at hd
      split at hd
      · simp only [Option.bind_eq_some_iff] at hd
        obtain ⟨v, hv, hhead⟩ := hd
        exact bad _ _ v (fun p hp => spellings_not_x_octal p (List.mem_append_right _ hp)) hv hhead
      · cases hd
    · split at h
      · rename_i c0 tl heq
        simp only [Option.some.injEq, Prod.mk.injEq] at h
        obtain ⟨rfl, rfl⟩ := h
        exact ⟨rfl, by simp [heq]⟩
      · cases h

theorem escape_den (tabs : Bool) (s : LexSt) (sz : Nat) (t : Char) (k : Nat)
    (hp : peek1 s.rest 0 = some ('\\', sz)) (hq : peek1 s.rest sz = some (t, k)) :
    Den tabs (s.line, s.col) (s.rest.take (escape s sz t k).2.1) (escape s sz t k).1 := by
  obtain ⟨hsz1, hszlen, _⟩ := peek1_spec hp
  simp only [Nat.zero_add] at hszlen
  have hA := peek1_den hp tabs s.col
  simp only [List.drop_zero] at hA
  have hB := fun col => peek1_den hq tabs col
  have htakek : s.rest.take (sz + k) = s.rest.take sz ++ (s.rest.drop sz).take k := List.take_add
  -- backslash spelling, then the spelling of `t`
  have two : Den tabs (s.line, s.col) (s.rest.take (sz + k)) ['\\', t] := by
    rw [htakek]
    exact Den.cons _ _ ['\\'] _ [t] hA (Den.single (hB _))
  -- backslash spelling, then a raw `x`
  have bx : t = 'x' → Den tabs (s.line, s.col) (s.rest.take (sz + 1)) ['\\', 'x'] := by
    intro htx
    obtain ⟨hk, hhead⟩ := peek1_raw_of_letter hq (Or.inl htx)
    subst htx
    rw [take_succ_of_head hhead]
    exact Den.cons _ _ ['\\'] _ ['x'] hA (Den.single (Den1.plain 'x'))
  unfold escape
  simp only
  split
  · exact two
  · split
    · rename_i _ hx
      have htx : t = 'x' := by simpa using hx
      simp only [takeWhileFrom]
      by_cases hds : ((s.rest.drop (sz + 1)).takeWhile isHexDigit).isEmpty = true
      · simp only [hds, ↓reduceIte]
        exact bx htx
      · simp only [hds, Bool.false_eq_true, ↓reduceIte]
        have hpre : (s.rest.drop (sz + 1)).takeWhile isHexDigit <+: s.rest.drop (sz + 1) := List.takeWhile_prefix _
        rw [take_add_prefix hpre]
        have := Den.append (bx htx) (Den.plain tabs _ ((s.rest.drop (sz + 1)).takeWhile isHexDigit))
        simpa using this
    · split
      · simp only [takeWhileFrom]
        have hpre : (s.rest.drop sz).takeWhile isOctal <+: s.rest.drop sz := List.takeWhile_prefix _
        rw [take_add_prefix hpre]
        have := Den.cons (tabs := tabs) (s.line, s.col) _ ['\\'] _ _ hA (Den.plain tabs _ ((s.rest.drop sz).takeWhile isOctal))
        simpa using this
      · exact two

end Norm

namespace Norm
open Spec

theorem Content.snoc {tabs : Bool} {s t u : LexSt} {n m : Nat} {o1 o2 : List Char}
    (f1 : FollowsN n s t) (hu : u.pos = t.pos + m)
    (c1 : Content tabs s t o1) (d2 : Den tabs (t.line, t.col) (t.rest.take m) o2) :
    Content tabs s u (o1 ++ o2) := by
  unfold Content at *
  rw [f1.pos_sub] at c1
  obtain ⟨_, hrest, hpos, hlc, _⟩ := f1
  rw [show u.pos - s.pos = n + m by omega]
  have hsplit : s.rest.take (n + m) = s.rest.take n ++ (s.rest.drop n).take m := by rw [List.take_add]
  rw [hsplit]
  apply Den.append c1
  rw [← hlc, ← hrest]; exact d2

/-! ### one `pop` -/

theorem finishPop_pos (us : Bool) (s : LexSt) (e : List Char × Nat × List Diag × Nat) :
    (finishPop us s e).1.pos = s.pos + e.2.1 := by
  unfold finishPop
  simp only
  split
  · simp [advance]
  · split <;> simp [advance]

theorem finishPop_den (us : Bool) (s : LexSt) (e : List Char × Nat × List Diag × Nat)
    (hden : Den us (s.line, s.col) (s.rest.take e.2.1) e.1)
    (htab : e.1 = ['\t'] → s.rest.take e.2.1 = ['\t']) (cs : List Char)
    (h : (finishPop us s e).2 = some cs) : Den us (s.line, s.col) (s.rest.take e.2.1) cs := by
  unfold finishPop at h
  simp only at h
  split at h
  · simp only [Option.some.injEq] at h; subst h; exact hden
  · split at h
    · rename_i _ ht
      simp only [Option.some.injEq] at h
      have het : e.1 = ['\t'] := by simpa using ht
      rw [htab het]
      cases hus : us with
      | true =>
        simp only [hus, ↓reduceIte] at h
        subst h
        exact Den.single (Den1.tab rfl)
      | false =>
        simp only [hus, Bool.false_eq_true, ↓reduceIte] at h
        subst h
        rw [het]
        exact Den.single (Den1.plain '\t')
    · simp only [Option.some.injEq] at h; subst h; exact hden

theorem escOf_den (us ue : Bool) (s : LexSt) (c : Char) (sz : Nat) (hp : peek1 s.rest 0 = some (c, sz)) :
    Den us (s.line, s.col) (s.rest.take (escOf ue s c sz).2.1) (escOf ue s c sz).1 ∧
    ((escOf ue s c sz).1 = ['\t'] → s.rest.take (escOf ue s c sz).2.1 = ['\t']) := by
  have plain : Den us (s.line, s.col) (s.rest.take sz) [c] ∧ ([c] = ['\t'] → s.rest.take sz = ['\t']) := by
    have hd := peek1_den hp us s.col
    simp only [List.drop_zero] at hd
    refine ⟨Den.single hd, ?_⟩
    intro hc
    have hct : c = '\t' := by simpa using hc
    subst hct
    obtain ⟨hsz, hhead⟩ := peek1_ws hp (Or.inr rfl)
    subst hsz
    have := take_succ_of_head (n := 0) (by simpa using hhead)
    simpa using this
  unfold escOf
  split
  · rename_i hc
    simp only [Bool.and_eq_true, beq_iff_eq] at hc
    obtain ⟨rfl, _⟩ := hc
    split
    · rename_i t k hq
      split
      · refine ⟨escape_den us s sz t k hp hq, ?_⟩
        intro he
        have := escape_head s sz t k
        rw [he] at this
        simp at this
      · exact plain
    · exact plain
  · exact plain

/-- **What `pop` returns is a reading of the raw characters it consumed.** -/
theorem popOne_content (us ue : Bool) (s : LexSt) (cs : List Char) (h : (popOne us ue s).2 = some cs) :
    Content us s (popOne us ue s).1 cs := by
  obtain ⟨i1, i2, _⟩ := spliceLoop_spec (s.rest.length + 1) s
  have c1 := spliceLoop_content us (s.rest.length + 1) s
  unfold popOne at h ⊢
  cases hsl : spliceLoop (s.rest.length + 1) s with
  | mk s1 r =>
    rw [hsl] at i1 i2 c1 h
    simp only at i1 i2 c1 h ⊢
    cases r with
    | none => simp at h
    | some p =>
      obtain ⟨c, sz⟩ := p
      simp only at h ⊢
      have hp := i2 c sz rfl
      obtain ⟨hden, htab⟩ := escOf_den us ue s1 c sz hp
      have hd := finishPop_den us s1 (escOf ue s1 c sz) hden htab cs h
      obtain ⟨n, f1⟩ := i1
      have := Content.snoc f1 (finishPop_pos us s1 (escOf ue s1 c sz)) c1 hd
      simpa using this

end Norm
