/- Character constants whose character is an octal or a hexadecimal escape sequence (C11 6.4.4.4). -/
import NormModel.Proofs.CharString
namespace Norm
open Spec

theorem takeWhile_append_stop (p : Char → Bool) (ds tl : List Char) (q : Char) (hd : ∀ c ∈ ds, p c = true) (hq : p q = false) :
    (ds ++ q :: tl).takeWhile p = ds := by
  induction ds with
  | nil => simp [hq]
  | cons d ds ih =>
    simp only [List.cons_append, List.takeWhile_cons, hd d (by simp), ↓reduceIte]
    rw [ih (fun c hc => hd c (List.mem_cons_of_mem _ hc))]

/-- a character constant `pre ' \ esc '` where one `pop` takes the whole escape -/
theorem char_esc_gen (u : Uni) (pre : String) (hp : pre ∈ litPrefixes) (esc rest : List Char) (s : LexSt)
    (hr : s.rest = pre.toList ++ '\'' :: '\\' :: (esc ++ '\'' :: rest))
    (H : ∀ s0 : LexSt, s0.rest = '\\' :: (esc ++ '\'' :: rest) →
      (popOne false true s0).2 = some ('\\' :: esc) ∧ (popOne false true s0).1.rest = '\'' :: rest ∧
      (popOne false true s0).1.diags = s0.diags) :
    ∃ s' t, trySubLexers u s = .ok (some (s', t)) ∧ t.type = "CHAR_CONST" ∧
      t.value = some (String.ofList (pre.toList ++ '\'' :: '\\' :: (esc ++ ['\'']))) ∧ t.line = s.line ∧ t.col = s.col ∧
      s'.rest = rest ∧ s'.diags = s.diags := by
  obtain ⟨hplain, c0, tl0, h0, hd0, hdot0⟩ := litPrefix_facts u pre hp '\'' (Or.inl rfl) ('\\' :: (esc ++ '\'' :: rest))
  obtain ⟨hf, hi⟩ := numeric_fail u s c0 tl0 (by rw [hr, h0]) hd0 hdot0
  obtain ⟨n1, n2, n3⟩ := popN_plain pre.toList ('\'' :: '\\' :: (esc ++ '\'' :: rest)) s hr hplain
  have hpc : ∃ s', parseChar s = some (s', mkTok "CHAR_CONST" s s' (some (pre.toList ++ '\'' :: '\\' :: (esc ++ ['\'']))))
      ∧ s'.rest = rest ∧ s'.diags = s.diags := by
    rw [parseChar_eq, hr, quotePrefix_lit pre hp '\'' (Or.inl rfl)]
    simp only
    cases hpn : popN pre.toList.length s with
    | mk s1 r1 =>
      rw [hpn] at n1 n2 n3
      simp only at n1 n2 n3
      subst n1
      simp only
      have hrp : (rawPeek s1.rest != some ['\'']) = false := by rw [n2]; simp [rawPeek]
      simp only [hrp, Bool.false_eq_true, ↓reduceIte]
      have hq1 := popOne_peeked false false s1 '\'' ('\\' :: (esc ++ '\'' :: rest)) n2
        (by rw [n2]; exact peek1_raw (by decide) (by decide) (by decide) (by decide)) (by decide) (by decide) (by decide)
      rw [hq1]
      simp only
      -- the body: the escape, then the closing quote
      obtain ⟨e1, e2, e3⟩ := H { s1 with rest := '\\' :: (esc ++ '\'' :: rest), pos := s1.pos + 1, col := s1.col + 1 } rfl
      have hfuel : ('\\' :: (esc ++ '\'' :: rest)).length + 1 = (esc.length + rest.length) + 1 + 1 + 1 := by simp; omega
      rw [hfuel]
      unfold charLoop
      cases hpo : popOne false true { s1 with rest := '\\' :: (esc ++ '\'' :: rest), pos := s1.pos + 1, col := s1.col + 1 } with
      | mk s3 r3 =>
        rw [hpo] at e1 e2 e3
        simp only at e1 e2 e3
        subst e1
        simp only [show (('\\' :: esc) == ['\n']) = false by simp, show (('\\' :: esc) == ['\'']) = false by simp,
          Bool.false_eq_true, ↓reduceIte]
        unfold charLoop
        have hq3 := popOne_peeked false true s3 '\'' rest e2
          (by rw [e2]; exact peek1_raw (by decide) (by decide) (by decide) (by decide)) (by decide) (by decide) (by decide)
        rw [hq3]
        simp only [show (['\''] == ['\n']) = false by decide, show (['\''] == ['\'']) = true by decide,
          Bool.false_eq_true, ↓reduceIte]
        refine ⟨{ s3 with rest := rest, pos := s3.pos + 1, col := s3.col + 1 }, ?_, rfl, by simpa using e3.trans n3⟩
        simp [charFin, endsWithTwoQuotes, List.append_assoc]
  obtain ⟨s', h1, h2, h3⟩ := hpc
  refine ⟨s', mkTok "CHAR_CONST" s s' (some (pre.toList ++ '\'' :: '\\' :: (esc ++ ['\'']))), ?_, rfl, rfl, rfl, rfl, h2, h3⟩
  unfold trySubLexers
  rw [hf, hi, h1]

theorem octal_not_simple : ∀ c ∈ Generated.octalDigits.toList, simpleEscapes.contains c = false ∧ c ≠ 'x' ∧ c ≠ '\n' ∧
    c ≠ '?' ∧ c ≠ '<' ∧ c ≠ '%' ∧ c ≠ ':' := by decide

/-- one `pop` (escapes on) at `\` + octal digits + quote takes the whole escape -/
theorem popOne_octal_escape (ds tl : List Char) (hne : ds ≠ []) (hd : ∀ c ∈ ds, isOctal c = true) (s : LexSt)
    (hr : s.rest = '\\' :: (ds ++ '\'' :: tl)) :
    (popOne false true s).2 = some ('\\' :: ds) ∧ (popOne false true s).1.rest = '\'' :: tl ∧
    (popOne false true s).1.diags = s.diags := by
  cases ds with
  | nil => exact absurd rfl hne
  | cons d ds' =>
    have hdo : isOctal d = true := hd d (by simp)
    obtain ⟨o1, o2, o3, o4, o5, o6, o7⟩ := octal_not_simple d (by simpa [isOctal] using hdo)
    have hp0 : peek1 s.rest 0 = some ('\\', 1) := by
      rw [hr]; exact peek1_raw (by decide) (by decide) (by decide) (by decide)
    have hp1 : peek1 s.rest 1 = some (d, 1) := by
      rw [peek1_off, hr]
      exact peek1_raw o4 o5 o6 o7
    have hs : spliceLoop (s.rest.length + 1) s = (s, some ('\\', 1)) := by
      unfold spliceLoop
      simp only [hp0, hp1]
      have : (d != '\n') = true := by simp [o3]
      simp [this]
    have htw : takeWhileFrom s.rest 1 isOctal = d :: ds' := by
      unfold takeWhileFrom
      rw [hr]
      exact takeWhile_append_stop isOctal (d :: ds') tl '\'' hd (by decide)
    have hesc : escOf true s '\\' 1 = ('\\' :: d :: ds', 1 + (d :: ds').length, [], 0) := by
      unfold escOf
      simp only [beq_self_eq_true, Bool.and_self, ↓reduceIte, hp1]
      have : (d != '\n') = true := by simp [o3]
      simp only [this, ↓reduceIte]
      unfold escape
      have hx : (d == 'x') = false := by simp [o2]
      simp only [o1, hx, hdo, Bool.false_eq_true, ↓reduceIte, htw]
    unfold popOne
    rw [hs]
    simp only
    rw [hesc]
    unfold finishPop
    simp [advance, hr]
    have : 1 + (ds'.length + 1) = ds'.length + 2 := by omega
    rw [this]
    simp

/-- **`pre ' \ooo '`**: a character constant whose character is an octal escape sequence becomes one CHAR_CONST token
spanning exactly the constant, with no lexical diagnostic. -/
theorem char_octal_valid (u : Uni) (pre : String) (hp : pre ∈ litPrefixes) (ds : List Char) (hne : ds ≠ [])
    (hd : ∀ c ∈ ds, isOctal c = true) (rest : List Char) (s : LexSt)
    (hr : s.rest = pre.toList ++ '\'' :: '\\' :: (ds ++ '\'' :: rest)) :
    ∃ s' t, trySubLexers u s = .ok (some (s', t)) ∧ t.type = "CHAR_CONST" ∧
      t.value = some (String.ofList (pre.toList ++ '\'' :: '\\' :: (ds ++ ['\'']))) ∧ t.line = s.line ∧ t.col = s.col ∧
      s'.rest = rest ∧ s'.diags = s.diags :=
  char_esc_gen u pre hp ds rest s hr (fun s0 h0 => popOne_octal_escape ds rest hne hd s0 h0)

/-- one `pop` (escapes on) at `\x` + hexadecimal digits + quote takes the whole escape -/
theorem popOne_hex_escape (ds tl : List Char) (hne : ds ≠ []) (hd : ∀ c ∈ ds, isHexDigit c = true) (s : LexSt)
    (hr : s.rest = '\\' :: ('x' :: ds ++ '\'' :: tl)) :
    (popOne false true s).2 = some ('\\' :: 'x' :: ds) ∧ (popOne false true s).1.rest = '\'' :: tl ∧
    (popOne false true s).1.diags = s.diags := by
  have hp0 : peek1 s.rest 0 = some ('\\', 1) := by
    rw [hr]; exact peek1_raw (by decide) (by decide) (by decide) (by decide)
  have hp1 : peek1 s.rest 1 = some ('x', 1) := by
    rw [peek1_off, hr]
    exact peek1_raw (by decide) (by decide) (by decide) (by decide)
  have hs : spliceLoop (s.rest.length + 1) s = (s, some ('\\', 1)) := by
    unfold spliceLoop
    simp only [hp0, hp1]
    simp
  have htw : takeWhileFrom s.rest (1 + 1) isHexDigit = ds := by
    unfold takeWhileFrom
    rw [hr]
    exact takeWhile_append_stop isHexDigit ds tl '\'' hd (by decide)
  have hemp : ds.isEmpty = false := by cases ds with
    | nil => exact absurd rfl hne
    | cons _ _ => rfl
  have hesc : escOf true s '\\' 1 = (['\\', 'x'] ++ ds, 1 + 1 + ds.length, [], 0) := by
    unfold escOf
    simp only [beq_self_eq_true, Bool.and_self, ↓reduceIte, hp1]
    simp only [show (('x' : Char) != '\n') = true by decide, ↓reduceIte]
    unfold escape
    simp only [show simpleEscapes.contains 'x' = false by decide, Bool.false_eq_true, ↓reduceIte, beq_self_eq_true, htw, hemp]
  unfold popOne
  rw [hs]
  simp only
  rw [hesc]
  unfold finishPop
  have e1 : ((['\\', 'x'] ++ ds) == ['\n']) = false := by simp
  have e2 : ((['\\', 'x'] ++ ds) == ['\t']) = false := by simp
  simp only [e1, e2, Bool.false_eq_true, ↓reduceIte]
  simp [advance, hr]
  have : 2 + ds.length = ds.length + 2 := by omega
  rw [this]
  simp

/-- **`pre ' \xh… '`**: a character constant whose character is a hexadecimal escape sequence — with ANY number of
hexadecimal digits, as C11 6.4.4.4 says — becomes one CHAR_CONST token spanning exactly the constant, with no lexical
diagnostic. (The pinned code took two digits at most and reported `'\x041'` as several characters.) -/
theorem char_hex_valid (u : Uni) (pre : String) (hp : pre ∈ litPrefixes) (ds : List Char) (hne : ds ≠ [])
    (hd : ∀ c ∈ ds, isHexDigit c = true) (rest : List Char) (s : LexSt)
    (hr : s.rest = pre.toList ++ '\'' :: '\\' :: ('x' :: ds ++ '\'' :: rest)) :
    ∃ s' t, trySubLexers u s = .ok (some (s', t)) ∧ t.type = "CHAR_CONST" ∧
      t.value = some (String.ofList (pre.toList ++ '\'' :: '\\' :: ('x' :: ds ++ ['\'']))) ∧ t.line = s.line ∧ t.col = s.col ∧
      s'.rest = rest ∧ s'.diags = s.diags :=
  char_esc_gen u pre hp ('x' :: ds) rest s hr (fun s0 h0 => popOne_hex_escape ds rest hne hd s0 h0)

end Norm
