/- Helper lemmas for C04 / C15. -/
import NormModel.Model.Cli
import NormModel.Proofs.Reports
namespace Norm

theorem humanDoc_shape {fs : List FileRep} {doc : List ShownFile} (h : humanDoc fs = some doc) :
    doc.map (·.basename) = fs.map (·.basename) ∧
    doc.map (·.status) = fs.map (fun f => status f.diags) ∧
    doc.map (fun g => g.diags.length) = fs.map (fun f => f.diags.length) := by
  unfold humanDoc at h
  rw [allSome_eq_some] at h
  induction fs generalizing doc with
  | nil => cases doc <;> simp_all
  | cons f fs ih =>
    cases doc with
    | nil => simp at h
    | cons g doc =>
      simp only [List.map_cons, List.cons.injEq] at h
      obtain ⟨ih1, ih2, ih3⟩ := ih h.2
      have hg := h.1
      unfold shownFile? at hg
      simp only [Option.map_eq_some_iff] at hg
      obtain ⟨ds, hds, rfl⟩ := hg
      rw [allSome_eq_some] at hds
      have hlen : ds.length = f.diags.length := by
        have := congrArg List.length hds
        simp at this
        rw [← this]
        exact (sortBy_perm Diag.le f.diags).length_eq
      simp [ih1, ih2, ih3, hlen]

theorem humanDoc_some_of_hasHl (fs : List FileRep) (h : ∀ f ∈ fs, ∀ d ∈ f.diags, HasHl d) :
    ∃ doc, humanDoc fs = some doc := by
  unfold humanDoc
  apply allSome_isSome_of
  intro x hx
  obtain ⟨f, hf, rfl⟩ := List.mem_map.mp hx
  unfold shownFile?
  have : ∃ r, allSome ((sortDiags f.diags).map shownDiag?) = some r := by
    apply allSome_isSome_of
    intro y hy
    obtain ⟨d, hd, rfl⟩ := List.mem_map.mp hy
    exact shownDiag?_isSome (h f hf d (mem_sortBy.mp hd))
  obtain ⟨r, hr⟩ := this
  simp [hr]

theorem firstFatal_none_iff (fs : List CliFile) :
    firstFatal fs = none ↔ ∀ f ∈ fs, ∃ ds, f.outcome = .analysed ds := by
  induction fs with
  | nil => simp [firstFatal]
  | cons f fs ih =>
    unfold firstFatal
    cases h : f.outcome with
    | fatal m => simp [h]
    | analysed ds => simp [h, ih]

theorem firstFatal_some {fs : List CliFile} {p m : String} (h : firstFatal fs = some (p, m)) :
    ∃ pre f post, fs = pre ++ f :: post ∧ f.path = p ∧ f.outcome = .fatal m ∧
      ∀ g ∈ pre, ∃ ds, g.outcome = .analysed ds := by
  induction fs with
  | nil => simp [firstFatal] at h
  | cons f fs ih =>
    unfold firstFatal at h
    cases ho : f.outcome with
    | fatal m' =>
      simp [ho] at h
      exact ⟨[], f, fs, rfl, h.1, by rw [ho, h.2], by simp⟩
    | analysed ds =>
      simp [ho] at h
      obtain ⟨pre, g, post, e, h1, h2, h3⟩ := ih h
      refine ⟨f :: pre, g, post, by simp [e], h1, h2, ?_⟩
      intro x hx
      rcases List.mem_cons.mp hx with rfl | hx
      · exact ⟨ds, ho⟩
      · exact h3 x hx

theorem exitOf_zero_iff (fs : List CliFile) :
    exitOf fs = 0 ↔ ∀ f ∈ fs, status f.diags = .ok := by
  unfold exitOf
  split
  · rename_i h
    simp only [Nat.succ_ne_zero, false_iff]
    intro hall
    obtain ⟨f, hf, hs⟩ := List.any_eq_true.mp h
    have := hall f hf
    simp [this] at hs
  · rename_i h
    simp only [true_iff]
    intro f hf
    cases hs : status f.diags with
    | ok => rfl
    | error =>
      exfalso; apply h
      exact List.any_eq_true.mpr ⟨f, hf, by simp [hs]⟩

theorem exitOf_le_one (fs : List CliFile) : exitOf fs ≤ 1 := by
  unfold exitOf; split <;> omega

end Norm
