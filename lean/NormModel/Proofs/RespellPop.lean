/- Reading equivalence through `pop`: the splice loop, escapes, and one `pop` give the same characters in two
texts that read the same (a tab expanded to blanks excepted, whose width depends on the column). -/
import NormModel.Proofs.RespellRaw
namespace Norm
open Spec

/-- two outcomes of the splice loop: both at the end of input, or both stopped on the same character -/
def SpliceSim (r r' : Option (Char × Nat)) : Prop :=
  (r = none ∧ r' = none) ∨ ∃ c ka kb, r = some (c, ka) ∧ r' = some (c, kb)

theorem spliceLoop_readEq (fa : Nat) : ∀ (fb : Nat) (s t : LexSt), s.rest.length < fa → t.rest.length < fb →
    ReadEq s.rest t.rest →
    ReadEq (spliceLoop fa s).1.rest (spliceLoop fb t).1.rest ∧ SpliceSim (spliceLoop fa s).2 (spliceLoop fb t).2 := by
  induction fa with
  | zero => intro fb s t h; omega
  | succ fa ih =>
    intro fb s t hfa hfb h
    cases fb with
    | zero => omega
    | succ fb =>
      unfold spliceLoop
      rcases h.peek with ⟨h1, h2, _, _⟩ | ⟨c, ka, kb, h1, h2, h3⟩
      · rw [h1, h2]; exact ⟨h, Or.inl ⟨rfl, rfl⟩⟩
      · rw [h1, h2]
        simp only
        by_cases hc : c = '\\'
        · subst hc
          simp only [bne_self_eq_false, Bool.false_eq_true, ↓reduceIte]
          rw [peek1_off s.rest ka, peek1_off t.rest kb]
          rcases h3.peek with ⟨g1, g2, _, _⟩ | ⟨d, ja, jb, g1, g2, g3⟩
          · rw [g1, g2]; exact ⟨h, Or.inr ⟨_, _, _, rfl, rfl⟩⟩
          · rw [g1, g2]
            simp only
            by_cases hd : d = '\n'
            · subst hd
              simp only [bne_self_eq_false, Bool.false_eq_true, ↓reduceIte]
              obtain ⟨e1, _⟩ := peek1_ws g1 (Or.inl rfl)
              obtain ⟨e2, _⟩ := peek1_ws g2 (Or.inl rfl)
              subst e1; subst e2
              obtain ⟨ka1, _, _⟩ := peek1_spec h1
              obtain ⟨kb1, _, _⟩ := peek1_spec h2
              apply ih
              · simp only [advance, List.length_drop]; omega
              · simp only [advance, List.length_drop]; omega
              · simp only [advance]
                rw [← List.drop_drop, ← List.drop_drop]
                exact g3
            · have : (d != '\n') = true := by simp [hd]
              simp only [this, ↓reduceIte]
              exact ⟨h, Or.inr ⟨_, _, _, rfl, rfl⟩⟩
        · have : (c != '\\') = true := by simp [hc]
          simp only [this, ↓reduceIte]
          exact ⟨h, Or.inr ⟨_, _, _, rfl, rfl⟩⟩

theorem ReadEq.step_inv {a b : List Char} {c c' : Char} {ka kb : Nat} (h : ReadEq a b)
    (h1 : peek1 a 0 = some (c, ka)) (h2 : peek1 b 0 = some (c', kb)) : c = c' ∧ ReadEq (a.drop ka) (b.drop kb) := by
  rcases h.peek with ⟨g1, _, _, _⟩ | ⟨d, ja, jb, g1, g2, g3⟩
  · rw [h1] at g1; cases g1
  · rw [h1] at g1; rw [h2] at g2
    simp only [Option.some.injEq, Prod.mk.injEq] at g1 g2
    obtain ⟨rfl, rfl⟩ := g1
    obtain ⟨rfl, rfl⟩ := g2
    exact ⟨rfl, g3⟩

theorem hex_plain : ∀ c, isHexDigit c = true → Plain c := by
  intro c hc
  have : ∀ c ∈ Generated.hexadecimalDigits.toList, Plain c := by decide
  exact this c (by simpa [isHexDigit] using hc)

theorem octal_plain : ∀ c, isOctal c = true → Plain c := by
  intro c hc
  have : ∀ c ∈ Generated.octalDigits.toList, Plain c := by decide
  exact this c (by simpa [isOctal] using hc)

theorem mem_takeWhile_pred {p : Char → Bool} {l : List Char} {c : Char} (h : c ∈ l.takeWhile p) : p c = true := by
  induction l with
  | nil => simp at h
  | cons x l ih =>
    by_cases hx : p x = true
    · simp only [List.takeWhile_cons, hx, ↓reduceIte, List.mem_cons] at h
      rcases h with rfl | h
      · exact hx
      · exact ih h
    · simp [hx] at h

theorem takeWhile_take (p : Char → Bool) (n : Nat) (l : List Char) : (l.take n).takeWhile p = (l.takeWhile p).take n := by
  induction l generalizing n with
  | nil => simp
  | cons x l ih =>
    cases n with
    | zero => simp
    | succ n =>
      by_cases hx : p x = true
      · simp [hx, ih]
      · simp [hx]

theorem take_prefix_of_takeWhile (p : Char → Bool) (n : Nat) (l : List Char) :
    ∃ r, l = (l.takeWhile p).take n ++ r ∧ l.drop ((l.takeWhile p).take n).length = r := by
  refine ⟨l.drop ((l.takeWhile p).take n).length, ?_, rfl⟩
  have hpre : (l.takeWhile p).take n <+: l := (List.take_prefix _ _).trans (List.takeWhile_prefix p)
  have := List.prefix_iff_eq_take.mp hpre
  conv => lhs; rw [← List.take_append_drop ((l.takeWhile p).take n).length l]
  rw [← this]

/-- the escape handling reads the same escape in both texts -/
theorem escape_readEq (s t : LexSt) (ka kb : Nat) (e : Char) (ja jb : Nat)
    (h3 : ReadEq (s.rest.drop ka) (t.rest.drop kb))
    (g1 : peek1 (s.rest.drop ka) 0 = some (e, ja)) (g2 : peek1 (t.rest.drop kb) 0 = some (e, jb)) :
    (escape s ka e ja).1 = (escape t kb e jb).1 ∧
    ReadEq (s.rest.drop (escape s ka e ja).2.1) (t.rest.drop (escape t kb e jb).2.1) := by
  obtain ⟨_, g3⟩ := h3.step_inv g1 g2
  have two : ReadEq (s.rest.drop (ka + ja)) (t.rest.drop (kb + jb)) := by
    rw [← List.drop_drop, ← List.drop_drop]; exact g3
  unfold escape
  by_cases hs : simpleEscapes.contains e = true
  · simp only [hs, ↓reduceIte]; exact ⟨by first | rfl | trivial, two⟩
  · simp only [hs, Bool.false_eq_true, ↓reduceIte]
    by_cases hx : e = 'x'
    · subst hx
      simp only [beq_self_eq_true, ↓reduceIte]
      have hpx : Plain 'x' := by decide
      obtain ⟨rfl, _, ea⟩ := peek1_unspelled g1 hpx.1
      obtain ⟨rfl, _, eb⟩ := peek1_unspelled g2 hpx.1
      -- the text after `\\x`: the run of hexadecimal digits is the same raw text
      unfold takeWhileFrom
      obtain ⟨k1, k2⟩ := takeWhile_readEq isHexDigit hex_plain two
      rw [k1]
      by_cases hds : ((t.rest.drop (kb + 1)).takeWhile isHexDigit).isEmpty = true
      · simp only [hds, ↓reduceIte]
        exact ⟨by first | rfl | trivial, two⟩
      · simp only [hds, Bool.false_eq_true, ↓reduceIte]
        refine ⟨by first | rfl | trivial, ?_⟩
        rw [← List.drop_drop, ← List.drop_drop (j := kb + 1), drop_takeWhile_length, ← k1, drop_takeWhile_length]
        exact k2
    · have hx' : (e == 'x') = false := by simp [hx]
      simp only [hx', Bool.false_eq_true, ↓reduceIte]
      by_cases ho : isOctal e = true
      · simp only [ho, ↓reduceIte]
        unfold takeWhileFrom
        obtain ⟨k1, k2⟩ := takeWhile_readEq isOctal octal_plain h3
        refine ⟨by rw [k1], ?_⟩
        rw [← List.drop_drop, ← List.drop_drop (j := kb), drop_takeWhile_length, drop_takeWhile_length]
        exact k2
      · simp only [ho, Bool.false_eq_true, ↓reduceIte]
        exact ⟨by first | rfl | trivial, two⟩

theorem escOf_readEq (ue : Bool) (s t : LexSt) (c : Char) (ka kb : Nat) (h : ReadEq s.rest t.rest)
    (h1 : peek1 s.rest 0 = some (c, ka)) (h2 : peek1 t.rest 0 = some (c, kb)) :
    (escOf ue s c ka).1 = (escOf ue t c kb).1 ∧
    ReadEq (s.rest.drop (escOf ue s c ka).2.1) (t.rest.drop (escOf ue t c kb).2.1) := by
  obtain ⟨_, h3⟩ := h.step_inv h1 h2
  unfold escOf
  by_cases hb : (c == '\\' && ue) = true
  · simp only [hb, ↓reduceIte]
    rw [peek1_off s.rest ka, peek1_off t.rest kb]
    rcases h3.peek with ⟨g1, g2, _, _⟩ | ⟨e, ja, jb, g1, g2, g3⟩
    · rw [g1, g2]; exact ⟨rfl, h3⟩
    · rw [g1, g2]
      simp only
      by_cases hn : e = '\n'
      · subst hn
        simp only [bne_self_eq_false, Bool.false_eq_true, ↓reduceIte]
        exact ⟨by first | rfl | trivial, h3⟩
      · have : (e != '\n') = true := by simp [hn]
        simp only [this, ↓reduceIte]
        exact escape_readEq s t ka kb e ja jb h3 g1 g2
  · simp only [hb, Bool.false_eq_true, ↓reduceIte]
    exact ⟨by first | rfl | trivial, h3⟩

theorem finishPop_rest (us : Bool) (s : LexSt) (e : List Char × Nat × List Diag × Nat) :
    (finishPop us s e).1.rest = s.rest.drop e.2.1 := by
  unfold finishPop
  simp only
  split
  · simp [advance]
  · split <;> simp [advance]

theorem finishPop_val (us : Bool) (s : LexSt) (e : List Char × Nat × List Diag × Nat) :
    (finishPop us s e).2 = some (if e.1 == ['\t'] && us then List.replicate (4 - (s.col - 1) % 4) ' ' else e.1) := by
  unfold finishPop
  simp only
  by_cases h1 : (e.1 == ['\n']) = true
  · have h2 : (e.1 == ['\t']) = false := by
      have : e.1 = ['\n'] := by simpa using h1
      rw [this]; decide
    simp [h1, h2]
  · simp only [h1, Bool.false_eq_true, ↓reduceIte]
    by_cases h2 : (e.1 == ['\t']) = true
    · simp only [h2, ↓reduceIte, Bool.true_and]
    · simp [h2]

/-- what two `pop`s have in common: the same characters — or, with `use_spaces`, two runs of blanks (an expanded tab) -/
def PopSim (us : Bool) : Option (List Char) → Option (List Char) → Prop
  | none, none => True
  | some v, some w => v = w ∨ (us = true ∧ (∃ n, 1 ≤ n ∧ v = List.replicate n ' ') ∧ (∃ m, 1 ≤ m ∧ w = List.replicate m ' '))
  | _, _ => False

/-- **One `pop` reads the same in both texts** (splices skipped, escapes taken whole). -/
theorem popOne_readEq (us ue : Bool) (s t : LexSt) (h : ReadEq s.rest t.rest) :
    ReadEq (popOne us ue s).1.rest (popOne us ue t).1.rest ∧ PopSim us (popOne us ue s).2 (popOne us ue t).2 := by
  obtain ⟨hr, hs⟩ := spliceLoop_readEq (s.rest.length + 1) (t.rest.length + 1) s t (by omega) (by omega) h
  obtain ⟨_, pa, _⟩ := spliceLoop_spec (s.rest.length + 1) s
  obtain ⟨_, pb, _⟩ := spliceLoop_spec (t.rest.length + 1) t
  unfold popOne
  cases hsa : spliceLoop (s.rest.length + 1) s with
  | mk s' ra =>
    cases hsb : spliceLoop (t.rest.length + 1) t with
    | mk t' rb =>
      rw [hsa] at hr hs pa
      rw [hsb] at hr hs pb
      simp only at hr hs pa pb
      rcases hs with ⟨rfl, rfl⟩ | ⟨c, ka, kb, rfl, rfl⟩
      · exact ⟨hr, trivial⟩
      · simp only
        have p1 := pa c ka rfl
        have p2 := pb c kb rfl
        obtain ⟨e1, e2⟩ := escOf_readEq ue s' t' c ka kb hr p1 p2
        refine ⟨by rw [finishPop_rest, finishPop_rest]; exact e2, ?_⟩
        rw [finishPop_val, finishPop_val]
        show PopSim us (some _) (some _)
        unfold PopSim
        rw [← e1]
        by_cases htab : ((escOf ue s' c ka).1 == ['\t'] && us) = true
        · simp only [htab, ↓reduceIte]
          right
          have : us = true := by
            simp only [Bool.and_eq_true] at htab; exact htab.2
          exact ⟨this, ⟨_, by omega, rfl⟩, ⟨_, by omega, rfl⟩⟩
        · simp only [htab, Bool.false_eq_true, ↓reduceIte]
          left; trivial

/-- without `use_spaces` the characters are the same -/
theorem popOne_readEq_ff (ue : Bool) (s t : LexSt) (h : ReadEq s.rest t.rest) :
    ReadEq (popOne false ue s).1.rest (popOne false ue t).1.rest ∧ (popOne false ue s).2 = (popOne false ue t).2 := by
  obtain ⟨h1, h2⟩ := popOne_readEq false ue s t h
  refine ⟨h1, ?_⟩
  cases ha : (popOne false ue s).2 with
  | none =>
    cases hb : (popOne false ue t).2 with
    | none => rfl
    | some w => rw [ha, hb] at h2; exact h2.elim
  | some v =>
    cases hb : (popOne false ue t).2 with
    | none => rw [ha, hb] at h2; exact h2.elim
    | some w =>
      rw [ha, hb] at h2
      rcases h2 with rfl | ⟨hf, _⟩
      · rfl
      · cases hf

end Norm
