/- Reading equivalence through every sub-lexer: the token has the same kind and the same value in both texts (the text
of a block comment excepted, whose tabs are expanded by column), and the texts left read the same again. -/
import NormModel.Proofs.RespellNum
namespace Norm
open Spec

/-- same kind; same value unless it is the text of a block comment; the texts left read the same -/
def TokSimC : Option (LexSt × Token) → Option (LexSt × Token) → Prop
  | none, none => True
  | some (s1, x), some (t1, y) => x.type = y.type ∧ (x.type ≠ "MULT_COMMENT" → x.value = y.value) ∧ ReadEq s1.rest t1.rest
  | _, _ => False

theorem TokSim.toC {x y : Option (LexSt × Token)} (h : TokSim x y) : TokSimC x y := by
  cases x with
  | none => cases y with
    | none => trivial
    | some q => exact h.elim
  | some p => cases y with
    | none => exact h.elim
    | some q =>
      obtain ⟨s1, a⟩ := p
      obtain ⟨t1, b⟩ := q
      exact ⟨h.1, fun _ => h.2.1, h.2.2⟩

theorem addDiag?_rest (s : LexSt) (d : Option Diag) : (s.addDiag? d).rest = s.rest := by
  cases d <;> rfl

theorem parseFloat_readEq (u : Uni) (s t : LexSt) (h : ReadEq s.rest t.rest) :
    TokSimC (parseFloat u s) (parseFloat u t) := by
  unfold parseFloat
  cases hs : s.rest with
  | nil =>
    rw [hs] at h
    rw [h.nil_left]; trivial
  | cons x xs =>
    cases ht : t.rest with
    | nil => rw [hs, ht] at h; have := h.nil_right; cases this
    | cons y ys =>
      simp only
      have hk := floatKey_readEq u s.line s.col t.line t.col h
      rw [hs, ht] at hk
      cases ha : floatLogic u s.line s.col (x :: xs) with
      | noMatch =>
        cases hb : floatLogic u t.line t.col (y :: ys) with
        | noMatch => trivial
        | tok m d => rw [ha, hb] at hk; cases hk
      | tok m d =>
        cases hb : floatLogic u t.line t.col (y :: ys) with
        | noMatch => rw [ha, hb] at hk; cases hk
        | tok m' d' =>
          rw [ha, hb] at hk
          simp only [floatKey, Option.some.injEq] at hk
          subst hk
          simp only
          have hr : ReadEq (s.addDiag? d).rest (t.addDiag? d').rest := by rw [addDiag?_rest, addDiag?_rest]; exact h
          obtain ⟨p1, p2⟩ := popN_readEq (m.const.length + m.exp.length + m.suf.length) _ _ hr
          cases hpa : popN (m.const.length + m.exp.length + m.suf.length) (s.addDiag? d) with
          | mk s2 r =>
            cases hpb : popN (m.const.length + m.exp.length + m.suf.length) (t.addDiag? d') with
            | mk t2 r' =>
              rw [hpa, hpb] at p1 p2
              simp only at p1 p2
              subst p2
              cases r with
              | none => trivial
              | some v => exact ⟨rfl, fun _ => rfl, p1⟩

theorem parseInt_readEq (u : Uni) (s t : LexSt) (h : ReadEq s.rest t.rest) :
    TokSimC (parseInt u s) (parseInt u t) := by
  unfold parseInt
  rw [matchInt_readEq u h]
  cases matchInt u t.rest with
  | none => trivial
  | some m =>
    simp only
    obtain ⟨p1, p2⟩ := popN_readEq (m.pre.length + m.const.length + m.suf.length) s t h
    cases hpa : popN (m.pre.length + m.const.length + m.suf.length) s with
    | mk s2 r =>
      cases hpb : popN (m.pre.length + m.const.length + m.suf.length) t with
      | mk t2 r' =>
        rw [hpa, hpb] at p1 p2
        simp only at p1 p2
        subst p2
        cases r with
        | none => trivial
        | some v => exact ⟨rfl, fun _ => rfl, p1⟩

/-! ### literal prefixes -/

theorem rawPeek_readEq_none {a b : List Char} (h : ReadEq a b) (n : Nat) : rawPeek a 0 n = none ↔ rawPeek b 0 n = none := by
  unfold rawPeek
  cases a with
  | nil => rw [h.nil_left]
  | cons x a' =>
    cases b with
    | nil => have := h.nil_right; cases this
    | cons y b' => simp

/-- the condition tested for one candidate prefix, as a statement about the text -/
theorem qp_cond_iff (q : Char) (rest pl : List Char) (hq : q ∉ pl) :
    (pl.isPrefixOf (rest.take (pl.length + 1)) = true ∧ (rest.take (pl.length + 1)).getLast? = some q) ↔
    ∃ tl, rest = pl ++ q :: tl := by
  constructor
  · rintro ⟨h1, h2⟩
    obtain ⟨p1, p2⟩ := qp_cond_spec q rest pl hq h1 h2
    obtain ⟨r, hr⟩ := List.isPrefixOf_iff_prefix.mp p1
    subst hr
    rw [List.getElem?_append_right (by omega)] at p2
    simp only [Nat.sub_self] at p2
    cases r with
    | nil => simp at p2
    | cons x xs =>
      simp only [List.getElem?_cons_zero, Option.some.injEq] at p2
      subst p2
      exact ⟨xs, rfl⟩
  · rintro ⟨tl, rfl⟩
    have : (pl ++ q :: tl).take (pl.length + 1) = pl ++ [q] := by
      have e : pl ++ q :: tl = (pl ++ [q]) ++ tl := by simp
      rw [e, List.take_left' (by simp)]
    rw [this]
    exact ⟨List.isPrefixOf_iff_prefix.mpr ⟨[q], rfl⟩, by simp⟩

theorem quote_plain {q : Char} (hq : q = '\'' ∨ q = '"') : Plain q := by
  rcases hq with rfl | rfl <;> decide

theorem quotePrefix_readEq (q : Char) (hq : q = '\'' ∨ q = '"') {a b : List Char} (h : ReadEq a b) :
    ∀ ps : List String, (∀ p ∈ ps, p ∈ Generated.quotePrefixes) → quotePrefix q a ps = quotePrefix q b ps := by
  intro ps
  induction ps with
  | nil => intro _; rfl
  | cons p ps ih =>
    intro hsub
    have htbl := quotePrefixes_tbl p (hsub p (by simp))
    have hqp : q ∉ p.toList := by rcases hq with rfl | rfl; exact htbl.1; exact htbl.2.1
    have hplain : ∀ c ∈ p.toList ++ [q], Plain c := by
      intro c hc
      rcases List.mem_append.mp hc with hc | hc
      · exact idChar_plain c (htbl.2.2.1 c hc)
      · simp only [List.mem_singleton] at hc; subst hc; exact quote_plain hq
    unfold quotePrefix
    simp only
    cases a with
    | nil => rw [h.nil_left]
    | cons x a' =>
      cases b with
      | nil => have := h.nil_right; cases this
      | cons y b' =>
        have ra : rawPeek (x :: a') 0 (p.toList.length + 1) = some ((x :: a').take (p.toList.length + 1)) := by simp [rawPeek]
        have rb : rawPeek (y :: b') 0 (p.toList.length + 1) = some ((y :: b').take (p.toList.length + 1)) := by simp [rawPeek]
        rw [ra, rb]
        simp only
        have hiff : ∀ {l m : List Char}, ReadEq l m → (∃ tl, l = p.toList ++ q :: tl) → ∃ tl, m = p.toList ++ q :: tl := by
          intro l m hlm ⟨tl, e⟩
          have e' : l = (p.toList ++ [q]) ++ tl := by rw [e]; simp
          rw [e'] at hlm
          obtain ⟨m', em, _⟩ := hlm.prefix_plain hplain
          exact ⟨m', by rw [em]; simp⟩
        by_cases ca : (p.toList.isPrefixOf ((x :: a').take (p.toList.length + 1)) && ((x :: a').take (p.toList.length + 1)).getLast? == some q) = true
        · have cb : (p.toList.isPrefixOf ((y :: b').take (p.toList.length + 1)) && ((y :: b').take (p.toList.length + 1)).getLast? == some q) = true := by
            simp only [Bool.and_eq_true, beq_iff_eq] at ca ⊢
            exact (qp_cond_iff q _ _ hqp).mpr (hiff h ((qp_cond_iff q _ _ hqp).mp ca))
          simp only [ca, cb, ↓reduceIte]
        · have cb : ¬ (p.toList.isPrefixOf ((y :: b').take (p.toList.length + 1)) && ((y :: b').take (p.toList.length + 1)).getLast? == some q) = true := by
            intro cb
            apply ca
            simp only [Bool.and_eq_true, beq_iff_eq] at cb ⊢
            exact (qp_cond_iff q _ _ hqp).mpr (hiff h.symm ((qp_cond_iff q _ _ hqp).mp cb))
          simp only [ca, cb, Bool.false_eq_true, ↓reduceIte]
          exact ih (fun p' hp' => hsub p' (List.mem_cons_of_mem _ hp'))

/-- is the next raw character this quote -/
theorem rawPeek_quote_readEq (q : Char) (hq : q = '\'' ∨ q = '"') {a b : List Char} (h : ReadEq a b) :
    (rawPeek a != some [q]) = (rawPeek b != some [q]) := by
  rcases head_cases (· == q) (plain_eq q (quote_plain hq)) h with ⟨c, a', b', rfl, rfl, hc, _⟩ | ⟨na, nb⟩
  · have : c = q := by simpa using hc
    subst this
    simp [rawPeek]
  · cases a with
    | nil => rw [h.nil_left]
    | cons x a' =>
      cases b with
      | nil => have := h.nil_right; cases this
      | cons y b' =>
        have hx : x ≠ q := by have := na x a' rfl; simpa using this
        have hy : y ≠ q := by have := nb y b' rfl; simpa using this
        have e1 : (some [x] != some [q]) = true := by
          simp only [bne_iff_ne, ne_eq, Option.some.injEq, List.cons.injEq, and_true]; exact hx
        have e2 : (some [y] != some [q]) = true := by
          simp only [bne_iff_ne, ne_eq, Option.some.injEq, List.cons.injEq, and_true]; exact hy
        simp only [rawPeek, List.length_cons, Nat.zero_lt_succ, ↓reduceIte, List.drop_zero, List.take_succ_cons, List.take_zero]
        rw [e1, e2]

/-! ### character constants and string literals -/

theorem addDiag_rest (s : LexSt) (d : Diag) : (s.addDiag d).rest = s.rest := rfl

theorem charFin_sim (s t : LexSt) (r r' : LexSt × List Char × Nat) (hv : r.2 = r'.2) (hr : ReadEq r.1.rest r'.1.rest) :
    TokSimC (charFin s r) (charFin t r') := by
  obtain ⟨s3, v, n⟩ := r
  obtain ⟨t3, v', n'⟩ := r'
  simp only [Prod.mk.injEq] at hv
  obtain ⟨rfl, rfl⟩ := hv
  unfold charFin
  simp only
  refine ⟨rfl, fun _ => rfl, ?_⟩
  split <;> split <;> simpa [addDiag_rest] using hr

theorem strFin_sim (s t : LexSt) (r r' : LexSt × List Char × Bool) (hv : r.2 = r'.2) (hr : ReadEq r.1.rest r'.1.rest) :
    TokSimC (strFin s r) (strFin t r') := by
  obtain ⟨s3, v, e⟩ := r
  obtain ⟨t3, v', e'⟩ := r'
  simp only [Prod.mk.injEq] at hv
  obtain ⟨rfl, rfl⟩ := hv
  unfold strFin
  simp only
  refine ⟨rfl, fun _ => rfl, ?_⟩
  split <;> simpa [addDiag_rest] using hr

theorem parseChar_readEq (s t : LexSt) (h : ReadEq s.rest t.rest) : TokSimC (parseChar s) (parseChar t) := by
  rw [parseChar_eq, parseChar_eq, quotePrefix_readEq '\'' (Or.inl rfl) h _ (fun p hp => hp)]
  cases quotePrefix '\'' t.rest Generated.quotePrefixes with
  | none => trivial
  | some n =>
    simp only
    obtain ⟨p1, p2⟩ := popN_readEq n s t h
    cases hpa : popN n s with
    | mk s1 r =>
      cases hpb : popN n t with
      | mk t1 r' =>
        rw [hpa, hpb] at p1 p2
        simp only at p1 p2
        subst p2
        cases r with
        | none => trivial
        | some pre =>
          simp only
          rw [rawPeek_quote_readEq '\'' (Or.inl rfl) p1]
          by_cases hq : (rawPeek t1.rest != some ['\'']) = true
          · simp only [hq, ↓reduceIte]; trivial
          · simp only [hq, Bool.false_eq_true, ↓reduceIte]
            obtain ⟨q1, q2⟩ := popOne_readEq_ff false s1 t1 p1
            cases hqa : popOne false false s1 with
            | mk s2 rq =>
              cases hqb : popOne false false t1 with
              | mk t2 rq' =>
                rw [hqa, hqb] at q1 q2
                simp only at q1 q2
                subst q2
                cases rq with
                | none => trivial
                | some q =>
                  simp only
                  obtain ⟨c1, c2⟩ := charLoop_readEq (s2.rest.length + 1) (t2.rest.length + 1) s.line s.col t.line t.col s2 t2 (pre ++ q) 0
                    (by omega) (by omega) q1
                  exact charFin_sim s t _ _ c1 c2

theorem parseString_readEq (s t : LexSt) (h : ReadEq s.rest t.rest) : TokSimC (parseString s) (parseString t) := by
  rw [parseString_eq, parseString_eq]
  rcases h.peek with ⟨h1, h2, _, _⟩ | ⟨c, ka, kb, h1, h2, _⟩
  · rw [h1, h2]; trivial
  · rw [h1, h2]
    simp only
    rw [quotePrefix_readEq '"' (Or.inr rfl) h _ (fun p hp => hp)]
    cases quotePrefix '"' t.rest Generated.quotePrefixes with
    | none => trivial
    | some n =>
      simp only
      obtain ⟨p1, p2⟩ := popN_readEq n s t h
      cases hpa : popN n s with
      | mk s1 r =>
        cases hpb : popN n t with
        | mk t1 r' =>
          rw [hpa, hpb] at p1 p2
          simp only at p1 p2
          subst p2
          cases r with
          | none => trivial
          | some pre =>
            simp only
            rw [rawPeek_quote_readEq '"' (Or.inr rfl) p1]
            by_cases hq : (rawPeek t1.rest != some ['"']) = true
            · simp only [hq, ↓reduceIte]; trivial
            · simp only [hq, Bool.false_eq_true, ↓reduceIte]
              obtain ⟨q1, q2⟩ := popOne_readEq_ff false s1 t1 p1
              cases hqa : popOne false false s1 with
              | mk s2 rq =>
                cases hqb : popOne false false t1 with
                | mk t2 rq' =>
                  rw [hqa, hqb] at q1 q2
                  simp only at q1 q2
                  subst q2
                  cases rq with
                  | none => trivial
                  | some q =>
                    simp only
                    obtain ⟨c1, c2⟩ := strLoop_readEq (s2.rest.length + 1) (t2.rest.length + 1) s2 t2 (pre ++ q) (by omega) (by omega) q1
                    exact strFin_sim s t _ _ c1 c2

/-! ### identifiers, white space, comments -/

theorem idStart_plain : ∀ c, isIdStart c = true → Plain c := by
  intro c hc
  apply idChar_plain
  unfold isIdStart at hc
  unfold isIdChar
  simp only [Bool.or_eq_true, beq_iff_eq] at hc ⊢
  rcases hc with h | h
  · exact Or.inl (Or.inl h)
  · exact Or.inr h

theorem parseIdent_readEq (s t : LexSt) (h : ReadEq s.rest t.rest) : TokSimC (parseIdent s) (parseIdent t) := by
  unfold parseIdent
  rcases head_cases isIdStart idStart_plain h with ⟨c, a', b', ea, eb, hc, _⟩ | ⟨na, nb⟩
  · rw [ea, eb]
    simp only [hc, Bool.not_true, Bool.false_eq_true, ↓reduceIte]
    obtain ⟨q1, q2⟩ := popOne_readEq_ff false s t h
    cases hqa : popOne false false s with
    | mk s1 r =>
      cases hqb : popOne false false t with
      | mk t1 r' =>
        rw [hqa, hqb] at q1 q2
        simp only at q1 q2
        subst q2
        cases r with
        | none => trivial
        | some ch =>
          simp only
          obtain ⟨i1, i2⟩ := identLoop_readEq (s1.rest.length + 1) (t1.rest.length + 1) s1 t1 ch (by omega) (by omega) q1
          cases hia : identLoop (s1.rest.length + 1) s1 ch with
          | mk s2 v =>
            cases hib : identLoop (t1.rest.length + 1) t1 ch with
            | mk t2 v' =>
              rw [hia, hib] at i1 i2
              simp only at i1 i2
              subst i1
              simp only
              cases assoc Generated.keywords (String.ofList v) with
              | none => exact ⟨rfl, fun _ => rfl, i2⟩
              | some kw => exact ⟨rfl, fun _ => rfl, i2⟩
  · cases ha : s.rest with
    | nil =>
      rw [ha] at h; rw [h.nil_left]; trivial
    | cons x xs =>
      cases hb : t.rest with
      | nil => rw [ha, hb] at h; have := h.nil_right; cases this
      | cons y ys =>
        simp only [na x xs ha, nb y ys hb, Bool.not_false, ↓reduceIte]
        trivial

def isWsChar (c : Char) : Bool := c == ' ' || c == '\t' || c == '\n'

theorem wsChar_plain : ∀ c, isWsChar c = true → Plain c :=
  plain_or (plain_or (plain_eq ' ' (by decide)) (plain_eq '\t' (by decide))) (plain_eq '\n' (by decide))

theorem parseWhitespace_readEq (s t : LexSt) (h : ReadEq s.rest t.rest) :
    TokSimC (parseWhitespace s) (parseWhitespace t) := by
  unfold parseWhitespace
  rcases head_cases isWsChar wsChar_plain h with ⟨c, a', b', ea, eb, hc, _⟩ | ⟨na, nb⟩
  · rw [ea, eb]
    simp only
    cases hty : (if c == ' ' then some "SPACE" else if c == '\t' then some "TAB" else if c == '\n' then some "NEWLINE" else none) with
    | none => trivial
    | some ty =>
      simp only
      obtain ⟨q1, q2⟩ := popOne_readEq_ff false s t h
      cases hqa : popOne false false s with
      | mk s1 r =>
        cases hqb : popOne false false t with
        | mk t1 r' =>
          rw [hqa, hqb] at q1 q2
          simp only at q1 q2
          subst q2
          cases r with
          | none => trivial
          | some ch => exact ⟨rfl, fun _ => rfl, q1⟩
  · cases ha : s.rest with
    | nil =>
      rw [ha] at h; rw [h.nil_left]; trivial
    | cons x xs =>
      cases hb : t.rest with
      | nil => rw [ha, hb] at h; have := h.nil_right; cases this
      | cons y ys =>
        have hx := na x xs ha
        have hy := nb y ys hb
        simp only [isWsChar, Bool.or_eq_false_iff] at hx hy
        simp only [hx.1.1, hx.1.2, hx.2, hy.1.1, hy.1.2, hy.2, Bool.false_eq_true, ↓reduceIte]
        trivial

/-- the two raw characters that open a comment -/
theorem rawPeek2_readEq (x y : Char) (hx : Plain x) (hy : Plain y) {a b : List Char} (h : ReadEq a b) :
    (rawPeek a 0 2 != some [x, y]) = (rawPeek b 0 2 != some [x, y]) := by
  have key : ∀ {l m : List Char}, ReadEq l m → rawPeek l 0 2 = some [x, y] → rawPeek m 0 2 = some [x, y] := by
    intro l m hlm hl
    unfold rawPeek at hl
    split at hl
    · simp only [List.drop_zero, Option.some.injEq] at hl
      have e : l = [x, y] ++ l.drop 2 := by rw [← hl, List.take_append_drop]
      rw [e] at hlm
      obtain ⟨m', em, _⟩ := hlm.prefix_plain (by intro c hc; simp only [List.mem_cons, List.not_mem_nil, or_false] at hc; rcases hc with rfl | rfl <;> assumption)
      rw [em]; simp [rawPeek]
    · cases hl
  cases ha : (rawPeek a 0 2 != some [x, y]) with
  | false =>
    have e : rawPeek a 0 2 = some [x, y] := by simpa using ha
    rw [key h e]; simp
  | true =>
    cases hb : (rawPeek b 0 2 != some [x, y]) with
    | true => rfl
    | false =>
      have e : rawPeek b 0 2 = some [x, y] := by simpa using hb
      rw [key h.symm e] at ha; simp at ha

theorem parseLineComment_readEq (s t : LexSt) (h : ReadEq s.rest t.rest) :
    TokSimC (parseLineComment s) (parseLineComment t) := by
  unfold parseLineComment
  rw [rawPeek2_readEq '/' '/' (by decide) (by decide) h]
  by_cases hc : (rawPeek t.rest 0 2 != some ['/', '/']) = true
  · simp only [hc, ↓reduceIte]; trivial
  · simp only [hc, Bool.false_eq_true, ↓reduceIte]
    obtain ⟨p1, p2⟩ := popN_readEq 2 s t h
    cases hpa : popN 2 s with
    | mk s1 r =>
      cases hpb : popN 2 t with
      | mk t1 r' =>
        rw [hpa, hpb] at p1 p2
        simp only at p1 p2
        subst p2
        cases r with
        | none => trivial
        | some v0 =>
          simp only
          obtain ⟨l1, l2⟩ := lineCommentLoop_readEq (s1.rest.length + 1) (t1.rest.length + 1) s1 t1 v0 (by omega) (by omega) p1
          cases hla : lineCommentLoop (s1.rest.length + 1) s1 v0 with
          | mk s2 v =>
            cases hlb : lineCommentLoop (t1.rest.length + 1) t1 v0 with
            | mk t2 v' =>
              rw [hla, hlb] at l1 l2
              simp only at l1 l2
              subst l1
              exact ⟨rfl, fun _ => rfl, l2⟩

theorem parseMultiComment_readEq (s t : LexSt) (h : ReadEq s.rest t.rest) :
    TokSimC (parseMultiComment s) (parseMultiComment t) := by
  unfold parseMultiComment
  rw [rawPeek2_readEq '/' '*' (by decide) (by decide) h]
  by_cases hc : (rawPeek t.rest 0 2 != some ['/', '*']) = true
  · simp only [hc, ↓reduceIte]; trivial
  · simp only [hc, Bool.false_eq_true, ↓reduceIte]
    have hraw : rawPeek t.rest 0 2 = some ['/', '*'] := by simpa using hc
    obtain ⟨p1, p2⟩ := popN_readEq 2 s t h
    cases hpa : popN 2 s with
    | mk s1 r =>
      cases hpb : popN 2 t with
      | mk t1 r' =>
        rw [hpa, hpb] at p1 p2
        simp only at p1 p2
        subst p2
        cases r with
        | none => trivial
        | some v0 =>
          simp only
          -- the two characters popped are `/*`
          have hv0 : v0 = ['/', '*'] := by
            have hrest : ∃ tl, t.rest = ['/', '*'] ++ tl := by
              unfold rawPeek at hraw
              split at hraw
              · simp only [List.drop_zero, Option.some.injEq] at hraw
                exact ⟨t.rest.drop 2, by rw [← hraw, List.take_append_drop]⟩
              · cases hraw
            obtain ⟨tl, etl⟩ := hrest
            have hp1 : ∀ l, peek1 ('*' :: l) 0 = some ('*', 1) := fun l => peek1_raw (by decide) (by decide) (by decide) (by decide)
            have hp0 : peek1 ('/' :: '*' :: tl) 0 = some ('/', 1) := peek1_raw (by decide) (by decide) (by decide) (by decide)
            have hrn : readN 2 t.rest = some (['/', '*'], tl) := by
              rw [etl]
              show readN 2 ('/' :: '*' :: tl) = _
              simp [readN, hp0, hp1]
            have := (popN_readN 2 t ['/', '*'] tl hrn (by decide)).1
            rw [hpb] at this
            simpa using this
          subst hv0
          obtain ⟨l1, l2⟩ := multiCommentLoop_readEq (s1.rest.length + 1) (t1.rest.length + 1) s1 t1 ['/', '*'] ['/', '*']
            (by omega) (by omega) p1 ⟨rfl, by simp, by simp, Or.inl rfl⟩
          cases hla : multiCommentLoop (s1.rest.length + 1) s1 ['/', '*'] with
          | mk s2 r2 =>
            cases hlb : multiCommentLoop (t1.rest.length + 1) t1 ['/', '*'] with
            | mk t2 r2' =>
              rw [hla, hlb] at l1 l2
              simp only at l1 l2
              obtain ⟨v, e⟩ := r2
              obtain ⟨v', e'⟩ := r2'
              simp only at l1
              subst l1
              simp only
              refine ⟨rfl, fun hne => absurd rfl hne, ?_⟩
              split <;> simpa [addDiag_rest] using l2

end Norm
