/- The token stream: invariants of `lexItems` (positions, tiling, fuel). -/
import NormModel.Proofs.LexSub
namespace Norm
open Spec

/-- the lexer state is consistent with the source and the position specification -/
def Good (src : List Char) (s : LexSt) : Prop :=
  s.rest = src.drop s.pos ∧ s.pos ≤ src.length ∧ (s.line, s.col) = visualPos src s.pos

theorem good_init (src : List Char) : Good src { rest := src } := by
  refine ⟨by simp, by simp, ?_⟩
  simp [visualPos, advPos]

theorem Good.followsN {src : List Char} {s t : LexSt} {n : Nat} (hg : Good src s) (hf : FollowsN n s t) :
    Good src t := by
  obtain ⟨g1, g2, g3⟩ := hg
  obtain ⟨f1, f2, f3, f4, _⟩ := hf
  have hlen : s.rest.length = src.length - s.pos := by rw [g1]; simp
  refine ⟨?_, by omega, ?_⟩
  · rw [f2, g1, f3, List.drop_drop]
  · rw [f4, g3, f3]
    unfold visualPos
    rw [List.take_add, advPos_append, g1]

theorem Good.follows {src : List Char} {s t : LexSt} (hg : Good src s) (hf : Follows s t) : Good src t := by
  obtain ⟨n, hf⟩ := hf; exact hg.followsN hf

theorem FollowsN.length {s t : LexSt} {n : Nat} (h : FollowsN n s t) :
    t.rest.length + n = s.rest.length := by
  obtain ⟨h1, h2, _⟩ := h
  rw [h2]; simp; omega

theorem Follows.length_le {s t : LexSt} (h : Follows s t) : t.rest.length ≤ s.rest.length := by
  obtain ⟨n, h⟩ := h; have := h.length; omega

theorem Progress.length_lt {s t : LexSt} (h : Progress s t) : t.rest.length < s.rest.length := by
  obtain ⟨n, hn, h⟩ := h; have := h.length; omega

theorem Follows.pos_le {s t : LexSt} (h : Follows s t) : s.pos ≤ t.pos := by
  obtain ⟨n, _, _, h3, _⟩ := h; omega

theorem Progress.pos_lt {s t : LexSt} (h : Progress s t) : s.pos < t.pos := by
  obtain ⟨n, hn, _, _, h3, _⟩ := h; omega

theorem badLexeme_progress (s : LexSt) (c : Char) (tl : List Char) (hr : s.rest = c :: tl)
    (hc : cleanChar c) : FollowsN 1 s (badLexeme s c) := by
  unfold badLexeme
  simp only
  refine ⟨by rw [hr]; simp, by simp [advance, LexSt.addDiag], by simp [advance, LexSt.addDiag], ?_,
    [{ name := "BAD_LEXEME", text := "No matchable token for '" ++ String.ofList [c] ++ "' lexeme",
       level := .error, highlights := [⟨s.line, s.col, some 1, none⟩] }],
    by simp [advance, LexSt.addDiag], ?_⟩
  · have : Clean (s.rest.take 1) := by rw [hr]; intro x hx; simp at hx; subst hx; exact hc
    rw [advPos_clean _ _ this]; simp [hr, advance, LexSt.addDiag]
  · intro d hd; simp at hd; subst hd
    exact DiagAt.here (hl := ⟨s.line, s.col, some 1, none⟩) (tl := []) rfl (by rw [hr]; simp) rfl

/-- A character no sub-lexer takes is not whitespace: `parseWhitespace` takes newline/tab. -/
theorem parseWhitespace_some_of_ws (s : LexSt) (c : Char) (tl : List Char) (hr : s.rest = c :: tl)
    (hc : c = '\n' ∨ c = '\t') : ∃ r, parseWhitespace s = some r := by
  unfold parseWhitespace
  rw [hr]
  simp only
  have hp : peek1 s.rest 0 = some (c, 1) := by
    rw [hr]
    rcases hc with rfl | rfl <;> exact peek1_raw (by decide) (by decide) (by decide) (by decide)
  have hty : (if c == ' ' then some "SPACE" else if c == '\t' then some "TAB"
      else if c == '\n' then some "NEWLINE" else none) ≠ none := by
    rcases hc with rfl | rfl <;> decide
  split
  · rename_i h; exact absurd h hty
  · have := (popOne_spec false false s)
    cases hpo : popOne false false s with
    | mk s1 r =>
      cases r with
      | some ch => exact ⟨_, rfl⟩
      | none =>
        exfalso
        have h2 := this.2 (by rw [hpo])
        rw [hpo] at h2
        have := h2.1.length_le
        -- popOne failing means the input is exhausted after splices; but `c` is not a backslash
        unfold popOne at hpo
        have hs : spliceLoop (s.rest.length + 1) s = (s, some (c, 1)) := by
          unfold spliceLoop
          simp only [hp]
          have : (c != '\\') = true := by rcases hc with rfl | rfl <;> decide
          simp [this]
        rw [hs] at hpo
        simp only at hpo
        unfold finishPop at hpo
        simp only at hpo
        split at hpo
        · cases hpo
        · split at hpo <;> cases hpo

end Norm

namespace Norm
open Spec

/-- raw text that consists of line splices only (what `get_next_token` skips between tokens) -/
inductive SpliceGap : List Char → Prop
  | nil : SpliceGap []
  | bs (g : List Char) : SpliceGap g → SpliceGap ('\\' :: '\n' :: g)
  | tri (g : List Char) : SpliceGap g → SpliceGap ('?' :: '?' :: '/' :: '\n' :: g)

def Item.start : Item → Nat
  | .tok t => t.start
  | .bad _ p => p
def Item.stop : Item → Nat
  | .tok t => t.stop
  | .bad _ p => p + 1

/-- the item is where it says it is -/
def Item.PosOK (src : List Char) : Item → Prop
  | .tok t => (t.line, t.col) = visualPos src t.start
  | .bad c p => src[p]? = some c

def slice (src : List Char) (a b : Nat) : List Char := (src.drop a).take (b - a)

/-- The items of a run tile the source from offset `p` to the end: between two items there
are only line splices, every item is non-empty, consecutive, inside the source and carries
its true position. -/
inductive Tiling (src : List Char) : Nat → List Item → Prop
  | nil (p : Nat) (h : SpliceGap (src.drop p)) : Tiling src p []
  | cons (p : Nat) (it : Item) (rest : List Item) (h1 : p ≤ it.start)
      (hg : SpliceGap (slice src p it.start)) (h2 : it.start < it.stop) (h3 : it.stop ≤ src.length)
      (hp : it.PosOK src) (ht : Tiling src it.stop rest) : Tiling src p (it :: rest)

theorem skipSplices_gap (fuel : Nat) (s : LexSt) :
    ∃ n, FollowsN n s (skipSplices fuel s) ∧ SpliceGap (s.rest.take n) := by
  induction fuel generalizing s with
  | zero => exact ⟨0, FollowsN.refl s, by simp; exact SpliceGap.nil⟩
  | succ fuel ih =>
    unfold skipSplices
    split
    · rename_i h1
      have h1' : rawPeek s.rest 0 2 = some ['\\', '\n'] := by simpa using h1
      unfold rawPeek at h1'
      split at h1'
      · simp only [List.drop_zero, Option.some.injEq] at h1'
        match hr : s.rest, h1' with
        | a :: b :: tl, h1' =>
          simp at h1'
          obtain ⟨rfl, rfl⟩ := h1'
          have hf := follows_splice s 1 (by rw [hr]; simp) (by rw [hr]; intro x hx; simp at hx; subst hx; decide)
            (by rw [hr]; simp)
          obtain ⟨m, hm, hgap⟩ := ih { advance s 2 with line := s.line + 1, col := 1 }
          refine ⟨1 + 1 + m, hf.trans hm, ?_⟩
          simp only [advance, hr, List.drop_succ_cons, List.drop_zero] at hgap
          have : (('\\' :: '\n' :: tl).take (1 + 1 + m)) = '\\' :: '\n' :: tl.take m := by
            rw [show 1 + 1 + m = m + 2 by omega]; simp
          rw [this]
          exact SpliceGap.bs _ hgap
        | [_], h1' => simp at h1'
        | [], h1' => simp at h1'
      · cases h1'
    · split
      · rename_i _ h2
        have h2' : rawPeek s.rest 0 4 = some ['?', '?', '/', '\n'] := by simpa using h2
        unfold rawPeek at h2'
        split at h2'
        · simp only [List.drop_zero, Option.some.injEq] at h2'
          match hr : s.rest, h2' with
          | a :: b :: c :: d :: tl, h2' =>
            simp at h2'
            obtain ⟨rfl, rfl, rfl, rfl⟩ := h2'
            have hf := follows_splice s 3 (by rw [hr]; simp)
              (by rw [hr]; intro x hx; simp at hx; rcases hx with rfl | rfl | rfl <;> decide) (by rw [hr]; simp)
            obtain ⟨m, hm, hgap⟩ := ih { advance s 4 with line := s.line + 1, col := 1 }
            refine ⟨3 + 1 + m, hf.trans hm, ?_⟩
            simp only [advance, hr, List.drop_succ_cons, List.drop_zero] at hgap
            have : (('?' :: '?' :: '/' :: '\n' :: tl).take (3 + 1 + m)) = '?' :: '?' :: '/' :: '\n' :: tl.take m := by
              rw [show 3 + 1 + m = m + 4 by omega]; simp
            rw [this]
            exact SpliceGap.tri _ hgap
          | [_, _, _], h2' => simp at h2'
          | [_, _], h2' => simp at h2'
          | [_], h2' => simp at h2'
          | [], h2' => simp at h2'
        · cases h2'
      · exact ⟨0, FollowsN.refl s, by simp; exact SpliceGap.nil⟩

theorem trySubLexers_none_ws {u : Uni} {s : LexSt} (h : trySubLexers u s = .ok none) :
    parseWhitespace s = none := by
  unfold trySubLexers at h
  repeat' split at h
  all_goals first
    | (cases h; done)
    | assumption
    | skip
  all_goals (rename_i hw _ _ _; first | exact hw | skip)

end Norm

namespace Norm
open Spec

theorem slice_eq_take_of_good {src : List Char} {s : LexSt} (hg : Good src s) (n : Nat) :
    slice src s.pos (s.pos + n) = s.rest.take n := by
  unfold slice; rw [hg.1]; simp

theorem tokOK_item {src : List Char} {s s' : LexSt} {t : Token} (hg : Good src s) (h : TokOK s s' t) :
    (Item.tok t).start = s.pos ∧ (Item.tok t).stop = s'.pos ∧ (Item.tok t).PosOK src := by
  obtain ⟨_, h2, h3, h4, h5⟩ := h
  refine ⟨h4, h5, ?_⟩
  unfold Item.PosOK
  simp only
  rw [h2, h3, h4]; exact hg.2.2

/-- Main invariant of the token stream. From a good state, a successful run tiles the rest
of the source and ends in a good state at the end of the input. -/
theorem lexItems_tiling (u : Uni) (src : List Char) (fuel : Nat) (s : LexSt) (items : List Item) (sf : LexSt)
    (hg : Good src s) (h : lexItems u fuel s = .ok (items, sf)) :
    Tiling src s.pos items ∧ Follows s sf ∧ sf.rest = [] := by
  induction fuel generalizing s items with
  | zero => simp [lexItems] at h
  | succ fuel ih =>
    unfold lexItems at h
    simp only at h
    obtain ⟨n, hfn, hgap⟩ := skipSplices_gap (s.rest.length + 1) s
    have hg1 : Good src (skipSplices (s.rest.length + 1) s) := hg.followsN hfn
    have hpos1 : (skipSplices (s.rest.length + 1) s).pos = s.pos + n := hfn.2.2.1
    have hgap' : SpliceGap (slice src s.pos (skipSplices (s.rest.length + 1) s).pos) := by
      rw [hpos1, slice_eq_take_of_good hg]; exact hgap
    split at h
    · cases h
    · rename_i s1 t htry
      have htok := trySubLexers_ok htry
      obtain ⟨e1, e2, e3⟩ := tokOK_item hg1 htok
      have hg2 : Good src s1 := hg1.follows htok.1.follows
      split at h
      · cases h
      · rename_i items' sf' hrec
        simp only [Except.ok.injEq, Prod.mk.injEq] at h
        obtain ⟨rfl, rfl⟩ := h
        obtain ⟨i1, i2, i3⟩ := ih s1 items' hg2 hrec
        refine ⟨?_, (Follows.trans ⟨n, hfn⟩ htok.1.follows).trans i2, i3⟩
        refine Tiling.cons _ _ _ (by rw [e1, hpos1]; omega) (by rw [e1]; exact hgap') ?_ ?_ e3 (by rw [e2]; exact i1)
        · rw [e1, e2]; exact htok.1.pos_lt
        · rw [e2]; exact hg2.2.1
    · rename_i hnone
      split at h
      · rename_i hrest
        simp only [Except.ok.injEq, Prod.mk.injEq] at h
        obtain ⟨rfl, rfl⟩ := h
        refine ⟨Tiling.nil _ ?_, ⟨n, hfn⟩, hrest⟩
        -- everything from s.pos to the end is the gap
        have : src.drop s.pos = s.rest.take n := by
          have h2 := hfn.2.1
          rw [hrest] at h2
          have hlen := hfn.length
          rw [hrest] at hlen
          simp only [List.length_nil, Nat.zero_add] at hlen
          rw [← hg.1, hlen, List.take_length]
        rw [this]; exact hgap
      · rename_i c tl hrest
        split at h
        · cases h
        · rename_i items' sf' hrec
          simp only [Except.ok.injEq, Prod.mk.injEq] at h
          obtain ⟨rfl, rfl⟩ := h
          have hcl : cleanChar c := by
            constructor
            · intro hc
              obtain ⟨r, hr⟩ := parseWhitespace_some_of_ws _ c tl hrest (Or.inl hc)
              rw [trySubLexers_none_ws hnone] at hr; cases hr
            · intro hc
              obtain ⟨r, hr⟩ := parseWhitespace_some_of_ws _ c tl hrest (Or.inr hc)
              rw [trySubLexers_none_ws hnone] at hr; cases hr
          have hb := badLexeme_progress _ c tl hrest hcl
          have hg2 := hg1.followsN hb
          obtain ⟨i1, i2, i3⟩ := ih _ items' hg2 hrec
          refine ⟨?_, (Follows.trans ⟨n, hfn⟩ ⟨1, hb⟩).trans i2, i3⟩
          have hbpos : (badLexeme (skipSplices (s.rest.length + 1) s) c).pos
              = (skipSplices (s.rest.length + 1) s).pos + 1 := hb.2.2.1
          refine Tiling.cons _ _ _ (by simp only [Item.start]; omega) (by simp only [Item.start]; exact hgap')
            (by simp [Item.start, Item.stop]) ?_ ?_ (by simp only [Item.stop]; rw [← hbpos]; exact i1)
          · simp only [Item.stop]; rw [← hbpos]; exact hg2.2.1
          · unfold Item.PosOK
            simp only
            have := hg1.1
            rw [hrest] at this
            have h0 : (src.drop (skipSplices (s.rest.length + 1) s).pos)[0]? = some c := by rw [← this]; rfl
            simpa using h0

end Norm

namespace Norm
open Spec

/-- the fuel `|src| + 1` is never exhausted: every round consumes at least one character -/
theorem lexItems_fuel (u : Uni) (fuel : Nat) (s : LexSt) (hf : s.rest.length < fuel) :
    lexItems u fuel s ≠ .error .outOfFuel := by
  induction fuel generalizing s with
  | zero => omega
  | succ fuel ih =>
    unfold lexItems
    simp only
    have hsk := (skipSplices_follows (s.rest.length + 1) s).length_le
    split
    · rename_i e he
      intro h
      -- only keyError comes out of trySubLexers
      unfold trySubLexers at he
      repeat' split at he
      all_goals first
        | (cases he; done)
        | (simp only [Except.error.injEq] at he; subst he; cases h)
    · rename_i s1 t htry
      have hp := (trySubLexers_ok htry).1.length_lt
      have := ih s1 (by omega)
      split
      · rename_i e he; intro h; simp only [Except.error.injEq] at h; subst h; exact this he
      · intro h; cases h
    · rename_i hnone
      split
      · intro h; cases h
      · rename_i c tl hrest
        have hcl : cleanChar c := by
          constructor
          · intro hc
            obtain ⟨r, hr⟩ := parseWhitespace_some_of_ws _ c tl hrest (Or.inl hc)
            rw [trySubLexers_none_ws hnone] at hr; cases hr
          · intro hc
            obtain ⟨r, hr⟩ := parseWhitespace_some_of_ws _ c tl hrest (Or.inr hc)
            rw [trySubLexers_none_ws hnone] at hr; cases hr
        have hb := (badLexeme_progress _ c tl hrest hcl).length
        have := ih (badLexeme (skipSplices (s.rest.length + 1) s) c) (by omega)
        split
        · rename_i e he; intro h; simp only [Except.error.injEq] at h; subst h; exact this he
        · intro h; cases h

end Norm

namespace Norm
open Spec

theorem Tiling.items_ok {src : List Char} {p : Nat} {items : List Item} (h : Tiling src p items) :
    ∀ it ∈ items, p ≤ it.start ∧ it.start < it.stop ∧ it.stop ≤ src.length ∧ it.PosOK src := by
  induction h with
  | nil p h => intro it hit; cases hit
  | cons p it rest h1 hg h2 h3 hp ht ih =>
    intro x hx
    rcases List.mem_cons.mp hx with rfl | hx
    · exact ⟨h1, h2, h3, hp⟩
    · obtain ⟨a, b, c, d⟩ := ih x hx
      exact ⟨by omega, b, c, d⟩

/-- consecutive items do not overlap and appear in source order -/
theorem Tiling.ordered {src : List Char} {p : Nat} {items : List Item} (h : Tiling src p items) :
    items.Pairwise (fun a b => a.stop ≤ b.start) := by
  induction h with
  | nil p h => exact List.Pairwise.nil
  | cons p it rest h1 hg h2 h3 hp ht ih =>
    refine List.Pairwise.cons ?_ ih
    intro b hb
    exact (ht.items_ok b hb).1

theorem Follows.diags_sub {s t : LexSt} (h : Follows s t) : ∀ d ∈ s.diags, d ∈ t.diags := by
  obtain ⟨n, _, _, _, _, ds, h5, _⟩ := h
  intro d hd; rw [h5]; exact List.mem_append_left _ hd

/-- Every bad lexeme is reported by a BAD_LEXEME diagnostic at its true position. -/
theorem lexItems_bad_reported (u : Uni) (src : List Char) (fuel : Nat) (s : LexSt) (items : List Item)
    (sf : LexSt) (hg : Good src s) (h : lexItems u fuel s = .ok (items, sf)) :
    ∀ c p, Item.bad c p ∈ items → ∃ d ∈ sf.diags, d.name = "BAD_LEXEME" ∧ d.level = .error ∧
      d.text = "No matchable token for '" ++ String.ofList [c] ++ "' lexeme" ∧
      d.highlights = [⟨(visualPos src p).1, (visualPos src p).2, some 1, none⟩] := by
  induction fuel generalizing s items with
  | zero => simp [lexItems] at h
  | succ fuel ih =>
    unfold lexItems at h
    simp only at h
    have hg1 : Good src (skipSplices (s.rest.length + 1) s) := hg.follows (skipSplices_follows _ s)
    split at h
    · cases h
    · rename_i s1 t htry
      have hg2 : Good src s1 := hg1.follows (trySubLexers_ok htry).1.follows
      split at h
      · cases h
      · rename_i items' sf' hrec
        simp only [Except.ok.injEq, Prod.mk.injEq] at h
        obtain ⟨rfl, rfl⟩ := h
        intro c p hmem
        rcases List.mem_cons.mp hmem with hm | hm
        · cases hm
        · exact ih s1 items' hg2 hrec c p hm
    · rename_i hnone
      split at h
      · simp only [Except.ok.injEq, Prod.mk.injEq] at h
        obtain ⟨rfl, rfl⟩ := h
        intro c p hmem; cases hmem
      · rename_i c tl hrest
        split at h
        · cases h
        · rename_i items' sf' hrec
          simp only [Except.ok.injEq, Prod.mk.injEq] at h
          obtain ⟨rfl, rfl⟩ := h
          have hcl : cleanChar c := by
            constructor
            · intro hc
              obtain ⟨r, hr⟩ := parseWhitespace_some_of_ws _ c tl hrest (Or.inl hc)
              rw [trySubLexers_none_ws hnone] at hr; cases hr
            · intro hc
              obtain ⟨r, hr⟩ := parseWhitespace_some_of_ws _ c tl hrest (Or.inr hc)
              rw [trySubLexers_none_ws hnone] at hr; cases hr
          have hb := badLexeme_progress _ c tl hrest hcl
          have hg2 := hg1.followsN hb
          intro c' p hmem
          rcases List.mem_cons.mp hmem with hm | hm
          · simp only [Item.bad.injEq] at hm
            obtain ⟨rfl, rfl⟩ := hm
            obtain ⟨_, hfol, _⟩ := lexItems_tiling u src fuel _ items' _ hg2 hrec
            refine ⟨{ name := "BAD_LEXEME", text := "No matchable token for '" ++ String.ofList [c'] ++ "' lexeme",
                      level := .error,
                      highlights := [⟨(skipSplices (s.rest.length + 1) s).line,
                                      (skipSplices (s.rest.length + 1) s).col, some 1, none⟩] },
              hfol.diags_sub _ ?_, rfl, rfl, rfl, ?_⟩
            · unfold badLexeme
              simp [LexSt.addDiag, advance]
            · have := hg1.2.2
              simp only
              rw [← this]
          · exact ih _ items' hg2 hrec c' p hm

end Norm
