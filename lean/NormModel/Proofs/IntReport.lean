/-
C11, malformed integer constants: what the integer sub-lexer reports for a constant of a recognised shape —
an unknown suffix, a digit that its base does not allow — and that it reports nothing else.
-/
import NormModel.Proofs.LiteralsLex
namespace Norm
open Spec

/-- highlights (one character wide) of the digits that `ok` rejects; the first digit stands at column `col + off` -/
def badDigitHighlights (line col off : Nat) (digits : List Char) (ok : Char → Bool) : List Highlight :=
  (digits.zipIdx off).filterMap (fun p => if ok p.1 then none else some ⟨line, col + p.2, some 1, none⟩)

/-- one diagnostic carrying all of them, none when every digit is allowed -/
def digitReport (name : String) (line col off : Nat) (digits : List Char) (ok : Char → Bool) : List Diag :=
  if (badDigitHighlights line col off digits ok).isEmpty then []
  else [mkDiag name .error (badDigitHighlights line col off digits ok)]

/-- **the diagnostics expected for an integer constant of shape `k` that starts at (line, col)**: INVALID_SUFFIX
on the suffix when it is not one of the table, then INVALID_OCT_INT / INVALID_BIN_INT with one highlight per digit
that the base does not allow -/
def intDigitReport (k : IntConst) (line col : Nat) : List Diag :=
  match k.base with
  | .oct => digitReport "INVALID_OCT_INT" line col 1 k.digits isOct
  | .bin _ => digitReport "INVALID_BIN_INT" line col 2 k.digits isBin
  | _ => []

def intReport (k : IntConst) (line col : Nat) : List Diag :=
  (if k.suffix ∈ Spec.integerSuffixes then []
   else [mkDiag "INVALID_SUFFIX" .error [⟨line, col + k.body.length, some k.suffix.toList.length, none⟩]]) ++
  intDigitReport k line col

theorem gen_suffixes_sub : ∀ s ∈ Generated.integerSuffixes, s ∈ Spec.integerSuffixes := by decide +kernel

theorem suffix_mem_iff (s : String) : Generated.integerSuffixes.contains s = true ↔ s ∈ Spec.integerSuffixes := by
  constructor
  · intro h; exact gen_suffixes_sub s (by simpa using h)
  · intro h; exact (suffix_tbl s h).1

theorem badDigits_eq (line col : Nat) (pre const suf : List Char) (name : String) (bucket : List Char) (ok : Char → Bool)
    (h : ∀ c, bucket.contains c = ok c) :
    badDigits line col ⟨pre, const, suf⟩ name bucket = digitReport name line col pre.length const ok := by
  unfold badDigits digitReport badDigitHighlights
  simp only [h]

theorem isOct_bucket : ∀ c, "01234567".toList.contains c = isOct c := fun _ => rfl
theorem isBin_bucket : ∀ c, "01".toList.contains c = isBin c := fun _ => rfl

theorem body_length (k : IntConst) : k.render.length - k.suffix.toList.length = k.body.length := by
  unfold IntConst.render; simp

/-- the diagnostics the model computes for the match of a constant of shape `k` are `intReport k` -/
theorem intDiags_shape (k : IntConst) (hk : k.Shape) (line col : Nat) :
    intDiags line col k.render.length ⟨k.mpre, k.mconst, k.suffix.toList⟩ = intReport k line col := by
  obtain ⟨hs, hbase⟩ := hk
  obtain ⟨hw, hh⟩ := suffixShape_facts hs
  unfold intDiags intReport intDigitReport
  simp only [String.ofList_toList]
  congr 1
  · -- the suffix
    by_cases hmem : k.suffix ∈ Spec.integerSuffixes
    · simp only [(suffix_mem_iff k.suffix).mpr hmem, hmem, ↓reduceIte]
    · have hc : Generated.integerSuffixes.contains k.suffix = false := by
        cases h : Generated.integerSuffixes.contains k.suffix
        · rfl
        · exact absurd ((suffix_mem_iff _).mp h) hmem
      simp only [hc, hmem, Bool.false_eq_true, ↓reduceIte]
      cases hl : k.suffix.toList with
      | nil =>
        exfalso
        have : k.suffix = "" := by
          have := congrArg String.ofList hl
          simpa using this
        rw [this] at hmem
        exact hmem (by decide)
      | cons c tl =>
        obtain ⟨_, _, _, _, _, h6, h7, _, _⟩ := hh c (by rw [hl]; rfl)
        have : (c == '+' || c == '-') = false := by simp [h6, h7]
        simp only [this, Bool.false_eq_true, ↓reduceIte]
        have hb := body_length k
        rw [hl] at hb
        rw [hb]
  · -- the digits
    unfold IntConst.mpre IntConst.mconst
    cases hbse : k.base with
    | dec =>
      simp only
      have h1 : (String.ofList ([] : List Char) == "0b" || String.ofList ([] : List Char) == "0B") = false := by decide
      have h2 : (String.ofList ([] : List Char) == "0") = false := by decide
      have h3 : (String.ofList ([] : List Char) == "0x" || String.ofList ([] : List Char) == "0X") = false := by decide
      simp only [h1, h2, h3, Bool.false_eq_true, ↓reduceIte]
    | oct =>
      simp only
      by_cases hne : k.digits = []
      · rw [if_pos hne, if_pos hne]
        have h1 : (String.ofList ([] : List Char) == "0b" || String.ofList ([] : List Char) == "0B") = false := by decide
        have h2 : (String.ofList ([] : List Char) == "0") = false := by decide
        have h3 : (String.ofList ([] : List Char) == "0x" || String.ofList ([] : List Char) == "0X") = false := by decide
        simp only [h1, h2, h3, Bool.false_eq_true, ↓reduceIte]
        rw [hne]; rfl
      · rw [if_neg hne, if_neg hne]
        have h1 : (String.ofList ['0'] == "0b" || String.ofList ['0'] == "0B") = false := by decide
        have h2 : (String.ofList ['0'] == "0") = true := by decide
        simp only [h1, h2, Bool.false_eq_true, ↓reduceIte]
        exact badDigits_eq _ _ _ _ _ _ _ _ isOct_bucket
    | hex x =>
      rw [hbse] at hbase
      simp only at hbase ⊢
      obtain ⟨hx, _, hhex⟩ := hbase
      have hbk : ∀ c ∈ k.digits, "0123456789abcdefABCDEF".toList.contains c = true := by
        intro c hc; have := hhex c hc; unfold isHex at this; exact this
      rcases hx with rfl | rfl
      · have h1 : (String.ofList ['0', 'x'] == "0b" || String.ofList ['0', 'x'] == "0B") = false := by decide
        have h2 : (String.ofList ['0', 'x'] == "0") = false := by decide
        have h3 : (String.ofList ['0', 'x'] == "0x" || String.ofList ['0', 'x'] == "0X") = true := by decide
        simp only [h1, h2, h3, Bool.false_eq_true, ↓reduceIte]
        exact badDigits_nil _ _ _ _ _ hbk
      · have h1 : (String.ofList ['0', 'X'] == "0b" || String.ofList ['0', 'X'] == "0B") = false := by decide
        have h2 : (String.ofList ['0', 'X'] == "0") = false := by decide
        have h3 : (String.ofList ['0', 'X'] == "0x" || String.ofList ['0', 'X'] == "0X") = true := by decide
        simp only [h1, h2, h3, Bool.false_eq_true, ↓reduceIte]
        exact badDigits_nil _ _ _ _ _ hbk
    | bin b =>
      rw [hbse] at hbase
      simp only at hbase ⊢
      obtain ⟨hbb, _, _⟩ := hbase
      rcases hbb with rfl | rfl
      · have h1 : (String.ofList ['0', 'b'] == "0b" || String.ofList ['0', 'b'] == "0B") = true := by decide
        simp only [h1, ↓reduceIte]
        exact badDigits_eq _ _ _ _ _ _ _ _ isBin_bucket
      · have h1 : (String.ofList ['0', 'B'] == "0b" || String.ofList ['0', 'B'] == "0B") = true := by decide
        simp only [h1, ↓reduceIte]
        exact badDigits_eq _ _ _ _ _ _ _ _ isBin_bucket

/-- every character of a constant of the given shape is a letter, a digit or an underscore -/
theorem render_word_shape (k : IntConst) (hk : k.Shape) : ∀ c ∈ k.render, c ∈ wordChars := by
  obtain ⟨hs, hbase⟩ := hk
  have hsuf := (suffixShape_facts hs).1
  have dsub : ∀ c ∈ decDigits, c ∈ wordChars := by decide
  have hsub : ∀ c ∈ hexDigits, c ∈ wordChars := by decide
  have ofDec : ∀ c, isDec c = true → c ∈ wordChars := fun c h => dsub c (by unfold isDec at h; simpa using h)
  intro c hc
  unfold IntConst.render at hc
  rcases List.mem_append.mp hc with hc | hc
  · unfold IntConst.body at hc
    cases hb : k.base with
    | dec =>
      rw [hb] at hbase hc; simp only at hbase hc
      obtain ⟨d, ds, hd, hnz, hds⟩ := hbase
      rw [hd] at hc
      rcases List.mem_cons.mp hc with rfl | hc
      · exact dsub _ (nonzero_tbl _ hnz).1
      · exact ofDec _ (hds c hc)
    | oct =>
      rw [hb] at hbase hc; simp only at hbase hc
      rcases List.mem_cons.mp hc with rfl | hc
      · decide
      · exact ofDec _ (hbase c hc)
    | hex x =>
      rw [hb] at hbase hc; simp only at hbase hc
      obtain ⟨hx, _, hh⟩ := hbase
      rcases List.mem_cons.mp hc with rfl | hc
      · decide
      · rcases List.mem_cons.mp hc with rfl | hc
        · rcases hx with rfl | rfl <;> decide
        · exact hsub _ (by have := hh c hc; unfold isHex at this; simpa using this)
    | bin b =>
      rw [hb] at hbase hc; simp only at hbase hc
      obtain ⟨hbb, _, hh⟩ := hbase
      rcases List.mem_cons.mp hc with rfl | hc
      · decide
      · rcases List.mem_cons.mp hc with rfl | hc
        · rcases hbb with rfl | rfl <;> decide
        · exact ofDec _ (hh c hc)
  · exact hsuf c hc

/-- **An integer constant of a recognised shape, well-formed or not, becomes ONE `CONSTANT` token spanning it, and
the lexer adds exactly `intReport k`** — at any position, whatever follows (within `boundaryOK`). -/
theorem int_token (u : Uni) (k : IntConst) (hk : k.Shape) (rest : List Char) (hb : boundaryOK rest)
    (s : LexSt) (hr : s.rest = k.render ++ rest) :
    ∃ s' t, trySubLexers u s = .ok (some (s', t)) ∧ t.type = "CONSTANT" ∧
      t.value = some (String.ofList k.render) ∧ t.line = s.line ∧ t.col = s.col ∧
      s'.rest = rest ∧ s'.diags = s.diags ++ intReport k s.line s.col := by
  obtain ⟨hm, hsplit⟩ := matchInt_shape u k hk rest hb
  have hdiag := intDiags_shape k hk s.line s.col
  have hfl := floatLogic_int_noMatch u k hk rest hb s.line s.col
  have hplain : ∀ c ∈ k.render, plainChar c := by
    intro c hc
    obtain ⟨a, b, c', d, e, _⟩ := word_plain c (render_word_shape k hk c hc)
    exact ⟨a, b, c', d, e⟩
  obtain ⟨p1, p2, p3⟩ := popN_plain k.render rest s hr hplain
  have hlen : k.mpre.length + k.mconst.length + k.suffix.toList.length = k.render.length := by
    rw [← hsplit]; simp; omega
  have hpf : parseFloat u s = none := by
    unfold parseFloat
    rw [hr, hfl]
    split <;> rfl
  have hpi : parseInt u s = some ({ (popN k.render.length s).1 with
        diags := (popN k.render.length s).1.diags ++ intReport k s.line s.col },
      mkTok "CONSTANT" s { (popN k.render.length s).1 with
        diags := (popN k.render.length s).1.diags ++ intReport k s.line s.col } (some k.render)) := by
    unfold parseInt
    rw [hr, hm]
    simp only [hlen]
    cases hpn : popN k.render.length s with
    | mk s2 r2 =>
      rw [hpn] at p1
      simp only at p1
      subst p1
      simp only [hdiag]
  refine ⟨{ (popN k.render.length s).1 with
        diags := (popN k.render.length s).1.diags ++ intReport k s.line s.col },
      mkTok "CONSTANT" s { (popN k.render.length s).1 with
        diags := (popN k.render.length s).1.diags ++ intReport k s.line s.col } (some k.render),
      ?_, rfl, rfl, rfl, rfl, p2, ?_⟩
  · unfold trySubLexers
    rw [hpf, hpi]
  · simp only [p3]

/-! ### what `intReport` contains -/

theorem badDigitHighlights_nil (line col off : Nat) (digits : List Char) (ok : Char → Bool)
    (h : ∀ c ∈ digits, ok c = true) : badDigitHighlights line col off digits ok = [] := by
  unfold badDigitHighlights
  rw [List.filterMap_eq_nil_iff]
  intro p hp
  have : p.1 ∈ digits := by
    obtain ⟨i, hlt, hget⟩ := List.mem_iff_getElem.mp hp
    simp at hget
    rw [← hget]; simp
  simp [h p.1 this]

/-- a well-formed constant is reported clean -/
theorem intReport_wf (k : IntConst) (hk : k.WF) (line col : Nat) : intReport k line col = [] := by
  obtain ⟨hs, hbase⟩ := hk
  unfold intReport intDigitReport
  simp only [hs, ↓reduceIte, List.nil_append]
  cases hbse : k.base with
  | dec => rfl
  | hex x => rfl
  | oct =>
    rw [hbse] at hbase
    simp only at hbase ⊢
    unfold digitReport
    rw [badDigitHighlights_nil _ _ _ _ _ hbase]; rfl
  | bin b =>
    rw [hbse] at hbase
    simp only at hbase ⊢
    unfold digitReport
    rw [badDigitHighlights_nil _ _ _ _ _ hbase.2.2]; rfl

/-- a rejected digit gives a highlight -/
theorem badDigitHighlights_ne_nil (line col off : Nat) (digits : List Char) (ok : Char → Bool)
    (h : ∃ c ∈ digits, ok c = false) : badDigitHighlights line col off digits ok ≠ [] := by
  obtain ⟨c, hc, hok⟩ := h
  unfold badDigitHighlights
  intro he
  rw [List.filterMap_eq_nil_iff] at he
  obtain ⟨i, hlt, hget⟩ := List.mem_iff_getElem.mp hc
  have hmem : (c, off + i) ∈ digits.zipIdx off := by
    rw [List.mem_zipIdx_iff_le_and_getElem?_sub]
    refine ⟨by simp, ?_⟩
    simp [hget, List.getElem?_eq_getElem hlt]
  have := he (c, off + i) hmem
  simp [hok] at this

end Norm
