/- Lemmas about the always-run checks (`Model/Checks.lean`) and their composition with the
engine loop: every token of a file that reaches a verdict is handed to them exactly once. -/
import NormModel.Model.Checks
import NormModel.Proofs.Engine
namespace Norm

theorem mem_segToks (toks : List Token) (g : Segment) (i : Nat) (tk : Token)
    (h1 : g.start ≤ i) (h2 : i < g.start + g.len) (hi : toks[i]? = some tk) : tk ∈ segToks toks g := by
  unfold segToks
  apply List.mem_of_getElem? (i := i - g.start)
  rw [List.getElem?_take]
  have : i - g.start < g.len := by omega
  simp only [this, ↓reduceIte, List.getElem?_drop]
  have : g.start + (i - g.start) = i := by omega
  rw [this]; exact hi

theorem segToks_sub (toks : List Token) (g : Segment) (tk : Token) (h : tk ∈ segToks toks g) : tk ∈ toks :=
  List.mem_of_mem_drop (List.mem_of_mem_take h)

/-- in a run that reaches a verdict with `debug = 0`, every token index lies in some statement -/
theorem index_in_some_segment {σ : Type} (step : σ → Nat → StepRes σ) (s s' : σ) (n : Nat)
    (t : List Segment) (u : List Nat) (h : engineRun step 0 s n = .ok s' t u)
    (i : Nat) (hi : i < n) : ∃ g ∈ t, g.start ≤ i ∧ i < g.start + g.len := by
  unfold engineRun at h
  have post := engineLoop_post step 0 n _ _ _ _ _ _ _ (einv_init n 0) _ _ _ h
  have hu : u = [] := post.2 rfl
  have hc := post.1.cov i
  subst hu
  simp only [cover, List.count_nil, Nat.add_zero, hi, ↓reduceIte] at hc
  have hne : (t.filter (fun g => decide (g.start ≤ i ∧ i < g.start + g.len))) ≠ [] := by
    intro e; rw [e] at hc; simp at hc
  obtain ⟨g, hg⟩ := List.exists_mem_of_ne_nil _ hne
  rw [List.mem_filter] at hg
  exact ⟨g, hg.1, of_decide_eq_true hg.2⟩

/-- in a run that reaches a verdict with `debug = 0`, every token belongs to some statement -/
theorem token_in_some_segment {σ : Type} (step : σ → Nat → StepRes σ) (s s' : σ) (toks : List Token)
    (t : List Segment) (u : List Nat) (h : engineRun step 0 s toks.length = .ok s' t u)
    (tk : Token) (htk : tk ∈ toks) : ∃ g ∈ t, tk ∈ segToks toks g := by
  obtain ⟨i, hi, hget⟩ := List.getElem_of_mem htk
  unfold engineRun at h
  have post := engineLoop_post step 0 toks.length _ _ _ _ _ _ _ (einv_init toks.length 0) _ _ _ h
  have hu : u = [] := post.2 rfl
  have hc := post.1.cov i
  subst hu
  simp only [cover, List.count_nil, Nat.add_zero, hi, ↓reduceIte] at hc
  have hne : (t.filter (fun g => decide (g.start ≤ i ∧ i < g.start + g.len))) ≠ [] := by
    intro e; rw [e] at hc; simp at hc
  obtain ⟨g, hg⟩ := List.exists_mem_of_ne_nil _ hne
  rw [List.mem_filter] at hg
  have hb := of_decide_eq_true hg.2
  refine ⟨g, hg.1, mem_segToks toks g i tk hb.1 hb.2 ?_⟩
  rw [List.getElem?_eq_getElem hi, hget]

theorem lineLenToks_sound (seg : List Token) (seen : List Nat) (t : Token) (h : t ∈ lineLenToks seg seen) :
    t ∈ seg ∧ 81 < t.col ∧ t.line ∉ seen := by
  induction seg generalizing seen with
  | nil => simp [lineLenToks] at h
  | cons a rest ih =>
    unfold lineLenToks at h
    split at h
    · rename_i hc
      simp only [Bool.and_eq_true, decide_eq_true_eq, Bool.not_eq_true', ← Bool.not_eq_true] at hc
      rcases List.mem_cons.mp h with rfl | h
      · refine ⟨by simp, hc.1, ?_⟩
        intro hm; exact hc.2 (by simpa using hm)
      · obtain ⟨h1, h2, h3⟩ := ih _ h
        exact ⟨List.mem_cons_of_mem _ h1, h2, fun hm => h3 (List.mem_cons_of_mem _ hm)⟩
    · obtain ⟨h1, h2, h3⟩ := ih _ h
      exact ⟨List.mem_cons_of_mem _ h1, h2, h3⟩

theorem lineLenToks_complete (seg : List Token) (seen : List Nat) (l : Nat) (hs : l ∉ seen)
    (h : ∃ t ∈ seg, t.line = l ∧ 81 < t.col) : ∃ t ∈ lineLenToks seg seen, t.line = l ∧ 81 < t.col := by
  induction seg generalizing seen with
  | nil => obtain ⟨t, ht, _⟩ := h; cases ht
  | cons a rest ih =>
    obtain ⟨t, ht, hl, hc⟩ := h
    unfold lineLenToks
    by_cases hcond : (decide (81 < a.col) && !seen.contains a.line) = true
    · simp only [hcond, ↓reduceIte]
      simp only [Bool.and_eq_true, decide_eq_true_eq, Bool.not_eq_true', ← Bool.not_eq_true] at hcond
      by_cases hal : a.line = l
      · exact ⟨a, by simp, hal, hcond.1⟩
      · rcases List.mem_cons.mp ht with rfl | ht
        · exact absurd hl hal
        · have hs' : l ∉ a.line :: seen := by
            intro hm; rcases List.mem_cons.mp hm with e | e
            · exact hal e.symm
            · exact hs e
          obtain ⟨t', ht', h1, h2⟩ := ih _ hs' ⟨t, ht, hl, hc⟩
          exact ⟨t', List.mem_cons_of_mem _ ht', h1, h2⟩
    · simp only [hcond, Bool.false_eq_true, ↓reduceIte]
      rcases List.mem_cons.mp ht with rfl | ht
      · -- the head itself qualifies: the condition cannot be false
        exfalso; apply hcond
        simp only [Bool.and_eq_true, decide_eq_true_eq, Bool.not_eq_true', ← Bool.not_eq_true]
        refine ⟨hc, ?_⟩
        intro hm; rw [hl] at hm; exact hs (by simpa using hm)
      · exact ih _ hs ⟨t, ht, hl, hc⟩

end Norm
