/- Inside a literal or a comment, plain characters are consumed one by one, each advancing
one column and producing no diagnostic: what the lexer does there depends on the *length* of
the text only (C17), and the same holds for identifier characters (C18). -/
import NormModel.Proofs.LiteralsLex
namespace Norm
open Spec

/-- a plain character that is neither newline nor tab -/
def OpaqueChar (c : Char) : Prop := plainChar c ∧ c ≠ '\n' ∧ c ≠ '\t'

/-- one `pop` on an opaque character: the full result, whatever the flags -/
theorem popOne_opaque (us ue : Bool) (s : LexSt) (c : Char) (tl : List Char) (hr : s.rest = c :: tl)
    (hc : OpaqueChar c) :
    popOne us ue s = ({ s with rest := tl, pos := s.pos + 1, col := s.col + 1 }, some [c]) := by
  obtain ⟨⟨h1, h2, h3, h4, h5⟩, hn, ht⟩ := hc
  have hpk : peek1 s.rest 0 = some (c, 1) := by rw [hr]; exact peek1_raw h1 h2 h3 h4
  have hs : spliceLoop (s.rest.length + 1) s = (s, some (c, 1)) := by
    unfold spliceLoop
    simp only [hpk]
    have : (c != '\\') = true := by simp [h5]
    simp [this]
  unfold popOne
  rw [hs]
  simp only
  have he : escOf ue s c 1 = ([c], 1, [], 0) := by
    unfold escOf
    have : (c == '\\') = false := by simp [h5]
    simp [this]
  rw [he]
  unfold finishPop
  have e1 : ([c] == ['\n']) = false := by simp [hn]
  have e2 : ([c] == ['\t']) = false := by simp [ht]
  simp only [e1, e2, Bool.false_eq_true, ↓reduceIte, List.append_nil, advance, hr, List.drop_succ_cons, List.drop_zero]

/-- the state after consuming `n` opaque characters -/
def shiftCols (s : LexSt) (n : Nat) (tl : List Char) : LexSt :=
  { s with rest := tl, pos := s.pos + n, col := s.col + n }

/-- **String bodies are opaque**: a run of opaque characters other than `"` followed by the
closing quote is swallowed character by character; the resulting state, diagnostics and the
*shape* of the value depend on the number of characters only. -/
theorem strLoop_opaque (body tl : List Char) (s : LexSt) (v : List Char) (fuel : Nat)
    (hr : s.rest = body ++ '"' :: tl) (hb : ∀ c ∈ body, OpaqueChar c ∧ c ≠ '"') (hf : body.length + 1 ≤ fuel) :
    strLoop fuel s v = (shiftCols s (body.length + 1) tl, v ++ body ++ ['"'], false) := by
  induction body generalizing s v fuel with
  | nil =>
    cases fuel with
    | zero => omega
    | succ fuel =>
      unfold strLoop
      have hq : OpaqueChar '"' := by unfold OpaqueChar plainChar; decide
      have hpk : peek1 s.rest 0 = some ('"', 1) := by
        rw [hr]; exact peek1_raw (by decide) (by decide) (by decide) (by decide)
      simp only [hpk]
      rw [popOne_opaque false true s '"' tl (by simpa using hr) hq]
      simp [shiftCols]
  | cons c cs ih =>
    cases fuel with
    | zero => simp at hf
    | succ fuel =>
      obtain ⟨hc, hcq⟩ := hb c (by simp)
      unfold strLoop
      have hpk : peek1 s.rest 0 = some (c, 1) := by
        rw [hr]; exact peek1_raw hc.1.1 hc.1.2.1 hc.1.2.2.1 hc.1.2.2.2.1
      simp only [hpk]
      rw [popOne_opaque false true s c (cs ++ '"' :: tl) (by simpa using hr) hc]
      simp only
      have hne : ([c] == ['"']) = false := by simp [hcq]
      simp only [hne, Bool.false_eq_true, ↓reduceIte]
      rw [ih _ _ fuel rfl (fun d hd => hb d (by simp [hd])) (by simp at hf; omega)]
      simp [shiftCols]
      omega

/-- **Identifier characters are opaque**: the identifier loop consumes a run of identifier
characters one column each; where it stops and what it records depends on the length only. -/
theorem identLoop_opaque (body tl : List Char) (s : LexSt) (v : List Char) (fuel : Nat)
    (hr : s.rest = body ++ tl) (hb : ∀ c ∈ body, isIdChar c = true)
    (hstop : ∀ c, tl.head? = some c → isIdChar c = false) (hf : body.length + 1 ≤ fuel) :
    identLoop fuel s v = (shiftCols s body.length tl, v ++ body) := by
  have idplain : ∀ c, isIdChar c = true → OpaqueChar c := by
    intro c hc
    have hw : c ∈ wordChars := by
      unfold isIdChar isAsciiLetter isAsciiDigit at hc
      simp only [Bool.or_eq_true, List.contains_eq_mem, decide_eq_true_eq, beq_iff_eq] at hc
      rcases hc with (h | h) | h
      · exact letters_sub_word c h
      · exact digits_sub_word c h
      · subst h; decide
    obtain ⟨a, b, c', d, e, f, g⟩ := word_plain c hw
    exact ⟨⟨a, b, c', d, e⟩, f, g⟩
  induction body generalizing s v fuel with
  | nil =>
    cases fuel with
    | zero => omega
    | succ fuel =>
      unfold identLoop
      simp only [List.nil_append] at hr
      cases htl : tl with
      | nil => rw [hr, htl]; simp [shiftCols]; cases s; simp_all
      | cons d ds =>
        rw [hr, htl]
        have := hstop d (by rw [htl]; rfl)
        simp only [this, Bool.false_eq_true, ↓reduceIte]
        simp [shiftCols]; cases s; simp_all
  | cons c cs ih =>
    cases fuel with
    | zero => simp at hf
    | succ fuel =>
      have hc := hb c (by simp)
      unfold identLoop
      rw [hr]
      simp only [List.cons_append, hc, ↓reduceIte]
      rw [popOne_opaque false false s c (cs ++ tl) (by simpa using hr) (idplain c hc)]
      simp only
      rw [ih _ _ fuel rfl (fun d hd => hb d (by simp [hd])) (by simp at hf; omega)]
      simp [shiftCols]
      omega

end Norm
