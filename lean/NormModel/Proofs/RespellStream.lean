/- Reading equivalence through `get_next_token` and the whole token stream. -/
import NormModel.Proofs.RespellTokens
namespace Norm
open Spec

def ChainSimC : Except LexExc (Option (LexSt × Token)) → Except LexExc (Option (LexSt × Token)) → Prop
  | .ok x, .ok y => TokSimC x y
  | .error e, .error e' => e = e'
  | _, _ => False

/-- "this sub-lexer, else the rest of the chain" -/
def orElse (x : Option (LexSt × Token)) (k : Except LexExc (Option (LexSt × Token))) : Except LexExc (Option (LexSt × Token)) :=
  match x with
  | some r => .ok (some r)
  | none => k

theorem chain_step {x y : Option (LexSt × Token)} (hxy : TokSimC x y)
    {ka kb : Except LexExc (Option (LexSt × Token))} (hk : ChainSimC ka kb) :
    ChainSimC (orElse x ka) (orElse y kb) := by
  cases x with
  | none => cases y with
    | none => exact hk
    | some q => exact hxy.elim
  | some p => cases y with
    | none => exact hxy.elim
    | some q => exact hxy

/-- the end of the chain: operators (a miss in the table is a `KeyError`), then brackets -/
def opTail (s : LexSt) : Except LexExc (Option (LexSt × Token)) :=
  match parseOperator s with
  | none => .error .keyError
  | some (some r) => .ok (some r)
  | some none => .ok (parseBrackets s)

theorem trySubLexers_chain (u : Uni) (s : LexSt) : trySubLexers u s =
    orElse (parseFloat u s) (orElse (parseInt u s) (orElse (parseChar s) (orElse (parseString s) (orElse (parseIdent s)
      (orElse (parseWhitespace s) (orElse (parseLineComment s) (orElse (parseMultiComment s) (opTail s)))))))) := by
  rfl

/-- **One round of the sub-lexer chain** gives the same token in both texts. -/
theorem trySubLexers_readEq (u : Uni) (s t : LexSt) (h : ReadEq s.rest t.rest) :
    ChainSimC (trySubLexers u s) (trySubLexers u t) := by
  rw [trySubLexers_chain, trySubLexers_chain]
  refine chain_step (parseFloat_readEq u s t h) (chain_step (parseInt_readEq u s t h) (chain_step (parseChar_readEq s t h)
    (chain_step (parseString_readEq s t h) (chain_step (parseIdent_readEq s t h) (chain_step (parseWhitespace_readEq s t h)
    (chain_step (parseLineComment_readEq s t h) (chain_step (parseMultiComment_readEq s t h) ?_)))))))
  have ho := parseOperator_readEq s t h
  have hb := (parseBrackets_readEq s t h).toC
  unfold opTail
  cases hos : parseOperator s with
  | none =>
    cases hot : parseOperator t with
    | none => rfl
    | some y => rw [hos, hot] at ho; exact ho.elim
  | some x =>
    cases hot : parseOperator t with
    | none => rw [hos, hot] at ho; exact ho.elim
    | some y =>
      rw [hos, hot] at ho
      cases x with
      | none =>
        cases y with
        | none => exact hb
        | some y => exact ho.elim
      | some x =>
        cases y with
        | none => exact ho.elim
        | some y => exact TokSim.toC (show TokSim (some x) (some y) from ho)

/-! ### splices between tokens -/

/-- the raw size of a line splice at the head of the text, in either spelling -/
def spliceHead (l : List Char) : Option Nat :=
  if rawPeek l 0 2 == some ['\\', '\n'] then some 2
  else if rawPeek l 0 4 == some ['?', '?', '/', '\n'] then some 4 else none

theorem skipSplices_step (fuel : Nat) (s : LexSt) : skipSplices (fuel + 1) s =
    (match spliceHead s.rest with
     | some k => skipSplices fuel { advance s k with line := s.line + 1, col := 1 }
     | none => s) := by
  unfold spliceHead
  conv => lhs; unfold skipSplices
  split
  · rfl
  · split <;> rfl

theorem tri_backslash : ∀ p ∈ Generated.trigraphs, p.2.toList.head? = some '\\' → p.1 = "??/" := by decide
theorem di_no_backslash : ∀ p ∈ Generated.digraphs, p.2.toList.head? ≠ some '\\' := by decide

theorem spliceHead_reads {l : List Char} {k : Nat} (h : spliceHead l = some k) :
    1 ≤ k ∧ peek1 l 0 = some ('\\', k - 1) ∧ peek1 (l.drop (k - 1)) 0 = some ('\n', 1) := by
  unfold spliceHead at h
  split at h
  · rename_i h1
    simp only [Option.some.injEq] at h; subst h
    have h1' : rawPeek l 0 2 = some ['\\', '\n'] := by simpa using h1
    unfold rawPeek at h1'
    split at h1'
    · simp only [List.drop_zero, Option.some.injEq] at h1'
      have e : l = ['\\', '\n'] ++ l.drop 2 := by rw [← h1', List.take_append_drop]
      rw [e]
      exact ⟨by omega, peek1_raw (by decide) (by decide) (by decide) (by decide),
        peek1_raw (by decide) (by decide) (by decide) (by decide)⟩
    · cases h1'
  · split at h
    · rename_i _ h2
      simp only [Option.some.injEq] at h; subst h
      have h2' : rawPeek l 0 4 = some ['?', '?', '/', '\n'] := by simpa using h2
      unfold rawPeek at h2'
      split at h2'
      · simp only [List.drop_zero, Option.some.injEq] at h2'
        have e : l = ['?', '?', '/', '\n'] ++ l.drop 4 := by rw [← h2', List.take_append_drop]
        rw [e]
        refine ⟨by omega, ?_, peek1_raw (by decide) (by decide) (by decide) (by decide)⟩
        have ht : triAt ('?' :: '?' :: '/' :: '\n' :: l.drop 4) = some '\\' := by simp only [triAt]; decide
        unfold peek1
        simp only [List.cons_append, List.nil_append, List.drop_zero, ht]
      · cases h2'
    · cases h

theorem reads_spliceHead {l : List Char} {j m : Nat} (h1 : peek1 l 0 = some ('\\', j))
    (h2 : peek1 (l.drop j) 0 = some ('\n', m)) : spliceHead l = some (j + 1) := by
  obtain ⟨hm, hhead⟩ := peek1_ws h2 (Or.inl rfl)
  simp only [List.drop_zero] at hhead
  cases l with
  | nil => simp [peek1, triAt, diAt] at h1
  | cons x tl =>
    unfold peek1 at h1
    simp only [List.drop_zero] at h1
    cases ht : triAt (x :: tl) with
    | some c =>
      rw [ht] at h1
      simp only [Option.some.injEq, Prod.mk.injEq] at h1
      obtain ⟨rfl, rfl⟩ := h1
      -- the trigraph is `??/`
      unfold triAt at ht
      split at ht
      · rename_i c2 rest heq
        simp only [Option.bind_eq_some_iff] at ht
        obtain ⟨v, hv, hh⟩ := ht
        have := tri_backslash _ (assoc_mem hv) hh
        have e2 : ['?', '?', c2] = "??/".toList := by
          have := congrArg String.toList this
          simpa using this
        have hc2 : c2 = '/' := by
          have e3 : "??/".toList = ['?', '?', '/'] := by decide
          rw [e3] at e2
          simpa using e2
        subst hc2
        rw [heq] at hhead ⊢
        simp only [List.drop_succ_cons, List.drop_zero] at hhead
        cases rest with
        | nil => simp at hhead
        | cons y ys =>
          simp only [List.head?_cons, Option.some.injEq] at hhead
          subst hhead
          simp [spliceHead, rawPeek]
      · cases ht
    | none =>
      rw [ht] at h1
      simp only at h1
      cases hd : diAt (x :: tl) with
      | some d =>
        rw [hd] at h1
        simp only [Option.some.injEq, Prod.mk.injEq] at h1
        obtain ⟨rfl, rfl⟩ := h1
        exfalso
        unfold diAt at hd
        split at hd
        · simp only [Option.bind_eq_some_iff] at hd
          obtain ⟨v, hv, hh⟩ := hd
          exact di_no_backslash _ (assoc_mem hv) hh
        · cases hd
      | none =>
        rw [hd] at h1
        simp only [Option.some.injEq, Prod.mk.injEq] at h1
        obtain ⟨rfl, rfl⟩ := h1
        simp only [List.drop_succ_cons, List.drop_zero] at hhead
        cases tl with
        | nil => simp at hhead
        | cons y ys =>
          simp only [List.head?_cons, Option.some.injEq] at hhead
          subst hhead
          simp [spliceHead, rawPeek]

theorem spliceHead_readEq {a b : List Char} (h : ReadEq a b) :
    (spliceHead a = none ∧ spliceHead b = none) ∨
    ∃ ka kb, spliceHead a = some ka ∧ spliceHead b = some kb ∧ ReadEq (a.drop ka) (b.drop kb) := by
  have key : ∀ {l m : List Char} {k : Nat}, ReadEq l m → spliceHead l = some k →
      ∃ k', spliceHead m = some k' ∧ ReadEq (l.drop k) (m.drop k') := by
    intro l m k hlm hk
    obtain ⟨hk1, r1, r2⟩ := spliceHead_reads hk
    rcases hlm.peek with ⟨g1, _, _, _⟩ | ⟨c, ja, jb, g1, g2, g3⟩
    · rw [r1] at g1; cases g1
    · rw [r1] at g1
      simp only [Option.some.injEq, Prod.mk.injEq] at g1
      obtain ⟨rfl, rfl⟩ := g1
      rcases g3.peek with ⟨f1, _, _, _⟩ | ⟨d, ia, ib, f1, f2, f3⟩
      · rw [r2] at f1; cases f1
      · rw [r2] at f1
        simp only [Option.some.injEq, Prod.mk.injEq] at f1
        obtain ⟨rfl, rfl⟩ := f1
        obtain ⟨hib, _⟩ := peek1_ws f2 (Or.inl rfl)
        subst hib
        refine ⟨jb + 1, reads_spliceHead g2 f2, ?_⟩
        have : k = (k - 1) + 1 := by omega
        rw [this, ← List.drop_drop, ← List.drop_drop]
        exact f3
  cases ha : spliceHead a with
  | some ka =>
    obtain ⟨kb, hb, hr⟩ := key h ha
    exact Or.inr ⟨ka, kb, rfl, hb, hr⟩
  | none =>
    cases hb : spliceHead b with
    | none => exact Or.inl ⟨rfl, rfl⟩
    | some kb =>
      obtain ⟨ka, ha', _⟩ := key h.symm hb
      rw [ha] at ha'; cases ha'

theorem skipSplices_readEq (fa : Nat) : ∀ (fb : Nat) (s t : LexSt), s.rest.length < fa → t.rest.length < fb →
    ReadEq s.rest t.rest → ReadEq (skipSplices fa s).rest (skipSplices fb t).rest := by
  induction fa with
  | zero => intro fb s t h; omega
  | succ fa ih =>
    intro fb s t hfa hfb h
    cases fb with
    | zero => omega
    | succ fb =>
      rw [skipSplices_step, skipSplices_step]
      rcases spliceHead_readEq h with ⟨h1, h2⟩ | ⟨ka, kb, h1, h2, h3⟩
      · rw [h1, h2]; exact h
      · rw [h1, h2]
        simp only
        obtain ⟨ka1, ra1, _⟩ := spliceHead_reads h1
        obtain ⟨kb1, rb1, _⟩ := spliceHead_reads h2
        obtain ⟨_, la, _⟩ := peek1_spec ra1
        obtain ⟨_, lb, _⟩ := peek1_spec rb1
        apply ih
        · simp only [advance, List.length_drop]; omega
        · simp only [advance, List.length_drop]; omega
        · simpa [advance] using h3

/-! ### the whole stream -/

/-- What the items of two lexings have in common: tokens of the same kind with the same value (the text of a block
comment excepted), the same bad lexemes — up to a bad lexeme whose character is not plain (in practice a stray
backslash, written `\` or `??/`): there each lexer skips one raw character and nothing is claimed after it. -/
inductive ItemsSim : List Item → List Item → Prop
  | nil : ItemsSim [] []
  | tok {x y : Token} {xs ys : List Item} : x.type = y.type → (x.type ≠ "MULT_COMMENT" → x.value = y.value) →
      ItemsSim xs ys → ItemsSim (.tok x :: xs) (.tok y :: ys)
  | bad {c : Char} {p q : Nat} {xs ys : List Item} : Plain c → ItemsSim xs ys → ItemsSim (.bad c p :: xs) (.bad c q :: ys)
  | stray {c d : Char} {p q : Nat} {xs ys : List Item} : ¬ Plain c → ¬ Plain d → ItemsSim (.bad c p :: xs) (.bad d q :: ys)

theorem badLexeme_rest (s : LexSt) (c : Char) : (badLexeme s c).rest = s.rest.drop 1 := rfl

theorem lexItems_readEq (u : Uni) (fa : Nat) : ∀ (fb : Nat) (s t : LexSt) (ia ib : List Item) (sa sb : LexSt),
    lexItems u fa s = .ok (ia, sa) → lexItems u fb t = .ok (ib, sb) → ReadEq s.rest t.rest → ItemsSim ia ib := by
  induction fa with
  | zero => intro fb s t ia ib sa sb h; simp [lexItems] at h
  | succ fa ih =>
    intro fb s t ia ib sa sb ha hb h
    cases fb with
    | zero => simp [lexItems] at hb
    | succ fb =>
      unfold lexItems at ha hb
      simp only at ha hb
      have hsk := skipSplices_readEq (s.rest.length + 1) (t.rest.length + 1) s t (by omega) (by omega) h
      have hch := trySubLexers_readEq u _ _ hsk
      cases hta : trySubLexers u (skipSplices (s.rest.length + 1) s) with
      | error e => rw [hta] at ha; cases ha
      | ok ra =>
        cases htb : trySubLexers u (skipSplices (t.rest.length + 1) t) with
        | error e => rw [htb] at hb; cases hb
        | ok rb =>
          rw [hta] at ha hch
          rw [htb] at hb hch
          cases ra with
          | some pa =>
            cases rb with
            | none => exact hch.elim
            | some pb =>
              obtain ⟨s1, x⟩ := pa
              obtain ⟨t1, y⟩ := pb
              obtain ⟨h1, h2, h3⟩ := hch
              simp only at ha hb
              cases hra : lexItems u fa s1 with
              | error e => rw [hra] at ha; cases ha
              | ok pa' =>
                cases hrb : lexItems u fb t1 with
                | error e => rw [hrb] at hb; cases hb
                | ok pb' =>
                  rw [hra] at ha
                  rw [hrb] at hb
                  obtain ⟨ia', sa'⟩ := pa'
                  obtain ⟨ib', sb'⟩ := pb'
                  simp only [Except.ok.injEq, Prod.mk.injEq] at ha hb
                  obtain ⟨rfl, _⟩ := ha
                  obtain ⟨rfl, _⟩ := hb
                  exact ItemsSim.tok h1 h2 (ih fb s1 t1 ia' ib' sa' sb' hra hrb h3)
          | none =>
            cases rb with
            | some pb => exact hch.elim
            | none =>
              simp only at ha hb
              cases hxa : (skipSplices (s.rest.length + 1) s).rest with
              | nil =>
                rw [hxa] at ha hsk
                have hxb := hsk.nil_left
                rw [hxb] at hb
                simp only [Except.ok.injEq, Prod.mk.injEq] at ha hb
                obtain ⟨rfl, _⟩ := ha
                obtain ⟨rfl, _⟩ := hb
                exact ItemsSim.nil
              | cons x xs =>
                cases hxb : (skipSplices (t.rest.length + 1) t).rest with
                | nil => rw [hxa, hxb] at hsk; have := hsk.nil_right; cases this
                | cons y ys =>
                  rw [hxa] at ha
                  rw [hxb] at hb
                  simp only at ha hb
                  cases hra : lexItems u fa (badLexeme (skipSplices (s.rest.length + 1) s) x) with
                  | error e => rw [hra] at ha; cases ha
                  | ok pa' =>
                    cases hrb : lexItems u fb (badLexeme (skipSplices (t.rest.length + 1) t) y) with
                    | error e => rw [hrb] at hb; cases hb
                    | ok pb' =>
                      rw [hra] at ha
                      rw [hrb] at hb
                      obtain ⟨ia', sa'⟩ := pa'
                      obtain ⟨ib', sb'⟩ := pb'
                      simp only [Except.ok.injEq, Prod.mk.injEq] at ha hb
                      obtain ⟨rfl, _⟩ := ha
                      obtain ⟨rfl, _⟩ := hb
                      rw [hxa, hxb] at hsk
                      by_cases hpx : Plain x
                      · obtain ⟨b', e, hr⟩ := hsk.head_plain hpx
                        simp only [List.cons.injEq] at e
                        obtain ⟨rfl, rfl⟩ := e
                        refine ItemsSim.bad hpx (ih fb _ _ ia' ib' sa' sb' hra hrb ?_)
                        rw [badLexeme_rest, badLexeme_rest, hxa, hxb]
                        simpa using hr
                      · have hpy : ¬ Plain y := by
                          intro hpy
                          obtain ⟨a', e, _⟩ := hsk.symm.head_plain hpy
                          simp only [List.cons.injEq] at e
                          rw [e.1] at hpx; exact hpx hpy
                        exact ItemsSim.stray hpx hpy

/-- **The token stream is the same in every spelling**: two texts that read as the same characters (in particular a
text and any safe respelling of it, `C12.respelled_reads_same`) are lexed into items that correspond one to one. -/
theorem lex_readEq (u : Uni) (a b : List Char) (ra rb : LexResult) (ha : lex u a = .ok ra) (hb : lex u b = .ok rb)
    (h : ReadEq a b) : ItemsSim ra.items rb.items := by
  unfold lex at ha hb
  cases hia : lexItems u (a.length + 1) { rest := a } with
  | error e => rw [hia] at ha; cases ha
  | ok pa =>
    cases hib : lexItems u (b.length + 1) { rest := b } with
    | error e => rw [hib] at hb; cases hb
    | ok pb =>
      rw [hia] at ha
      rw [hib] at hb
      obtain ⟨ia, sa⟩ := pa
      obtain ⟨ib, sb⟩ := pb
      simp only [Except.ok.injEq] at ha hb
      subst ha; subst hb
      exact lexItems_readEq u _ _ _ _ ia ib sa sb hia hib h

end Norm
