/- A stable sort of a permutation by an injective key is unique. -/
import NormModel.Proofs.Sort
namespace Norm

variable {α : Type}

/-- two lists that are permutations of each other and both strictly sorted are equal -/
theorem eq_of_perm_of_strict_sorted {lt : α → α → Prop}
    (irrefl : ∀ a, ¬ lt a a) (asymm : ∀ a b, lt a b → ¬ lt b a)
    {l₁ l₂ : List α} (hp : l₁.Perm l₂) (h₁ : l₁.Pairwise lt) (h₂ : l₂.Pairwise lt) : l₁ = l₂ := by
  induction l₁ generalizing l₂ with
  | nil => exact (List.Perm.nil_eq hp)
  | cons a t ih =>
    cases l₂ with
    | nil => exact absurd hp.symm.nil_eq (by simp)
    | cons b u =>
      rw [List.pairwise_cons] at h₁ h₂
      have hab : a = b := by
        have ha : a ∈ b :: u := hp.subset (by simp)
        have hb : b ∈ a :: t := hp.symm.subset (by simp)
        rcases List.mem_cons.mp ha with h | h
        · exact h
        · rcases List.mem_cons.mp hb with h' | h'
          · exact h'.symm
          · exact absurd (h₁.1 b h') (asymm _ _ (h₂.1 a h))
      subst hab
      congr 1
      exact ih (List.Perm.cons_inv hp) h₁.2 h₂.2

end Norm
