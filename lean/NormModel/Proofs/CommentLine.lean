/- A block-comment line in front of a text: the lexer reads it as one MULT_COMMENT token and one NEWLINE token and then
stands at column 1 of the next line, in front of the text (the reachability half of C19's header clause). -/
import NormModel.Proofs.RespellStream
namespace Norm
open Spec

/-- every character of `body`, followed by `after`, is read as itself and is no backslash, newline or tab -/
inductive SelfReads : List Char → List Char → Prop
  | nil (after : List Char) : SelfReads [] after
  | cons (c : Char) (body after : List Char) : peek1 (c :: (body ++ after)) 0 = some (c, 1) → c ≠ '\\' → c ≠ '\n' → c ≠ '\t' →
      SelfReads body after → SelfReads (c :: body) after

/-- the text `v ++ body` does not close a block comment before its end -/
def NoEarlyClose (v body : List Char) : Prop :=
  ∀ n, 0 < n → n ≤ body.length → (endsWithStarSlash (v ++ body.take n) && decide ((v ++ body.take n).length ≥ 4)) = false

theorem NoEarlyClose.tail {v : List Char} {c : Char} {body : List Char} (h : NoEarlyClose v (c :: body)) :
    NoEarlyClose (v ++ [c]) body := by
  intro n hn hle
  have := h (n + 1) (by omega) (by simp; omega)
  simpa [List.take_succ_cons, List.append_assoc] using this

/-- the body loop of `parse_multi_line_comment` on `body */`: it stops right after the `*/` -/
theorem multiCommentLoop_line (body tl : List Char) : ∀ (fuel : Nat) (s : LexSt) (v : List Char),
    s.rest = body ++ '*' :: '/' :: tl → body.length + 2 ≤ fuel → SelfReads body ('*' :: '/' :: tl) → NoEarlyClose v body →
    2 ≤ v.length →
    multiCommentLoop fuel s v =
      ({ s with rest := tl, pos := s.pos + (body.length + 2), col := s.col + (body.length + 2) }, v ++ body ++ ['*', '/'], false) := by
  induction body with
  | nil =>
    intro fuel s v hr hf _ _ hv
    simp only [List.nil_append] at hr
    obtain ⟨f1, rfl⟩ : ∃ f1, fuel = f1 + 2 := ⟨fuel - 2, by simp at hf; omega⟩
    have hp0 : peek1 s.rest 0 = some ('*', 1) := by rw [hr]; exact peek1_raw (by decide) (by decide) (by decide) (by decide)
    have h1 := popOne_peeked true false s '*' ('/' :: tl) hr hp0 (by decide) (by decide) (by decide)
    unfold multiCommentLoop
    rw [hp0]
    simp only
    rw [h1]
    simp only
    have e1 : (endsWithStarSlash (v ++ ['*']) && decide ((v ++ ['*']).length ≥ 4)) = false := by
      rw [endsWithStarSlash_snoc]; simp
    simp only [e1, Bool.false_eq_true, ↓reduceIte]
    have hp1 : peek1 ('/' :: tl) 0 = some ('/', 1) := peek1_raw (by decide) (by decide) (by decide) (by decide)
    have h2 := popOne_peeked true false { s with rest := '/' :: tl, pos := s.pos + 1, col := s.col + 1 } '/' tl rfl hp1
      (by decide) (by decide) (by decide)
    unfold multiCommentLoop
    simp only [hp1]
    rw [h2]
    simp only
    have e2 : (endsWithStarSlash (v ++ ['*'] ++ ['/']) && decide ((v ++ ['*'] ++ ['/']).length ≥ 4)) = true := by
      rw [endsWithStarSlash_snoc]
      simp
      omega
    simp only [e2, ↓reduceIte, List.length_nil, Nat.zero_add, List.append_nil]
    simp [List.append_assoc, Nat.add_assoc]
  | cons c body ih =>
    intro fuel s v hr hf hsr hnc hv
    cases hsr with
    | cons _ _ _ hpk hc1 hc2 hc3 hrest =>
      obtain ⟨f1, rfl⟩ : ∃ f1, fuel = f1 + 1 := ⟨fuel - 1, by simp at hf; omega⟩
      have hr' : s.rest = c :: (body ++ '*' :: '/' :: tl) := by rw [hr]; rfl
      have hp0 : peek1 s.rest 0 = some (c, 1) := by rw [hr']; exact hpk
      have h1 := popOne_peeked true false s c (body ++ '*' :: '/' :: tl) hr' hp0 hc1 hc2 hc3
      unfold multiCommentLoop
      rw [hp0]
      simp only
      rw [h1]
      simp only
      have e1 : (endsWithStarSlash (v ++ [c]) && decide ((v ++ [c]).length ≥ 4)) = false := by
        have := hnc 1 (by omega) (by simp)
        simpa using this
      simp only [e1, Bool.false_eq_true, ↓reduceIte]
      have := ih f1 { s with rest := body ++ '*' :: '/' :: tl, pos := s.pos + 1, col := s.col + 1 } (v ++ [c]) rfl
        (by simp at hf ⊢; omega) hrest hnc.tail (by simp; omega)
      rw [this]
      simp [List.append_assoc, Nat.add_assoc, Nat.add_comm 1]

theorem selfReads_clean {body after : List Char} (h : SelfReads body after) : ∀ c ∈ body, c ≠ '\n' ∧ c ≠ '\t' := by
  induction h with
  | nil _ => intro c hc; cases hc
  | cons c body after _ _ h2 h3 _ ih =>
    intro x hx
    rcases List.mem_cons.mp hx with rfl | hx
    · exact ⟨h2, h3⟩
    · exact ih x hx

/-- the sub-lexers tried before the block-comment one say "not mine" at `/*` -/
theorem early_none_slash_star (u : Uni) (s : LexSt) (tl : List Char) (hr : s.rest = '/' :: '*' :: tl) :
    parseFloat u s = none ∧ parseInt u s = none ∧ parseChar s = none ∧ parseString s = none ∧ parseIdent s = none ∧
    parseWhitespace s = none ∧ parseLineComment s = none := by
  have hd : u.isD '/' = false := by unfold Uni.isD; simp; decide
  obtain ⟨n1, n2⟩ := numeric_fail u s '/' ('*' :: tl) hr hd (by decide)
  have hne : s.rest ≠ [] := by rw [hr]; simp
  have hnp : ∀ q : Char, ∀ p ∈ Generated.quotePrefixes,
      ¬ (p.toList.isPrefixOf s.rest = true ∧ s.rest[p.toList.length]? = some q) := by
    intro q p hp ⟨hpre, _⟩
    obtain ⟨_, _, hid, hnn⟩ := quotePrefixes_tbl p hp
    rw [hr] at hpre
    cases hpl : p.toList with
    | nil => exact hnn hpl
    | cons p0 ps =>
      rw [hpl] at hpre hid
      simp only [List.isPrefixOf, Bool.and_eq_true, beq_iff_eq] at hpre
      have := hid p0 (by simp)
      rw [hpre.1] at this
      revert this; decide
  have hrp : ∀ q : Char, (q = '\'' ∨ q = '"') → (rawPeek s.rest != some [q]) = true := by
    intro q hq
    rw [hr]
    rcases hq with rfl | rfl <;> simp [rawPeek]
  refine ⟨n1, n2, ?_, ?_, ?_, ?_, ?_⟩
  · rw [parseChar_eq, quotePrefix_zero '\'' s.rest hne (Or.inl rfl) (hnp '\'')]
    simp only [popN, hrp '\'' (Or.inl rfl), ↓reduceIte]
  · rw [parseString_eq]
    obtain ⟨c, sz, hpk⟩ := peek1_isSome (rest := s.rest) (off := 0) (List.length_pos_iff.mpr hne)
    rw [hpk]
    simp only [quotePrefix_zero '"' s.rest hne (Or.inr rfl) (hnp '"'), popN, hrp '"' (Or.inr rfl), ↓reduceIte]
  · have hid : isIdStart '/' = false := by decide
    unfold parseIdent; rw [hr]; simp [hid]
  · unfold parseWhitespace; rw [hr]; simp
  · unfold parseLineComment; rw [hr]; simp [rawPeek]

/-- **`/* body */` is one MULT_COMMENT token**, and the lexer stands right after it -/
theorem commentLine_token (u : Uni) (s : LexSt) (body tl : List Char) (hr : s.rest = '/' :: '*' :: (body ++ '*' :: '/' :: tl))
    (hsr : SelfReads body ('*' :: '/' :: tl)) (hnc : NoEarlyClose ['/', '*'] body) :
    trySubLexers u s = .ok (some
      ({ s with rest := tl, pos := s.pos + (body.length + 4), col := s.col + (body.length + 4) },
       mkTok "MULT_COMMENT" s { s with rest := tl, pos := s.pos + (body.length + 4), col := s.col + (body.length + 4) }
         (some (['/', '*'] ++ body ++ ['*', '/'])))) := by
  obtain ⟨a1, a2, a3, a4, a5, a6, a7⟩ := early_none_slash_star u s _ hr
  have hp0 : peek1 s.rest 0 = some ('/', 1) := by rw [hr]; exact peek1_raw (by decide) (by decide) (by decide) (by decide)
  have h1 := popOne_peeked false false s '/' ('*' :: (body ++ '*' :: '/' :: tl)) hr hp0 (by decide) (by decide) (by decide)
  have hp1 : peek1 ('*' :: (body ++ '*' :: '/' :: tl)) 0 = some ('*', 1) := peek1_raw (by decide) (by decide) (by decide) (by decide)
  have h2 := popOne_peeked false false { s with rest := '*' :: (body ++ '*' :: '/' :: tl), pos := s.pos + 1, col := s.col + 1 } '*'
    (body ++ '*' :: '/' :: tl) rfl hp1 (by decide) (by decide) (by decide)
  have hpn : popN 2 s = ({ s with rest := body ++ '*' :: '/' :: tl, pos := s.pos + 1 + 1, col := s.col + 1 + 1 }, some ['/', '*']) := by
    simp only [popN, h1, h2]
    first | rfl | skip
  have hloop := multiCommentLoop_line body tl ((body ++ '*' :: '/' :: tl).length + 1)
    { s with rest := body ++ '*' :: '/' :: tl, pos := s.pos + 1 + 1, col := s.col + 1 + 1 } ['/', '*'] rfl
    (by simp) hsr hnc (by simp)
  have hpm : parseMultiComment s = some
      ({ s with rest := tl, pos := s.pos + (body.length + 4), col := s.col + (body.length + 4) },
       mkTok "MULT_COMMENT" s { s with rest := tl, pos := s.pos + (body.length + 4), col := s.col + (body.length + 4) }
         (some (['/', '*'] ++ body ++ ['*', '/']))) := by
    unfold parseMultiComment
    have hraw : (rawPeek s.rest 0 2 != some ['/', '*']) = false := by rw [hr]; simp [rawPeek]
    simp only [hraw, Bool.false_eq_true, ↓reduceIte, hpn]
    rw [hloop]
    simp only [Bool.false_eq_true, ↓reduceIte]
    have e : s.pos + 1 + 1 + (body.length + 2) = s.pos + (body.length + 4) := by omega
    have e' : s.col + 1 + 1 + (body.length + 2) = s.col + (body.length + 4) := by omega
    simp only [e, e']
  unfold trySubLexers
  rw [a1, a2, a3, a4, a5, a6, a7, hpm]

/-- one `pop` at a newline -/
theorem popOne_newline (us ue : Bool) (s : LexSt) (tl : List Char) (hr : s.rest = '\n' :: tl) :
    popOne us ue s = ({ s with rest := tl, pos := s.pos + 1, line := s.line + 1, col := 1 }, some ['\n']) := by
  have hpk : peek1 s.rest 0 = some ('\n', 1) := by rw [hr]; exact peek1_raw (by decide) (by decide) (by decide) (by decide)
  have hs : spliceLoop (s.rest.length + 1) s = (s, some ('\n', 1)) := by
    unfold spliceLoop
    simp only [hpk]
    simp
  unfold popOne
  rw [hs]
  simp only
  have he : escOf ue s '\n' 1 = (['\n'], 1, [], 0) := by unfold escOf; simp
  rw [he]
  unfold finishPop
  simp [advance, hr]

/-- **a newline is a NEWLINE token**, after which the lexer stands at column 1 of the next line -/
theorem newline_token (u : Uni) (s : LexSt) (tl : List Char) (hr : s.rest = '\n' :: tl) :
    trySubLexers u s = .ok (some
      ({ s with rest := tl, pos := s.pos + 1, line := s.line + 1, col := 1 },
       mkTok "NEWLINE" s { s with rest := tl, pos := s.pos + 1, line := s.line + 1, col := 1 } none)) := by
  have hd : u.isD '\n' = false := by unfold Uni.isD; simp; decide
  obtain ⟨n1, n2⟩ := numeric_fail u s '\n' tl hr hd (by decide)
  have hne : s.rest ≠ [] := by rw [hr]; simp
  have hnp : ∀ q : Char, ∀ p ∈ Generated.quotePrefixes,
      ¬ (p.toList.isPrefixOf s.rest = true ∧ s.rest[p.toList.length]? = some q) := by
    intro q p hp ⟨hpre, _⟩
    obtain ⟨_, _, hid, hnn⟩ := quotePrefixes_tbl p hp
    rw [hr] at hpre
    cases hpl : p.toList with
    | nil => exact hnn hpl
    | cons p0 ps =>
      rw [hpl] at hpre hid
      simp only [List.isPrefixOf, Bool.and_eq_true, beq_iff_eq] at hpre
      have := hid p0 (by simp)
      rw [hpre.1] at this
      revert this; decide
  have hrp : ∀ q : Char, (q = '\'' ∨ q = '"') → (rawPeek s.rest != some [q]) = true := by
    intro q hq
    rw [hr]
    rcases hq with rfl | rfl <;> simp [rawPeek]
  have a3 : parseChar s = none := by
    rw [parseChar_eq, quotePrefix_zero '\'' s.rest hne (Or.inl rfl) (hnp '\'')]
    simp only [popN, hrp '\'' (Or.inl rfl), ↓reduceIte]
  have a4 : parseString s = none := by
    rw [parseString_eq]
    obtain ⟨c, sz, hpk⟩ := peek1_isSome (rest := s.rest) (off := 0) (List.length_pos_iff.mpr hne)
    rw [hpk]
    simp only [quotePrefix_zero '"' s.rest hne (Or.inr rfl) (hnp '"'), popN, hrp '"' (Or.inr rfl), ↓reduceIte]
  have a5 : parseIdent s = none := by
    have hid : isIdStart '\n' = false := by decide
    unfold parseIdent; rw [hr]; simp [hid]
  have a6 : parseWhitespace s = some
      ({ s with rest := tl, pos := s.pos + 1, line := s.line + 1, col := 1 },
       mkTok "NEWLINE" s { s with rest := tl, pos := s.pos + 1, line := s.line + 1, col := 1 } none) := by
    unfold parseWhitespace
    rw [hr]
    simp only [show (('\n' : Char) == ' ') = false by decide, show (('\n' : Char) == '\t') = false by decide,
      Bool.false_eq_true, ↓reduceIte, beq_self_eq_true]
    rw [popOne_newline false false s tl hr]
  unfold trySubLexers
  rw [n1, n2, a3, a4, a5, a6]

/-! ### the stream -/

theorem skipSplices_noop (s : LexSt) (h : spliceHead s.rest = none) (fuel : Nat) : skipSplices fuel s = s := by
  cases fuel with
  | zero => rfl
  | succ f => rw [skipSplices_step, h]

theorem spliceHead_slash (tl : List Char) : spliceHead ('/' :: tl) = none := by
  unfold spliceHead rawPeek
  cases tl with
  | nil => simp
  | cons a as => simp

theorem spliceHead_nl (tl : List Char) : spliceHead ('\n' :: tl) = none := by
  unfold spliceHead rawPeek
  cases tl with
  | nil => simp
  | cons a as => simp

/-- a block-comment line: `/*` body `*/` newline -/
def cline (body : List Char) : List Char := '/' :: '*' :: (body ++ ['*', '/', '\n'])

/-- the conditions on the body of such a line: every character reads as itself (no backslash, tab or newline, no
digraph or trigraph spelled inside), and `*/` does not occur before the end -/
def LineOK (body : List Char) : Prop := (∀ tl, SelfReads body ('*' :: '/' :: tl)) ∧ NoEarlyClose ['/', '*'] body

/-- **One comment line in front of a text**: the lexer produces its two tokens and stands at column 1 of the next line. -/
theorem commentLine_lex (u : Uni) (fuel : Nat) (s : LexSt) (body T : List Char) (hr : s.rest = cline body ++ T) (hok : LineOK body) :
    ∃ t1 t2, t1.type = "MULT_COMMENT" ∧ t2.type = "NEWLINE" ∧ t1.line = s.line ∧ t1.col = s.col ∧
      lexItems u (fuel + 2) s =
        (lexItems u fuel { s with rest := T, pos := s.pos + (cline body).length, line := s.line + 1, col := 1 }).map
          (fun r => (Item.tok t1 :: Item.tok t2 :: r.1, r.2)) := by
  have hr' : s.rest = '/' :: '*' :: (body ++ '*' :: '/' :: ('\n' :: T)) := by
    rw [hr]; simp [cline, List.append_assoc]
  have ht1 := commentLine_token u s body ('\n' :: T) hr' (hok.1 _) hok.2
  -- the state after the comment, and the newline token there
  have ht2 := newline_token u { s with rest := '\n' :: T, pos := s.pos + (body.length + 4), col := s.col + (body.length + 4) } T rfl
  refine ⟨mkTok "MULT_COMMENT" s { s with rest := '\n' :: T, pos := s.pos + (body.length + 4), col := s.col + (body.length + 4) }
      (some (['/', '*'] ++ body ++ ['*', '/'])),
    mkTok "NEWLINE" { s with rest := '\n' :: T, pos := s.pos + (body.length + 4), col := s.col + (body.length + 4) }
      { s with rest := T, pos := s.pos + (body.length + 4) + 1, line := s.line + 1, col := 1 } none, rfl, rfl, rfl, rfl, ?_⟩
  have hlen : (cline body).length = body.length + 4 + 1 := by simp [cline]
  conv => lhs; unfold lexItems
  simp only
  rw [skipSplices_noop s (by rw [hr']; exact spliceHead_slash _), ht1]
  simp only
  conv => lhs; unfold lexItems
  simp only
  rw [skipSplices_noop _ (spliceHead_nl T), ht2]
  simp only
  have e : s.pos + (body.length + 4) + 1 = s.pos + (cline body).length := by rw [hlen]; omega
  simp only [e]
  cases lexItems u fuel { s with rest := T, pos := s.pos + (cline body).length, line := s.line + 1, col := 1 } with
  | error e => rfl
  | ok r => rfl

/-- several comment lines -/
def clines : List (List Char) → List Char
  | [] => []
  | b :: bs => cline b ++ clines bs

/-- **Comment lines in front of a text**: 2n tokens (MULT_COMMENT, NEWLINE, …), then the lexer stands at column 1, n lines
further down, in front of the text. -/
theorem commentLines_lex (u : Uni) (fuel : Nat) (bodies : List (List Char)) (hok : ∀ b ∈ bodies, LineOK b) :
    ∀ (s : LexSt) (T : List Char), s.rest = clines bodies ++ T → s.col = 1 →
    ∃ hdr : List Item, hdr.length = 2 * bodies.length ∧
      (∀ it ∈ hdr, ∃ t, it = Item.tok t ∧ (t.type = "MULT_COMMENT" ∨ t.type = "NEWLINE")) ∧
      lexItems u (fuel + 2 * bodies.length) s =
        (lexItems u fuel { s with rest := T, pos := s.pos + (clines bodies).length, line := s.line + bodies.length, col := 1 }).map
          (fun r => (hdr ++ r.1, r.2)) := by
  induction bodies with
  | nil =>
    intro s T hr hcol
    refine ⟨[], rfl, (by intro it h; cases h), ?_⟩
    simp only [clines, List.nil_append] at hr
    have es : ({ s with rest := T, pos := s.pos + (clines []).length, line := s.line + ([] : List (List Char)).length, col := 1 } : LexSt) = s := by
      cases s; simp only [clines, List.length_nil, Nat.add_zero] at *; simp [hr, hcol]
    rw [es]
    simp only [List.length_nil, Nat.mul_zero, Nat.add_zero, List.nil_append]
    cases lexItems u fuel s with
    | error e => rfl
    | ok r => rfl
  | cons b bs ih =>
    intro s T hr hcol
    have hb := hok b (by simp)
    have hr1 : s.rest = cline b ++ (clines bs ++ T) := by rw [hr]; simp [clines, List.append_assoc]
    obtain ⟨t1, t2, h1, h2, _, _, hstep⟩ := commentLine_lex u (fuel + 2 * bs.length) s b (clines bs ++ T) hr1 hb
    obtain ⟨hdr, hl, hty, hrec⟩ := ih (fun b' hb' => hok b' (List.mem_cons_of_mem _ hb'))
      { s with rest := clines bs ++ T, pos := s.pos + (cline b).length, line := s.line + 1, col := 1 } T rfl rfl
    refine ⟨Item.tok t1 :: Item.tok t2 :: hdr, by simp [hl]; omega, ?_, ?_⟩
    · intro it hit
      simp only [List.mem_cons] at hit
      rcases hit with rfl | rfl | hit
      · exact ⟨t1, rfl, Or.inl h1⟩
      · exact ⟨t2, rfl, Or.inr h2⟩
      · exact hty it hit
    · have ef : fuel + 2 * (b :: bs).length = fuel + 2 * bs.length + 2 := by simp; omega
      rw [ef, hstep, hrec]
      have e1 : s.pos + (cline b).length + (clines bs).length = s.pos + (clines (b :: bs)).length := by
        simp [clines]; omega
      have e2 : s.line + 1 + bs.length = s.line + (b :: bs).length := by simp; omega
      simp only [e1, e2]
      cases lexItems u fuel { s with rest := T, pos := s.pos + (clines (b :: bs)).length, line := s.line + (b :: bs).length, col := 1 } with
      | error e => rfl
      | ok r => rfl

end Norm
