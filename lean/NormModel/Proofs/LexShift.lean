/- Line/offset equivariance of the lexer: started further down (more lines, larger offset) with
the same unread text and the same column, every function of the lexer does the same thing and
produces the same tokens and diagnostics, moved down by the same number of lines. -/
import NormModel.Model.Lexer
namespace Norm

def shHl (dl : Nat) (h : Highlight) : Highlight := { h with line := h.line + dl }
def shDiag (dl : Nat) (d : Diag) : Diag := { d with highlights := d.highlights.map (shHl dl) }
/-- the same lexer state further down in a longer text: `dl` more lines and `dp` more characters
precede it, and `d0` are the diagnostics collected there -/
def shSt (d0 : List Diag) (dl dp : Nat) (s : LexSt) : LexSt :=
  { s with line := s.line + dl, pos := s.pos + dp, diags := d0 ++ s.diags.map (shDiag dl) }
def shTok (dl dp : Nat) (t : Token) : Token :=
  { t with line := t.line + dl, start := t.start + dp, stop := t.stop + dp }

variable (d0 : List Diag) (dl dp : Nat)

@[simp] theorem shSt_rest (s : LexSt) : (shSt d0 dl dp s).rest = s.rest := rfl
@[simp] theorem shSt_col (s : LexSt) : (shSt d0 dl dp s).col = s.col := rfl
@[simp] theorem shSt_line (s : LexSt) : (shSt d0 dl dp s).line = s.line + dl := rfl
@[simp] theorem shSt_pos (s : LexSt) : (shSt d0 dl dp s).pos = s.pos + dp := rfl
@[simp] theorem shSt_diags (s : LexSt) : (shSt d0 dl dp s).diags = d0 ++ s.diags.map (shDiag dl) := rfl

theorem shDiag_mkDiag (name : String) (lvl : Level) (hs : List Highlight) :
    shDiag dl (mkDiag name lvl hs) = mkDiag name lvl (hs.map (shHl dl)) := rfl

theorem advance_sh (s : LexSt) (n : Nat) : advance (shSt d0 dl dp s) n = shSt d0 dl dp (advance s n) := by
  simp [advance, shSt]; omega

theorem addDiag_sh (s : LexSt) (d : Diag) : (shSt d0 dl dp s).addDiag (shDiag dl d) = shSt d0 dl dp (s.addDiag d) := by
  simp [LexSt.addDiag, shSt]

theorem spliceLoop_sh (fuel : Nat) (s : LexSt) :
    spliceLoop fuel (shSt d0 dl dp s) = (shSt d0 dl dp (spliceLoop fuel s).1, (spliceLoop fuel s).2) := by
  induction fuel generalizing s with
  | zero => rfl
  | succ fuel ih =>
    unfold spliceLoop
    simp only [shSt_rest]
    cases hp : peek1 s.rest 0 with
    | none => rfl
    | some p =>
      obtain ⟨c, sz⟩ := p
      simp only
      split
      · rfl
      · cases hq : peek1 s.rest sz with
        | none => rfl
        | some q =>
          obtain ⟨t, k⟩ := q
          simp only
          split
          · rfl
          · have : ({ advance (shSt d0 dl dp s) (sz + 1) with line := (shSt d0 dl dp s).line + 1, col := 1 } : LexSt)
                = shSt d0 dl dp { advance s (sz + 1) with line := s.line + 1, col := 1 } := by
              simp [advance, shSt]; omega
            rw [this, ih]

/-- the result of `escape` / `escOf`, moved -/
def shEsc (e : List Char × Nat × List Diag × Nat) : List Char × Nat × List Diag × Nat :=
  (e.1, e.2.1, e.2.2.1.map (shDiag dl), e.2.2.2)

theorem escape_sh (s : LexSt) (sz : Nat) (t : Char) (k : Nat) :
    escape (shSt d0 dl dp s) sz t k = shEsc dl (escape s sz t k) := by
  unfold escape shEsc
  simp only [shSt_rest, shSt_line, shSt_col]
  split
  · rfl
  · split
    · by_cases hds : (takeWhileFrom s.rest (sz + 1) isHexDigit).isEmpty = true
      · simp [hds, shDiag_mkDiag, shHl]
      · simp [hds]
    · split
      · rfl
      · simp [shDiag_mkDiag, shHl]

theorem escOf_sh (ue : Bool) (s : LexSt) (c : Char) (sz : Nat) :
    escOf ue (shSt d0 dl dp s) c sz = shEsc dl (escOf ue s c sz) := by
  unfold escOf
  simp only [shSt_rest]
  split
  · split
    · split
      · exact escape_sh d0 dl dp s sz _ _
      · rfl
    · rfl
  · rfl

theorem finishPop_sh (us : Bool) (s : LexSt) (e : List Char × Nat × List Diag × Nat) :
    finishPop us (shSt d0 dl dp s) (shEsc dl e) = (shSt d0 dl dp (finishPop us s e).1, (finishPop us s e).2) := by
  unfold finishPop shEsc
  simp only
  split
  · simp [advance, shSt]; omega
  · split
    · simp [advance, shSt]; omega
    · simp [advance, shSt]; omega

theorem popOne_sh (us ue : Bool) (s : LexSt) :
    popOne us ue (shSt d0 dl dp s) = (shSt d0 dl dp (popOne us ue s).1, (popOne us ue s).2) := by
  unfold popOne
  simp only [shSt_rest]
  rw [spliceLoop_sh]
  cases hsl : spliceLoop (s.rest.length + 1) s with
  | mk s1 r =>
    cases r with
    | none => rfl
    | some p =>
      obtain ⟨c, sz⟩ := p
      simp only
      rw [escOf_sh, finishPop_sh]

theorem popN_sh (n : Nat) (s : LexSt) :
    popN n (shSt d0 dl dp s) = (shSt d0 dl dp (popN n s).1, (popN n s).2) := by
  induction n generalizing s with
  | zero => rfl
  | succ n ih =>
    unfold popN
    rw [popOne_sh]
    cases hpo : popOne false false s with
    | mk s1 r =>
      cases r with
      | none => rfl
      | some cs =>
        simp only
        rw [ih]
        cases hpn : popN n s1 with
        | mk s2 r2 =>
          cases r2 <;> rfl

theorem mkTok_sh (ty : String) (s0 s1 : LexSt) (v : Option (List Char)) :
    mkTok ty (shSt d0 dl dp s0) (shSt d0 dl dp s1) v = shTok dl dp (mkTok ty s0 s1 v) := rfl

/-! ### sub-lexers -/

def shRes (r : Option (LexSt × Token)) : Option (LexSt × Token) :=
  r.map (fun p => (shSt d0 dl dp p.1, shTok dl dp p.2))

def shFloatRes : FloatRes → FloatRes
  | .noMatch => .noMatch
  | .tok m d => .tok m (d.map (shDiag dl))

theorem floatLogic_sh (u : Uni) (line col : Nat) (src : List Char) :
    floatLogic u (line + dl) col src = shFloatRes dl (floatLogic u line col src) := by
  unfold floatLogic
  simp only
  split
  · rfl
  · repeat' split
    all_goals simp [shFloatRes, shDiag_mkDiag, shHl]

theorem addDiag?_sh (s : LexSt) (d : Option Diag) :
    (shSt d0 dl dp s).addDiag? (d.map (shDiag dl)) = shSt d0 dl dp (s.addDiag? d) := by
  cases d with
  | none => rfl
  | some x => exact addDiag_sh d0 dl dp s x

theorem parseFloat_sh (u : Uni) (s : LexSt) : parseFloat u (shSt d0 dl dp s) = shRes d0 dl dp (parseFloat u s) := by
  unfold parseFloat
  simp only [shSt_rest, shSt_line, shSt_col]
  split
  · rfl
  · rw [floatLogic_sh]
    cases hfl : floatLogic u s.line s.col s.rest with
    | noMatch => rfl
    | tok m d =>
      simp only [shFloatRes]
      rw [addDiag?_sh, popN_sh]
      cases hpn : popN (m.const.length + m.exp.length + m.suf.length) (s.addDiag? d) with
      | mk s2 r =>
        cases r with
        | none => rfl
        | some v => simp [shRes, mkTok_sh]

theorem badDigits_sh (line col : Nat) (m : IntMatch) (name : String) (bucket : List Char) :
    badDigits (line + dl) col m name bucket = (badDigits line col m name bucket).map (shDiag dl) := by
  unfold badDigits
  simp only
  have hmap : (List.filterMap (fun (x : Char × Nat) =>
        if bucket.contains x.1 = true then none else some ({ line := line + dl, col := col + x.2, length := some 1 } : Highlight))
        (m.const.zipIdx m.pre.length)) =
      (List.filterMap (fun (x : Char × Nat) =>
        if bucket.contains x.1 = true then none else some ({ line := line, col := col + x.2, length := some 1 } : Highlight))
        (m.const.zipIdx m.pre.length)).map (shHl dl) := by
    rw [List.map_filterMap]
    congr 1
    funext x
    split <;> simp [shHl]
  rw [hmap]
  generalize (List.filterMap (fun (x : Char × Nat) =>
        if bucket.contains x.1 = true then none else some ({ line := line, col := col + x.2, length := some 1 } : Highlight))
        (m.const.zipIdx m.pre.length)) = hs
  cases hs with
  | nil => rfl
  | cons h t => simp [shDiag_mkDiag]

theorem intDiags_sh (line col total : Nat) (m : IntMatch) :
    intDiags (line + dl) col total m = (intDiags line col total m).map (shDiag dl) := by
  unfold intDiags
  simp only [badDigits_sh, List.map_append]
  congr 1
  · split
    · rfl
    · split
      · split <;> simp [shDiag_mkDiag, shHl]
      · rfl
  · repeat' split
    all_goals simp

theorem parseInt_sh (u : Uni) (s : LexSt) : parseInt u (shSt d0 dl dp s) = shRes d0 dl dp (parseInt u s) := by
  unfold parseInt
  simp only [shSt_rest, shSt_line, shSt_col]
  cases hm : matchInt u s.rest with
  | none => rfl
  | some m =>
    simp only
    rw [popN_sh]
    cases hpn : popN (m.pre.length + m.const.length + m.suf.length) s with
    | mk s2 r =>
      cases r with
      | none => rfl
      | some v =>
        simp only [shRes, Option.map_some]
        rw [intDiags_sh]
        have : ({ shSt d0 dl dp s2 with diags := (shSt d0 dl dp s2).diags ++ (intDiags s.line s.col v.length m).map (shDiag dl) } : LexSt)
            = shSt d0 dl dp { s2 with diags := s2.diags ++ intDiags s.line s.col v.length m } := by
          simp [shSt]
        rw [this, mkTok_sh]

theorem charLoop_sh (line col fuel : Nat) (s : LexSt) (v : List Char) (n : Nat) :
    charLoop (line + dl) col fuel (shSt d0 dl dp s) v n =
      (shSt d0 dl dp (charLoop line col fuel s v n).1, (charLoop line col fuel s v n).2) := by
  induction fuel generalizing s v n with
  | zero => rfl
  | succ fuel ih =>
    unfold charLoop
    rw [popOne_sh]
    cases hpo : popOne false true s with
    | mk s1 r =>
      cases r with
      | none =>
        simp only
        rw [← addDiag_sh]
        simp [shDiag_mkDiag, shHl]
      | some ch =>
        simp only
        split
        · have : ({ shSt d0 dl dp s with diags := (shSt d0 dl dp s1).diags } : LexSt) = shSt d0 dl dp { s with diags := s1.diags } := by
            simp [shSt]
          rw [this, ← addDiag_sh]
          simp [shDiag_mkDiag, shHl]
        · split
          · rfl
          · exact ih _ _ _

/-- the tail of `parse_char_literal` after its loop -/
def charFin (s : LexSt) (r : LexSt × List Char × Nat) : Option (LexSt × Token) :=
  let s4 := if r.2.2 == 0 && endsWithTwoQuotes r.2.1 then
      r.1.addDiag (mkDiag "EMPTY_CHAR" .error [⟨s.line, s.col, some r.2.1.length, none⟩]) else r.1
  let s5 := if r.2.2 > 1 && r.2.1.getLast? == some '\'' then
      s4.addDiag (mkDiag "CHAR_AS_STRING" .error
        [⟨s.line, s.col, some r.2.1.length, none⟩, ⟨s.line, s.col, some 1, some charAsStringHint⟩])
    else s4
  some (s5, mkTok "CHAR_CONST" s s5 (some r.2.1))

/-- `parseChar` with its tail named -/
theorem parseChar_eq (s : LexSt) : parseChar s =
    (match quotePrefix '\'' s.rest Generated.quotePrefixes with
    | none => none
    | some n =>
      match popN n s with
      | (_, none) => none
      | (s1, some pre) =>
        if rawPeek s1.rest != some ['\''] then none else
        match popOne false false s1 with
        | (_, none) => none
        | (s2, some q) => charFin s (charLoop s.line s.col (s2.rest.length + 1) s2 (pre ++ q) 0)) := by
  rfl

theorem charFin_sh (s : LexSt) (r : LexSt × List Char × Nat) :
    charFin (shSt d0 dl dp s) (shSt d0 dl dp r.1, r.2) = shRes d0 dl dp (charFin s r) := by
  obtain ⟨s3, v, chars⟩ := r
  unfold charFin
  simp only [shSt_line, shSt_col, shRes, Option.map_some]
  have e4 : (if (chars == 0 && endsWithTwoQuotes v) = true then
        (shSt d0 dl dp s3).addDiag (mkDiag "EMPTY_CHAR" .error [⟨s.line + dl, s.col, some v.length, none⟩]) else shSt d0 dl dp s3)
      = shSt d0 dl dp (if (chars == 0 && endsWithTwoQuotes v) = true then
        s3.addDiag (mkDiag "EMPTY_CHAR" .error [⟨s.line, s.col, some v.length, none⟩]) else s3) := by
    split
    · rw [← addDiag_sh]; simp [shDiag_mkDiag, shHl]
    · rfl
  rw [e4]
  have e5 : ∀ s4 : LexSt, (if (decide (chars > 1) && v.getLast? == some '\'') = true then
        (shSt d0 dl dp s4).addDiag (mkDiag "CHAR_AS_STRING" .error
          [⟨s.line + dl, s.col, some v.length, none⟩, ⟨s.line + dl, s.col, some 1, some charAsStringHint⟩]) else shSt d0 dl dp s4)
      = shSt d0 dl dp (if (decide (chars > 1) && v.getLast? == some '\'') = true then
        s4.addDiag (mkDiag "CHAR_AS_STRING" .error
          [⟨s.line, s.col, some v.length, none⟩, ⟨s.line, s.col, some 1, some charAsStringHint⟩]) else s4) := by
    intro s4
    split
    · rw [← addDiag_sh]; simp [shDiag_mkDiag, shHl]
    · rfl
  rw [e5, mkTok_sh]

theorem parseChar_sh (s : LexSt) : parseChar (shSt d0 dl dp s) = shRes d0 dl dp (parseChar s) := by
  unfold parseChar
  simp only [shSt_rest]
  cases hq : quotePrefix '\'' s.rest Generated.quotePrefixes with
  | none => rfl
  | some n =>
    simp only
    rw [popN_sh]
    cases hpn : popN n s with
    | mk s1 r =>
      cases r with
      | none => rfl
      | some pre =>
        simp only [shSt_rest]
        by_cases hrp : (rawPeek s1.rest != some ['\'']) = true
        · simp only [hrp, ↓reduceIte]; rfl
        · simp only [hrp, Bool.false_eq_true, ↓reduceIte]
          rw [popOne_sh]
          cases hpo : popOne false false s1 with
          | mk s2 r2 =>
            cases r2 with
            | none => rfl
            | some q =>
              show charFin (shSt d0 dl dp s) (charLoop (shSt d0 dl dp s).line (shSt d0 dl dp s).col ((shSt d0 dl dp s2).rest.length + 1) (shSt d0 dl dp s2) (pre ++ q) 0)
                = shRes d0 dl dp (charFin s (charLoop s.line s.col (s2.rest.length + 1) s2 (pre ++ q) 0))
              simp only [shSt_rest, shSt_line, shSt_col]
              rw [charLoop_sh]
              exact charFin_sh d0 dl dp s _

theorem strLoop_sh (fuel : Nat) (s : LexSt) (v : List Char) :
    strLoop fuel (shSt d0 dl dp s) v = (shSt d0 dl dp (strLoop fuel s v).1, (strLoop fuel s v).2) := by
  induction fuel generalizing s v with
  | zero => rfl
  | succ fuel ih =>
    unfold strLoop
    simp only [shSt_rest]
    cases hp : peek1 s.rest 0 with
    | none => rfl
    | some p =>
      simp only
      rw [popOne_sh]
      cases hpo : popOne false true s with
      | mk s1 r =>
        cases r with
        | none => rfl
        | some ch =>
          simp only
          split
          · rfl
          · exact ih _ _

def strFin (s : LexSt) (r : LexSt × List Char × Bool) : Option (LexSt × Token) :=
  let s4 := if r.2.2 then
      r.1.addDiag (mkDiag "UNEXPECTED_EOF_STR" .error
        [⟨s.line, s.col, some r.2.1.length, none⟩, ⟨s.line, s.col + r.2.1.length, some 1, some strHint⟩])
    else r.1
  some (s4, mkTok "STRING" s s4 (some r.2.1))

/-- `parseString` with its tail named -/
theorem parseString_eq (s : LexSt) : parseString s =
    (match peek1 s.rest 0 with
    | none => none
    | some _ =>
    match quotePrefix '"' s.rest Generated.quotePrefixes with
    | none => none
    | some n =>
      match popN n s with
      | (_, none) => none
      | (s1, some pre) =>
        if rawPeek s1.rest != some ['"'] then none else
        match popOne false false s1 with
        | (_, none) => none
        | (s2, some q) => strFin s (strLoop (s2.rest.length + 1) s2 (pre ++ q))) := by
  rfl

theorem strFin_sh (s : LexSt) (r : LexSt × List Char × Bool) :
    strFin (shSt d0 dl dp s) (shSt d0 dl dp r.1, r.2) = shRes d0 dl dp (strFin s r) := by
  obtain ⟨s3, v, eof⟩ := r
  unfold strFin
  simp only [shSt_line, shSt_col, shRes, Option.map_some]
  have e4 : (if eof = true then
        (shSt d0 dl dp s3).addDiag (mkDiag "UNEXPECTED_EOF_STR" .error
          [⟨s.line + dl, s.col, some v.length, none⟩, ⟨s.line + dl, s.col + v.length, some 1, some strHint⟩]) else shSt d0 dl dp s3)
      = shSt d0 dl dp (if eof = true then
        s3.addDiag (mkDiag "UNEXPECTED_EOF_STR" .error
          [⟨s.line, s.col, some v.length, none⟩, ⟨s.line, s.col + v.length, some 1, some strHint⟩]) else s3) := by
    split
    · rw [← addDiag_sh]; simp [shDiag_mkDiag, shHl]
    · rfl
  rw [e4, mkTok_sh]

theorem parseString_sh (s : LexSt) : parseString (shSt d0 dl dp s) = shRes d0 dl dp (parseString s) := by
  unfold parseString
  simp only [shSt_rest]
  cases hp0 : peek1 s.rest 0 with
  | none => rfl
  | some p0 =>
    simp only
    cases hq : quotePrefix '"' s.rest Generated.quotePrefixes with
    | none => rfl
    | some n =>
      simp only
      rw [popN_sh]
      cases hpn : popN n s with
      | mk s1 r =>
        cases r with
        | none => rfl
        | some pre =>
          simp only [shSt_rest]
          by_cases hrp : (rawPeek s1.rest != some ['"']) = true
          · simp only [hrp, ↓reduceIte]; rfl
          · simp only [hrp, Bool.false_eq_true, ↓reduceIte]
            rw [popOne_sh]
            cases hpo : popOne false false s1 with
            | mk s2 r2 =>
              cases r2 with
              | none => rfl
              | some q =>
                show strFin (shSt d0 dl dp s) (strLoop ((shSt d0 dl dp s2).rest.length + 1) (shSt d0 dl dp s2) (pre ++ q))
                  = shRes d0 dl dp (strFin s (strLoop (s2.rest.length + 1) s2 (pre ++ q)))
                simp only [shSt_rest]
                rw [strLoop_sh]
                exact strFin_sh d0 dl dp s _

theorem identLoop_sh (fuel : Nat) (s : LexSt) (v : List Char) :
    identLoop fuel (shSt d0 dl dp s) v = (shSt d0 dl dp (identLoop fuel s v).1, (identLoop fuel s v).2) := by
  induction fuel generalizing s v with
  | zero => rfl
  | succ fuel ih =>
    unfold identLoop
    simp only [shSt_rest]
    cases hr : s.rest with
    | nil => rfl
    | cons c tl =>
      simp only
      split
      · rw [popOne_sh]
        cases hpo : popOne false false s with
        | mk s1 r =>
          cases r with
          | none => rfl
          | some ch => exact ih _ _
      · rfl

theorem parseIdent_sh (s : LexSt) : parseIdent (shSt d0 dl dp s) = shRes d0 dl dp (parseIdent s) := by
  unfold parseIdent
  simp only [shSt_rest]
  cases hr : s.rest with
  | nil => rfl
  | cons c tl =>
    simp only
    split
    · rfl
    · rw [popOne_sh]
      cases hpo : popOne false false s with
      | mk s1 r =>
        cases r with
        | none => rfl
        | some ch =>
          simp only [shSt_rest]
          rw [identLoop_sh]
          cases hil : identLoop (s1.rest.length + 1) s1 ch with
          | mk s2 v =>
            simp only
            split <;> simp [shRes, mkTok_sh]

theorem parseWhitespace_sh (s : LexSt) : parseWhitespace (shSt d0 dl dp s) = shRes d0 dl dp (parseWhitespace s) := by
  unfold parseWhitespace
  simp only [shSt_rest]
  cases hr : s.rest with
  | nil => rfl
  | cons c tl =>
    simp only
    split
    · rfl
    · rw [popOne_sh]
      cases hpo : popOne false false s with
      | mk s1 r =>
        cases r with
        | none => rfl
        | some ch => simp [shRes, mkTok_sh]

theorem lineCommentLoop_sh (fuel : Nat) (s : LexSt) (v : List Char) :
    lineCommentLoop fuel (shSt d0 dl dp s) v = (shSt d0 dl dp (lineCommentLoop fuel s v).1, (lineCommentLoop fuel s v).2) := by
  induction fuel generalizing s v with
  | zero => rfl
  | succ fuel ih =>
    unfold lineCommentLoop
    simp only [shSt_rest]
    cases hp : peek1 s.rest 0 with
    | none => rfl
    | some p =>
      obtain ⟨c, sz⟩ := p
      simp only
      split
      · rfl
      · rw [popOne_sh]
        cases hpo : popOne false false s with
        | mk s1 r =>
          cases r with
          | none => rfl
          | some ch => exact ih _ _

theorem parseLineComment_sh (s : LexSt) : parseLineComment (shSt d0 dl dp s) = shRes d0 dl dp (parseLineComment s) := by
  unfold parseLineComment
  simp only [shSt_rest]
  by_cases hrp : (rawPeek s.rest 0 2 != some ['/', '/']) = true
  · simp only [hrp, ↓reduceIte]; rfl
  · simp only [hrp, Bool.false_eq_true, ↓reduceIte]
    rw [popN_sh]
    cases hpn : popN 2 s with
    | mk s1 r =>
      cases r with
      | none => rfl
      | some v0 =>
        simp only [shSt_rest]
        rw [lineCommentLoop_sh]
        cases hl : lineCommentLoop (s1.rest.length + 1) s1 v0 with
        | mk s2 v => simp [shRes, mkTok_sh]

theorem multiCommentLoop_sh (fuel : Nat) (s : LexSt) (v : List Char) :
    multiCommentLoop fuel (shSt d0 dl dp s) v = (shSt d0 dl dp (multiCommentLoop fuel s v).1, (multiCommentLoop fuel s v).2) := by
  induction fuel generalizing s v with
  | zero => rfl
  | succ fuel ih =>
    unfold multiCommentLoop
    simp only [shSt_rest]
    cases hp : peek1 s.rest 0 with
    | none => rfl
    | some p =>
      simp only
      rw [popOne_sh]
      cases hpo : popOne true false s with
      | mk s1 r =>
        cases r with
        | none => rfl
        | some ch =>
          simp only
          split
          · rfl
          · exact ih _ _

def mcFin (s : LexSt) (r : LexSt × List Char × Bool) : Option (LexSt × Token) :=
  let s3 := if r.2.2 then
      r.1.addDiag (mkDiag "UNEXPECTED_EOF_MC" .error [⟨s.line, s.col, some r.2.1.length, none⟩]) else r.1
  some (s3, mkTok "MULT_COMMENT" s s3 (some r.2.1))

theorem mcFin_sh (s : LexSt) (r : LexSt × List Char × Bool) :
    mcFin (shSt d0 dl dp s) (shSt d0 dl dp r.1, r.2) = shRes d0 dl dp (mcFin s r) := by
  obtain ⟨s3, v, eof⟩ := r
  unfold mcFin
  simp only [shSt_line, shSt_col, shRes, Option.map_some]
  have e4 : (if eof = true then
        (shSt d0 dl dp s3).addDiag (mkDiag "UNEXPECTED_EOF_MC" .error [⟨s.line + dl, s.col, some v.length, none⟩]) else shSt d0 dl dp s3)
      = shSt d0 dl dp (if eof = true then
        s3.addDiag (mkDiag "UNEXPECTED_EOF_MC" .error [⟨s.line, s.col, some v.length, none⟩]) else s3) := by
    split
    · rw [← addDiag_sh]; simp [shDiag_mkDiag, shHl]
    · rfl
  rw [e4, mkTok_sh]

theorem parseMultiComment_sh (s : LexSt) : parseMultiComment (shSt d0 dl dp s) = shRes d0 dl dp (parseMultiComment s) := by
  unfold parseMultiComment
  simp only [shSt_rest]
  by_cases hrp : (rawPeek s.rest 0 2 != some ['/', '*']) = true
  · simp only [hrp, ↓reduceIte]; rfl
  · simp only [hrp, Bool.false_eq_true, ↓reduceIte]
    rw [popN_sh]
    cases hpn : popN 2 s with
    | mk s1 r =>
      cases r with
      | none => rfl
      | some v0 =>
        show mcFin (shSt d0 dl dp s) (multiCommentLoop ((shSt d0 dl dp s1).rest.length + 1) (shSt d0 dl dp s1) v0)
          = shRes d0 dl dp (mcFin s (multiCommentLoop (s1.rest.length + 1) s1 v0))
        simp only [shSt_rest]
        rw [multiCommentLoop_sh]
        exact mcFin_sh d0 dl dp s _

def shRes2 (r : Option (Option (LexSt × Token))) : Option (Option (LexSt × Token)) := r.map (shRes d0 dl dp)

theorem opFin_sh (s : LexSt) (n : Nat) : opFin (shSt d0 dl dp s) n = shRes2 d0 dl dp (opFin s n) := by
  unfold opFin
  rw [popN_sh]
  cases hpn : popN n s with
  | mk s1 r =>
    cases r with
    | none => rfl
    | some v =>
      simp only
      split <;> simp [shRes2, shRes, mkTok_sh]

theorem parseOperator_sh (s : LexSt) : parseOperator (shSt d0 dl dp s) = shRes2 d0 dl dp (parseOperator s) := by
  unfold parseOperator
  simp only [shSt_rest, opFin_sh]
  cases hp : peek1 s.rest 0 with
  | none => rfl
  | some p =>
    obtain ⟨c, sz⟩ := p
    simp only
    repeat' split
    all_goals rfl

theorem parseBrackets_sh (s : LexSt) : parseBrackets (shSt d0 dl dp s) = shRes d0 dl dp (parseBrackets s) := by
  unfold parseBrackets
  simp only [shSt_rest]
  cases hp : peek1 s.rest 0 with
  | none => rfl
  | some p =>
    obtain ⟨c, sz⟩ := p
    simp only
    cases hb : assoc Generated.brackets (String.ofList [c]) with
    | none => rfl
    | some ty =>
      simp only
      rw [popOne_sh]
      cases hpo : popOne false false s with
      | mk s1 r =>
        cases r with
        | none => rfl
        | some ch => simp [shRes, mkTok_sh]

theorem skipSplices_sh (fuel : Nat) (s : LexSt) : skipSplices fuel (shSt d0 dl dp s) = shSt d0 dl dp (skipSplices fuel s) := by
  induction fuel generalizing s with
  | zero => rfl
  | succ fuel ih =>
    unfold skipSplices
    simp only [shSt_rest]
    have e2 : ({ advance (shSt d0 dl dp s) 2 with line := (shSt d0 dl dp s).line + 1, col := 1 } : LexSt)
        = shSt d0 dl dp { advance s 2 with line := s.line + 1, col := 1 } := by
      simp [advance, shSt]; omega
    have e4 : ({ advance (shSt d0 dl dp s) 4 with line := (shSt d0 dl dp s).line + 1, col := 1 } : LexSt)
        = shSt d0 dl dp { advance s 4 with line := s.line + 1, col := 1 } := by
      simp [advance, shSt]; omega
    by_cases h2 : (rawPeek s.rest 0 2 == some ['\\', '\n']) = true
    · simp only [h2, ↓reduceIte]
      rw [e2, ih]
    · simp only [h2, Bool.false_eq_true, ↓reduceIte]
      by_cases h4 : (rawPeek s.rest 0 4 == some ['?', '?', '/', '\n']) = true
      · simp only [h4, ↓reduceIte]
        rw [e4, ih]
      · simp only [h4, Bool.false_eq_true, ↓reduceIte]

def shExc (r : Except LexExc (Option (LexSt × Token))) : Except LexExc (Option (LexSt × Token)) :=
  r.map (shRes d0 dl dp)

theorem trySubLexers_sh (u : Uni) (s : LexSt) : trySubLexers u (shSt d0 dl dp s) = shExc d0 dl dp (trySubLexers u s) := by
  unfold trySubLexers
  rw [parseFloat_sh, parseInt_sh, parseChar_sh, parseString_sh, parseIdent_sh, parseWhitespace_sh,
    parseLineComment_sh, parseMultiComment_sh, parseOperator_sh, parseBrackets_sh]
  cases parseFloat u s with
  | some r => rfl
  | none =>
  cases parseInt u s with
  | some r => rfl
  | none =>
  cases parseChar s with
  | some r => rfl
  | none =>
  cases parseString s with
  | some r => rfl
  | none =>
  cases parseIdent s with
  | some r => rfl
  | none =>
  cases parseWhitespace s with
  | some r => rfl
  | none =>
  cases parseLineComment s with
  | some r => rfl
  | none =>
  cases parseMultiComment s with
  | some r => rfl
  | none =>
  cases parseOperator s with
  | none => rfl
  | some o =>
    cases o with
    | some r => rfl
    | none => rfl

theorem badLexeme_sh (s : LexSt) (c : Char) : badLexeme (shSt d0 dl dp s) c = shSt d0 dl dp (badLexeme s c) := by
  simp [badLexeme, advance, LexSt.addDiag, shSt, shDiag, shHl]; omega

def shItem : Item → Item
  | .tok t => .tok (shTok dl dp t)
  | .bad c p => .bad c (p + dp)

/-- **The whole token stream is equivariant**: from the shifted state the run produces the
shifted items and ends in the shifted state. -/
theorem lexItems_sh (u : Uni) (fuel : Nat) (s : LexSt) :
    lexItems u fuel (shSt d0 dl dp s) = (lexItems u fuel s).map (fun r => (r.1.map (shItem dl dp), shSt d0 dl dp r.2)) := by
  induction fuel generalizing s with
  | zero => rfl
  | succ fuel ih =>
    unfold lexItems
    simp only [shSt_rest]
    rw [skipSplices_sh, trySubLexers_sh]
    cases htry : trySubLexers u (skipSplices (s.rest.length + 1) s) with
    | error e => rfl
    | ok r =>
      cases r with
      | some p =>
        obtain ⟨s1, t⟩ := p
        simp only [shExc, Except.map, shRes, Option.map_some]
        rw [ih]
        cases lexItems u fuel s1 with
        | error e => rfl
        | ok q => rfl
      | none =>
        simp only [shExc, Except.map, shRes, Option.map_none, shSt_rest]
        cases hr : (skipSplices (s.rest.length + 1) s).rest with
        | nil => rfl
        | cons c tl =>
          simp only
          rw [badLexeme_sh, ih]
          cases lexItems u fuel (badLexeme (skipSplices (s.rest.length + 1) s) c) with
          | error e => rfl
          | ok q => rfl

end Norm
