/- Facts about the dictionaries (re-checked against the regenerated tables by `decide`)
and about `peek1`, `spliceLoop`, `popOne`, `popN`. -/
import NormModel.Proofs.LexBasic
namespace Norm
open Spec

/-! ### table obligations (Generated/Dictionary.lean) -/

def cleanChar (c : Char) : Prop := c ≠ '\n' ∧ c ≠ '\t'
instance (c : Char) : Decidable (cleanChar c) := by unfold cleanChar; infer_instance

/-- Every trigraph spelling and value consists of characters other than newline and tab,
and the value is a single character. -/
theorem trigraphs_clean : ∀ p ∈ Generated.trigraphs,
    (∀ c ∈ p.1.toList, cleanChar c) ∧ (∀ c ∈ p.2.toList, cleanChar c) ∧ p.1.toList.length = 3 := by
  decide

theorem digraphs_clean : ∀ p ∈ Generated.digraphs,
    (∀ c ∈ p.1.toList, cleanChar c) ∧ (∀ c ∈ p.2.toList, cleanChar c) ∧ p.1.toList.length = 2 := by
  decide

theorem assoc_mem {tbl : List (String × String)} {k v : String} (h : assoc tbl k = some v) :
    (k, v) ∈ tbl := by
  unfold assoc at h
  simp only [Option.map_eq_some_iff] at h
  obtain ⟨p, hp, rfl⟩ := h
  have h1 := List.mem_of_find?_eq_some hp
  have h2 := List.find?_some hp
  simp only [beq_iff_eq] at h2
  subst h2
  exact h1

/-! ### peek1 -/

theorem triAt_spec {l : List Char} {t : Char} (h : triAt l = some t) :
    3 ≤ l.length ∧ Clean (l.take 3) ∧ cleanChar t := by
  unfold triAt at h
  split at h
  · rename_i c2 tl
    simp only [Option.bind_eq_some_iff] at h
    obtain ⟨v, hv, hhead⟩ := h
    have hm := trigraphs_clean _ (assoc_mem hv)
    simp only [String.toList_ofList] at hm
    refine ⟨by simp, ?_, hm.2.1 t (List.mem_of_mem_head? hhead)⟩
    intro x hx
    exact hm.1 x (by simpa using hx)
  · cases h

theorem diAt_spec {l : List Char} {t : Char} (h : diAt l = some t) :
    2 ≤ l.length ∧ Clean (l.take 2) ∧ cleanChar t := by
  unfold diAt at h
  split at h
  · rename_i c0 c1 tl
    simp only [Option.bind_eq_some_iff] at h
    obtain ⟨v, hv, hhead⟩ := h
    have hm := digraphs_clean _ (assoc_mem hv)
    simp only [String.toList_ofList] at hm
    refine ⟨by simp, ?_, hm.2.1 t (List.mem_of_mem_head? hhead)⟩
    intro x hx
    exact hm.1 x (by simpa using hx)
  · cases h

/-- What `peek1` returns: either the raw character (size 1), or a translated character
whose spelling of 2 or 3 raw characters contains no newline and no tab. -/
theorem peek1_spec {rest : List Char} {off : Nat} {c : Char} {sz : Nat}
    (h : peek1 rest off = some (c, sz)) :
    1 ≤ sz ∧ off + sz ≤ rest.length ∧
    ((sz = 1 ∧ (rest.drop off).head? = some c) ∨
     (2 ≤ sz ∧ Clean ((rest.drop off).take sz) ∧ cleanChar c)) := by
  unfold peek1 at h
  have hlen : ∀ k, 1 ≤ k → k ≤ (rest.drop off).length → off + k ≤ rest.length := by
    intro k hk1 hk; simp only [List.length_drop] at hk; omega
  split at h
  · rename_i t ht
    simp only [Option.some.injEq, Prod.mk.injEq] at h
    obtain ⟨rfl, rfl⟩ := h
    obtain ⟨h1, h2, h3⟩ := triAt_spec ht
    exact ⟨by omega, hlen 3 (by omega) h1, Or.inr ⟨by omega, h2, h3⟩⟩
  · split at h
    · rename_i d hd
      simp only [Option.some.injEq, Prod.mk.injEq] at h
      obtain ⟨rfl, rfl⟩ := h
      obtain ⟨h1, h2, h3⟩ := diAt_spec hd
      exact ⟨by omega, hlen 2 (by omega) h1, Or.inr ⟨by omega, h2, h3⟩⟩
    · split at h
      · rename_i c0 tl heq
        simp only [Option.some.injEq, Prod.mk.injEq] at h
        obtain ⟨rfl, rfl⟩ := h
        exact ⟨by omega, hlen 1 (by omega) (by simp [heq]), Or.inl ⟨rfl, by simp [heq]⟩⟩
      · cases h

theorem peek1_none {rest : List Char} {off : Nat} (h : peek1 rest off = none) :
    rest.length ≤ off := by
  unfold peek1 at h
  split at h
  · cases h
  · split at h
    · cases h
    · split at h
      · cases h
      · rename_i heq
        have := congrArg List.length heq
        simp at this; omega

theorem peek1_isSome {rest : List Char} {off : Nat} (h : off < rest.length) :
    ∃ c sz, peek1 rest off = some (c, sz) := by
  cases hp : peek1 rest off with
  | none => have := peek1_none hp; omega
  | some p => exact ⟨p.1, p.2, rfl⟩

theorem digraph_firsts : ∀ p ∈ Generated.digraphs,
    p.1.toList.head? = some '<' ∨ p.1.toList.head? = some '%' ∨ p.1.toList.head? = some ':' := by
  decide

theorem triAt_first {c : Char} {l : List Char} {d : Char} (h : triAt (c :: l) = some d) : c = '?' := by
  unfold triAt at h
  split at h
  · rename_i heq; simp at heq; exact heq.1
  · cases h

theorem diAt_first {c : Char} {l : List Char} {d : Char} (h : diAt (c :: l) = some d) :
    c = '<' ∨ c = '%' ∨ c = ':' := by
  unfold diAt at h
  split at h
  · rename_i c0 c1 tl heq
    simp only [List.cons.injEq] at heq
    obtain ⟨rfl, _⟩ := heq
    simp only [Option.bind_eq_some_iff] at h
    obtain ⟨v, hv, _⟩ := h
    have := digraph_firsts _ (assoc_mem hv)
    simpa using this
  · cases h

/-- a character that starts neither a trigraph nor a digraph is peeked as itself -/
theorem peek1_raw {c : Char} {l : List Char} (h1 : c ≠ '?') (h2 : c ≠ '<') (h3 : c ≠ '%') (h4 : c ≠ ':') :
    peek1 (c :: l) 0 = some (c, 1) := by
  unfold peek1
  simp only [List.drop_zero]
  cases ht : triAt (c :: l) with
  | some d => exact absurd (triAt_first ht) h1
  | none =>
    cases hd : diAt (c :: l) with
    | some d => rcases diAt_first hd with h | h | h <;> contradiction
    | none => rfl

/-- a peeked newline or tab is the raw character -/
theorem peek1_ws {rest : List Char} {off : Nat} {c : Char} {sz : Nat}
    (h : peek1 rest off = some (c, sz)) (hc : c = '\n' ∨ c = '\t') :
    sz = 1 ∧ (rest.drop off).head? = some c := by
  obtain ⟨_, _, h3 | ⟨_, _, hcl⟩⟩ := peek1_spec h
  · exact h3
  · rcases hc with rfl | rfl
    · exact absurd rfl hcl.1
    · exact absurd rfl hcl.2

/-- The raw characters `peek1` looked at, as a prefix of the unread input. -/
theorem peek1_take {rest : List Char} {c : Char} {sz : Nat} (h : peek1 rest 0 = some (c, sz)) :
    sz ≤ rest.length ∧ ((sz = 1 ∧ rest.take 1 = [c]) ∨ (2 ≤ sz ∧ Clean (rest.take sz) ∧ cleanChar c)) := by
  obtain ⟨_, h2, h3⟩ := peek1_spec h
  simp only [List.drop_zero, Nat.zero_add] at h2 h3
  refine ⟨h2, ?_⟩
  rcases h3 with ⟨h3, h4⟩ | h3
  · left; refine ⟨h3, ?_⟩
    cases rest with
    | nil => simp at h4
    | cons x xs => simp at h4; simp [h4]
  · right; exact h3

end Norm

namespace Norm
open Spec

/-! ### the splice loop of `pop` -/

theorem take_succ_of_head {l : List Char} {n : Nat} {c : Char} (h : (l.drop n).head? = some c) :
    l.take (n + 1) = l.take n ++ [c] := by
  rw [List.take_succ]
  rw [List.head?_drop] at h
  simp [h]

/-- the raw characters `peek1` consumed for a character other than newline/tab are clean -/
theorem peek1_clean {rest : List Char} {c : Char} {sz : Nat} (h : peek1 rest 0 = some (c, sz))
    (hc : cleanChar c) : Clean (rest.take sz) := by
  obtain ⟨_, h3 | h3⟩ := peek1_take h
  · rw [h3.1, h3.2]; intro x hx; simp at hx; subst hx; exact hc
  · exact h3.2.1

/-- one splice: the (clean) spelling of a backslash followed by a raw newline -/
theorem follows_splice (s : LexSt) (sz : Nat) (hsz : sz + 1 ≤ s.rest.length)
    (hcl : Clean (s.rest.take sz)) (hnl : (s.rest.drop sz).head? = some '\n') :
    FollowsN (sz + 1) s { advance s (sz + 1) with line := s.line + 1, col := 1 } := by
  refine ⟨hsz, by simp [advance], by simp [advance], ?_, [], by simp [advance], by simp⟩
  rw [take_succ_of_head hnl, advPos_snoc_nl, advPos_clean _ _ hcl]

theorem spliceLoop_spec (fuel : Nat) (s : LexSt) :
    Follows s (spliceLoop fuel s).1 ∧
    (∀ c sz, (spliceLoop fuel s).2 = some (c, sz) → peek1 (spliceLoop fuel s).1.rest 0 = some (c, sz)) ∧
    (s.rest.length < fuel → (spliceLoop fuel s).2 = none → (spliceLoop fuel s).1.rest = []) := by
  induction fuel generalizing s with
  | zero => exact ⟨Follows.refl s, by simp [spliceLoop], by omega⟩
  | succ fuel ih =>
    unfold spliceLoop
    cases hp : peek1 s.rest 0 with
    | none =>
      have := peek1_none hp
      refine ⟨Follows.refl s, by simp, ?_⟩
      intro _ _
      exact List.eq_nil_of_length_eq_zero (by simpa using this)
    | some p =>
      obtain ⟨c, sz⟩ := p
      simp only
      by_cases hc : c = '\\'
      · subst hc
        simp only [bne_self_eq_false, Bool.false_eq_true, ↓reduceIte]
        cases hq : peek1 s.rest sz with
        | none => exact ⟨Follows.refl s, by simp [hp], by simp⟩
        | some q =>
          obtain ⟨t, k⟩ := q
          simp only
          by_cases ht : t = '\n'
          · subst ht
            simp only [bne_self_eq_false, Bool.false_eq_true, ↓reduceIte]
            obtain ⟨hk, hhead⟩ := peek1_ws hq (Or.inl rfl)
            obtain ⟨_, hlen, _⟩ := peek1_spec hq
            subst hk
            have hcl : Clean (s.rest.take sz) := peek1_clean hp (by decide)
            have hf := follows_splice s sz hlen hcl hhead
            obtain ⟨i1, i2, i3⟩ := ih { advance s (sz + 1) with line := s.line + 1, col := 1 }
            refine ⟨Follows.trans ⟨_, hf⟩ i1, i2, ?_⟩
            intro hfu
            apply i3
            simp only [advance, List.length_drop]
            omega
          · have : (t != '\n') = true := by simp [ht]
            simp only [this, ↓reduceIte]
            exact ⟨Follows.refl s, by simp [hp], by simp⟩
      · have : (c != '\\') = true := by simp [hc]
        simp only [this, ↓reduceIte]
        exact ⟨Follows.refl s, by simp [hp], by simp⟩

end Norm
