/-
C11, malformed floating constants: an exponent without digits (`1e`, `1e+`, `1.5e-`, `.5E`, `1.e+`).
-/
import NormModel.Proofs.Floats
import NormModel.Proofs.HexFloats
namespace Norm
open Spec

/-- an exponent part that has no digits: the letter and an optional sign -/
structure BadExp where
  e : Char
  sign : Option Char
deriving Repr

def BadExp.WF (x : BadExp) : Prop := (x.e = 'e' ∨ x.e = 'E') ∧ ∀ s, x.sign = some s → s = '+' ∨ s = '-'
def BadExp.render (x : BadExp) : List Char := x.e :: x.sign.toList

/-- the members of the family "exponent without digits": `D+ Exp` and `D* . D+ Exp` / `D+ . Exp`, where `Exp` is
`[eE][+-]?` with nothing that could continue it -/
inductive BadExpFloat
  | exp (ip : List Char) (x : BadExp) (sfx : String)
  | frac (ip fp : List Char) (x : BadExp) (sfx : String)
deriving Repr

def BadExpFloat.WF : BadExpFloat → Prop
  | .exp ip x sfx => ip ≠ [] ∧ (∀ c ∈ ip, c ∈ decDigits) ∧ x.WF ∧ sfx ∈ Spec.floatSuffixes
  | .frac ip fp x sfx => (ip ≠ [] ∨ fp ≠ []) ∧ (∀ c ∈ ip, c ∈ decDigits) ∧ (∀ c ∈ fp, c ∈ decDigits) ∧
      x.WF ∧ sfx ∈ Spec.floatSuffixes

/-- the text before the exponent -/
def BadExpFloat.mant : BadExpFloat → List Char
  | .exp ip _ _ => ip
  | .frac ip fp _ _ => ip ++ '.' :: fp
def BadExpFloat.x : BadExpFloat → BadExp
  | .exp _ x _ => x
  | .frac _ _ x _ => x
def BadExpFloat.sfx : BadExpFloat → String
  | .exp _ _ s => s
  | .frac _ _ _ s => s
def BadExpFloat.kind : BadExpFloat → FloatKind
  | .exp .. => .exponent
  | .frac .. => .fractional
def BadExpFloat.render (k : BadExpFloat) : List Char := k.mant ++ k.x.render ++ k.sfx.toList

/-- the exponent group on an exponent part without digits: exactly the letter and the sign -/
theorem matchExp_nodigits (u : Uni) (x : BadExp) (hx : x.WF) (after : List Char)
    (ha : ∀ c, after.head? = some c → u.isD c = false ∧ isE c = false ∧ c ≠ '.' ∧ c ≠ '+' ∧ c ≠ '-') :
    matchExp isE u.isD (tailDec u) (x.render ++ after) = x.render := by
  obtain ⟨he, hsign⟩ := hx
  have hisE : isE x.e = true := by rcases he with h | h <;> rw [h] <;> decide
  have haE : after.takeWhile isE = [] := by
    cases after with
    | nil => rfl
    | cons c tl => simp [List.takeWhile, (ha c rfl).2.1]
  have haD : after.takeWhile u.isD = [] := by
    cases after with
    | nil => rfl
    | cons c tl => simp [List.takeWhile, (ha c rfl).1]
  have hatail : tailDec u after = 0 := by
    unfold tailDec
    cases after with
    | nil => rfl
    | cons c tl =>
      obtain ⟨h1, _, h3, _, _⟩ := ha c rfl
      have h3' : (c == '.') = false := by simp [h3]
      simp [List.takeWhile, h1, h3']
  have hiter0 : ∀ fuel, expIter isE (tailDec u) fuel after = [] := by
    intro fuel
    cases fuel with
    | zero => rfl
    | succ fuel =>
      unfold expIter
      cases after with
      | nil => rfl
      | cons c tl => simp [(ha c rfl).2.1]
  unfold matchExp spanP BadExp.render
  cases hs : x.sign with
  | none =>
    simp only [Option.toList_none, List.cons_append, List.nil_append]
    have h1 : (x.e :: after).takeWhile isE = [x.e] := by simp [List.takeWhile_cons, hisE, haE]
    have h2 : (x.e :: after).dropWhile isE = after := by
      rw [List.dropWhile_cons]; simp only [hisE, ↓reduceIte]
      cases after with
      | nil => rfl
      | cons c tl => simp [List.dropWhile_cons, (ha c rfl).2.1]
    simp only [h1, h2, List.isEmpty_cons, Bool.false_eq_true, ↓reduceIte]
    cases after with
    | nil =>
      simp only [List.takeWhile_nil, List.isEmpty_nil, Bool.not_true, Bool.false_eq_true, ↓reduceIte]
      simp [expIter, hisE, tailDec]
    | cons c tl =>
      obtain ⟨_, _, _, h4, h5⟩ := ha c rfl
      have hns : (c == '+' || c == '-') = false := by simp [h4, h5]
      simp only [hns, Bool.false_eq_true, ↓reduceIte, haD, List.isEmpty_nil, Bool.not_true]
      unfold expIter
      simp only [hisE, ↓reduceIte, hns, Bool.false_eq_true, hatail, List.take_zero, List.drop_zero, List.append_nil]
      rw [hiter0]
      simp
  | some sg =>
    have hsg := hsign sg hs
    have hsgE : isE sg = false := by rcases hsg with rfl | rfl <;> decide
    have hsgD : u.isD sg = false := by
      rcases hsg with rfl | rfl <;> (rw [isD_ascii u (by decide)]; decide)
    have hsgb : (sg == '+' || sg == '-') = true := by rcases hsg with rfl | rfl <;> decide
    simp only [Option.toList_some, List.cons_append, List.nil_append]
    have h1 : (x.e :: sg :: after).takeWhile isE = [x.e] := by simp [List.takeWhile, hisE, hsgE]
    have h2 : (x.e :: sg :: after).dropWhile isE = sg :: after := by simp [List.dropWhile, hisE, hsgE]
    simp only [h1, h2, List.isEmpty_cons, Bool.false_eq_true, ↓reduceIte, hsgb, haD, List.isEmpty_nil]
    have hD2 : (sg :: after).takeWhile u.isD = [] := by simp [List.takeWhile, hsgD]
    simp only [hD2, List.isEmpty_nil, Bool.not_true, Bool.false_eq_true, ↓reduceIte]
    unfold expIter
    simp only [hisE, ↓reduceIte, hsgb, hatail, List.take_zero, List.drop_zero, List.append_nil]
    rw [hiter0]
    simp

theorem goodExponent_nodigits (u : Uni) (x : BadExp) (hx : x.WF) : goodExponent u x.render = false := by
  obtain ⟨he, hsign⟩ := hx
  have hisE : isE x.e = true := by rcases he with h | h <;> rw [h] <;> decide
  unfold goodExponent BadExp.render
  cases hs : x.sign with
  | none => simp [hisE]
  | some sg =>
    have hsgb : (sg == '+' || sg == '-') = true := by rcases hsign sg hs with rfl | rfl <;> decide
    simp [hisE, hsgb]

/-- **The float parser on a constant whose exponent has no digits**: a match whose groups spell the constant, and
BAD_EXPONENT on the exponent (from its letter to the end of the constant). -/
theorem floatLogic_bad_exp (u : Uni) (k : BadExpFloat) (hk : k.WF) (rest : List Char) (hb : boundaryOK rest)
    (line col : Nat) :
    floatLogic u line col (k.render ++ rest) =
      .tok ⟨k.kind, k.mant, k.x.render, k.sfx.toList⟩
        (some (mkDiag "BAD_EXPONENT" .error
          [⟨line, col + k.mant.length, some (k.x.render.length + k.sfx.toList.length), none⟩])) := by
  cases k with
  | exp ip x sfx =>
    obtain ⟨hipne, hip, hx, hs⟩ := hk
    have haf := after_float u hs hb
    have hxd : u.isD x.e = false := by
      have : x.e ∈ wordChars ∧ isAsciiDigit x.e = false := by rcases hx.1 with h | h <;> rw [h] <;> decide
      rw [isD_ascii u (word_tbl _ this.1).1]; exact this.2
    have hipD : ∀ c ∈ ip, u.isD c = true := fun c hc => (dec_facts u (hip c hc)).1
    have hsrc : BadExpFloat.render (.exp ip x sfx) ++ rest = ip ++ (x.render ++ (sfx.toList ++ rest)) := by
      simp [BadExpFloat.render, BadExpFloat.mant, BadExpFloat.x, BadExpFloat.sfx, List.append_assoc]
    have hhead : ∀ c, (x.render ++ (sfx.toList ++ rest)).head? = some c → u.isD c = false := by
      intro c hc; simp [BadExp.render] at hc; subst hc; exact hxd
    have htw : (ip ++ (x.render ++ (sfx.toList ++ rest))).takeWhile u.isD = ip := takeWhile_app hipD hhead
    have hdw : (ip ++ (x.render ++ (sfx.toList ++ rest))).dropWhile u.isD = x.render ++ (sfx.toList ++ rest) :=
      dropWhile_app hipD hhead
    have hme := matchExp_nodigits u x hx (sfx.toList ++ rest) haf
    have hm : matchFloatExp u (ip ++ (x.render ++ (sfx.toList ++ rest))) =
        some ⟨.exponent, ip, x.render, sfx.toList⟩ := by
      unfold matchFloatExp spanP
      simp only [htw, hdw, hme]
      have h1 : ip.isEmpty = false := by cases ip with | nil => exact absurd rfl hipne | cons a b => rfl
      have h2 : x.render.isEmpty = false := by simp [BadExp.render]
      simp only [h1, h2, Bool.false_eq_true, ↓reduceIte, List.drop_left', floatSuffix_valid u hs hb]
    rw [hsrc]
    unfold floatLogic
    simp only [hm]
    have hge := goodExponent_nodigits u x hx
    have h2 : x.render.isEmpty = false := by simp [BadExp.render]
    simp [hge, h2, BadExpFloat.mant, BadExpFloat.x, BadExpFloat.sfx, BadExpFloat.kind]
  | frac ip fp x sfx =>
    obtain ⟨hne, hip, hfp, hx, hs⟩ := hk
    have haf := after_float u hs hb
    have hipD : ∀ c ∈ ip, u.isD c = true := fun c hc => (dec_facts u (hip c hc)).1
    have hfpD : ∀ c ∈ fp, u.isD c = true := fun c hc => (dec_facts u (hfp c hc)).1
    have hxd : u.isD x.e = false := by
      have : x.e ∈ wordChars ∧ isAsciiDigit x.e = false := by rcases hx.1 with h | h <;> rw [h] <;> decide
      rw [isD_ascii u (word_tbl _ this.1).1]; exact this.2
    have hXhead : ∀ c, (x.render ++ (sfx.toList ++ rest)).head? = some c → u.isD c = false := by
      intro c hc; simp [BadExp.render] at hc; subst hc; exact hxd
    have hsrc : BadExpFloat.render (.frac ip fp x sfx) ++ rest = ip ++ ('.' :: (fp ++ (x.render ++ (sfx.toList ++ rest)))) := by
      simp [BadExpFloat.render, BadExpFloat.mant, BadExpFloat.x, BadExpFloat.sfx, List.append_assoc]
    have hdot : ∀ c, ('.' :: (fp ++ (x.render ++ (sfx.toList ++ rest)))).head? = some c → u.isD c = false := by
      intro c hc; simp at hc; subst hc
      rw [isD_ascii u (by decide)]; decide
    have htw : (ip ++ ('.' :: (fp ++ (x.render ++ (sfx.toList ++ rest))))).takeWhile u.isD = ip := takeWhile_app hipD hdot
    have hdw : (ip ++ ('.' :: (fp ++ (x.render ++ (sfx.toList ++ rest))))).dropWhile u.isD = '.' :: (fp ++ (x.render ++ (sfx.toList ++ rest))) :=
      dropWhile_app hipD hdot
    have hfs : (fp ++ (x.render ++ (sfx.toList ++ rest))).takeWhile u.isD = fp := takeWhile_app hfpD hXhead
    have hme := matchExp_nodigits u x hx (sfx.toList ++ rest) haf
    have hm1 : matchFloatExp u (ip ++ ('.' :: (fp ++ (x.render ++ (sfx.toList ++ rest))))) = none := by
      unfold matchFloatExp spanP
      simp only [htw, hdw]
      split
      · rfl
      · have : matchExp isE u.isD (tailDec u) ('.' :: (fp ++ (x.render ++ (sfx.toList ++ rest)))) = [] := by
          unfold matchExp spanP
          simp [List.takeWhile, isE_facts.2.2.2.2.2]
        simp [this]
    have hm2 : matchFloatFrac u (ip ++ ('.' :: (fp ++ (x.render ++ (sfx.toList ++ rest))))) =
        some ⟨.fractional, ip ++ '.' :: fp, x.render, sfx.toList⟩ := by
      unfold matchFloatFrac spanP
      simp only [htw, hdw, hfs]
      cases hfe : fp with
      | nil =>
        have hipne : ip.isEmpty = false := by
          rcases hne with h | h
          · cases ip with | nil => exact absurd rfl h | cons a b => rfl
          · exact absurd hfe h
        simp only [List.isEmpty_nil, Bool.not_true, Bool.false_eq_true, ↓reduceIte, hipne, Bool.not_false,
          List.nil_append]
        simp [hme, floatSuffix_valid u hs hb]
      | cons f0 fs =>
        simp only [List.isEmpty_cons, Bool.not_false, ↓reduceIte]
        have hdrop : (f0 :: fs ++ (x.render ++ (sfx.toList ++ rest))).drop (f0 :: fs).length = x.render ++ (sfx.toList ++ rest) := by
          simp
        rw [hdrop]
        simp only [hme, List.drop_left', floatSuffix_valid u hs hb]
    rw [hsrc]
    unfold floatLogic
    simp only [hm1, hm2]
    have hge := goodExponent_nodigits u x hx
    have h2 : x.render.isEmpty = false := by simp [BadExp.render]
    simp [hge, h2, BadExpFloat.mant, BadExpFloat.x, BadExpFloat.sfx, BadExpFloat.kind]

theorem badExpFloat_plain (k : BadExpFloat) (hk : k.WF) : ∀ c ∈ k.render, plainChar c := by
  have hxp : ∀ x : BadExp, x.WF → ∀ c ∈ x.render, plainChar c := by
    intro x hx c hc
    obtain ⟨he, hsign⟩ := hx
    simp only [BadExp.render, List.mem_cons, Option.mem_toList] at hc
    rcases hc with rfl | hc
    · rcases he with h | h <;> rw [h] <;> (unfold plainChar; decide)
    · rcases hsign c hc with rfl | rfl <;> (unfold plainChar; decide)
  cases k with
  | exp ip x sfx =>
    obtain ⟨_, hip, hx, hs⟩ := hk
    intro c hc
    simp only [BadExpFloat.render, BadExpFloat.mant, BadExpFloat.x, BadExpFloat.sfx, List.mem_append] at hc
    rcases hc with (hc | hc) | hc
    · exact plain_of_word (dec_sub_word c (hip c hc))
    · exact hxp x hx c hc
    · exact plain_of_word ((fsuffix_tbl sfx hs).2.1 c hc)
  | frac ip fp x sfx =>
    obtain ⟨_, hip, hfp, hx, hs⟩ := hk
    intro c hc
    simp only [BadExpFloat.render, BadExpFloat.mant, BadExpFloat.x, BadExpFloat.sfx, List.mem_append, List.mem_cons] at hc
    rcases hc with ((hc | rfl | hc) | hc) | hc
    · exact plain_of_word (dec_sub_word c (hip c hc))
    · unfold plainChar; decide
    · exact plain_of_word (dec_sub_word c (hfp c hc))
    · exact hxp x hx c hc
    · exact plain_of_word ((fsuffix_tbl sfx hs).2.1 c hc)

/-- **Malformed family "exponent without digits"**: one CONSTANT token spanning the whole text, and exactly one
diagnostic added, BAD_EXPONENT, highlighted from the exponent letter to the end of the constant. -/
theorem bad_exponent_reported (u : Uni) (k : BadExpFloat) (hk : k.WF) (rest : List Char) (hb : boundaryOK rest)
    (s : LexSt) (hr : s.rest = k.render ++ rest) :
    ∃ s' t, trySubLexers u s = .ok (some (s', t)) ∧ t.type = "CONSTANT" ∧
      t.value = some (String.ofList k.render) ∧ t.line = s.line ∧ t.col = s.col ∧
      s'.rest = rest ∧
      s'.diags = s.diags ++ [mkDiag "BAD_EXPONENT" .error
        [⟨s.line, s.col + k.mant.length, some (k.x.render.length + k.sfx.toList.length), none⟩]] := by
  have hfl := floatLogic_bad_exp u k hk rest hb s.line s.col
  have hlen : k.mant.length + k.x.render.length + k.sfx.toList.length = k.render.length := by
    simp [BadExpFloat.render, List.length_append]; omega
  have hne : k.render ≠ [] := by
    simp [BadExpFloat.render, BadExp.render]
  let d := mkDiag "BAD_EXPONENT" .error
        [⟨s.line, s.col + k.mant.length, some (k.x.render.length + k.sfx.toList.length), none⟩]
  obtain ⟨n1, n2, n3⟩ := popN_plain k.render rest (s.addDiag d) hr (badExpFloat_plain k hk)
  have hpf : ∃ s', parseFloat u s = some (s', mkTok "CONSTANT" s s' (some k.render)) ∧ s'.rest = rest ∧
      s'.diags = s.diags ++ [d] := by
    unfold parseFloat
    rw [hr]
    cases hkr : k.render ++ rest with
    | nil =>
      exfalso
      have := congrArg List.length hkr
      simp only [List.length_append, List.length_nil] at this
      have : k.render.length = 0 := by omega
      exact hne (List.eq_nil_of_length_eq_zero this)
    | cons c0 tl0 =>
      simp only
      rw [← hkr, hfl]
      simp only [LexSt.addDiag?, hlen]
      cases hpn : popN k.render.length (s.addDiag d) with
      | mk s2 r2 =>
        rw [hpn] at n1 n2 n3
        simp only at n1 n2 n3
        subst n1
        exact ⟨s2, rfl, n2, by rw [n3]; rfl⟩
  obtain ⟨s', h1, h2, h3⟩ := hpf
  refine ⟨s', mkTok "CONSTANT" s s' (some k.render), ?_, rfl, rfl, rfl, rfl, h2, h3⟩
  unfold trySubLexers
  rw [h1]

/-! ### several dots -/

theorem dotword_facts (u : Uni) {c : Char} (h : c ∈ wordChars ∨ c = '.') : (u.isW c || c == '.') = true := by
  rcases h with h | rfl
  · simp [word_facts u h]
  · simp

theorem dotword_plain {c : Char} (h : c ∈ wordChars ∨ c = '.') : plainChar c := by
  rcases h with h | rfl
  · exact plain_of_word h
  · unfold plainChar; decide

/-- **The float parser on `D*.D*` followed by a further dot** (and any run of letters, digits, underscores and dots):
one match whose suffix group holds everything from the second dot on, and MULTIPLE_DOTS on it. -/
theorem floatLogic_dots (u : Uni) (ip fp more : List Char) (hne : ip ≠ [] ∨ fp ≠ [])
    (hip : ∀ c ∈ ip, c ∈ decDigits) (hfp : ∀ c ∈ fp, c ∈ decDigits) (hmore : ∀ c ∈ more, c ∈ wordChars ∨ c = '.')
    (rest : List Char) (hb : boundaryOK rest) (line col : Nat) :
    floatLogic u line col (ip ++ '.' :: fp ++ '.' :: more ++ rest) =
      .tok ⟨.fractional, ip ++ '.' :: fp, [], '.' :: more⟩
        (some (mkDiag "MULTIPLE_DOTS" .error [⟨line, col + (ip ++ '.' :: fp).length, some ('.' :: more).length, none⟩])) := by
  have hipD : ∀ c ∈ ip, u.isD c = true := fun c hc => (dec_facts u (hip c hc)).1
  have hfpD : ∀ c ∈ fp, u.isD c = true := fun c hc => (dec_facts u (hfp c hc)).1
  have hdotD : u.isD '.' = false := by rw [isD_ascii u (by decide)]; decide
  have hsrc : ip ++ '.' :: fp ++ '.' :: more ++ rest = ip ++ ('.' :: (fp ++ ('.' :: (more ++ rest)))) := by
    simp [List.append_assoc]
  have hdot : ∀ c, ('.' :: (fp ++ ('.' :: (more ++ rest)))).head? = some c → u.isD c = false := by
    intro c hc; simp at hc; subst hc; exact hdotD
  have hdot2 : ∀ c, ('.' :: (more ++ rest)).head? = some c → u.isD c = false := by
    intro c hc; simp at hc; subst hc; exact hdotD
  have htw : (ip ++ ('.' :: (fp ++ ('.' :: (more ++ rest))))).takeWhile u.isD = ip := takeWhile_app hipD hdot
  have hdw : (ip ++ ('.' :: (fp ++ ('.' :: (more ++ rest))))).dropWhile u.isD = '.' :: (fp ++ ('.' :: (more ++ rest))) :=
    dropWhile_app hipD hdot
  have hfs : (fp ++ ('.' :: (more ++ rest))).takeWhile u.isD = fp := takeWhile_app hfpD hdot2
  have hme : matchExp isE u.isD (tailDec u) ('.' :: (more ++ rest)) = [] := by
    unfold matchExp spanP
    simp [List.takeWhile, isE_facts.2.2.2.2.2]
  have hsuf : floatSuffix u ('.' :: (more ++ rest)) = '.' :: more := by
    unfold floatSuffix
    have := takeWhile_app (p := fun c => u.isW c || c == '.') (s := '.' :: more) (rest := rest)
      (by
        intro c hc
        rcases List.mem_cons.mp hc with rfl | hc
        · simp
        · exact dotword_facts u (hmore c hc))
      (by
        intro c hc
        obtain ⟨h1, _, _, _, _, h6, _⟩ := boundary_head u hb c hc
        simp [h1, h6])
    simpa using this
  have hm1 : matchFloatExp u (ip ++ ('.' :: (fp ++ ('.' :: (more ++ rest))))) = none := by
    unfold matchFloatExp spanP
    simp only [htw, hdw]
    split
    · rfl
    · have : matchExp isE u.isD (tailDec u) ('.' :: (fp ++ ('.' :: (more ++ rest)))) = [] := by
        unfold matchExp spanP
        simp [List.takeWhile, isE_facts.2.2.2.2.2]
      simp [this]
  have hm2 : matchFloatFrac u (ip ++ ('.' :: (fp ++ ('.' :: (more ++ rest))))) =
      some ⟨.fractional, ip ++ '.' :: fp, [], '.' :: more⟩ := by
    unfold matchFloatFrac spanP
    simp only [htw, hdw, hfs]
    cases hfe : fp with
    | nil =>
      have hipne : ip.isEmpty = false := by
        rcases hne with h | h
        · cases ip with | nil => exact absurd rfl h | cons a b => rfl
        · exact absurd hfe h
      simp only [List.isEmpty_nil, Bool.not_true, Bool.false_eq_true, ↓reduceIte, hipne, Bool.not_false,
        List.nil_append]
      simp [hme, hsuf]
    | cons f0 fs =>
      simp only [List.isEmpty_cons, Bool.not_false, ↓reduceIte]
      have hdrop : (f0 :: fs ++ ('.' :: (more ++ rest))).drop (f0 :: fs).length = '.' :: (more ++ rest) := by
        simp
      rw [hdrop]
      simp only [hme, List.length_nil, List.drop_zero, hsuf]
  rw [hsrc]
  unfold floatLogic
  simp only [hm1, hm2]
  have hc1 : (ip ++ '.' :: fp).count '.' = 1 := by
    rw [List.count_append, List.count_cons_self, count_dot_digits ip hip, count_dot_digits fp hfp]
  simp [hc1]

/-- **Malformed family "several dots"**: `D*.D*` (at least one digit) directly followed by another dot and any run of
letters, digits, underscores and dots — `1.2.3`, `1..5`, `.5.`, `3.14.15f` —: one CONSTANT token spanning the whole
text, and exactly one diagnostic added, MULTIPLE_DOTS, highlighted from the second dot to the end. -/
theorem multiple_dots_reported (u : Uni) (ip fp more : List Char) (hne : ip ≠ [] ∨ fp ≠ [])
    (hip : ∀ c ∈ ip, c ∈ decDigits) (hfp : ∀ c ∈ fp, c ∈ decDigits) (hmore : ∀ c ∈ more, c ∈ wordChars ∨ c = '.')
    (rest : List Char) (hb : boundaryOK rest) (s : LexSt) (hr : s.rest = ip ++ '.' :: fp ++ '.' :: more ++ rest) :
    ∃ s' t, trySubLexers u s = .ok (some (s', t)) ∧ t.type = "CONSTANT" ∧
      t.value = some (String.ofList (ip ++ '.' :: fp ++ '.' :: more)) ∧ t.line = s.line ∧ t.col = s.col ∧
      s'.rest = rest ∧
      s'.diags = s.diags ++ [mkDiag "MULTIPLE_DOTS" .error
        [⟨s.line, s.col + (ip ++ '.' :: fp).length, some ('.' :: more).length, none⟩]] := by
  have hfl := floatLogic_dots u ip fp more hne hip hfp hmore rest hb s.line s.col
  let txt := ip ++ '.' :: fp ++ '.' :: more
  have hlen : (ip ++ '.' :: fp).length + ([] : List Char).length + ('.' :: more).length = txt.length := by
    simp [txt, List.length_append]; omega
  have hplain : ∀ c ∈ txt, plainChar c := by
    intro c hc
    simp only [txt, List.mem_append, List.mem_cons] at hc
    rcases hc with (hc | rfl | hc) | rfl | hc
    · exact plain_of_word (dec_sub_word c (hip c hc))
    · unfold plainChar; decide
    · exact plain_of_word (dec_sub_word c (hfp c hc))
    · unfold plainChar; decide
    · exact dotword_plain (hmore c hc)
  let d := mkDiag "MULTIPLE_DOTS" .error [⟨s.line, s.col + (ip ++ '.' :: fp).length, some ('.' :: more).length, none⟩]
  have hr' : (s.addDiag d).rest = txt ++ rest := by simpa [LexSt.addDiag, txt] using hr
  obtain ⟨n1, n2, n3⟩ := popN_plain txt rest (s.addDiag d) hr' hplain
  have hpf : ∃ s', parseFloat u s = some (s', mkTok "CONSTANT" s s' (some txt)) ∧ s'.rest = rest ∧
      s'.diags = s.diags ++ [d] := by
    unfold parseFloat
    rw [hr]
    cases hkr : ip ++ '.' :: fp ++ '.' :: more ++ rest with
    | nil =>
      exfalso
      have := congrArg List.length hkr
      simp at this
    | cons c0 tl0 =>
      simp only
      rw [← hkr, hfl]
      simp only [LexSt.addDiag?, hlen]
      cases hpn : popN txt.length (s.addDiag d) with
      | mk s2 r2 =>
        rw [hpn] at n1 n2 n3
        simp only at n1 n2 n3
        subst n1
        exact ⟨s2, rfl, n2, by rw [n3]; rfl⟩
  obtain ⟨s', h1, h2, h3⟩ := hpf
  refine ⟨s', mkTok "CONSTANT" s s' (some txt), ?_, rfl, rfl, rfl, rfl, h2, h3⟩
  unfold trySubLexers
  rw [h1]

/-! ### hexadecimal floating constants whose binary exponent has no digits -/

/-- the exponent group of the hexadecimal pattern on `[pP][+-]?` followed by something that cannot continue it -/
theorem matchBinExp_nodigits (u : Uni) (p : Char) (hp : p = 'p' ∨ p = 'P') (sign : Option Char)
    (hsign : ∀ s, sign = some s → s = '+' ∨ s = '-') (after : List Char)
    (ha : ∀ c, after.head? = some c → u.isH c = false ∧ isP c = false ∧ c ≠ '.' ∧ c ≠ '+' ∧ c ≠ '-') :
    matchExp isP u.isH (tailHex u) (p :: sign.toList ++ after) = p :: sign.toList := by
  have hisP : isP p = true := by rcases hp with h | h <;> rw [h] <;> decide
  have haD : after.takeWhile u.isH = [] := by
    cases after with
    | nil => rfl
    | cons c tl => simp [List.takeWhile, (ha c rfl).1]
  have hatail : tailHex u after = 0 := by
    unfold tailHex
    cases after with
    | nil => rfl
    | cons c tl =>
      obtain ⟨h1, _, h3, _, _⟩ := ha c rfl
      have h3' : (c == '.') = false := by simp [h3]
      simp [List.takeWhile, h1, h3']
  have hiter0 : ∀ fuel, expIter isP (tailHex u) fuel after = [] := by
    intro fuel
    cases fuel with
    | zero => rfl
    | succ fuel =>
      unfold expIter
      cases after with
      | nil => rfl
      | cons c tl => simp [(ha c rfl).2.1]
  unfold matchExp spanP
  cases hs : sign with
  | none =>
    simp only [Option.toList_none, List.cons_append, List.nil_append]
    have h1 : (p :: after).takeWhile isP = [p] := by
      cases after with
      | nil => simp [List.takeWhile, hisP]
      | cons c tl => simp [List.takeWhile, hisP, (ha c rfl).2.1]
    have h2 : (p :: after).dropWhile isP = after := by
      rw [List.dropWhile_cons]; simp only [hisP, ↓reduceIte]
      cases after with
      | nil => rfl
      | cons c tl => simp [List.dropWhile_cons, (ha c rfl).2.1]
    simp only [h1, h2, List.isEmpty_cons, Bool.false_eq_true, ↓reduceIte]
    cases after with
    | nil =>
      simp only [List.takeWhile_nil, List.isEmpty_nil, Bool.not_true, Bool.false_eq_true, ↓reduceIte]
      simp [expIter, hisP, tailHex]
    | cons c tl =>
      obtain ⟨_, _, _, h4, h5⟩ := ha c rfl
      have hns : (c == '+' || c == '-') = false := by simp [h4, h5]
      simp only [hns, Bool.false_eq_true, ↓reduceIte, haD, List.isEmpty_nil, Bool.not_true]
      unfold expIter
      simp only [hisP, ↓reduceIte, hns, Bool.false_eq_true, hatail, List.take_zero, List.drop_zero, List.append_nil]
      rw [hiter0]
      simp
  | some sg =>
    have hsg := hsign sg hs
    have hsgP : isP sg = false := by rcases hsg with rfl | rfl <;> decide
    have hsgD : u.isH sg = false := by
      rcases hsg with rfl | rfl <;> (rw [isH_ascii u (by decide)]; decide)
    have hsgb : (sg == '+' || sg == '-') = true := by rcases hsg with rfl | rfl <;> decide
    simp only [Option.toList_some, List.cons_append, List.nil_append]
    have h1 : (p :: sg :: after).takeWhile isP = [p] := by simp [List.takeWhile, hisP, hsgP]
    have h2 : (p :: sg :: after).dropWhile isP = sg :: after := by simp [List.dropWhile, hisP, hsgP]
    simp only [h1, h2, List.isEmpty_cons, Bool.false_eq_true, ↓reduceIte, hsgb, haD, List.isEmpty_nil]
    have hD2 : (sg :: after).takeWhile u.isH = [] := by simp [List.takeWhile, hsgD]
    simp only [hD2, List.isEmpty_nil, Bool.not_true, Bool.false_eq_true, ↓reduceIte]
    unfold expIter
    simp only [hisP, ↓reduceIte, hsgb, hatail, List.take_zero, List.drop_zero, List.append_nil]
    rw [hiter0]
    simp

theorem goodBinExponent_nodigits (u : Uni) (p : Char) (hp : p = 'p' ∨ p = 'P') (sign : Option Char)
    (hsign : ∀ s, sign = some s → s = '+' ∨ s = '-') : goodBinExponent u (p :: sign.toList) = false := by
  have hisP : isP p = true := by rcases hp with h | h <;> rw [h] <;> decide
  unfold goodBinExponent
  cases hs : sign with
  | none => simp [hisP]
  | some sg =>
    have hsgb : (sg == '+' || sg == '-') = true := by rcases hsign sg hs with rfl | rfl <;> decide
    simp [hisP, hsgb]

/-- the float parser, once the mantissa, the exponent group (without digits) and the suffix group are known -/
theorem floatLogic_hex_badexp (u : Uni) (line col : Nat) (x : Char) (hx : x = 'x' ∨ x = 'X') (mant E L rest : List Char)
    (hmant : hexMantissa u (mant ++ (E ++ (L ++ rest))) = some (mant, E ++ (L ++ rest)))
    (hme : matchExp isP u.isH (tailHex u) (E ++ (L ++ rest)) = E)
    (hsuf : floatSuffix u (L ++ rest) = L)
    (hmh : ∀ c, (mant ++ (E ++ (L ++ rest))).head? = some c → (c == 'x' || c == 'X') = false)
    (hmantb : ∀ c ∈ mant, (Generated.hexadecimalDigits.toList ++ ['.']).contains c = true)
    (hEne : E.isEmpty = false) (hbad : goodBinExponent u E = false) :
    floatLogic u line col ('0' :: x :: (mant ++ (E ++ (L ++ rest)))) =
      .tok ⟨.hexadecimal, '0' :: x :: mant, E, L⟩
        (some (mkDiag "BAD_EXPONENT" .error [⟨line, col + ('0' :: x :: mant).length, some (E.length + L.length), none⟩])) := by
  obtain ⟨x1, x2, x3, x4, x5, x6⟩ := x_facts u hx
  have h0 : u.isD '0' = true := by rw [isD_ascii u (by decide)]; decide
  have htwD : ('0' :: x :: (mant ++ (E ++ (L ++ rest)))).takeWhile u.isD = ['0'] := by
    simp only [List.takeWhile_cons, h0, x1, ↓reduceIte, Bool.false_eq_true]
  have hdwD : ('0' :: x :: (mant ++ (E ++ (L ++ rest)))).dropWhile u.isD = x :: (mant ++ (E ++ (L ++ rest))) := by
    simp only [List.dropWhile_cons, h0, x1, ↓reduceIte, Bool.false_eq_true]
  have hm1 : matchFloatExp u ('0' :: x :: (mant ++ (E ++ (L ++ rest)))) = none := by
    unfold matchFloatExp spanP
    simp only [htwD, hdwD]
    have : matchExp isE u.isD (tailDec u) (x :: (mant ++ (E ++ (L ++ rest)))) = [] :=
      matchExp_nil (by intro c hc; simp at hc; subst hc; exact x3)
    simp [this]
  have hm2 : matchFloatFrac u ('0' :: x :: (mant ++ (E ++ (L ++ rest)))) = none := by
    unfold matchFloatFrac spanP
    simp only [htwD, hdwD]
    split
    · rfl
    · rename_i c r hc
      split at hc
      · rename_i r' heq
        simp only [List.cons.injEq] at heq
        exact absurd heq.1 x4
      · cases hc
  have hm3 : matchFloatHex u ('0' :: x :: (mant ++ (E ++ (L ++ rest)))) =
      some ⟨.hexadecimal, '0' :: x :: mant, E, L⟩ := by
    unfold matchFloatHex
    simp only
    have tx : (x :: (mant ++ (E ++ (L ++ rest)))).takeWhile (fun c => c == 'x' || c == 'X') = [x] := by
      have := takeWhile_app (p := fun c => c == 'x' || c == 'X') (s := [x]) (rest := mant ++ (E ++ (L ++ rest)))
        (by intro c hc; simp at hc; subst hc; exact x5) hmh
      simpa using this
    have dx : (x :: (mant ++ (E ++ (L ++ rest)))).dropWhile (fun c => c == 'x' || c == 'X') = mant ++ (E ++ (L ++ rest)) := by
      have := dropWhile_app (p := fun c => c == 'x' || c == 'X') (s := [x]) (rest := mant ++ (E ++ (L ++ rest)))
        (by intro c hc; simp at hc; subst hc; exact x5) hmh
      simpa using this
    rw [tx, dx, hmant]
    simp only [hme]
    have : (E ++ (L ++ rest)).drop E.length = L ++ rest := by simp
    rw [this, hsuf]
    simp
  unfold floatLogic
  simp only [hm1, hm2, hm3]
  have hstrip := strip_hexconst x hx mant hmantb
  simp [hEne, hstrip, hbad]
  intro h1 h2
  rcases hx with h | h
  · exact absurd h h1
  · exact absurd h h2

/-- the members of the family: `0[xX]`, a hexadecimal mantissa, `[pP][+-]?`, and `l`/`L` or nothing -/
structure BadHexFloat where
  x : Char
  ip : List Char
  frac : Option (List Char)
  p : Char
  sign : Option Char
  sfx : String
deriving Repr

def BadHexFloat.WF (k : BadHexFloat) : Prop :=
  (k.x = 'x' ∨ k.x = 'X') ∧ (∀ c ∈ k.ip, c ∈ hexDigits) ∧ fracOK k.ip k.frac ∧ (k.p = 'p' ∨ k.p = 'P') ∧
  (∀ s, k.sign = some s → s = '+' ∨ s = '-') ∧ (k.sfx = "" ∨ k.sfx = "l" ∨ k.sfx = "L")
def BadHexFloat.mant (k : BadHexFloat) : List Char := k.ip ++ fracText k.frac
def BadHexFloat.exp (k : BadHexFloat) : List Char := k.p :: k.sign.toList
def BadHexFloat.render (k : BadHexFloat) : List Char := '0' :: k.x :: (k.mant ++ (k.exp ++ k.sfx.toList))

theorem floatLogic_badhex (u : Uni) (k : BadHexFloat) (hk : k.WF) (rest : List Char) (hb : boundaryOK rest)
    (line col : Nat) :
    floatLogic u line col (k.render ++ rest) =
      .tok ⟨.hexadecimal, '0' :: k.x :: k.mant, k.exp, k.sfx.toList⟩
        (some (mkDiag "BAD_EXPONENT" .error
          [⟨line, col + ('0' :: k.x :: k.mant).length, some (k.exp.length + k.sfx.toList.length), none⟩])) := by
  obtain ⟨hx, hip, hfr, hp, hsign, hs⟩ := hk
  have hLw : ∀ c ∈ k.sfx.toList, c ∈ wordChars := by
    rcases hs with h | h | h <;> rw [h] <;> decide
  have hLhead : ∀ c, (k.sfx.toList ++ rest).head? = some c → u.isH c = false ∧ isP c = false ∧ c ≠ '.' ∧ c ≠ '+' ∧ c ≠ '-' := by
    intro c hc
    cases hl : k.sfx.toList with
    | nil =>
      rw [hl] at hc; simp only [List.nil_append] at hc
      obtain ⟨h1, _, h3, _, _, h6, h7, h8⟩ := boundary_head u hb c hc
      refine ⟨h3, ?_, h6, h7, h8⟩
      cases hpc : isP c
      · rfl
      · exfalso
        unfold isP at hpc
        simp only [Bool.or_eq_true, beq_iff_eq] at hpc
        have : u.isW c = true := by rcases hpc with rfl | rfl <;> exact word_facts u (by decide)
        rw [h1] at this; cases this
    | cons d tl =>
      rw [hl] at hc; simp only [List.cons_append, List.head?_cons, Option.some.injEq] at hc
      have : d = 'l' ∨ d = 'L' := by
        rcases hs with h | h | h <;> rw [h] at hl <;> simp at hl
        · exact Or.inl hl.1.symm
        · exact Or.inr hl.1.symm
      subst hc
      rcases this with rfl | rfl
      · exact ⟨by rw [isH_ascii u (by decide)]; decide, by decide, by decide, by decide, by decide⟩
      · exact ⟨by rw [isH_ascii u (by decide)]; decide, by decide, by decide, by decide, by decide⟩
  have hme := matchBinExp_nodigits u k.p hp k.sign hsign (k.sfx.toList ++ rest) hLhead
  have hsuf : floatSuffix u (k.sfx.toList ++ rest) = k.sfx.toList := by
    unfold floatSuffix
    apply takeWhile_app
    · intro c hc; simp [word_facts u (hLw c hc)]
    · intro c hc
      obtain ⟨h1, _, _, _, _, h6, _⟩ := boundary_head u hb c hc
      simp [h1, h6]
  have hEhead : ∀ c, (k.exp ++ (k.sfx.toList ++ rest)).head? = some c → u.isH c = false ∧ c ≠ '.' := by
    intro c hc
    simp only [BadHexFloat.exp, List.cons_append, List.head?_cons, Option.some.injEq] at hc
    subst hc
    rcases hp with h | h <;> rw [h]
    · exact ⟨by rw [isH_ascii u (by decide)]; decide, by decide⟩
    · exact ⟨by rw [isH_ascii u (by decide)]; decide, by decide⟩
  have hmant := hexMantissa_valid u k.ip k.frac (k.exp ++ (k.sfx.toList ++ rest)) hip hfr hEhead
  have hmh : ∀ c, (k.mant ++ (k.exp ++ (k.sfx.toList ++ rest))).head? = some c → (c == 'x' || c == 'X') = false := by
    intro c hc
    unfold BadHexFloat.mant at hc
    cases hipl : k.ip with
    | cons a as =>
      rw [hipl] at hc; simp at hc; subst hc
      exact (hexbucket a (hip a (by rw [hipl]; simp))).2.1
    | nil =>
      rw [hipl] at hc
      cases hfrac : k.frac with
      | some fp => rw [hfrac] at hc; simp [fracText] at hc; subst hc; decide
      | none => rw [hfrac] at hfr; simp only [fracOK] at hfr; exact absurd hipl hfr
  have hmantb : ∀ c ∈ k.mant, (Generated.hexadecimalDigits.toList ++ ['.']).contains c = true := by
    intro c hc
    unfold BadHexFloat.mant at hc
    rcases List.mem_append.mp hc with h | h
    · exact (hexbucket c (hip c h)).1
    · cases hfrac : k.frac with
      | none => rw [hfrac] at h; simp [fracText] at h
      | some fp =>
        rw [hfrac] at h hfr
        simp only [fracOK] at hfr
        simp only [fracText] at h
        rcases List.mem_cons.mp h with rfl | h
        · decide
        · exact (hexbucket c (hfr.1 c h)).1
  have hcore := floatLogic_hex_badexp u line col k.x hx k.mant k.exp k.sfx.toList rest
    (by simpa [BadHexFloat.mant] using hmant) hme hsuf hmh hmantb (by simp [BadHexFloat.exp])
    (goodBinExponent_nodigits u k.p hp k.sign hsign)
  have hsrc : k.render ++ rest = '0' :: k.x :: (k.mant ++ (k.exp ++ (k.sfx.toList ++ rest))) := by
    simp [BadHexFloat.render, List.append_assoc]
  rw [hsrc]; exact hcore

theorem badHexFloat_plain (k : BadHexFloat) (hk : k.WF) : ∀ c ∈ k.render, plainChar c := by
  obtain ⟨hx, hip, hfr, hp, hsign, hs⟩ := hk
  intro c hc
  simp only [BadHexFloat.render, BadHexFloat.mant, BadHexFloat.exp, List.mem_cons, List.mem_append, Option.mem_toList] at hc
  rcases hc with rfl | rfl | (hc | hc) | (rfl | hc) | hc
  · unfold plainChar; decide
  · rcases hx with h | h <;> rw [h] <;> (unfold plainChar; decide)
  · exact plain_of_word (hex_sub_word c (hip c hc))
  · cases hfrac : k.frac with
    | none => rw [hfrac] at hc; simp [fracText] at hc
    | some fp =>
      rw [hfrac] at hc hfr
      simp only [fracText, List.mem_cons] at hc
      rcases hc with rfl | hc
      · unfold plainChar; decide
      · exact plain_of_word (hex_sub_word c (hfr.1 c hc))
  · rcases hp with h | h <;> rw [h] <;> (unfold plainChar; decide)
  · rcases hsign c hc with rfl | rfl <;> (unfold plainChar; decide)
  · have : c ∈ wordChars := by
      rcases hs with h | h | h <;> rw [h] at hc <;> simp at hc
      · subst hc; decide
      · subst hc; decide
    exact plain_of_word this

/-- **Malformed family "exponent without digits", hexadecimal**: `0[xX]`, a hexadecimal mantissa (digits on at least one
side of an optional dot), `[pP][+-]?` and `l`/`L` or nothing — `0x1p`, `0x1.8p+`, `0X.8P-l` —: one CONSTANT token and
exactly one diagnostic, BAD_EXPONENT from the exponent letter to the end (repaired in /repo by ed0ba8c; before, such a
constant was accepted silently). -/
theorem bad_hex_exponent_reported (u : Uni) (k : BadHexFloat) (hk : k.WF) (rest : List Char) (hb : boundaryOK rest)
    (s : LexSt) (hr : s.rest = k.render ++ rest) :
    ∃ s' t, trySubLexers u s = .ok (some (s', t)) ∧ t.type = "CONSTANT" ∧
      t.value = some (String.ofList k.render) ∧ t.line = s.line ∧ t.col = s.col ∧
      s'.rest = rest ∧
      s'.diags = s.diags ++ [mkDiag "BAD_EXPONENT" .error
        [⟨s.line, s.col + ('0' :: k.x :: k.mant).length, some (k.exp.length + k.sfx.toList.length), none⟩]] := by
  have hfl := floatLogic_badhex u k hk rest hb s.line s.col
  have hlen : ('0' :: k.x :: k.mant).length + k.exp.length + k.sfx.toList.length = k.render.length := by
    simp [BadHexFloat.render, List.length_append]; omega
  let d := mkDiag "BAD_EXPONENT" .error
        [⟨s.line, s.col + ('0' :: k.x :: k.mant).length, some (k.exp.length + k.sfx.toList.length), none⟩]
  obtain ⟨n1, n2, n3⟩ := popN_plain k.render rest (s.addDiag d) hr (badHexFloat_plain k hk)
  have hpf : ∃ s', parseFloat u s = some (s', mkTok "CONSTANT" s s' (some k.render)) ∧ s'.rest = rest ∧
      s'.diags = s.diags ++ [d] := by
    unfold parseFloat
    rw [hr]
    have hkr : k.render ++ rest = '0' :: (k.x :: (k.mant ++ (k.exp ++ k.sfx.toList)) ++ rest) := by
      simp [BadHexFloat.render]
    rw [hkr]
    simp only
    rw [← hkr, hfl]
    simp only [LexSt.addDiag?, hlen]
    cases hpn : popN k.render.length (s.addDiag d) with
    | mk s2 r2 =>
      rw [hpn] at n1 n2 n3
      simp only at n1 n2 n3
      subst n1
      exact ⟨s2, rfl, n2, by rw [n3]; rfl⟩
  obtain ⟨s', h1, h2, h3⟩ := hpf
  refine ⟨s', mkTok "CONSTANT" s s' (some k.render), ?_, rfl, rfl, rfl, rfl, h2, h3⟩
  unfold trySubLexers
  rw [h1]

/-! ### several `x` after the `0` of a hexadecimal floating constant -/

theorem isXl_facts (u : Uni) {c : Char} (hc : c = 'x' ∨ c = 'X') :
    (c == 'x' || c == 'X') = true ∧ (Generated.hexadecimalDigits.toList ++ ['.']).contains c = false := by
  rcases hc with rfl | rfl <;> exact ⟨by decide, by decide⟩

/-- `str.strip(hexadecimal digits + ".")` of `0xx…<mantissa>` is the run of `x` -/
theorem strip_multx (xs mant : List Char) (hne : xs ≠ []) (hxs : ∀ c ∈ xs, c = 'x' ∨ c = 'X')
    (hm : ∀ c ∈ mant, (Generated.hexadecimalDigits.toList ++ ['.']).contains c = true) :
    stripChars (Generated.hexadecimalDigits.toList ++ ['.']) ('0' :: (xs ++ mant)) = xs := by
  have h0 : (Generated.hexadecimalDigits.toList ++ ['.']).contains '0' = true := by decide
  obtain ⟨x0, xt, rfl⟩ : ∃ x0 xt, xs = x0 :: xt := by
    cases xs with
    | nil => exact absurd rfl hne
    | cons a b => exact ⟨a, b, rfl⟩
  have hx0 := (isXl_facts {} (hxs x0 (by simp))).2
  unfold stripChars
  have e1 : ('0' :: (x0 :: xt ++ mant)).dropWhile (Generated.hexadecimalDigits.toList ++ ['.']).contains = x0 :: xt ++ mant := by
    simp only [List.cons_append, List.dropWhile_cons, h0, hx0, ↓reduceIte, Bool.false_eq_true]
  rw [e1]
  have e2 : (x0 :: xt ++ mant).reverse = mant.reverse ++ (x0 :: xt).reverse := by simp
  rw [e2]
  have e3 : (mant.reverse ++ (x0 :: xt).reverse).dropWhile (Generated.hexadecimalDigits.toList ++ ['.']).contains = (x0 :: xt).reverse := by
    apply dropWhile_app
    · intro c hc; exact hm c (List.mem_reverse.mp hc)
    · intro c hc
      have hmem : c ∈ (x0 :: xt).reverse := List.mem_of_mem_head? hc
      exact (isXl_facts {} (hxs c (List.mem_reverse.mp hmem))).2
  rw [e3]; simp

/-- the float parser on `0`, at least two `x`, a mantissa, a well-formed exponent group and suffix -/
theorem floatLogic_multx (u : Uni) (line col : Nat) (xs mant E H L rest : List Char) (hxs2 : 2 ≤ xs.length)
    (hxs : ∀ c ∈ xs, c = 'x' ∨ c = 'X')
    (hmant : hexMantissa u (mant ++ (E ++ (H ++ (L ++ rest)))) = some (mant, E ++ (H ++ (L ++ rest))))
    (hme : matchExp isP u.isH (tailHex u) (E ++ (H ++ (L ++ rest))) = E ++ H)
    (hsuf : floatSuffix u (L ++ rest) = L)
    (hmh : ∀ c, (mant ++ (E ++ (H ++ (L ++ rest)))).head? = some c → (c == 'x' || c == 'X') = false)
    (hmantb : ∀ c ∈ mant, (Generated.hexadecimalDigits.toList ++ ['.']).contains c = true)
    (hEne : (E ++ H).isEmpty = false) :
    floatLogic u line col ('0' :: (xs ++ (mant ++ (E ++ (H ++ (L ++ rest)))))) =
      .tok ⟨.hexadecimal, '0' :: (xs ++ mant), E ++ H, L⟩
        (some (mkDiag "MULTIPLE_X" .error [⟨line, col + 1, some xs.length, none⟩])) := by
  obtain ⟨x0, xt, rfl⟩ : ∃ x0 xt, xs = x0 :: xt := by
    cases xs with
    | nil => simp at hxs2
    | cons a b => exact ⟨a, b, rfl⟩
  have hx0 := hxs x0 (by simp)
  obtain ⟨x1, x2, x3, x4, x5, x6⟩ := x_facts u hx0
  have h0 : u.isD '0' = true := by rw [isD_ascii u (by decide)]; decide
  generalize htl : xt ++ (mant ++ (E ++ (H ++ (L ++ rest)))) = tl
  have hsrc : '0' :: (x0 :: xt ++ (mant ++ (E ++ (H ++ (L ++ rest))))) = '0' :: x0 :: tl := by simp [← htl]
  have htwD : ('0' :: x0 :: tl).takeWhile u.isD = ['0'] := by
    simp only [List.takeWhile_cons, h0, x1, ↓reduceIte, Bool.false_eq_true]
  have hdwD : ('0' :: x0 :: tl).dropWhile u.isD = x0 :: tl := by
    simp only [List.dropWhile_cons, h0, x1, ↓reduceIte, Bool.false_eq_true]
  have hm1 : matchFloatExp u ('0' :: x0 :: tl) = none := by
    unfold matchFloatExp spanP
    simp only [htwD, hdwD]
    have : matchExp isE u.isD (tailDec u) (x0 :: tl) = [] :=
      matchExp_nil (by intro c hc; simp at hc; subst hc; exact x3)
    simp [this]
  have hm2 : matchFloatFrac u ('0' :: x0 :: tl) = none := by
    unfold matchFloatFrac spanP
    simp only [htwD, hdwD]
    split
    · rfl
    · rename_i c r hc
      split at hc
      · rename_i r' heq
        simp only [List.cons.injEq] at heq
        exact absurd heq.1 x4
      · cases hc
  have hm3 : matchFloatHex u ('0' :: x0 :: tl) =
      some ⟨.hexadecimal, '0' :: (x0 :: xt ++ mant), E ++ H, L⟩ := by
    unfold matchFloatHex
    simp only
    have tx : (x0 :: tl).takeWhile (fun c => c == 'x' || c == 'X') = x0 :: xt := by
      rw [← htl]
      have := takeWhile_app (p := fun c => c == 'x' || c == 'X') (s := x0 :: xt) (rest := mant ++ (E ++ (H ++ (L ++ rest))))
        (by intro c hc; exact (isXl_facts u (hxs c hc)).1) hmh
      simpa using this
    have dx : (x0 :: tl).dropWhile (fun c => c == 'x' || c == 'X') = mant ++ (E ++ (H ++ (L ++ rest))) := by
      rw [← htl]
      have := dropWhile_app (p := fun c => c == 'x' || c == 'X') (s := x0 :: xt) (rest := mant ++ (E ++ (H ++ (L ++ rest))))
        (by intro c hc; exact (isXl_facts u (hxs c hc)).1) hmh
      simpa using this
    rw [tx, dx, hmant]
    simp only [hme]
    have : (E ++ (H ++ (L ++ rest))).drop (E ++ H).length = L ++ rest := by
      rw [← List.append_assoc]; simp
    rw [this, hsuf]
    simp
  rw [hsrc]
  unfold floatLogic
  simp only [hm1, hm2, hm3]
  have hstrip := strip_multx (x0 :: xt) mant (by simp) hxs hmantb
  have hnot : ((x0 :: xt) == ['x'] || (x0 :: xt) == ['X']) = false := by
    cases xt with
    | nil => simp at hxs2
    | cons a b => simp
  simp only [List.cons_append] at hstrip
  have hxt : xt ≠ [] := by
    intro e; subst e; simp at hxs2
  simp [hEne, hstrip, hnot]
  intro h
  exact absurd (h (Or.inr hxt)).2 hxt

/-- the members of the family: a well-formed hexadecimal floating constant with further `x`/`X` after its `0x` -/
def multXRender (k : HexFloat) (extra : List Char) : List Char :=
  '0' :: k.x :: (extra ++ (k.mant ++ (k.exp.render ++ k.sfx.toList)))

theorem floatLogic_multx_valid (u : Uni) (k : HexFloat) (hk : k.WF) (extra : List Char) (hne : extra ≠ [])
    (hextra : ∀ c ∈ extra, c = 'x' ∨ c = 'X') (rest : List Char) (hb : boundaryOK rest) (line col : Nat) :
    ∃ m, floatLogic u line col (multXRender k extra ++ rest) =
        .tok m (some (mkDiag "MULTIPLE_X" .error [⟨line, col + 1, some (extra.length + 1), none⟩])) ∧
      m.const ++ m.exp ++ m.suf = multXRender k extra := by
  obtain ⟨hx, hip, hfr, hexp, hs⟩ := hk
  obtain ⟨sp1, sp2, sp3, sp4, sp5, sp6⟩ := sfxSplit_spec k.sfx hs
  generalize (sfxSplit k.sfx).1 = H at sp1 sp2
  generalize (sfxSplit k.sfx).2 = L at sp1 sp3 sp4 sp5 sp6
  have hnotH : ∀ c ∈ wordChars, c ∉ hexDigits → u.isH c = false := by
    intro c hw hn
    obtain ⟨h128, _⟩ := word_tbl c hw
    rw [isH_ascii u h128]
    have : ∀ c ∈ wordChars, c ∉ hexDigits → (isAsciiDigit c || hexLetters.contains c) = false := by decide
    exact this c hw hn
  have hLH : ∀ c, (L ++ rest).head? = some c → u.isH c = false := by
    intro c hc
    cases hL : L with
    | nil =>
      rw [hL] at hc; simp only [List.nil_append] at hc
      exact (boundary_head u hb c hc).2.2.1
    | cons d tl =>
      rw [hL] at hc; simp only [List.cons_append, List.head?_cons, Option.some.injEq] at hc
      subst hc
      obtain ⟨h1, h2⟩ := sp3 d (by rw [hL]; rfl)
      exact hnotH d h2 h1
  have hme := matchBinExp_valid u k.exp hexp H (L ++ rest) sp2 hLH (tailHex u)
  have hsuf : floatSuffix u (L ++ rest) = L := by
    unfold floatSuffix
    apply takeWhile_app
    · intro c hc; simp [word_facts u (sp6 c hc)]
    · intro c hc
      obtain ⟨h1, _, _, _, _, h6, _⟩ := boundary_head u hb c hc
      simp [h1, h6]
  have hEhead : ∀ c, (k.exp.render ++ (H ++ (L ++ rest))).head? = some c → u.isH c = false ∧ c ≠ '.' := by
    intro c hc
    simp only [BinExp.render, List.cons_append, List.head?_cons, Option.some.injEq] at hc
    subst hc
    rcases hexp.1 with h | h <;> rw [h]
    · exact ⟨by rw [isH_ascii u (by decide)]; decide, by decide⟩
    · exact ⟨by rw [isH_ascii u (by decide)]; decide, by decide⟩
  have hmant := hexMantissa_valid u k.ip k.frac (k.exp.render ++ (H ++ (L ++ rest))) hip hfr hEhead
  have hmh : ∀ c, (k.mant ++ (k.exp.render ++ (H ++ (L ++ rest)))).head? = some c → (c == 'x' || c == 'X') = false := by
    intro c hc
    unfold HexFloat.mant at hc
    cases hipl : k.ip with
    | cons a as =>
      rw [hipl] at hc; simp at hc; subst hc
      exact (hexbucket a (hip a (by rw [hipl]; simp))).2.1
    | nil =>
      rw [hipl] at hc
      cases hfrac : k.frac with
      | some fp => rw [hfrac] at hc; simp [fracText] at hc; subst hc; decide
      | none => rw [hfrac] at hfr; simp only [fracOK] at hfr; exact absurd hipl hfr
  have hmantb : ∀ c ∈ k.mant, (Generated.hexadecimalDigits.toList ++ ['.']).contains c = true := by
    intro c hc
    unfold HexFloat.mant at hc
    rcases List.mem_append.mp hc with h | h
    · exact (hexbucket c (hip c h)).1
    · cases hfrac : k.frac with
      | none => rw [hfrac] at h; simp [fracText] at h
      | some fp =>
        rw [hfrac] at h hfr
        simp only [fracOK] at hfr
        simp only [fracText] at h
        rcases List.mem_cons.mp h with rfl | h
        · decide
        · exact (hexbucket c (hfr.1 c h)).1
  have hxs : ∀ c ∈ k.x :: extra, c = 'x' ∨ c = 'X' := by
    intro c hc
    rcases List.mem_cons.mp hc with rfl | hc
    · exact hx
    · exact hextra c hc
  have hlen2 : 2 ≤ (k.x :: extra).length := by
    cases extra with
    | nil => exact absurd rfl hne
    | cons a b => simp
  have hcore := floatLogic_multx u line col (k.x :: extra) k.mant k.exp.render H L rest hlen2 hxs hmant hme hsuf hmh hmantb
    (by simp [BinExp.render])
  have hsrc : multXRender k extra ++ rest = '0' :: ((k.x :: extra) ++ (k.mant ++ (k.exp.render ++ (H ++ (L ++ rest))))) := by
    simp [multXRender, ← sp1, List.append_assoc]
  refine ⟨⟨.hexadecimal, '0' :: ((k.x :: extra) ++ k.mant), k.exp.render ++ H, L⟩, ?_, ?_⟩
  · rw [hsrc, hcore]; simp
  · simp [multXRender, ← sp1, List.append_assoc]

theorem multX_plain (k : HexFloat) (hk : k.WF) (extra : List Char) (hextra : ∀ c ∈ extra, c = 'x' ∨ c = 'X') :
    ∀ c ∈ multXRender k extra, plainChar c := by
  have hp := hexFloat_plain k hk
  intro c hc
  simp only [multXRender, List.mem_cons, List.mem_append] at hc
  rcases hc with rfl | rfl | hc | hc
  · unfold plainChar; decide
  · exact hp _ (by simp [HexFloat.render])
  · rcases hextra c hc with rfl | rfl <;> (unfold plainChar; decide)
  · exact hp c (by simp only [HexFloat.render, List.mem_cons, List.mem_append]; right; right; exact hc)

/-- **Malformed family "several x"**: a well-formed hexadecimal floating constant with one or more further `x`/`X`
after its `0x` — `0xx1p3`, `0xX.8p-1f` —: one CONSTANT token spanning everything and exactly one diagnostic added,
MULTIPLE_X over the run of `x`. -/
theorem multiple_x_reported (u : Uni) (k : HexFloat) (hk : k.WF) (extra : List Char) (hne : extra ≠ [])
    (hextra : ∀ c ∈ extra, c = 'x' ∨ c = 'X') (rest : List Char) (hb : boundaryOK rest)
    (s : LexSt) (hr : s.rest = multXRender k extra ++ rest) :
    ∃ s' t, trySubLexers u s = .ok (some (s', t)) ∧ t.type = "CONSTANT" ∧
      t.value = some (String.ofList (multXRender k extra)) ∧ t.line = s.line ∧ t.col = s.col ∧
      s'.rest = rest ∧
      s'.diags = s.diags ++ [mkDiag "MULTIPLE_X" .error [⟨s.line, s.col + 1, some (extra.length + 1), none⟩]] := by
  obtain ⟨m, hfl, hm⟩ := floatLogic_multx_valid u k hk extra hne hextra rest hb s.line s.col
  have hlen : m.const.length + m.exp.length + m.suf.length = (multXRender k extra).length := by
    rw [← hm]; simp [List.length_append]; omega
  let d := mkDiag "MULTIPLE_X" .error [⟨s.line, s.col + 1, some (extra.length + 1), none⟩]
  obtain ⟨n1, n2, n3⟩ := popN_plain (multXRender k extra) rest (s.addDiag d) hr (multX_plain k hk extra hextra)
  have hpf : ∃ s', parseFloat u s = some (s', mkTok "CONSTANT" s s' (some (multXRender k extra))) ∧ s'.rest = rest ∧
      s'.diags = s.diags ++ [d] := by
    unfold parseFloat
    rw [hr]
    have hkr : multXRender k extra ++ rest = '0' :: (k.x :: (extra ++ (k.mant ++ (k.exp.render ++ k.sfx.toList))) ++ rest) := by
      simp [multXRender]
    rw [hkr]
    simp only
    rw [← hkr, hfl]
    simp only [LexSt.addDiag?, hlen]
    cases hpn : popN (multXRender k extra).length (s.addDiag d) with
    | mk s2 r2 =>
      rw [hpn] at n1 n2 n3
      simp only at n1 n2 n3
      subst n1
      exact ⟨s2, rfl, n2, by rw [n3]; rfl⟩
  obtain ⟨s', h1, h2, h3⟩ := hpf
  refine ⟨s', mkTok "CONSTANT" s s' (some (multXRender k extra)), ?_, rfl, rfl, rfl, rfl, h2, h3⟩
  unfold trySubLexers
  rw [h1]

/-! ### floating constants with a suffix that is not in the tool's table -/

/-- shape of an unknown floating suffix: letters, digits and underscores, not starting with a digit or an exponent letter -/
def fsfxShape (s : List Char) : Bool :=
  s.all (fun c => wordChars.contains c) && (match s with | c :: _ => !("0123456789eE".toList.contains c) | [] => false)

theorem fsfx_head_tbl : ∀ c ∈ wordChars, "0123456789eE".toList.contains c = false →
    c ∉ decDigits ∧ isE c = false ∧ c ≠ '.' ∧ c ≠ '+' ∧ c ≠ '-' := by decide

theorem fsfxShape_facts {s : List Char} (h : fsfxShape s = true) :
    (∀ c ∈ s, c ∈ wordChars) ∧ ∃ d tl, s = d :: tl ∧ d ∉ decDigits ∧ isE d = false ∧ d ≠ '.' ∧ d ≠ '+' ∧ d ≠ '-' := by
  unfold fsfxShape at h
  simp only [Bool.and_eq_true, List.all_eq_true] at h
  obtain ⟨h1, h2⟩ := h
  have hw : ∀ c ∈ s, c ∈ wordChars := fun c hc => by simpa using h1 c hc
  refine ⟨hw, ?_⟩
  cases s with
  | nil => simp at h2
  | cons d tl =>
    simp only [Bool.not_eq_true'] at h2
    exact ⟨d, tl, rfl, fsfx_head_tbl d (hw d (by simp)) h2⟩

theorem after_float_gen (u : Uni) {sfx : List Char} (hs : fsfxShape sfx = true) {rest : List Char} (hb : boundaryOK rest) :
    ∀ c, (sfx ++ rest).head? = some c →
      u.isD c = false ∧ isE c = false ∧ c ≠ '.' ∧ c ≠ '+' ∧ c ≠ '-' := by
  intro c hc
  obtain ⟨hw, d, tl, rfl, hd1, hd2, hd3, hd4, hd5⟩ := fsfxShape_facts hs
  simp only [List.cons_append, List.head?_cons, Option.some.injEq] at hc
  subst hc
  refine ⟨?_, hd2, hd3, hd4, hd5⟩
  have hwd := hw d (by simp)
  have h128 := (word_tbl d hwd).1
  rw [isD_ascii u h128]
  cases h : isAsciiDigit d
  · rfl
  · exact absurd (by unfold isAsciiDigit at h; simpa [decDigits_eq] using h) hd1

theorem floatSuffix_gen (u : Uni) {sfx : List Char} (hw : ∀ c ∈ sfx, c ∈ wordChars) {rest : List Char}
    (hb : boundaryOK rest) : floatSuffix u (sfx ++ rest) = sfx := by
  unfold floatSuffix
  apply takeWhile_app
  · intro c hc; simp [word_facts u (hw c hc)]
  · intro c hc
    obtain ⟨h1, _, _, _, _, h6, _⟩ := boundary_head u hb c hc
    simp [h1, h6]

def Spec.DecFloat.sfxText : DecFloat → List Char
  | .exp _ _ s => s.toList
  | .frac _ _ _ s => s.toList

/-- a well-formed decimal floating constant, except that its suffix is a suffix-shaped text the tool's table does not hold -/
def Spec.DecFloat.BadSfx : DecFloat → Prop
  | .exp ip x sfx => ip ≠ [] ∧ (∀ c ∈ ip, c ∈ decDigits) ∧ x.WF ∧ fsfxShape sfx.toList = true ∧
      Generated.floatSuffixes.contains sfx = false
  | .frac ip fp x sfx => (ip ≠ [] ∨ fp ≠ []) ∧ (∀ c ∈ ip, c ∈ decDigits) ∧ (∀ c ∈ fp, c ∈ decDigits) ∧
      (∀ y, x = some y → y.WF) ∧ fsfxShape sfx.toList = true ∧ Generated.floatSuffixes.contains sfx = false

theorem floatLogic_dec_badsfx (u : Uni) (k : DecFloat) (hk : k.BadSfx) (rest : List Char) (hb : boundaryOK rest)
    (line col : Nat) :
    ∃ m, floatLogic u line col (k.render ++ rest) = .tok m (some (mkDiag "BAD_FLOAT_SUFFIX" .error
        [⟨line, col + m.const.length + m.exp.length, some m.suf.length, none⟩])) ∧ m.const ++ m.exp ++ m.suf = k.render ∧
      m.suf = k.sfxText := by
  cases k with
  | exp ip x sfx =>
    obtain ⟨hipne, hip, hx, hs, hnot⟩ := hk
    have hw := (fsfxShape_facts hs).1
    have haf := after_float_gen u hs hb
    have hxe : isE x.e = true := by rcases hx.1 with h | h <;> rw [h] <;> decide
    have hxd : u.isD x.e = false := by
      have : x.e ∈ wordChars ∧ isAsciiDigit x.e = false := by rcases hx.1 with h | h <;> rw [h] <;> decide
      rw [isD_ascii u (word_tbl _ this.1).1]; exact this.2
    have hipD : ∀ c ∈ ip, u.isD c = true := fun c hc => (dec_facts u (hip c hc)).1
    have hsrc : DecFloat.render (.exp ip x sfx) ++ rest = ip ++ (x.render ++ (sfx.toList ++ rest)) := by
      simp [DecFloat.render, List.append_assoc]
    have hhead : ∀ c, (x.render ++ (sfx.toList ++ rest)).head? = some c → u.isD c = false := by
      intro c hc; simp [ExpPart.render] at hc; subst hc; exact hxd
    have htw : (ip ++ (x.render ++ (sfx.toList ++ rest))).takeWhile u.isD = ip := takeWhile_app hipD hhead
    have hdw : (ip ++ (x.render ++ (sfx.toList ++ rest))).dropWhile u.isD = x.render ++ (sfx.toList ++ rest) :=
      dropWhile_app hipD hhead
    have hme := matchExp_valid u x hx (sfx.toList ++ rest) (fun c hc => (haf c hc).1) (tailDec u)
    have hm : matchFloatExp u (ip ++ (x.render ++ (sfx.toList ++ rest))) =
        some ⟨.exponent, ip, x.render, sfx.toList⟩ := by
      unfold matchFloatExp spanP
      simp only [htw, hdw, hme]
      have h1 : ip.isEmpty = false := by cases ip with | nil => exact absurd rfl hipne | cons a b => rfl
      have h2 : x.render.isEmpty = false := by simp [ExpPart.render]
      simp only [h1, h2, Bool.false_eq_true, ↓reduceIte, List.drop_left', floatSuffix_gen u hw hb]
    refine ⟨⟨.exponent, ip, x.render, sfx.toList⟩, ?_, by simp [DecFloat.render, List.append_assoc], rfl⟩
    rw [hsrc]
    unfold floatLogic
    simp only [hm]
    have hge := goodExponent_valid u x hx
    have hcnt : ip.count '.' = 0 := count_dot_digits ip hip
    have hsf' : ¬ sfx ∈ Generated.floatSuffixes := by simpa using hnot
    simp [hge, hcnt, hsf']
  | frac ip fp x sfx =>
    obtain ⟨hne, hip, hfp, hxw, hs, hnot⟩ := hk
    have hw := (fsfxShape_facts hs).1
    have haf := after_float_gen u hs hb
    have hipD : ∀ c ∈ ip, u.isD c = true := fun c hc => (dec_facts u (hip c hc)).1
    have hfpD : ∀ c ∈ fp, u.isD c = true := fun c hc => (dec_facts u (hfp c hc)).1
    -- X = the rendered exponent part (possibly empty); its head, if any, is no digit
    let X : List Char := ExpPart.renderOpt x
    have hXhead : ∀ c, (X ++ (sfx.toList ++ rest)).head? = some c → u.isD c = false := by
      intro c hc
      cases hx : x with
      | none => simp only [X, hx, ExpPart.renderOpt, List.nil_append] at hc; exact (haf c hc).1
      | some y =>
        simp only [X, hx, ExpPart.renderOpt, ExpPart.render, List.cons_append, List.head?_cons, Option.some.injEq] at hc
        subst hc
        have hy := hxw y hx
        have : y.e ∈ wordChars ∧ isAsciiDigit y.e = false := by rcases hy.1 with h | h <;> rw [h] <;> decide
        rw [isD_ascii u (word_tbl _ this.1).1]; exact this.2
    have hsrc : DecFloat.render (.frac ip fp x sfx) ++ rest = ip ++ ('.' :: (fp ++ (X ++ (sfx.toList ++ rest)))) := by
      simp [DecFloat.render, X, List.append_assoc]
    have hdot : ∀ c, ('.' :: (fp ++ (X ++ (sfx.toList ++ rest)))).head? = some c → u.isD c = false := by
      intro c hc; simp at hc; subst hc
      rw [isD_ascii u (by decide)]; decide
    have htw : (ip ++ ('.' :: (fp ++ (X ++ (sfx.toList ++ rest))))).takeWhile u.isD = ip := takeWhile_app hipD hdot
    have hdw : (ip ++ ('.' :: (fp ++ (X ++ (sfx.toList ++ rest))))).dropWhile u.isD = '.' :: (fp ++ (X ++ (sfx.toList ++ rest))) :=
      dropWhile_app hipD hdot
    have hfs : (fp ++ (X ++ (sfx.toList ++ rest))).takeWhile u.isD = fp := takeWhile_app hfpD hXhead
    -- the exponent group on X ++ sfx ++ rest
    have hme : matchExp isE u.isD (tailDec u) (X ++ (sfx.toList ++ rest)) = X := by
      cases hx : x with
      | none =>
        simp only [X, hx, ExpPart.renderOpt, List.nil_append]
        unfold matchExp spanP
        have : (sfx.toList ++ rest).takeWhile isE = [] := by
          cases hl : sfx.toList ++ rest with
          | nil => rfl
          | cons c tl =>
            have := (haf c (by rw [hl]; rfl)).2.1
            simp [List.takeWhile, this]
        simp [this]
      | some y =>
        simp only [X, hx, ExpPart.renderOpt]
        exact matchExp_valid u y (hxw y hx) (sfx.toList ++ rest) (fun c hc => (haf c hc).1) (tailDec u)
    -- the exponent pattern does not apply (a dot follows the digits, or there are no digits)
    have hm1 : matchFloatExp u (ip ++ ('.' :: (fp ++ (X ++ (sfx.toList ++ rest))))) = none := by
      unfold matchFloatExp spanP
      simp only [htw, hdw]
      split
      · rfl
      · have : matchExp isE u.isD (tailDec u) ('.' :: (fp ++ (X ++ (sfx.toList ++ rest)))) = [] := by
          unfold matchExp spanP
          simp [List.takeWhile, isE_facts.2.2.2.2.2]
        simp [this]
    let c := if fp.isEmpty then ip ++ ['.'] else ip ++ '.' :: fp
    have hm2 : matchFloatFrac u (ip ++ ('.' :: (fp ++ (X ++ (sfx.toList ++ rest))))) =
        some ⟨.fractional, ip ++ '.' :: fp, X, sfx.toList⟩ := by
      unfold matchFloatFrac spanP
      simp only [htw, hdw, hfs]
      cases hfe : fp with
      | nil =>
        have hipne : ip.isEmpty = false := by
          rcases hne with h | h
          · cases ip with | nil => exact absurd rfl h | cons a b => rfl
          · exact absurd hfe h
        simp only [List.isEmpty_nil, Bool.not_true, Bool.false_eq_true, ↓reduceIte, hipne, Bool.not_false,
          List.nil_append]
        simp [hme, floatSuffix_gen u hw hb]
      | cons f0 fs =>
        simp only [List.isEmpty_cons, Bool.not_false, ↓reduceIte]
        have hdrop : (f0 :: fs ++ (X ++ (sfx.toList ++ rest))).drop (f0 :: fs).length = X ++ (sfx.toList ++ rest) := by
          simp
        rw [hdrop]
        simp only [hme, List.drop_left', floatSuffix_gen u hw hb]
    refine ⟨⟨.fractional, ip ++ '.' :: fp, X, sfx.toList⟩, ?_, by simp [DecFloat.render, X, List.append_assoc], rfl⟩
    rw [hsrc]
    unfold floatLogic
    simp only [hm1, hm2]
    have hsd : sfx.toList.count '.' = 0 := by
      apply List.count_eq_zero.mpr
      intro hm
      have := hw '.' hm
      revert this; decide
    have hsf' : ¬ sfx ∈ Generated.floatSuffixes := by simpa using hnot
    have hgx : ¬ X = [] → goodExponent u X = true := by
      intro hX
      cases hx : x with
      | none => simp [X, hx, ExpPart.renderOpt] at hX
      | some y =>
        have := goodExponent_valid u y (hxw y hx)
        simpa [X, hx, ExpPart.renderOpt] using this
    simp [hsf', hsd]
    intro hX hbad
    rw [hgx hX] at hbad; cases hbad


theorem decFloat_badsfx_plain (k : DecFloat) (hk : k.BadSfx) : ∀ c ∈ k.render, plainChar c := by
  cases k with
  | exp ip x sfx =>
    obtain ⟨_, hip, hx, hs, _⟩ := hk
    have hw := (fsfxShape_facts hs).1
    intro c hc
    simp only [DecFloat.render, List.mem_append] at hc
    rcases hc with (hc | hc) | hc
    · exact plain_of_word (dec_sub_word c (hip c hc))
    · exact expPart_plain x hx c hc
    · exact plain_of_word (hw c hc)
  | frac ip fp x sfx =>
    obtain ⟨_, hip, hfp, hxw, hs, _⟩ := hk
    have hw := (fsfxShape_facts hs).1
    intro c hc
    simp only [DecFloat.render, List.mem_append, List.mem_cons] at hc
    rcases hc with ((hc | rfl | hc) | hc) | hc
    · exact plain_of_word (dec_sub_word c (hip c hc))
    · unfold plainChar; decide
    · exact plain_of_word (dec_sub_word c (hfp c hc))
    · cases hx : x with
      | none => rw [hx] at hc; simp [ExpPart.renderOpt] at hc
      | some y => rw [hx] at hc; exact expPart_plain y (hxw y hx) c hc
    · exact plain_of_word (hw c hc)

/-- **Malformed family "unknown suffix", floating constants**: a well-formed decimal floating constant whose suffix is
replaced by a suffix-shaped text that the tool's own table does not hold (`1.5x`, `2e3ff`, `.5_t`): one CONSTANT token
spanning everything and exactly one diagnostic added, BAD_FLOAT_SUFFIX on the suffix. (The tool's table is a superset of
the standard's — `d`, `df`, `fi` … —, so "unknown" is relative to the regenerated table.) -/
theorem bad_float_suffix_reported (u : Uni) (k : DecFloat) (hk : k.BadSfx) (rest : List Char) (hb : boundaryOK rest)
    (s : LexSt) (hr : s.rest = k.render ++ rest) :
    ∃ s' t off, trySubLexers u s = .ok (some (s', t)) ∧ t.type = "CONSTANT" ∧
      t.value = some (String.ofList k.render) ∧ t.line = s.line ∧ t.col = s.col ∧ s'.rest = rest ∧
      off + k.sfxText.length = k.render.length ∧
      s'.diags = s.diags ++ [mkDiag "BAD_FLOAT_SUFFIX" .error [⟨s.line, s.col + off, some k.sfxText.length, none⟩]] := by
  obtain ⟨m, hfl, hm, hsuf⟩ := floatLogic_dec_badsfx u k hk rest hb s.line s.col
  have hlen : m.const.length + m.exp.length + m.suf.length = k.render.length := by
    rw [← hm]; simp [List.length_append]; omega
  let d := mkDiag "BAD_FLOAT_SUFFIX" .error [⟨s.line, s.col + m.const.length + m.exp.length, some m.suf.length, none⟩]
  obtain ⟨n1, n2, n3⟩ := popN_plain k.render rest (s.addDiag d) hr (decFloat_badsfx_plain k hk)
  have hne : k.render ≠ [] := by
    cases k with
    | exp ip x sfx => simp [DecFloat.render, ExpPart.render]
    | frac ip fp x sfx => simp [DecFloat.render]
  have hpf : ∃ s', parseFloat u s = some (s', mkTok "CONSTANT" s s' (some k.render)) ∧ s'.rest = rest ∧ s'.diags = s.diags ++ [d] := by
    unfold parseFloat
    rw [hr]
    cases hkr : k.render ++ rest with
    | nil =>
      exfalso
      have := congrArg List.length hkr
      simp only [List.length_append, List.length_nil] at this
      have : k.render.length = 0 := by omega
      exact hne (List.eq_nil_of_length_eq_zero this)
    | cons c0 tl0 =>
      simp only
      rw [← hkr, hfl]
      simp only [LexSt.addDiag?, hlen]
      cases hpn : popN k.render.length (s.addDiag d) with
      | mk s2 r2 =>
        rw [hpn] at n1 n2 n3
        simp only at n1 n2 n3
        subst n1
        exact ⟨s2, rfl, n2, by rw [n3]; rfl⟩
  obtain ⟨s', h1, h2, h3⟩ := hpf
  refine ⟨s', mkTok "CONSTANT" s s' (some k.render), m.const.length + m.exp.length, ?_, rfl, rfl, rfl, rfl, h2, ?_, ?_⟩
  · unfold trySubLexers
    rw [h1]
  · rw [← hsuf]; omega
  · rw [h3, ← hsuf]
    simp only [d, Nat.add_assoc]

end Norm
