/-
C11, malformed floating constants: an exponent without digits (`1e`, `1e+`, `1.5e-`, `.5E`, `1.e+`).
-/
import NormModel.Proofs.Floats
namespace Norm
open Spec

/-- an exponent part that has no digits: the letter and an optional sign -/
structure BadExp where
  e : Char
  sign : Option Char
deriving Repr

def BadExp.WF (x : BadExp) : Prop := (x.e = 'e' ∨ x.e = 'E') ∧ ∀ s, x.sign = some s → s = '+' ∨ s = '-'
def BadExp.render (x : BadExp) : List Char := x.e :: x.sign.toList

/-- the members of the family "exponent without digits": `D+ Exp` and `D* . D+ Exp` / `D+ . Exp`, where `Exp` is
`[eE][+-]?` with nothing that could continue it -/
inductive BadExpFloat
  | exp (ip : List Char) (x : BadExp) (sfx : String)
  | frac (ip fp : List Char) (x : BadExp) (sfx : String)
deriving Repr

def BadExpFloat.WF : BadExpFloat → Prop
  | .exp ip x sfx => ip ≠ [] ∧ (∀ c ∈ ip, c ∈ decDigits) ∧ x.WF ∧ sfx ∈ Spec.floatSuffixes
  | .frac ip fp x sfx => (ip ≠ [] ∨ fp ≠ []) ∧ (∀ c ∈ ip, c ∈ decDigits) ∧ (∀ c ∈ fp, c ∈ decDigits) ∧
      x.WF ∧ sfx ∈ Spec.floatSuffixes

/-- the text before the exponent -/
def BadExpFloat.mant : BadExpFloat → List Char
  | .exp ip _ _ => ip
  | .frac ip fp _ _ => ip ++ '.' :: fp
def BadExpFloat.x : BadExpFloat → BadExp
  | .exp _ x _ => x
  | .frac _ _ x _ => x
def BadExpFloat.sfx : BadExpFloat → String
  | .exp _ _ s => s
  | .frac _ _ _ s => s
def BadExpFloat.kind : BadExpFloat → FloatKind
  | .exp .. => .exponent
  | .frac .. => .fractional
def BadExpFloat.render (k : BadExpFloat) : List Char := k.mant ++ k.x.render ++ k.sfx.toList

/-- the exponent group on an exponent part without digits: exactly the letter and the sign -/
theorem matchExp_nodigits (u : Uni) (x : BadExp) (hx : x.WF) (after : List Char)
    (ha : ∀ c, after.head? = some c → u.isD c = false ∧ isE c = false ∧ c ≠ '.' ∧ c ≠ '+' ∧ c ≠ '-') :
    matchExp isE u.isD (tailDec u) (x.render ++ after) = x.render := by
  obtain ⟨he, hsign⟩ := hx
  have hisE : isE x.e = true := by rcases he with h | h <;> rw [h] <;> decide
  have haE : after.takeWhile isE = [] := by
    cases after with
    | nil => rfl
    | cons c tl => simp [List.takeWhile, (ha c rfl).2.1]
  have haD : after.takeWhile u.isD = [] := by
    cases after with
    | nil => rfl
    | cons c tl => simp [List.takeWhile, (ha c rfl).1]
  have hatail : tailDec u after = 0 := by
    unfold tailDec
    cases after with
    | nil => rfl
    | cons c tl =>
      obtain ⟨h1, _, h3, _, _⟩ := ha c rfl
      have h3' : (c == '.') = false := by simp [h3]
      simp [List.takeWhile, h1, h3']
  have hiter0 : ∀ fuel, expIter isE (tailDec u) fuel after = [] := by
    intro fuel
    cases fuel with
    | zero => rfl
    | succ fuel =>
      unfold expIter
      cases after with
      | nil => rfl
      | cons c tl => simp [(ha c rfl).2.1]
  unfold matchExp spanP BadExp.render
  cases hs : x.sign with
  | none =>
    simp only [Option.toList_none, List.cons_append, List.nil_append]
    have h1 : (x.e :: after).takeWhile isE = [x.e] := by simp [List.takeWhile_cons, hisE, haE]
    have h2 : (x.e :: after).dropWhile isE = after := by
      rw [List.dropWhile_cons]; simp only [hisE, ↓reduceIte]
      cases after with
      | nil => rfl
      | cons c tl => simp [List.dropWhile_cons, (ha c rfl).2.1]
    simp only [h1, h2, List.isEmpty_cons, Bool.false_eq_true, ↓reduceIte]
    cases after with
    | nil =>
      simp only [List.takeWhile_nil, List.isEmpty_nil, Bool.not_true, Bool.false_eq_true, ↓reduceIte]
      simp [expIter, hisE, tailDec]
    | cons c tl =>
      obtain ⟨_, _, _, h4, h5⟩ := ha c rfl
      have hns : (c == '+' || c == '-') = false := by simp [h4, h5]
      simp only [hns, Bool.false_eq_true, ↓reduceIte, haD, List.isEmpty_nil, Bool.not_true]
      unfold expIter
      simp only [hisE, ↓reduceIte, hns, Bool.false_eq_true, hatail, List.take_zero, List.drop_zero, List.append_nil]
      rw [hiter0]
      simp
  | some sg =>
    have hsg := hsign sg hs
    have hsgE : isE sg = false := by rcases hsg with rfl | rfl <;> decide
    have hsgD : u.isD sg = false := by
      rcases hsg with rfl | rfl <;> (rw [isD_ascii u (by decide)]; decide)
    have hsgb : (sg == '+' || sg == '-') = true := by rcases hsg with rfl | rfl <;> decide
    simp only [Option.toList_some, List.cons_append, List.nil_append]
    have h1 : (x.e :: sg :: after).takeWhile isE = [x.e] := by simp [List.takeWhile, hisE, hsgE]
    have h2 : (x.e :: sg :: after).dropWhile isE = sg :: after := by simp [List.dropWhile, hisE, hsgE]
    simp only [h1, h2, List.isEmpty_cons, Bool.false_eq_true, ↓reduceIte, hsgb, haD, List.isEmpty_nil]
    have hD2 : (sg :: after).takeWhile u.isD = [] := by simp [List.takeWhile, hsgD]
    simp only [hD2, List.isEmpty_nil, Bool.not_true, Bool.false_eq_true, ↓reduceIte]
    unfold expIter
    simp only [hisE, ↓reduceIte, hsgb, hatail, List.take_zero, List.drop_zero, List.append_nil]
    rw [hiter0]
    simp

theorem goodExponent_nodigits (u : Uni) (x : BadExp) (hx : x.WF) : goodExponent u x.render = false := by
  obtain ⟨he, hsign⟩ := hx
  have hisE : isE x.e = true := by rcases he with h | h <;> rw [h] <;> decide
  unfold goodExponent BadExp.render
  cases hs : x.sign with
  | none => simp [hisE]
  | some sg =>
    have hsgb : (sg == '+' || sg == '-') = true := by rcases hsign sg hs with rfl | rfl <;> decide
    simp [hisE, hsgb]

/-- **The float parser on a constant whose exponent has no digits**: a match whose groups spell the constant, and
BAD_EXPONENT on the exponent (from its letter to the end of the constant). -/
theorem floatLogic_bad_exp (u : Uni) (k : BadExpFloat) (hk : k.WF) (rest : List Char) (hb : boundaryOK rest)
    (line col : Nat) :
    floatLogic u line col (k.render ++ rest) =
      .tok ⟨k.kind, k.mant, k.x.render, k.sfx.toList⟩
        (some (mkDiag "BAD_EXPONENT" .error
          [⟨line, col + k.mant.length, some (k.x.render.length + k.sfx.toList.length), none⟩])) := by
  cases k with
  | exp ip x sfx =>
    obtain ⟨hipne, hip, hx, hs⟩ := hk
    have haf := after_float u hs hb
    have hxd : u.isD x.e = false := by
      have : x.e ∈ wordChars ∧ isAsciiDigit x.e = false := by rcases hx.1 with h | h <;> rw [h] <;> decide
      rw [isD_ascii u (word_tbl _ this.1).1]; exact this.2
    have hipD : ∀ c ∈ ip, u.isD c = true := fun c hc => (dec_facts u (hip c hc)).1
    have hsrc : BadExpFloat.render (.exp ip x sfx) ++ rest = ip ++ (x.render ++ (sfx.toList ++ rest)) := by
      simp [BadExpFloat.render, BadExpFloat.mant, BadExpFloat.x, BadExpFloat.sfx, List.append_assoc]
    have hhead : ∀ c, (x.render ++ (sfx.toList ++ rest)).head? = some c → u.isD c = false := by
      intro c hc; simp [BadExp.render] at hc; subst hc; exact hxd
    have htw : (ip ++ (x.render ++ (sfx.toList ++ rest))).takeWhile u.isD = ip := takeWhile_app hipD hhead
    have hdw : (ip ++ (x.render ++ (sfx.toList ++ rest))).dropWhile u.isD = x.render ++ (sfx.toList ++ rest) :=
      dropWhile_app hipD hhead
    have hme := matchExp_nodigits u x hx (sfx.toList ++ rest) haf
    have hm : matchFloatExp u (ip ++ (x.render ++ (sfx.toList ++ rest))) =
        some ⟨.exponent, ip, x.render, sfx.toList⟩ := by
      unfold matchFloatExp spanP
      simp only [htw, hdw, hme]
      have h1 : ip.isEmpty = false := by cases ip with | nil => exact absurd rfl hipne | cons a b => rfl
      have h2 : x.render.isEmpty = false := by simp [BadExp.render]
      simp only [h1, h2, Bool.false_eq_true, ↓reduceIte, List.drop_left', floatSuffix_valid u hs hb]
    rw [hsrc]
    unfold floatLogic
    simp only [hm]
    have hge := goodExponent_nodigits u x hx
    have h2 : x.render.isEmpty = false := by simp [BadExp.render]
    simp [hge, h2, BadExpFloat.mant, BadExpFloat.x, BadExpFloat.sfx, BadExpFloat.kind]
  | frac ip fp x sfx =>
    obtain ⟨hne, hip, hfp, hx, hs⟩ := hk
    have haf := after_float u hs hb
    have hipD : ∀ c ∈ ip, u.isD c = true := fun c hc => (dec_facts u (hip c hc)).1
    have hfpD : ∀ c ∈ fp, u.isD c = true := fun c hc => (dec_facts u (hfp c hc)).1
    have hxd : u.isD x.e = false := by
      have : x.e ∈ wordChars ∧ isAsciiDigit x.e = false := by rcases hx.1 with h | h <;> rw [h] <;> decide
      rw [isD_ascii u (word_tbl _ this.1).1]; exact this.2
    have hXhead : ∀ c, (x.render ++ (sfx.toList ++ rest)).head? = some c → u.isD c = false := by
      intro c hc; simp [BadExp.render] at hc; subst hc; exact hxd
    have hsrc : BadExpFloat.render (.frac ip fp x sfx) ++ rest = ip ++ ('.' :: (fp ++ (x.render ++ (sfx.toList ++ rest)))) := by
      simp [BadExpFloat.render, BadExpFloat.mant, BadExpFloat.x, BadExpFloat.sfx, List.append_assoc]
    have hdot : ∀ c, ('.' :: (fp ++ (x.render ++ (sfx.toList ++ rest)))).head? = some c → u.isD c = false := by
      intro c hc; simp at hc; subst hc
      rw [isD_ascii u (by decide)]; decide
    have htw : (ip ++ ('.' :: (fp ++ (x.render ++ (sfx.toList ++ rest))))).takeWhile u.isD = ip := takeWhile_app hipD hdot
    have hdw : (ip ++ ('.' :: (fp ++ (x.render ++ (sfx.toList ++ rest))))).dropWhile u.isD = '.' :: (fp ++ (x.render ++ (sfx.toList ++ rest))) :=
      dropWhile_app hipD hdot
    have hfs : (fp ++ (x.render ++ (sfx.toList ++ rest))).takeWhile u.isD = fp := takeWhile_app hfpD hXhead
    have hme := matchExp_nodigits u x hx (sfx.toList ++ rest) haf
    have hm1 : matchFloatExp u (ip ++ ('.' :: (fp ++ (x.render ++ (sfx.toList ++ rest))))) = none := by
      unfold matchFloatExp spanP
      simp only [htw, hdw]
      split
      · rfl
      · have : matchExp isE u.isD (tailDec u) ('.' :: (fp ++ (x.render ++ (sfx.toList ++ rest)))) = [] := by
          unfold matchExp spanP
          simp [List.takeWhile, isE_facts.2.2.2.2.2]
        simp [this]
    have hm2 : matchFloatFrac u (ip ++ ('.' :: (fp ++ (x.render ++ (sfx.toList ++ rest))))) =
        some ⟨.fractional, ip ++ '.' :: fp, x.render, sfx.toList⟩ := by
      unfold matchFloatFrac spanP
      simp only [htw, hdw, hfs]
      cases hfe : fp with
      | nil =>
        have hipne : ip.isEmpty = false := by
          rcases hne with h | h
          · cases ip with | nil => exact absurd rfl h | cons a b => rfl
          · exact absurd hfe h
        simp only [List.isEmpty_nil, Bool.not_true, Bool.false_eq_true, ↓reduceIte, hipne, Bool.not_false,
          List.nil_append]
        simp [hme, floatSuffix_valid u hs hb]
      | cons f0 fs =>
        simp only [List.isEmpty_cons, Bool.not_false, ↓reduceIte]
        have hdrop : (f0 :: fs ++ (x.render ++ (sfx.toList ++ rest))).drop (f0 :: fs).length = x.render ++ (sfx.toList ++ rest) := by
          simp
        rw [hdrop]
        simp only [hme, List.drop_left', floatSuffix_valid u hs hb]
    rw [hsrc]
    unfold floatLogic
    simp only [hm1, hm2]
    have hge := goodExponent_nodigits u x hx
    have h2 : x.render.isEmpty = false := by simp [BadExp.render]
    simp [hge, h2, BadExpFloat.mant, BadExpFloat.x, BadExpFloat.sfx, BadExpFloat.kind]

theorem badExpFloat_plain (k : BadExpFloat) (hk : k.WF) : ∀ c ∈ k.render, plainChar c := by
  have hxp : ∀ x : BadExp, x.WF → ∀ c ∈ x.render, plainChar c := by
    intro x hx c hc
    obtain ⟨he, hsign⟩ := hx
    simp only [BadExp.render, List.mem_cons, Option.mem_toList] at hc
    rcases hc with rfl | hc
    · rcases he with h | h <;> rw [h] <;> (unfold plainChar; decide)
    · rcases hsign c hc with rfl | rfl <;> (unfold plainChar; decide)
  cases k with
  | exp ip x sfx =>
    obtain ⟨_, hip, hx, hs⟩ := hk
    intro c hc
    simp only [BadExpFloat.render, BadExpFloat.mant, BadExpFloat.x, BadExpFloat.sfx, List.mem_append] at hc
    rcases hc with (hc | hc) | hc
    · exact plain_of_word (dec_sub_word c (hip c hc))
    · exact hxp x hx c hc
    · exact plain_of_word ((fsuffix_tbl sfx hs).2.1 c hc)
  | frac ip fp x sfx =>
    obtain ⟨_, hip, hfp, hx, hs⟩ := hk
    intro c hc
    simp only [BadExpFloat.render, BadExpFloat.mant, BadExpFloat.x, BadExpFloat.sfx, List.mem_append, List.mem_cons] at hc
    rcases hc with ((hc | rfl | hc) | hc) | hc
    · exact plain_of_word (dec_sub_word c (hip c hc))
    · unfold plainChar; decide
    · exact plain_of_word (dec_sub_word c (hfp c hc))
    · exact hxp x hx c hc
    · exact plain_of_word ((fsuffix_tbl sfx hs).2.1 c hc)

/-- **Malformed family "exponent without digits"**: one CONSTANT token spanning the whole text, and exactly one
diagnostic added, BAD_EXPONENT, highlighted from the exponent letter to the end of the constant. -/
theorem bad_exponent_reported (u : Uni) (k : BadExpFloat) (hk : k.WF) (rest : List Char) (hb : boundaryOK rest)
    (s : LexSt) (hr : s.rest = k.render ++ rest) :
    ∃ s' t, trySubLexers u s = .ok (some (s', t)) ∧ t.type = "CONSTANT" ∧
      t.value = some (String.ofList k.render) ∧ t.line = s.line ∧ t.col = s.col ∧
      s'.rest = rest ∧
      s'.diags = s.diags ++ [mkDiag "BAD_EXPONENT" .error
        [⟨s.line, s.col + k.mant.length, some (k.x.render.length + k.sfx.toList.length), none⟩]] := by
  have hfl := floatLogic_bad_exp u k hk rest hb s.line s.col
  have hlen : k.mant.length + k.x.render.length + k.sfx.toList.length = k.render.length := by
    simp [BadExpFloat.render, List.length_append]; omega
  have hne : k.render ≠ [] := by
    simp [BadExpFloat.render, BadExp.render]
  let d := mkDiag "BAD_EXPONENT" .error
        [⟨s.line, s.col + k.mant.length, some (k.x.render.length + k.sfx.toList.length), none⟩]
  obtain ⟨n1, n2, n3⟩ := popN_plain k.render rest (s.addDiag d) hr (badExpFloat_plain k hk)
  have hpf : ∃ s', parseFloat u s = some (s', mkTok "CONSTANT" s s' (some k.render)) ∧ s'.rest = rest ∧
      s'.diags = s.diags ++ [d] := by
    unfold parseFloat
    rw [hr]
    cases hkr : k.render ++ rest with
    | nil =>
      exfalso
      have := congrArg List.length hkr
      simp only [List.length_append, List.length_nil] at this
      have : k.render.length = 0 := by omega
      exact hne (List.eq_nil_of_length_eq_zero this)
    | cons c0 tl0 =>
      simp only
      rw [← hkr, hfl]
      simp only [LexSt.addDiag?, hlen]
      cases hpn : popN k.render.length (s.addDiag d) with
      | mk s2 r2 =>
        rw [hpn] at n1 n2 n3
        simp only at n1 n2 n3
        subst n1
        exact ⟨s2, rfl, n2, by rw [n3]; rfl⟩
  obtain ⟨s', h1, h2, h3⟩ := hpf
  refine ⟨s', mkTok "CONSTANT" s s' (some k.render), ?_, rfl, rfl, rfl, rfl, h2, h3⟩
  unfold trySubLexers
  rw [h1]

/-! ### several dots -/

theorem dotword_facts (u : Uni) {c : Char} (h : c ∈ wordChars ∨ c = '.') : (u.isW c || c == '.') = true := by
  rcases h with h | rfl
  · simp [word_facts u h]
  · simp

theorem dotword_plain {c : Char} (h : c ∈ wordChars ∨ c = '.') : plainChar c := by
  rcases h with h | rfl
  · exact plain_of_word h
  · unfold plainChar; decide

/-- **The float parser on `D*.D*` followed by a further dot** (and any run of letters, digits, underscores and dots):
one match whose suffix group holds everything from the second dot on, and MULTIPLE_DOTS on it. -/
theorem floatLogic_dots (u : Uni) (ip fp more : List Char) (hne : ip ≠ [] ∨ fp ≠ [])
    (hip : ∀ c ∈ ip, c ∈ decDigits) (hfp : ∀ c ∈ fp, c ∈ decDigits) (hmore : ∀ c ∈ more, c ∈ wordChars ∨ c = '.')
    (rest : List Char) (hb : boundaryOK rest) (line col : Nat) :
    floatLogic u line col (ip ++ '.' :: fp ++ '.' :: more ++ rest) =
      .tok ⟨.fractional, ip ++ '.' :: fp, [], '.' :: more⟩
        (some (mkDiag "MULTIPLE_DOTS" .error [⟨line, col + (ip ++ '.' :: fp).length, some ('.' :: more).length, none⟩])) := by
  have hipD : ∀ c ∈ ip, u.isD c = true := fun c hc => (dec_facts u (hip c hc)).1
  have hfpD : ∀ c ∈ fp, u.isD c = true := fun c hc => (dec_facts u (hfp c hc)).1
  have hdotD : u.isD '.' = false := by rw [isD_ascii u (by decide)]; decide
  have hsrc : ip ++ '.' :: fp ++ '.' :: more ++ rest = ip ++ ('.' :: (fp ++ ('.' :: (more ++ rest)))) := by
    simp [List.append_assoc]
  have hdot : ∀ c, ('.' :: (fp ++ ('.' :: (more ++ rest)))).head? = some c → u.isD c = false := by
    intro c hc; simp at hc; subst hc; exact hdotD
  have hdot2 : ∀ c, ('.' :: (more ++ rest)).head? = some c → u.isD c = false := by
    intro c hc; simp at hc; subst hc; exact hdotD
  have htw : (ip ++ ('.' :: (fp ++ ('.' :: (more ++ rest))))).takeWhile u.isD = ip := takeWhile_app hipD hdot
  have hdw : (ip ++ ('.' :: (fp ++ ('.' :: (more ++ rest))))).dropWhile u.isD = '.' :: (fp ++ ('.' :: (more ++ rest))) :=
    dropWhile_app hipD hdot
  have hfs : (fp ++ ('.' :: (more ++ rest))).takeWhile u.isD = fp := takeWhile_app hfpD hdot2
  have hme : matchExp isE u.isD (tailDec u) ('.' :: (more ++ rest)) = [] := by
    unfold matchExp spanP
    simp [List.takeWhile, isE_facts.2.2.2.2.2]
  have hsuf : floatSuffix u ('.' :: (more ++ rest)) = '.' :: more := by
    unfold floatSuffix
    have := takeWhile_app (p := fun c => u.isW c || c == '.') (s := '.' :: more) (rest := rest)
      (by
        intro c hc
        rcases List.mem_cons.mp hc with rfl | hc
        · simp
        · exact dotword_facts u (hmore c hc))
      (by
        intro c hc
        obtain ⟨h1, _, _, _, _, h6, _⟩ := boundary_head u hb c hc
        simp [h1, h6])
    simpa using this
  have hm1 : matchFloatExp u (ip ++ ('.' :: (fp ++ ('.' :: (more ++ rest))))) = none := by
    unfold matchFloatExp spanP
    simp only [htw, hdw]
    split
    · rfl
    · have : matchExp isE u.isD (tailDec u) ('.' :: (fp ++ ('.' :: (more ++ rest)))) = [] := by
        unfold matchExp spanP
        simp [List.takeWhile, isE_facts.2.2.2.2.2]
      simp [this]
  have hm2 : matchFloatFrac u (ip ++ ('.' :: (fp ++ ('.' :: (more ++ rest))))) =
      some ⟨.fractional, ip ++ '.' :: fp, [], '.' :: more⟩ := by
    unfold matchFloatFrac spanP
    simp only [htw, hdw, hfs]
    cases hfe : fp with
    | nil =>
      have hipne : ip.isEmpty = false := by
        rcases hne with h | h
        · cases ip with | nil => exact absurd rfl h | cons a b => rfl
        · exact absurd hfe h
      simp only [List.isEmpty_nil, Bool.not_true, Bool.false_eq_true, ↓reduceIte, hipne, Bool.not_false,
        List.nil_append]
      simp [hme, hsuf]
    | cons f0 fs =>
      simp only [List.isEmpty_cons, Bool.not_false, ↓reduceIte]
      have hdrop : (f0 :: fs ++ ('.' :: (more ++ rest))).drop (f0 :: fs).length = '.' :: (more ++ rest) := by
        simp
      rw [hdrop]
      simp only [hme, List.length_nil, List.drop_zero, hsuf]
  rw [hsrc]
  unfold floatLogic
  simp only [hm1, hm2]
  have hc1 : (ip ++ '.' :: fp).count '.' = 1 := by
    rw [List.count_append, List.count_cons_self, count_dot_digits ip hip, count_dot_digits fp hfp]
  simp [hc1]

/-- **Malformed family "several dots"**: `D*.D*` (at least one digit) directly followed by another dot and any run of
letters, digits, underscores and dots — `1.2.3`, `1..5`, `.5.`, `3.14.15f` —: one CONSTANT token spanning the whole
text, and exactly one diagnostic added, MULTIPLE_DOTS, highlighted from the second dot to the end. -/
theorem multiple_dots_reported (u : Uni) (ip fp more : List Char) (hne : ip ≠ [] ∨ fp ≠ [])
    (hip : ∀ c ∈ ip, c ∈ decDigits) (hfp : ∀ c ∈ fp, c ∈ decDigits) (hmore : ∀ c ∈ more, c ∈ wordChars ∨ c = '.')
    (rest : List Char) (hb : boundaryOK rest) (s : LexSt) (hr : s.rest = ip ++ '.' :: fp ++ '.' :: more ++ rest) :
    ∃ s' t, trySubLexers u s = .ok (some (s', t)) ∧ t.type = "CONSTANT" ∧
      t.value = some (String.ofList (ip ++ '.' :: fp ++ '.' :: more)) ∧ t.line = s.line ∧ t.col = s.col ∧
      s'.rest = rest ∧
      s'.diags = s.diags ++ [mkDiag "MULTIPLE_DOTS" .error
        [⟨s.line, s.col + (ip ++ '.' :: fp).length, some ('.' :: more).length, none⟩]] := by
  have hfl := floatLogic_dots u ip fp more hne hip hfp hmore rest hb s.line s.col
  let txt := ip ++ '.' :: fp ++ '.' :: more
  have hlen : (ip ++ '.' :: fp).length + ([] : List Char).length + ('.' :: more).length = txt.length := by
    simp [txt, List.length_append]; omega
  have hplain : ∀ c ∈ txt, plainChar c := by
    intro c hc
    simp only [txt, List.mem_append, List.mem_cons] at hc
    rcases hc with (hc | rfl | hc) | rfl | hc
    · exact plain_of_word (dec_sub_word c (hip c hc))
    · unfold plainChar; decide
    · exact plain_of_word (dec_sub_word c (hfp c hc))
    · unfold plainChar; decide
    · exact dotword_plain (hmore c hc)
  let d := mkDiag "MULTIPLE_DOTS" .error [⟨s.line, s.col + (ip ++ '.' :: fp).length, some ('.' :: more).length, none⟩]
  have hr' : (s.addDiag d).rest = txt ++ rest := by simpa [LexSt.addDiag, txt] using hr
  obtain ⟨n1, n2, n3⟩ := popN_plain txt rest (s.addDiag d) hr' hplain
  have hpf : ∃ s', parseFloat u s = some (s', mkTok "CONSTANT" s s' (some txt)) ∧ s'.rest = rest ∧
      s'.diags = s.diags ++ [d] := by
    unfold parseFloat
    rw [hr]
    cases hkr : ip ++ '.' :: fp ++ '.' :: more ++ rest with
    | nil =>
      exfalso
      have := congrArg List.length hkr
      simp at this
    | cons c0 tl0 =>
      simp only
      rw [← hkr, hfl]
      simp only [LexSt.addDiag?, hlen]
      cases hpn : popN txt.length (s.addDiag d) with
      | mk s2 r2 =>
        rw [hpn] at n1 n2 n3
        simp only at n1 n2 n3
        subst n1
        exact ⟨s2, rfl, n2, by rw [n3]; rfl⟩
  obtain ⟨s', h1, h2, h3⟩ := hpf
  refine ⟨s', mkTok "CONSTANT" s s' (some txt), ?_, rfl, rfl, rfl, rfl, h2, h3⟩
  unfold trySubLexers
  rw [h1]

end Norm
