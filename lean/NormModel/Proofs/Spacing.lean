/- Lemmas about `CheckSpacing` (`Model/Spacing.lean`). -/
import NormModel.Model.Spacing
namespace Norm

theorem isTy_lt (ts : List Token) (k : Nat) (ty : String) (h : isTy ts k ty = true) : k < ts.length := by
  unfold isTy at h
  cases hk : ts[k]? with
  | none => rw [hk] at h; cases h
  | some t =>
    have := List.getElem?_eq_some_iff.mp hk
    exact this.1

/-! ### the two skipping loops -/

def inBound (b : Option Nat) (i : Nat) : Bool :=
  match b with
  | some b => decide (i < b)
  | none => true

theorem skipTy_unfold (ts : List Token) (ty : String) (b : Option Nat) (fuel i : Nat) :
    skipTy ts ty b (fuel + 1) i = if inBound b i && isTy ts i ty then skipTy ts ty b fuel (i + 1) else i := by
  rfl

theorem skipTy_ge (ts : List Token) (ty : String) (b : Option Nat) (fuel i : Nat) : i ≤ skipTy ts ty b fuel i := by
  induction fuel generalizing i with
  | zero => simp [skipTy]
  | succ f ih =>
    rw [skipTy_unfold]; split
    · have := ih (i + 1); omega
    · omega

theorem skipTy_all (ts : List Token) (ty : String) (b : Option Nat) (fuel i k : Nat)
    (h1 : i ≤ k) (h2 : k < skipTy ts ty b fuel i) : isTy ts k ty = true ∧ inBound b k = true := by
  induction fuel generalizing i with
  | zero => simp [skipTy] at h2; omega
  | succ f ih =>
    rw [skipTy_unfold] at h2
    split at h2
    · rename_i hc
      simp only [Bool.and_eq_true] at hc
      by_cases hk : k = i
      · subst hk; exact ⟨hc.2, hc.1⟩
      · exact ih (i + 1) (by omega) h2
    · omega

/-- with enough fuel the loop stops only where its condition fails -/
theorem skipTy_stop (ts : List Token) (ty : String) (b : Option Nat) (fuel i : Nat)
    (hf : ts.length < fuel + i) :
    (inBound b (skipTy ts ty b fuel i) && isTy ts (skipTy ts ty b fuel i) ty) = false := by
  induction fuel generalizing i with
  | zero =>
    simp only [skipTy]
    have : isTy ts i ty = false := by
      cases h : isTy ts i ty with
      | false => rfl
      | true => have := isTy_lt ts i ty h; omega
    simp [this]
  | succ f ih =>
    rw [skipTy_unfold]
    split
    · exact ih (i + 1) (by omega)
    · rename_i hc; simpa using hc

/-- the loop cannot pass an index where the token is of another type -/
theorem skipTy_le_of_not (ts : List Token) (ty : String) (b : Option Nat) (fuel i k : Nat)
    (h1 : i ≤ k) (h2 : isTy ts k ty = false) : skipTy ts ty b fuel i ≤ k := by
  by_cases h : k < skipTy ts ty b fuel i
  · have := (skipTy_all ts ty b fuel i k h1 h).1
    rw [h2] at this; cases this
  · omega

theorem skipTy_le_bound (ts : List Token) (ty : String) (n fuel i : Nat) (h : i ≤ n) :
    skipTy ts ty (some n) fuel i ≤ n := by
  by_cases hk : n < skipTy ts ty (some n) fuel i
  · have := (skipTy_all ts ty (some n) fuel i n h hk).2
    simp [inBound] at this
  · omega

theorem skipTy_succ_of (ts : List Token) (ty : String) (b : Option Nat) (fuel i : Nat)
    (h1 : isTy ts i ty = true) (h2 : inBound b i = true) : i + 1 ≤ skipTy ts ty b (fuel + 1) i := by
  rw [skipTy_unfold]; simp only [h1, h2, Bool.and_self, ↓reduceIte]
  exact skipTy_ge ts ty b fuel (i + 1)

def isBlank (ts : List Token) (k : Nat) : Bool :=
  isTy ts k "SPACE" || isTy ts k "TAB" || isTy ts k "ESCAPED_NEWLINE"

theorem skipWsST_unfold (ts : List Token) (fuel i : Nat) :
    skipWsST ts (fuel + 1) i = if isBlank ts i then skipWsST ts fuel (i + 1) else i := by
  rfl

/-- over a run of blanks ending at a non-blank `m`, `skip_ws` returns `m` -/
theorem skipWsST_run (ts : List Token) (fuel i m : Nat) (him : i ≤ m) (hf : m - i < fuel)
    (hblank : ∀ j, i ≤ j → j < m → isBlank ts j = true) (hm : isBlank ts m = false) :
    skipWsST ts fuel i = m := by
  induction fuel generalizing i with
  | zero => omega
  | succ f ih =>
    rw [skipWsST_unfold]
    by_cases h : i = m
    · subst h; simp [hm]
    · have hb := hblank i (Nat.le_refl i) (by omega)
      simp only [hb, ↓reduceIte]
      exact ih (i + 1) (by omega) (by omega) (fun j h1 h2 => hblank j (by omega) h2)

/-! ### diagnostics only accumulate -/

theorem mixedBefore_out (ts : List Token) (st : SpSt) : ∀ d ∈ st.out, d ∈ (mixedBefore ts st).out := by
  intro d hd; unfold mixedBefore
  generalize (isTy ts (if st.i > 0 then st.i - 1 else 0) "TAB" && !st.stErr) = c
  cases c <;> simp [hd]
theorem mixedBefore_i (ts : List Token) (st : SpSt) : (mixedBefore ts st).i = st.i := by
  unfold mixedBefore
  generalize (isTy ts (if st.i > 0 then st.i - 1 else 0) "TAB" && !st.stErr) = c
  cases c <;> rfl
theorem spaceCol1_out (ts : List Token) (n : Nat) (st : SpSt) : ∀ d ∈ st.out, d ∈ (spaceCol1 ts n st).out := by
  intro d hd; unfold spaceCol1; simp only; split <;> simp [hd]
theorem trailingAt_out (ts : List Token) (st : SpSt) : ∀ d ∈ st.out, d ∈ (trailingAt ts st).out := by
  intro d hd; unfold trailingAt; simp only; split <;> simp [hd]
theorem trailingAt_i (ts : List Token) (st : SpSt) : (trailingAt ts st).i = st.i := by
  unfold trailingAt; simp only; split <;> rfl
theorem consecutiveAt_out (ts : List Token) (n : Nat) (st : SpSt) : ∀ d ∈ st.out, d ∈ (consecutiveAt ts n st).out := by
  intro d hd; unfold consecutiveAt; simp only
  split
  · split <;> simp [hd]
  · simp [hd]
theorem mixedAfter_out (ts : List Token) (st : SpSt) : ∀ d ∈ st.out, d ∈ (mixedAfter ts st).out := by
  intro d hd; unfold mixedAfter; split <;> simp [hd]
theorem mixedAfter_i (ts : List Token) (st : SpSt) : (mixedAfter ts st).i = st.i := by
  unfold mixedAfter; split <;> rfl
theorem tabCol1_out (ts : List Token) (st : SpSt) : ∀ d ∈ st.out, d ∈ (tabCol1 ts st).out := by
  intro d hd; unfold tabCol1; simp only; split <;> simp [hd]

theorem spacingBody_out (ts : List Token) (n : Nat) (st : SpSt) : ∀ d ∈ st.out, d ∈ (spacingBody ts n st).out := by
  intro d hd
  unfold spacingBody
  split
  · simp only
    split
    · exact spaceCol1_out ts n _ d (mixedBefore_out ts st d hd)
    · exact mixedAfter_out ts _ d (consecutiveAt_out ts n _ d (trailingAt_out ts _ d (mixedBefore_out ts st d hd)))
  · split
    · split
      · exact tabCol1_out ts st d hd
      · simpa using hd
    · simpa using hd

theorem spacingLoop_out (ts : List Token) (n fuel : Nat) (st : SpSt) : ∀ d ∈ st.out, d ∈ (spacingLoop ts n fuel st).out := by
  induction fuel generalizing st with
  | zero => intro d hd; simpa [spacingLoop] using hd
  | succ f ih =>
    intro d hd
    unfold spacingLoop
    split
    · exact ih _ d (spacingBody_out ts n st d hd)
    · exact hd

/-! ### progress: an iteration moves forward and never jumps over the start of a blank run -/

/-- `k` starts a run of blanks: the token before it (if any) is neither SPACE nor TAB -/
def RunStart (ts : List Token) (k : Nat) : Prop :=
  k = 0 ∨ (isTy ts (k - 1) "SPACE" = false ∧ isTy ts (k - 1) "TAB" = false)

theorem spacingBody_progress (ts : List Token) (n : Nat) (st : SpSt) (k : Nat)
    (hi : st.i < k) (hin : st.i < n) (hrs : RunStart ts k) :
    st.i < (spacingBody ts n st).i ∧ (spacingBody ts n st).i ≤ k := by
  have hk0 : k ≠ 0 := by omega
  obtain ⟨hs, ht⟩ : isTy ts (k - 1) "SPACE" = false ∧ isTy ts (k - 1) "TAB" = false := by
    rcases hrs with h | h
    · exact absurd h hk0
    · exact h
  unfold spacingBody
  split
  · rename_i hS
    simp only
    have hlt : st.i < k - 1 := by
      by_cases h : st.i = k - 1
      · rw [h] at hS; rw [hS] at hs; cases hs
      · omega
    split
    · -- column 1: skip the spaces (bounded by n)
      unfold spaceCol1
      simp only [mixedBefore_i]
      have hge := skipTy_succ_of ts "SPACE" (some n) ts.length st.i hS (by simp [inBound, hin])
      have hle := skipTy_le_of_not ts "SPACE" (some n) (ts.length + 1) st.i (k - 1) (by omega) hs
      split <;> simp only <;> omega
    · -- elsewhere: i + 1, then the following spaces
      rw [mixedAfter_i]
      unfold consecutiveAt
      simp only [trailingAt_i, mixedBefore_i]
      split
      · have hge := skipTy_ge ts "SPACE" (some n) (ts.length + 1) (st.i + 1)
        have hle := skipTy_le_of_not ts "SPACE" (some n) (ts.length + 1) (st.i + 1) (k - 1) (by omega) hs
        split <;> simp only <;> omega
      · simp only; omega
  · split
    · rename_i hT
      have hlt : st.i < k - 1 := by
        by_cases h : st.i = k - 1
        · rw [h] at hT; rw [hT] at ht; cases ht
        · omega
      split
      · unfold tabCol1
        simp only
        have hge := skipTy_succ_of ts "TAB" none ts.length st.i hT (by simp [inBound])
        have hle := skipTy_le_of_not ts "TAB" none (ts.length + 1) st.i (k - 1) (by omega) ht
        split <;> simp only <;> omega
      · simp only; omega
    · simp only; omega

/-- the loop reaches every run start inside the statement -/
theorem spacingLoop_reaches (ts : List Token) (n k : Nat) (hkn : k < n) (hkl : k < ts.length) (hrs : RunStart ts k) :
    ∀ (d : Nat) (st : SpSt) (fuel : Nat), k - st.i = d → st.i ≤ k → d < fuel →
      ∃ st' fuel', spacingLoop ts n fuel st = spacingLoop ts n fuel' st' ∧ st'.i = k ∧ 0 < fuel' ∧
        ∀ x ∈ st.out, x ∈ st'.out := by
  intro d
  induction d using Nat.strongRecOn with
  | ind d ih =>
    intro st fuel hd hle hf
    by_cases h : st.i = k
    · exact ⟨st, fuel, rfl, h, by omega, fun x hx => hx⟩
    · have hlt : st.i < k := by omega
      obtain ⟨f, rfl⟩ : ∃ f, fuel = f + 1 := ⟨fuel - 1, by omega⟩
      have hp := spacingBody_progress ts n st k hlt (by omega) hrs
      have hcond : st.i < min n ts.length := by simp only [Nat.lt_min]; omega
      obtain ⟨st', fuel', h1, h2, h3, h4⟩ :=
        ih (k - (spacingBody ts n st).i) (by omega) (spacingBody ts n st) f rfl hp.2 (by omega)
      refine ⟨st', fuel', ?_, h2, h3, fun x hx => h4 x (spacingBody_out ts n st x hx)⟩
      rw [← h1]
      conv => lhs; unfold spacingLoop
      simp [hcond]

end Norm

namespace Norm

/-! ### V01: a blank run that starts with a SPACE and ends at a NEWLINE is reported -/

theorem isBlank_not_nl (ts : List Token) (m : Nat) (h : isTy ts m "NEWLINE" = true) : isBlank ts m = false := by
  unfold isBlank isTy at *
  cases hk : ts[m]? with
  | none => rw [hk] at h; cases h
  | some t =>
    rw [hk] at h
    simp only [beq_iff_eq] at h
    simp [h]

/-- One iteration at a SPACE (not at column 1, not right after a brace) that starts a run of
blanks reaching a NEWLINE emits `SPC_BEFORE_NL` at that SPACE. -/
theorem spacingBody_trailing (ts : List Token) (n : Nat) (st : SpSt) (m : Nat) (tk : Token)
    (hS : isTy ts st.i "SPACE" = true) (htk : ts[st.i]? = some tk) (hcol : tk.col ≠ 1)
    (hkm : st.i < m) (hblank : ∀ j, st.i ≤ j → j < m → isBlank ts j = true)
    (hnl : isTy ts m "NEWLINE" = true) (hbr : braceBefore ts st.i = false) :
    tokDiag "SPC_BEFORE_NL" tk ∈ (spacingBody ts n st).out := by
  have hml := isTy_lt ts m "NEWLINE" hnl
  unfold spacingBody
  simp only [hS, ↓reduceIte]
  have hc1 : col1At ts (mixedBefore ts st).i = false := by
    rw [mixedBefore_i]; unfold col1At; rw [htk]; simp [hcol]
  simp only [hc1, Bool.false_eq_true, ↓reduceIte]
  apply mixedAfter_out
  apply consecutiveAt_out
  unfold trailingAt
  simp only [mixedBefore_i]
  have ht : skipWsST ts (ts.length + 1) st.i = m :=
    skipWsST_run ts (ts.length + 1) st.i m (by omega) (by omega) hblank (isBlank_not_nl ts m hnl)
  rw [ht]
  have hne : (m != st.i) = true := by simp; omega
  simp only [hne, hnl, hbr, Bool.not_false, Bool.and_self, ↓reduceIte]
  simp [emit, tokOrLast, htk]

/-- **`CheckSpacing` reports a trailing blank run**: in a statement matched by a primary other than
`IsEmptyLine` / `IsPreprocessorStatement`, a SPACE at index `k` inside the statement that is not
at column 1, starts a run of blanks (the token before it is neither SPACE nor TAB, nor a brace)
and is followed only by blanks up to a NEWLINE, gets `SPC_BEFORE_NL`. -/
theorem trailing_space_reported (rule : String) (ts : List Token) (n k m : Nat) (tk : Token)
    (hrule : rule ≠ "IsEmptyLine" ∧ rule ≠ "IsPreprocessorStatement")
    (hkn : k < n) (htk : ts[k]? = some tk) (hS : tk.type = "SPACE") (hcol : tk.col ≠ 1)
    (hrs : RunStart ts k) (hbr : braceBefore ts k = false)
    (hkm : k < m) (hblank : ∀ j, k ≤ j → j < m → isBlank ts j = true) (hnl : isTy ts m "NEWLINE" = true) :
    tokDiag "SPC_BEFORE_NL" tk ∈ checkSpacing rule ts n := by
  have hkl : k < ts.length := (List.getElem?_eq_some_iff.mp htk).1
  have hS' : isTy ts k "SPACE" = true := by unfold isTy; rw [htk]; simp [hS]
  unfold checkSpacing
  have : (rule == "IsEmptyLine" || rule == "IsPreprocessorStatement") = false := by simp [hrule.1, hrule.2]
  simp only [this, Bool.false_eq_true, ↓reduceIte]
  obtain ⟨st', fuel', h1, h2, h3, _⟩ :=
    spacingLoop_reaches ts n k hkn hkl hrs (k - 0) {} (ts.length + 1) rfl (Nat.zero_le k) (by simp; omega)
  rw [h1]
  obtain ⟨f, rfl⟩ : ∃ f, fuel' = f + 1 := ⟨fuel' - 1, by omega⟩
  unfold spacingLoop
  have hcond : st'.i < min n ts.length := by rw [h2]; simp only [Nat.lt_min]; omega
  simp only [hcond, ↓reduceIte]
  apply spacingLoop_out
  exact spacingBody_trailing ts n st' m tk (h2 ▸ hS') (h2 ▸ htk) hcol (h2 ▸ hkm) (h2 ▸ hblank) hnl (h2 ▸ hbr)

/-! ### C01: no diagnostic on cleanly spaced statements -/

/-- what conforming code guarantees about blanks: a SPACE is never at column 1, never next to
another blank and never before a NEWLINE; a TAB is never directly before a NEWLINE -/
structure WsClean (ts : List Token) : Prop where
  spaceCol : ∀ (i : Nat) (t : Token), ts[i]? = some t → t.type = "SPACE" → t.col ≠ 1
  spaceNext : ∀ i : Nat, isTy ts i "SPACE" = true → isBlank ts (i + 1) = false ∧ isTy ts (i + 1) "NEWLINE" = false
  spacePrev : ∀ i : Nat, isTy ts (i + 1) "SPACE" = true → isTy ts i "TAB" = false
  tabNl : ∀ i : Nat, isTy ts i "TAB" = true → isTy ts (i + 1) "NEWLINE" = false

theorem spacingBody_clean (ts : List Token) (n : Nat) (st : SpSt) (hc : WsClean ts) (hout : st.out = []) :
    (spacingBody ts n st).out = [] ∧ st.i < (spacingBody ts n st).i := by
  unfold spacingBody
  split
  · rename_i hS
    have hlt := isTy_lt ts st.i "SPACE" hS
    obtain ⟨tk, htk⟩ : ∃ tk, ts[st.i]? = some tk := ⟨ts[st.i], List.getElem?_eq_getElem hlt⟩
    have hty : tk.type = "SPACE" := by unfold isTy at hS; rw [htk] at hS; simpa using hS
    -- nothing before
    have hmb : mixedBefore ts st = st := by
      unfold mixedBefore
      have : isTy ts (if st.i > 0 then st.i - 1 else 0) "TAB" = false := by
        by_cases h0 : st.i > 0
        · simp only [h0, ↓reduceIte]
          have := hc.spacePrev (st.i - 1) (by rw [show st.i - 1 + 1 = st.i by omega]; exact hS)
          exact this
        · have h00 : st.i = 0 := by omega
          simp only [h0, ↓reduceIte]
          rw [h00] at htk
          unfold isTy; rw [htk]; simp [hty]
      simp [this]
    simp only [hmb]
    have hc1 : col1At ts st.i = false := by
      unfold col1At; rw [htk]; simp [hc.spaceCol st.i tk htk hty]
    simp only [hc1, Bool.false_eq_true, ↓reduceIte]
    obtain ⟨hb, hn⟩ := hc.spaceNext st.i hS
    have hskip : skipWsST ts (ts.length + 1) st.i = st.i + 1 := by
      apply skipWsST_run ts (ts.length + 1) st.i (st.i + 1) (by omega) (by omega)
      · intro j h1 h2
        have : j = st.i := by omega
        subst this; unfold isBlank; simp [hS]
      · exact hb
    have htr : trailingAt ts st = st := by
      unfold trailingAt; simp only [hskip, hn]; simp
    rw [htr]
    have hsp : isTy ts (st.i + 1) "SPACE" = false := by
      unfold isBlank at hb; simp only [Bool.or_eq_false_iff] at hb; exact hb.1.1
    have htb : isTy ts (st.i + 1) "TAB" = false := by
      unfold isBlank at hb; simp only [Bool.or_eq_false_iff] at hb; exact hb.1.2
    have hca : consecutiveAt ts n st = { st with i := st.i + 1 } := by
      unfold consecutiveAt; simp [hsp]
    rw [hca]
    unfold mixedAfter
    simp [htb, hout]
  · split
    · rename_i hT
      split
      · unfold tabCol1
        simp only
        have hge := skipTy_succ_of ts "TAB" none ts.length st.i hT (by simp [inBound])
        -- the token just before the stop is a TAB, so the stop is not a NEWLINE
        have hj : isTy ts (skipTy ts "TAB" none (ts.length + 1) st.i) "NEWLINE" = false := by
          have hprev := (skipTy_all ts "TAB" none (ts.length + 1) st.i
            (skipTy ts "TAB" none (ts.length + 1) st.i - 1) (by omega) (by omega)).1
          have := hc.tabNl _ hprev
          rwa [show skipTy ts "TAB" none (ts.length + 1) st.i - 1 + 1 = skipTy ts "TAB" none (ts.length + 1) st.i by omega] at this
        simp only [hj, Bool.false_eq_true, ↓reduceIte]
        exact ⟨hout, by omega⟩
      · simp [hout]
    · simp [hout]

theorem spacingLoop_clean (ts : List Token) (n : Nat) (hc : WsClean ts) (fuel : Nat) (st : SpSt) (hout : st.out = []) :
    (spacingLoop ts n fuel st).out = [] := by
  induction fuel generalizing st with
  | zero => simpa [spacingLoop] using hout
  | succ f ih =>
    unfold spacingLoop
    split
    · exact ih _ (spacingBody_clean ts n st hc hout).1
    · exact hout

/-- **`CheckSpacing` is silent on cleanly spaced tokens**, whatever the statement and the rule. -/
theorem checkSpacing_clean (rule : String) (ts : List Token) (n : Nat) (hc : WsClean ts) :
    checkSpacing rule ts n = [] := by
  unfold checkSpacing
  split
  · rfl
  · exact spacingLoop_clean ts n hc _ {} rfl

/-! ### lifting to a suffix of the file's token list -/

theorem isTy_drop (toks : List Token) (s i : Nat) (ty : String) : isTy (toks.drop s) i ty = isTy toks (s + i) ty := by
  unfold isTy; rw [List.getElem?_drop]

theorem isBlank_drop (toks : List Token) (s i : Nat) : isBlank (toks.drop s) i = isBlank toks (s + i) := by
  unfold isBlank; simp only [isTy_drop]

theorem WsClean.drop {toks : List Token} (hc : WsClean toks) (s : Nat) : WsClean (toks.drop s) where
  spaceCol := by intro i t h; rw [List.getElem?_drop] at h; exact hc.spaceCol _ t h
  spaceNext := by
    intro i h; rw [isTy_drop] at h
    have := hc.spaceNext _ h
    rw [isBlank_drop, isTy_drop]; exact this
  spacePrev := by
    intro i h; rw [isTy_drop] at h ⊢
    exact hc.spacePrev _ (by rw [Nat.add_assoc]; exact h)
  tabNl := by
    intro i h; rw [isTy_drop] at h ⊢
    have := hc.tabNl _ h
    rw [Nat.add_assoc] at this; exact this

/-- **File level**: a cleanly spaced token list gets nothing from `CheckSpacing`, for every trace. -/
theorem spacingDiagsRun_clean (toks : List Token) (trace : List Segment) (hc : WsClean toks) :
    spacingDiagsRun toks trace = [] := by
  unfold spacingDiagsRun
  rw [List.flatMap_eq_nil_iff]
  intro g _
  exact checkSpacing_clean g.rule _ g.len (hc.drop g.start)

end Norm

namespace Norm

/-! ### termination of the loop of `CheckSpacing` (C05, rule level) -/

/-- every iteration moves the index forward, whatever the tokens are -/
theorem spacingBody_advances (ts : List Token) (n : Nat) (st : SpSt) (hin : st.i < n) (hl : st.i < ts.length) :
    st.i < (spacingBody ts n st).i := by
  unfold spacingBody
  split
  · rename_i hS
    simp only
    split
    · unfold spaceCol1
      simp only [mixedBefore_i]
      have hge := skipTy_succ_of ts "SPACE" (some n) ts.length st.i hS (by simp [inBound, hin])
      split <;> simp only <;> omega
    · rw [mixedAfter_i]
      unfold consecutiveAt
      simp only [trailingAt_i, mixedBefore_i]
      split
      · have hge := skipTy_ge ts "SPACE" (some n) (ts.length + 1) (st.i + 1)
        split <;> simp only <;> omega
      · simp only; omega
  · split
    · rename_i hT
      split
      · unfold tabCol1
        simp only
        have hge := skipTy_succ_of ts "TAB" none ts.length st.i hT (by simp [inBound])
        split <;> simp only <;> omega
      · simp only; omega
    · simp only; omega

/-- **The loop of `CheckSpacing` ends by its own condition**: with the fuel the model gives it
(`|ts| + 1`) it stops only when the index has left the statement — the `while` of the real rule
terminates on every token list. -/
theorem spacingLoop_terminates (ts : List Token) (n : Nat) :
    ∀ (fuel : Nat) (st : SpSt), min n ts.length - st.i < fuel →
      min n ts.length ≤ (spacingLoop ts n fuel st).i := by
  intro fuel
  induction fuel with
  | zero => intro st h; omega
  | succ f ih =>
    intro st h
    unfold spacingLoop
    split
    · rename_i hc
      have hadv := spacingBody_advances ts n st (by omega) (by omega)
      exact ih _ (by omega)
    · omega

end Norm
