/- The tokenizer is total: no KeyError in `parse_operator`, fuel never exhausted. -/
import NormModel.Proofs.LexStream
namespace Norm
open Spec

theorem peek1_drop (rest : List Char) (k off : Nat) : peek1 (rest.drop k) off = peek1 rest (k + off) := by
  unfold peek1
  simp only [List.drop_drop]

theorem popOne_plain {s : LexSt} {c : Char} {sz : Nat} (hp : peek1 s.rest 0 = some (c, sz))
    (hc : c ≠ '\\') :
    (popOne false false s).2 = some [c] ∧ (popOne false false s).1.rest = s.rest.drop sz := by
  have hs : spliceLoop (s.rest.length + 1) s = (s, some (c, sz)) := by
    unfold spliceLoop
    simp only [hp]
    have : (c != '\\') = true := by simp [hc]
    simp [this]
  unfold popOne
  rw [hs]
  simp only
  have he : escOf false s c sz = ([c], sz, [], 0) := by
    unfold escOf; simp
  rw [he]
  unfold finishPop
  simp only
  split
  · exact ⟨rfl, by simp [advance]⟩
  · split
    · exact ⟨by simp, by simp [advance]⟩
    · exact ⟨rfl, by simp [advance]⟩

theorem popN_one {s : LexSt} {a : Char} {sa : Nat} (h1 : peek1 s.rest 0 = some (a, sa)) (ha : a ≠ '\\') :
    (popN 1 s).2 = some [a] := by
  obtain ⟨p1, _⟩ := popOne_plain h1 ha
  unfold popN
  cases hpo : popOne false false s with
  | mk s1 r =>
    rw [hpo] at p1
    simp only at p1
    subst p1
    simp [popN]

theorem popN_two {s : LexSt} {a b : Char} {sa sb : Nat} (h1 : peek1 s.rest 0 = some (a, sa)) (ha : a ≠ '\\')
    (h2 : peek1 s.rest sa = some (b, sb)) (hb : b ≠ '\\') :
    (popN 2 s).2 = some [a, b] := by
  obtain ⟨p1, p2⟩ := popOne_plain h1 ha
  unfold popN
  cases hpo : popOne false false s with
  | mk s1 r =>
    rw [hpo] at p1 p2
    simp only at p1 p2
    subst p1
    simp only
    have h2' : peek1 s1.rest 0 = some (b, sb) := by rw [p2, peek1_drop]; simpa using h2
    have := popN_one h2' hb
    cases hpn : popN 1 s1 with
    | mk s2 r2 =>
      rw [hpn] at this
      simp only at this
      subst this
      simp

theorem popN_three {s : LexSt} {a b c : Char} {sa sb sc : Nat}
    (h1 : peek1 s.rest 0 = some (a, sa)) (ha : a ≠ '\\')
    (h2 : peek1 s.rest sa = some (b, sb)) (hb : b ≠ '\\')
    (h3 : peek1 s.rest (sa + sb) = some (c, sc)) (hc : c ≠ '\\') :
    (popN 3 s).2 = some [a, b, c] := by
  obtain ⟨p1, p2⟩ := popOne_plain h1 ha
  unfold popN
  cases hpo : popOne false false s with
  | mk s1 r =>
    rw [hpo] at p1 p2
    simp only at p1 p2
    subst p1
    simp only
    have h2' : peek1 s1.rest 0 = some (b, sb) := by rw [p2, peek1_drop]; simpa using h2
    have h3' : peek1 s1.rest sb = some (c, sc) := by rw [p2, peek1_drop]; exact h3
    have := popN_two h2' hb h3' hc
    cases hpn : popN 2 s1 with
    | mk s2 r2 =>
      rw [hpn] at this
      simp only at this
      subst this
      simp

theorem opFin_ne_none {s : LexSt} {n : Nat} {v : List Char} (hv : (popN n s).2 = some v)
    (hk : (assoc Generated.operators (String.ofList v)).isSome) : opFin s n ≠ none := by
  unfold opFin
  cases hpn : popN n s with
  | mk s1 r =>
    rw [hpn] at hv
    simp only at hv
    subst hv
    simp only
    cases ha : assoc Generated.operators (String.ofList v) with
    | none => rw [ha] at hk; cases hk
    | some ty => simp

/-! table obligations on `Generated.operators` -/

theorem opChars_keys : ∀ c ∈ opChars, (assoc Generated.operators (String.ofList [c])).isSome := by decide
theorem opChars3_keys : ∀ c ∈ opChars3, (assoc Generated.operators (String.ofList [c, c])).isSome := by decide
theorem opChars_no_backslash : ∀ c ∈ opChars, c ≠ '\\' := by decide
theorem op3_keys : (assoc Generated.operators ">>=").isSome ∧ (assoc Generated.operators "<<=").isSome ∧
    (assoc Generated.operators "...").isSome ∧ (assoc Generated.operators ">>").isSome ∧
    (assoc Generated.operators "<<").isSome ∧ (assoc Generated.operators "->").isSome := by decide

theorem peek1_of_diAt_none {c : Char} {l : List Char} (h1 : c ≠ '?') (h2 : diAt (c :: l) = none) :
    peek1 (c :: l) 0 = some (c, 1) := by
  unfold peek1
  simp only [List.drop_zero]
  cases ht : triAt (c :: l) with
  | some d => exact absurd (triAt_first ht) h1
  | none => simp [h2]

theorem peek1_at {rest : List Char} {k : Nat} {c : Char} {l : List Char} (h : rest.drop k = c :: l)
    (h1 : c ≠ '?') (h2 : diAt (c :: l) = none) : peek1 rest k = some (c, 1) := by
  have := peek1_drop rest k 0
  rw [h] at this
  simp only [Nat.add_zero] at this
  rw [← this]
  exact peek1_of_diAt_none h1 h2

theorem diAt_none_of {c : Char} {l : List Char} (h2 : c ≠ '<') (h3 : c ≠ '%') (h4 : c ≠ ':') :
    diAt (c :: l) = none := by
  cases hd : diAt (c :: l) with
  | none => rfl
  | some d => rcases diAt_first hd with h | h | h <;> contradiction

end Norm

namespace Norm
open Spec

theorem diAt_cons2 (a b : Char) (l : List Char) :
    diAt (a :: b :: l) = (assoc Generated.digraphs (String.ofList [a, b])).bind (·.toList.head?) := rfl

theorem rawPeek3 {rest : List Char} {a b c : Char} (h : rawPeek rest 0 3 = some [a, b, c]) :
    ∃ tl, rest = a :: b :: c :: tl := by
  unfold rawPeek at h
  split at h
  · simp only [List.drop_zero, Option.some.injEq] at h
    match rest, h with
    | x :: y :: z :: tl, h => simp at h; obtain ⟨rfl, rfl, rfl⟩ := h; exact ⟨tl, rfl⟩
    | [_, _], h => simp at h
    | [_], h => simp at h
    | [], h => simp at h
  · cases h

theorem opFin3_ne_none {s : LexSt} {a b c : Char} {tl : List Char} (hr : s.rest = a :: b :: c :: tl)
    (ha : a ≠ '?') (ha' : a ≠ '\\') (hda : diAt (a :: b :: c :: tl) = none)
    (hb : b ≠ '?') (hb' : b ≠ '\\') (hdb : diAt (b :: c :: tl) = none)
    (hc : c ≠ '?') (hc' : c ≠ '\\') (hdc : diAt (c :: tl) = none)
    (hk : (assoc Generated.operators (String.ofList [a, b, c])).isSome) : opFin s 3 ≠ none := by
  have h1 : peek1 s.rest 0 = some (a, 1) := peek1_at (by rw [hr]; rfl) ha hda
  have h2 : peek1 s.rest 1 = some (b, 1) := peek1_at (by rw [hr]; rfl) hb hdb
  have h3 : peek1 s.rest (1 + 1) = some (c, 1) := peek1_at (by rw [hr]; rfl) hc hdc
  exact opFin_ne_none (popN_three h1 ha' h2 hb' h3 hc') hk

theorem parseOperator_ne_none (s : LexSt) : parseOperator s ≠ none := by
  unfold parseOperator
  cases hp : peek1 s.rest 0 with
  | none => simp
  | some p =>
    obtain ⟨c, sz⟩ := p
    simp only
    by_cases hoc : opChars.contains c = true
    · have hmem : c ∈ opChars := by simpa using hoc
      have hcb : c ≠ '\\' := opChars_no_backslash c hmem
      have h1 : opFin s 1 ≠ none := opFin_ne_none (popN_one hp hcb) (opChars_keys c hmem)
      simp only [hoc, Bool.not_true, Bool.false_eq_true, ↓reduceIte]
      split
      · split
        · rename_i h3
          simp only [Bool.or_eq_true, beq_iff_eq] at h3
          rcases h3 with (h3 | h3) | h3
          · obtain ⟨tl, hr⟩ := rawPeek3 (a := '>') (b := '>') (c := '=') (by simpa using h3)
            exact opFin3_ne_none hr (by decide) (by decide) (diAt_none_of (by decide) (by decide) (by decide))
              (by decide) (by decide) (diAt_none_of (by decide) (by decide) (by decide))
              (by decide) (by decide) (diAt_none_of (by decide) (by decide) (by decide)) (by decide)
          · obtain ⟨tl, hr⟩ := rawPeek3 (a := '<') (b := '<') (c := '=') (by simpa using h3)
            exact opFin3_ne_none hr (by decide) (by decide) (by rw [diAt_cons2]; decide)
              (by decide) (by decide) (by rw [diAt_cons2]; decide)
              (by decide) (by decide) (diAt_none_of (by decide) (by decide) (by decide)) (by decide)
          · obtain ⟨tl, hr⟩ := rawPeek3 (a := '.') (b := '.') (c := '.') (by simpa using h3)
            exact opFin3_ne_none hr (by decide) (by decide) (diAt_none_of (by decide) (by decide) (by decide))
              (by decide) (by decide) (diAt_none_of (by decide) (by decide) (by decide))
              (by decide) (by decide) (diAt_none_of (by decide) (by decide) (by decide)) (by decide)
        · -- two-character operators
          unfold peek2
          simp only [hp]
          cases hq : peek1 s.rest sz with
          | none =>
            simp only
            -- temp = [c]: none of the two-character tests can hold
            have e1 : ([c] == ">>".toList || [c] == "<<".toList || [c] == "->".toList) = false := by
              simp
            have e2 : ([c] == [c, '=']) = false := by simp
            have e3 : ([c] == [c, c]) = false := by simp
            simp only [e1, e2, e3, Bool.false_and, Bool.and_false, Bool.false_eq_true, ↓reduceIte]
            exact h1
          | some q =>
            obtain ⟨b, sb⟩ := q
            simp only
            have two : b ≠ '\\' → (assoc Generated.operators (String.ofList [c, b])).isSome → opFin s 2 ≠ none :=
              fun hb hk => opFin_ne_none (popN_two hp hcb hq hb) hk
            split
            · rename_i ht
              simp only [Bool.or_eq_true, beq_iff_eq] at ht
              rcases ht with (ht | ht) | ht <;>
              · have := ht
                simp at this
                obtain ⟨rfl, rfl⟩ := this
                exact two (by decide) (by decide)
            · split
              · rename_i ht
                simp only [Bool.and_eq_true, beq_iff_eq] at ht
                obtain ⟨ht1, ht2⟩ := ht
                have : b = '=' := by simpa using ht1
                subst this
                exact two (by decide) ht2
              · split
                · rename_i ht
                  simp only [Bool.and_eq_true, beq_iff_eq] at ht
                  obtain ⟨ht1, ht2⟩ := ht
                  have : b = c := by simpa using ht2
                  subst this
                  exact two hcb (opChars3_keys b (by simpa using ht1))
                · exact h1
      · exact h1
    · have : c ∉ opChars := by simpa using hoc
      simp [this]

theorem trySubLexers_no_error (u : Uni) (s : LexSt) : ∀ e, trySubLexers u s ≠ .error e := by
  intro e h
  unfold trySubLexers at h
  repeat' split at h
  all_goals first
    | (cases h; done)
    | (rename_i hop; exact parseOperator_ne_none s hop)

/-- **Tokenizer totality.** -/
theorem lex_total (u : Uni) (src : List Char) : ∃ r, lex u src = .ok r := by
  unfold lex
  cases h : lexItems u (src.length + 1) { rest := src } with
  | ok p => exact ⟨_, rfl⟩
  | error e =>
    exfalso
    cases e with
    | outOfFuel => exact lexItems_fuel u (src.length + 1) { rest := src } (by simp) h
    | keyError =>
      -- no round ever raises: show by the same induction that keyError is impossible
      have : ∀ fuel (s : LexSt), lexItems u fuel s ≠ .error .keyError := by
        intro fuel
        induction fuel with
        | zero => intro s h; simp [lexItems] at h
        | succ fuel ih =>
          intro s h
          unfold lexItems at h
          simp only at h
          split at h
          · rename_i e he; exact trySubLexers_no_error u _ e he
          · split at h
            · rename_i e he; simp only [Except.error.injEq] at h; subst h; exact ih _ he
            · cases h
          · split at h
            · cases h
            · split at h
              · rename_i e he; simp only [Except.error.injEq] at h; subst h; exact ih _ he
              · cases h
      exact this _ _ h

end Norm
