/- Helper lemmas about the stable insertion sort of `Model/Reports.lean`. -/
import NormModel.Model.Reports
namespace Norm

variable {α : Type}

theorem insertBy_perm (le : α → α → Bool) (x : α) (l : List α) :
    (insertBy le x l).Perm (x :: l) := by
  induction l with
  | nil => simp [insertBy]
  | cons y ys ih =>
    simp only [insertBy]
    split
    · exact List.Perm.refl _
    · exact (List.Perm.cons y ih).trans (List.Perm.swap x y ys)

theorem sortBy_perm (le : α → α → Bool) (l : List α) : (sortBy le l).Perm l := by
  induction l with
  | nil => simp [sortBy]
  | cons x xs ih =>
    simp only [sortBy]
    exact (insertBy_perm le x _).trans (List.Perm.cons x ih)

theorem mem_insertBy {le : α → α → Bool} {x y : α} {l : List α} :
    y ∈ insertBy le x l ↔ y = x ∨ y ∈ l := by
  rw [(insertBy_perm le x l).mem_iff]; simp

theorem mem_sortBy {le : α → α → Bool} {y : α} {l : List α} : y ∈ sortBy le l ↔ y ∈ l :=
  (sortBy_perm le l).mem_iff

/-- Inserting into a sorted list keeps it sorted, given totality and transitivity of `le`
on the elements involved (a predicate `P` closed under membership). -/
theorem insertBy_sorted (le : α → α → Bool) (P : α → Prop)
    (total : ∀ a b, P a → P b → le a b = true ∨ le b a = true)
    (trans : ∀ a b c, P a → P b → P c → le a b = true → le b c = true → le a c = true)
    (x : α) (l : List α) (hx : P x) (hl : ∀ y ∈ l, P y)
    (hs : l.Pairwise (fun a b => le a b = true)) :
    (insertBy le x l).Pairwise (fun a b => le a b = true) := by
  induction l with
  | nil => simp [insertBy]
  | cons y ys ih =>
    have hy : P y := hl y (by simp)
    have hys : ∀ z ∈ ys, P z := fun z hz => hl z (by simp [hz])
    rw [List.pairwise_cons] at hs
    simp only [insertBy]
    split
    · rename_i hxy
      rw [List.pairwise_cons]
      refine ⟨?_, List.pairwise_cons.mpr hs⟩
      intro z hz
      rcases List.mem_cons.mp hz with rfl | hz
      · exact hxy
      · exact trans x y z hx hy (hys z hz) hxy (hs.1 z hz)
    · rename_i hxy
      have hyx : le y x = true := by
        rcases total x y hx hy with h | h
        · exact absurd h hxy
        · exact h
      rw [List.pairwise_cons]
      refine ⟨?_, ih hys hs.2⟩
      intro z hz
      rcases mem_insertBy.mp hz with rfl | hz
      · exact hyx
      · exact hs.1 z hz

theorem sortBy_sorted (le : α → α → Bool) (P : α → Prop)
    (total : ∀ a b, P a → P b → le a b = true ∨ le b a = true)
    (trans : ∀ a b c, P a → P b → P c → le a b = true → le b c = true → le a c = true)
    (l : List α) (hl : ∀ y ∈ l, P y) :
    (sortBy le l).Pairwise (fun a b => le a b = true) := by
  induction l with
  | nil => simp [sortBy]
  | cons x xs ih =>
    simp only [sortBy]
    apply insertBy_sorted le P total trans
    · exact hl x (by simp)
    · intro y hy; exact hl y (by simp [mem_sortBy.mp hy])
    · exact ih (fun y hy => hl y (by simp [hy]))

/-- Stability: elements that compare equal (`le` both ways) keep their relative order.
Stated through `filter`: the sub-list of elements satisfying any predicate `q` that is
"le-closed upwards against x" is unchanged — we use the simpler classical form below. -/
theorem insertBy_filter (le : α → α → Bool) (q : α → Bool) (x : α) (l : List α)
    (hq : ∀ y ∈ l, q y = true → q x = true → le x y = true) :
    (insertBy le x l).filter q = (x :: l).filter q := by
  induction l with
  | nil => simp [insertBy]
  | cons y ys ih =>
    simp only [insertBy]
    split
    · rfl
    · rename_i hxy
      have ih' := ih (fun z hz => hq z (by simp [hz]))
      by_cases hqx : q x = true
      · by_cases hqy : q y = true
        · exact absurd (hq y (by simp) hqy hqx) hxy
        · simp [hqy, ih', hqx]
      · simp [List.filter_cons, ih', hqx]

end Norm
