/- Reading equivalence and the numeric matchers: they look at raw characters, but only through classes of
characters that have no alternative spelling, so two texts that read the same give the same match. -/
import NormModel.Proofs.RespellLoops
namespace Norm
open Spec

theorem plain_of_nonascii {c : Char} (h : ¬ c.val < 128) : Plain c := by
  have k : ∀ x ∈ altTargets ++ ['?', '<', '%', ':'], x.val < 128 := by decide
  refine ⟨fun hm => h (k c (by simp [hm])), ?_, ?_, ?_, ?_⟩ <;> (intro e; apply h; subst e; decide)

theorem isW_plain (u : Uni) : ∀ c, u.isW c = true → Plain c := by
  intro c hc
  by_cases h128 : c.val < 128
  · unfold Uni.isW at hc
    simp only [h128, ↓reduceIte, Bool.or_eq_true, beq_iff_eq] at hc
    apply idChar_plain
    unfold isIdChar
    rcases hc with (h | h) | h
    · simp [h]
    · simp [h]
    · simp [h]
  · exact plain_of_nonascii h128

theorem isD_isW (u : Uni) (c : Char) (h : u.isD c = true) : u.isW c = true := by
  unfold Uni.isD at h
  unfold Uni.isW
  by_cases h128 : c.val < 128
  · simp only [h128, ↓reduceIte] at h ⊢; simp [h]
  · simp only [h128, ↓reduceIte] at h ⊢; simp [h]

theorem isH_isW (u : Uni) (c : Char) (h : u.isH c = true) : u.isW c = true := by
  unfold Uni.isH at h
  simp only [Bool.or_eq_true, List.contains_eq_mem, decide_eq_true_eq] at h
  rcases h with h | h
  · exact isD_isW u c h
  · have k : ∀ x ∈ hexLetters, x.val < 128 ∧ isAsciiLetter x = true := by decide
    obtain ⟨k1, k2⟩ := k c h
    unfold Uni.isW; simp [k1, k2]

theorem isD_plain (u : Uni) : ∀ c, u.isD c = true → Plain c := fun c h => isW_plain u c (isD_isW u c h)
theorem isH_plain (u : Uni) : ∀ c, u.isH c = true → Plain c := fun c h => isW_plain u c (isH_isW u c h)

theorem plain_or {p q : Char → Bool} (hp : ∀ c, p c = true → Plain c) (hq : ∀ c, q c = true → Plain c) :
    ∀ c, (p c || q c) = true → Plain c := by
  intro c h
  simp only [Bool.or_eq_true] at h
  rcases h with h | h
  · exact hp c h
  · exact hq c h

theorem plain_eq (k : Char) (hk : Plain k) : ∀ c, (c == k) = true → Plain c := by
  intro c h; have : c = k := by simpa using h
  subst this; exact hk

theorem sign_plain : ∀ c, (c == '+' || c == '-') = true → Plain c :=
  plain_or (plain_eq '+' (by decide)) (plain_eq '-' (by decide))

/-- case analysis on the head through a plain class -/
theorem head_cases (q : Char → Bool) (hq : ∀ c, q c = true → Plain c) {a b : List Char} (h : ReadEq a b) :
    (∃ c a' b', a = c :: a' ∧ b = c :: b' ∧ q c = true ∧ ReadEq a' b') ∨
    ((∀ c a', a = c :: a' → q c = false) ∧ (∀ c b', b = c :: b' → q c = false)) := by
  cases a with
  | nil =>
    rw [h.nil_left]
    exact Or.inr ⟨(by intro c a' e; cases e), (by intro c b' e; cases e)⟩
  | cons x a' =>
    by_cases hx : q x = true
    · obtain ⟨b', rfl, h1⟩ := h.head_plain (hq x hx)
      exact Or.inl ⟨x, a', b', rfl, rfl, hx, h1⟩
    · right
      refine ⟨by intro c a'' e; simp only [List.cons.injEq] at e; rw [← e.1]; simpa using hx, ?_⟩
      intro c b' e
      subst e
      cases hc : q c with
      | false => rfl
      | true =>
        obtain ⟨a'', e, _⟩ := h.symm.head_plain (hq c hc)
        simp only [List.cons.injEq] at e
        rw [e.1] at hx; exact absurd hc hx

/-! ### integer constants -/

theorem intSuffix_readEq (u : Uni) (lc : Option Char) {a b : List Char} (h : ReadEq a b) :
    intSuffix u lc a = intSuffix u lc b := by
  unfold intSuffix
  split
  · exact (takeWhile_readEq _ (plain_or (plain_or (plain_or (isW_plain u) (plain_eq '+' (by decide))) (plain_eq '-' (by decide))) (plain_eq '.' (by decide))) h).1
  · rcases head_cases u.isW (isW_plain u) h with ⟨c, a', b', rfl, rfl, hc, h1⟩ | ⟨na, nb⟩
    · simp only [hc, ↓reduceIte]
      rw [(takeWhile_readEq _ (plain_or (isW_plain u) (plain_eq '.' (by decide))) h1).1]
    · cases a with
      | nil => rw [h.nil_left]
      | cons x a' =>
        cases b with
        | nil => have := h.nil_right; cases this
        | cons y b' => simp [na x a' rfl, nb y b' rfl]

theorem intFin_readEq (u : Uni) (pre const : List Char) {a b : List Char} (h : ReadEq a b) :
    intFin u pre const a = intFin u pre const b := by
  unfold intFin; rw [intSuffix_readEq u _ h]

theorem isXc_plain : ∀ c, isXc c = true → Plain c := plain_or (plain_eq 'x' (by decide)) (plain_eq 'X' (by decide))
theorem isBc_plain : ∀ c, isBc c = true → Plain c := plain_or (plain_eq 'b' (by decide)) (plain_eq 'B' (by decide))

theorem intAltX_readEq (u : Uni) {a b : List Char} (h : ReadEq a b) : intAltX u a = intAltX u b := by
  unfold intAltX
  obtain ⟨t1, d1⟩ := takeWhile_readEq isXc isXc_plain h
  obtain ⟨t2, d2⟩ := takeWhile_readEq u.isH (isH_plain u) d1
  obtain ⟨t3, d3⟩ := takeWhile_readEq u.isD (isD_plain u) d1
  rw [t1, t2, t3]
  split
  · rfl
  · exact intFin_readEq u _ _ d2
  · exact intFin_readEq u _ _ d3

theorem intAltB_readEq (u : Uni) {a b : List Char} (h : ReadEq a b) : intAltB u a = intAltB u b := by
  unfold intAltB
  obtain ⟨t1, d1⟩ := takeWhile_readEq isBc isBc_plain h
  obtain ⟨t3, d3⟩ := takeWhile_readEq u.isD (isD_plain u) d1
  rw [t1, t3]
  split
  · rfl
  · exact intFin_readEq u _ _ d3

theorem matchInt_readEq (u : Uni) {a b : List Char} (h : ReadEq a b) : matchInt u a = matchInt u b := by
  obtain ⟨t0, d0⟩ := takeWhile_readEq u.isD (isD_plain u) h
  rcases head_cases (· == '0') (plain_eq '0' (by decide)) h with ⟨c, a', b', rfl, rfl, hc, h1⟩ | ⟨na, nb⟩
  · have : c = '0' := by simpa using hc
    subst this
    obtain ⟨t1, d1⟩ := takeWhile_readEq u.isD (isD_plain u) h1
    unfold matchInt
    simp only
    rw [intAltX_readEq u h1, intAltB_readEq u h1, t1, intFin_readEq u _ _ d1, t0, intFin_readEq u _ _ d0]
  · cases a with
    | nil => rw [h.nil_left]
    | cons x a' =>
      cases b with
      | nil => have := h.nil_right; cases this
      | cons y b' =>
        have hx : x ≠ '0' := by have := na x a' rfl; simpa using this
        have hy : y ≠ '0' := by have := nb y b' rfl; simpa using this
        unfold matchInt
        split
        · rename_i heq; cases heq
        · rename_i tl heq; simp only [List.cons.injEq] at heq; exact absurd heq.1 hx
        · first
            | rw [t0, intFin_readEq u _ _ d0]
            | (split
               · rename_i heq; cases heq
               · rename_i tl heq; simp only [List.cons.injEq] at heq; exact absurd heq.1 hy
               · rw [t0, intFin_readEq u _ _ d0])

theorem length_dropWhile_le' (p : Char → Bool) (l : List Char) : (l.dropWhile p).length ≤ l.length := by
  induction l with
  | nil => simp
  | cons x l ih =>
    by_cases hx : p x = true
    · simp only [List.dropWhile_cons, hx, ↓reduceIte, List.length_cons]; omega
    · simp [List.dropWhile_cons, hx]

/-! ### floating constants -/

/-- a tail function that measures a run of plain characters -/
def TailOK (tail : List Char → Nat) : Prop :=
  ∃ q : Char → Bool, (∀ c, q c = true → Plain c) ∧ ∀ l, tail l = (l.takeWhile q).length

theorem tailDec_ok (u : Uni) : TailOK (tailDec u) :=
  ⟨fun c => c == '.' || u.isD c, plain_or (plain_eq '.' (by decide)) (isD_plain u), fun _ => rfl⟩

theorem tailHex_ok (u : Uni) : TailOK (tailHex u) :=
  ⟨fun c => c == '.' || u.isH c, plain_or (plain_eq '.' (by decide)) (isH_plain u), fun _ => rfl⟩

/-- a prefix of the text made of plain characters -/
def PlainPrefix (e l : List Char) : Prop := e <+: l ∧ ∀ c ∈ e, Plain c

theorem PlainPrefix.drop_readEq {e a b : List Char} (hp : PlainPrefix e a) (h : ReadEq a b) :
    ReadEq (a.drop e.length) (b.drop e.length) := by
  obtain ⟨⟨a', rfl⟩, hpl⟩ := hp
  obtain ⟨b', rfl, h1⟩ := h.prefix_plain hpl
  simpa using h1

theorem mem_takeWhile_plain {q : Char → Bool} (hq : ∀ c, q c = true → Plain c) {l : List Char} :
    ∀ c ∈ l.takeWhile q, Plain c := fun c hc => hq c (mem_takeWhile_pred hc)

theorem expIter_spec (isL : Char → Bool) (hL : ∀ c, isL c = true → Plain c) (tail : List Char → Nat) (ht : TailOK tail)
    (fuel : Nat) (l : List Char) : PlainPrefix (expIter isL tail fuel l) l := by
  obtain ⟨q, hq, hqt⟩ := ht
  induction fuel generalizing l with
  | zero => exact ⟨List.nil_prefix, by simp [expIter]⟩
  | succ fuel ih =>
    unfold expIter
    cases l with
    | nil => exact ⟨List.nil_prefix, by simp⟩
    | cons c tl =>
      simp only
      by_cases hc : isL c = true
      · simp only [hc, ↓reduceIte]
        -- the optional sign
        have key : ∀ (sign tl1 : List Char), tl = sign ++ tl1 → (∀ x ∈ sign, Plain x) →
            PlainPrefix (c :: sign ++ tl1.take (tail tl1) ++ expIter isL tail fuel (tl1.drop (tail tl1))) (c :: tl) := by
          intro sign tl1 e hs
          obtain ⟨⟨r, hr⟩, hpl⟩ := ih (tl1.drop (tail tl1))
          refine ⟨⟨r, ?_⟩, ?_⟩
          · rw [e]
            have : tl1 = tl1.take (tail tl1) ++ tl1.drop (tail tl1) := (List.take_append_drop _ _).symm
            conv => rhs; rw [this, ← hr]
            simp [List.append_assoc]
          · intro x hx
            simp only [List.cons_append, List.mem_cons, List.mem_append] at hx
            rcases hx with rfl | (hx | hx) | hx
            · exact hL x hc
            · exact hs x hx
            · rw [hqt, take_takeWhile_length] at hx
              exact mem_takeWhile_plain hq x hx
            · exact hpl x hx
        cases tl with
        | nil => exact key [] [] rfl (by simp)
        | cons s r =>
          simp only
          by_cases hsg : (s == '+' || s == '-') = true
          · simp only [hsg, ↓reduceIte]
            exact key [s] r rfl (by intro x hx; simp only [List.mem_singleton] at hx; subst hx; exact sign_plain x hsg)
          · simp only [hsg, Bool.false_eq_true, ↓reduceIte]
            exact key [] (s :: r) rfl (by simp)
      · simp only [hc, Bool.false_eq_true, ↓reduceIte]
        exact ⟨List.nil_prefix, by simp⟩

theorem expIter_readEq (isL : Char → Bool) (hL : ∀ c, isL c = true → Plain c) (tail : List Char → Nat) (ht : TailOK tail)
    (fa : Nat) : ∀ (fb : Nat) (a b : List Char), a.length < fa → b.length < fb → ReadEq a b →
    expIter isL tail fa a = expIter isL tail fb b := by
  obtain ⟨q, hq, hqt⟩ := ht
  induction fa with
  | zero => intro fb a b h; omega
  | succ fa ih =>
    intro fb a b hfa hfb h
    cases fb with
    | zero => omega
    | succ fb =>
      rcases head_cases isL hL h with ⟨c, a', b', rfl, rfl, hc, h1⟩ | ⟨na, nb⟩
      · unfold expIter
        simp only [hc, ↓reduceIte]
        have key : ∀ (sign ta tb : List Char), ReadEq ta tb → ta.length ≤ a'.length → tb.length ≤ b'.length →
            c :: sign ++ ta.take (tail ta) ++ expIter isL tail fa (ta.drop (tail ta)) =
            c :: sign ++ tb.take (tail tb) ++ expIter isL tail fb (tb.drop (tail tb)) := by
          intro sign ta tb hr la lb
          obtain ⟨t1, d1⟩ := takeWhile_readEq q hq hr
          rw [hqt ta, hqt tb, take_takeWhile_length, take_takeWhile_length, drop_takeWhile_length, drop_takeWhile_length, t1]
          congr 1
          apply ih
          · have := length_dropWhile_le' q ta; simp only [List.length_cons] at hfa; omega
          · have := length_dropWhile_le' q tb; simp only [List.length_cons] at hfb; omega
          · exact d1
        rcases head_cases (fun s => s == '+' || s == '-') sign_plain h1 with ⟨s, ra, rb, rfl, rfl, hs, h2⟩ | ⟨ma, mb⟩
        · simp only [hs, ↓reduceIte]
          exact key [s] ra rb h2 (by simp) (by simp)
        · cases a' with
          | nil =>
            have := h1.nil_left; subst this
            exact key [] [] [] ReadEq.nil (by simp) (by simp)
          | cons x xa =>
            cases b' with
            | nil => have := h1.nil_right; cases this
            | cons y yb =>
              simp only [ma x xa rfl, mb y yb rfl, Bool.false_eq_true, ↓reduceIte]
              exact key [] (x :: xa) (y :: yb) h1 (by simp) (by simp)
      · unfold expIter
        cases a with
        | nil => rw [h.nil_left]
        | cons x a' =>
          cases b with
          | nil => have := h.nil_right; cases this
          | cons y b' => simp [na x a' rfl, nb y b' rfl]

theorem matchExp_spec (isL isD : Char → Bool) (hL : ∀ c, isL c = true → Plain c) (hD : ∀ c, isD c = true → Plain c)
    (tail : List Char → Nat) (ht : TailOK tail) (l : List Char) : PlainPrefix (matchExp isL isD tail l) l := by
  unfold matchExp spanP
  simp only
  by_cases hls : (l.takeWhile isL).isEmpty = true
  · simp only [hls, ↓reduceIte]; exact ⟨List.nil_prefix, by simp⟩
  · simp only [hls, Bool.false_eq_true, ↓reduceIte]
    have hl : l = l.takeWhile isL ++ l.dropWhile isL := (List.takeWhile_append_dropWhile).symm
    have plain_ls : ∀ c ∈ l.takeWhile isL, Plain c := mem_takeWhile_plain hL
    -- the fall-back alternatives
    have fallback : PlainPrefix (if (!((l.dropWhile isL).takeWhile isD).isEmpty) = true then l.takeWhile isL ++ (l.dropWhile isL).takeWhile isD
        else expIter isL tail (l.length + 1) l) l := by
      split
      · refine ⟨⟨(l.dropWhile isL).dropWhile isD, ?_⟩, ?_⟩
        · conv => rhs; rw [hl]
          rw [List.append_assoc, List.takeWhile_append_dropWhile]
        · intro c hc
          rcases List.mem_append.mp hc with h | h
          · exact plain_ls c h
          · exact mem_takeWhile_plain hD c h
      · exact expIter_spec isL hL tail ht _ l
    cases hafter : l.dropWhile isL with
    | nil => simp only; rw [hafter] at fallback; exact fallback
    | cons s r =>
      simp only
      by_cases hsg : (s == '+' || s == '-') = true
      · simp only [hsg, ↓reduceIte]
        by_cases hds : (r.takeWhile isD).isEmpty = true
        · simp only [hds, ↓reduceIte]; rw [hafter] at fallback; exact fallback
        · simp only [hds, Bool.false_eq_true, ↓reduceIte]
          refine ⟨⟨r.dropWhile isD, ?_⟩, ?_⟩
          · conv => rhs; rw [hl, hafter]
            simp [List.append_assoc, List.takeWhile_append_dropWhile]
          · intro c hc
            simp only [List.append_assoc, List.cons_append, List.nil_append, List.mem_append, List.mem_cons] at hc
            rcases hc with h | rfl | h
            · exact plain_ls c h
            · exact sign_plain c hsg
            · exact mem_takeWhile_plain hD c h
      · simp only [hsg, Bool.false_eq_true, ↓reduceIte]; rw [hafter] at fallback; exact fallback

theorem matchExp_readEq (isL isD : Char → Bool) (hL : ∀ c, isL c = true → Plain c) (hD : ∀ c, isD c = true → Plain c)
    (tail : List Char → Nat) (ht : TailOK tail) {a b : List Char} (h : ReadEq a b) :
    matchExp isL isD tail a = matchExp isL isD tail b := by
  unfold matchExp spanP
  simp only
  obtain ⟨t1, d1⟩ := takeWhile_readEq isL hL h
  obtain ⟨t2, d2⟩ := takeWhile_readEq isD hD d1
  rw [t1]
  by_cases hls : (b.takeWhile isL).isEmpty = true
  · simp only [hls, ↓reduceIte]
  · simp only [hls, Bool.false_eq_true, ↓reduceIte]
    have hexp := expIter_readEq isL hL tail ht (a.length + 1) (b.length + 1) a b (by omega) (by omega) h
    rcases head_cases (fun s => s == '+' || s == '-') sign_plain d1 with ⟨s, ra, rb, ea, eb, hs, h2⟩ | ⟨ma, mb⟩
    · rw [ea, eb]
      simp only [hs, ↓reduceIte]
      obtain ⟨t3, _⟩ := takeWhile_readEq isD hD h2
      rw [t3]
      by_cases hds : (rb.takeWhile isD).isEmpty = true
      · simp only [hds, ↓reduceIte]
        rw [ea, eb] at t2
        rw [t2, hexp]
      · simp only [hds, Bool.false_eq_true, ↓reduceIte]
    · rw [t2, hexp]
      cases ha : a.dropWhile isL with
      | nil =>
        rw [ha] at d1
        rw [d1.nil_left]
      | cons x xa =>
        cases hb : b.dropWhile isL with
        | nil => rw [ha, hb] at d1; have := d1.nil_right; cases this
        | cons y yb =>
          simp only [ma x xa ha, mb y yb hb, Bool.false_eq_true, ↓reduceIte]

theorem floatSuffix_readEq (u : Uni) {a b : List Char} (h : ReadEq a b) : floatSuffix u a = floatSuffix u b :=
  (takeWhile_readEq _ (plain_or (isW_plain u) (plain_eq '.' (by decide))) h).1

theorem isE_plain : ∀ c, isE c = true → Plain c := plain_or (plain_eq 'e' (by decide)) (plain_eq 'E' (by decide))
theorem isP_plain : ∀ c, isP c = true → Plain c := plain_or (plain_eq 'p' (by decide)) (plain_eq 'P' (by decide))

/-- exponent and suffix after the constant: the same in both texts -/
theorem exp_suffix_readEq (u : Uni) (isL isD : Char → Bool) (hL : ∀ c, isL c = true → Plain c) (hD : ∀ c, isD c = true → Plain c)
    (tail : List Char → Nat) (ht : TailOK tail) {a b : List Char} (h : ReadEq a b) :
    matchExp isL isD tail a = matchExp isL isD tail b ∧
    floatSuffix u (a.drop (matchExp isL isD tail a).length) = floatSuffix u (b.drop (matchExp isL isD tail b).length) := by
  have e := matchExp_readEq isL isD hL hD tail ht h
  refine ⟨e, ?_⟩
  have hp := matchExp_spec isL isD hL hD tail ht a
  rw [← e]
  exact floatSuffix_readEq u (hp.drop_readEq h)

theorem matchFloatExp_readEq (u : Uni) {a b : List Char} (h : ReadEq a b) : matchFloatExp u a = matchFloatExp u b := by
  unfold matchFloatExp spanP
  simp only
  obtain ⟨t1, d1⟩ := takeWhile_readEq u.isD (isD_plain u) h
  obtain ⟨e1, e2⟩ := exp_suffix_readEq u isE u.isD isE_plain (isD_plain u) (tailDec u) (tailDec_ok u) d1
  rw [e1] at e2
  rw [t1, e1, e2]

/-- the constant of the fractional pattern, and the text after it -/
def fracConst (u : Uni) (ds after : List Char) : Option (List Char × List Char) :=
  match after with
  | '.' :: r =>
    let fs := r.takeWhile u.isD
    if !fs.isEmpty then some (ds ++ '.' :: fs, r.drop fs.length)
    else if !ds.isEmpty then some (ds ++ ['.'], r)
    else none
  | _ => none

theorem matchFloatFrac_eq (u : Uni) (src : List Char) : matchFloatFrac u src =
    (match fracConst u (src.takeWhile u.isD) (src.dropWhile u.isD) with
    | none => none
    | some (c, rest) =>
      some ⟨.fractional, c, matchExp isE u.isD (tailDec u) rest,
        floatSuffix u (rest.drop (matchExp isE u.isD (tailDec u) rest).length)⟩) := by
  rfl

/-- two optional (text, rest) results: the same text, rests that read the same -/
def PartSim : Option (List Char × List Char) → Option (List Char × List Char) → Prop
  | none, none => True
  | some (c, ra), some (c', rb) => c = c' ∧ ReadEq ra rb
  | _, _ => False

theorem fracConst_readEq (u : Uni) (ds : List Char) {a b : List Char} (h : ReadEq a b) :
    PartSim (fracConst u ds a) (fracConst u ds b) := by
  rcases head_cases (· == '.') (plain_eq '.' (by decide)) h with ⟨c, ra, rb, rfl, rfl, hc, h1⟩ | ⟨na, nb⟩
  · have : c = '.' := by simpa using hc
    subst this
    unfold fracConst
    simp only
    obtain ⟨t1, d1⟩ := takeWhile_readEq u.isD (isD_plain u) h1
    rw [t1, drop_takeWhile_length, ← t1, drop_takeWhile_length]
    by_cases hf : (!(ra.takeWhile u.isD).isEmpty) = true
    · simp only [hf, ↓reduceIte]; exact ⟨rfl, d1⟩
    · simp only [hf, Bool.false_eq_true, ↓reduceIte]
      by_cases hd : (!ds.isEmpty) = true
      · simp only [hd, ↓reduceIte]; exact ⟨rfl, h1⟩
      · simp only [hd, Bool.false_eq_true, ↓reduceIte]; trivial
  · have ha : fracConst u ds a = none := by
      unfold fracConst
      split
      · rename_i r; have := na '.' r rfl; simp at this
      · rfl
    have hb : fracConst u ds b = none := by
      unfold fracConst
      split
      · rename_i r; have := nb '.' r rfl; simp at this
      · rfl
    rw [ha, hb]; trivial

theorem matchFloatFrac_readEq (u : Uni) {a b : List Char} (h : ReadEq a b) : matchFloatFrac u a = matchFloatFrac u b := by
  rw [matchFloatFrac_eq, matchFloatFrac_eq]
  obtain ⟨t1, d1⟩ := takeWhile_readEq u.isD (isD_plain u) h
  have hs := fracConst_readEq u (b.takeWhile u.isD) d1
  rw [t1]
  cases ha : fracConst u (b.takeWhile u.isD) (a.dropWhile u.isD) with
  | none =>
    cases hb : fracConst u (b.takeWhile u.isD) (b.dropWhile u.isD) with
    | none => rfl
    | some q => rw [ha, hb] at hs; exact hs.elim
  | some p =>
    cases hb : fracConst u (b.takeWhile u.isD) (b.dropWhile u.isD) with
    | none => rw [ha, hb] at hs; exact hs.elim
    | some q =>
      rw [ha, hb] at hs
      obtain ⟨c, ra⟩ := p
      obtain ⟨c', rb⟩ := q
      obtain ⟨rfl, hr⟩ := hs
      obtain ⟨e1, e2⟩ := exp_suffix_readEq u isE u.isD isE_plain (isD_plain u) (tailDec u) (tailDec_ok u) hr
      simp only
      rw [e1] at e2
      rw [e1, e2]

theorem hexMantissa_readEq (u : Uni) {a b : List Char} (h : ReadEq a b) :
    PartSim (hexMantissa u a) (hexMantissa u b) := by
  obtain ⟨t1, d1⟩ := takeWhile_readEq u.isH (isH_plain u) h
  unfold hexMantissa
  rw [t1]
  cases hhs : b.takeWhile u.isH with
  | nil =>
    simp only
    rcases head_cases (· == '.') (plain_eq '.' (by decide)) h with ⟨c, ra, rb, rfl, rfl, hc, h1⟩ | ⟨na, nb⟩
    · have : c = '.' := by simpa using hc
      subst this
      simp only
      obtain ⟨t2, d2⟩ := takeWhile_readEq u.isH (isH_plain u) h1
      rw [t2]
      cases hfs : rb.takeWhile u.isH with
      | nil => trivial
      | cons f fs =>
        simp only
        refine ⟨rfl, ?_⟩
        have e1 : ra.drop (f :: fs).length = ra.dropWhile u.isH := by rw [← hfs, ← t2, drop_takeWhile_length]
        have e2 : rb.drop (f :: fs).length = rb.dropWhile u.isH := by rw [← hfs, drop_takeWhile_length]
        rw [e1, e2]; exact d2
    · split
      · rename_i r; have := na '.' r rfl; simp at this
      · split
        · rename_i r; have := nb '.' r rfl; simp at this
        · trivial
  | cons x xs =>
    simp only
    rcases head_cases (· == '.') (plain_eq '.' (by decide)) d1 with ⟨c, ra, rb, ea, eb, hc, h1⟩ | ⟨na, nb⟩
    · have : c = '.' := by simpa using hc
      subst this
      rw [ea, eb]
      simp only
      obtain ⟨t2, d2⟩ := takeWhile_readEq u.isH (isH_plain u) h1
      exact ⟨by rw [t2], d2⟩
    · split
      · rename_i r heq; have := na '.' r heq; simp at this
      · split
        · rename_i r heq; have := nb '.' r heq; simp at this
        · exact ⟨rfl, d1⟩

theorem isx_plain : ∀ c, (c == 'x' || c == 'X') = true → Plain c := plain_or (plain_eq 'x' (by decide)) (plain_eq 'X' (by decide))

theorem matchFloatHex_readEq (u : Uni) {a b : List Char} (h : ReadEq a b) : matchFloatHex u a = matchFloatHex u b := by
  rcases head_cases (· == '0') (plain_eq '0' (by decide)) h with ⟨c, ta, tb, rfl, rfl, hc, h1⟩ | ⟨na, nb⟩
  · have : c = '0' := by simpa using hc
    subst this
    unfold matchFloatHex
    simp only
    obtain ⟨t1, d1⟩ := takeWhile_readEq (fun c => c == 'x' || c == 'X') isx_plain h1
    rw [t1]
    cases hxs : tb.takeWhile (fun c => c == 'x' || c == 'X') with
    | nil => rfl
    | cons x xs =>
      simp only
      have hm := hexMantissa_readEq u d1
      cases ha : hexMantissa u (ta.dropWhile (fun c => c == 'x' || c == 'X')) with
      | none =>
        cases hb : hexMantissa u (tb.dropWhile (fun c => c == 'x' || c == 'X')) with
        | none => rfl
        | some q => rw [ha, hb] at hm; exact hm.elim
      | some p =>
        cases hb : hexMantissa u (tb.dropWhile (fun c => c == 'x' || c == 'X')) with
        | none => rw [ha, hb] at hm; exact hm.elim
        | some q =>
          rw [ha, hb] at hm
          obtain ⟨m, ra⟩ := p
          obtain ⟨m', rb⟩ := q
          obtain ⟨rfl, hr⟩ := hm
          obtain ⟨e1, e2⟩ := exp_suffix_readEq u isP u.isH isP_plain (isH_plain u) (tailHex u) (tailHex_ok u) hr
          simp only
          rw [e1] at e2
          rw [e1, e2]
  · have ha : matchFloatHex u a = none := by
      unfold matchFloatHex
      split
      · rename_i tl; have := na '0' tl rfl; simp at this
      · rfl
    have hb : matchFloatHex u b = none := by
      unfold matchFloatHex
      split
      · rename_i tl; have := nb '0' tl rfl; simp at this
      · rfl
    rw [ha, hb]

/-- which of the three patterns matched, and what -/
def floatSel (u : Uni) (src : List Char) : Option FloatMatch :=
  match matchFloatExp u src with
  | some m => some m
  | none => match matchFloatFrac u src with
    | some m => some m
    | none => matchFloatHex u src

theorem floatSel_readEq (u : Uni) {a b : List Char} (h : ReadEq a b) : floatSel u a = floatSel u b := by
  unfold floatSel
  rw [matchFloatExp_readEq u h, matchFloatFrac_readEq u h, matchFloatHex_readEq u h]

/-- the match of `parse_float_literal`, without the diagnostic (whose position differs) -/
def floatKey : FloatRes → Option FloatMatch
  | .noMatch => none
  | .tok m _ => some m

/-- `floatLogic` after the three patterns were tried -/
def floatLogicOf (u : Uni) (line col : Nat) (m? : Option FloatMatch) : FloatRes :=
  match m? with
  | none => .noMatch
  | some m =>
    let suffix := m.suf.length
    let column := col + m.const.length
    let badhex := stripChars (Generated.hexadecimalDigits.toList ++ ['.']) m.const
    if m.kind != .hexadecimal && !m.exp.isEmpty && !goodExponent u m.exp then
      .tok m (some (mkDiag "BAD_EXPONENT" .error [⟨line, column, some (m.exp.length + suffix), none⟩]))
    else if m.kind == .hexadecimal && !m.const.contains '.' && m.exp.isEmpty then .noMatch
    else if m.kind == .hexadecimal && !(badhex == ['x'] || badhex == ['X']) then
      .tok m (some (mkDiag "MULTIPLE_X" .error [⟨line, column - m.const.length + 1, some badhex.length, none⟩]))
    else if m.kind == .hexadecimal && !m.exp.isEmpty && !goodBinExponent u m.exp then
      .tok m (some (mkDiag "BAD_EXPONENT" .error [⟨line, column, some (m.exp.length + suffix), none⟩]))
    else if m.const.count '.' == 1 && m.suf.count '.' > 0 then
      .tok m (some (mkDiag "MULTIPLE_DOTS" .error [⟨line, column, some (m.exp.length + suffix), none⟩]))
    else if !Generated.floatSuffixes.contains (String.ofList m.suf) then
      .tok m (some (mkDiag "BAD_FLOAT_SUFFIX" .error [⟨line, column + m.exp.length, some suffix, none⟩]))
    else .tok m none

theorem floatLogic_of (u : Uni) (line col : Nat) (src : List Char) :
    floatLogic u line col src = floatLogicOf u line col (floatSel u src) := rfl

theorem floatKey_eq (u : Uni) (line col : Nat) (src : List Char) :
    floatKey (floatLogic u line col src) =
      (match floatSel u src with
       | none => none
       | some m =>
         if m.kind != .hexadecimal && !m.exp.isEmpty && !goodExponent u m.exp then some m
         else if m.kind == .hexadecimal && !m.const.contains '.' && m.exp.isEmpty then none
         else some m) := by
  rw [floatLogic_of]
  cases floatSel u src with
  | none => rfl
  | some m =>
    unfold floatLogicOf
    simp only
    by_cases c1 : (m.kind != .hexadecimal && !m.exp.isEmpty && !goodExponent u m.exp) = true
    · simp only [c1, ↓reduceIte]; rfl
    · simp only [c1, Bool.false_eq_true, ↓reduceIte]
      by_cases c2 : (m.kind == .hexadecimal && !m.const.contains '.' && m.exp.isEmpty) = true
      · simp only [c2, ↓reduceIte]; rfl
      · simp only [c2, Bool.false_eq_true, ↓reduceIte]
        split <;> (first | rfl | (split <;> (first | rfl | (split <;> (first | rfl | (split <;> rfl))))))

theorem floatKey_readEq (u : Uni) (la ca lb cb : Nat) {a b : List Char} (h : ReadEq a b) :
    floatKey (floatLogic u la ca a) = floatKey (floatLogic u lb cb b) := by
  rw [floatKey_eq, floatKey_eq, floatSel_readEq u h]

end Norm
