/- Character and string constants: the sub-lexer chain on well-formed literals. -/
import NormModel.Proofs.Opaque
import NormModel.Proofs.LexShift
namespace Norm
open Spec

/-- a text that starts with neither a digit nor a dot is no numeric literal -/
theorem numeric_fail (u : Uni) (s : LexSt) (c0 : Char) (tl : List Char) (hr : s.rest = c0 :: tl)
    (hd : u.isD c0 = false) (hdot : c0 ≠ '.') : parseFloat u s = none ∧ parseInt u s = none := by
  have h0 : c0 ≠ '0' := by
    intro e; subst e
    have : u.isD '0' = true := by
      unfold Uni.isD
      have h128 : ('0' : Char).val < 128 := by decide
      simp only [h128, ↓reduceIte]
      decide
    rw [this] at hd; cases hd
  have htw : (c0 :: tl).takeWhile u.isD = [] := by simp [List.takeWhile, hd]
  have hdw : (c0 :: tl).dropWhile u.isD = c0 :: tl := by simp [List.dropWhile, hd]
  constructor
  · unfold parseFloat
    rw [hr]
    simp only
    have h1 : matchFloatExp u (c0 :: tl) = none := by
      unfold matchFloatExp spanP; simp [htw]
    have h2 : matchFloatFrac u (c0 :: tl) = none := by
      unfold matchFloatFrac spanP
      simp only [htw, hdw]
      split
      · rfl
      · rename_i c rest heq
        exfalso
        split at heq
        · rename_i r heq2
          simp only [List.cons.injEq] at heq2
          exact hdot heq2.1
        · cases heq
    have h3 : matchFloatHex u (c0 :: tl) = none := by
      unfold matchFloatHex
      split
      · rename_i tl' heq
        simp only [List.cons.injEq] at heq
        exact absurd heq.1 h0
      · rfl
    have : floatLogic u s.line s.col (c0 :: tl) = .noMatch := by
      unfold floatLogic; simp [h1, h2, h3]
    rw [this]
  · unfold parseInt
    rw [hr]
    have : matchInt u (c0 :: tl) = none := by
      unfold matchInt
      split
      · rename_i heq; cases heq
      · rename_i tl' heq
        simp only [List.cons.injEq] at heq
        exact absurd heq.1 h0
      · unfold intFin; simp [htw]
    rw [this]

theorem digraph_second : ∀ p ∈ Generated.digraphs, p.1.toList.getD 1 ' ' ≠ '\'' ∧ p.1.toList.getD 1 ' ' ≠ '"' := by decide

/-- a character directly followed by a quote is peeked as itself -/
theorem peek1_before_quote (c q : Char) (tl : List Char) (hq : q = '\'' ∨ q = '"') :
    peek1 (c :: q :: tl) 0 = some (c, 1) := by
  unfold peek1
  simp only [List.drop_zero]
  have ht : triAt (c :: q :: tl) = none := by
    unfold triAt
    split
    · rename_i c2 tl' heq
      simp only [List.cons.injEq] at heq
      rcases hq with rfl | rfl <;> (have := heq.2.1; cases this)
    · rfl
  have hd : diAt (c :: q :: tl) = none := by
    unfold diAt
    simp only
    cases ha : assoc Generated.digraphs (String.ofList [c, q]) with
    | none => rfl
    | some v =>
      exfalso
      have hm := digraph_second _ (assoc_mem ha)
      simp only [String.toList_ofList, List.getD_cons_succ, List.getD_cons_zero] at hm
      rcases hq with rfl | rfl
      · exact hm.1 rfl
      · exact hm.2 rfl
  simp [ht, hd]

/-- one `pop` on a character that `peek` sees as itself and that is no backslash, newline or tab -/
theorem popOne_peeked (us ue : Bool) (s : LexSt) (c : Char) (tl : List Char) (hr : s.rest = c :: tl)
    (hpk : peek1 s.rest 0 = some (c, 1)) (h5 : c ≠ '\\') (hn : c ≠ '\n') (ht : c ≠ '\t') :
    popOne us ue s = ({ s with rest := tl, pos := s.pos + 1, col := s.col + 1 }, some [c]) := by
  have hs : spliceLoop (s.rest.length + 1) s = (s, some (c, 1)) := by
    unfold spliceLoop
    simp only [hpk]
    have : (c != '\\') = true := by simp [h5]
    simp [this]
  unfold popOne
  rw [hs]
  simp only
  have he : escOf ue s c 1 = ([c], 1, [], 0) := by
    unfold escOf
    have : (c == '\\') = false := by simp [h5]
    simp [this]
  rw [he]
  unfold finishPop
  have e1 : ([c] == ['\n']) = false := by simp [hn]
  have e2 : ([c] == ['\t']) = false := by simp [ht]
  simp only [e1, e2, Bool.false_eq_true, ↓reduceIte, List.append_nil, advance, hr, List.drop_succ_cons, List.drop_zero]

end Norm

namespace Norm
open Spec

/-- encoding prefixes of character and string constants (C11 §6.4.4.4, §6.4.5) -/
def litPrefixes : List String := ["", "L", "u", "U", "u8"]

theorem isPrefixOf_cons_ne {a b : Char} {l r : List Char} (h : a ≠ b) : (a :: l).isPrefixOf (b :: r) = false := by
  simp [List.isPrefixOf, h]

/-- the prefix loop finds the prefix of a well-formed literal -/
theorem quotePrefix_lit (pre : String) (hp : pre ∈ litPrefixes) (q : Char) (hq : q = '\'' ∨ q = '"') (tl : List Char) :
    quotePrefix q (pre.toList ++ q :: tl) Generated.quotePrefixes = some pre.toList.length := by
  have hqne : q ≠ 'l' ∧ q ≠ 'L' ∧ q ≠ 'u' ∧ q ≠ 'U' ∧ q ≠ '8' := by rcases hq with rfl | rfl <;> decide
  simp only [litPrefixes, List.mem_cons, List.mem_nil_iff, or_false] at hp
  rcases hp with rfl | rfl | rfl | rfl | rfl
  · -- no prefix: every candidate fails on its first character
    show quotePrefix q (q :: tl) ["l", "L", "u", "U", "u8"] = some 0
    cases tl with
    | nil =>
      simp [quotePrefix, rawPeek, List.isPrefixOf, hqne.1.symm, hqne.2.1.symm, hqne.2.2.1.symm, hqne.2.2.2.1.symm]
    | cons x xs =>
      cases xs with
      | nil => simp [quotePrefix, rawPeek, List.isPrefixOf, hqne.1.symm, hqne.2.1.symm, hqne.2.2.1.symm, hqne.2.2.2.1.symm]
      | cons y ys => simp [quotePrefix, rawPeek, List.isPrefixOf, hqne.1.symm, hqne.2.1.symm, hqne.2.2.1.symm, hqne.2.2.2.1.symm]
  · show quotePrefix q ('L' :: q :: tl) ["l", "L", "u", "U", "u8"] = some 1
    simp [quotePrefix, rawPeek, List.isPrefixOf]
  · show quotePrefix q ('u' :: q :: tl) ["l", "L", "u", "U", "u8"] = some 1
    simp [quotePrefix, rawPeek, List.isPrefixOf]
  · show quotePrefix q ('U' :: q :: tl) ["l", "L", "u", "U", "u8"] = some 1
    simp [quotePrefix, rawPeek, List.isPrefixOf]
  · show quotePrefix q ('u' :: '8' :: q :: tl) ["l", "L", "u", "U", "u8"] = some 2
    simp [quotePrefix, rawPeek, List.isPrefixOf, hqne.2.2.2.2.symm]

end Norm

namespace Norm
open Spec

theorem litPrefix_facts (u : Uni) (pre : String) (hp : pre ∈ litPrefixes) (q : Char) (hq : q = '\'' ∨ q = '"') (tl : List Char) :
    (∀ c ∈ pre.toList, plainChar c) ∧
    ∃ c0 tl0, pre.toList ++ q :: tl = c0 :: tl0 ∧ u.isD c0 = false ∧ c0 ≠ '.' := by
  have nd : ∀ c : Char, c.val < 128 → isAsciiDigit c = false → u.isD c = false := by
    intro c h1 h2; unfold Uni.isD; simp [h1, h2]
  simp only [litPrefixes, List.mem_cons, List.mem_nil_iff, or_false] at hp
  rcases hp with rfl | rfl | rfl | rfl | rfl
  · refine ⟨(by intro c hc; cases hc), q, tl, rfl, ?_, ?_⟩
    · rcases hq with rfl | rfl <;> exact nd _ (by decide) (by decide)
    · rcases hq with rfl | rfl <;> decide
  · exact ⟨(by intro c hc; simp at hc; subst hc; unfold plainChar; decide), 'L', q :: tl, rfl, nd _ (by decide) (by decide), (by decide)⟩
  · exact ⟨(by intro c hc; simp at hc; subst hc; unfold plainChar; decide), 'u', q :: tl, rfl, nd _ (by decide) (by decide), (by decide)⟩
  · exact ⟨(by intro c hc; simp at hc; subst hc; unfold plainChar; decide), 'U', q :: tl, rfl, nd _ (by decide) (by decide), (by decide)⟩
  · refine ⟨?_, 'u', '8' :: q :: tl, rfl, nd _ (by decide) (by decide), by decide⟩
    intro c hc
    have : c = 'u' ∨ c = '8' := by simpa using hc
    rcases this with rfl | rfl <;> (unfold plainChar; decide)

/-- **A character constant `pre ' c '` becomes one CHAR_CONST token spanning exactly the constant,
with no lexical diagnostic** — every encoding prefix, every character other than the quote, the
backslash, newline and tab, at any position, whatever follows. -/
theorem char_valid (u : Uni) (pre : String) (hp : pre ∈ litPrefixes) (c : Char)
    (hc : c ≠ '\'' ∧ c ≠ '\\' ∧ c ≠ '\n' ∧ c ≠ '\t') (rest : List Char) (s : LexSt)
    (hr : s.rest = pre.toList ++ '\'' :: c :: '\'' :: rest) :
    ∃ s' t, trySubLexers u s = .ok (some (s', t)) ∧ t.type = "CHAR_CONST" ∧
      t.value = some (String.ofList (pre.toList ++ ['\'', c, '\''])) ∧ t.line = s.line ∧ t.col = s.col ∧
      s'.rest = rest ∧ s'.diags = s.diags := by
  obtain ⟨hplain, c0, tl0, h0, hd0, hdot0⟩ := litPrefix_facts u pre hp '\'' (Or.inl rfl) (c :: '\'' :: rest)
  obtain ⟨hf, hi⟩ := numeric_fail u s c0 tl0 (by rw [hr, h0]) hd0 hdot0
  -- the prefix
  obtain ⟨n1, n2, n3⟩ := popN_plain pre.toList ('\'' :: c :: '\'' :: rest) s hr hplain
  -- parseChar
  have hpc : ∃ s', parseChar s = some (s', mkTok "CHAR_CONST" s s' (some (pre.toList ++ ['\'', c, '\''])))
      ∧ s'.rest = rest ∧ s'.diags = s.diags := by
    rw [parseChar_eq, hr, quotePrefix_lit pre hp '\'' (Or.inl rfl)]
    simp only
    cases hpn : popN pre.toList.length s with
    | mk s1 r1 =>
      rw [hpn] at n1 n2 n3
      simp only at n1 n2 n3
      subst n1
      simp only
      have hrp : (rawPeek s1.rest != some ['\'']) = false := by rw [n2]; simp [rawPeek]
      simp only [hrp, Bool.false_eq_true, ↓reduceIte]
      have hq1 := popOne_peeked false false s1 '\'' (c :: '\'' :: rest) n2
        (by rw [n2]; exact peek1_raw (by decide) (by decide) (by decide) (by decide)) (by decide) (by decide) (by decide)
      rw [hq1]
      simp only
      -- the loop: the character, then the closing quote
      have hloop : charLoop s.line s.col ((c :: '\'' :: rest).length + 1)
          { s1 with rest := c :: '\'' :: rest, pos := s1.pos + 1, col := s1.col + 1 } (pre.toList ++ ['\'']) 0
          = ({ s1 with rest := rest, pos := s1.pos + 1 + 1 + 1, col := s1.col + 1 + 1 + 1 }, pre.toList ++ ['\''] ++ [c] ++ ['\''], 1) := by
        have hfuel : (c :: '\'' :: rest).length + 1 = (rest.length + 1) + 1 + 1 := by simp
        rw [hfuel]
        unfold charLoop
        have hq2 := popOne_peeked false true { s1 with rest := c :: '\'' :: rest, pos := s1.pos + 1, col := s1.col + 1 } c ('\'' :: rest) rfl
          (peek1_before_quote c '\'' rest (Or.inl rfl)) hc.2.1 hc.2.2.1 hc.2.2.2
        rw [hq2]
        have e1 : ([c] == ['\n']) = false := by simp [hc.2.2.1]
        have e2 : ([c] == ['\'']) = false := by simp [hc.1]
        simp only [e1, e2, Bool.false_eq_true, ↓reduceIte]
        unfold charLoop
        have hq3 := popOne_peeked false true
          { s1 with rest := '\'' :: rest, pos := s1.pos + 1 + 1, col := s1.col + 1 + 1 } '\'' rest rfl
          (peek1_raw (by decide) (by decide) (by decide) (by decide)) (by decide) (by decide) (by decide)
        rw [hq3]
        simp only [show (['\''] == ['\n']) = false by decide, show (['\''] == ['\'']) = true by decide,
          Bool.false_eq_true, ↓reduceIte]
      rw [hloop]
      refine ⟨{ s1 with rest := rest, pos := s1.pos + 1 + 1 + 1, col := s1.col + 1 + 1 + 1 }, ?_, rfl, n3⟩
      simp [charFin, endsWithTwoQuotes, List.append_assoc]
  obtain ⟨s', h1, h2, h3⟩ := hpc
  refine ⟨s', mkTok "CHAR_CONST" s s' (some (pre.toList ++ ['\'', c, '\''])), ?_, rfl, rfl, rfl, rfl, h2, h3⟩
  unfold trySubLexers
  rw [hf, hi, h1]

end Norm

namespace Norm
open Spec

/-- looking for the other kind of quote, the prefix loop finds no prefix -/
theorem quotePrefix_other (pre : String) (hp : pre ∈ litPrefixes) (tl : List Char) :
    quotePrefix '\'' (pre.toList ++ '"' :: tl) Generated.quotePrefixes = some 0 := by
  simp only [litPrefixes, List.mem_cons, List.mem_nil_iff, or_false] at hp
  rcases hp with rfl | rfl | rfl | rfl | rfl
  · show quotePrefix '\'' ('"' :: tl) ["l", "L", "u", "U", "u8"] = some 0
    cases tl with
    | nil => simp [quotePrefix, rawPeek, List.isPrefixOf]
    | cons x xs =>
      cases xs with
      | nil => simp [quotePrefix, rawPeek, List.isPrefixOf]
      | cons y ys => simp [quotePrefix, rawPeek, List.isPrefixOf]
  · show quotePrefix '\'' ('L' :: '"' :: tl) ["l", "L", "u", "U", "u8"] = some 0
    cases tl with
    | nil => simp [quotePrefix, rawPeek, List.isPrefixOf]
    | cons x xs => simp [quotePrefix, rawPeek, List.isPrefixOf]
  · show quotePrefix '\'' ('u' :: '"' :: tl) ["l", "L", "u", "U", "u8"] = some 0
    cases tl with
    | nil => simp [quotePrefix, rawPeek, List.isPrefixOf]
    | cons x xs => simp [quotePrefix, rawPeek, List.isPrefixOf]
  · show quotePrefix '\'' ('U' :: '"' :: tl) ["l", "L", "u", "U", "u8"] = some 0
    cases tl with
    | nil => simp [quotePrefix, rawPeek, List.isPrefixOf]
    | cons x xs => simp [quotePrefix, rawPeek, List.isPrefixOf]
  · show quotePrefix '\'' ('u' :: '8' :: '"' :: tl) ["l", "L", "u", "U", "u8"] = some 0
    simp [quotePrefix, rawPeek, List.isPrefixOf]

/-- on a string literal the character-constant parser says "not mine" -/
theorem parseChar_none_of_string (pre : String) (hp : pre ∈ litPrefixes) (tl : List Char) (s : LexSt)
    (hr : s.rest = pre.toList ++ '"' :: tl) : parseChar s = none := by
  rw [parseChar_eq, hr, quotePrefix_other pre hp tl]
  simp only [popN]
  have : (rawPeek s.rest != some ['\'']) = true := by
    rw [hr]
    simp only [litPrefixes, List.mem_cons, List.mem_nil_iff, or_false] at hp
    rcases hp with rfl | rfl | rfl | rfl | rfl <;> simp [rawPeek]
  simp [this]

end Norm

namespace Norm
open Spec

/-- **A string literal `pre " body "` whose body consists of opaque characters becomes one STRING
token spanning exactly the literal, with no lexical diagnostic** — every encoding prefix, bodies
of any length, at any position, whatever follows. -/
theorem string_valid (u : Uni) (pre : String) (hp : pre ∈ litPrefixes) (body : List Char)
    (hb : ∀ c ∈ body, OpaqueChar c ∧ c ≠ '"') (rest : List Char) (s : LexSt)
    (hr : s.rest = pre.toList ++ '"' :: (body ++ '"' :: rest)) :
    ∃ s' t, trySubLexers u s = .ok (some (s', t)) ∧ t.type = "STRING" ∧
      t.value = some (String.ofList (pre.toList ++ '"' :: (body ++ ['"']))) ∧ t.line = s.line ∧ t.col = s.col ∧
      s'.rest = rest ∧ s'.diags = s.diags := by
  obtain ⟨hplain, c0, tl0, h0, hd0, hdot0⟩ := litPrefix_facts u pre hp '"' (Or.inr rfl) (body ++ '"' :: rest)
  obtain ⟨hf, hi⟩ := numeric_fail u s c0 tl0 (by rw [hr, h0]) hd0 hdot0
  have hch := parseChar_none_of_string pre hp (body ++ '"' :: rest) s hr
  obtain ⟨n1, n2, n3⟩ := popN_plain pre.toList ('"' :: (body ++ '"' :: rest)) s hr hplain
  have hps : ∃ s', parseString s = some (s', mkTok "STRING" s s' (some (pre.toList ++ '"' :: (body ++ ['"']))))
      ∧ s'.rest = rest ∧ s'.diags = s.diags := by
    rw [parseString_eq]
    have hpk : ∃ p, peek1 s.rest 0 = some p := by
      have : 0 < s.rest.length := by rw [hr, h0]; simp
      obtain ⟨c, sz, h⟩ := peek1_isSome this
      exact ⟨_, h⟩
    obtain ⟨p, hpk⟩ := hpk
    rw [hpk]
    simp only
    rw [hr, quotePrefix_lit pre hp '"' (Or.inr rfl)]
    simp only
    cases hpn : popN pre.toList.length s with
    | mk s1 r1 =>
      rw [hpn] at n1 n2 n3
      simp only at n1 n2 n3
      subst n1
      simp only
      have hrp : (rawPeek s1.rest != some ['"']) = false := by rw [n2]; simp [rawPeek]
      simp only [hrp, Bool.false_eq_true, ↓reduceIte]
      have hq1 := popOne_peeked false false s1 '"' (body ++ '"' :: rest) n2
        (by rw [n2]; exact peek1_raw (by decide) (by decide) (by decide) (by decide)) (by decide) (by decide) (by decide)
      rw [hq1]
      simp only
      have hloop := strLoop_opaque body rest
        { s1 with rest := body ++ '"' :: rest, pos := s1.pos + 1, col := s1.col + 1 } (pre.toList ++ ['"'])
        ((body ++ '"' :: rest).length + 1) rfl hb (by simp)
      rw [hloop]
      refine ⟨shiftCols { s1 with rest := body ++ '"' :: rest, pos := s1.pos + 1, col := s1.col + 1 } (body.length + 1) rest, ?_, rfl, n3⟩
      simp [strFin, shiftCols, List.append_assoc]
  obtain ⟨s', h1, h2, h3⟩ := hps
  refine ⟨s', mkTok "STRING" s s' (some (pre.toList ++ '"' :: (body ++ ['"']))), ?_, rfl, rfl, rfl, rfl, h2, h3⟩
  unfold trySubLexers
  rw [hf, hi, hch, h1]

end Norm

namespace Norm
open Spec

theorem peek1_off (rest : List Char) (n : Nat) : peek1 rest n = peek1 (rest.drop n) 0 := by
  unfold peek1; simp

/-- one `pop` (escapes on) at a backslash followed by a simple-escape character and a quote -/
theorem popOne_simple_escape (s : LexSt) (e : Char) (tl : List Char) (he : simpleEscapes.contains e = true)
    (hr : s.rest = '\\' :: e :: '\'' :: tl) :
    popOne false true s = ({ s with rest := '\'' :: tl, pos := s.pos + 2, col := s.col + 2 }, some ['\\', e]) := by
  have hp0 : peek1 s.rest 0 = some ('\\', 1) := by
    rw [hr]; exact peek1_raw (by decide) (by decide) (by decide) (by decide)
  have hp1 : peek1 s.rest 1 = some (e, 1) := by
    rw [peek1_off, hr]
    exact peek1_before_quote e '\'' tl (Or.inl rfl)
  have hen : e ≠ '\n' := by
    intro h; subst h; revert he; decide
  have hs : spliceLoop (s.rest.length + 1) s = (s, some ('\\', 1)) := by
    unfold spliceLoop
    simp only [hp0, hp1]
    have : (e != '\n') = true := by simp [hen]
    simp [this]
  unfold popOne
  rw [hs]
  simp only
  have hesc : escOf true s '\\' 1 = (['\\', e], 2, [], 0) := by
    unfold escOf
    simp only [beq_self_eq_true, Bool.and_self, ↓reduceIte, hp1]
    have : (e != '\n') = true := by simp [hen]
    simp only [this, ↓reduceIte]
    unfold escape
    have he' : (simpleEscapes.contains e) = true := he
    simp only [he', ↓reduceIte]
  rw [hesc]
  unfold finishPop
  simp [advance, hr]

/-- **A character constant whose character is a simple escape sequence** (`'\n'`, `'\\'`, `'\''`,
`'\"'`, `'\?'`, `'\a'` …) becomes one CHAR_CONST token with exactly its text and no diagnostic. -/
theorem char_escape_valid (u : Uni) (pre : String) (hp : pre ∈ litPrefixes) (e : Char)
    (he : simpleEscapes.contains e = true) (rest : List Char) (s : LexSt)
    (hr : s.rest = pre.toList ++ '\'' :: '\\' :: e :: '\'' :: rest) :
    ∃ s' t, trySubLexers u s = .ok (some (s', t)) ∧ t.type = "CHAR_CONST" ∧
      t.value = some (String.ofList (pre.toList ++ ['\'', '\\', e, '\''])) ∧ t.line = s.line ∧ t.col = s.col ∧
      s'.rest = rest ∧ s'.diags = s.diags := by
  obtain ⟨hplain, c0, tl0, h0, hd0, hdot0⟩ := litPrefix_facts u pre hp '\'' (Or.inl rfl) ('\\' :: e :: '\'' :: rest)
  obtain ⟨hf, hi⟩ := numeric_fail u s c0 tl0 (by rw [hr, h0]) hd0 hdot0
  obtain ⟨n1, n2, n3⟩ := popN_plain pre.toList ('\'' :: '\\' :: e :: '\'' :: rest) s hr hplain
  have hpc : ∃ s', parseChar s = some (s', mkTok "CHAR_CONST" s s' (some (pre.toList ++ ['\'', '\\', e, '\''])))
      ∧ s'.rest = rest ∧ s'.diags = s.diags := by
    rw [parseChar_eq, hr, quotePrefix_lit pre hp '\'' (Or.inl rfl)]
    simp only
    cases hpn : popN pre.toList.length s with
    | mk s1 r1 =>
      rw [hpn] at n1 n2 n3
      simp only at n1 n2 n3
      subst n1
      simp only
      have hrp : (rawPeek s1.rest != some ['\'']) = false := by rw [n2]; simp [rawPeek]
      simp only [hrp, Bool.false_eq_true, ↓reduceIte]
      have hq1 := popOne_peeked false false s1 '\'' ('\\' :: e :: '\'' :: rest) n2
        (by rw [n2]; exact peek1_raw (by decide) (by decide) (by decide) (by decide)) (by decide) (by decide) (by decide)
      rw [hq1]
      simp only
      have hloop : charLoop s.line s.col (('\\' :: e :: '\'' :: rest).length + 1)
          { s1 with rest := '\\' :: e :: '\'' :: rest, pos := s1.pos + 1, col := s1.col + 1 } (pre.toList ++ ['\'']) 0
          = ({ s1 with rest := rest, pos := s1.pos + 1 + 2 + 1, col := s1.col + 1 + 2 + 1 }, pre.toList ++ ['\''] ++ ['\\', e] ++ ['\''], 1) := by
        have hfuel : ('\\' :: e :: '\'' :: rest).length + 1 = (rest.length + 2) + 1 + 1 := by simp
        rw [hfuel]
        unfold charLoop
        rw [popOne_simple_escape { s1 with rest := '\\' :: e :: '\'' :: rest, pos := s1.pos + 1, col := s1.col + 1 } e rest he rfl]
        simp only [show (['\\', e] == ['\n']) = false by simp, show (['\\', e] == ['\'']) = false by simp,
          Bool.false_eq_true, ↓reduceIte]
        unfold charLoop
        have hq3 := popOne_peeked false true
          { s1 with rest := '\'' :: rest, pos := s1.pos + 1 + 2, col := s1.col + 1 + 2 } '\'' rest rfl
          (peek1_raw (by decide) (by decide) (by decide) (by decide)) (by decide) (by decide) (by decide)
        rw [hq3]
        simp only [show (['\''] == ['\n']) = false by decide, show (['\''] == ['\'']) = true by decide,
          Bool.false_eq_true, ↓reduceIte]
      rw [hloop]
      refine ⟨{ s1 with rest := rest, pos := s1.pos + 1 + 2 + 1, col := s1.col + 1 + 2 + 1 }, ?_, rfl, n3⟩
      simp [charFin, endsWithTwoQuotes, List.append_assoc]
  obtain ⟨s', h1, h2, h3⟩ := hpc
  refine ⟨s', mkTok "CHAR_CONST" s s' (some (pre.toList ++ ['\'', '\\', e, '\''])), ?_, rfl, rfl, rfl, rfl, h2, h3⟩
  unfold trySubLexers
  rw [hf, hi, h1]

end Norm
