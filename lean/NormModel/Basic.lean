def hello := "world"
