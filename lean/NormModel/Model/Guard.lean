/-
`CheckPreprocessorProtection.run` (norminette/rules/check_preprocessor_protection.py): the
decision logic, given what the rule reads from the context when it runs after a matched
preprocessor statement.
-/
namespace Norm

/-- `basename.upper().replace(".", "_")` on ASCII names -/
def guardOf (base : List Char) : List Char :=
  (base.map Char.toUpper).map (fun c => if c == '.' then '_' else c)

/-- what the rule sees of the current statement -/
inductive GuardDir
  | ifndef (sym : List Char)        -- `#ifndef MACRO` (any case of the directive name)
  | endif (somethingAfter : Bool)     -- `#endif`, and whether a token follows (after blanks/comments)
  | other                             -- any other directive / not an identifier after `#`
deriving Repr, DecidableEq

structure GuardIn where
  isHeader : Bool          -- `context.file.type == ".h"`
  dir : GuardDir
  indent : Nat             -- `context.preproc.indent` when the check runs
  prot : Bool         -- `context.protected`
  guardDefined : Bool      -- `context.preproc.has_macro_defined(guard)`
  codeBefore : Bool        -- history (without the current statement) has something else than comments / empty lines
deriving Repr

structure GuardOut where
  codes : List String
  prot : Bool
deriving Repr, DecidableEq

def upperOf (l : List Char) : List Char := l.map Char.toUpper

def guardCheck (guard : List Char) (i : GuardIn) : GuardOut :=
  if !i.isHeader then ⟨[], i.prot⟩ else
  match i.dir with
  | .other => ⟨[], i.prot⟩
  | .endif after =>
    if i.indent == 0 && !i.prot then
      ⟨(if after then ["HEADER_PROT_ALL_AF"] else []) ++ (if !i.guardDefined then ["HEADER_PROT_NODEF"] else []), true⟩
    else ⟨[], i.prot⟩
  | .ifndef sym =>
    if i.indent != 1 then ⟨[], i.prot⟩ else
    let c1 : List String :=
      if sym != guard && !i.prot then
        (if upperOf sym == guard then ["HEADER_PROT_UPPER"] else ["HEADER_PROT_NAME"])
      else []
    if i.prot then ⟨c1 ++ ["HEADER_PROT_MULT"], i.prot⟩
    else ⟨c1 ++ (if i.codeBefore then ["HEADER_PROT_ALL"] else []), i.prot⟩

end Norm
