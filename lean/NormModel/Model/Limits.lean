/-
The decision points of the numeric limits (C03):
`CheckLineLen.run`, `CheckCommentLineLen.run`, and the comparisons of `CheckBrace`
(TOO_MANY_LINES), `CheckFunctionsCount`, `CheckFuncDeclaration` (arguments),
`CheckVariableDeclaration` (variables).
-/
namespace Norm

/-- `CheckLineLen`: over the tokens (line, column) of the statement, the first token of each
line that starts beyond column 81 is reported (`line_too_long` dictionary = lines seen) -/
def checkLineLen : List (Nat × Nat) → List Nat → List Nat
  | [], _ => []
  | (l, c) :: rest, seen =>
    if 81 < c && !seen.contains l then l :: checkLineLen rest (l :: seen) else checkLineLen rest seen

/-- `CheckCommentLineLen` for a `//` comment starting at column `col` with `len` characters -/
def lineCommentTooLong (col len : Nat) : Bool := 81 < col + len

/-- `CheckCommentLineLen` for a block comment: `lines` are the lengths of the lines of the
token's text (tabs already expanded by the lexer); the first line is padded with `col - 1`
blanks; every line longer than 80 is reported — returns the offsets of the reported lines -/
def blockCommentTooLong (col : Nat) (lines : List Nat) : List Nat :=
  match lines with
  | [] => []
  | first :: rest =>
    ((col - 1 + first) :: rest).zipIdx.filterMap (fun (w, i) => if 80 < w then some i else none)

def tooManyLines (scopeLines : Nat) : Bool := 26 < scopeLines       -- CheckBrace
def tooManyFuncs (functions : Nat) : Bool := 5 < functions           -- CheckFunctionsCount
def tooManyArgs (topLevelCommas : Nat) : Bool := 4 < 1 + topLevelCommas  -- CheckFuncDeclaration
def tooManyVars (vars : Nat) : Bool := 5 < vars                      -- CheckVariableDeclaration

end Norm
