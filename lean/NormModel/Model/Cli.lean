/-
L2 — the command line driver `norminette/__main__.py::main`: file selection (work list
over arguments and directories), `--use-gitignore` filtering, the per-file loop with its
fatal exit, the formatter call and the final exit status.
-/
import NormModel.Model.Reports
namespace Norm

/-! ### File system model (assumption A4: `pathlib`, `glob`, `os.path`) -/

/-- One entry of the tree below the current directory: its path (components relative to the
cwd) and whether it is a directory.  A file system is the list of its entries (the harness
builds it from a real tree, so parents of entries are directory entries). -/
structure Entry where
  path : List String
  isDir : Bool
deriving Repr, DecidableEq, Inhabited

abbrev FS := List Entry

inductive Kind | file | dir | missing
deriving Repr, DecidableEq

/-- `Path.exists / is_file / is_dir` of a relative path; `[]` is the cwd itself. -/
def lookup (fs : FS) (p : List String) : Kind :=
  if p == [] then .dir else
  match fs.find? (fun e => e.path == p) with
  | some e => if e.isDir then .dir else .file
  | none => .missing

/-- string concatenation through character lists (reducible by the kernel) -/
def sapp (a b : String) : String := String.ofList (a.toList ++ b.toList)

def hidden (n : String) : Bool := n.toList.head? == some '.'

/-- `fnmatch(name, "*.[ch]")` for a non-hidden name. -/
def matchesCH (n : String) : Bool :=
  let l := n.toList
  let tail := l.drop (l.length - 2)
  l.length ≥ 2 && (tail == ['.', 'c'] || tail == ['.', 'h'])

def joinPath : List String → String
  | [] => ""
  | [c] => c
  | c :: cs => sapp c (sapp "/" (joinPath cs))

/-- is `e` a regular file strictly below `dir`, reached through non-hidden names only,
whose own name matches `*.[ch]` -/
def globHit (dir : List String) (e : Entry) : Bool :=
  !e.isDir && dir.isPrefixOf e.path && decide (dir.length < e.path.length) &&
  (e.path.drop dir.length).all (fun c => !hidden c) &&
  matchesCH (e.path.getLast?.getD "")

/-- `filter(os.path.isfile, glob.glob(str(dir) + "/**/*.[ch]", recursive=True))` (and the
relative pattern for `dir = []`): the order within the result is the order of the entries
(the real order is that of `os.scandir`; results are compared as multisets). -/
def globCH (fs : FS) (dir : List String) : List String :=
  (fs.filter (globHit dir)).map (fun e => joinPath e.path)

/-- `pathlib.PurePath.suffix` of the final component. -/
def suffixOf (name : String) : String :=
  let cs := name.toList
  match cs.reverse.idxOf? '.' with
  | none => ""
  | some r =>
    -- r = distance of the last dot from the end
    let i := cs.length - 1 - r
    if 0 < i && i < cs.length - 1 then String.ofList (cs.drop i) else ""

structure Selection where
  files : List String := []      -- `File.path` of each selected file, in order
  msgs : List String := []       -- lines printed while selecting
  abort : Bool := false          -- nonexistent path: exit 1, nothing analysed
deriving Repr, DecidableEq

/-- State of the work-list loop while it is still inside the arguments. -/
structure SelSt where
  files : List String := []      -- `files` so far
  msgs : List String := []       -- lines printed so far
  app : List String := []        -- items appended to the stack by directory arguments
  abort : Bool := false
deriving Repr

/-- One iteration of `for item in stack` on an *argument*. -/
def selStep (root : FS) (s : SelSt) (a : List String) : SelSt :=
  if s.abort then s else
  match lookup root a with
  | .missing =>
    { s with abort := true,
             msgs := s.msgs ++ [sapp "Error: '" (sapp (joinPath a) "' no such file or directory")] }
  | .file =>
    let name := a.getLast?.getD ""
    if suffixOf name == ".c" || suffixOf name == ".h" then
      { s with files := s.files ++ [joinPath a] }
    else
      { s with msgs := s.msgs ++ [sapp "Error: '" (sapp name "' is not valid C or C header file")] }
  | .dir => { s with app := s.app ++ globCH root a }

/-- The whole work-list loop.  Items appended by directory arguments are regular files
matching `*.[ch]` (the glob result is filtered with `os.path.isfile`), so when the loop
reaches them it selects each one and appends nothing further.  With no argument the
initial stack is `glob("**/*.[ch]")` relative to the cwd. -/
def select (root : FS) (argv : List (List String)) : Selection :=
  match argv with
  | [] => { files := globCH root [] }
  | _ =>
    let s := argv.foldl (selStep root) {}
    if s.abort then { files := [], msgs := s.msgs, abort := true }
    else { files := s.files ++ s.app, msgs := s.msgs, abort := false }

/-! ### `--use-gitignore` (assumption A5: exit codes of `git check-ignore -q`) -/

inductive GitRes | ignored | kept | failed
deriving Repr, DecidableEq

/-- Returns the kept files, or the path at which git failed (the run then prints a
message and exits 0). -/
def gitFilter (git : String → GitRes) : List String → Except String (List String)
  | [] => .ok []
  | p :: ps =>
    match git p with
    | .failed => .error p
    | .ignored => gitFilter git ps
    | .kept => (gitFilter git ps).map (p :: ·)

/-! ### Per-file loop, formatter, exit status -/

inductive FileOutcome
  | analysed (ds : List Diag)
  | fatal (msg : String)         -- `CParsingError` (or undecodable file)
deriving Repr, Inhabited

structure CliFile where
  path : String
  basename : String
  abspath : String
  outcome : FileOutcome
deriving Repr, Inhabited

inductive Format | humanized | json
deriving Repr, DecidableEq

inductive Printed
  | human (doc : List ShownFile)
  | json (doc : List JsonFile)
  | fatal (path msg : String)
  | crash                         -- `highlights[0]` on an error without highlight
deriving Repr

structure CliOut where
  printed : Printed
  exit : Nat
deriving Repr

def firstFatal : List CliFile → Option (String × String)
  | [] => none
  | f :: fs =>
    match f.outcome with
    | .fatal m => some (f.path, m)
    | .analysed _ => firstFatal fs

def CliFile.diags (f : CliFile) : List Diag :=
  match f.outcome with
  | .analysed ds => ds
  | .fatal _ => []

def CliFile.rep (f : CliFile) : FileRep := ⟨f.path, f.basename, f.abspath, f.diags⟩

/-- Exit status computed at the end of `main`. -/
def exitOf (fs : List CliFile) : Nat :=
  if fs.any (fun f => status f.diags == .error) then 1 else 0

/-- The part of `main` after file selection. -/
def cliRun (fmt : Format) (fs : List CliFile) : CliOut :=
  match firstFatal fs with
  | some (p, m) => ⟨.fatal p m, 1⟩
  | none =>
    match fmt with
    | .json => ⟨.json (jsonDoc (fs.map CliFile.rep)), exitOf fs⟩
    | .humanized =>
      match humanDoc (fs.map CliFile.rep) with
      | some doc => ⟨.human doc, exitOf fs⟩
      | none => ⟨.crash, 1⟩

end Norm
