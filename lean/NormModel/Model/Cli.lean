/-
L2 — the command line driver `norminette/__main__.py::main`: file selection (work list
over arguments and directories), `--use-gitignore` filtering, the per-file loop with its
fatal exit, the formatter call and the final exit status.
-/
import NormModel.Model.Reports
namespace Norm

/-! ### File system model (assumption A4: `pathlib`, `glob`, `os.path`) -/

inductive Node
  | file (name : String)
  | dir (name : String) (children : List Node)
deriving Repr, Inhabited

inductive Kind | file | dir | missing
deriving Repr, DecidableEq

def Node.name : Node → String
  | .file n => n
  | .dir n _ => n

/-- Look a relative path (list of components) up below a list of nodes. -/
def lookup : List Node → List String → Kind
  | _, [] => .dir
  | [], _ :: _ => .missing
  | .file n :: rest, [c] => if n == c then .file else lookup rest [c]
  | .file n :: rest, c :: d :: cs => if n == c then .missing else lookup rest (c :: d :: cs)
  | .dir n ch :: rest, c :: cs => if n == c then lookup ch cs else lookup rest (c :: cs)

def childrenOf : List Node → List String → List Node
  | ns, [] => ns
  | [], _ :: _ => []
  | .file _ :: rest, c :: cs => childrenOf rest (c :: cs)
  | .dir n ch :: rest, c :: cs => if n == c then childrenOf ch cs else childrenOf rest (c :: cs)

def hidden (n : String) : Bool := n.startsWith "."

/-- `fnmatch(name, "*.[ch]")` for a non-hidden name. -/
def matchesCH (n : String) : Bool := n.endsWith ".c" || n.endsWith ".h"

/-- `filter(os.path.isfile, glob.glob(prefix + "/**/*.[ch]", recursive=True))`:
every non-hidden regular file below the nodes, through non-hidden directories only,
whose name matches `*.[ch]`.  The order within the result is the order of the tree
(the real order is that of `os.scandir`; results are compared as multisets). -/
def globCH (pre : String) : List Node → List String
  | [] => []
  | .file n :: rest =>
    (if !hidden n && matchesCH n then [pre ++ n] else []) ++ globCH pre rest
  | .dir n ch :: rest =>
    (if hidden n then [] else globCH (pre ++ n ++ "/") ch) ++ globCH pre rest

def joinPath (cs : List String) : String := "/".intercalate cs

/-- `pathlib.PurePath.suffix` of the final component. -/
def suffixOf (name : String) : String :=
  let cs := name.toList
  match cs.reverse.idxOf? '.' with
  | none => ""
  | some r =>
    -- r = distance of the last dot from the end
    let i := cs.length - 1 - r
    if 0 < i && i < cs.length - 1 then String.ofList (cs.drop i) else ""

structure Selection where
  files : List String := []      -- `File.path` of each selected file, in order
  msgs : List String := []       -- lines printed while selecting
  abort : Bool := false          -- nonexistent path: exit 1, nothing analysed
deriving Repr, DecidableEq

/-- State of the work-list loop while it is still inside the arguments. -/
structure SelSt where
  files : List String := []      -- `files` so far
  msgs : List String := []       -- lines printed so far
  app : List String := []        -- items appended to the stack by directory arguments
  abort : Bool := false
deriving Repr

/-- One iteration of `for item in stack` on an *argument*. -/
def selStep (root : List Node) (s : SelSt) (a : List String) : SelSt :=
  if s.abort then s else
  match lookup root a with
  | .missing =>
    { s with abort := true,
             msgs := s.msgs ++ ["Error: '" ++ joinPath a ++ "' no such file or directory"] }
  | .file =>
    let name := a.getLast?.getD ""
    if suffixOf name == ".c" || suffixOf name == ".h" then
      { s with files := s.files ++ [joinPath a] }
    else
      { s with msgs := s.msgs ++ ["Error: '" ++ name ++ "' is not valid C or C header file"] }
  | .dir => { s with app := s.app ++ globCH (joinPath a ++ "/") (childrenOf root a) }

/-- The whole work-list loop.  Items appended by directory arguments are regular files
matching `*.[ch]` (the glob result is filtered with `os.path.isfile`), so when the loop
reaches them it selects each one and appends nothing further.  With no argument the
initial stack is `glob("**/*.[ch]")` relative to the cwd. -/
def select (root : List Node) (argv : List (List String)) : Selection :=
  match argv with
  | [] => { files := globCH "" root }
  | _ =>
    let s := argv.foldl (selStep root) {}
    if s.abort then { files := [], msgs := s.msgs, abort := true }
    else { files := s.files ++ s.app, msgs := s.msgs, abort := false }

/-! ### `--use-gitignore` (assumption A5: exit codes of `git check-ignore -q`) -/

inductive GitRes | ignored | kept | failed
deriving Repr, DecidableEq

/-- Returns the kept files, or the path at which git failed (the run then prints a
message and exits 0). -/
def gitFilter (git : String → GitRes) : List String → Except String (List String)
  | [] => .ok []
  | p :: ps =>
    match git p with
    | .failed => .error p
    | .ignored => gitFilter git ps
    | .kept => (gitFilter git ps).map (p :: ·)

/-! ### Per-file loop, formatter, exit status -/

inductive FileOutcome
  | analysed (ds : List Diag)
  | fatal (msg : String)         -- `CParsingError` (or undecodable file)
deriving Repr, Inhabited

structure CliFile where
  path : String
  basename : String
  abspath : String
  outcome : FileOutcome
deriving Repr, Inhabited

inductive Format | humanized | json
deriving Repr, DecidableEq

inductive Printed
  | human (doc : List ShownFile)
  | json (doc : List JsonFile)
  | fatal (path msg : String)
  | crash                         -- `highlights[0]` on an error without highlight
deriving Repr

structure CliOut where
  printed : Printed
  exit : Nat
deriving Repr

def firstFatal : List CliFile → Option (String × String)
  | [] => none
  | f :: fs =>
    match f.outcome with
    | .fatal m => some (f.path, m)
    | .analysed _ => firstFatal fs

def CliFile.diags (f : CliFile) : List Diag :=
  match f.outcome with
  | .analysed ds => ds
  | .fatal _ => []

def CliFile.rep (f : CliFile) : FileRep := ⟨f.path, f.basename, f.abspath, f.diags⟩

/-- Exit status computed at the end of `main`. -/
def exitOf (fs : List CliFile) : Nat :=
  if fs.any (fun f => status f.diags == .error) then 1 else 0

/-- The part of `main` after file selection. -/
def cliRun (fmt : Format) (fs : List CliFile) : CliOut :=
  match firstFatal fs with
  | some (p, m) => ⟨.fatal p m, 1⟩
  | none =>
    match fmt with
    | .json => ⟨.json (jsonDoc (fs.map CliFile.rep)), exitOf fs⟩
    | .humanized =>
      match humanDoc (fs.map CliFile.rep) with
      | some doc => ⟨.human doc, exitOf fs⟩
      | none => ⟨.crash, 1⟩

end Norm
