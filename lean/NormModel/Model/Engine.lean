/-
L3 — the loop of `Registry.run` (norminette/registry.py), parametric in everything that
concerns the rules: one iteration asks the rule table (`step`) what the first matching
primary rule is for the remaining tokens.  `σ` is whatever state the rules thread
(context, scopes, history, diagnostics).

    while context.tokens != []:
        for rule in rules.primaries: ...          -- `step`
            ret, jump = self.run_rules(context, rule)
            if ret is True:
                if jump <= 0: raise CParsingError            (zero-jump guard)
                if unrecognized_tkns != []:
                    if context.debug == 0: raise CParsingError
                    print(...); unrecognized_tkns = []
                context.update(); context.pop_tokens(jump); break
        else:
            unrecognized_tkns.append(context.tokens[0]); context.pop_tokens(1)
    if unrecognized_tkns != []:
        if context.debug == 0: raise CParsingError
        print(...)
-/
namespace Norm

/-- what the rule table answers for one iteration -/
inductive StepRes (σ : Type)
  | matched (rule : String) (jump : Int) (s : σ)   -- first primary that returned `True`
  | noMatch (s : σ)                                -- the `for … else` branch
  | fatal (msg : String)                           -- a rule raised CParsingError
  | crash (what : String)                          -- a rule raised anything else
  | hang                                           -- a rule did not return

/-- one examined statement: the rule that matched, where it starts (index into the
original token list) and how many tokens it consumed (`min jump remaining`) -/
structure Segment where
  rule : String
  start : Nat
  len : Nat
deriving Repr, DecidableEq

inductive EngineOut (σ : Type)
  | ok (s : σ) (trace : List Segment) (unrecognised : List Nat)   -- indices printed with debug > 0
  | fatal (msg : String) (trace : List Segment) (unrecognised : List Nat)
  | crash (what : String)
  | hang

/-- The loop. `pos` = number of tokens already popped, `n` = tokens remaining,
`unrec` = `unrecognized_tkns` (as indices), `dropped` = those already printed and reset. -/
def engineLoop {σ : Type} (step : σ → Nat → StepRes σ) (debug : Nat) :
    Nat → σ → Nat → Nat → List Segment → List Nat → List Nat → EngineOut σ
  | 0, _, _, _, _, _, _ => .hang          -- fuel exhausted: unreachable, see `engine_fuel`
  | fuel + 1, s, pos, n, trace, unrec, dropped =>
    if n = 0 then
      if unrec ≠ [] ∧ debug = 0 then .fatal "Unrecognized line" trace (dropped ++ unrec)
      else .ok s trace (dropped ++ unrec)
    else
      match step s pos with
      | .fatal m => .fatal m trace (dropped ++ unrec)
      | .crash w => .crash w
      | .hang => .hang
      | .noMatch s' => engineLoop step debug fuel s' (pos + 1) (n - 1) trace (unrec ++ [pos]) dropped
      | .matched rule jump s' =>
        if jump ≤ 0 then .fatal "Unrecognized line" trace (dropped ++ unrec)
        else if unrec ≠ [] ∧ debug = 0 then .fatal "Unrecognized line" trace (dropped ++ unrec)
        else
          let k := min jump.toNat n
          engineLoop step debug fuel s' (pos + k) (n - k) (trace ++ [⟨rule, pos, k⟩]) [] (dropped ++ unrec)

/-- `Registry.run` on `n` tokens. -/
def engineRun {σ : Type} (step : σ → Nat → StepRes σ) (debug : Nat) (s : σ) (n : Nat) : EngineOut σ :=
  engineLoop step debug (n + 1) s 0 n [] [] []

end Norm
