/- L3 placeholder: engine model is added in stage B; the driver dispatches unknown ops here. -/
import Lean.Data.Json
open Lean
def engineHandle (op : String) (_ : Json) : Except String Json := throw ("unknown op " ++ op)
