/-
L4 — checks that run after EVERY matched primary rule (the `_rule` list of the registry) and
read nothing but the tokens of the statement just recognised: `CheckTernary`, `CheckLineLen`.
Together with the engine loop (`Model/Engine.lean`) they give end-to-end statements about a
whole file that do not depend on any unported rule.

    class CheckTernary:   for i in range(0, context.tkn_scope):
                              if context.check_token(i, "TERN_CONDITION") is True:
                                  context.new_error("TERNARY_FBIDDEN", context.peek_token(i))
    class CheckLineLen:   for tkn in context.tokens[: context.tkn_scope]:
                              if tkn.pos[1] > 81 and tkn.pos[0] not in line_too_long:
                                  context.new_error("LINE_TOO_LONG", tkn); line_too_long[tkn.pos[0]] = True

`context.tokens` is the list of tokens not yet consumed; `tkn_scope` the jump of the primary
(possibly larger than what is left: slices and `check_token` past the end yield nothing).
-/
import NormModel.Model.Lexer
import NormModel.Model.Reports
import NormModel.Model.Engine
import NormModel.Model.Limits
import NormModel.Model.Header
import NormModel.Generated.Rules
namespace Norm

/-- `Highlight.from_token`: position of the token, `unsafe_length` = length of the value if any -/
def hlOfToken (t : Token) : Highlight :=
  ⟨t.line, t.col, t.value.map (fun v => v.length), none⟩

/-- `context.new_error(code, tkn)`: the catalogue text, one highlight at the token -/
def tokDiag (code : String) (t : Token) : Diag := mkDiag code .error [hlOfToken t]

/-- `CheckTernary.run` on the statement's tokens -/
def ternaryToks (seg : List Token) : List Token := seg.filter (fun t => t.type == "TERN_CONDITION")

/-- `CheckLineLen.run` on the statement's tokens: the tokens that get reported -/
def lineLenToks : List Token → List Nat → List Token
  | [], _ => []
  | t :: rest, seen =>
    if 81 < t.col && !seen.contains t.line then t :: lineLenToks rest (t.line :: seen) else lineLenToks rest seen

/-- the tokens of one examined statement -/
def segToks (toks : List Token) (g : Segment) : List Token := (toks.drop g.start).take g.len

/-- diagnostics the two checks add for one statement (CheckTernary runs before CheckLineLen:
the `_rule` list is sorted by class name, descending) -/
def alwaysDiags (toks : List Token) (g : Segment) : List Diag :=
  (ternaryToks (segToks toks g)).map (tokDiag "TERNARY_FBIDDEN") ++
  (lineLenToks (segToks toks g) []).map (tokDiag "LINE_TOO_LONG")

/-- … and for the whole run, statement by statement -/
def alwaysDiagsRun (toks : List Token) (trace : List Segment) : List Diag :=
  trace.flatMap (alwaysDiags toks)

/-! `CheckHeader` also runs after every matched primary; what it reads of a statement is whether
the primary was `IsComment` (`context.history[-1]`) and the first token. -/

/-- the statement `g` as `CheckHeader.run` sees it -/
def headerEventOf (toks : List Token) (g : Segment) : HEvent :=
  ⟨g.rule == "IsComment",
   match toks[g.start]? with
   | some t => if t.type == "MULT_COMMENT" then t.value.map String.toList else none
   | none => none⟩

/-- the header state machine over the statements of a run -/
def headerRunFile (srch : List Char → Bool) (toks : List Token) (trace : List Segment) : HState :=
  headerRun srch (trace.map (headerEventOf toks))

/-- the INVALID_HEADER diagnostics of a run: emitted at the first token of the statement at which
the state machine counts an error -/
def headerDiagsAux (srch : List Char → Bool) (toks : List Token) : List Segment → HState → List Diag
  | [], _ => []
  | g :: gs, st =>
    let st' := headerStep srch st (headerEventOf toks g)
    (if st.errors < st'.errors then (toks[g.start]?).toList.map (tokDiag "INVALID_HEADER") else []) ++
      headerDiagsAux srch toks gs st'

def headerDiagsRun (srch : List Char → Bool) (toks : List Token) (trace : List Segment) : List Diag :=
  headerDiagsAux srch toks trace {}

/-! `CheckManyInstructions` (a check with `depends_on`: the registry runs it after a matched primary iff it is in that
primary's dependency list, `Generated.dependencies` = `Registry().dependencies` of the real code):

    if context.peek_token(0).pos[1] > 1:
        context.new_error("TOO_MANY_INSTR", context.peek_token(0))
-/

/-- does the registry run `check` after the primary `primary` matched? -/
def runsAfter (check primary : String) : Bool :=
  match Generated.dependencies.find? (fun p => p.1 == primary) with
  | some (_, cs) => cs.contains check
  | none => false

/-- `CheckManyInstructions.run` for one statement -/
def manyInstrDiags (toks : List Token) (g : Segment) : List Diag :=
  if runsAfter "CheckManyInstructions" g.rule then
    match toks[g.start]? with
    | some t => if 1 < t.col then [tokDiag "TOO_MANY_INSTR" t] else []
    | none => []
  else []

def manyInstrDiagsRun (toks : List Token) (trace : List Segment) : List Diag :=
  trace.flatMap (manyInstrDiags toks)

/-! `CheckCommentLineLen` (`depends_on = ("IsComment",)`):

    i = 0
    while not context.check_token(i, ["COMMENT", "MULT_COMMENT"]): i += 1
    token = context.peek_token(i); index = token.pos[1]
    if token.type == "MULT_COMMENT":
        lines = token.value.split("\n"); lines[0] = " " * (index - 1) + lines[0]
        for lineno, line in enumerate(lines, start=token.pos[0]):
            if len(line) > 80: token.pos = (lineno, 1); context.new_error("LINE_TOO_LONG", token)
    elif index + len(token.value) > 81: context.new_error("LINE_TOO_LONG", token)
-/

/-- `str.split("\n")` -/
def splitNl : List Char → List (List Char)
  | [] => [[]]
  | c :: cs =>
    match splitNl cs with
    | [] => [[]]           -- unreachable: the result is never empty
    | l :: ls => if c == '\n' then [] :: l :: ls else (c :: l) :: ls

/-- `CheckCommentLineLen.run` for one statement: the first comment token from the statement's start on (the scan of the
real code is not bounded by the statement; after `IsComment` the statement holds one) -/
def commentLenDiags (toks : List Token) (g : Segment) : List Diag :=
  if runsAfter "CheckCommentLineLen" g.rule then
    match (toks.drop g.start).find? (fun t => t.type == "COMMENT" || t.type == "MULT_COMMENT") with
    | some t =>
      match t.value with
      | some v =>
        if t.type == "MULT_COMMENT" then
          (blockCommentTooLong t.col ((splitNl v.toList).map List.length)).map
            (fun i => mkDiag "LINE_TOO_LONG" .error [⟨t.line + i, 1, some v.length, none⟩])
        else if lineCommentTooLong t.col v.length then [tokDiag "LINE_TOO_LONG" t] else []
      | none => []
    | none => []
  else []

def commentLenDiagsRun (toks : List Token) (trace : List Segment) : List Diag :=
  trace.flatMap (commentLenDiags toks)

end Norm
