/-
L1 — reports: `Highlight`, `Error` (here `Diag`), the order used by `Errors.__iter__`,
the per-file status and the two formatters of `norminette/errors.py`.
Import-free so that the driver links.
-/
namespace Norm

/-- `norminette.errors.Highlight`. -/
structure Highlight where
  line : Nat
  col : Nat
  length : Option Nat := none
  hint : Option String := none
deriving Repr, DecidableEq, Inhabited

inductive Level | error | notice
deriving Repr, DecidableEq, Inhabited

def Level.str : Level → String
  | .error => "Error"
  | .notice => "Notice"

/-- `norminette.errors.Error`. -/
structure Diag where
  name : String
  text : String
  level : Level := .error
  highlights : List Highlight := []
deriving Repr, DecidableEq, Inhabited

/-- Python `(a0, a1) < (b0, b1)` on pairs of ints. -/
def posLt (a b : Nat × Nat) : Bool :=
  a.1 < b.1 || (a.1 == b.1 && a.2 < b.2)

/-- `Error.__lt__`, transcribed branch by branch (with `ah, bh = highlights[0]`).
String `<` is code-point lexicographic in both languages. -/
def Diag.lt (a b : Diag) : Bool :=
  match a.highlights, b.highlights with
  | [], hb => !hb.isEmpty || decide (b.name < a.name)
  | _ :: _, [] => true            -- `bool(self.highlights) or …`
  | ah :: _, bh :: _ =>
    if ah.col == bh.col && ah.line == bh.line then decide (a.name < b.name)
    else posLt (ah.line, ah.col) (bh.line, bh.col)

/-- The `≤` a stable sort that only calls `<` implements. -/
def Diag.le (a b : Diag) : Bool := !(Diag.lt b a)

/-- Stable insertion: `x` goes in front of the first `y` with `le x y`. -/
def insertBy {α} (le : α → α → Bool) (x : α) : List α → List α
  | [] => [x]
  | y :: ys => if le x y then x :: y :: ys else y :: insertBy le x ys

/-- A stable sort (assumption A3: `list.sort()` returns the stable sorted permutation
whenever `<` is a strict weak order on the elements). -/
def sortBy {α} (le : α → α → Bool) : List α → List α
  | [] => []
  | x :: xs => insertBy le x (sortBy le xs)

/-- `Errors.__iter__`. -/
def sortDiags (ds : List Diag) : List Diag := sortBy Diag.le ds

inductive Status | ok | error
deriving Repr, DecidableEq, Inhabited

def Status.str : Status → String
  | .ok => "OK"
  | .error => "Error"

/-- `Errors.status`. -/
def status (ds : List Diag) : Status :=
  if ds.all (fun d => d.level == .notice) then .ok else .error

/-- What a formatter is given for one file. -/
structure FileRep where
  path : String
  basename : String
  abspath : String      -- `os.path.abspath(path)` (A4), supplied by the harness
  diags : List Diag     -- insertion order of `Errors._inner`
deriving Repr, Inhabited

/-! ### Structured view of both outputs -/

/-- One diagnostic as it is *displayed*: first highlight only. -/
structure ShownDiag where
  level : Level
  name : String
  line : Nat
  col : Nat
  text : String
deriving Repr, DecidableEq

structure ShownFile where
  basename : String
  status : Status
  diags : List ShownDiag
deriving Repr, DecidableEq

/-- The document the humanized formatter prints (before rendering to text).
`none` models the `IndexError` of `error.highlights[0]` on an error without highlight. -/
def shownDiag? (d : Diag) : Option ShownDiag :=
  match d.highlights with
  | [] => none
  | h :: _ => some ⟨d.level, d.name, h.line, h.col, d.text⟩

/-- `some` of all the values if every element is `some`. -/
def allSome {α} : List (Option α) → Option (List α)
  | [] => some []
  | none :: _ => none
  | some a :: r => (allSome r).map (a :: ·)

def shownFile? (basename : String) (st : Status) (sorted : List Diag) : Option ShownFile :=
  (allSome (sorted.map shownDiag?)).map (fun ds => ⟨basename, st, ds⟩)

def humanDoc (fs : List FileRep) : Option (List ShownFile) :=
  allSome (fs.map fun f => shownFile? f.basename (status f.diags) (sortDiags f.diags))

/-- The JSON document (`asdict` of every error, all highlights kept). -/
structure JsonFile where
  path : String
  status : Status
  errors : List Diag
deriving Repr, DecidableEq

def jsonDoc (fs : List FileRep) : List JsonFile :=
  fs.map fun f => ⟨f.abspath, status f.diags, sortDiags f.diags⟩

/-- Projection of the JSON document onto what the humanized output shows. -/
def basenameOf (p : String) : String :=
  (p.splitOn "/").getLast?.getD p

def projectJson (js : List JsonFile) : Option (List ShownFile) :=
  allSome (js.map fun j => shownFile? (basenameOf j.path) j.status j.errors)

/-! ### Text rendering (compared byte for byte with the real formatters) -/

def padLeft (n : Nat) (s : String) : String :=
  String.ofList (List.replicate (n - s.length) ' ') ++ s

def padRight (n : Nat) (s : String) : String :=
  s ++ String.ofList (List.replicate (n - s.length) ' ')

/-- `colors.error_color` lookup is a parameter (table in Generated/Catalogue). -/
def renderDiag (color : String → Option String) (useColors : Bool) (d : ShownDiag) : String :=
  let text := match useColors, color d.name with
    | true, some c => "\x1b[" ++ c ++ "m" ++ d.text ++ "\x1b[0m"
    | _, _ => d.text
  "\n" ++ d.level.str ++ ": " ++ padRight 20 d.name ++ " (line: " ++ padLeft 3 (toString d.line)
    ++ ", col: " ++ padLeft 3 (toString d.col) ++ "):\t" ++ text

def renderHuman (color : String → Option String) (useColors : Bool) (doc : List ShownFile) : String :=
  doc.foldl (fun acc f =>
    acc ++ f.basename ++ ": " ++ f.status.str ++ "!"
      ++ String.join (f.diags.map (renderDiag color useColors)) ++ "\n") ""

end Norm
