/-
`CheckHeader` (norminette/rules/check_header.py): the three-flag state machine that runs
after every matched primary rule, parametric in the regular-expression search (`re.search`,
assumption A2).  A statement is seen as: was it matched by `IsComment`, and if its first token
is a MULT_COMMENT, that token's text.
-/
import NormModel.Model.Regex
namespace Norm

structure HState where
  started : Bool := false
  parsed : Bool := false
  text : List Char := []       -- `context.header`
  errors : Nat := 0            -- number of INVALID_HEADER emitted
deriving Repr, DecidableEq

/-- one statement as `CheckHeader.run` sees it -/
structure HEvent where
  isComment : Bool                    -- `context.history[-1] == "IsComment"`
  multAt0 : Option (List Char)        -- text of token 0 when it is a MULT_COMMENT
deriving Repr

def headerStep (srch : List Char → Bool) (st : HState) (e : HEvent) : HState :=
  if st.parsed then st
  else if e.isComment then
    -- parse_header
    match e.multAt0 with
    | some v => { st with text := st.text ++ v ++ ['\n'], started := true }
    | none => { st with errors := st.errors + 1, parsed := true, started := true }
  else if st.started then
    -- check_header
    { st with parsed := true, errors := st.errors + (if srch st.text then 0 else 1) }
  else
    { st with errors := st.errors + 1, parsed := true }

def headerRun (srch : List Char → Bool) (es : List HEvent) : HState := es.foldl (headerStep srch) {}

end Norm
