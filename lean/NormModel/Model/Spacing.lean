/-
`CheckSpacing` (norminette/rules/check_spacing.py) — runs after every matched primary rule.
It reads the primary's name (`context.history[-1]`), the not yet consumed tokens (`ts`, with
look-ahead beyond the statement and Python's wrap-around for index −1) and the statement
length (`n = tkn_scope`).  Transcribed branch by branch:

    i = 0
    if context.history[-1] in ("IsEmptyLine", "IsPreprocessorStatement"): return
    space_tab_error = False; space_error = False
    while i in range(len(context.tokens[: context.tkn_scope])):
        if context.check_token(i, "SPACE"):
            if context.check_token(i - 1 if i > 0 else 0, "TAB"):
                if space_tab_error is False: new_error("MIXED_SPACE_TAB", peek_token(i - 1)); space_tab_error = True
            if context.peek_token(i).pos[1] == 1:
                while i < context.tkn_scope and context.check_token(i, "SPACE"): i += 1
                if context.check_token(i + 1, "NEWLINE"):
                    new_error("SPACE_EMPTY_LINE", peek_token(i)); i += 1; continue
                new_error("SPACE_REPLACE_TAB", peek_token(i)); continue
            t = context.skip_ws(i)
            if t != i and context.check_token(t, "NEWLINE") and not context.check_token(i-1, ("LBRACE", "RBRACE")):
                new_error("SPC_BEFORE_NL", peek_token(i))
            i += 1
            if context.check_token(i, "SPACE"):
                if space_error is False: new_error("CONSECUTIVE_SPC", peek_token(i - 1)); space_error = True
                while i < context.tkn_scope and context.check_token(i, "SPACE"): i += 1
            if context.check_token(i, "TAB"):
                if space_tab_error is False: new_error("MIXED_SPACE_TAB", peek_token(i - 1)); space_tab_error = True
        elif context.check_token(i, "TAB"):
            if context.peek_token(i).pos[1] == 1:
                while context.check_token(i, "TAB"): i += 1
                if context.check_token(i, "NEWLINE"): new_error("SPC_BEFORE_NL", peek_token(i - 1))
            else: i += 1
        else: i += 1

`new_error(code, None)` attaches the last token (fix f459997).
-/
import NormModel.Model.Checks
namespace Norm

/-- `check_token(k, ty)` is truthy -/
def isTy (ts : List Token) (k : Nat) (ty : String) : Bool :=
  match ts[k]? with
  | some t => t.type == ty
  | none => false

/-- `peek_token(k)` as `new_error` uses it: past the end → the last token -/
def tokOrLast (ts : List Token) (k : Nat) : Option Token :=
  match ts[k]? with
  | some t => some t
  | none => ts.getLast?

/-- `peek_token(i - 1)` with Python's wrap-around at `i = 0` -/
def tokBefore (ts : List Token) (i : Nat) : Option Token :=
  if i = 0 then ts.getLast? else ts[i - 1]?

def emit (code : String) (t : Option Token) : List Diag := t.toList.map (tokDiag code)

/-- `while i < bound and check_token(i, ty): i += 1` (`bound = none`: no bound) -/
def skipTy (ts : List Token) (ty : String) (bound : Option Nat) : Nat → Nat → Nat
  | 0, i => i
  | fuel + 1, i =>
    if (match bound with | some b => decide (i < b) | none => true) && isTy ts i ty
    then skipTy ts ty bound fuel (i + 1) else i

/-- `context.skip_ws(i)` (nl=False): over SPACE, TAB and ESCAPED_NEWLINE (a token type the lexer
never produces) -/
def skipWsST (ts : List Token) : Nat → Nat → Nat
  | 0, i => i
  | fuel + 1, i =>
    if isTy ts i "SPACE" || isTy ts i "TAB" || isTy ts i "ESCAPED_NEWLINE" then skipWsST ts fuel (i + 1) else i

structure SpSt where
  i : Nat := 0
  stErr : Bool := false      -- space_tab_error
  spErr : Bool := false      -- space_error
  out : List Diag := []
deriving Repr

def col1At (ts : List Token) (i : Nat) : Bool :=
  match ts[i]? with
  | some t => t.col == 1
  | none => false

def braceBefore (ts : List Token) (i : Nat) : Bool :=
  match tokBefore ts i with
  | some b => b.type == "LBRACE" || b.type == "RBRACE"
  | none => false

/-- `if check_token(i-1 if i > 0 else 0, "TAB"): if space_tab_error is False: …` -/
def mixedBefore (ts : List Token) (st : SpSt) : SpSt :=
  if isTy ts (if st.i > 0 then st.i - 1 else 0) "TAB" && !st.stErr
  then { st with stErr := true, out := st.out ++ emit "MIXED_SPACE_TAB" (tokBefore ts st.i) } else st

/-- a SPACE at column 1: the run of spaces, then SPACE_EMPTY_LINE or SPACE_REPLACE_TAB -/
def spaceCol1 (ts : List Token) (n : Nat) (st : SpSt) : SpSt :=
  let j := skipTy ts "SPACE" (some n) (ts.length + 1) st.i
  if isTy ts (j + 1) "NEWLINE" then
    { st with i := j + 1, out := st.out ++ emit "SPACE_EMPTY_LINE" (tokOrLast ts j) }
  else
    { st with i := j, out := st.out ++ emit "SPACE_REPLACE_TAB" (tokOrLast ts j) }

/-- `t = skip_ws(i); if t != i and check_token(t, NEWLINE) and not check_token(i-1, braces): …` -/
def trailingAt (ts : List Token) (st : SpSt) : SpSt :=
  let t := skipWsST ts (ts.length + 1) st.i
  if t != st.i && isTy ts t "NEWLINE" && !braceBefore ts st.i
  then { st with out := st.out ++ emit "SPC_BEFORE_NL" (tokOrLast ts st.i) } else st

/-- after `i += 1`: a following SPACE (CONSECUTIVE_SPC, skip the run) -/
def consecutiveAt (ts : List Token) (n : Nat) (st : SpSt) : SpSt :=
  let i1 := st.i + 1
  if isTy ts i1 "SPACE" then
    let st := if !st.spErr then { st with spErr := true, out := st.out ++ emit "CONSECUTIVE_SPC" (tokOrLast ts (i1 - 1)) } else st
    { st with i := skipTy ts "SPACE" (some n) (ts.length + 1) i1 }
  else { st with i := i1 }

/-- then a following TAB (MIXED_SPACE_TAB) -/
def mixedAfter (ts : List Token) (st : SpSt) : SpSt :=
  if isTy ts st.i "TAB" && !st.stErr
  then { st with stErr := true, out := st.out ++ emit "MIXED_SPACE_TAB" (tokBefore ts st.i) } else st

/-- a TAB at column 1: the run of tabs; SPC_BEFORE_NL when a NEWLINE follows -/
def tabCol1 (ts : List Token) (st : SpSt) : SpSt :=
  let j := skipTy ts "TAB" none (ts.length + 1) st.i
  if isTy ts j "NEWLINE" then { st with i := j, out := st.out ++ emit "SPC_BEFORE_NL" (tokBefore ts j) }
  else { st with i := j }

/-- one iteration of the outer loop at index `st.i` (which is `< min n |ts|`) -/
def spacingBody (ts : List Token) (n : Nat) (st : SpSt) : SpSt :=
  if isTy ts st.i "SPACE" then
    let st := mixedBefore ts st
    if col1At ts st.i then spaceCol1 ts n st
    else mixedAfter ts (consecutiveAt ts n (trailingAt ts st))
  else if isTy ts st.i "TAB" then
    if col1At ts st.i then tabCol1 ts st else { st with i := st.i + 1 }
  else { st with i := st.i + 1 }

def spacingLoop (ts : List Token) (n : Nat) : Nat → SpSt → SpSt
  | 0, st => st
  | fuel + 1, st => if st.i < min n ts.length then spacingLoop ts n fuel (spacingBody ts n st) else st

/-- `CheckSpacing.run`: `rule` is the primary that matched, `ts` the remaining tokens, `n` its jump -/
def checkSpacing (rule : String) (ts : List Token) (n : Nat) : List Diag :=
  if rule == "IsEmptyLine" || rule == "IsPreprocessorStatement" then []
  else (spacingLoop ts n (ts.length + 1) {}).out

/-- over a whole run -/
def spacingDiagsRun (toks : List Token) (trace : List Segment) : List Diag :=
  trace.flatMap (fun g => checkSpacing g.rule (toks.drop g.start) g.len)

end Norm
