/-
Sequential regular expressions: a concatenation of atoms `set{min,max}` where `set` is a
single-character class. This is exactly the shape of the 42-header pattern of
`CheckHeader.check_header` (literals, `.`, `[^ ]`, `*`, `{n}`, groups) — the pattern is
translated from the source on every run into `Generated.headerRegex`.
-/
namespace Norm

inductive CSet
  | any            -- `.` with re.DOTALL
  | anyButNl       -- `.` without DOTALL
  | lit (c : Char)
  | notLit (c : Char)
deriving Repr, DecidableEq

def CSet.mem : CSet → Char → Bool
  | .any, _ => true
  | .anyButNl, c => c != '\n'
  | .lit a, c => a == c
  | .notLit a, c => a != c

structure Atom where
  set : CSet
  min : Nat
  max : Option Nat      -- none = unbounded
deriving Repr, DecidableEq

/-- declarative semantics: the string is the concatenation of one chunk per atom, each chunk
made of characters of the atom's set and of an admissible length -/
inductive MatchesSeq : List Atom → List Char → Prop
  | nil : MatchesSeq [] []
  | cons (a : Atom) (rest : List Atom) (chunk tail : List Char)
      (hset : ∀ c ∈ chunk, a.set.mem c = true) (hmin : a.min ≤ chunk.length)
      (hmax : ∀ m, a.max = some m → chunk.length ≤ m)
      (ht : MatchesSeq rest tail) : MatchesSeq (a :: rest) (chunk ++ tail)

/-- `re.search`: some substring matches -/
def Searches (r : List Atom) (s : List Char) : Prop := ∃ pre mid post, s = pre ++ mid ++ post ∧ MatchesSeq r mid

/-! executable matcher (NFA simulation over (atom index, repetitions so far)) — used by the
driver to validate the translation and assumption A2 against `re.search` -/

/-- ε-closure: from (i, n) one may move to (i+1, 0) when the atom's minimum is reached -/
def closure (r : Array Atom) : Nat → List (Nat × Nat) → List (Nat × Nat)
  | 0, acc => acc
  | fuel + 1, acc =>
    let new := acc.filterMap fun (i, n) =>
      match r[i]? with
      | some a => if a.min ≤ n && !acc.contains (i + 1, 0) then some (i + 1, 0) else none
      | none => none
    let new := new.eraseDups
    if new.isEmpty then acc else closure r fuel (acc ++ new)

def stepNfa (r : Array Atom) (states : List (Nat × Nat)) (c : Char) : List (Nat × Nat) :=
  (states.filterMap fun (i, n) =>
    match r[i]? with
    | some a =>
      if a.set.mem c && (match a.max with | some m => n + 1 ≤ m | none => true)
      then some (i, match a.max with | some _ => n + 1 | none => min (n + 1) a.min) else none
    | none => none).eraseDups

def searchNfa (r : List Atom) (s : List Char) : Bool :=
  let ra := r.toArray
  let n := ra.size
  let start := closure ra (n + 1) [(0, 0)]
  let accepting := fun (st : List (Nat × Nat)) => st.any (fun p => p.1 == n)
  let rec go : List Char → List (Nat × Nat) → Bool
    | [], st => accepting st
    | c :: cs, st =>
      if accepting st then true else
      let st' := closure ra (n + 1) (stepNfa ra st c ++ [(0, 0)])
      go cs st'
  go s start

end Norm
