/-
The rule registry (`norminette/rules/__init__.py::Rules`, `registry.py::Registry.__init__`):
the order of the primaries and of every dependency list is computed by `sorted(...,
reverse=True, key=...)` — a stable sort — from lists whose order is the order in which the
rule modules were imported, i.e. the order of `os.listdir`.
-/
import NormModel.Model.Reports
namespace Norm

/-- `sorted(Primary.__subclasses__(), reverse=True, key=attrgetter("priority"))` -/
def sortPrimaries (l : List (String × Nat)) : List (String × Nat) :=
  sortBy (fun a b => decide (a.2 ≥ b.2)) l

/-- `sorted(dependencies, reverse=True, key=attrgetter("__name__"))` -/
def sortByNameDesc (l : List String) : List String :=
  sortBy (fun a b => decide (b ≤ a)) l

end Norm
