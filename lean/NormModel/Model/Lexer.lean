/-
L0 — the lexer of `norminette/lexer/lexer.py`, transcribed function by function.

Conventions
* the unread input is `rest : List Char` (Python: `source[pos:]`), `pos` is kept as a ghost;
* `popOne` is one outer iteration of `Lexer.pop`; `none` is `UnexpectedEOF`;
* Python loops that consume input are run on a fuel that the callers initialise with the
  input length (+1); `Properties/C05` proves the fuel is never exhausted;
* regular expressions are hand-specialised matchers following `re`'s backtracking order
  (derivation in DESIGN §4.11); the pattern *texts* are re-generated from the source on
  every run and compared with the ones these matchers were written for
  (`Properties/C11.patterns_unchanged`);
* `Uni` gives the Unicode classes `\d` and `\w` of non-ASCII characters (assumption A2).
-/
import NormModel.Model.Reports
import NormModel.Generated.Dictionary
import NormModel.Generated.LexTables
import NormModel.Generated.Catalogue
namespace Norm

structure Token where
  type : String
  line : Nat
  col : Nat
  value : Option String := none
  /-- ghost: raw offsets `[start, stop)` of the characters consumed for this token -/
  start : Nat := 0
  stop : Nat := 0
deriving Repr, DecidableEq, Inhabited

/-- Unicode classes of non-ASCII characters, as `re` sees them. -/
structure Uni where
  digit : Char → Bool := fun _ => false
  word : Char → Bool := fun _ => false

def asciiDigits : List Char := "0123456789".toList
def asciiLetters : List Char := "abcdefghijklmnopqrstuvwxyzABCDEFGHIJKLMNOPQRSTUVWXYZ".toList
def hexLetters : List Char := "abcdefABCDEF".toList
def isAsciiDigit (c : Char) : Bool := asciiDigits.contains c
def isAsciiLetter (c : Char) : Bool := asciiLetters.contains c

/-- `\d` -/
def Uni.isD (u : Uni) (c : Char) : Bool := if c.val < 128 then isAsciiDigit c else u.digit c
/-- `\w` -/
def Uni.isW (u : Uni) (c : Char) : Bool :=
  if c.val < 128 then isAsciiDigit c || isAsciiLetter c || c == '_' else (u.word c || u.digit c)
/-- `[\da-fA-F]` -/
def Uni.isH (u : Uni) (c : Char) : Bool := u.isD c || hexLetters.contains c

def isOctal (c : Char) : Bool := Generated.octalDigits.toList.contains c
def isHexDigit (c : Char) : Bool := Generated.hexadecimalDigits.toList.contains c

def assoc (tbl : List (String × String)) (k : String) : Option String :=
  (tbl.find? (fun p => p.1 == k)).map (·.2)

/-- `errors_dict[name]`; a missing name is a `KeyError` in the code — the table obligation
`C08.lexer_codes_in_catalogue` shows it cannot happen for the names used below. -/
def catText (name : String) : String := (assoc Generated.catalogue name).getD "<KeyError>"

structure LexSt where
  rest : List Char
  pos : Nat := 0
  line : Nat := 1
  col : Nat := 1
  diags : List Diag := []
deriving Repr, Inhabited

def LexSt.addDiag (s : LexSt) (d : Diag) : LexSt := { s with diags := s.diags ++ [d] }

def LexSt.addDiag? (s : LexSt) : Option Diag → LexSt
  | some d => s.addDiag d
  | none => s

def mkDiag (name : String) (level : Level := .error) (hs : List Highlight) : Diag :=
  { name := name, text := catText name, level := level, highlights := hs }

/-- `raw_peek(offset, collect)` -/
def rawPeek (rest : List Char) (off : Nat := 0) (collect : Nat := 1) : Option (List Char) :=
  if off < rest.length then some ((rest.drop off).take collect) else none

/-- `raw_peek(collect=3) in trigraphs` at the head of `l` -/
def triAt (l : List Char) : Option Char :=
  match l with
  | '?' :: '?' :: c2 :: _ =>
    (assoc Generated.trigraphs (String.ofList ['?', '?', c2])).bind (·.toList.head?)
  | _ => none

/-- `raw_peek(collect=2) in digraphs` at the head of `l` -/
def diAt (l : List Char) : Option Char :=
  match l with
  | c0 :: c1 :: _ => (assoc Generated.digraphs (String.ofList [c0, c1])).bind (·.toList.head?)
  | _ => none

/-- one step of `peek`: trigraph (3), else digraph (2), else the raw character (1) -/
def peek1 (rest : List Char) (off : Nat := 0) : Option (Char × Nat) :=
  match triAt (rest.drop off) with
  | some t => some (t, 3)
  | none =>
    match diAt (rest.drop off) with
    | some d => some (d, 2)
    | none =>
      match rest.drop off with
      | c :: _ => some (c, 1)
      | [] => none

/-- `peek(times=2)` as used by `parse_operator`: up to two translated characters. -/
def peek2 (rest : List Char) : Option (List Char × Nat) :=
  match peek1 rest 0 with
  | none => none
  | some (a, sa) =>
    match peek1 rest sa with
    | none => some ([a], sa)
    | some (b, sb) => some ([a, b], sa + sb)

def advance (s : LexSt) (n : Nat) : LexSt := { s with rest := s.rest.drop n, pos := s.pos + n }

/-- The splice loop at the head of `pop`: skips `\⏎` (in either spelling) and returns the
state reached together with the `(char, size)` last peeked; `none` in the second component
is `UnexpectedEOF` (the position has then already moved past the splices). -/
def spliceLoop : Nat → LexSt → LexSt × Option (Char × Nat)
  | 0, s => (s, none)
  | fuel + 1, s =>
    match peek1 s.rest 0 with
    | none => (s, none)
    | some (c, sz) =>
      if c != '\\' then (s, some (c, sz)) else
      match peek1 s.rest sz with
      | none => (s, some (c, sz))
      | some (t, _) =>
        if t != '\n' then (s, some (c, sz))
        else spliceLoop fuel { advance s (sz + 1) with line := s.line + 1, col := 1 }

def simpleEscapes : List Char := "abefnrtv\\\"'?".toList

/-- take raw characters while `p` holds, starting at offset `off` (the octal loop) -/
def takeWhileFrom (rest : List Char) (off : Nat) (p : Char → Bool) : List Char :=
  (rest.drop off).takeWhile p

/-- Escape handling of `pop(use_escape=True)` once `char = '\'` (of raw size `sz`) is
followed by `t ≠ '\n'` whose own spelling has `k` raw characters. Returns the characters of
the escape, its raw size, the diagnostics added and a column adjustment. -/
def escape (s : LexSt) (sz : Nat) (t : Char) (k : Nat) : List Char × Nat × List Diag × Nat :=
  if simpleEscapes.contains t then (['\\', t], sz + k, [], 0)
  else if t == 'x' then
    -- every hexadecimal digit that follows belongs to the escape (C11 6.4.4.4)
    let sz1 := sz + 1
    let ds := takeWhileFrom s.rest sz1 isHexDigit
    if ds.isEmpty then
      (['\\', 'x'], sz1, [mkDiag "NO_HEX_DIGITS" .notice [⟨s.line, s.col + sz1 - 1, some 1, none⟩]], 0)
    else (['\\', 'x'] ++ ds, sz1 + ds.length, [], 0)
  else if isOctal t then
    -- `raw_peek(offset=size)` re-reads from the character after the backslash spelling
    let ds := takeWhileFrom s.rest sz isOctal
    ('\\' :: ds, sz + ds.length, [], 0)
  else
    -- a raw tab after the backslash moves to the next tab stop (3 - (col+sz-1) % 4 extra columns)
    (['\\', t], sz + k, [mkDiag "UNKNOWN_ESCAPE" .notice [⟨s.line, s.col + sz, some 1, none⟩]],
     if t == '\t' then 3 - (s.col + sz - 1) % 4 else 0)

/-- What `pop` does with the `(char, size)` the splice loop stopped on: the escape handling
applies only to a backslash followed by something other than a newline.
Result: characters returned, raw size, diagnostics, column adjustment. -/
def escOf (useEscape : Bool) (s : LexSt) (c : Char) (sz : Nat) : List Char × Nat × List Diag × Nat :=
  if c == '\\' && useEscape then
    match peek1 s.rest sz with
    | some (t, k) => if t != '\n' then escape s sz t k else ([c], sz, [], 0)
    | none => ([c], sz, [], 0)
  else ([c], sz, [], 0)

/-- The tail of one `pop` iteration: newline / tab bookkeeping and the advance. -/
def finishPop (useSpaces : Bool) (s : LexSt) (e : List Char × Nat × List Diag × Nat) :
    LexSt × Option (List Char) :=
  let s := { s with diags := s.diags ++ e.2.2.1 }
  if e.1 == ['\n'] then
    ({ advance s e.2.1 with line := s.line + 1, col := 1 }, some e.1)
  else if e.1 == ['\t'] then
    let spaces := 4 - (s.col - 1) % 4
    ({ advance s e.2.1 with col := s.col + spaces },
     some (if useSpaces then List.replicate spaces ' ' else e.1))
  else
    ({ advance s e.2.1 with col := s.col + e.2.2.2 + e.2.1 }, some e.1)

/-- One outer iteration of `Lexer.pop`.  Second component `none` = `UnexpectedEOF`. -/
def popOne (useSpaces useEscape : Bool) (s : LexSt) : LexSt × Option (List Char) :=
  match spliceLoop (s.rest.length + 1) s with
  | (s, none) => (s, none)
  | (s, some (c, sz)) => finishPop useSpaces s (escOf useEscape s c sz)

/-- `pop(times=n)` (no escapes, no space expansion). -/
def popN : Nat → LexSt → LexSt × Option (List Char)
  | 0, s => (s, some [])
  | n + 1, s =>
    match popOne false false s with
    | (s, none) => (s, none)
    | (s, some cs) =>
      match popN n s with
      | (s, none) => (s, none)
      | (s, some ds) => (s, some (cs ++ ds))

def mkTok (type : String) (s0 s1 : LexSt) (value : Option (List Char)) : Token :=
  { type := type, line := s0.line, col := s0.col, value := value.map String.ofList,
    start := s0.pos, stop := s1.pos }

/-! ### numeric literals -/

structure IntMatch where
  pre : List Char
  const : List Char
  suf : List Char
deriving Repr, DecidableEq

def spanP (p : Char → Bool) (l : List Char) : List Char × List Char := (l.takeWhile p, l.dropWhile p)

/-- `Suffix` group of `INT_LITERAL_PATTERN` at the position after `Constant`. -/
def intSuffix (u : Uni) (lastConst : Option Char) (after : List Char) : List Char :=
  if lastConst == some 'e' || lastConst == some 'E' then
    after.takeWhile (fun c => u.isW c || c == '+' || c == '-' || c == '.')
  else
    match after with
    | c :: tl => if u.isW c then c :: tl.takeWhile (fun c => u.isW c || c == '.') else []
    | [] => []

/-- close an integer match: `Constant` is a `+` group, so it is never empty -/
def intFin (u : Uni) (pre const after : List Char) : Option IntMatch :=
  if const.isEmpty then none else some ⟨pre, const, intSuffix u const.getLast? after⟩

def isXc (c : Char) : Bool := c == 'x' || c == 'X'
def isBc (c : Char) : Bool := c == 'b' || c == 'B'

/-- alternative `0[xX]+` of the prefix, given the text after the `0` -/
def intAltX (u : Uni) (tl : List Char) : Option IntMatch :=
  match tl.takeWhile isXc with
  | [] => none
  | [x] => intFin u ['0', x] ((tl.dropWhile isXc).takeWhile u.isH) ((tl.dropWhile isXc).dropWhile u.isH)
  | xs => intFin u ('0' :: xs) ((tl.dropWhile isXc).takeWhile u.isD) ((tl.dropWhile isXc).dropWhile u.isD)

/-- alternative `0[bB]+` -/
def intAltB (u : Uni) (tl : List Char) : Option IntMatch :=
  match tl.takeWhile isBc with
  | [] => none
  | bs => intFin u ('0' :: bs) ((tl.dropWhile isBc).takeWhile u.isD) ((tl.dropWhile isBc).dropWhile u.isD)

/-- `INT_LITERAL_PATTERN.match(source[pos:])`: the prefix alternatives `0[xX]+`, `0[bB]+`,
`0`, empty are tried in this order; the first one after which `Constant` matches wins. -/
def matchInt (u : Uni) (src : List Char) : Option IntMatch :=
  match src with
  | [] => none
  | '0' :: tl =>
    match intAltX u tl with
    | some m => some m
    | none =>
      match intAltB u tl with
      | some m => some m
      | none =>
        match intFin u ['0'] (tl.takeWhile u.isD) (tl.dropWhile u.isD) with
        | some m => some m
        | none => intFin u [] (src.takeWhile u.isD) (src.dropWhile u.isD)
  | _ :: _ => intFin u [] (src.takeWhile u.isD) (src.dropWhile u.isD)

/-- `_check_bad_prefix(name, bucket)`: one highlight per digit outside the bucket; the
error is only added when there is at least one -/
def badDigits (line col : Nat) (m : IntMatch) (name : String) (bucket : List Char) : List Diag :=
  let hs := (m.const.zipIdx m.pre.length).filterMap fun (c, i) =>
    if bucket.contains c then none else some (⟨line, col + i, some 1, none⟩ : Highlight)
  if hs.isEmpty then [] else [mkDiag name .error hs]

def intDiags (line col : Nat) (total : Nat) (m : IntMatch) : List Diag :=
  let sufS := String.ofList m.suf
  let d1 : List Diag :=
    if Generated.integerSuffixes.contains sufS then []
    else
      let strLen := total - m.suf.length
      match m.suf with
      | c :: _ =>
        if c == '+' || c == '-' then
          [mkDiag "MAXIMAL_MUNCH" .error [⟨line, col + strLen, some 1, some "Perhaps you forgot a space ( )?"⟩]]
        else [mkDiag "INVALID_SUFFIX" .error [⟨line, col + strLen, some m.suf.length, none⟩]]
      | [] => []   -- unreachable: "" is a valid suffix
  let preS := String.ofList m.pre
  let d2 : List Diag :=
    if preS == "0b" || preS == "0B" then badDigits line col m "INVALID_BIN_INT" "01".toList
    else if preS == "0" then badDigits line col m "INVALID_OCT_INT" "01234567".toList
    else if preS == "0x" || preS == "0X" then badDigits line col m "INVALID_HEX_INT" "0123456789abcdefABCDEF".toList
    else []
  d1 ++ d2

inductive FloatKind | exponent | fractional | hexadecimal
deriving Repr, DecidableEq

structure FloatMatch where
  kind : FloatKind
  const : List Char
  exp : List Char
  suf : List Char
deriving Repr, DecidableEq

/-- third alternative of the exponent group: `(?:[L][+-]?(?:TAIL)?)+`, fully greedy.
`tail` returns the length of the optional `(?:…)?` part at the given input. -/
def expIter (isL : Char → Bool) (tail : List Char → Nat) : Nat → List Char → List Char
  | 0, _ => []
  | fuel + 1, l =>
    match l with
    | c :: tl =>
      if isL c then
        let (sign, tl1) : List Char × List Char := match tl with
          | s :: r => if s == '+' || s == '-' then ([s], r) else ([], tl)
          | [] => ([], tl)
        let n := tail tl1
        c :: sign ++ tl1.take n ++ expIter isL tail fuel (tl1.drop n)
      else []
    | [] => []

/-- The `Exponent` alternatives at a position where the group is attempted:
`[L]+[-+]D+ | [L]+D+ | (?:[L][+-]?(?:TAIL)?)+`. Empty result = the group cannot match. -/
def matchExp (isL isD : Char → Bool) (tail : List Char → Nat) (l : List Char) : List Char :=
  let (ls, after) := spanP isL l
  if ls.isEmpty then [] else
  let alt1 : Option (List Char) := match after with
    | s :: r =>
      if s == '+' || s == '-' then
        let ds := r.takeWhile isD
        if ds.isEmpty then none else some (ls ++ [s] ++ ds)
      else none
    | [] => none
  match alt1 with
  | some e => e
  | none =>
    let ds := after.takeWhile isD
    if !ds.isEmpty then ls ++ ds
    else expIter isL tail (l.length + 1) l

def isE (c : Char) : Bool := c == 'e' || c == 'E'
def isP (c : Char) : Bool := c == 'p' || c == 'P'

/-- `(?:[.\d]+)?` -/
def tailDec (u : Uni) (l : List Char) : Nat := (l.takeWhile (fun c => c == '.' || u.isD c)).length

/-- `(?:(?:[.]|[\da-fA-F])+)?` -/
def tailHex (u : Uni) (l : List Char) : Nat := (l.takeWhile (fun c => c == '.' || u.isH c)).length

def floatSuffix (u : Uni) (l : List Char) : List Char :=
  l.takeWhile (fun c => u.isW c || c == '.')

def matchFloatExp (u : Uni) (src : List Char) : Option FloatMatch :=
  let (ds, after) := spanP u.isD src
  if ds.isEmpty then none else
  let e := matchExp isE u.isD (tailDec u) after
  if e.isEmpty then none else
  some ⟨.exponent, ds, e, floatSuffix u (after.drop e.length)⟩

def matchFloatFrac (u : Uni) (src : List Char) : Option FloatMatch :=
  let (ds, after) := spanP u.isD src
  let const? : Option (List Char × List Char) :=
    match after with
    | '.' :: r =>
      let fs := r.takeWhile u.isD
      if !fs.isEmpty then some (ds ++ '.' :: fs, r.drop fs.length)
      else if !ds.isEmpty then some (ds ++ ['.'], r)
      else none
    | _ => none
  match const? with
  | none => none
  | some (c, rest) =>
    let e := matchExp isE u.isD (tailDec u) rest
    some ⟨.fractional, c, e, floatSuffix u (rest.drop e.length)⟩

/-- `Constant` of the hexadecimal pattern after the `0[xX]+`:
`(?:[\da-fA-F]+(?:\.[\da-fA-F]*)?|\.[\da-fA-F]+)`; returns the matched text and the rest -/
def hexMantissa (u : Uni) (a1 : List Char) : Option (List Char × List Char) :=
  match a1.takeWhile u.isH with
  | [] =>
    -- second alternative: `.` followed by at least one hex digit
    match a1 with
    | '.' :: r =>
      match r.takeWhile u.isH with
      | [] => none
      | fs => some ('.' :: fs, r.drop fs.length)
    | _ => none
  | hs =>
    match a1.dropWhile u.isH with
    | '.' :: r => some (hs ++ '.' :: r.takeWhile u.isH, r.dropWhile u.isH)
    | a2 => some (hs, a2)

def matchFloatHex (u : Uni) (src : List Char) : Option FloatMatch :=
  match src with
  | '0' :: tl =>
    match tl.takeWhile (fun c => c == 'x' || c == 'X') with
    | [] => none
    | xs =>
      match hexMantissa u (tl.dropWhile (fun c => c == 'x' || c == 'X')) with
      | none => none
      | some (mant, a3) =>
        let e := matchExp isP u.isH (tailHex u) a3
        some ⟨.hexadecimal, '0' :: xs ++ mant, e, floatSuffix u (a3.drop e.length)⟩
  | _ => none

/-- `str.strip(chars)` -/
def stripChars (bucket : List Char) (l : List Char) : List Char :=
  ((l.dropWhile bucket.contains).reverse.dropWhile bucket.contains).reverse

/-- `re.match(r"[eE][-+]?\d+", exponent)` -/
def goodExponent (u : Uni) (e : List Char) : Bool :=
  match e with
  | c :: tl =>
    isE c && (match tl with
      | s :: r => if s == '+' || s == '-' then (match r with | d :: _ => u.isD d | [] => false) else u.isD s
      | [] => false)
  | [] => false

/-- `re.match(r"[pP][-+]?\d+", exponent)` -/
def goodBinExponent (u : Uni) (e : List Char) : Bool :=
  match e with
  | c :: tl =>
    isP c && (match tl with
      | s :: r => if s == '+' || s == '-' then (match r with | d :: _ => u.isD d | [] => false) else u.isD s
      | [] => false)
  | [] => false

inductive FloatRes
  | noMatch                     -- the function returns None
  | tok (m : FloatMatch) (d : Option Diag)

def floatLogic (u : Uni) (line col : Nat) (src : List Char) : FloatRes :=
  let m? := match matchFloatExp u src with
    | some m => some m
    | none => match matchFloatFrac u src with
      | some m => some m
      | none => matchFloatHex u src
  match m? with
  | none => .noMatch
  | some m =>
    let suffix := m.suf.length
    let column := col + m.const.length
    let badhex := stripChars (Generated.hexadecimalDigits.toList ++ ['.']) m.const
    if m.kind != .hexadecimal && !m.exp.isEmpty && !goodExponent u m.exp then
      .tok m (some (mkDiag "BAD_EXPONENT" .error [⟨line, column, some (m.exp.length + suffix), none⟩]))
    else if m.kind == .hexadecimal && !m.const.contains '.' && m.exp.isEmpty then .noMatch
    else if m.kind == .hexadecimal && !(badhex == ['x'] || badhex == ['X']) then
      .tok m (some (mkDiag "MULTIPLE_X" .error [⟨line, column - m.const.length + 1, some badhex.length, none⟩]))
    else if m.kind == .hexadecimal && !m.exp.isEmpty && !goodBinExponent u m.exp then
      .tok m (some (mkDiag "BAD_EXPONENT" .error [⟨line, column, some (m.exp.length + suffix), none⟩]))
    else if m.const.count '.' == 1 && m.suf.count '.' > 0 then
      .tok m (some (mkDiag "MULTIPLE_DOTS" .error [⟨line, column, some (m.exp.length + suffix), none⟩]))
    else if !Generated.floatSuffixes.contains (String.ofList m.suf) then
      .tok m (some (mkDiag "BAD_FLOAT_SUFFIX" .error [⟨line, column + m.exp.length, some suffix, none⟩]))
    else .tok m none

/-- Result of one sub-lexer: `none` = "not mine" (Python returns `None`). -/
abbrev SubLex := LexSt → Option (LexSt × Token)

def parseFloat (u : Uni) : SubLex := fun s =>
  match s.rest with
  | [] => none
  | _ =>
    match floatLogic u s.line s.col s.rest with
    | .noMatch => none
    | .tok m d =>
      let s1 := s.addDiag? d
      match popN (m.const.length + m.exp.length + m.suf.length) s1 with
      | (_, none) => none    -- unreachable (`C05`): the matched characters are there
      | (s2, some v) => some (s2, mkTok "CONSTANT" s s2 (some v))

def parseInt (u : Uni) : SubLex := fun s =>
  match matchInt u s.rest with
  | none => none
  | some m =>
    match popN (m.pre.length + m.const.length + m.suf.length) s with
    | (_, none) => none      -- unreachable
    | (s2, some v) =>
      let s3 := { s2 with diags := s2.diags ++ intDiags s.line s.col v.length m }
      some (s3, mkTok "CONSTANT" s s3 (some v))

/-! ### character and string literals -/

/-- The prefix loop shared by the two literal parsers: `some n` = pop `n` prefix
characters, `none` = return None (input exhausted while looking). -/
def quotePrefix (q : Char) (rest : List Char) : List String → Option Nat
  | [] => some 0
  | p :: ps =>
    let pl := p.toList
    match rawPeek rest 0 (pl.length + 1) with
    | none => none
    | some r =>
      if pl.isPrefixOf r && r.getLast? == some q then some pl.length
      else quotePrefix q rest ps

def charHint : String := "Perhaps you forgot a single quote (')?"
def charAsStringHint : String :=
  "Perhaps you want a string (double quote, \") instead of a char (single quote, ')?"
def strHint : String := "Perhaps you forgot a double quote (\")?"

/-- body loop of `parse_char_literal`; returns state, value, number of `chars` -/
def charLoop (line col : Nat) : Nat → LexSt → List Char → Nat → LexSt × List Char × Nat
  | 0, s, v, n => (s, v, n)
  | fuel + 1, s, v, n =>
    match popOne false true s with
    | (s1, none) =>
      (s1.addDiag (mkDiag "UNEXPECTED_EOF_CHR" .error [⟨line, col, some v.length, none⟩]), v, n)
    | (s1, some ch) =>
      if ch == ['\n'] then
        -- the newline is left in the input (position restored to before the `pop`)
        ({ s with diags := s1.diags }.addDiag (mkDiag "UNEXPECTED_EOL_CHR" .error
          [⟨line, col, some v.length, none⟩, ⟨line, col + v.length, some 1, some charHint⟩]), v, n)
      else if ch == ['\''] then (s1, v ++ ch, n)
      else charLoop line col fuel s1 (v ++ ch) (n + 1)

def endsWithTwoQuotes (v : List Char) : Bool :=
  match v.reverse with
  | '\'' :: '\'' :: _ => true
  | _ => false

def parseChar : SubLex := fun s =>
  match quotePrefix '\'' s.rest Generated.quotePrefixes with
  | none => none
  | some n =>
    match popN n s with
    | (_, none) => none
    | (s1, some pre) =>
      if rawPeek s1.rest != some ['\''] then none else
      match popOne false false s1 with
      | (_, none) => none
      | (s2, some q) =>
        let (s3, v, chars) := charLoop s.line s.col (s2.rest.length + 1) s2 (pre ++ q) 0
        let s4 := if chars == 0 && endsWithTwoQuotes v then
            s3.addDiag (mkDiag "EMPTY_CHAR" .error [⟨s.line, s.col, some v.length, none⟩]) else s3
        let s5 := if chars > 1 && v.getLast? == some '\'' then
            s4.addDiag (mkDiag "CHAR_AS_STRING" .error
              [⟨s.line, s.col, some v.length, none⟩, ⟨s.line, s.col, some 1, some charAsStringHint⟩])
          else s4
        some (s5, mkTok "CHAR_CONST" s s5 (some v))

/-- body loop of `parse_string_literal`; the Bool is `eof` -/
def strLoop : Nat → LexSt → List Char → LexSt × List Char × Bool
  | 0, s, v => (s, v, true)
  | fuel + 1, s, v =>
    match peek1 s.rest 0 with
    | none => (s, v, true)
    | some _ =>
      match popOne false true s with
      | (s1, none) => (s1, v, true)
      | (s1, some ch) =>
        if ch == ['"'] then (s1, v ++ ch, false) else strLoop fuel s1 (v ++ ch)

def parseString : SubLex := fun s =>
  match peek1 s.rest 0 with
  | none => none
  | some _ =>
  match quotePrefix '"' s.rest Generated.quotePrefixes with
  | none => none
  | some n =>
    match popN n s with
    | (_, none) => none
    | (s1, some pre) =>
      if rawPeek s1.rest != some ['"'] then none else
      match popOne false false s1 with
      | (_, none) => none
      | (s2, some q) =>
        let (s3, v, eof) := strLoop (s2.rest.length + 1) s2 (pre ++ q)
        let s4 := if eof then
            s3.addDiag (mkDiag "UNEXPECTED_EOF_STR" .error
              [⟨s.line, s.col, some v.length, none⟩, ⟨s.line, s.col + v.length, some 1, some strHint⟩])
          else s3
        some (s4, mkTok "STRING" s s4 (some v))

/-! ### identifiers, whitespace, comments, operators, brackets -/

def isIdStart (c : Char) : Bool := isAsciiLetter c || c == '_'
def isIdChar (c : Char) : Bool := isAsciiLetter c || isAsciiDigit c || c == '_'

def identLoop : Nat → LexSt → List Char → LexSt × List Char
  | 0, s, v => (s, v)
  | fuel + 1, s, v =>
    match s.rest with
    | c :: _ =>
      if isIdChar c then
        match popOne false false s with
        | (s1, none) => (s1, v)
        | (s1, some ch) => identLoop fuel s1 (v ++ ch)
      else (s, v)
    | [] => (s, v)

def parseIdent : SubLex := fun s =>
  match s.rest with
  | c :: _ =>
    if !isIdStart c then none else
    match popOne false false s with
    | (_, none) => none
    | (s1, some ch) =>
      let (s2, v) := identLoop (s1.rest.length + 1) s1 ch
      match assoc Generated.keywords (String.ofList v) with
      | some kw => some (s2, mkTok kw s s2 none)
      | none => some (s2, mkTok "IDENTIFIER" s s2 (some v))
  | [] => none

def parseWhitespace : SubLex := fun s =>
  match s.rest with
  | c :: _ =>
    let ty? := if c == ' ' then some "SPACE" else if c == '\t' then some "TAB"
      else if c == '\n' then some "NEWLINE" else none
    match ty? with
    | none => none
    | some ty =>
      match popOne false false s with
      | (_, none) => none
      | (s1, some _) => some (s1, mkTok ty s s1 none)
  | [] => none

def lineCommentLoop : Nat → LexSt → List Char → LexSt × List Char
  | 0, s, v => (s, v)
  | fuel + 1, s, v =>
    match peek1 s.rest 0 with
    | none => (s, v)
    | some (c, _) =>
      if c == '\n' then (s, v) else
      match popOne false false s with
      | (s1, none) => (s1, v)
      | (s1, some ch) => lineCommentLoop fuel s1 (v ++ ch)

def parseLineComment : SubLex := fun s =>
  if rawPeek s.rest 0 2 != some ['/', '/'] then none else
  match popN 2 s with
  | (_, none) => none
  | (s1, some v0) =>
    let (s2, v) := lineCommentLoop (s1.rest.length + 1) s1 v0
    some (s2, mkTok "COMMENT" s s2 (some v))

def endsWithStarSlash (v : List Char) : Bool :=
  match v.reverse with
  | '/' :: '*' :: _ => true
  | _ => false

def multiCommentLoop : Nat → LexSt → List Char → LexSt × List Char × Bool
  | 0, s, v => (s, v, true)
  | fuel + 1, s, v =>
    match peek1 s.rest 0 with
    | none => (s, v, true)
    | some _ =>
      match popOne true false s with
      | (s1, none) => (s1, v, true)
      | (s1, some ch) =>
        let v1 := v ++ ch
        if endsWithStarSlash v1 && decide (v1.length ≥ 4) then (s1, v1, false) else multiCommentLoop fuel s1 v1

def parseMultiComment : SubLex := fun s =>
  if rawPeek s.rest 0 2 != some ['/', '*'] then none else
  match popN 2 s with
  | (_, none) => none
  | (s1, some v0) =>
    let (s2, v, eof) := multiCommentLoop (s1.rest.length + 1) s1 v0
    let s3 := if eof then
        s2.addDiag (mkDiag "UNEXPECTED_EOF_MC" .error [⟨s.line, s.col, some v.length, none⟩]) else s2
    some (s3, mkTok "MULT_COMMENT" s s3 (some v))

def opChars : List Char := "+-*/,<>^&|!=%;:.~?#".toList
def opChars2 : List Char := ".+-*/%<>^&|!=".toList
def opChars3 : List Char := "+-<>=&|".toList

/-- `Token(operators[self.pop(times=n)], pos)`; outer `none` = `KeyError` -/
def opFin (s : LexSt) (n : Nat) : Option (Option (LexSt × Token)) :=
  match popN n s with
  | (_, none) => some none   -- unreachable
  | (s1, some v) =>
    match assoc Generated.operators (String.ofList v) with
    | some ty => some (some (s1, mkTok ty s s1 none))
    | none => none

/-- `parse_operator`; a miss in `operators[...]` is a `KeyError` (outer `none`), see
`C05.operator_keys`. -/
def parseOperator (s : LexSt) : Option (Option (LexSt × Token)) :=
  match peek1 s.rest 0 with
  | none => some none
  | some (c, _) =>
    if !opChars.contains c then some none else
    if opChars2.contains c then
      let r3 := rawPeek s.rest 0 3
      if r3 == some ">>=".toList || r3 == some "<<=".toList || r3 == some "...".toList then opFin s 3 else
      match peek2 s.rest with
      | none => some none
      | some (temp, _) =>
        if temp == ">>".toList || temp == "<<".toList || temp == "->".toList then opFin s 2
        else if temp == [c, '='] && (assoc Generated.operators (String.ofList temp)).isSome then opFin s 2
        else if opChars3.contains c && temp == [c, c] then opFin s 2
        else opFin s 1
    else opFin s 1

def parseBrackets : SubLex := fun s =>
  match peek1 s.rest 0 with
  | none => none
  | some (c, _) =>
    match assoc Generated.brackets (String.ofList [c]) with
    | none => none
    | some ty =>
      match popOne false false s with
      | (_, none) => none
      | (s1, some _) => some (s1, mkTok ty s s1 none)

/-! ### `get_next_token` and the token stream -/

/-- the inter-token splice skip at the head of `get_next_token` -/
def skipSplices : Nat → LexSt → LexSt
  | 0, s => s
  | fuel + 1, s =>
    if rawPeek s.rest 0 2 == some ['\\', '\n'] then
      skipSplices fuel { advance s 2 with line := s.line + 1, col := 1 }
    else if rawPeek s.rest 0 4 == some ['?', '?', '/', '\n'] then
      skipSplices fuel { advance s 4 with line := s.line + 1, col := 1 }
    else s

inductive LexExc | keyError | outOfFuel
deriving Repr, DecidableEq

/-- what one round of `get_next_token` produced -/
inductive Item
  | tok (t : Token)
  | bad (c : Char) (at_ : Nat)            -- BAD_LEXEME, one raw character skipped
deriving Repr

/-- The parsers in the order of `Lexer.parsers` (checked against `Generated.parsers`). -/
def trySubLexers (u : Uni) (s : LexSt) : Except LexExc (Option (LexSt × Token)) :=
  match parseFloat u s with
  | some r => .ok (some r)
  | none =>
  match parseInt u s with
  | some r => .ok (some r)
  | none =>
  match parseChar s with
  | some r => .ok (some r)
  | none =>
  match parseString s with
  | some r => .ok (some r)
  | none =>
  match parseIdent s with
  | some r => .ok (some r)
  | none =>
  match parseWhitespace s with
  | some r => .ok (some r)
  | none =>
  match parseLineComment s with
  | some r => .ok (some r)
  | none =>
  match parseMultiComment s with
  | some r => .ok (some r)
  | none =>
  match parseOperator s with
  | none => .error .keyError
  | some (some r) => .ok (some r)
  | some none => .ok (parseBrackets s)

def badLexeme (s : LexSt) (c : Char) : LexSt :=
  let d : Diag := { name := "BAD_LEXEME",
                    text := "No matchable token for '" ++ String.ofList [c] ++ "' lexeme",
                    level := .error, highlights := [⟨s.line, s.col, some 1, none⟩] }
  { (advance s 1).addDiag d with col := s.col + 1 }

/-- The whole token stream (`list(Lexer(file))`), with bad lexemes kept as items. -/
def lexItems (u : Uni) : Nat → LexSt → Except LexExc (List Item × LexSt)
  | 0, _ => .error .outOfFuel
  | fuel + 1, s =>
    let s := skipSplices (s.rest.length + 1) s
    match trySubLexers u s with
    | .error e => .error e
    | .ok (some (s1, t)) =>
      match lexItems u fuel s1 with
      | .error e => .error e
      | .ok (items, sf) => .ok (Item.tok t :: items, sf)
    | .ok none =>
      match s.rest with
      | [] => .ok ([], s)
      | c :: _ =>
        match lexItems u fuel (badLexeme s c) with
        | .error e => .error e
        | .ok (items, sf) => .ok (Item.bad c s.pos :: items, sf)

def Item.tok? : Item → Option Token
  | .tok t => some t
  | .bad _ _ => none

structure LexResult where
  tokens : List Token
  diags : List Diag
  items : List Item
deriving Repr

/-- `list(Lexer(File(name, src)))` together with the lexical diagnostics. -/
def lex (u : Uni) (src : List Char) : Except LexExc LexResult :=
  match lexItems u (src.length + 1) { rest := src } with
  | .error e => .error e
  | .ok (items, sf) => .ok ⟨items.filterMap Item.tok?, sf.diags, items⟩

end Norm
