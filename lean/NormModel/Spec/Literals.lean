/-
Spec (from C11 §6.4.4.1 and the extensions named by property C11, not from the code):
integer constants in the four bases with the suffix table; simple floating constants.
-/
namespace Norm.Spec

def decDigits : List Char := "0123456789".toList
def octDigits : List Char := "01234567".toList
def binDigits : List Char := "01".toList
def hexDigits : List Char := "0123456789abcdefABCDEF".toList
def nonzeroDigits : List Char := "123456789".toList
def isDec (c : Char) : Bool := decDigits.contains c
def isOct (c : Char) : Bool := octDigits.contains c
def isBin (c : Char) : Bool := binDigits.contains c
def isHex (c : Char) : Bool := hexDigits.contains c
/-- ASCII letters, digits and underscore -/
def wordChars : List Char := "abcdefghijklmnopqrstuvwxyzABCDEFGHIJKLMNOPQRSTUVWXYZ0123456789_".toList

/-- integer suffixes: u, l, ll, z, wb, i64 and their combinations with u, in the case and
order variants C allows (both letters of `ll`/`wb`/`i64` in the same case) -/
def integerSuffixes : List String :=
  ["", "u", "U", "l", "L", "ll", "LL", "z", "Z", "wb", "WB", "i64", "I64",
   "ul", "uL", "Ul", "UL", "lu", "lU", "Lu", "LU",
   "ull", "uLL", "Ull", "ULL", "llu", "llU", "LLu", "LLU",
   "uz", "uZ", "Uz", "UZ", "zu", "zU", "Zu", "ZU",
   "uwb", "uWB", "Uwb", "UWB", "wbu", "wbU", "WBu", "WBU",
   "ui64", "uI64", "Ui64", "UI64", "i64u", "i64U", "I64u", "I64U"]

inductive IntBase | dec | oct | hex (x : Char) | bin (b : Char)
deriving Repr, DecidableEq

/-- an integer constant: base, digit string, suffix -/
structure IntConst where
  base : IntBase
  digits : List Char
  suffix : String
deriving Repr

/-- well-formedness per C11 §6.4.4.1 (+ `0b`) -/
def IntConst.WF (k : IntConst) : Prop :=
  k.suffix ∈ integerSuffixes ∧
  match k.base with
  | .dec => (∃ d ds, k.digits = d :: ds ∧ d ∈ nonzeroDigits ∧ ∀ c ∈ ds, isDec c = true)
  | .oct => ∀ c ∈ k.digits, isOct c = true                 -- rendered with a leading `0`
  | .hex x => (x = 'x' ∨ x = 'X') ∧ k.digits ≠ [] ∧ ∀ c ∈ k.digits, isHex c = true
  | .bin b => (b = 'b' ∨ b = 'B') ∧ k.digits ≠ [] ∧ ∀ c ∈ k.digits, isBin c = true

def IntConst.body (k : IntConst) : List Char :=
  match k.base with
  | .dec => k.digits
  | .oct => '0' :: k.digits
  | .hex x => '0' :: x :: k.digits
  | .bin b => '0' :: b :: k.digits

def IntConst.render (k : IntConst) : List Char := k.body ++ k.suffix.toList

/-- characters that cannot start a suffix without changing how the digits before it are read: a digit, a
hexadecimal letter, the base letters and the exponent letters -/
def suffixHeadBad : List Char := "0123456789abcdefABCDEFxXbBeEpP".toList

/-- the shape of a suffix, known or unknown: letters, digits and underscores, not starting with one of
`suffixHeadBad` -/
def suffixShape (s : List Char) : Bool :=
  s.all (fun c => wordChars.contains c) && (match s with | c :: _ => !suffixHeadBad.contains c | [] => true)

/-- what is taken for ONE integer constant, well-formed or not: as `WF`, except that the suffix is any text of
suffix shape (known or unknown) and that the digits after `0` / `0b` are any decimal digits (an `8` in an octal
constant, a `2` in a binary one: the "digit not allowed in its base" family) -/
def IntConst.Shape (k : IntConst) : Prop :=
  suffixShape k.suffix.toList = true ∧
  match k.base with
  | .dec => (∃ d ds, k.digits = d :: ds ∧ d ∈ nonzeroDigits ∧ ∀ c ∈ ds, isDec c = true)
  | .oct => ∀ c ∈ k.digits, isDec c = true
  | .hex x => (x = 'x' ∨ x = 'X') ∧ k.digits ≠ [] ∧ ∀ c ∈ k.digits, isHex c = true
  | .bin b => (b = 'b' ∨ b = 'B') ∧ k.digits ≠ [] ∧ ∀ c ∈ k.digits, isDec c = true

/-- what may follow a constant without extending it: not an identifier character, not a
dot, not a sign (a sign after `…e` would be a maximal-munch error), not a quote -/
def boundaryOK (rest : List Char) : Prop :=
  match rest with
  | [] => True
  | c :: _ => c.val < 128 ∧ c ∉ wordChars ∧ c ≠ '.' ∧ c ≠ '+' ∧ c ≠ '-'

/-! ### decimal floating constants (C11 §6.4.4.2) -/

/-- floating suffixes of the standard -/
def floatSuffixes : List String := ["", "f", "F", "l", "L"]

/-- exponent part `e[+-]?D+` -/
structure ExpPart where
  e : Char
  sign : Option Char
  digits : List Char
deriving Repr

def ExpPart.WF (x : ExpPart) : Prop :=
  (x.e = 'e' ∨ x.e = 'E') ∧ (∀ s, x.sign = some s → s = '+' ∨ s = '-') ∧
  x.digits ≠ [] ∧ ∀ c ∈ x.digits, c ∈ decDigits

def ExpPart.render (x : ExpPart) : List Char := x.e :: (x.sign.toList ++ x.digits)

def ExpPart.renderOpt : Option ExpPart → List Char
  | some y => y.render
  | none => []

/-- `D+ Exp` and `D* . D+ Exp?` / `D+ . Exp?` -/
inductive DecFloat
  | exp (ip : List Char) (x : ExpPart) (sfx : String)
  | frac (ip fp : List Char) (x : Option ExpPart) (sfx : String)
deriving Repr

def DecFloat.WF : DecFloat → Prop
  | .exp ip x sfx => ip ≠ [] ∧ (∀ c ∈ ip, c ∈ decDigits) ∧ x.WF ∧ sfx ∈ floatSuffixes
  | .frac ip fp x sfx => (ip ≠ [] ∨ fp ≠ []) ∧ (∀ c ∈ ip, c ∈ decDigits) ∧ (∀ c ∈ fp, c ∈ decDigits) ∧
      (∀ y, x = some y → y.WF) ∧ sfx ∈ floatSuffixes

def DecFloat.render : DecFloat → List Char
  | .exp ip x sfx => ip ++ x.render ++ sfx.toList
  | .frac ip fp x sfx => ip ++ '.' :: fp ++ ExpPart.renderOpt x ++ sfx.toList

/-! ### hexadecimal floating constants (C11 §6.4.4.2) -/

/-- binary exponent part `[pP][+-]?D+` (mandatory in a hexadecimal floating constant) -/
structure BinExp where
  p : Char
  sign : Option Char
  digits : List Char
deriving Repr

def BinExp.WF (x : BinExp) : Prop :=
  (x.p = 'p' ∨ x.p = 'P') ∧ (∀ s, x.sign = some s → s = '+' ∨ s = '-') ∧
  x.digits ≠ [] ∧ ∀ c ∈ x.digits, c ∈ decDigits

def BinExp.render (x : BinExp) : List Char := x.p :: (x.sign.toList ++ x.digits)

/-- `0[xX] ( H+ | H* . H+ | H+ . ) BinExp FSuf`: `frac = none` is the form without a dot -/
structure HexFloat where
  x : Char
  ip : List Char
  frac : Option (List Char)
  exp : BinExp
  sfx : String
deriving Repr

/-- the fraction part as text -/
def fracText : Option (List Char) → List Char
  | none => []
  | some fp => '.' :: fp

/-- `H+` without a dot, or with a dot and at least one digit on one side -/
def fracOK (ip : List Char) : Option (List Char) → Prop
  | none => ip ≠ []
  | some fp => (∀ c ∈ fp, c ∈ hexDigits) ∧ (ip ≠ [] ∨ fp ≠ [])

def HexFloat.WF (k : HexFloat) : Prop :=
  (k.x = 'x' ∨ k.x = 'X') ∧ (∀ c ∈ k.ip, c ∈ hexDigits) ∧ fracOK k.ip k.frac ∧ k.exp.WF ∧ k.sfx ∈ floatSuffixes

def HexFloat.mant (k : HexFloat) : List Char := k.ip ++ fracText k.frac

def HexFloat.render (k : HexFloat) : List Char :=
  '0' :: k.x :: (k.mant ++ (k.exp.render ++ k.sfx.toList))

end Norm.Spec
