/- Spec (C11 §6.4.6 digraphs, §5.2.1.1 trigraphs) — written from the standard. -/
namespace Norm.Spec

def digraphs : List (String × String) :=
  [("<%", "{"), ("%>", "}"), ("<:", "["), (":>", "]"), ("%:", "#")]

def trigraphs : List (String × String) :=
  [("??<", "{"), ("??>", "}"), ("??(", "["), ("??)", "]"), ("??=", "#"), ("??/", "\\"), ("??'", "^"),
   ("??!", "|"), ("??-", "~")]

end Norm.Spec
