/-
Spec (from the property text of C09, not from the code): the visual position of a raw
offset — 1-based line, 1-based column, tab stops every 4 columns, every other raw
character (including each character of a trigraph) one column.
-/
namespace Norm.Spec

def advPos1 (p : Nat × Nat) (c : Char) : Nat × Nat :=
  if c = '\n' then (p.1 + 1, 1)
  else if c = '\t' then (p.1, p.2 + (4 - (p.2 - 1) % 4))
  else (p.1, p.2 + 1)

def advPos (p : Nat × Nat) (cs : List Char) : Nat × Nat := cs.foldl advPos1 p

/-- (line, column) of the raw offset `k` of `src`. -/
def visualPos (src : List Char) (k : Nat) : Nat × Nat := advPos (1, 1) (src.take k)

end Norm.Spec
