/-
Spec (from the property text of C10, not from the code): what it means for the text of a token to
be "the source text up to the documented normalisations".  A slice of raw characters is READ as
a sequence of characters by steps, each of which is one of

  * a character read as itself,
  * a trigraph or a digraph (tables of `Spec/Spellings.lean`) read as its standard character,
  * a line splice — a backslash, in either spelling, directly followed by a newline — read as nothing,
  * (inside block comments only) a tab read as the blanks up to the next tab stop.

`Den tabs p raw out`: starting at visual position `p`, the raw characters `raw` can be read as `out`.
Nothing is dropped, duplicated or reordered by construction: the steps consume `raw` left to right
and produce `out` left to right.
-/
import NormModel.Spec.Position
import NormModel.Spec.Spellings
namespace Norm.Spec

inductive Den1 (tabs : Bool) (col : Nat) : List Char → List Char → Prop
  | plain (c : Char) : Den1 tabs col [c] [c]
  | tri (p : String × String) (c : Char) (hp : p ∈ trigraphs) (hc : p.2.toList.head? = some c) :
      Den1 tabs col p.1.toList [c]
  | di (p : String × String) (c : Char) (hp : p ∈ digraphs) (hc : p.2.toList.head? = some c) :
      Den1 tabs col p.1.toList [c]
  | splice (bs : List Char) (hb : Den1 tabs col bs ['\\']) : Den1 tabs col (bs ++ ['\n']) []
  | tab (h : tabs = true) : Den1 tabs col ['\t'] (List.replicate (4 - (col - 1) % 4) ' ')

inductive Den (tabs : Bool) : Nat × Nat → List Char → List Char → Prop
  | nil (p : Nat × Nat) : Den tabs p [] []
  | cons (p : Nat × Nat) (r o raw out : List Char) :
      Den1 tabs p.2 r o → Den tabs (advPos p r) raw out → Den tabs p (r ++ raw) (o ++ out)

end Norm.Spec
