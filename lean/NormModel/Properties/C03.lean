/-
C03 — numeric limits are enforced exactly at their boundary.
-/
import NormModel.Model.Limits
import NormModel.Proofs.Checks
import NormModel.Properties.C09
import NormModel.Properties.C19
import NormModel.Generated.Rules
namespace Norm.C03
open Norm Spec

/-- visual width of a line (without its newline): columns it occupies, tab stops every 4 -/
def lineWidth (l : List Char) : Nat := (advPos (1, 1) l).2 - 1

theorem checkLineLen_mem (toks : List (Nat × Nat)) (seen : List Nat) (l : Nat) :
    l ∈ checkLineLen toks seen ↔ l ∉ seen ∧ ∃ t ∈ toks, t.1 = l ∧ 81 < t.2 := by
  induction toks generalizing seen with
  | nil => simp [checkLineLen]
  | cons t rest ih =>
    obtain ⟨tl, tc⟩ := t
    unfold checkLineLen
    by_cases hc : 81 < tc
    · by_cases hs : tl ∈ seen
      · -- already seen: skipped
        have : (decide (81 < tc) && !seen.contains tl) = false := by simp [hs]
        simp only [this, Bool.false_eq_true, ↓reduceIte]
        rw [ih]
        constructor
        · rintro ⟨h1, t, ht, h2, h3⟩; exact ⟨h1, t, List.mem_cons_of_mem _ ht, h2, h3⟩
        · rintro ⟨h1, t, ht, h2, h3⟩
          refine ⟨h1, ?_⟩
          rcases List.mem_cons.mp ht with rfl | ht
          · simp only at h2; subst h2; exact absurd hs h1
          · exact ⟨t, ht, h2, h3⟩
      · have : (decide (81 < tc) && !seen.contains tl) = true := by simp [hc, hs]
        simp only [this, ↓reduceIte, List.mem_cons]
        rw [ih]
        constructor
        · rintro (rfl | ⟨h1, t, ht, h2, h3⟩)
          · exact ⟨hs, (l, tc), Or.inl rfl, rfl, hc⟩
          · exact ⟨fun hm => h1 (List.mem_cons_of_mem _ hm), t, Or.inr ht, h2, h3⟩
        · rintro ⟨h1, t, ht, h2, h3⟩
          by_cases hl : l = tl
          · exact Or.inl hl
          · right
            refine ⟨?_, ?_⟩
            · intro hm
              rcases List.mem_cons.mp hm with h | h
              · exact hl h
              · exact h1 h
            · rcases ht with rfl | ht
              · simp only at h2; exact absurd h2.symm hl
              · exact ⟨t, ht, h2, h3⟩
    · have : (decide (81 < tc) && !seen.contains tl) = false := by simp [hc]
      simp only [this, Bool.false_eq_true, ↓reduceIte]
      rw [ih]
      constructor
      · rintro ⟨h1, t, ht, h2, h3⟩; exact ⟨h1, t, List.mem_cons_of_mem _ ht, h2, h3⟩
      · rintro ⟨h1, t, ht, h2, h3⟩
        refine ⟨h1, ?_⟩
        rcases List.mem_cons.mp ht with rfl | ht
        · simp only at h3; exact absurd h3 hc
        · exact ⟨t, ht, h2, h3⟩

/-- **`CheckLineLen` reports a line iff some token of the statement on that line starts
beyond column 81** — for every statement. -/
theorem linelen_iff (toks : List (Nat × Nat)) (l : Nat) :
    l ∈ checkLineLen toks [] ↔ ∃ t ∈ toks, t.1 = l ∧ 81 < t.2 := by
  rw [checkLineLen_mem]; simp

/-- each line is reported at most once per statement -/
theorem linelen_nodup (toks : List (Nat × Nat)) (seen : List Nat) : (checkLineLen toks seen).Nodup := by
  induction toks generalizing seen with
  | nil => simp [checkLineLen]
  | cons t rest ih =>
    obtain ⟨tl, tc⟩ := t
    unfold checkLineLen
    split
    · rw [List.nodup_cons]
      refine ⟨?_, ih _⟩
      rw [checkLineLen_mem]; simp
    · exact ih _

/-- **The NEWLINE token that ends a line of width `w` is at column `w + 1`** (whatever
precedes the line), so by `linelen_iff` a code line ending in a newline is reported iff its
width exceeds 80 — tabs at any offset included. -/
theorem newline_column (pre line : List Char) (h : pre = [] ∨ pre.getLast? = some '\n') :
    (visualPos (pre ++ line ++ ['\n']) (pre.length + line.length)).2 = lineWidth line + 1 := by
  have := C19.visualPos_prefix pre (line ++ ['\n']) line.length h
  rw [List.append_assoc, this]
  simp only [visualPos, List.take_left']
  unfold lineWidth
  have hpos : 1 ≤ (advPos (1, 1) line).2 := by
    have mono : ∀ (l : List Char) (p : Nat × Nat), 1 ≤ p.2 → 1 ≤ (advPos p l).2 := by
      intro l
      induction l with
      | nil => intro p hp; simpa [advPos] using hp
      | cons c cs ih =>
        intro p hp
        simp only [advPos, List.foldl_cons] at ih ⊢
        apply ih
        unfold advPos1; split
        · simp
        · split <;> simp <;> omega
    exact mono line (1, 1) (Nat.le_refl 1)
  omega

theorem code_line_reported_iff (pre line : List Char) (h : pre = [] ∨ pre.getLast? = some '\n') :
    81 < (visualPos (pre ++ line ++ ['\n']) (pre.length + line.length)).2 ↔ 80 < lineWidth line := by
  rw [newline_column pre line h]; omega

/-- `CheckLineLen` runs after every matched primary rule (it is in the `_rule` list of the
registry computed by the real code), so every statement's tokens go through it. -/
theorem linelen_runs_on_every_rule :
    ∃ kv ∈ Generated.dependencies, kv.1 = "_rule" ∧ "CheckLineLen" ∈ kv.2 := by decide +kernel

/-- **`//` comments**: reported iff the comment ends beyond column 80. -/
theorem line_comment_iff (col len : Nat) (hc : 1 ≤ col) :
    lineCommentTooLong col len = true ↔ 80 < (col - 1) + len := by
  unfold lineCommentTooLong; simp; omega

/-- **Block comments**: line `i` of the comment is reported iff its width exceeds 80 (the
first line counted from the column where the comment starts). -/
theorem block_comment_iff (col first : Nat) (rest : List Nat) (i : Nat) :
    i ∈ blockCommentTooLong col (first :: rest) ↔ ∃ w, ((col - 1 + first) :: rest)[i]? = some w ∧ 80 < w := by
  unfold blockCommentTooLong
  simp only [List.mem_filterMap]
  constructor
  · rintro ⟨⟨w, j⟩, hm, hf⟩
    have hget := List.mem_zipIdx_iff_getElem?.mp hm
    simp only at hget hf
    split at hf
    · rename_i h80
      simp only [Option.some.injEq] at hf
      subst hf
      exact ⟨w, hget, h80⟩
    · cases hf
  · rintro ⟨w, hw, h80⟩
    refine ⟨(w, i), List.mk_mem_zipIdx_iff_getElem?.mpr hw, by simp [h80]⟩

/-- **The four counters are compared exactly at their limit.** -/
theorem counters_exact :
    (∀ body, tooManyLines (body + 1) = true ↔ 25 < body) ∧
    (∀ n, tooManyFuncs n = true ↔ 5 < n) ∧
    (∀ commas, tooManyArgs commas = true ↔ 4 < commas + 1) ∧
    (∀ n, tooManyVars n = true ↔ 5 < n) := by
  refine ⟨?_, ?_, ?_, ?_⟩ <;> intro n <;> simp [tooManyLines, tooManyFuncs, tooManyArgs, tooManyVars] <;> omega


/-! ### End to end: the whole file, any rule table

`CheckLineLen` is in the `_rule` list (obligation `linelen_runs_on_every_rule`), so the engine
hands it every statement; the statements tile the token list (C07). Hence, for **every** rule
table (`step` universally quantified: nothing is assumed about the unported rules beyond that
the run reaches a verdict), the lines reported by `CheckLineLen` over the whole file are
exactly the lines holding a token that starts beyond column 81. -/

theorem tokDiag_name (c : String) (t : Token) : (tokDiag c t).name = c := rfl
theorem tokDiag_highlights (c : String) (t : Token) : (tokDiag c t).highlights = [hlOfToken t] := rfl

/-- **File-level iff**, in terms of tokens. -/
theorem linelen_e2e {σ : Type} (step : σ → Nat → StepRes σ) (s s' : σ) (toks : List Token)
    (t : List Segment) (u : List Nat) (h : engineRun step 0 s toks.length = .ok s' t u) (l : Nat) :
    (∃ d ∈ alwaysDiagsRun toks t, d.name = "LINE_TOO_LONG" ∧ ∃ hl ∈ d.highlights, hl.line = l) ↔
      ∃ tk ∈ toks, tk.line = l ∧ 81 < tk.col := by
  constructor
  · rintro ⟨d, hd, hn, hl, hhl, hline⟩
    unfold alwaysDiagsRun at hd
    obtain ⟨g, _, hdg⟩ := List.mem_flatMap.mp hd
    unfold alwaysDiags at hdg
    rcases List.mem_append.mp hdg with hm | hm
    · obtain ⟨tk, _, rfl⟩ := List.mem_map.mp hm
      rw [tokDiag_name] at hn; exact absurd hn (by decide)
    · obtain ⟨tk, htk, rfl⟩ := List.mem_map.mp hm
      rw [tokDiag_highlights] at hhl
      simp only [List.mem_singleton] at hhl
      subst hhl
      obtain ⟨h1, h2, _⟩ := lineLenToks_sound _ _ _ htk
      exact ⟨tk, segToks_sub toks g tk h1, hline, h2⟩
  · rintro ⟨tk, htk, hl, hc⟩
    obtain ⟨g, hg, hseg⟩ := token_in_some_segment step s s' toks t u h tk htk
    obtain ⟨t', ht', h1, _⟩ := lineLenToks_complete (segToks toks g) [] l (by simp) ⟨tk, hseg, hl, hc⟩
    refine ⟨tokDiag "LINE_TOO_LONG" t', ?_, rfl, hlOfToken t', by simp [tokDiag_highlights], h1⟩
    unfold alwaysDiagsRun
    refine List.mem_flatMap.mpr ⟨g, hg, ?_⟩
    unfold alwaysDiags
    exact List.mem_append.mpr (Or.inr (List.mem_map.mpr ⟨t', ht', rfl⟩))

/-- **From the source text**: lex the file (C09 gives every token its true visual position),
run the engine with any rule table to a verdict: line `l` is reported by `CheckLineLen` iff
some token of the file starts on line `l` at a visual column beyond 81. -/
theorem linelen_source {σ : Type} (u : Uni) (src : List Char) (r : LexResult) (hlex : lex u src = .ok r)
    (step : σ → Nat → StepRes σ) (s s' : σ) (t : List Segment) (uu : List Nat)
    (h : engineRun step 0 s r.tokens.length = .ok s' t uu) (l : Nat) :
    (∃ d ∈ alwaysDiagsRun r.tokens t, d.name = "LINE_TOO_LONG" ∧ ∃ hl ∈ d.highlights, hl.line = l) ↔
      ∃ tk ∈ r.tokens, (visualPos src tk.start).1 = l ∧ 81 < (visualPos src tk.start).2 := by
  rw [linelen_e2e step s s' r.tokens t uu h l]
  constructor
  · rintro ⟨tk, htk, h1, h2⟩
    have hp := (C09.token_positions u src r hlex tk htk).1
    have e1 : tk.line = (visualPos src tk.start).1 := congrArg Prod.fst hp
    have e2 : tk.col = (visualPos src tk.start).2 := congrArg Prod.snd hp
    exact ⟨tk, htk, by omega, by omega⟩
  · rintro ⟨tk, htk, h1, h2⟩
    have hp := (C09.token_positions u src r hlex tk htk).1
    have e1 : tk.line = (visualPos src tk.start).1 := congrArg Prod.fst hp
    have e2 : tk.col = (visualPos src tk.start).2 := congrArg Prod.snd hp
    exact ⟨tk, htk, by omega, by omega⟩

/-- the column of the newline that ends a line of width `w`, with any text after it -/
theorem newline_column_rest (pre line rest : List Char) (h : pre = [] ∨ pre.getLast? = some '\n') :
    visualPos (pre ++ line ++ '\n' :: rest) (pre.length + line.length) =
      (1 + C19.nlCount pre + C19.nlCount line, lineWidth line + 1) := by
  have := C19.visualPos_prefix pre (line ++ '\n' :: rest) line.length h
  rw [List.append_assoc, this]
  simp only [visualPos, List.take_left']
  have hl := C19.advPos_lines (1, 1) line
  unfold lineWidth
  have hpos : 1 ≤ (advPos (1, 1) line).2 := by
    have mono : ∀ (l : List Char) (p : Nat × Nat), 1 ≤ p.2 → 1 ≤ (advPos p l).2 := by
      intro l
      induction l with
      | nil => intro p hp; simpa [advPos] using hp
      | cons c cs ih =>
        intro p hp
        simp only [advPos, List.foldl_cons] at ih ⊢
        apply ih
        unfold advPos1; split
        · simp
        · split <;> simp <;> omega
    exact mono line (1, 1) (Nat.le_refl 1)
  ext
  · simp only [hl]; omega
  · simp only; omega

/-- **A code line of more than 80 columns that ends in a newline token is reported**, wherever it
is in the file and whatever the rules are: if the file is `pre ++ line ++ "\n" ++ rest` with
`pre` made of complete lines, the newline is a token of its own (it is not inside a comment,
a literal or a splice), and the line is wider than 80, then `LINE_TOO_LONG` is reported on
that line. -/
theorem long_line_reported {σ : Type} (u : Uni) (pre line rest : List Char)
    (hpre : pre = [] ∨ pre.getLast? = some '\n') (hline : ∀ c ∈ line, c ≠ '\n')
    (r : LexResult) (hlex : lex u (pre ++ line ++ '\n' :: rest) = .ok r)
    (tk : Token) (htk : tk ∈ r.tokens) (hstart : tk.start = pre.length + line.length)
    (hw : 80 < lineWidth line)
    (step : σ → Nat → StepRes σ) (s s' : σ) (t : List Segment) (uu : List Nat)
    (h : engineRun step 0 s r.tokens.length = .ok s' t uu) :
    ∃ d ∈ alwaysDiagsRun r.tokens t, d.name = "LINE_TOO_LONG" ∧
      ∃ hl ∈ d.highlights, hl.line = 1 + C19.nlCount pre := by
  have hnl : C19.nlCount line = 0 := by
    unfold C19.nlCount
    exact List.count_eq_zero.mpr (fun hm => hline '\n' hm rfl)
  have hv := newline_column_rest pre line rest hpre
  rw [hnl] at hv
  apply (linelen_source u _ r hlex step s s' t uu h (1 + C19.nlCount pre)).mpr
  refine ⟨tk, htk, ?_, ?_⟩
  · rw [hstart, hv]; simp
  · rw [hstart, hv]; simp only; omega

/-- … and a file all of whose tokens start at or before column 81 gets no `LINE_TOO_LONG` from
`CheckLineLen` on any line. -/
theorem short_lines_silent {σ : Type} (step : σ → Nat → StepRes σ) (s s' : σ) (toks : List Token)
    (t : List Segment) (u : List Nat) (h : engineRun step 0 s toks.length = .ok s' t u)
    (hall : ∀ tk ∈ toks, tk.col ≤ 81) :
    ∀ d ∈ alwaysDiagsRun toks t, d.name ≠ "LINE_TOO_LONG" := by
  intro d hd hn
  have hhl : ∃ hl, hl ∈ d.highlights := by
    unfold alwaysDiagsRun at hd
    obtain ⟨g, _, hdg⟩ := List.mem_flatMap.mp hd
    unfold alwaysDiags at hdg
    rcases List.mem_append.mp hdg with hm | hm <;> obtain ⟨tk, _, rfl⟩ := List.mem_map.mp hm <;>
      exact ⟨hlOfToken tk, by simp [tokDiag_highlights]⟩
  obtain ⟨hl, hhl⟩ := hhl
  obtain ⟨tk, htk, _, hc⟩ := (linelen_e2e step s s' toks t u h hl.line).mp ⟨d, hd, hn, hl, hhl, rfl⟩
  have := hall tk htk
  omega

/-- Non-vacuity at L-1, L, L+1 for each limit. -/
example : lineWidth ("\t".toList ++ List.replicate 76 'a') = 80 ∧ lineWidth ("\t".toList ++ List.replicate 77 'a') = 81 ∧
    checkLineLen [(3, 1), (3, 81), (4, 1), (4, 82), (4, 90)] [] = [4] ∧
    lineCommentTooLong 1 80 = false ∧ lineCommentTooLong 1 81 = true ∧
    blockCommentTooLong 5 [76, 80, 81] = [2] ∧ blockCommentTooLong 5 [77, 3] = [0] ∧
    tooManyLines 26 = false ∧ tooManyLines 27 = true ∧ tooManyFuncs 5 = false ∧ tooManyFuncs 6 = true ∧
    tooManyArgs 3 = false ∧ tooManyArgs 4 = true ∧ tooManyVars 5 = false ∧ tooManyVars 6 = true := by decide +kernel

/-! ### comment lines, end to end (`CheckCommentLineLen` ported completely, Model/Checks.lean) -/

/-- `splitNl` is "the lines of the text": joined by newlines they give the text back, and there is one more of them
than there are newlines -/
theorem splitNl_spec (l : List Char) :
    (splitNl l) ≠ [] ∧ List.intercalate ['\n'] (splitNl l) = l ∧ (splitNl l).length = l.count '\n' + 1 := by
  induction l with
  | nil => simp [splitNl, List.intercalate]
  | cons c cs ih =>
    obtain ⟨hne, hj, hl⟩ := ih
    unfold splitNl
    cases hs : splitNl cs with
    | nil => exact absurd hs hne
    | cons x xs =>
      rw [hs] at hj hl
      by_cases hc : c = '\n'
      · subst hc
        simp only [beq_self_eq_true, ↓reduceIte]
        refine ⟨by simp, ?_, ?_⟩
        · rw [← hj]; simp [List.intercalate]
        · simp only [List.length_cons] at hl ⊢; simp; omega
      · have hb : (c == '\n') = false := by simp [hc]
        simp only [hb, Bool.false_eq_true, ↓reduceIte]
        refine ⟨by simp, ?_, ?_⟩
        · rw [← hj]
          cases xs with
          | nil => simp [List.intercalate]
          | cons y ys => simp [List.intercalate]
        · simp only [List.length_cons] at hl ⊢
          have h1 : ¬ (c = '\n') := hc
          have hcnt : (c :: cs).count '\n' = cs.count '\n' := by
            rw [List.count_cons]; simp [h1]
          rw [hcnt]; omega

/-- **`//` comments, end to end for every rule table**: a statement after which the registry runs
`CheckCommentLineLen` (the regenerated dependency table: `IsComment`) and whose first comment token is a `//` comment
ending beyond column 80 gets LINE_TOO_LONG at that token. -/
theorem line_comment_e2e (toks : List Token) (t : List Segment) (g : Segment) (hg : g ∈ t)
    (hrule : runsAfter "CheckCommentLineLen" g.rule = true) (tk : Token) (v : String)
    (hfind : (toks.drop g.start).find? (fun t => t.type == "COMMENT" || t.type == "MULT_COMMENT") = some tk)
    (hty : tk.type = "COMMENT") (hv : tk.value = some v) (hcol : 1 ≤ tk.col) (hw : 80 < (tk.col - 1) + v.length) :
    tokDiag "LINE_TOO_LONG" tk ∈ commentLenDiagsRun toks t := by
  unfold commentLenDiagsRun
  refine List.mem_flatMap.mpr ⟨g, hg, ?_⟩
  unfold commentLenDiags
  simp only [hrule, ↓reduceIte, hfind, hv]
  have h1 : (tk.type == "MULT_COMMENT") = false := by rw [hty]; decide
  have h2 : lineCommentTooLong tk.col v.length = true := (line_comment_iff tk.col v.length hcol).mpr hw
  simp [h1, h2]

/-- **Block comments, end to end for every rule table**: line `i` of the comment (the first one counted from the column
where the comment starts) is reported — at line `token line + i`, column 1 — iff it is wider than 80 columns. -/
theorem block_comment_e2e (toks : List Token) (t : List Segment) (g : Segment) (hg : g ∈ t)
    (hrule : runsAfter "CheckCommentLineLen" g.rule = true) (tk : Token) (v : String)
    (hfind : (toks.drop g.start).find? (fun t => t.type == "COMMENT" || t.type == "MULT_COMMENT") = some tk)
    (hty : tk.type = "MULT_COMMENT") (hv : tk.value = some v) (first : Nat) (rest : List Nat)
    (hlines : (splitNl v.toList).map List.length = first :: rest) (i w : Nat)
    (hi : ((tk.col - 1 + first) :: rest)[i]? = some w) (hw : 80 < w) :
    mkDiag "LINE_TOO_LONG" .error [⟨tk.line + i, 1, some v.length, none⟩] ∈ commentLenDiagsRun toks t := by
  unfold commentLenDiagsRun
  refine List.mem_flatMap.mpr ⟨g, hg, ?_⟩
  unfold commentLenDiags
  have h1 : (tk.type == "MULT_COMMENT") = true := by rw [hty]; decide
  simp only [hrule, ↓reduceIte, hfind, hv, h1, hlines]
  refine List.mem_map.mpr ⟨i, ?_, rfl⟩
  exact (block_comment_iff tk.col first rest i).mpr ⟨w, hi, hw⟩

/-- … and `CheckCommentLineLen` reports nothing else: every diagnostic it adds is LINE_TOO_LONG for a comment token
that ends beyond column 80, or for a line of a block comment wider than 80 columns. -/
theorem comment_len_sound (toks : List Token) (t : List Segment) (d : Diag) (hd : d ∈ commentLenDiagsRun toks t) :
    d.name = "LINE_TOO_LONG" ∧ ∃ g ∈ t, ∃ tk ∈ toks, ∃ v, tk.value = some v ∧
      ((tk.type ≠ "MULT_COMMENT" ∧ d = tokDiag "LINE_TOO_LONG" tk ∧ 81 < tk.col + v.length) ∨
       (tk.type = "MULT_COMMENT" ∧ ∃ i, d = mkDiag "LINE_TOO_LONG" .error [⟨tk.line + i, 1, some v.length, none⟩] ∧
          i ∈ blockCommentTooLong tk.col ((splitNl v.toList).map List.length))) := by
  unfold commentLenDiagsRun at hd
  obtain ⟨g, hg, hdg⟩ := List.mem_flatMap.mp hd
  unfold commentLenDiags at hdg
  split at hdg
  · split at hdg
    · rename_i tk hfind
      have hmem : tk ∈ toks := List.mem_of_mem_drop (List.mem_of_find?_eq_some hfind)
      split at hdg
      · rename_i v hv
        split at hdg
        · rename_i hty
          obtain ⟨i, hi, rfl⟩ := List.mem_map.mp hdg
          refine ⟨rfl, g, hg, tk, hmem, v, hv, Or.inr ⟨by simpa using hty, i, rfl, hi⟩⟩
        · rename_i hty
          split at hdg
          · rename_i hlong
            simp only [List.mem_singleton] at hdg
            subst hdg
            refine ⟨rfl, g, hg, tk, hmem, v, hv, Or.inl ⟨by simpa using hty, rfl, ?_⟩⟩
            unfold lineCommentTooLong at hlong
            simpa using hlong
          · cases hdg
      · cases hdg
    · cases hdg
  · cases hdg

/-- Non-vacuity: a block comment whose second line is 81 columns wide, and a `//` comment ending in column 81. -/
example :
    let toks : List Token := [⟨"MULT_COMMENT", 3, 1, some ("/*\n" ++ String.ofList (List.replicate 81 'x') ++ "\n*/"), 0, 88⟩, ⟨"NEWLINE", 5, 3, none, 88, 89⟩,
      ⟨"COMMENT", 6, 1, some ("//" ++ String.ofList (List.replicate 79 'y')), 89, 170⟩, ⟨"NEWLINE", 6, 82, none, 170, 171⟩]
    (commentLenDiagsRun toks [⟨"IsComment", 0, 2⟩, ⟨"IsComment", 2, 2⟩]).map (fun d => (d.name, d.highlights.map (fun h => (h.line, h.col))))
      = [("LINE_TOO_LONG", [(4, 1)]), ("LINE_TOO_LONG", [(6, 1)])] ∧ runsAfter "CheckCommentLineLen" "IsComment" = true := by decide +kernel

end Norm.C03
