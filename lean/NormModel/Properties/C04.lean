/-
C04 — exit status and per-file verdict agree with the diagnostics.
`cliRun` is the tail of `norminette/__main__.py::main` (per-file loop, formatter, exit).
All statements are for every list of files: any length, any order, with repetitions.
-/
import NormModel.Proofs.Cli
namespace Norm.C04
open Norm

/-- every diagnostic handed to the formatter has a highlight (C08.lexer/rule obligation) -/
def AllHl (fs : List CliFile) : Prop := ∀ f ∈ fs, ∀ d ∈ f.diags, HasHl d

/-- No fatal file ⇒ exactly one verdict entry per file, in order, carrying that file's
base name and the verdict computed from that file's own diagnostics. -/
theorem one_verdict (fs : List CliFile) (hnf : firstFatal fs = none) (hh : AllHl fs) :
    ∃ doc, (cliRun .humanized fs).printed = .human doc ∧
      doc.map (·.basename) = fs.map (·.basename) ∧
      doc.map (·.status) = fs.map (fun f => status f.diags) ∧
      doc.map (fun g => g.diags.length) = fs.map (fun f => f.diags.length) := by
  have hh' : ∀ f ∈ fs.map CliFile.rep, ∀ d ∈ f.diags, HasHl d := by
    intro f hf d hd
    obtain ⟨g, hg, rfl⟩ := List.mem_map.mp hf
    exact hh g hg d hd
  obtain ⟨doc, hdoc⟩ := humanDoc_some_of_hasHl _ hh'
  obtain ⟨h1, h2, h3⟩ := humanDoc_shape hdoc
  refine ⟨doc, ?_, ?_, ?_, ?_⟩
  · simp [cliRun, hnf, hdoc]
  · rw [h1, List.map_map]; rfl
  · rw [h2, List.map_map]; rfl
  · rw [h3, List.map_map]; rfl

/-- Same for the JSON format (no highlight needed). -/
theorem one_verdict_json (fs : List CliFile) (hnf : firstFatal fs = none) :
    ∃ doc, (cliRun .json fs).printed = .json doc ∧
      doc.map (·.path) = fs.map (·.abspath) ∧
      doc.map (·.status) = fs.map (fun f => status f.diags) := by
  refine ⟨jsonDoc (fs.map CliFile.rep), by simp [cliRun, hnf], ?_, ?_⟩ <;>
    simp [jsonDoc, List.map_map, CliFile.rep]

/-- A verdict is `OK` iff the file has no Error-level diagnostic (Notices do not count). -/
theorem ok_iff (f : CliFile) : status f.diags = .ok ↔ ∀ d ∈ f.diags, d.level = .notice := by
  unfold status
  split
  · rename_i h; simp only [true_iff]
    intro d hd; have := List.all_eq_true.mp h d hd; simpa using this
  · rename_i h
    constructor
    · intro h'; cases h'
    · intro h'; exfalso; apply h
      exact List.all_eq_true.mpr (fun d hd => by simp [h' d hd])

/-- No fatal file ⇒ the exit status is 0 iff every file is OK. -/
theorem exit_iff (fmt : Format) (fs : List CliFile) (hnf : firstFatal fs = none) (hh : AllHl fs) :
    (cliRun fmt fs).exit = 0 ↔ ∀ f ∈ fs, status f.diags = .ok := by
  cases fmt with
  | json => simp [cliRun, hnf, exitOf_zero_iff]
  | humanized =>
    obtain ⟨doc, hdoc, _⟩ := one_verdict fs hnf hh
    have : (cliRun .humanized fs).exit = exitOf fs := by
      unfold cliRun at hdoc ⊢
      simp only [hnf] at hdoc ⊢
      split
      · rfl
      · rename_i h; simp [h] at hdoc
    rw [this, exitOf_zero_iff]

/-- The exit status never depends on the order of the files nor on repetitions. -/
theorem exit_perm (fmt : Format) (fs gs : List CliFile) (hp : ∀ f, f ∈ fs ↔ f ∈ gs)
    (h1 : firstFatal fs = none) (hh : AllHl fs) :
    (cliRun fmt fs).exit = 0 ↔ (cliRun fmt gs).exit = 0 := by
  have h2 : firstFatal gs = none := by
    rw [firstFatal_none_iff] at h1 ⊢
    intro f hf; exact h1 f ((hp f).mpr hf)
  have hh2 : AllHl gs := fun f hf => hh f ((hp f).mpr hf)
  rw [exit_iff fmt fs h1 hh, exit_iff fmt gs h2 hh2]
  constructor
  · intro h f hf; exact h f ((hp f).mpr hf)
  · intro h f hf; exact h f ((hp f).mp hf)

/-- A fatal parse error: the run prints that file's path with `Error!` and the message,
exits non-zero, and it is the *first* fatal file in the order processed. -/
theorem fatal (fmt : Format) (fs : List CliFile) (p m : String) (h : firstFatal fs = some (p, m)) :
    (cliRun fmt fs).exit = 1 ∧
    (∃ pre f post, fs = pre ++ f :: post ∧ f.path = p ∧ f.outcome = .fatal m ∧
      (∀ g ∈ pre, ∃ ds, g.outcome = .analysed ds)) ∧
    (match (cliRun fmt fs).printed with | .fatal p' m' => p' = p ∧ m' = m | _ => False) := by
  refine ⟨by simp [cliRun, h], firstFatal_some h, by simp [cliRun, h]⟩

/-- Any fatal file makes the status non-zero. -/
theorem fatal_nonzero (fmt : Format) (fs : List CliFile) (f : CliFile) (m : String)
    (hf : f ∈ fs) (ho : f.outcome = .fatal m) : (cliRun fmt fs).exit = 1 := by
  cases h : firstFatal fs with
  | none =>
    obtain ⟨ds, hds⟩ := (firstFatal_none_iff fs).mp h f hf
    rw [ho] at hds; cases hds
  | some pm => simp [cliRun, h]

/-- A run that selects no file ends cleanly with status 0. -/
theorem empty (fmt : Format) : (cliRun fmt []).exit = 0 := by
  cases fmt <;> rfl

/-- The exit status is 0 or 1. -/
theorem exit_le_one (fmt : Format) (fs : List CliFile) : (cliRun fmt fs).exit ≤ 1 := by
  unfold cliRun
  split
  · simp
  · split
    · exact exitOf_le_one _
    · split
      · exact exitOf_le_one _
      · simp

/-- Non-vacuity: a run over clean / notice-only / erroneous files. -/
def exClean : CliFile := ⟨"a.c", "a.c", "/x/a.c", .analysed []⟩
def exNotice : CliFile := ⟨"n.c", "n.c", "/x/n.c",
  .analysed [{ name := "GLOBAL_VAR_DETECTED", text := "", level := .notice, highlights := [⟨1, 1, none, none⟩] }]⟩
def exErr : CliFile := ⟨"e.c", "e.c", "/x/e.c",
  .analysed [{ name := "X", text := "", highlights := [⟨1, 1, none, none⟩] }]⟩
example : (cliRun .humanized [exClean, exNotice]).exit = 0 ∧ (cliRun .humanized [exErr, exClean]).exit = 1
    ∧ firstFatal [exClean, exNotice, exErr] = none := by decide

end Norm.C04
