/-
C15 — exactly the requested C sources are checked.
`select` is the work-list loop of `main` over a file-system tree (A4: pathlib/glob behave as
`lookup`/`globCH` say; validated on every generated tree by the correspondence).
-/
import NormModel.Model.Cli
namespace Norm.C15
open Norm

/-- what one argument contributes to the selection -/
def contrib (root : FS) (a : List String) : List String :=
  match lookup root a with
  | .missing => []
  | .file =>
    let name := a.getLast?.getD ""
    if suffixOf name == ".c" || suffixOf name == ".h" then [joinPath a] else []
  | .dir => globCH root a

def isMissing (root : FS) (a : List String) : Bool := lookup root a == .missing

/-- explicit file arguments, in order -/
def explicitFiles (root : FS) (argv : List (List String)) : List String :=
  argv.flatMap fun a => if lookup root a == .file then contrib root a else []
/-- what directory arguments append to the work list, in order -/
def dirFiles (root : FS) (argv : List (List String)) : List String :=
  argv.flatMap fun a => if lookup root a == .dir then contrib root a else []

theorem foldl_selStep_noabort (root : FS) (argv : List (List String)) (s : SelSt)
    (hs : s.abort = false) (hm : ∀ a ∈ argv, isMissing root a = false) :
    (argv.foldl (selStep root) s).abort = false ∧
    (argv.foldl (selStep root) s).files = s.files ++ explicitFiles root argv ∧
    (argv.foldl (selStep root) s).app = s.app ++ dirFiles root argv := by
  induction argv generalizing s with
  | nil => simp [explicitFiles, dirFiles, hs]
  | cons a rest ih =>
    have ha := hm a (by simp)
    have hrest : ∀ b ∈ rest, isMissing root b = false := fun b hb => hm b (by simp [hb])
    simp only [List.foldl_cons]
    unfold isMissing at ha
    cases hl : lookup root a with
    | missing => simp [hl] at ha
    | file =>
      have hstep : (selStep root s a).abort = false := by
        unfold selStep; simp only [hs, hl, Bool.false_eq_true, ↓reduceIte]; split <;> simp [hs]
      obtain ⟨i1, i2, i3⟩ := ih (selStep root s a) hstep hrest
      refine ⟨i1, ?_, ?_⟩
      · rw [i2]
        unfold selStep explicitFiles contrib
        simp only [hs, hl, Bool.false_eq_true, ↓reduceIte, List.flatMap_cons, beq_self_eq_true]
        split <;> simp
      · rw [i3]
        unfold selStep dirFiles
        simp only [hs, hl, Bool.false_eq_true, ↓reduceIte, List.flatMap_cons]
        split <;> simp
    | dir =>
      have hstep : (selStep root s a).abort = false := by
        unfold selStep; simp [hs, hl]
      obtain ⟨i1, i2, i3⟩ := ih (selStep root s a) hstep hrest
      refine ⟨i1, ?_, ?_⟩
      · rw [i2]
        unfold selStep explicitFiles
        simp [hs, hl]
      · rw [i3]
        unfold selStep dirFiles contrib
        simp [hs, hl]

/-- **Exactly the requested sources.** When every argument exists, the selection is: the
named files with suffix `.c`/`.h` in argument order, followed by, for each directory
argument in order, the non-hidden `*.c`/`*.h` regular files below it — each mention of an
argument contributes once, nothing else is selected. -/
theorem selection (root : FS) (argv : List (List String)) (hne : argv ≠ [])
    (hm : ∀ a ∈ argv, isMissing root a = false) :
    (select root argv).abort = false ∧
    (select root argv).files = explicitFiles root argv ++ dirFiles root argv := by
  obtain ⟨h1, h2, h3⟩ := foldl_selStep_noabort root argv {} rfl hm
  unfold select
  cases argv with
  | nil => exact absurd rfl hne
  | cons a rest =>
    simp only
    rw [h1] at *
    simp only [Bool.false_eq_true, ↓reduceIte]
    refine ⟨trivial, ?_⟩
    rw [h2, h3]; simp

/-- once the loop has aborted it stays aborted and selects nothing more -/
theorem foldl_selStep_abort (root : FS) (argv : List (List String)) (s : SelSt) (hs : s.abort = true) :
    argv.foldl (selStep root) s = s := by
  induction argv with
  | nil => rfl
  | cons a rest ih =>
    simp only [List.foldl_cons]
    have : selStep root s a = s := by unfold selStep; simp [hs]
    rw [this]; exact ih

theorem foldl_selStep_missing (root : FS) (argv : List (List String)) (s : SelSt)
    (hm : ∃ a ∈ argv, isMissing root a = true) : (argv.foldl (selStep root) s).abort = true := by
  induction argv generalizing s with
  | nil => obtain ⟨a, ha, _⟩ := hm; cases ha
  | cons a rest ih =>
    simp only [List.foldl_cons]
    by_cases hs : s.abort = true
    · have : selStep root s a = s := by unfold selStep; simp [hs]
      rw [this, foldl_selStep_abort root rest s hs]; exact hs
    · by_cases ha : isMissing root a = true
      · have : (selStep root s a).abort = true := by
          unfold isMissing at ha
          unfold selStep
          have hl : lookup root a = .missing := by simpa using ha
          simp [hs, hl]
        rw [foldl_selStep_abort root rest _ this]; exact this
      · obtain ⟨b, hb, hbm⟩ := hm
        rcases List.mem_cons.mp hb with rfl | hb
        · exact absurd hbm ha
        · exact ih _ ⟨b, hb, hbm⟩

/-- **A nonexistent path aborts**: nothing is analysed, the status is non-zero (`abort`). -/
theorem missing_aborts (root : FS) (argv : List (List String))
    (hm : ∃ a ∈ argv, isMissing root a = true) :
    (select root argv).abort = true ∧ (select root argv).files = [] := by
  have h := foldl_selStep_missing root argv {} hm
  unfold select
  cases argv with
  | nil => obtain ⟨a, ha, _⟩ := hm; cases ha
  | cons a rest => simp only; rw [h]; simp

/-- **With no argument the current directory tree is used.** -/
theorem default_is_cwd (root : FS) : (select root []).files = globCH root [] ∧ (select root []).abort = false := by
  simp [select]

/-- **A named file with another suffix is rejected**: it contributes nothing. -/
theorem other_suffix_rejected (root : FS) (a : List String) (hf : lookup root a = .file)
    (hs : suffixOf (a.getLast?.getD "") ≠ ".c" ∧ suffixOf (a.getLast?.getD "") ≠ ".h") :
    contrib root a = [] := by
  unfold contrib
  simp [hf, hs.1, hs.2]

/-- `pathlib` suffix semantics on the look-alike names of the property. -/
example : suffixOf "a.c" = ".c" ∧ suffixOf "a.h" = ".h" ∧ suffixOf "a.cc" = ".cc" ∧ suffixOf "a.hh" = ".hh"
    ∧ suffixOf "a.C" = ".C" ∧ suffixOf "a.c.bak" = ".bak" ∧ suffixOf "a.b.c" = ".c" ∧ suffixOf ".c" = ""
    ∧ suffixOf "c" = "" ∧ suffixOf "a." = "" ∧ suffixOf "my file.c" = ".c" := by decide +kernel

/-- Non-vacuity: a tree with nesting, a directory named like a source, look-alikes, hidden entries. -/
def exTree : FS :=
  [⟨["a.c"], false⟩, ⟨["b.cc"], false⟩, ⟨["c.h"], false⟩, ⟨[".hidden.c"], false⟩, ⟨["d"], true⟩,
   ⟨["d", "x.c"], true⟩, ⟨["d", "x.c", "in.c"], false⟩, ⟨["d", ".git"], true⟩, ⟨["d", ".git", "g.c"], false⟩,
   ⟨["d", "y.C"], false⟩, ⟨["d", "e"], true⟩, ⟨["d", "z.h"], false⟩]
example : (select exTree [["a.c"], ["d"], ["b.cc"], ["d", "x.c"]]).files
    = ["a.c", "d/x.c/in.c", "d/z.h", "d/x.c/in.c"] := by decide +kernel
example : (select exTree [["a.c"], ["nope"], ["d"]]) = { files := [], msgs := ["Error: 'nope' no such file or directory"], abort := true } := by
  decide +kernel
example : (select exTree []).files = ["a.c", "c.h", "d/x.c/in.c", "d/z.h"] := by decide +kernel

end Norm.C15
