/-
C13 — the 42 header is recognised exactly.
The pattern is `Generated.headerRegex`, translated on every run from the pattern that
`CheckHeader.check_header` compiles; `re.search` itself is a parameter `srch` constrained by
assumption A2 (it finds a match whenever the declarative semantics `Searches` has one).
-/
import NormModel.Model.Checks
import NormModel.Model.Header
import NormModel.Proofs.Regex
import NormModel.Generated.HeaderRegex
namespace Norm.C13
open Norm

/-! ### the eleven line patterns -/

def stars (n : Nat) : List Char := List.replicate n '*'
def frameText : List Char := "/* ".toList ++ stars 74 ++ " */".toList

/-- `\/\* \*{74} \*\/.` -/
def pFrame : List Atom := lits "/* ".toList ++ [⟨.lit '*', 74, some 74⟩] ++ lits " */".toList ++ [any1]
/-- `\/\*.*\*\/.` -/
def pAny : List Atom := lits "/*".toList ++ [anyStar] ++ lits "*/".toList ++ [any1]
/-- `\/\*.{3}([^ ]*).*\*\/.` -/
def pFile : List Atom := lits "/*".toList ++ [⟨.any, 3, some 3⟩, notSpStar, anyStar] ++ lits "*/".toList ++ [any1]
/-- `\/\*   By: ([^ ]*).*\*\/.` -/
def pBy : List Atom := lits "/*   By: ".toList ++ [notSpStar, anyStar] ++ lits "*/".toList ++ [any1]
/-- `\/\*   Created: ([^ ]* [^ ]*) by ([^ ]*).*\*\/.` -/
def pStamp (kw : String) : List Atom :=
  lits ("/*   " ++ kw ++ ": ").toList ++ [notSpStar] ++ lits " ".toList ++ [notSpStar] ++ lits " by ".toList ++
    [notSpStar, anyStar] ++ lits "*/".toList ++ [any1]

/-- **Obligation on the regenerated pattern**: it is exactly frame, filler, filler, file
name line, filler, By, filler, Created, Updated, filler, frame. (A pattern that loses or
reorders a line breaks this.) -/
theorem pattern_shape : Generated.headerRegex =
    pFrame ++ (pAny ++ (pAny ++ (pFile ++ (pAny ++ (pBy ++ (pAny ++ (pStamp "Created" ++ (pStamp "Updated" ++
      (pAny ++ pFrame))))))))) := by
  decide +kernel

theorem pattern_flags : Generated.headerPatternFlags = 16 := by decide   -- re.DOTALL

/-! ### well-formed headers -/

/-- The eleven lines of a standard header, each without its newline. Only what the Norm's
template guarantees is required; the ASCII art, padding, names, e-mail and digits are free. -/
structure Header where
  b2 : List Char
  b3 : List Char
  f3 : List Char            -- the three characters before the file name
  fname : List Char         -- rest of the file-name line
  b5 : List Char
  by_ : List Char           -- what follows `By: `
  b7 : List Char
  cdate : List Char
  ctime : List Char
  crest : List Char         -- `<login> …` after ` by `
  udate : List Char
  utime : List Char
  urest : List Char
  b10 : List Char

def Header.WF (h : Header) : Prop :=
  h.f3.length = 3 ∧ (∀ c ∈ h.cdate, c ≠ ' ') ∧ (∀ c ∈ h.ctime, c ≠ ' ') ∧
  (∀ c ∈ h.udate, c ≠ ' ') ∧ (∀ c ∈ h.utime, c ≠ ' ')

def cm (body : List Char) : List Char := "/*".toList ++ body ++ "*/".toList

def Header.lines (h : Header) : List (List Char) :=
  [frameText, cm h.b2, cm h.b3, cm (h.f3 ++ h.fname), cm h.b5, cm ("   By: ".toList ++ h.by_), cm h.b7,
   cm ("   Created: ".toList ++ h.cdate ++ " ".toList ++ h.ctime ++ " by ".toList ++ h.crest),
   cm ("   Updated: ".toList ++ h.udate ++ " ".toList ++ h.utime ++ " by ".toList ++ h.urest),
   cm h.b10, frameText]

/-- `context.header` after the eleven comment statements: each token text followed by "\n" -/
def Header.text (h : Header) : List Char := (h.lines.map (· ++ ['\n'])).flatten

theorem m_frame : MatchesSeq pFrame (frameText ++ ['\n']) := by
  unfold pFrame frameText
  rw [List.append_assoc, List.append_assoc, List.append_assoc, List.append_assoc]
  apply ms_lits
  apply ms_rep _ (stars 74) 74 rfl rfl (by simp [stars])
  · intro c hc; simp [stars] at hc; simp [hc, CSet.mem]
  apply ms_lits
  exact ms_any1 '\n' MatchesSeq.nil

theorem m_any (body : List Char) : MatchesSeq pAny (cm body ++ ['\n']) := by
  unfold pAny cm
  simp only [List.append_assoc]
  apply ms_lits
  apply ms_anyStar body
  apply ms_lits
  exact ms_any1 '\n' MatchesSeq.nil

theorem m_file (f3 rest : List Char) (h3 : f3.length = 3) : MatchesSeq pFile (cm (f3 ++ rest) ++ ['\n']) := by
  unfold pFile cm
  simp only [List.append_assoc, List.cons_append, List.nil_append]
  apply ms_lits
  apply ms_rep _ f3 3 rfl rfl h3 (by intro c _; simp [CSet.mem])
  have := ms_notSpStar [] (by intro c hc; cases hc) (rest := anyStar :: (lits "*/".toList ++ [any1]))
    (tail := rest ++ ("*/".toList ++ ['\n']))
    (ms_anyStar rest (ms_lits "*/".toList (ms_any1 '\n' MatchesSeq.nil)))
  simpa using this

theorem m_by (rest : List Char) : MatchesSeq pBy (cm ("   By: ".toList ++ rest) ++ ['\n']) := by
  unfold pBy cm
  have h0 : "/*".toList ++ ("   By: ".toList ++ rest) ++ "*/".toList ++ ['\n']
      = "/*   By: ".toList ++ ([] ++ (rest ++ ("*/".toList ++ ['\n']))) := by simp
  rw [h0, List.append_assoc, List.append_assoc]
  apply ms_lits
  apply ms_notSpStar [] (by intro c hc; cases hc)
  apply ms_anyStar rest
  apply ms_lits
  exact ms_any1 '\n' MatchesSeq.nil

theorem m_stamp (kw : String) (d t rest : List Char) (hd : ∀ c ∈ d, c ≠ ' ') (ht : ∀ c ∈ t, c ≠ ' ') :
    MatchesSeq (pStamp kw)
      (cm (("   " ++ kw ++ ": ").toList ++ d ++ " ".toList ++ t ++ " by ".toList ++ rest) ++ ['\n']) := by
  unfold pStamp cm
  have h0 : "/*".toList ++ (("   " ++ kw ++ ": ").toList ++ d ++ " ".toList ++ t ++ " by ".toList ++ rest) ++ "*/".toList ++ ['\n']
      = ("/*   " ++ kw ++ ": ").toList ++ (d ++ (" ".toList ++ (t ++ (" by ".toList ++ ([] ++ (rest ++ ("*/".toList ++ ['\n']))))))) := by
    simp [String.toList_append]
  rw [h0]
  simp only [List.append_assoc]
  apply ms_lits
  apply ms_notSpStar d hd
  apply ms_lits
  apply ms_notSpStar t ht
  apply ms_lits
  apply ms_notSpStar [] (by intro c hc; cases hc)
  apply ms_anyStar rest
  apply ms_lits
  exact ms_any1 '\n' MatchesSeq.nil

/-- **Every well-formed header matches the pattern**, whatever the file name, author,
e-mail, dates and art are (unbounded field contents). -/
theorem header_matches (h : Header) (hw : h.WF) : MatchesSeq Generated.headerRegex h.text := by
  obtain ⟨h3, hcd, hct, hud, hut⟩ := hw
  rw [pattern_shape]
  unfold Header.text Header.lines
  simp only [List.map_cons, List.map_nil, List.flatten_cons, List.flatten_nil, List.append_nil]
  have s8 := m_stamp "Created" h.cdate h.ctime h.crest hcd hct
  have s9 := m_stamp "Updated" h.udate h.utime h.urest hud hut
  have e8 : ("   " ++ "Created" ++ ": ").toList = "   Created: ".toList := by decide
  have e9 : ("   " ++ "Updated" ++ ": ").toList = "   Updated: ".toList := by decide
  rw [e8] at s8; rw [e9] at s9
  exact ms_append m_frame (ms_append (m_any _) (ms_append (m_any _) (ms_append (m_file _ _ h3)
    (ms_append (m_any _) (ms_append (m_by _) (ms_append (m_any _) (ms_append s8 (ms_append s9
    (ms_append (m_any _) m_frame)))))))))

/-! ### the state machine -/

/-- the eleven header comments as statements -/
def Header.events (h : Header) : List HEvent := h.lines.map (fun l => ⟨true, some l⟩)

/-- **A file beginning with a well-formed header never gets INVALID_HEADER**: after the
eleven header comments, any further own-line block comments, then any statements at all — for
every search function that finds existing matches (A2). -/
theorem accept (srch : List Char → Bool) (hA2 : ∀ s, Searches Generated.headerRegex s → srch s = true)
    (h : Header) (hw : h.WF) (more : List (List Char)) (body : List HEvent)
    (hbody : ∀ e, body.head? = some e → e.isComment = false) :
    (headerRun srch (h.events ++ more.map (fun l => ⟨true, some l⟩) ++ body)).errors = 0 := by
  -- state after the comment statements: started, not parsed, text = header text ++ more
  have comments : ∀ (ls : List (List Char)) (st : HState), st.parsed = false →
      (ls.map (fun l => (⟨true, some l⟩ : HEvent))).foldl (headerStep srch) st =
        { st with text := st.text ++ (ls.map (· ++ ['\n'])).flatten, started := st.started || !ls.isEmpty } := by
    intro ls
    induction ls with
    | nil => intro st _; simp
    | cons l ls ih =>
      intro st hp
      simp only [List.map_cons, List.foldl_cons]
      have : headerStep srch st ⟨true, some l⟩ = { st with text := st.text ++ l ++ ['\n'], started := true } := by
        unfold headerStep; simp [hp]
      rw [this, ih _ (by simpa using hp)]
      simp [List.append_assoc]
  unfold headerRun
  rw [List.foldl_append, List.foldl_append]
  unfold Header.events
  rw [comments h.lines {} rfl, comments more _ rfl]
  simp only [List.nil_append]
  -- the body: absorbing after its first (non-comment) statement
  have absorbing : ∀ (es : List HEvent) (st : HState), st.parsed = true → es.foldl (headerStep srch) st = st := by
    intro es
    induction es with
    | nil => intro st _; rfl
    | cons e es ih => intro st hp; simp only [List.foldl_cons]; rw [show headerStep srch st e = st by unfold headerStep; simp [hp]]; exact ih st hp
  cases body with
  | nil => simp
  | cons e es =>
    have he := hbody e rfl
    simp only [List.foldl_cons]
    have hs : Searches Generated.headerRegex (h.text ++ (more.map (· ++ ['\n'])).flatten) := by
      have := searches_mono [] ((more.map (· ++ ['\n'])).flatten) (searches_of_matches (header_matches h hw))
      simpa using this
    have hsr := hA2 _ hs
    have hl : h.lines.isEmpty = false := rfl
    have step1 : headerStep srch
        { started := (false || !h.lines.isEmpty) || !more.isEmpty, parsed := false,
          text := (h.lines.map (· ++ ['\n'])).flatten ++ (more.map (· ++ ['\n'])).flatten, errors := 0 } e
        = { started := true, parsed := true,
            text := (h.lines.map (· ++ ['\n'])).flatten ++ (more.map (· ++ ['\n'])).flatten, errors := 0 } := by
      unfold headerStep
      simp only [he, Bool.false_eq_true, ↓reduceIte, hl, Bool.not_false, Bool.false_or, Bool.true_or]
      have : srch ((h.lines.map (· ++ ['\n'])).flatten ++ (more.map (· ++ ['\n'])).flatten) = true := hsr
      simp [this]
    simp only at step1 ⊢
    rw [step1, absorbing es _ rfl]

/-- **INVALID_HEADER is emitted at most once per file**, for every sequence of statements and
every search function. -/
theorem at_most_once (srch : List Char → Bool) (es : List HEvent) : (headerRun srch es).errors ≤ 1 := by
  have inv : ∀ (es : List HEvent) (st : HState), (st.errors = 0 ∨ (st.errors = 1 ∧ st.parsed = true)) →
      ((es.foldl (headerStep srch) st).errors = 0 ∨
       ((es.foldl (headerStep srch) st).errors = 1 ∧ (es.foldl (headerStep srch) st).parsed = true)) := by
    intro es
    induction es with
    | nil => intro st h; exact h
    | cons e es ih =>
      intro st h
      simp only [List.foldl_cons]
      apply ih
      unfold headerStep
      rcases h with h | ⟨h1, h2⟩
      · split
        · left; exact h
        · split
          · split
            · left; exact h
            · right; simp [h]
          · split
            · split
              · left; simp [h]
              · right; simp [h]
            · right; simp [h]
      · simp [h2, h1]
  unfold headerRun
  rcases inv es {} (Or.inl rfl) with h | ⟨h, _⟩ <;> omega

/-- **A file that does not begin with a header comment gets it exactly once**: if the first
statement is not a comment starting with a block comment (M1 absent, M2 code first, M3 empty
line first, M4 `//` comments, M24 indented), one INVALID_HEADER is emitted at that statement. -/
theorem reject_no_header (srch : List Char → Bool) (e : HEvent) (es : List HEvent)
    (h : e.isComment = false ∨ e.multAt0 = none) : (headerRun srch (e :: es)).errors = 1 := by
  have absorbing : ∀ (es : List HEvent) (st : HState), st.parsed = true → es.foldl (headerStep srch) st = st := by
    intro es
    induction es with
    | nil => intro st _; rfl
    | cons e es ih => intro st hp; simp only [List.foldl_cons]; rw [show headerStep srch st e = st by unfold headerStep; simp [hp]]; exact ih st hp
  unfold headerRun
  simp only [List.foldl_cons]
  have : (headerStep srch {} e).parsed = true ∧ (headerStep srch {} e).errors = 1 := by
    unfold headerStep
    rcases h with h | h
    · simp [h]
    · cases hc : e.isComment <;> simp [hc, h]
  rw [absorbing es _ this.1]; exact this.2


/-! ### File level, for every rule table

`CheckHeader` is in the `_rule` list: it runs after every matched primary. What it reads of a
statement is whether the primary was `IsComment` and the statement's first token, so its
behaviour over a whole file is the state machine run over the statements of the engine's trace
(`headerRunFile`), whatever the rules are. -/

/-- **At most one INVALID_HEADER per file**, for every token list, every trace (every rule
table) and every search function. -/
theorem at_most_once_file (srch : List Char → Bool) (toks : List Token) (trace : List Segment) :
    (headerRunFile srch toks trace).errors ≤ 1 := at_most_once srch _

/-- **Exactly one when the file does not begin with a header comment**: the first statement was
not matched by `IsComment`, or its first token is not a block comment (code, an empty line, a
`//` comment, an indented comment). -/
theorem reject_file (srch : List Char → Bool) (toks : List Token) (g : Segment) (rest : List Segment)
    (h : g.rule ≠ "IsComment" ∨ ∀ t, toks[g.start]? = some t → t.type ≠ "MULT_COMMENT") :
    (headerRunFile srch toks (g :: rest)).errors = 1 := by
  unfold headerRunFile
  rw [List.map_cons]
  apply reject_no_header
  unfold headerEventOf
  rcases h with h | h
  · left; simp [h]
  · right
    cases ht : toks[g.start]? with
    | none => rfl
    | some t =>
      have := h t ht
      simp [this]

/-- **None when the file begins with a well-formed header**: the first eleven statements are
`IsComment` statements whose first tokens are the header's lines, possibly followed by more
own-line block comments, and the next statement (if any) is not a comment. -/
theorem accept_file (srch : List Char → Bool) (hA2 : ∀ s, Searches Generated.headerRegex s → srch s = true)
    (h : Header) (hw : h.WF) (toks : List Token) (hsegs rest : List Segment) (more : List (List Char))
    (hev : hsegs.map (headerEventOf toks) = h.events ++ more.map (fun l => ⟨true, some l⟩))
    (hrest : ∀ g, rest.head? = some g → g.rule ≠ "IsComment") :
    (headerRunFile srch toks (hsegs ++ rest)).errors = 0 := by
  unfold headerRunFile
  rw [List.map_append, hev]
  apply accept srch hA2 h hw more
  intro e he
  cases rest with
  | nil => simp at he
  | cons g gs =>
    simp only [List.map_cons, List.head?_cons, Option.some.injEq] at he
    subst he
    have := hrest g rfl
    simp [headerEventOf, this]

/-- the diagnostics are as many as the state machine counts, when every statement starts at a
token of the file -/
theorem headerDiags_length (srch : List Char → Bool) (toks : List Token) (trace : List Segment) (st : HState)
    (hin : ∀ g ∈ trace, g.start < toks.length) :
    (headerDiagsAux srch toks trace st).length + st.errors =
      ((trace.map (headerEventOf toks)).foldl (headerStep srch) st).errors := by
  induction trace generalizing st with
  | nil => simp [headerDiagsAux]
  | cons g gs ih =>
    have hg := hin g (by simp)
    have hrest := ih (headerStep srch st (headerEventOf toks g)) (fun g' hg' => hin g' (List.mem_cons_of_mem _ hg'))
    simp only [headerDiagsAux, List.map_cons, List.foldl_cons, List.length_append]
    rw [← hrest]
    have hmono : st.errors ≤ (headerStep srch st (headerEventOf toks g)).errors ∧
        (headerStep srch st (headerEventOf toks g)).errors ≤ st.errors + 1 := by
      unfold headerStep
      split
      · simp
      · split
        · split <;> simp
        · split
          · simp only; split <;> simp
          · simp
    have hget : toks[g.start]? = some toks[g.start] := List.getElem?_eq_getElem hg
    split
    · rw [hget]; simp; omega
    · simp; omega

/-- Non-vacuity: the header of tests/rules/samples/test_file_1012.c is well formed. -/
def exHeader : Header where
  b2 := "                                                                            ".toList
  b3 := "                                                        :::      ::::::::   ".toList
  f3 := "   ".toList
  fname := "hud.c                                              :+:      :+:    :+:   ".toList
  b5 := "                                                    +:+ +:+         +:+     ".toList
  by_ := "vgauther <vgauther@student.42.fr>          +#+  +:+       +#+        ".toList
  b7 := "                                                +#+#+#+#+#+   +#+           ".toList
  cdate := "2018/03/29".toList
  ctime := "13:47:14".toList
  crest := "vgauther          #+#    #+#             ".toList
  udate := "2018/05/02".toList
  utime := "21:16:08".toList
  urest := "vgauther         ###   ########.fr       ".toList
  b10 := "                                                                            ".toList
example : exHeader.WF := by unfold Header.WF; decide
example : searchNfa Generated.headerRegex exHeader.text = true := by decide +kernel

end Norm.C13
