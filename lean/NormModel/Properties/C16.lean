/-
C16 — options change the presentation, never the findings.
-/
import NormModel.Properties.C08
import NormModel.Properties.C04
import NormModel.Generated.Cli
import NormModel.Generated.Facts
namespace Norm.C16
open Norm

/-- **Format and colours cannot change the findings** (in the model of `main`'s tail): for
every list of analysed files, the humanized run and the JSON run report the same files, the
same verdicts and the same diagnostics in the same order, and exit with the same status. -/
theorem format_independent (fs : List CliFile) (hnf : firstFatal fs = none) (hh : C04.AllHl fs)
    (hb : ∀ f ∈ fs, basenameOf f.abspath = f.basename) :
    (cliRun .humanized fs).exit = (cliRun .json fs).exit ∧
    ∃ hd jd, (cliRun .humanized fs).printed = .human hd ∧ (cliRun .json fs).printed = .json jd ∧
      projectJson jd = some hd := by
  obtain ⟨hd, hprint, _⟩ := C04.one_verdict fs hnf hh
  have hreps : ∀ f ∈ fs.map CliFile.rep, basenameOf f.abspath = f.basename := by
    intro f hf
    obtain ⟨g, hg, rfl⟩ := List.mem_map.mp hf
    exact hb g hg
  have hagree := C08.formats_agree (fs.map CliFile.rep) hreps
  have hhuman : humanDoc (fs.map CliFile.rep) = some hd := by
    unfold cliRun at hprint
    simp only [hnf] at hprint
    split at hprint
    · rename_i doc hdoc
      simp only [Printed.human.injEq] at hprint
      subst hprint; exact hdoc
    · cases hprint
  refine ⟨?_, hd, jsonDoc (fs.map CliFile.rep), hprint, by simp [cliRun, hnf], by rw [hagree, hhuman]⟩
  simp [cliRun, hnf, hhuman]

/-- the options `main` declares are exactly the ones the model of `main` accounts for -/
theorem options_table : Generated.cliOptions.map (·.1) =
    ["file", "debug", "only_filename", "version", "cfile", "hfile", "filename", "use_gitignore", "format", "no_colors", "R"] := by
  decide +kernel

/-- `main` reads these attributes of the parsed arguments and no others; of them only `debug`
and `R` are handed to the analysis (`Context(file, tokens, debug, args.R)`), `format` and
`no_colors` go to the formatter, the rest select the input -/
theorem args_read : Generated.argsReads = ["R", "cfile", "debug", "file", "filename", "format", "hfile", "no_colors", "use_gitignore"] := by
  decide +kernel

/-- the modules that read an attribute called `debug` (a new reader breaks this) -/
theorem debug_readers_known : Generated.debugReaders =
    ["norminette/__main__.py", "norminette/context.py", "norminette/registry.py",
     "norminette/rules/check_utype_declaration.py", "norminette/rules/is_expression_statement.py"] := by
  decide +kernel

end Norm.C16
