/-
C07 — every statement is examined exactly once; nothing is skipped silently.
`engineRun` is the loop of `Registry.run`; the theorems hold for **every** rule table
(`step` is universally quantified: any primaries, any priorities, any scopes, any jumps).
-/
import NormModel.Proofs.Engine
namespace Norm.C07
open Norm

variable {σ : Type}

/-- **Partition.** On every run that reaches a verdict, each token index below `n` is
accounted for exactly once — by exactly one statement segment or by exactly one entry of
the unrecognised list — and nothing beyond `n` is: consecutive, non-overlapping, covering. -/
theorem tiling (step : σ → Nat → StepRes σ) (debug : Nat) (s s' : σ) (n : Nat)
    (t : List Segment) (u : List Nat) (h : engineRun step debug s n = .ok s' t u) :
    ∀ i, cover t u i = if i < n then 1 else 0 := by
  unfold engineRun at h
  have inv := einv_init n debug
  exact (engineLoop_post step debug n _ _ _ _ _ _ _ inv _ _ _ h).1.cov

/-- **Each statement consumes at least one token** and lies inside the file. -/
theorem nonempty (step : σ → Nat → StepRes σ) (debug : Nat) (s s' : σ) (n : Nat)
    (t : List Segment) (u : List Nat) (h : engineRun step debug s n = .ok s' t u) :
    ∀ g ∈ t, 1 ≤ g.len ∧ g.start + g.len ≤ n := by
  unfold engineRun at h
  have inv := einv_init n debug
  exact (engineLoop_post step debug n _ _ _ _ _ _ _ inv _ _ _ h).1.segs

/-- **Nothing is dropped silently.** With `debug = 0`, a run that ends with a verdict
(`ok`) has an empty unrecognised list; contrapositive: if any token is recognised by no
rule the run ends `fatal` (or a rule crashed) — it is never reported as analysed. -/
theorem no_silent_drop (step : σ → Nat → StepRes σ) (s s' : σ) (n : Nat)
    (t : List Segment) (u : List Nat) (h : engineRun step 0 s n = .ok s' t u) : u = [] := by
  unfold engineRun at h
  have inv := einv_init n 0
  exact (engineLoop_post step 0 n _ _ _ _ _ _ _ inv _ _ _ h).2 rfl

/-- Hence with `debug = 0` the statements alone tile the file. -/
theorem statements_tile (step : σ → Nat → StepRes σ) (s s' : σ) (n : Nat)
    (t : List Segment) (u : List Nat) (h : engineRun step 0 s n = .ok s' t u) :
    ∀ i, (t.filter (fun g => decide (g.start ≤ i ∧ i < g.start + g.len))).length = if i < n then 1 else 0 := by
  have hu := no_silent_drop step s s' n t u h
  have := tiling step 0 s s' n t u h
  subst hu
  intro i
  have := this i
  simpa [cover] using this

/-- **The loop terminates** for every rule table whose rule calls return: the run never
ends in `hang` (the fuel `n + 1` is never exhausted, every iteration pops ≥ 1 token). -/
theorem terminates (step : σ → Nat → StepRes σ) (debug : Nat) (s : σ) (n : Nat)
    (hstep : ∀ s p, ∀ (_ : step s p = .hang), False) : engineRun step debug s n ≠ .hang := by
  unfold engineRun
  exact engineLoop_no_hang step debug hstep _ _ _ _ _ _ _ (by omega)

/-- The loop raises nothing by itself: a crash of the run is the crash of a rule call. -/
theorem crash_is_rule_crash (step : σ → Nat → StepRes σ) (debug : Nat) (s : σ) (n : Nat) (w : String)
    (h : engineRun step debug s n = .crash w) : ∃ s p, step s p = .crash w := by
  unfold engineRun at h
  exact engineLoop_crash step debug _ _ _ _ _ _ _ _ h

/-- Non-vacuity: a table that recognises two-token statements except at index 4. -/
def exStep : Nat → Nat → StepRes Nat := fun s p =>
  if p = 4 then .noMatch s else .matched "R" 2 (s + 1)
example : (match engineRun exStep 1 0 7 with | .ok _ t u => (t.map (fun g => (g.start, g.len)), u) | _ => ([], []))
    = ([(0, 2), (2, 2), (5, 2)], [4]) := by decide
example : (match engineRun exStep 0 0 7 with | .fatal _ _ u => some u | _ => none) = some [4] := by decide

end Norm.C07
