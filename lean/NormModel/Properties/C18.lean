/-
C18 — diagnostics do not depend on how identifiers are spelled (lexer half).
The identifier sub-lexer consumes identifier characters one column each and stops at the
first other character; the token's position, the state after it and the diagnostics depend on
the identifier's LENGTH only; whether it is a keyword depends on membership in the keyword
table, which a renaming that avoids keywords preserves.
-/
import NormModel.Proofs.Ident
import NormModel.Proofs.Opaque
namespace Norm.C18
open Norm

/-- the identifier loop on any run of identifier characters -/
theorem ident_body (body tl : List Char) (s : LexSt) (v : List Char)
    (hr : s.rest = body ++ tl) (hb : ∀ c ∈ body, isIdChar c = true)
    (hstop : ∀ c, tl.head? = some c → isIdChar c = false) :
    identLoop (body.length + 1) s v = (shiftCols s body.length tl, v ++ body) :=
  identLoop_opaque body tl s v _ hr hb hstop (Nat.le_refl _)

/-- **Two identifiers of the same length are lexed alike**: same state afterwards (position,
line, column, diagnostics); the values have the same length. -/
theorem rename_same_length (b1 b2 tl : List Char) (s1 s2 : LexSt) (v : List Char)
    (h1 : s1.rest = b1 ++ tl) (h2 : s2.rest = b2 ++ tl) (hs : s2 = { s1 with rest := s2.rest })
    (hlen : b1.length = b2.length)
    (hb1 : ∀ c ∈ b1, isIdChar c = true) (hb2 : ∀ c ∈ b2, isIdChar c = true)
    (hstop : ∀ c, tl.head? = some c → isIdChar c = false) :
    (identLoop (b1.length + 1) s1 v).1 = (identLoop (b2.length + 1) s2 v).1 ∧
    (identLoop (b1.length + 1) s1 v).2.length = (identLoop (b2.length + 1) s2 v).2.length := by
  rw [ident_body b1 tl s1 v h1 hb1 hstop, ident_body b2 tl s2 v h2 hb2 hstop]
  refine ⟨?_, by simp [hlen]⟩
  rw [hs]; simp [shiftCols, hlen]

/-- **Renaming an identifier changes nothing but its value** (token level): two identifiers of the
same length — neither a keyword, each followed by the same text, which begins with neither an
identifier character nor a quote — are lexed from the same state to the same state; the two
tokens have the same type, position and extent and differ only in the spelling they carry. -/
theorem rename_token (u : Uni) (c0 d0 : Char) (cs ds tl : List Char) (hlen : cs.length = ds.length)
    (hc0 : isIdStart c0 = true) (hd0 : isIdStart d0 = true)
    (hcs : ∀ c ∈ cs, isIdChar c = true) (hds : ∀ c ∈ ds, isIdChar c = true)
    (hk1 : assoc Generated.keywords (String.ofList (c0 :: cs)) = none)
    (hk2 : assoc Generated.keywords (String.ofList (d0 :: ds)) = none)
    (hstop : ∀ c, tl.head? = some c → isIdChar c = false ∧ c ≠ '\'' ∧ c ≠ '"')
    (s1 s2 : LexSt) (h1 : s1.rest = c0 :: cs ++ tl) (h2 : s2 = { s1 with rest := d0 :: ds ++ tl }) :
    ∃ s' t1 t2, trySubLexers u s1 = .ok (some (s', t1)) ∧ trySubLexers u s2 = .ok (some (s', t2)) ∧
      t1.type = "IDENTIFIER" ∧ t2.type = "IDENTIFIER" ∧ t1.line = t2.line ∧ t1.col = t2.col ∧
      t1.start = t2.start ∧ t1.stop = t2.stop ∧
      t1.value = some (String.ofList (c0 :: cs)) ∧ t2.value = some (String.ofList (d0 :: ds)) := by
  obtain ⟨a, t1, a1, a2, a3, a4, a5, a6, a7, a8, a9, a10, a11, a12⟩ := ident_valid u c0 cs tl hc0 hcs hk1 hstop s1 h1
  obtain ⟨b, t2, b1, b2, b3, b4, b5, b6, b7, b8, b9, b10, b11, b12⟩ :=
    ident_valid u d0 ds tl hd0 hds hk2 hstop s2 (by rw [h2])
  have hs : a = b := by
    cases a; cases b
    simp only [LexSt.mk.injEq]
    simp only at a6 a7 a8 a9 a10 b6 b7 b8 b9 b10
    subst h2
    simp only at b7 b8 b9 b10
    refine ⟨by rw [a6, b6], by rw [a10, b10, hlen], by rw [a9, b9], by rw [a8, b8, hlen], by rw [a7, b7]⟩
  subst hs
  subst h2
  refine ⟨a, t1, t2, a1, b1, a2, b2, by rw [a4, b4], by rw [a5, b5], by rw [a11, b11], by rw [a12, b12, hlen], a3, b3⟩

/-- keywords are exactly the keys of the regenerated table, whose token names are distinct
from `IDENTIFIER`: a spelling outside the table is an IDENTIFIER with its own text as value -/
theorem keyword_names : ∀ kw ∈ Generated.keywords, kw.2 ≠ "IDENTIFIER" := by decide +kernel

/-- Non-vacuity: renaming `count`/`total` to `xxxxx`/`yyyyy` moves no token. -/
example :
    let run := fun (src : String) => (lex {} src.toList).toOption.map
      (fun r => (r.tokens.map (fun t => (t.type, t.line, t.col)), r.diags.length))
    run "int\tcount = total + 1;" = run "int\txxxxx = yyyyy + 1;" := by decide +kernel

end Norm.C18
