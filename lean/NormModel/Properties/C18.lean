/-
C18 — diagnostics do not depend on how identifiers are spelled (lexer half).
The identifier sub-lexer consumes identifier characters one column each and stops at the
first other character; the token's position, the state after it and the diagnostics depend on
the identifier's LENGTH only; whether it is a keyword depends on membership in the keyword
table, which a renaming that avoids keywords preserves.
-/
import NormModel.Proofs.Opaque
namespace Norm.C18
open Norm

/-- the identifier loop on any run of identifier characters -/
theorem ident_body (body tl : List Char) (s : LexSt) (v : List Char)
    (hr : s.rest = body ++ tl) (hb : ∀ c ∈ body, isIdChar c = true)
    (hstop : ∀ c, tl.head? = some c → isIdChar c = false) :
    identLoop (body.length + 1) s v = (shiftCols s body.length tl, v ++ body) :=
  identLoop_opaque body tl s v _ hr hb hstop (Nat.le_refl _)

/-- **Two identifiers of the same length are lexed alike**: same state afterwards (position,
line, column, diagnostics); the values have the same length. -/
theorem rename_same_length (b1 b2 tl : List Char) (s1 s2 : LexSt) (v : List Char)
    (h1 : s1.rest = b1 ++ tl) (h2 : s2.rest = b2 ++ tl) (hs : s2 = { s1 with rest := s2.rest })
    (hlen : b1.length = b2.length)
    (hb1 : ∀ c ∈ b1, isIdChar c = true) (hb2 : ∀ c ∈ b2, isIdChar c = true)
    (hstop : ∀ c, tl.head? = some c → isIdChar c = false) :
    (identLoop (b1.length + 1) s1 v).1 = (identLoop (b2.length + 1) s2 v).1 ∧
    (identLoop (b1.length + 1) s1 v).2.length = (identLoop (b2.length + 1) s2 v).2.length := by
  rw [ident_body b1 tl s1 v h1 hb1 hstop, ident_body b2 tl s2 v h2 hb2 hstop]
  refine ⟨?_, by simp [hlen]⟩
  rw [hs]; simp [shiftCols, hlen]

/-- keywords are exactly the keys of the regenerated table, whose token names are distinct
from `IDENTIFIER`: a spelling outside the table is an IDENTIFIER with its own text as value -/
theorem keyword_names : ∀ kw ∈ Generated.keywords, kw.2 ≠ "IDENTIFIER" := by decide +kernel

/-- Non-vacuity: renaming `count`/`total` to `xxxxx`/`yyyyy` moves no token. -/
example :
    let run := fun (src : String) => (lex {} src.toList).toOption.map
      (fun r => (r.tokens.map (fun t => (t.type, t.line, t.col)), r.diags.length))
    run "int\tcount = total + 1;" = run "int\txxxxx = yyyyy + 1;" := by decide +kernel

end Norm.C18
