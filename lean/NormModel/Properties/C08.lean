/-
C08 — reports are well-formed, ordered and identical in both output formats.
Statements only; helper lemmas live in Proofs/.
-/
import NormModel.Proofs.Reports
import NormModel.Proofs.LexTotal
import NormModel.Properties.C09
import NormModel.Generated.Catalogue
namespace Norm.C08
open Norm

/-- The diagnostics of a file are listed in ascending (line, column) order of the position
that is displayed, for every list of diagnostics that each carry at least one highlight
(unbounded positions, names, highlight lists). -/
theorem sorted_display (ds : List Diag) (h : ∀ d ∈ ds, HasHl d) :
    (sortDiags ds).Pairwise (fun a b => ∀ pa pb, a.pos? = some pa → b.pos? = some pb → posLe pa pb) := by
  have hs := sortBy_sorted Diag.le HasHl (fun a b ha hb => Diag.le_total ha hb)
    (fun a b c ha hb hc => Diag.le_trans ha hb hc) ds h
  exact hs.imp (fun hab pa pb ha hb => Diag.le_posLe hab ha hb)

/-- Sorting loses, duplicates and invents nothing. -/
theorem sorted_perm (ds : List Diag) : (sortDiags ds).Perm ds := sortBy_perm _ _

/-- Diagnostics displayed at the same position are ordered by code. -/
theorem sorted_ties_by_name (ds : List Diag) (h : ∀ d ∈ ds, HasHl d) :
    (sortDiags ds).Pairwise (fun a b => a.pos? = b.pos? → a.name ≤ b.name) := by
  have hs := sortBy_sorted Diag.le HasHl (fun a b ha hb => Diag.le_total ha hb)
    (fun a b c ha hb hc => Diag.le_trans ha hb hc) ds h
  have hm : ∀ d ∈ sortDiags ds, HasHl d := fun d hd => h d (mem_sortBy.mp hd)
  refine (List.Pairwise.and_mem.mp hs).imp ?_
  rintro a b ⟨ha, hb, hab⟩ hpos
  have ha' := hm a ha; have hb' := hm b hb
  unfold HasHl at ha' hb'
  match e1 : a.highlights, e2 : b.highlights with
  | [], _ => exact absurd e1 ha'
  | _ :: _, [] => exact absurd e2 hb'
  | x :: xs, y :: ys =>
    rw [Diag.le_iff_key e1 e2] at hab
    unfold Diag.pos? at hpos
    simp [e1, e2] at hpos
    unfold keyLe at hab
    rcases hab with hlt | ⟨_, hn⟩
    · simp at hlt; omega
    · exact hn

/-- The verdict of a file is `OK` iff it has no Error-level diagnostic. -/
theorem status_ok_iff (ds : List Diag) : status ds = .ok ↔ ∀ d ∈ ds, d.level = .notice := by
  unfold status
  split
  · rename_i h; simp only [true_iff]
    intro d hd; have := List.all_eq_true.mp h d hd; simpa using this
  · rename_i h
    constructor
    · intro h'; cases h'
    · intro h'; exfalso; apply h
      exact List.all_eq_true.mpr (fun d hd => by simp [h' d hd])

/-- The JSON document describes exactly the same files, verdicts and diagnostics, in the
same order, as the human-readable one (whenever the base name shown is the base name of
the absolute path stored in the JSON — `os.path.basename(os.path.abspath(p))`). -/
theorem formats_agree (fs : List FileRep) (hb : ∀ f ∈ fs, basenameOf f.abspath = f.basename) :
    projectJson (jsonDoc fs) = humanDoc fs := by
  unfold projectJson jsonDoc humanDoc
  congr 1
  rw [List.map_map]
  apply List.map_congr_left
  intro f hf
  simp [hb f hf]

/-- Both formats iterate the same sorted list: the JSON error list is the sorted list. -/
theorem json_errors_sorted (fs : List FileRep) :
    (jsonDoc fs).map (·.errors) = fs.map (fun f => sortDiags f.diags) := by
  unfold jsonDoc; simp

/-- Every diagnostic code the lexer model can emit through `Error.from_name` is a key of
the published catalogue (so `catText` is the catalogue text, never the KeyError marker). -/
def lexerCodes : List String :=
  ["NO_HEX_DIGITS", "UNKNOWN_ESCAPE", "MAXIMAL_MUNCH", "INVALID_SUFFIX", "INVALID_BIN_INT",
   "INVALID_OCT_INT", "INVALID_HEX_INT", "BAD_EXPONENT", "MULTIPLE_X", "MULTIPLE_DOTS",
   "BAD_FLOAT_SUFFIX", "UNEXPECTED_EOF_CHR", "UNEXPECTED_EOL_CHR", "EMPTY_CHAR", "CHAR_AS_STRING",
   "UNEXPECTED_EOF_STR", "UNEXPECTED_EOF_MC"]

theorem lexer_codes_in_catalogue :
    ∀ c ∈ lexerCodes, (Generated.catalogue.map Prod.fst).contains c = true := by decide

/-- Catalogue keys are unique, so "the catalogue text of a code" is well defined. -/
theorem catalogue_keys_nodup : (Generated.catalogue.map Prod.fst).Nodup := by decide +kernel

/-- No two codes share a text (a diagnostic's text identifies its code), except the one pair
the published catalogue has always shared. -/
theorem catalogue_texts_distinct :
    ((Generated.catalogue.filter (fun kv => kv.1 != "TAB_REPLACE_SPACE")).map Prod.snd).Nodup := by decide +kernel

/-- Every diagnostic the lexer produces carries at least one highlight, for every input
(needed: the comparator is only a strict weak order on such diagnostics, and both
formatters read `highlights[0]`). -/
theorem lexer_diags_have_highlight (u : Uni) (src : List Char) (r : LexResult) (h : lex u src = .ok r) :
    ∀ d ∈ r.diags, HasHl d := by
  unfold lex at h
  split at h
  · cases h
  · rename_i items sf hrun
    simp only [Except.ok.injEq] at h
    subst h
    obtain ⟨_, ⟨n, _, _, _, _, ds, h5, h6⟩, _⟩ := lexItems_tiling u src _ _ items sf (good_init src) hrun
    intro d hd
    simp only at hd
    rw [h5] at hd
    simp only [List.nil_append] at hd
    exact (h6 d hd).hasHl

/-- number of lines of a text: one per newline, plus the last line when it does not end with one -/
def numLines (src : List Char) : Nat :=
  src.count '\n' + (if src = [] ∨ src.getLast? = some '\n' then 0 else 1)

/-- **The printed position of every lexical diagnostic lies inside the file**: `1 ≤ line ≤ number of lines` and
`column ≥ 1`, for every source text (from `C09.diag_positions`: the position is that of a character of the file). -/
theorem lexer_diag_inside_file (u : Uni) (src : List Char) (r : LexResult) (h : lex u src = .ok r) :
    ∀ d ∈ r.diags, ∃ hl tl, d.highlights = hl :: tl ∧ 1 ≤ hl.line ∧ hl.line ≤ numLines src ∧ 1 ≤ hl.col := by
  intro d hd
  obtain ⟨hl, tl, k, e1, e2, e3⟩ := C09.diag_positions u src r h d hd
  refine ⟨hl, tl, e1, ?_⟩
  have hline := advPos_line_eq (1, 1) (src.take k)
  have hcol := advPos_col_pos (1, 1) (src.take k) (by decide)
  unfold Spec.visualPos at e3
  have h1 : hl.line = (Spec.advPos (1, 1) (src.take k)).1 := congrArg Prod.fst e3
  have h2 : hl.col = (Spec.advPos (1, 1) (src.take k)).2 := congrArg Prod.snd e3
  simp only at hline
  have hsplit : src.count '\n' = (src.take k).count '\n' + (src.drop k).count '\n' := by
    conv => lhs; rw [← List.take_append_drop k src]
    exact List.count_append
  have hne : src.drop k ≠ [] := by
    intro e
    have := congrArg List.length e
    simp at this; omega
  have hsrc : src ≠ [] := by intro e; subst e; simp at e2
  unfold numLines
  by_cases hc : (src.drop k).count '\n' = 0
  · have hnot : ¬ (src = [] ∨ src.getLast? = some '\n') := by
      rintro (e | e)
      · exact hsrc e
      · have hl2 : src.getLast? = (src.drop k).getLast? := by
          conv => lhs; rw [← List.take_append_drop k src]
          rw [List.getLast?_append]
          cases hg : (src.drop k).getLast? with
          | none => exact absurd (List.getLast?_eq_none_iff.mp hg) hne
          | some x => rfl
        rw [hl2] at e
        have hmem : '\n' ∈ src.drop k := List.mem_of_getLast? e
        have := List.count_pos_iff.mpr hmem
        omega
    simp only [hnot, ↓reduceIte]
    omega
  · split <;> omega

/-- Non-vacuity: a concrete list with ties, several highlights and a Notice. -/
def exampleDiags : List Diag := [
  { name := "B", text := "", highlights := [⟨3, 5, none, none⟩, ⟨1, 1, none, none⟩] },
  { name := "A", text := "", level := .notice, highlights := [⟨3, 5, none, none⟩] },
  { name := "C", text := "", highlights := [⟨2, 9, none, none⟩] }]

example : (∀ d ∈ exampleDiags, HasHl d) ∧
    (sortDiags exampleDiags).map (·.name) = ["C", "A", "B"] ∧ status exampleDiags = .error := by
  decide

end Norm.C08
