/-
C01 — Norm-conforming files are accepted (the provable fragments).
The full statement quantifies over the conforming-program grammar of DESIGN §4.1 and over the
whole rule table; what is proved here are the clauses that stand on modelled code:
verdict/exit plumbing, the header, integer constants, the 80-column limit.  The rest is decided
per program by the acceptance oracle on the real pipeline.
-/
import NormModel.Properties.C03
import NormModel.Properties.C04
import NormModel.Properties.C11
import NormModel.Properties.C13
import NormModel.Proofs.Spacing
namespace Norm.C01
open Norm Spec

/-- full statement, kept visible: every program of the grammar gets only Notices -/
def full (Conforming : Type) (render : Conforming → List Char) (diagnose : List Char → Option (List Diag)) : Prop :=
  ∀ p : Conforming, ∃ ds, diagnose (render p) = some ds ∧ ∀ d ∈ ds, d.level = .notice

/-- **Verdict and exit status**: files whose diagnostics are all Notices are each reported
`OK` and the run exits 0, for any number of files. -/
theorem verdict_ok (fs : List CliFile) (hnf : firstFatal fs = none) (hh : C04.AllHl fs)
    (hn : ∀ f ∈ fs, ∀ d ∈ f.diags, d.level = .notice) :
    (cliRun .humanized fs).exit = 0 ∧
    ∃ doc, (cliRun .humanized fs).printed = .human doc ∧ ∀ g ∈ doc, g.status = .ok := by
  have hall : ∀ f ∈ fs, status f.diags = .ok := fun f hf => (C04.ok_iff f).mpr (hn f hf)
  refine ⟨(C04.exit_iff .humanized fs hnf hh).mpr hall, ?_⟩
  obtain ⟨doc, h1, _, h3, _⟩ := C04.one_verdict fs hnf hh
  refine ⟨doc, h1, ?_⟩
  intro g hg
  have : g.status ∈ doc.map (·.status) := List.mem_map.mpr ⟨g, hg, rfl⟩
  rw [h3] at this
  obtain ⟨f, hf, hfe⟩ := List.mem_map.mp this
  rw [← hfe]; exact hall f hf

/-- the column of a position inside a line never exceeds the column at the end of the line -/
theorem col_mono (l : List Char) (hnl : ∀ c ∈ l, c ≠ '\n') (k : Nat) (p : Nat × Nat) :
    (advPos p (l.take k)).2 ≤ (advPos p l).2 := by
  induction l generalizing k p with
  | nil => simp
  | cons c cs ih =>
    cases k with
    | zero =>
      simp only [List.take_zero, advPos, List.foldl_nil]
      -- columns only grow along a line
      have grow : ∀ (m : List Char) (q : Nat × Nat), (∀ c ∈ m, c ≠ '\n') → q.2 ≤ (advPos q m).2 := by
        intro m
        induction m with
        | nil => intro q _; simp [advPos]
        | cons d ds ihm =>
          intro q hq
          simp only [advPos, List.foldl_cons] at ihm ⊢
          have hd := hq d (by simp)
          have := ihm (advPos1 q d) (fun e he => hq e (by simp [he]))
          have h1 : q.2 ≤ (advPos1 q d).2 := by
            unfold advPos1; simp only [hd, ↓reduceIte]; split <;> simp
          omega
      exact grow (c :: cs) p hnl
    | succ k =>
      simp only [List.take_succ_cons, advPos, List.foldl_cons]
      exact ih (fun d hd => hnl d (by simp [hd])) k (advPos1 p c)

/-- **No line-length diagnostic in a file whose lines are all at most 80 columns wide**: every
position inside such a line, in particular the start of every token (C09), is at column ≤ 81,
so `CheckLineLen` finds nothing to report in any statement. -/
theorem linelen_silent (toks : List (Nat × Nat)) (h : ∀ t ∈ toks, t.2 ≤ 81) : checkLineLen toks [] = [] := by
  cases hc : checkLineLen toks [] with
  | nil => rfl
  | cons l ls =>
    have hm : l ∈ checkLineLen toks [] := by rw [hc]; simp
    obtain ⟨t, ht, _, h81⟩ := (C03.linelen_iff toks l).mp hm
    have := h t ht
    omega

theorem token_col_le (pre line : List Char) (hpre : pre = [] ∨ pre.getLast? = some '\n')
    (hnl : ∀ c ∈ line, c ≠ '\n') (hw : C03.lineWidth line ≤ 80) (k : Nat) (hk : k ≤ line.length) (rest : List Char) :
    (visualPos (pre ++ line ++ rest) (pre.length + k)).2 ≤ 81 := by
  have h1 := C19.visualPos_prefix pre (line ++ rest) k hpre
  rw [List.append_assoc, h1]
  simp only [visualPos]
  have : (line ++ rest).take k = line.take k := by
    rw [List.take_append_of_le_length hk]
  rw [this]
  have := col_mono line hnl k (1, 1)
  unfold C03.lineWidth at hw
  omega

/-! ### The always-run checks are silent on conforming token lists, for every rule table -/

/-- **`CheckSpacing` invents nothing**: if no SPACE token of the file is at column 1, next to
another blank or before a NEWLINE, and no TAB is directly before a NEWLINE (which is what "tab
indentation, single spaces, no trailing blanks" means for the token list), then `CheckSpacing`
adds no diagnostic anywhere in the file — whatever the primaries match. -/
theorem spacing_silent (toks : List Token) (trace : List Segment) (hc : WsClean toks) :
    spacingDiagsRun toks trace = [] := spacingDiagsRun_clean toks trace hc

/-- **`CheckTernary` and `CheckLineLen` invent nothing**: a file without `?` tokens whose tokens
all start at or before column 81 gets nothing from them. -/
theorem always_silent (toks : List Token) (trace : List Segment)
    (hq : ∀ tk ∈ toks, tk.type ≠ "TERN_CONDITION") (hcol : ∀ tk ∈ toks, tk.col ≤ 81) :
    alwaysDiagsRun toks trace = [] := by
  unfold alwaysDiagsRun
  rw [List.flatMap_eq_nil_iff]
  intro g _
  unfold alwaysDiags
  have h1 : ternaryToks (segToks toks g) = [] := by
    unfold ternaryToks
    rw [List.filter_eq_nil_iff]
    intro tk htk
    have := hq tk (segToks_sub toks g tk htk)
    simpa using this
  have h2 : lineLenToks (segToks toks g) [] = [] := by
    cases hl : lineLenToks (segToks toks g) [] with
    | nil => rfl
    | cons a l =>
      have hm : a ∈ lineLenToks (segToks toks g) [] := by rw [hl]; simp
      obtain ⟨hs, hc81, _⟩ := lineLenToks_sound _ _ _ hm
      have := hcol a (segToks_sub toks g a hs)
      omega
  rw [h1, h2]; rfl

/-- **`CheckManyInstructions` invents nothing**: if every statement starts at column 1 (one instruction per line: the
indentation belongs to the statement), no TOO_MANY_INSTR is added — whatever the primaries match. -/
theorem many_instr_silent (toks : List Token) (trace : List Segment)
    (h : ∀ g ∈ trace, ∀ tk, toks[g.start]? = some tk → tk.col ≤ 1) : manyInstrDiagsRun toks trace = [] := by
  unfold manyInstrDiagsRun
  rw [List.flatMap_eq_nil_iff]
  intro g hg
  unfold manyInstrDiags
  split
  · split
    · rename_i tk htk
      have := h g hg tk htk
      have hn : ¬ 1 < tk.col := by omega
      simp [hn]
    · rfl
  · rfl

/-- Non-vacuity: the token list of `\tx = a + 1;\n` is cleanly spaced. -/
example : spacingDiagsRun [⟨"TAB", 1, 1, none, 0, 1⟩, ⟨"IDENTIFIER", 1, 5, some "x", 1, 2⟩, ⟨"SPACE", 1, 6, none, 2, 3⟩,
    ⟨"ASSIGN", 1, 7, none, 3, 4⟩, ⟨"SPACE", 1, 8, none, 4, 5⟩, ⟨"IDENTIFIER", 1, 9, some "a", 5, 6⟩, ⟨"SEMI_COLON", 1, 10, none, 6, 7⟩,
    ⟨"NEWLINE", 1, 11, none, 7, 8⟩] [⟨"IsAssignation", 0, 8⟩] = [] := by decide +kernel

/- the header of a conforming file is `C13.accept`, its integer constants are `C11.int_valid`
(imported above, re-checked with this file) -/

end Norm.C01
