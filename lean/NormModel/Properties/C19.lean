/-
C19 — diagnostics are local: unrelated text only shifts them (lexer/position half).
-/
import NormModel.Proofs.LexShift
import NormModel.Proofs.CommentLine
import NormModel.Properties.C09
namespace Norm.C19
open Norm Spec

/-- number of newlines of a text -/
def nlCount (l : List Char) : Nat := l.count '\n'

theorem advPos_lines (p : Nat × Nat) (l : List Char) : (advPos p l).1 = p.1 + nlCount l := by
  induction l generalizing p with
  | nil => simp [advPos, nlCount]
  | cons c cs ih =>
    have := ih (advPos1 p c)
    simp only [advPos, List.foldl_cons] at this ⊢
    rw [this]
    unfold advPos1 nlCount
    by_cases h : c = '\n'
    · subst h; simp; omega
    · by_cases h2 : c = '\t'
      · subst h2; simp
      · have : ¬ ('\n' = c) := fun e => h e.symm
        simp [h, h2, List.count_cons, this]

/-- a text that is empty or ends with a newline leaves the column at 1 -/
theorem advPos_ends_nl (l : List Char) (h : l = [] ∨ l.getLast? = some '\n') :
    advPos (1, 1) l = (1 + nlCount l, 1) := by
  rcases h with rfl | h
  · simp [advPos, nlCount]
  · obtain ⟨init, rfl⟩ : ∃ init, l = init ++ ['\n'] := by
      cases hl : l.reverse with
      | nil => simp at hl; subst hl; simp at h
      | cons x xs =>
        have : l = xs.reverse ++ [x] := by
          have := congrArg List.reverse hl; simpa using this
        subst this
        simp at h; subst h
        exact ⟨xs.reverse, rfl⟩
    rw [advPos_snoc_nl]
    have := advPos_lines (1, 1) init
    simp only [nlCount, List.count_append] at *
    rw [this]; simp; omega

/-- **Prepending whole lines shifts visual positions by that many lines and nothing else**:
for a prefix `pre` made of complete lines, the position of offset `|pre| + k` in `pre ++ src`
is the position of offset `k` in `src`, moved down by the number of lines of `pre`. -/
theorem visualPos_prefix (pre src : List Char) (k : Nat) (h : pre = [] ∨ pre.getLast? = some '\n') :
    visualPos (pre ++ src) (pre.length + k) =
      ((visualPos src k).1 + nlCount pre, (visualPos src k).2) := by
  unfold visualPos
  rw [List.take_append, List.take_of_length_le (Nat.le_add_right _ _)]
  simp only [Nat.add_sub_cancel_left]
  rw [advPos_append, advPos_ends_nl pre h]
  -- advPos from (1 + n, 1) is advPos from (1, 1) with the line shifted
  have shift : ∀ (l : List Char) (p : Nat × Nat) (n : Nat),
      advPos (p.1 + n, p.2) l = ((advPos p l).1 + n, (advPos p l).2) := by
    intro l
    induction l with
    | nil => intro p n; simp [advPos]
    | cons c cs ih =>
      intro p n
      simp only [advPos, List.foldl_cons] at ih ⊢
      have : advPos1 (p.1 + n, p.2) c = ((advPos1 p c).1 + n, (advPos1 p c).2) := by
        unfold advPos1; split
        · simp; omega
        · split <;> simp
      rw [this]
      exact ih _ _
  have := shift (src.take k) (1, 1) (nlCount pre)
  simp only at this
  rw [show (1 + nlCount pre, 1) = ((1 : Nat) + nlCount pre, (1 : Nat)) from rfl, this]

/-- Hence a token of `pre ++ src` that starts `k` characters into `src` is reported
`nlCount pre` lines below where a token starting at offset `k` of `src` alone is reported,
in the same column (both by C09.token_positions). -/
theorem token_shift (u : Uni) (pre src : List Char) (h : pre = [] ∨ pre.getLast? = some '\n')
    (r r' : LexResult) (hr : lex u src = .ok r) (hr' : lex u (pre ++ src) = .ok r')
    (t t' : Token) (ht : t ∈ r.tokens) (ht' : t' ∈ r'.tokens) (hs : t'.start = pre.length + t.start) :
    t'.line = t.line + nlCount pre ∧ t'.col = t.col := by
  have h1 := (C09.token_positions u src r hr t ht).1
  have h2 := (C09.token_positions u (pre ++ src) r' hr' t' ht').1
  rw [hs, visualPos_prefix pre src t.start h, ← h1] at h2
  simp only [Prod.mk.injEq] at h2
  exact h2


/-! ### The lexer itself is local -/

/-- more fuel changes nothing once a run succeeds -/
theorem lexItems_fuel_mono (u : Uni) (fuel n : Nat) (s : LexSt) (r : List Item × LexSt)
    (h : lexItems u fuel s = .ok r) : lexItems u (fuel + n) s = .ok r := by
  induction fuel generalizing s r with
  | zero => simp [lexItems] at h
  | succ fuel ih =>
    rw [show fuel + 1 + n = (fuel + n) + 1 by omega]
    unfold lexItems at h ⊢
    simp only at h ⊢
    cases htry : trySubLexers u (skipSplices (s.rest.length + 1) s) with
    | error e => rw [htry] at h; cases h
    | ok o =>
      rw [htry] at h
      cases o with
      | some p =>
        obtain ⟨s1, t⟩ := p
        simp only at h ⊢
        cases hrec : lexItems u fuel s1 with
        | error e => rw [hrec] at h; cases h
        | ok q =>
          rw [hrec] at h
          rw [ih s1 q hrec]
          exact h
      | none =>
        simp only at h ⊢
        cases hr : (skipSplices (s.rest.length + 1) s).rest with
        | nil => rw [hr] at h; exact h
        | cons c tl =>
          rw [hr] at h
          simp only at h ⊢
          cases hrec : lexItems u fuel (badLexeme (skipSplices (s.rest.length + 1) s) c) with
          | error e => rw [hrec] at h; cases h
          | ok q =>
            rw [hrec] at h
            rw [ih _ q hrec]
            exact h

/-- **The lexer is blind to what precedes it.** Standing at column 1 in front of the text `src`,
after `dl` lines and `dp` characters of other text (whatever diagnostics `d0` that text produced),
the lexer produces exactly the items it produces for `src` alone — same kinds, same values, same
columns — moved down by `dl` lines (offsets by `dp`), and the same diagnostics moved likewise. -/
theorem lex_shift (u : Uni) (src : List Char) (d0 : List Diag) (dl dp fuel : Nat) :
    lexItems u fuel { rest := src, pos := dp, line := 1 + dl, col := 1, diags := d0 } =
      (lexItems u fuel { rest := src }).map (fun r => (r.1.map (shItem dl dp), shSt d0 dl dp r.2)) := by
  have := lexItems_sh d0 dl dp u fuel { rest := src }
  have e : shSt d0 dl dp { rest := src } = { rest := src, pos := dp, line := 1 + dl, col := 1, diags := d0 } := by
    simp [shSt]
  rw [e] at this
  exact this

/-- In terms of `lex`: if `src` alone lexes to `r`, then from the standing point after a prefix
`pre` of complete lines the rest of the run is `r` moved down by the lines of `pre`. (That the
run over `pre ++ src` reaches this standing point is the case whenever `pre` ends with a newline
that is a token of its own; by C09/C10 the state there has exactly this position.) -/
theorem lex_after_prefix (u : Uni) (pre src : List Char) (d0 : List Diag) (r : LexResult)
    (h : lex u src = .ok r) (n : Nat) :
    ∃ sf, lexItems u (src.length + 1 + n)
        { rest := src, pos := pre.length, line := 1 + nlCount pre, col := 1, diags := d0 } =
      .ok (r.items.map (shItem (nlCount pre) pre.length), sf) ∧
      sf.diags = d0 ++ r.diags.map (shDiag (nlCount pre)) := by
  unfold lex at h
  cases hrun : lexItems u (src.length + 1) { rest := src } with
  | error e => rw [hrun] at h; cases h
  | ok q =>
    rw [hrun] at h
    simp only [Except.ok.injEq] at h
    subst h
    have hm := lexItems_fuel_mono u (src.length + 1) n { rest := src } q hrun
    have := lex_shift u src d0 (nlCount pre) pre.length (src.length + 1 + n)
    rw [hm] at this
    exact ⟨shSt d0 (nlCount pre) pre.length q.2, this, rfl⟩

/-! ### … and it reaches that standing point after comment lines -/

theorem triAt_second {a b : Char} {l : List Char} {d : Char} (h : triAt (a :: b :: l) = some d) : a = '?' ∧ b = '?' := by
  unfold triAt at h
  split at h
  · rename_i heq; simp at heq; exact ⟨heq.1, heq.2.1⟩
  · cases h

theorem triAt_cons3 (a b c : Char) (t1 t2 : List Char) : triAt (a :: b :: c :: t1) = triAt (a :: b :: c :: t2) := by
  cases h1 : triAt (a :: b :: c :: t1) with
  | some d =>
    obtain ⟨rfl, rfl⟩ := triAt_second h1
    rw [← h1]; rfl
  | none =>
    cases h2 : triAt (a :: b :: c :: t2) with
    | none => rfl
    | some d =>
      obtain ⟨rfl, rfl⟩ := triAt_second h2
      have : triAt ('?' :: '?' :: c :: t1) = triAt ('?' :: '?' :: c :: t2) := rfl
      rw [h1, h2] at this; cases this

theorem peek1_append_len3 (l x : List Char) (h : 3 ≤ l.length) : peek1 (l ++ x) 0 = peek1 l 0 := by
  match l, h with
  | a :: b :: c :: tl, _ =>
    unfold peek1
    simp only [List.drop_zero, List.cons_append]
    rw [triAt_cons3 a b c (tl ++ x) tl, diAt_cons2, diAt_cons2]

/-- decidable form of `SelfReads` -/
def selfReadsB : List Char → List Char → Bool
  | [], _ => true
  | c :: body, after =>
    (peek1 (c :: (body ++ after)) 0 == some (c, 1)) && c != '\\' && c != '\n' && c != '\t' && selfReadsB body after

theorem selfReadsB_sound (body : List Char) (a b : Char) (tl : List Char) (h : selfReadsB body [a, b] = true) :
    SelfReads body (a :: b :: tl) := by
  induction body with
  | nil => exact SelfReads.nil _
  | cons c body ih =>
    simp only [selfReadsB, Bool.and_eq_true, beq_iff_eq, bne_iff_ne, ne_eq] at h
    obtain ⟨⟨⟨⟨h1, h2⟩, h3⟩, h4⟩, h5⟩ := h
    refine SelfReads.cons c body _ ?_ h2 h3 h4 (ih h5)
    have e : c :: (body ++ a :: b :: tl) = (c :: (body ++ [a, b])) ++ tl := by simp
    rw [e, peek1_append_len3 _ _ (by simp)]
    exact h1

/-- decidable form of `NoEarlyClose` -/
def noEarlyCloseB (v body : List Char) : Bool :=
  (List.range body.length).all fun k =>
    !(endsWithStarSlash (v ++ body.take (k + 1)) && decide ((v ++ body.take (k + 1)).length ≥ 4))

theorem noEarlyCloseB_sound (v body : List Char) (h : noEarlyCloseB v body = true) : NoEarlyClose v body := by
  intro n hn hle
  unfold noEarlyCloseB at h
  rw [List.all_eq_true] at h
  have := h (n - 1) (by simp; omega)
  have e : n - 1 + 1 = n := by omega
  rw [e] at this
  cases hx : (endsWithStarSlash (v ++ body.take n) && decide ((v ++ body.take n).length ≥ 4)) with
  | false => rfl
  | true => rw [hx] at this; cases this

/-- a line that can be checked by evaluation -/
def lineOKB (body : List Char) : Bool := selfReadsB body ['*', '/'] && noEarlyCloseB ['/', '*'] body

theorem lineOKB_sound (body : List Char) (h : lineOKB body = true) : LineOK body := by
  simp only [lineOKB, Bool.and_eq_true] at h
  exact ⟨fun tl => selfReadsB_sound body '*' '/' tl h.1, noEarlyCloseB_sound _ _ h.2⟩

theorem cline_length_ge (b : List Char) : 5 ≤ (cline b).length := by simp [cline]

theorem clines_length_ge (bodies : List (List Char)) : 2 * bodies.length ≤ (clines bodies).length := by
  induction bodies with
  | nil => simp [clines]
  | cons b bs ih =>
    have := cline_length_ge b
    simp only [clines, List.length_append, List.length_cons]
    omega

/-- **Comment lines in front of a file only move its tokens down** (C19, lexer half, complete): if `src` lexes to `r`,
then `n` block-comment lines (`/* … */` + newline, each passing `LineOK`: every character reads as itself, no `*/` inside)
followed by `src` lex to 2n comment/newline tokens followed by exactly the items of `r` moved down by `n` lines (same
kinds, values and columns; offsets moved by the length of the lines), and the diagnostics of `r` moved likewise.
With `lex_shift` this is the reachability half that `lex_after_prefix` left open. -/
theorem comment_lines_prefix (u : Uni) (bodies : List (List Char)) (hok : ∀ b ∈ bodies, LineOK b) (src : List Char)
    (r : LexResult) (h : lex u src = .ok r) :
    ∃ hdr r', lex u (clines bodies ++ src) = .ok r' ∧ hdr.length = 2 * bodies.length ∧
      (∀ it ∈ hdr, ∃ t, it = Item.tok t ∧ (t.type = "MULT_COMMENT" ∨ t.type = "NEWLINE")) ∧
      r'.items = hdr ++ r.items.map (shItem bodies.length (clines bodies).length) ∧
      r'.diags = r.diags.map (shDiag bodies.length) := by
  have hL := clines_length_ge bodies
  unfold lex at h
  cases hrun : lexItems u (src.length + 1) { rest := src } with
  | error e => rw [hrun] at h; cases h
  | ok q =>
    rw [hrun] at h
    simp only [Except.ok.injEq] at h
    subst h
    -- fuel bookkeeping
    have hfuel : (clines bodies ++ src).length + 1 = (src.length + 1 + ((clines bodies).length - 2 * bodies.length)) + 2 * bodies.length := by
      simp only [List.length_append]; omega
    obtain ⟨hdr, hl, hty, hlex⟩ := commentLines_lex u (src.length + 1 + ((clines bodies).length - 2 * bodies.length)) bodies hok
      { rest := clines bodies ++ src } src rfl rfl
    have hm := lexItems_fuel_mono u (src.length + 1) ((clines bodies).length - 2 * bodies.length) { rest := src } q hrun
    have hsh := lex_shift u src [] bodies.length (clines bodies).length (src.length + 1 + ((clines bodies).length - 2 * bodies.length))
    rw [hm] at hsh
    dsimp only at hlex
    rw [Nat.zero_add, hsh] at hlex
    refine ⟨hdr, ⟨(hdr ++ q.1.map (shItem bodies.length (clines bodies).length)).filterMap Item.tok?,
      (shSt [] bodies.length (clines bodies).length q.2).diags, hdr ++ q.1.map (shItem bodies.length (clines bodies).length)⟩, ?_, hl, hty, rfl, ?_⟩
    · unfold lex
      rw [hfuel, hlex]
      rfl
    · simp [shSt]

/-- Non-vacuity: the frame and a field line of the 42 header pass `LineOK`; two comment lines in front of `int\tx;`. -/
example : lineOKB " ************************************************************************** ".toList = true ∧
    lineOKB "   By: marvin <marvin@42.fr>                      +#+  +:+       +#+        ".toList = true ∧
    lineOKB "   Created: 2023/01/01 10:00:00 by marvin            #+#    #+#             ".toList = true ∧
    lineOKB " a */ b ".toList = false ∧ lineOKB " a <: b ".toList = false := by decide +kernel

example : (lex {} (clines [" a ".toList, " b:c ".toList] ++ "int\tx;".toList)).toOption.map
      (fun r => r.tokens.map (fun t => (t.type, t.line, t.col)))
    = some [("MULT_COMMENT", 1, 1), ("NEWLINE", 1, 8), ("MULT_COMMENT", 2, 1), ("NEWLINE", 2, 10),
            ("INT", 3, 1), ("TAB", 3, 4), ("IDENTIFIER", 3, 5), ("SEMI_COLON", 3, 6)] := by decide +kernel

/-- Non-vacuity: `int\tx;` lexed alone and lexed from the standing point after two lines. -/
example :
    (lexItems {} 8 { rest := "int\tx;".toList, pos := 16, line := 3, col := 1 }).toOption.map
      (fun r => r.1.filterMap (fun it => match it with | .tok t => some (t.type, t.line, t.col, t.start) | _ => none))
    = some [("INT", 3, 1, 16), ("TAB", 3, 4, 19), ("IDENTIFIER", 3, 5, 20), ("SEMI_COLON", 3, 6, 21)] := by decide +kernel

/-- Non-vacuity: an 11-line header in front of a file moves every token down by 11. -/
example : nlCount "/* a */\n/* b */\n".toList = 2 ∧
    visualPos ("/* a */\n/* b */\n".toList ++ "int\tx;".toList) (16 + 4) = (3, 5) := by decide +kernel

end Norm.C19
