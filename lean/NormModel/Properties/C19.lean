/-
C19 — diagnostics are local: unrelated text only shifts them (lexer/position half).
-/
import NormModel.Properties.C09
namespace Norm.C19
open Norm Spec

/-- number of newlines of a text -/
def nlCount (l : List Char) : Nat := l.count '\n'

theorem advPos_lines (p : Nat × Nat) (l : List Char) : (advPos p l).1 = p.1 + nlCount l := by
  induction l generalizing p with
  | nil => simp [advPos, nlCount]
  | cons c cs ih =>
    have := ih (advPos1 p c)
    simp only [advPos, List.foldl_cons] at this ⊢
    rw [this]
    unfold advPos1 nlCount
    by_cases h : c = '\n'
    · subst h; simp; omega
    · by_cases h2 : c = '\t'
      · subst h2; simp
      · have : ¬ ('\n' = c) := fun e => h e.symm
        simp [h, h2, List.count_cons, this]

/-- a text that is empty or ends with a newline leaves the column at 1 -/
theorem advPos_ends_nl (l : List Char) (h : l = [] ∨ l.getLast? = some '\n') :
    advPos (1, 1) l = (1 + nlCount l, 1) := by
  rcases h with rfl | h
  · simp [advPos, nlCount]
  · obtain ⟨init, rfl⟩ : ∃ init, l = init ++ ['\n'] := by
      cases hl : l.reverse with
      | nil => simp at hl; subst hl; simp at h
      | cons x xs =>
        have : l = xs.reverse ++ [x] := by
          have := congrArg List.reverse hl; simpa using this
        subst this
        simp at h; subst h
        exact ⟨xs.reverse, rfl⟩
    rw [advPos_snoc_nl]
    have := advPos_lines (1, 1) init
    simp only [nlCount, List.count_append] at *
    rw [this]; simp; omega

/-- **Prepending whole lines shifts visual positions by that many lines and nothing else**:
for a prefix `pre` made of complete lines, the position of offset `|pre| + k` in `pre ++ src`
is the position of offset `k` in `src`, moved down by the number of lines of `pre`. -/
theorem visualPos_prefix (pre src : List Char) (k : Nat) (h : pre = [] ∨ pre.getLast? = some '\n') :
    visualPos (pre ++ src) (pre.length + k) =
      ((visualPos src k).1 + nlCount pre, (visualPos src k).2) := by
  unfold visualPos
  rw [List.take_append, List.take_of_length_le (Nat.le_add_right _ _)]
  simp only [Nat.add_sub_cancel_left]
  rw [advPos_append, advPos_ends_nl pre h]
  -- advPos from (1 + n, 1) is advPos from (1, 1) with the line shifted
  have shift : ∀ (l : List Char) (p : Nat × Nat) (n : Nat),
      advPos (p.1 + n, p.2) l = ((advPos p l).1 + n, (advPos p l).2) := by
    intro l
    induction l with
    | nil => intro p n; simp [advPos]
    | cons c cs ih =>
      intro p n
      simp only [advPos, List.foldl_cons] at ih ⊢
      have : advPos1 (p.1 + n, p.2) c = ((advPos1 p c).1 + n, (advPos1 p c).2) := by
        unfold advPos1; split
        · simp; omega
        · split <;> simp
      rw [this]
      exact ih _ _
  have := shift (src.take k) (1, 1) (nlCount pre)
  simp only at this
  rw [show (1 + nlCount pre, 1) = ((1 : Nat) + nlCount pre, (1 : Nat)) from rfl, this]

/-- Hence a token of `pre ++ src` that starts `k` characters into `src` is reported
`nlCount pre` lines below where a token starting at offset `k` of `src` alone is reported,
in the same column (both by C09.token_positions). -/
theorem token_shift (u : Uni) (pre src : List Char) (h : pre = [] ∨ pre.getLast? = some '\n')
    (r r' : LexResult) (hr : lex u src = .ok r) (hr' : lex u (pre ++ src) = .ok r')
    (t t' : Token) (ht : t ∈ r.tokens) (ht' : t' ∈ r'.tokens) (hs : t'.start = pre.length + t.start) :
    t'.line = t.line + nlCount pre ∧ t'.col = t.col := by
  have h1 := (C09.token_positions u src r hr t ht).1
  have h2 := (C09.token_positions u (pre ++ src) r' hr' t' ht').1
  rw [hs, visualPos_prefix pre src t.start h, ← h1] at h2
  simp only [Prod.mk.injEq] at h2
  exact h2

/-- Non-vacuity: an 11-line header in front of a file moves every token down by 11. -/
example : nlCount "/* a */\n/* b */\n".toList = 2 ∧
    visualPos ("/* a */\n/* b */\n".toList ++ "int\tx;".toList) (16 + 4) = (3, 5) := by decide +kernel

end Norm.C19
