/-
C10 — tokenization is lossless.
Structure: the items produced by the lexer — tokens and reported bad lexemes — tile the whole
source; between two items there are only line splices; nothing is dropped, duplicated or
reordered; every bad lexeme is reported.
Content: the text of every token is a READING (`Spec.Den`, Spec/Content.lean) of its slice of the
source — every character as itself, trigraphs and digraphs as their standard character, line
splices as nothing, tabs inside block comments as the blanks up to the next tab stop — and the
whole input reads as the concatenation of the item texts.
-/
import NormModel.Proofs.LexTotal
import NormModel.Proofs.LexContentStream
namespace Norm.C10
open Norm Spec

/-- The items of a successful run tile the source from offset 0 to its end. -/
theorem tiling (u : Uni) (src : List Char) (r : LexResult) (h : lex u src = .ok r) :
    Tiling src 0 r.items := by
  unfold lex at h
  split at h
  · cases h
  · rename_i items sf hrun
    simp only [Except.ok.injEq] at h
    subst h
    exact (lexItems_tiling u src _ _ items sf (good_init src) hrun).1

/-- Every item consumes at least one raw character (no empty token), inside the source. -/
theorem progress (u : Uni) (src : List Char) (r : LexResult) (h : lex u src = .ok r) :
    ∀ it ∈ r.items, it.start < it.stop ∧ it.stop ≤ src.length := by
  intro it hit
  obtain ⟨_, h2, h3, _⟩ := (tiling u src r h).items_ok it hit
  exact ⟨h2, h3⟩

/-- A character that cannot start a token is reported, never silently discarded: for every
bad-lexeme item there is a `BAD_LEXEME` diagnostic at its true position naming it. -/
theorem bad_reported (u : Uni) (src : List Char) (r : LexResult) (h : lex u src = .ok r) :
    ∀ c p, Item.bad c p ∈ r.items → src[p]? = some c ∧ ∃ d ∈ r.diags, d.name = "BAD_LEXEME" ∧
      d.text = "No matchable token for '" ++ String.ofList [c] ++ "' lexeme" ∧
      d.highlights = [⟨(visualPos src p).1, (visualPos src p).2, some 1, none⟩] := by
  unfold lex at h
  split at h
  · cases h
  · rename_i items sf hrun
    simp only [Except.ok.injEq] at h
    subst h
    intro c p hmem
    obtain ⟨d, hd, h1, _, h3, h4⟩ := lexItems_bad_reported u src _ _ items sf (good_init src) hrun c p hmem
    have := ((lexItems_tiling u src _ _ items sf (good_init src) hrun).1.items_ok _ hmem).2.2.2
    exact ⟨this, d, hd, h1, h3, h4⟩

/-- The whole input is consumed: the final state is at the end of the source. -/
theorem all_consumed (u : Uni) (src : List Char) (items : List Item) (sf : LexSt)
    (h : lexItems u (src.length + 1) { rest := src } = .ok (items, sf)) : sf.rest = [] ∧ sf.pos = src.length := by
  obtain ⟨_, hf, hr⟩ := lexItems_tiling u src _ _ items sf (good_init src) h
  refine ⟨hr, ?_⟩
  have hg := (good_init src).follows hf
  have := hg.1
  rw [hr] at this
  have h2 := congrArg List.length this
  simp at h2
  have := hg.2.1
  omega

/-- Injectivity of the dictionaries: the source text of a value-less token is determined
by its type (keywords, operators and brackets have pairwise distinct token names). -/
theorem dict_injective :
    ((Generated.keywords ++ Generated.operators ++ Generated.brackets).map Prod.snd).Nodup := by
  decide +kernel

/-- **Content**: for every source text, the text of every token — its value, or for a token
without value a spelling that the dictionaries list for its type — is a reading of exactly the
raw characters of its slice, starting at its true position: characters as themselves, digraphs
and trigraphs as their standard character, line splices as nothing, and (in block comments
only) tabs as the blanks up to the next tab stop. -/
theorem content (u : Uni) (src : List Char) (r : LexResult) (h : lex u src = .ok r) :
    ∀ t ∈ r.tokens, TokRead src t := by
  unfold lex at h
  split at h
  · cases h
  · rename_i items sf hrun
    simp only [Except.ok.injEq] at h
    subst h
    intro t ht
    simp only [List.mem_filterMap] at ht
    obtain ⟨it, hit, hsome⟩ := ht
    cases it with
    | tok t' =>
      simp only [Item.tok?, Option.some.injEq] at hsome
      subst hsome
      exact lexItems_content u src _ _ items sf (good_init src) hrun t' hit
    | bad c p => simp [Item.tok?] at hsome

/-- **Round trip**: the whole input reads as the concatenation of the texts of the items (tokens
and reported bad lexemes), in order — no character is dropped, duplicated or reordered; what
lies between two items are line splices, which read as nothing. -/
theorem roundtrip (u : Uni) (src : List Char) (r : LexResult) (h : lex u src = .ok r) :
    ∃ texts : List (List Char), ItemTexts r.items texts ∧ Den true (1, 1) src texts.flatten := by
  have ht := tiling u src r h
  have hc := content u src r h
  have hr : ∀ t, Item.tok t ∈ r.items → TokRead src t := by
    intro t hit
    apply hc
    unfold lex at h
    split at h
    · cases h
    · simp only [Except.ok.injEq] at h
      subst h
      simp only [List.mem_filterMap]
      exact ⟨Item.tok t, hit, rfl⟩
  obtain ⟨texts, h1, h2⟩ := ht.den (Nat.zero_le _) hr
  exact ⟨texts, h1, by simpa [visualPos, advPos] using h2⟩

/-- Non-vacuity of the reading relation: `a??<\⏎b` reads as `a{b` (a trigraph, a splice). -/
example : Den false (1, 1) "a??<\\\nb".toList "a{b".toList := by
  have h3 : Den false (advPos (advPos (advPos (1, 1) ['a']) ['?', '?', '<']) ['\\', '\n']) ['b'] ['b'] :=
    Den.single (Den1.plain 'b')
  have h2 := Den.cons (tabs := false) (advPos (advPos (1, 1) ['a']) ['?', '?', '<']) ['\\', '\n'] [] ['b'] ['b']
    (Den1.splice ['\\'] (Den1.plain '\\')) h3
  have ht : Den1 false (advPos (1, 1) ['a']).2 ['?', '?', '<'] ['{'] := by
    have := Den1.tri (tabs := false) (col := (advPos (1, 1) ['a']).2) ("??<", "{") '{' (by decide) (by decide)
    simpa using this
  have h1 := Den.cons (tabs := false) (advPos (1, 1) ['a']) ['?', '?', '<'] ['{'] _ _ ht h2
  have h0 := Den.cons (tabs := false) (1, 1) ['a'] ['a'] _ _ (Den1.plain 'a') h1
  simpa using h0

/-- Non-vacuity: splices between tokens are gaps, a bad lexeme is an item. -/
example : (lex {} "a\\\n@b".toList).toOption.map (fun r => r.items.map (fun i => (i.start, i.stop)))
    = some [(0, 1), (3, 4), (4, 5)] := by decide +kernel

end Norm.C10
