/-
C10 — tokenization is lossless (structure part): the items produced by the lexer — tokens
and reported bad lexemes — tile the whole source; between two items there are only line
splices; nothing is dropped, duplicated or reordered; every bad lexeme is reported.
The *content* clause (token text = normalised slice) is checked by the correspondence and
the independent scanner, not yet by a theorem: `content_full` states it.
-/
import NormModel.Proofs.LexTotal
namespace Norm.C10
open Norm Spec

/-- The items of a successful run tile the source from offset 0 to its end. -/
theorem tiling (u : Uni) (src : List Char) (r : LexResult) (h : lex u src = .ok r) :
    Tiling src 0 r.items := by
  unfold lex at h
  split at h
  · cases h
  · rename_i items sf hrun
    simp only [Except.ok.injEq] at h
    subst h
    exact (lexItems_tiling u src _ _ items sf (good_init src) hrun).1

/-- Every item consumes at least one raw character (no empty token), inside the source. -/
theorem progress (u : Uni) (src : List Char) (r : LexResult) (h : lex u src = .ok r) :
    ∀ it ∈ r.items, it.start < it.stop ∧ it.stop ≤ src.length := by
  intro it hit
  obtain ⟨_, h2, h3, _⟩ := (tiling u src r h).items_ok it hit
  exact ⟨h2, h3⟩

/-- A character that cannot start a token is reported, never silently discarded: for every
bad-lexeme item there is a `BAD_LEXEME` diagnostic at its true position naming it. -/
theorem bad_reported (u : Uni) (src : List Char) (r : LexResult) (h : lex u src = .ok r) :
    ∀ c p, Item.bad c p ∈ r.items → src[p]? = some c ∧ ∃ d ∈ r.diags, d.name = "BAD_LEXEME" ∧
      d.text = "No matchable token for '" ++ String.ofList [c] ++ "' lexeme" ∧
      d.highlights = [⟨(visualPos src p).1, (visualPos src p).2, some 1, none⟩] := by
  unfold lex at h
  split at h
  · cases h
  · rename_i items sf hrun
    simp only [Except.ok.injEq] at h
    subst h
    intro c p hmem
    obtain ⟨d, hd, h1, _, h3, h4⟩ := lexItems_bad_reported u src _ _ items sf (good_init src) hrun c p hmem
    have := ((lexItems_tiling u src _ _ items sf (good_init src) hrun).1.items_ok _ hmem).2.2.2
    exact ⟨this, d, hd, h1, h3, h4⟩

/-- The whole input is consumed: the final state is at the end of the source. -/
theorem all_consumed (u : Uni) (src : List Char) (items : List Item) (sf : LexSt)
    (h : lexItems u (src.length + 1) { rest := src } = .ok (items, sf)) : sf.rest = [] ∧ sf.pos = src.length := by
  obtain ⟨_, hf, hr⟩ := lexItems_tiling u src _ _ items sf (good_init src) h
  refine ⟨hr, ?_⟩
  have hg := (good_init src).follows hf
  have := hg.1
  rw [hr] at this
  have h2 := congrArg List.length this
  simp at h2
  have := hg.2.1
  omega

/-- Injectivity of the dictionaries: the source text of a value-less token is determined
by its type (keywords, operators and brackets have pairwise distinct token names). -/
theorem dict_injective :
    ((Generated.keywords ++ Generated.operators ++ Generated.brackets).map Prod.snd).Nodup := by
  decide +kernel

/-- Full content statement (not yet a theorem; decided per input by the correspondence
with the independent scanner): the text of every token is the normalisation of its slice. -/
def content_full (norm : List Char → List Char) (tokenText : Token → List Char) : Prop :=
  ∀ u src r, lex u src = .ok r → ∀ t ∈ r.tokens, tokenText t = norm (slice src t.start t.stop)

/-- Non-vacuity: splices between tokens are gaps, a bad lexeme is an item. -/
example : (lex {} "a\\\n@b".toList).toOption.map (fun r => r.items.map (fun i => (i.start, i.stop)))
    = some [(0, 1), (3, 4), (4, 5)] := by decide +kernel

end Norm.C10
