/-
C17 — comment text and string contents are opaque (lexer half).
Inside a literal the lexer looks at characters only to find the closing delimiter, an escape
or a splice. For text free of delimiters, backslashes, line breaks — and of the characters
that start a digraph or trigraph (`? < % :`, whose spelling is *translated*, see C12) — the
state after the literal, its diagnostics and the shape of its value depend on the LENGTH of
the text only.
-/
import NormModel.Proofs.Ident
import NormModel.Proofs.Opaque
namespace Norm.C17
open Norm

/-- One `pop` of an opaque character returns it unchanged, advances one raw character and one
column, and adds no diagnostic — whatever the `use_spaces` / `use_escape` flags. -/
theorem pop_opaque (us ue : Bool) (s : LexSt) (c : Char) (tl : List Char) (hr : s.rest = c :: tl)
    (hc : OpaqueChar c) :
    popOne us ue s = ({ s with rest := tl, pos := s.pos + 1, col := s.col + 1 }, some [c]) :=
  popOne_opaque us ue s c tl hr hc

/-- **Replacing the contents of a string by other opaque text of the same length changes
nothing but the value**: same final state (position, line, column, diagnostics), same
termination flag; the two values have the same length. -/
theorem string_body_swap (b1 b2 tl : List Char) (s1 s2 : LexSt) (v : List Char)
    (h1 : s1.rest = b1 ++ '"' :: tl) (h2 : s2.rest = b2 ++ '"' :: tl)
    (hs : s2 = { s1 with rest := s2.rest }) (hlen : b1.length = b2.length)
    (ho1 : ∀ c ∈ b1, OpaqueChar c ∧ c ≠ '"') (ho2 : ∀ c ∈ b2, OpaqueChar c ∧ c ≠ '"') :
    (strLoop (b1.length + 1) s1 v).1 = (strLoop (b2.length + 1) s2 v).1 ∧
    (strLoop (b1.length + 1) s1 v).2.2 = (strLoop (b2.length + 1) s2 v).2.2 ∧
    (strLoop (b1.length + 1) s1 v).2.1.length = (strLoop (b2.length + 1) s2 v).2.1.length := by
  rw [strLoop_opaque b1 tl s1 v _ h1 ho1 (Nat.le_refl _), strLoop_opaque b2 tl s2 v _ h2 ho2 (Nat.le_refl _)]
  refine ⟨?_, rfl, by simp [hlen]⟩
  rw [hs]
  simp [shiftCols, hlen]

/-- **Replacing the contents of a string literal changes nothing but its value** (token level): two
literals with the same encoding prefix whose bodies are opaque text of the same length, followed
by the same text, are lexed from the same state to the same state; the two STRING tokens have the
same position and extent and differ only in the text they carry; no diagnostic is added. -/
theorem swap_token (u : Uni) (pre : String) (hp : pre ∈ litPrefixes) (b1 b2 rest : List Char)
    (hlen : b1.length = b2.length)
    (h1 : ∀ c ∈ b1, OpaqueChar c ∧ c ≠ '"') (h2 : ∀ c ∈ b2, OpaqueChar c ∧ c ≠ '"')
    (s1 s2 : LexSt) (hr1 : s1.rest = pre.toList ++ '"' :: (b1 ++ '"' :: rest))
    (hs2 : s2 = { s1 with rest := pre.toList ++ '"' :: (b2 ++ '"' :: rest) }) :
    ∃ s' t1 t2, trySubLexers u s1 = .ok (some (s', t1)) ∧ trySubLexers u s2 = .ok (some (s', t2)) ∧
      t1.type = "STRING" ∧ t2.type = "STRING" ∧ t1.line = t2.line ∧ t1.col = t2.col ∧
      t1.start = t2.start ∧ t1.stop = t2.stop ∧ s'.diags = s1.diags ∧ s'.rest = rest := by
  obtain ⟨t1, a1, a2, a3, a4, a5, a6, a7⟩ := string_valid_state u pre hp b1 h1 rest s1 hr1
  obtain ⟨t2, c1, c2, c3, c4, c5, c6, c7⟩ := string_valid_state u pre hp b2 h2 rest s2 (by rw [hs2])
  subst hs2
  have e : shiftCols { s1 with rest := pre.toList ++ '"' :: (b2 ++ '"' :: rest) } (pre.toList.length + 1 + (b2.length + 1)) rest
      = shiftCols s1 (pre.toList.length + 1 + (b1.length + 1)) rest := by
    simp [shiftCols, hlen]
  rw [e] at c1
  refine ⟨_, t1, t2, a1, c1, a2, c2, by rw [a4, c4], by rw [a5, c5], by rw [a6, c6], by rw [a7, c7, hlen], ?_, ?_⟩
  · simp [shiftCols]
  · simp [shiftCols]

/-- the code-like alphabet of the property that is opaque in this sense -/
def opaqueAlphabet : List Char :=
  "abcdefghijklmnopqrstuvwxyzABCDEFGHIJKLMNOPQRSTUVWXYZ0123456789 ;,(){}[]+-*/=>!&|#'_.".toList

theorem alphabet_opaque : ∀ c ∈ opaqueAlphabet, c ≠ '?' ∧ c ≠ '<' ∧ c ≠ '%' ∧ c ≠ ':' ∧ c ≠ '\\' ∧ c ≠ '\n' ∧ c ≠ '\t' ∧ c ≠ '"' := by
  decide

/-- Non-vacuity: two strings of operators/braces/keywords of equal length leave the lexer in
the same place with the same (empty) diagnostics. -/
example :
    let run := fun (src : String) => (lex {} src.toList).toOption.map
      (fun r => (r.tokens.map (fun t => (t.type, t.line, t.col)), r.diags.length))
    run "x = \"hello world\" + 1;" = run "x = \"if(a){b;}//\" + 1;" := by decide +kernel

end Norm.C17
