/-
C17 — comment text and string contents are opaque (lexer half).
Inside a literal the lexer looks at characters only to find the closing delimiter, an escape
or a splice. For text free of delimiters, backslashes, line breaks — and of the characters
that start a digraph or trigraph (`? < % :`, whose spelling is *translated*, see C12) — the
state after the literal, its diagnostics and the shape of its value depend on the LENGTH of
the text only.
-/
import NormModel.Proofs.Opaque
namespace Norm.C17
open Norm

/-- One `pop` of an opaque character returns it unchanged, advances one raw character and one
column, and adds no diagnostic — whatever the `use_spaces` / `use_escape` flags. -/
theorem pop_opaque (us ue : Bool) (s : LexSt) (c : Char) (tl : List Char) (hr : s.rest = c :: tl)
    (hc : OpaqueChar c) :
    popOne us ue s = ({ s with rest := tl, pos := s.pos + 1, col := s.col + 1 }, some [c]) :=
  popOne_opaque us ue s c tl hr hc

/-- **Replacing the contents of a string by other opaque text of the same length changes
nothing but the value**: same final state (position, line, column, diagnostics), same
termination flag; the two values have the same length. -/
theorem string_body_swap (b1 b2 tl : List Char) (s1 s2 : LexSt) (v : List Char)
    (h1 : s1.rest = b1 ++ '"' :: tl) (h2 : s2.rest = b2 ++ '"' :: tl)
    (hs : s2 = { s1 with rest := s2.rest }) (hlen : b1.length = b2.length)
    (ho1 : ∀ c ∈ b1, OpaqueChar c ∧ c ≠ '"') (ho2 : ∀ c ∈ b2, OpaqueChar c ∧ c ≠ '"') :
    (strLoop (b1.length + 1) s1 v).1 = (strLoop (b2.length + 1) s2 v).1 ∧
    (strLoop (b1.length + 1) s1 v).2.2 = (strLoop (b2.length + 1) s2 v).2.2 ∧
    (strLoop (b1.length + 1) s1 v).2.1.length = (strLoop (b2.length + 1) s2 v).2.1.length := by
  rw [strLoop_opaque b1 tl s1 v _ h1 ho1 (Nat.le_refl _), strLoop_opaque b2 tl s2 v _ h2 ho2 (Nat.le_refl _)]
  refine ⟨?_, rfl, by simp [hlen]⟩
  rw [hs]
  simp [shiftCols, hlen]

/-- the code-like alphabet of the property that is opaque in this sense -/
def opaqueAlphabet : List Char :=
  "abcdefghijklmnopqrstuvwxyzABCDEFGHIJKLMNOPQRSTUVWXYZ0123456789 ;,(){}[]+-*/=>!&|#'_.".toList

theorem alphabet_opaque : ∀ c ∈ opaqueAlphabet, c ≠ '?' ∧ c ≠ '<' ∧ c ≠ '%' ∧ c ≠ ':' ∧ c ≠ '\\' ∧ c ≠ '\n' ∧ c ≠ '\t' ∧ c ≠ '"' := by
  decide

/-- Non-vacuity: two strings of operators/braces/keywords of equal length leave the lexer in
the same place with the same (empty) diagnostics. -/
example :
    let run := fun (src : String) => (lex {} src.toList).toOption.map
      (fun r => (r.tokens.map (fun t => (t.type, t.line, t.col)), r.diags.length))
    run "x = \"hello world\" + 1;" = run "x = \"if(a){b;}//\" + 1;" := by decide +kernel

end Norm.C17
