/-
C12 — alternative spellings and line splices do not change the tokens (lexer half).
-/
import NormModel.Proofs.LexTotal
import NormModel.Proofs.RespellStream
import NormModel.Spec.Spellings
namespace Norm.C12
open Norm

/-- the code's tables are exactly the digraphs and trigraphs of the C standard (as sets) -/
theorem tables_are_the_standard :
    (∀ p ∈ Spec.digraphs, p ∈ Generated.digraphs) ∧ (∀ p ∈ Generated.digraphs, p ∈ Spec.digraphs) ∧
    (∀ p ∈ Spec.trigraphs, p ∈ Generated.trigraphs) ∧ (∀ p ∈ Generated.trigraphs, p ∈ Spec.trigraphs) := by
  decide +kernel

/-- **`peek` sees the standard character whatever the spelling**: for every entry (σ, c) of
the digraph and trigraph tables and every continuation, `peek` at σ ++ rest returns c and the
length of σ. -/
def triOk (p : String × String) : Bool :=
  match p.1.toList, p.2.toList with
  | ['?', '?', x], [c] =>
    (assoc Generated.trigraphs (String.ofList ['?', '?', x])).bind (·.toList.head?) == some c
  | _, _ => false

def diOk (p : String × String) : Bool :=
  match p.1.toList, p.2.toList with
  | [a, b], [c] =>
    a != '?' && (assoc Generated.digraphs (String.ofList [a, b])).bind (·.toList.head?) == some c
  | _, _ => false

theorem spellings_ok : ∀ p ∈ Generated.trigraphs ++ Generated.digraphs, (triOk p || diOk p) = true := by
  decide +kernel

theorem peek_respell : ∀ p ∈ Generated.trigraphs ++ Generated.digraphs, ∀ rest : List Char,
    ∃ c, p.2.toList = [c] ∧ peek1 (p.1.toList ++ rest) 0 = some (c, p.1.toList.length) := by
  intro p hp rest
  have hk := spellings_ok p hp
  simp only [Bool.or_eq_true] at hk
  rcases hk with hk | hk
  · unfold triOk at hk
    split at hk
    · rename_i x c h1 h2
      have h3 : (assoc Generated.trigraphs (String.ofList ['?', '?', x])).bind (·.toList.head?) = some c := by
        simpa using hk
      refine ⟨c, h2, ?_⟩
      rw [h1]
      unfold peek1 triAt
      simp only [List.drop_zero, List.cons_append, List.nil_append, h3, List.length_cons, List.length_nil]
    · cases hk
  · unfold diOk at hk
    split at hk
    · rename_i a b c h1 h2
      simp only [Bool.and_eq_true, bne_iff_ne, ne_eq, beq_iff_eq] at hk
      obtain ⟨ha, h3⟩ := hk
      refine ⟨c, h2, ?_⟩
      rw [h1]
      unfold peek1
      have ht : triAt ([a, b] ++ rest) = none := by
        unfold triAt
        split
        · rename_i heq; simp at heq; exact absurd heq.1 ha
        · rfl
      have hd : diAt ([a, b] ++ rest) = some c := by
        unfold diAt; simp only [List.cons_append, List.nil_append]; exact h3
      simp only [List.drop_zero, ht, hd, List.length_cons, List.length_nil]
    · cases hk

/-- A bracket is recognised from what `peek` returns: if `peek` yields a bracket character
(in whatever spelling, of raw size `sz`), `parse_brackets` produces that bracket's token and
consumes exactly the spelling. -/
theorem brackets_of_peek (s : LexSt) (c : Char) (sz : Nat) (ty : String)
    (hp : peek1 s.rest 0 = some (c, sz)) (hc : c ≠ '\\')
    (hty : assoc Generated.brackets (String.ofList [c]) = some ty) :
    ∃ s1 t, parseBrackets s = some (s1, t) ∧ t.type = ty ∧ t.value = none ∧
      t.line = s.line ∧ t.col = s.col ∧ s1.rest = s.rest.drop sz := by
  obtain ⟨p1, p2⟩ := popOne_plain hp hc
  unfold parseBrackets
  simp only [hp, hty]
  cases hpo : popOne false false s with
  | mk s1 r =>
    rw [hpo] at p1 p2
    simp only at p1 p2
    subst p1
    exact ⟨s1, _, rfl, rfl, rfl, rfl, rfl, p2⟩

/-- **Braces and brackets in every spelling**: `{ } [ ]` written as digraph or trigraph give
the same token kind as the plain character, and the lexer continues at the same place. -/
theorem bracket_spellings : ∀ p ∈ Generated.trigraphs ++ Generated.digraphs,
    ∀ ty, assoc Generated.brackets p.2 = some ty →
    ∀ (s : LexSt) (rest : List Char), s.rest = p.1.toList ++ rest →
      ∃ s1 t, parseBrackets s = some (s1, t) ∧ t.type = ty ∧ t.line = s.line ∧ t.col = s.col ∧ s1.rest = rest := by
  intro p hp ty hty s rest hr
  obtain ⟨c, hc, hpk⟩ := peek_respell p hp rest
  have hne : c ≠ '\\' := by
    intro h; subst h
    have : ∀ p ∈ Generated.trigraphs ++ Generated.digraphs, p.2.toList = ['\\'] → assoc Generated.brackets p.2 = none := by
      decide +kernel
    rw [this p hp hc] at hty; cases hty
  have hty' : assoc Generated.brackets (String.ofList [c]) = some ty := by
    rw [← hc, String.ofList_toList]; exact hty
  obtain ⟨s1, t, h1, h2, _, h4, h5, h6⟩ := brackets_of_peek s c p.1.toList.length ty (by rw [hr]; exact hpk) hne hty'
  refine ⟨s1, t, h1, h2, h4, h5, ?_⟩
  rw [h6, hr]; simp

def brOk (b : String × String) : Bool :=
  match b.1.toList with
  | [c] => c != '?' && c != '<' && c != '%' && c != ':' && c != '\\' &&
      assoc Generated.brackets (String.ofList [c]) == some b.2
  | _ => false

/-- the plain spelling, for comparison: same token kind, one raw character consumed -/
theorem bracket_plain : ∀ b ∈ Generated.brackets, ∀ (s : LexSt) (rest : List Char),
    s.rest = b.1.toList ++ rest →
      ∃ s1 t, parseBrackets s = some (s1, t) ∧ t.type = b.2 ∧ t.line = s.line ∧ t.col = s.col ∧ s1.rest = rest := by
  intro b hb s rest hr
  have key : ∀ b ∈ Generated.brackets, brOk b = true := by decide +kernel
  have hk := key b hb
  unfold brOk at hk
  split at hk
  case h_2 => cases hk
  rename_i c h1
  simp only [Bool.and_eq_true, bne_iff_ne, ne_eq, beq_iff_eq] at hk
  obtain ⟨⟨⟨⟨⟨h2, h3⟩, h4⟩, h5⟩, h6⟩, h7⟩ := hk
  have hpk : peek1 s.rest 0 = some (c, 1) := by rw [hr, h1]; exact peek1_raw h2 h3 h4 h5
  obtain ⟨s1, t, a, b', _, d, e, f⟩ := brackets_of_peek s c 1 b.2 hpk h6 h7
  refine ⟨s1, t, a, b', d, e, ?_⟩
  rw [f, hr, h1]; simp

/-- **A line splice between two tokens is skipped before any sub-lexer runs**, in both
spellings, any number of them: the state reached has the same unread text. -/
theorem splice_between_tokens (s : LexSt) (rest : List Char) (n : Nat) :
    (s.rest = '\\' :: '\n' :: rest → (skipSplices (n + 1) s).rest = (skipSplices n { advance s 2 with line := s.line + 1, col := 1 }).rest) ∧
    (s.rest = '?' :: '?' :: '/' :: '\n' :: rest →
      (skipSplices (n + 1) s).rest = (skipSplices n { advance s 4 with line := s.line + 1, col := 1 }).rest) := by
  constructor
  · intro h
    conv => lhs; unfold skipSplices
    simp [rawPeek, h]
  · intro h
    conv => lhs; unfold skipSplices
    simp [rawPeek, h]

/-! ### respelling as a relation on texts, and what it preserves -/

/-- **A (safe) respelling**: `b` is `a` with some of the characters `# \ ^ [ ] | { } ~` written as a digraph or a
trigraph.  A character that could itself start a digraph or trigraph (`? < % :`) is kept only where it is read as
itself in both texts (the side condition of the last constructor). -/
inductive Respelled : List Char → List Char → Prop
  | nil : Respelled [] []
  | keep (c : Char) {a b : List Char} : c ≠ '?' → c ≠ '<' → c ≠ '%' → c ≠ ':' → Respelled a b → Respelled (c :: a) (c :: b)
  | alt (p : String × String) (c : Char) {a b : List Char} : p ∈ Generated.trigraphs ++ Generated.digraphs →
      p.2.toList = [c] → Respelled a b → Respelled (c :: a) (p.1.toList ++ b)
  | keepStarter (c : Char) {a b : List Char} : peek1 (c :: a) 0 = some (c, 1) → peek1 (c :: b) 0 = some (c, 1) →
      Respelled a b → Respelled (c :: a) (c :: b)

theorem table_targets_mem : ∀ p ∈ Generated.trigraphs ++ Generated.digraphs, ∀ c ∈ p.2.toList, c ∈ altTargets := by
  decide +kernel

theorem table_targets (p : String × String) (hp : p ∈ Generated.trigraphs ++ Generated.digraphs) (c : Char)
    (hc : p.2.toList = [c]) : c ∈ altTargets := table_targets_mem p hp c (by rw [hc]; simp)

/-- a respelled text is read as the same characters -/
theorem respelled_reads_same {a b : List Char} (h : Respelled a b) : ReadEq a b := by
  induction h with
  | nil => exact ReadEq.nil
  | keep c h1 h2 h3 h4 _ ih =>
    exact ReadEq.step (peek1_raw h1 h2 h3 h4) (peek1_raw h1 h2 h3 h4) (by simpa using ih)
  | alt p c hp hc _ ih =>
    obtain ⟨c', hc', hpk⟩ := peek_respell p hp _
    rw [hc] at hc'
    simp only [List.cons.injEq, and_true] at hc'
    subst hc'
    obtain ⟨g1, g2, g3, g4⟩ := alt_plain c (table_targets p hp c hc)
    exact ReadEq.step (peek1_raw g1 g2 g3 g4) hpk (by simpa using ih)
  | keepStarter c h1 h2 _ ih => exact ReadEq.step h1 h2 (by simpa using ih)

/-- **Longest match is the same in every spelling** (`parse_operator`): two texts read as the same characters give
the same operator (same kind, taken by the same longest match), or both none; the texts left read the same again. -/
theorem operator_longest_match (s t : LexSt) (h : ReadEq s.rest t.rest) :
    OpSim (parseOperator s) (parseOperator t) := parseOperator_readEq s t h

/-- **Punctuators through the whole sub-lexer chain**: when the next character read starts a punctuator
other than `/` and `.` (one of `# ^ [ ] | { } ~ ? < % : + - * , > & ! = ; ( )`, in any spelling), both texts give a token of the same kind and value and continue in texts that read the same. -/
theorem punctuator_token (u : Uni) (s t : LexSt) (h : ReadEq s.rest t.rest) (c : Char) (k : Nat)
    (hp : peek1 s.rest 0 = some (c, k)) (hc : c ∈ altPunct) :
    ChainSim (trySubLexers u s) (trySubLexers u t) := token_readEq u s t h c k hp hc

/-- **The whole token stream is the same in every spelling** (C12, lexer half, for every text): a text and a
respelling of it are lexed into items that correspond one to one — tokens of the same kind and the same value (the text
of a block comment excepted: its tabs are expanded by column, which a respelling earlier on the line moves), the same
bad lexemes; a stray backslash (no punctuator: a lexical error, in either spelling) ends the claim. -/
theorem lex_respell (u : Uni) (a b : List Char) (ra rb : LexResult) (h : Respelled a b)
    (ha : lex u a = .ok ra) (hb : lex u b = .ok rb) : ItemsSim ra.items rb.items :=
  lex_readEq u a b ra rb ha hb (respelled_reads_same h)

/-- token by token -/
inductive ToksSim : List Token → List Token → Prop
  | nil : ToksSim [] []
  | cons {x y : Token} {xs ys : List Token} : x.type = y.type → (x.type ≠ "MULT_COMMENT" → x.value = y.value) →
      ToksSim xs ys → ToksSim (x :: xs) (y :: ys)

theorem toks_of_items {ia ib : List Item} (h : ItemsSim ia ib) (hno : ∀ i ∈ ia, (Item.tok? i).isSome = true) :
    ToksSim (ia.filterMap Item.tok?) (ib.filterMap Item.tok?) := by
  induction h with
  | nil => exact ToksSim.nil
  | tok h1 h2 _ ih =>
    simp only [List.filterMap_cons, Item.tok?]
    exact ToksSim.cons h1 h2 (ih (fun i hi => hno i (List.mem_cons_of_mem _ hi)))
  | bad _ _ _ => have := hno _ (List.mem_cons_self); simp [Item.tok?] at this
  | stray _ _ => have := hno _ (List.mem_cons_self); simp [Item.tok?] at this

/-- **C12 for a text without bad lexemes**: the token sequences of the text and of any respelling of it have the same
length, the same kinds and the same values (block comment texts excepted). -/
theorem tokens_respell (u : Uni) (a b : List Char) (ra rb : LexResult) (h : Respelled a b)
    (ha : lex u a = .ok ra) (hb : lex u b = .ok rb) (hno : ∀ i ∈ ra.items, (Item.tok? i).isSome = true) :
    ToksSim ra.tokens rb.tokens := by
  have hs := lex_respell u a b ra rb h ha hb
  have ea : ra.tokens = ra.items.filterMap Item.tok? := by
    unfold lex at ha
    split at ha
    · cases ha
    · simp only [Except.ok.injEq] at ha; rw [← ha]
  have eb : rb.tokens = rb.items.filterMap Item.tok? := by
    unfold lex at hb
    split at hb
    · cases hb
    · simp only [Except.ok.injEq] at hb; rw [← hb]
  rw [ea, eb]
  exact toks_of_items hs hno

/-- Non-vacuity: `||=`-like runs in mixed spellings are respellings, hence read the same; and the two lexings agree. -/
example : Respelled "|| x[1]".toList "??!??! x<:1:>".toList :=
  .alt ("??!", "|") '|' (by decide) rfl (.alt ("??!", "|") '|' (by decide) rfl (.keep ' ' (by decide) (by decide) (by decide) (by decide)
    (.keep 'x' (by decide) (by decide) (by decide) (by decide) (.alt ("<:", "[") '[' (by decide) rfl
      (.keep '1' (by decide) (by decide) (by decide) (by decide) (.alt (":>", "]") ']' (by decide) rfl .nil))))))

/-- Non-vacuity: kinds and values of a statement in three spellings, with splices between tokens. -/
example :
    let kv := fun (src : String) => (lex {} src.toList).toOption.map (fun r => r.tokens.map (fun t => (t.type, t.value)))
    kv "a[1] = {b | c};" = kv "a<:1:> = <%b ??! c%>;" ∧ kv "a[1] = {b | c};" = kv "a??(1??) = ??<b ??! c??>;" ∧
    kv "a[1] = {b | c};" = kv "a\\\n[1]??/\n = {b\\\n | c};" := by decide +kernel

end Norm.C12
