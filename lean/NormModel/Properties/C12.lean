/-
C12 — alternative spellings and line splices do not change the tokens (lexer half).
-/
import NormModel.Proofs.LexTotal
import NormModel.Spec.Spellings
namespace Norm.C12
open Norm

/-- the code's tables are exactly the digraphs and trigraphs of the C standard (as sets) -/
theorem tables_are_the_standard :
    (∀ p ∈ Spec.digraphs, p ∈ Generated.digraphs) ∧ (∀ p ∈ Generated.digraphs, p ∈ Spec.digraphs) ∧
    (∀ p ∈ Spec.trigraphs, p ∈ Generated.trigraphs) ∧ (∀ p ∈ Generated.trigraphs, p ∈ Spec.trigraphs) := by
  decide +kernel

/-- **`peek` sees the standard character whatever the spelling**: for every entry (σ, c) of
the digraph and trigraph tables and every continuation, `peek` at σ ++ rest returns c and the
length of σ. -/
def triOk (p : String × String) : Bool :=
  match p.1.toList, p.2.toList with
  | ['?', '?', x], [c] =>
    (assoc Generated.trigraphs (String.ofList ['?', '?', x])).bind (·.toList.head?) == some c
  | _, _ => false

def diOk (p : String × String) : Bool :=
  match p.1.toList, p.2.toList with
  | [a, b], [c] =>
    a != '?' && (assoc Generated.digraphs (String.ofList [a, b])).bind (·.toList.head?) == some c
  | _, _ => false

theorem spellings_ok : ∀ p ∈ Generated.trigraphs ++ Generated.digraphs, (triOk p || diOk p) = true := by
  decide +kernel

theorem peek_respell : ∀ p ∈ Generated.trigraphs ++ Generated.digraphs, ∀ rest : List Char,
    ∃ c, p.2.toList = [c] ∧ peek1 (p.1.toList ++ rest) 0 = some (c, p.1.toList.length) := by
  intro p hp rest
  have hk := spellings_ok p hp
  simp only [Bool.or_eq_true] at hk
  rcases hk with hk | hk
  · unfold triOk at hk
    split at hk
    · rename_i x c h1 h2
      have h3 : (assoc Generated.trigraphs (String.ofList ['?', '?', x])).bind (·.toList.head?) = some c := by
        simpa using hk
      refine ⟨c, h2, ?_⟩
      rw [h1]
      unfold peek1 triAt
      simp only [List.drop_zero, List.cons_append, List.nil_append, h3, List.length_cons, List.length_nil]
    · cases hk
  · unfold diOk at hk
    split at hk
    · rename_i a b c h1 h2
      simp only [Bool.and_eq_true, bne_iff_ne, ne_eq, beq_iff_eq] at hk
      obtain ⟨ha, h3⟩ := hk
      refine ⟨c, h2, ?_⟩
      rw [h1]
      unfold peek1
      have ht : triAt ([a, b] ++ rest) = none := by
        unfold triAt
        split
        · rename_i heq; simp at heq; exact absurd heq.1 ha
        · rfl
      have hd : diAt ([a, b] ++ rest) = some c := by
        unfold diAt; simp only [List.cons_append, List.nil_append]; exact h3
      simp only [List.drop_zero, ht, hd, List.length_cons, List.length_nil]
    · cases hk

/-- A bracket is recognised from what `peek` returns: if `peek` yields a bracket character
(in whatever spelling, of raw size `sz`), `parse_brackets` produces that bracket's token and
consumes exactly the spelling. -/
theorem brackets_of_peek (s : LexSt) (c : Char) (sz : Nat) (ty : String)
    (hp : peek1 s.rest 0 = some (c, sz)) (hc : c ≠ '\\')
    (hty : assoc Generated.brackets (String.ofList [c]) = some ty) :
    ∃ s1 t, parseBrackets s = some (s1, t) ∧ t.type = ty ∧ t.value = none ∧
      t.line = s.line ∧ t.col = s.col ∧ s1.rest = s.rest.drop sz := by
  obtain ⟨p1, p2⟩ := popOne_plain hp hc
  unfold parseBrackets
  simp only [hp, hty]
  cases hpo : popOne false false s with
  | mk s1 r =>
    rw [hpo] at p1 p2
    simp only at p1 p2
    subst p1
    exact ⟨s1, _, rfl, rfl, rfl, rfl, rfl, p2⟩

/-- **Braces and brackets in every spelling**: `{ } [ ]` written as digraph or trigraph give
the same token kind as the plain character, and the lexer continues at the same place. -/
theorem bracket_spellings : ∀ p ∈ Generated.trigraphs ++ Generated.digraphs,
    ∀ ty, assoc Generated.brackets p.2 = some ty →
    ∀ (s : LexSt) (rest : List Char), s.rest = p.1.toList ++ rest →
      ∃ s1 t, parseBrackets s = some (s1, t) ∧ t.type = ty ∧ t.line = s.line ∧ t.col = s.col ∧ s1.rest = rest := by
  intro p hp ty hty s rest hr
  obtain ⟨c, hc, hpk⟩ := peek_respell p hp rest
  have hne : c ≠ '\\' := by
    intro h; subst h
    have : ∀ p ∈ Generated.trigraphs ++ Generated.digraphs, p.2.toList = ['\\'] → assoc Generated.brackets p.2 = none := by
      decide +kernel
    rw [this p hp hc] at hty; cases hty
  have hty' : assoc Generated.brackets (String.ofList [c]) = some ty := by
    rw [← hc, String.ofList_toList]; exact hty
  obtain ⟨s1, t, h1, h2, _, h4, h5, h6⟩ := brackets_of_peek s c p.1.toList.length ty (by rw [hr]; exact hpk) hne hty'
  refine ⟨s1, t, h1, h2, h4, h5, ?_⟩
  rw [h6, hr]; simp

def brOk (b : String × String) : Bool :=
  match b.1.toList with
  | [c] => c != '?' && c != '<' && c != '%' && c != ':' && c != '\\' &&
      assoc Generated.brackets (String.ofList [c]) == some b.2
  | _ => false

/-- the plain spelling, for comparison: same token kind, one raw character consumed -/
theorem bracket_plain : ∀ b ∈ Generated.brackets, ∀ (s : LexSt) (rest : List Char),
    s.rest = b.1.toList ++ rest →
      ∃ s1 t, parseBrackets s = some (s1, t) ∧ t.type = b.2 ∧ t.line = s.line ∧ t.col = s.col ∧ s1.rest = rest := by
  intro b hb s rest hr
  have key : ∀ b ∈ Generated.brackets, brOk b = true := by decide +kernel
  have hk := key b hb
  unfold brOk at hk
  split at hk
  case h_2 => cases hk
  rename_i c h1
  simp only [Bool.and_eq_true, bne_iff_ne, ne_eq, beq_iff_eq] at hk
  obtain ⟨⟨⟨⟨⟨h2, h3⟩, h4⟩, h5⟩, h6⟩, h7⟩ := hk
  have hpk : peek1 s.rest 0 = some (c, 1) := by rw [hr, h1]; exact peek1_raw h2 h3 h4 h5
  obtain ⟨s1, t, a, b', _, d, e, f⟩ := brackets_of_peek s c 1 b.2 hpk h6 h7
  refine ⟨s1, t, a, b', d, e, ?_⟩
  rw [f, hr, h1]; simp

/-- **A line splice between two tokens is skipped before any sub-lexer runs**, in both
spellings, any number of them: the state reached has the same unread text. -/
theorem splice_between_tokens (s : LexSt) (rest : List Char) (n : Nat) :
    (s.rest = '\\' :: '\n' :: rest → (skipSplices (n + 1) s).rest = (skipSplices n { advance s 2 with line := s.line + 1, col := 1 }).rest) ∧
    (s.rest = '?' :: '?' :: '/' :: '\n' :: rest →
      (skipSplices (n + 1) s).rest = (skipSplices n { advance s 4 with line := s.line + 1, col := 1 }).rest) := by
  constructor
  · intro h
    conv => lhs; unfold skipSplices
    simp [rawPeek, h]
  · intro h
    conv => lhs; unfold skipSplices
    simp [rawPeek, h]

/-- Non-vacuity: kinds and values of a statement in three spellings, with splices between tokens. -/
example :
    let kv := fun (src : String) => (lex {} src.toList).toOption.map (fun r => r.tokens.map (fun t => (t.type, t.value)))
    kv "a[1] = {b | c};" = kv "a<:1:> = <%b ??! c%>;" ∧ kv "a[1] = {b | c};" = kv "a??(1??) = ??<b ??! c??>;" ∧
    kv "a[1] = {b | c};" = kv "a\\\n[1]??/\n = {b\\\n | c};" := by decide +kernel

end Norm.C12
