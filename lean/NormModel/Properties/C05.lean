/-
C05 — every input gets an answer.
(a) The tokenizer is total — proved here for every string over every alphabet.
(b) The pipeline half: the engine loop terminates and raises nothing by itself for every rule
    table (C07.terminates / crash_is_rule_crash, re-stated here); of the rules, the four that are
    ported completely are total functions, and the one with a loop — CheckSpacing — is shown to
    leave its loop by its own condition. Totality of the other rules is searched, see DESIGN §4.5.
-/
import NormModel.Proofs.LexTotal
import NormModel.Proofs.Spacing
import NormModel.Proofs.Engine
namespace Norm.C05
open Norm

/-- **Tokenizer totality**: for every Unicode class oracle and every source text the lexer
model returns tokens and lexical diagnostics; it never raises (no `KeyError` from the
operator table, no exhaustion of its `|src|+1` fuel — every round consumes input). -/
theorem lex_total (u : Uni) (src : List Char) : ∃ r, lex u src = .ok r := Norm.lex_total u src

/-- **(b) The loop of `Registry.run` terminates** for every rule table whose rule calls return. -/
theorem engine_terminates {σ : Type} (step : σ → Nat → StepRes σ) (debug : Nat) (s : σ) (n : Nat)
    (hstep : ∀ s p, ∀ (_ : step s p = .hang), False) : engineRun step debug s n ≠ .hang := by
  unfold engineRun
  exact engineLoop_no_hang step debug hstep _ _ _ _ _ _ _ (by omega)

/-- **(b) `CheckSpacing` terminates on every token list**: its `while` loop leaves by its own
condition (the index passes the end of the statement), never by exhausting the model's fuel. -/
theorem checkSpacing_terminates (ts : List Token) (n : Nat) :
    min n ts.length ≤ (spacingLoop ts n (ts.length + 1) {}).i :=
  spacingLoop_terminates ts n (ts.length + 1) {} (by simp; omega)

/-- Every operator spelling that `parse_operator` can look up is a key of the operator
table regenerated from the source (so `operators[...]` cannot raise). -/
theorem operator_keys :
    (∀ c ∈ opChars, (assoc Generated.operators (String.ofList [c])).isSome) ∧
    (∀ c ∈ opChars3, (assoc Generated.operators (String.ofList [c, c])).isSome) ∧
    (assoc Generated.operators ">>=").isSome ∧ (assoc Generated.operators "<<=").isSome ∧
    (assoc Generated.operators "...").isSome ∧ (assoc Generated.operators ">>").isSome ∧
    (assoc Generated.operators "<<").isSome ∧ (assoc Generated.operators "->").isSome :=
  ⟨opChars_keys, opChars3_keys, op3_keys.1, op3_keys.2.1, op3_keys.2.2.1, op3_keys.2.2.2.1,
   op3_keys.2.2.2.2.1, op3_keys.2.2.2.2.2⟩

/-- The order of the sub-lexers in the model is the order of `Lexer.parsers` in the source. -/
theorem parsers_order : Generated.parsers =
    ["parse_float_literal", "parse_integer_literal", "parse_char_literal", "parse_string_literal",
     "parse_identifier", "parse_whitespace", "parse_line_comment", "parse_multi_line_comment",
     "parse_operator", "parse_brackets"] := by decide +kernel

/-- The hand-specialised matchers were written for exactly these pattern texts. -/
theorem patterns_unchanged :
    Generated.intPattern = "^(?P<Prefix>0[xX]+|0[bB]+|0|)(?P<Constant>(?<=0[xX])[\\da-fA-F]+|\\d+)(?P<Suffix>(?<=[eE])[\\w\\d+\\-.]*|\\w[\\w\\d.]*|)" ∧
    Generated.floatExponentPattern = "^(?P<Constant>\\d+)(?P<Exponent>(?:[eE]+[-+]\\d+|[eE]+\\d+|(?:[eE][+-]?(?:(?:[.]|\\d)+)?)+))(?P<Suffix>[\\w\\d._]*|)" ∧
    Generated.floatFractionalPattern = "^(?P<Constant>(?:\\d+)?\\.\\d+|\\d+\\.)(?P<Exponent>(?:[eE]+[-+]\\d+|[eE]+\\d+|(?:[eE][+-]?(?:(?:[.]|\\d)+)?)+)?)(?P<Suffix>[\\w\\d._]*|)" ∧
    Generated.floatHexadecimalPattern = "^(?P<Constant>0[xX]+(?:[\\da-fA-F]+(?:\\.[\\da-fA-F]*)?|\\.[\\da-fA-F]+))(?P<Exponent>(?:[pP]+[-+][\\da-fA-F]+|[pP]+[\\da-fA-F]+|(?:[pP][+-]?(?:(?:[.]|[\\da-fA-F])+)?)+)?)(?P<Suffix>[\\w\\d._]*|)" ∧
    Generated.intPatternFlags = 96 ∧ Generated.floatExponentPatternFlags = 96 ∧
    Generated.floatFractionalPatternFlags = 96 ∧ Generated.floatHexadecimalPatternFlags = 96 := by
  decide +kernel

/-- Non-vacuity / regression witnesses of the defects repaired in /repo (each was a crash or
a hang before its `fix:` commit): `.=`, 150 characters in a character constant. -/
example : (lex {} ".=".toList).toOption.map (fun r => r.tokens.map (·.type)) = some ["DOT", "ASSIGN"] := by
  decide +kernel

end Norm.C05
