/-
C09 — token positions are true source positions.
`Spec.visualPos` is written from the property text (1-based line, 1-based visual column,
tab stops every 4 columns, every raw character of a digraph/trigraph one column); the model
`lex` is the transcription of `norminette/lexer/lexer.py`.
-/
import NormModel.Proofs.LexTotal
namespace Norm.C09
open Norm Spec

/-- For **every** source text (any length, any characters: tabs at any offset, multi-line
comments and strings, splices inside or between tokens, digraphs and trigraphs, escapes)
every token's (line, column) is the visual position of its first raw character. -/
theorem token_positions (u : Uni) (src : List Char) (r : LexResult) (h : lex u src = .ok r) :
    ∀ t ∈ r.tokens, (t.line, t.col) = visualPos src t.start ∧ t.start < t.stop ∧ t.stop ≤ src.length := by
  unfold lex at h
  split at h
  · cases h
  · rename_i items sf hrun
    simp only [Except.ok.injEq] at h
    subst h
    obtain ⟨htile, _, _⟩ := lexItems_tiling u src _ _ items sf (good_init src) hrun
    intro t ht
    simp only [List.mem_filterMap] at ht
    obtain ⟨it, hit, htok⟩ := ht
    cases it with
    | bad c p => cases htok
    | tok t' =>
      simp only [Item.tok?, Option.some.injEq] at htok
      subst htok
      obtain ⟨_, h2, h3, h4⟩ := htile.items_ok _ hit
      exact ⟨h4, h2, h3⟩

/-- **A token stands at column 1 exactly when it is the first thing on its line**: its first raw character is the
first character of the file or directly follows a newline character — for every source text (the rules that compare
a column with 1, e.g. "one instruction per line", therefore test what they claim to test). -/
theorem column_one_iff_line_start (u : Uni) (src : List Char) (r : LexResult) (h : lex u src = .ok r) :
    ∀ t ∈ r.tokens, (t.col = 1 ↔ (t.start = 0 ∨ src[t.start - 1]? = some '\n')) := by
  intro t ht
  obtain ⟨hpos, hlt, hle⟩ := token_positions u src r h t ht
  have hc : t.col = (visualPos src t.start).2 := congrArg Prod.snd hpos
  rw [hc]
  exact visualPos_col_one src t.start (by omega)

/-- Tokens appear in source order and never overlap. -/
theorem tokens_ordered (u : Uni) (src : List Char) (r : LexResult) (h : lex u src = .ok r) :
    r.items.Pairwise (fun a b => a.stop ≤ b.start) := by
  unfold lex at h
  split at h
  · cases h
  · rename_i items sf hrun
    simp only [Except.ok.injEq] at h
    subst h
    exact (lexItems_tiling u src _ _ items sf (good_init src) hrun).1.ordered

/-- **The position printed with a lexical diagnostic points at a character of the file**: for every source text,
every diagnostic the lexer produces (unknown escape, missing hexadecimal digits, every malformed-constant code,
unterminated character constant / string / comment, empty character constant, bad lexeme, …) has a first highlight —
the position both formatters print — whose (line, column) is the visual position, by the position specification, of
the `k`-th raw character of the file for some `k < |src|`: tabs before it, multi-line tokens, splices and
di/trigraphs included.  (Proofs: the step relation `FollowsN` carries `DiagAt`, re-established for every
sub-lexer; `Proofs/NumPrefix.lean` shows that the four numeric patterns match a tab-free prefix of the raw text.) -/
theorem diag_positions (u : Uni) (src : List Char) (r : LexResult) (h : lex u src = .ok r) :
    ∀ d ∈ r.diags, ∃ hl tl k, d.highlights = hl :: tl ∧ k < src.length ∧ (hl.line, hl.col) = visualPos src k := by
  unfold lex at h
  split at h
  · cases h
  · rename_i items sf hrun
    simp only [Except.ok.injEq] at h
    subst h
    obtain ⟨_, ⟨n, _, _, _, _, ds, h5, h6⟩, _⟩ := lexItems_tiling u src _ _ items sf (good_init src) hrun
    intro d hd
    simp only at hd
    rw [h5] at hd
    simp only [List.nil_append] at hd
    obtain ⟨hl, tl, k, e1, e2, e3⟩ := h6 d hd
    exact ⟨hl, tl, k, e1, e2, e3⟩

/-- Non-vacuity: the printed positions of four diagnostics in a text with a tab, a trigraph backslash and a splice. -/
example : (lex {} "\tx = '??/q' + \"\\\n\\x\" + 0b12 + 1.5e+;".toList).toOption.map
      (fun r => r.diags.map (fun d => (d.name, d.highlights.head?.map (fun h => (h.line, h.col)))))
    = some [("UNKNOWN_ESCAPE", some (1, 13)), ("NO_HEX_DIGITS", some (2, 2)), ("INVALID_BIN_INT", some (2, 10)),
            ("BAD_EXPONENT", some (2, 17))] := by decide +kernel

/-- The position specification itself: columns after a tab are the next multiple of 4 plus 1. -/
example : visualPos "\tab\t\tc\n\tx".toList 7 = (2, 1) ∧ visualPos "\tab\t\tc\n\tx".toList 8 = (2, 5)
    ∧ visualPos "a\tb".toList 2 = (1, 5) ∧ visualPos "abcd\te".toList 5 = (1, 9) := by decide +kernel

/-- Non-vacuity: a concrete text with a splice inside a string, tabs and a trigraph. -/
example : (lex {} "\"a\\\nb\"\t??<x".toList).toOption.map (fun r => r.tokens.map (fun t => (t.type, t.line, t.col)))
    = some [("STRING", 1, 1), ("TAB", 2, 3), ("LBRACE", 2, 5), ("IDENTIFIER", 2, 8)] := by decide +kernel

end Norm.C09
