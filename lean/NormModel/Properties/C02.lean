/-
C02 — every enforced Norm violation is reported on its line (the provable fragments).
For the violations whose rule is modelled: the rule emits the code whenever the statement it
is handed contains the pattern.  That the edited line IS handed to that rule as (part of) a
statement of the right kind is the segmentation hypothesis (C07 gives the partition, the
kind of each statement depends on unported primaries) — decided per program by the catalogue
oracle on the real pipeline.
-/
import NormModel.Properties.C03
import NormModel.Properties.C04
import NormModel.Properties.C13
import NormModel.Properties.C14
namespace Norm.C02
open Norm

/-- full statement, kept visible -/
def full (Conforming Op Site : Type) (apply : Op → Conforming → Site → List Char) (code : Op → String)
    (line : Op → Conforming → Site → Nat) (diagnose : List Char → Option (List (String × Nat))) : Prop :=
  ∀ o p s, ∃ ds, diagnose (apply o p s) = some ds ∧ (code o, line o p s) ∈ ds

/-- V82 (a line of 81 columns or more): a token starting beyond column 81 on line `l` in the
statement makes `CheckLineLen` report `l`. -/
theorem v82_line_too_long (toks : List (Nat × Nat)) (l c : Nat) (h : (l, c) ∈ toks) (hc : 81 < c) :
    l ∈ checkLineLen toks [] :=
  (C03.linelen_iff toks l).mpr ⟨(l, c), h, rfl, hc⟩

/- V83 (header removed) is `C13.reject_no_header`; V84a–f (guard mutations) are `C14.wrong_symbol`,
`missing_define`, `doubled`, `code_before`, `code_after` — imported above, re-checked with this file. -/

/-- V23 / V27 / V33 / V34 (one past a counter limit): the comparison fires. -/
theorem counters_fire : tooManyVars 6 = true ∧ tooManyArgs 4 = true ∧ tooManyLines 27 = true ∧ tooManyFuncs 6 = true := by
  decide

/-- once one Error-level diagnostic exists the file is `Error!` and the exit status is non-zero -/
theorem verdict_error (fmt : Format) (fs : List CliFile) (hnf : firstFatal fs = none) (hh : C04.AllHl fs)
    (f : CliFile) (hf : f ∈ fs) (d : Diag) (hd : d ∈ f.diags) (he : d.level = .error) :
    (cliRun fmt fs).exit ≠ 0 ∧ status f.diags = .error := by
  have hs : status f.diags ≠ .ok := by
    intro h
    have := (C04.ok_iff f).mp h d hd
    rw [he] at this; cases this
  refine ⟨?_, ?_⟩
  · intro h0
    exact hs ((C04.exit_iff fmt fs hnf hh).mp h0 f hf)
  · cases h : status f.diags
    · exact absurd h hs
    · rfl

end Norm.C02
