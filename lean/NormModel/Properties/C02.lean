/-
C02 — every enforced Norm violation is reported on its line (the provable fragments).
For the violations whose rule is modelled: the rule emits the code whenever the statement it
is handed contains the pattern.  That the edited line IS handed to that rule as (part of) a
statement of the right kind is the segmentation hypothesis (C07 gives the partition, the
kind of each statement depends on unported primaries) — decided per program by the catalogue
oracle on the real pipeline.
-/
import NormModel.Properties.C03
import NormModel.Properties.C09
import NormModel.Properties.C04
import NormModel.Properties.C13
import NormModel.Properties.C14
import NormModel.Proofs.Spacing
namespace Norm.C02
open Norm

/-- full statement, kept visible -/
def full (Conforming Op Site : Type) (apply : Op → Conforming → Site → List Char) (code : Op → String)
    (line : Op → Conforming → Site → Nat) (diagnose : List Char → Option (List (String × Nat))) : Prop :=
  ∀ o p s, ∃ ds, diagnose (apply o p s) = some ds ∧ (code o, line o p s) ∈ ds

/-- V82 (a line of 81 columns or more): a token starting beyond column 81 on line `l` in the
statement makes `CheckLineLen` report `l`. -/
theorem v82_line_too_long (toks : List (Nat × Nat)) (l c : Nat) (h : (l, c) ∈ toks) (hc : 81 < c) :
    l ∈ checkLineLen toks [] :=
  (C03.linelen_iff toks l).mpr ⟨(l, c), h, rfl, hc⟩

/- V83 (header removed) is `C13.reject_no_header`; V84a–f (guard mutations) are `C14.wrong_symbol`,
`missing_define`, `doubled`, `code_before`, `code_after` — imported above, re-checked with this file. -/


/-! ### End to end, for every rule table: violations caught by the always-run checks -/

/-- **V41 (ternary)**: in every file that reaches a verdict, whatever the primaries and the
other checks do, every `?` token gets `TERNARY_FBIDDEN` at its own position — `CheckTernary`
runs after every matched primary and the statements tile the token list (C07). -/
theorem ternary_e2e {σ : Type} (step : σ → Nat → StepRes σ) (s s' : σ) (toks : List Token)
    (t : List Segment) (u : List Nat) (h : engineRun step 0 s toks.length = .ok s' t u)
    (tk : Token) (htk : tk ∈ toks) (hty : tk.type = "TERN_CONDITION") :
    tokDiag "TERNARY_FBIDDEN" tk ∈ alwaysDiagsRun toks t := by
  obtain ⟨g, hg, hseg⟩ := token_in_some_segment step s s' toks t u h tk htk
  unfold alwaysDiagsRun
  refine List.mem_flatMap.mpr ⟨g, hg, ?_⟩
  unfold alwaysDiags
  refine List.mem_append.mpr (Or.inl (List.mem_map.mpr ⟨tk, ?_, rfl⟩))
  unfold ternaryToks
  exact List.mem_filter.mpr ⟨hseg, by simp [hty]⟩

/-- … and `CheckTernary` never invents one: each such diagnostic sits on a `?` token of the file. -/
theorem ternary_sound (toks : List Token) (t : List Segment) (d : Diag)
    (hd : d ∈ alwaysDiagsRun toks t) (hn : d.name = "TERNARY_FBIDDEN") :
    ∃ tk ∈ toks, tk.type = "TERN_CONDITION" ∧ d = tokDiag "TERNARY_FBIDDEN" tk := by
  unfold alwaysDiagsRun at hd
  obtain ⟨g, _, hdg⟩ := List.mem_flatMap.mp hd
  unfold alwaysDiags at hdg
  rcases List.mem_append.mp hdg with hm | hm
  · obtain ⟨tk, htk, rfl⟩ := List.mem_map.mp hm
    unfold ternaryToks at htk
    obtain ⟨h1, h2⟩ := List.mem_filter.mp htk
    exact ⟨tk, segToks_sub toks g tk h1, by simpa using h2, rfl⟩
  · obtain ⟨tk, _, rfl⟩ := List.mem_map.mp hm
    rw [C03.tokDiag_name] at hn; exact absurd hn (by decide)

/-- **V01 (trailing blank), end to end for every rule table**: in a file that reaches a verdict,
a SPACE token at index `p` that is not at column 1, follows a token that is neither blank nor a
brace, and is followed only by blanks up to a NEWLINE token, gets `SPC_BEFORE_NL` at its own
position — provided the primary that matched its statement is not `IsEmptyLine` or
`IsPreprocessorStatement` (after those `CheckSpacing` returns at once; for an empty line the
violation is V03). `CheckSpacing` runs after every matched primary; the statements tile the
token list (C07); inside the statement its loop reaches every start of a run of blanks. -/
theorem trailing_space_e2e {σ : Type} (step : σ → Nat → StepRes σ) (s s' : σ) (toks : List Token)
    (t : List Segment) (u : List Nat) (h : engineRun step 0 s toks.length = .ok s' t u)
    (p m : Nat) (tk prev : Token) (htk : toks[p]? = some tk) (hS : tk.type = "SPACE") (hcol : tk.col ≠ 1)
    (hp : 0 < p) (hprev : toks[p - 1]? = some prev)
    (hprevty : prev.type ≠ "SPACE" ∧ prev.type ≠ "TAB" ∧ prev.type ≠ "LBRACE" ∧ prev.type ≠ "RBRACE")
    (hlast : ∀ b, toks.getLast? = some b → b.type ≠ "LBRACE" ∧ b.type ≠ "RBRACE")
    (hpm : p < m) (hblank : ∀ j, p ≤ j → j < m → isBlank toks j = true) (hnl : isTy toks m "NEWLINE" = true)
    (hrule : ∀ g ∈ t, g.start ≤ p → p < g.start + g.len → g.rule ≠ "IsEmptyLine" ∧ g.rule ≠ "IsPreprocessorStatement") :
    tokDiag "SPC_BEFORE_NL" tk ∈ spacingDiagsRun toks t := by
  have hpl : p < toks.length := (List.getElem?_eq_some_iff.mp htk).1
  obtain ⟨g, hg, hg1, hg2⟩ := index_in_some_segment step s s' toks.length t u h p hpl
  unfold spacingDiagsRun
  refine List.mem_flatMap.mpr ⟨g, hg, ?_⟩
  have hk : g.start + (p - g.start) = p := by omega
  apply trailing_space_reported g.rule (toks.drop g.start) g.len (p - g.start) (m - g.start) tk (hrule g hg hg1 hg2)
  · omega
  · rw [List.getElem?_drop, hk]; exact htk
  · exact hS
  · exact hcol
  · -- run start
    by_cases h0 : p - g.start = 0
    · left; exact h0
    · right
      rw [isTy_drop, isTy_drop]
      have : g.start + (p - g.start - 1) = p - 1 := by omega
      rw [this]
      unfold isTy; rw [hprev]
      simp [hprevty.1, hprevty.2.1]
  · -- no brace before (Python's index -1 is the last token of the file)
    unfold braceBefore tokBefore
    by_cases h0 : p - g.start = 0
    · simp only [h0, ↓reduceIte]
      have hne : toks.drop g.start ≠ [] := by
        intro e
        have := congrArg List.length e
        simp only [List.length_drop, List.length_nil] at this; omega
      cases hl : (toks.drop g.start).getLast? with
      | none => rfl
      | some b =>
        have hb : toks.getLast? = some b := by
          rw [List.getLast?_drop] at hl
          split at hl
          · cases hl
          · exact hl
        have := hlast b hb
        simp [this.1, this.2]
    · simp only [h0, ↓reduceIte]
      rw [List.getElem?_drop]
      have : g.start + (p - g.start - 1) = p - 1 := by omega
      rw [this, hprev]
      simp [hprevty.2.2.1, hprevty.2.2.2]
  · omega
  · intro j h1 h2
    rw [isBlank_drop]
    exact hblank _ (by omega) (by omega)
  · rw [isTy_drop]
    have : g.start + (m - g.start) = m := by omega
    rw [this]; exact hnl

/-- Non-vacuity: `a = b ;<space><newline>` matched as one statement. -/
example :
    let toks : List Token := [⟨"IDENTIFIER", 3, 1, some "a", 0, 1⟩, ⟨"SEMI_COLON", 3, 2, none, 1, 2⟩, ⟨"SPACE", 3, 3, none, 2, 3⟩,
      ⟨"NEWLINE", 3, 4, none, 3, 4⟩]
    (spacingDiagsRun toks [⟨"IsAssignation", 0, 4⟩]).map (fun d => (d.name, d.highlights.map (fun h => (h.line, h.col))))
      = [("SPC_BEFORE_NL", [(3, 3)])] := by decide +kernel

/-- **V45 (several instructions on a line), end to end for every rule table**: in a file lexed from `src` that reaches
a verdict, a statement matched by one of the primaries after which the registry runs `CheckManyInstructions`
(assignment, block end, control statement, expression statement, function declaration/prototype, user type, variable
declaration, function call — read from the regenerated dependency table) and whose first token is NOT the first thing
on its line gets `TOO_MANY_INSTR` at that token. "Not the first thing on its line" is stated on the raw text
(`C09.column_one_iff_line_start`). -/
theorem many_instr_e2e (u : Uni) (src : List Char) (r : LexResult) (hlex : lex u src = .ok r)
    (t : List Segment) (g : Segment) (hg : g ∈ t) (hrule : runsAfter "CheckManyInstructions" g.rule = true)
    (tk : Token) (htk : r.tokens[g.start]? = some tk)
    (hmid : tk.start ≠ 0 ∧ src[tk.start - 1]? ≠ some '\n') :
    tokDiag "TOO_MANY_INSTR" tk ∈ manyInstrDiagsRun r.tokens t := by
  have hmem : tk ∈ r.tokens := List.mem_of_getElem? htk
  have hcol : tk.col ≠ 1 := by
    intro h1
    rcases (C09.column_one_iff_line_start u src r hlex tk hmem).mp h1 with h | h
    · exact hmid.1 h
    · exact hmid.2 h
  have hpos : 1 ≤ tk.col := by
    obtain ⟨hp, _, _⟩ := C09.token_positions u src r hlex tk hmem
    have hc : tk.col = (Spec.visualPos src tk.start).2 := congrArg Prod.snd hp
    rw [hc]
    exact advPos_col_pos (1, 1) _ (by decide)
  unfold manyInstrDiagsRun
  refine List.mem_flatMap.mpr ⟨g, hg, ?_⟩
  unfold manyInstrDiags
  simp only [hrule, ↓reduceIte, htk]
  have : 1 < tk.col := by omega
  simp [this]

/-- … and `CheckManyInstructions` invents nothing: each TOO_MANY_INSTR of the run sits on the first token of a statement
of one of those kinds, and that token is not the first thing on its line. -/
theorem many_instr_sound (u : Uni) (src : List Char) (r : LexResult) (hlex : lex u src = .ok r)
    (t : List Segment) (d : Diag) (hd : d ∈ manyInstrDiagsRun r.tokens t) :
    ∃ g ∈ t, ∃ tk, r.tokens[g.start]? = some tk ∧ runsAfter "CheckManyInstructions" g.rule = true ∧
      d = tokDiag "TOO_MANY_INSTR" tk ∧ tk.start ≠ 0 ∧ src[tk.start - 1]? ≠ some '\n' := by
  unfold manyInstrDiagsRun at hd
  obtain ⟨g, hg, hdg⟩ := List.mem_flatMap.mp hd
  unfold manyInstrDiags at hdg
  split at hdg
  · rename_i hr
    split at hdg
    · rename_i tk htk
      split at hdg
      · rename_i hc
        simp only [List.mem_singleton] at hdg
        have hmem : tk ∈ r.tokens := List.mem_of_getElem? htk
        have hiff := C09.column_one_iff_line_start u src r hlex tk hmem
        refine ⟨g, hg, tk, htk, hr, hdg, ?_, ?_⟩
        · intro h0; have := hiff.mpr (Or.inl h0); omega
        · intro h0; have := hiff.mpr (Or.inr h0); omega
      · cases hdg
    · cases hdg
  · cases hdg

/-- Non-vacuity: `a = 1; b = 2;` on one line — the second assignment is reported. -/
example :
    let toks : List Token := [⟨"IDENTIFIER", 1, 1, some "a", 0, 1⟩, ⟨"SEMI_COLON", 1, 2, none, 1, 2⟩, ⟨"SPACE", 1, 3, none, 2, 3⟩,
      ⟨"IDENTIFIER", 1, 4, some "b", 3, 4⟩, ⟨"SEMI_COLON", 1, 5, none, 4, 5⟩, ⟨"NEWLINE", 1, 6, none, 5, 6⟩]
    (manyInstrDiagsRun toks [⟨"IsAssignation", 0, 3⟩, ⟨"IsAssignation", 3, 3⟩, ⟨"IsEmptyLine", 5, 1⟩]).map
        (fun d => (d.name, d.highlights.map (fun h => (h.line, h.col))))
      = [("TOO_MANY_INSTR", [(1, 4)])] ∧ runsAfter "CheckManyInstructions" "IsAssignation" = true ∧
        runsAfter "CheckManyInstructions" "IsComment" = false := by decide +kernel

/- V82 end to end (a line wider than 80 columns ending in a newline token is reported, for every
rule table) is `C03.long_line_reported`. -/

/-- Non-vacuity: two statements, a ternary in the second, a token beyond column 81 in the first. -/
example :
    let toks : List Token := [⟨"IDENTIFIER", 1, 1, some "a", 0, 1⟩, ⟨"SEMI_COLON", 1, 83, none, 82, 83⟩, ⟨"NEWLINE", 1, 84, none, 83, 84⟩,
      ⟨"IDENTIFIER", 2, 1, some "b", 84, 85⟩, ⟨"TERN_CONDITION", 2, 3, none, 86, 87⟩, ⟨"NEWLINE", 2, 4, none, 87, 88⟩]
    (alwaysDiagsRun toks [⟨"A", 0, 3⟩, ⟨"B", 3, 3⟩]).map (fun d => (d.name, d.highlights.map (fun h => (h.line, h.col))))
      = [("LINE_TOO_LONG", [(1, 83)]), ("TERNARY_FBIDDEN", [(2, 3)])] := by decide +kernel

/-- V23 / V27 / V33 / V34 (one past a counter limit): the comparison fires. -/
theorem counters_fire : tooManyVars 6 = true ∧ tooManyArgs 4 = true ∧ tooManyLines 27 = true ∧ tooManyFuncs 6 = true := by
  decide

/-- once one Error-level diagnostic exists the file is `Error!` and the exit status is non-zero -/
theorem verdict_error (fmt : Format) (fs : List CliFile) (hnf : firstFatal fs = none) (hh : C04.AllHl fs)
    (f : CliFile) (hf : f ∈ fs) (d : Diag) (hd : d ∈ f.diags) (he : d.level = .error) :
    (cliRun fmt fs).exit ≠ 0 ∧ status f.diags = .error := by
  have hs : status f.diags ≠ .ok := by
    intro h
    have := (C04.ok_iff f).mp h d hd
    rw [he] at this; cases this
  refine ⟨?_, ?_⟩
  · intro h0
    exact hs ((C04.exit_iff fmt fs hnf hh).mp h0 f hf)
  · cases h : status f.diags
    · exact absurd h hs
    · rfl

end Norm.C02
