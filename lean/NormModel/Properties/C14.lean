/-
C14 — include-guard validation follows the file name.
`guardCheck` is the decision logic of CheckPreprocessorProtection.run; the theorems hold for
every header base name and every sym symbol (unbounded strings).
-/
import NormModel.Model.Guard
namespace Norm.C14
open Norm

/-- the alphabet of header base names the property quantifies over -/
def nameAlphabet : List Char := "abcdefghijklmnopqrstuvwxyz0123456789_.".toList

theorem upper_dot : ∀ c ∈ nameAlphabet, (c.toUpper == '.') = (c == '.') := by decide

/-- the guard symbol is the file name upper-cased with dots replaced by underscores — for
every base name over `[a-z0-9_.]`, of any length -/
theorem guardOf_spec (base : List Char) (hb : ∀ c ∈ base, c ∈ nameAlphabet) :
    guardOf base = base.map (fun c => if c == '.' then '_' else c.toUpper) := by
  unfold guardOf
  rw [List.map_map]
  apply List.map_congr_left
  intro c hc
  simp only [Function.comp]
  rw [upper_dot c (hb c hc)]

theorem guardOf_length (base : List Char) : (guardOf base).length = base.length := by
  unfold guardOf; simp

/-- **`.c` files are never subject to these checks**, whatever they contain. -/
theorem c_file_never (guard : List Char) (i : GuardIn) (h : i.isHeader = false) :
    (guardCheck guard i).codes = [] ∧ (guardCheck guard i).prot = i.prot := by
  unfold guardCheck; simp [h]

/-- **The correct guard is accepted**: `#ifndef G` with G the file's symbol, at the outermost
level, nothing but comments/empty lines before it, emits nothing. -/
theorem accept_ifndef (guard : List Char) (i : GuardIn) (hd : i.dir = .ifndef guard) (hi : i.indent = 1)
    (hp : i.prot = false) (hb : i.codeBefore = false) : (guardCheck guard i).codes = [] := by
  unfold guardCheck; simp [hd, hi, hp, hb]

/-- … and the closing `#endif` with the symbol defined and nothing after it emits nothing and
marks the header prot. -/
theorem accept_endif (guard : List Char) (i : GuardIn) (hh : i.isHeader = true) (hd : i.dir = .endif false) (hi : i.indent = 0)
    (hp : i.prot = false) (hdef : i.guardDefined = true) :
    guardCheck guard i = ⟨[], true⟩ := by
  unfold guardCheck; simp [hh, hd, hi, hp, hdef]

/-- G1/G2: **a symbol that differs from the file's** is reported — `HEADER_PROT_UPPER` when it
is the right symbol in another case, `HEADER_PROT_NAME` otherwise. -/
theorem wrong_symbol (guard sym : List Char) (i : GuardIn) (hh : i.isHeader = true) (hd : i.dir = .ifndef sym)
    (hi : i.indent = 1) (hp : i.prot = false) (hne : sym ≠ guard) :
    (if upperOf sym = guard then "HEADER_PROT_UPPER" else "HEADER_PROT_NAME") ∈ (guardCheck guard i).codes := by
  unfold guardCheck
  have : (sym != guard) = true := by simp [hne]
  simp only [hh, hd, hi, hp, this]
  by_cases hu : upperOf sym = guard <;> simp [hu]

/-- G3: **no `#define` of the symbol** → `HEADER_PROT_NODEF` at the closing `#endif`. -/
theorem missing_define (guard : List Char) (i : GuardIn) (hh : i.isHeader = true) (after : Bool) (hd : i.dir = .endif after)
    (hi : i.indent = 0) (hp : i.prot = false) (hdef : i.guardDefined = false) :
    "HEADER_PROT_NODEF" ∈ (guardCheck guard i).codes := by
  unfold guardCheck; simp [hh, hd, hi, hp, hdef]

/-- G4: **a second outermost `#ifndef`** after the header was closed → `HEADER_PROT_MULT`. -/
theorem doubled (guard sym : List Char) (i : GuardIn) (hh : i.isHeader = true) (hd : i.dir = .ifndef sym)
    (hi : i.indent = 1) (hp : i.prot = true) : "HEADER_PROT_MULT" ∈ (guardCheck guard i).codes := by
  unfold guardCheck; simp [hh, hd, hi, hp]

/-- G5: **declarations before the guard** → `HEADER_PROT_ALL`. -/
theorem code_before (guard sym : List Char) (i : GuardIn) (hh : i.isHeader = true) (hd : i.dir = .ifndef sym)
    (hi : i.indent = 1) (hp : i.prot = false) (hb : i.codeBefore = true) :
    "HEADER_PROT_ALL" ∈ (guardCheck guard i).codes := by
  unfold guardCheck; simp [hh, hd, hi, hp, hb]

/-- G6: **something after the final `#endif`** → `HEADER_PROT_ALL_AF`. -/
theorem code_after (guard : List Char) (i : GuardIn) (hh : i.isHeader = true) (hd : i.dir = .endif true)
    (hi : i.indent = 0) (hp : i.prot = false) : "HEADER_PROT_ALL_AF" ∈ (guardCheck guard i).codes := by
  unfold guardCheck; simp [hh, hd, hi, hp]

/-- Non-vacuity. -/
example : guardOf "ft.list.h".toList = "FT_LIST_H".toList ∧ guardOf "libft.h".toList = "LIBFT_H".toList ∧
    guardOf "a_b2.h".toList = "A_B2_H".toList := by decide

end Norm.C14
