/-
C06 — the verdict is a pure function of the file.
Proved: (1) the registry does not depend on the order of the rules directory listing — for
EVERY permutation of the listing the primaries and every dependency list come out in the same
order (stable sort + pairwise distinct keys, re-checked on the regenerated tables);
(2) frame facts read from the source: no class-level mutable attribute is mutated through
instances, no function mutates a module-level mutable object, no `global` statement.
Purity *within* the model is by construction (every model function is a function); what ties
that to the code is (2) plus the history/permutation correspondence run by the harness.
-/
import NormModel.Model.Registry
import NormModel.Proofs.SortUnique
import NormModel.Generated.Rules
import NormModel.Generated.Facts
namespace Norm.C06
open Norm

theorem sortPrimaries_perm_invariant (l l' : List (String × Nat)) (hp : l.Perm l')
    (hnd : (l.map Prod.snd).Nodup) : sortPrimaries l = sortPrimaries l' := by
  unfold sortPrimaries
  have total : ∀ a b : String × Nat, True → True → decide (a.2 ≥ b.2) = true ∨ decide (b.2 ≥ a.2) = true := by
    intro a b _ _; simp; omega
  have trans : ∀ a b c : String × Nat, True → True → True → decide (a.2 ≥ b.2) = true → decide (b.2 ≥ c.2) = true → decide (a.2 ≥ c.2) = true := by
    intro a b c _ _ _; simp; omega
  have s1 := sortBy_sorted (fun a b : String × Nat => decide (a.2 ≥ b.2)) (fun _ => True) total trans l (fun _ _ => trivial)
  have s2 := sortBy_sorted (fun a b : String × Nat => decide (a.2 ≥ b.2)) (fun _ => True) total trans l' (fun _ _ => trivial)
  have p1 := sortBy_perm (fun a b : String × Nat => decide (a.2 ≥ b.2)) l
  have p2 := sortBy_perm (fun a b : String × Nat => decide (a.2 ≥ b.2)) l'
  have pp := p1.trans (hp.trans p2.symm)
  -- distinct priorities: sorted by ≥ with nodup keys is strictly sorted
  have nd1 : ((sortBy (fun a b : String × Nat => decide (a.2 ≥ b.2)) l).map Prod.snd).Nodup :=
    (p1.map Prod.snd).nodup_iff.mpr hnd
  have nd2 : ((sortBy (fun a b : String × Nat => decide (a.2 ≥ b.2)) l').map Prod.snd).Nodup :=
    ((p2.trans hp.symm).map Prod.snd).nodup_iff.mpr hnd
  have strict : ∀ m : List (String × Nat), m.Pairwise (fun a b => decide (a.2 ≥ b.2) = true) → (m.map Prod.snd).Nodup →
      m.Pairwise (fun a b => a.2 > b.2) := by
    intro m hs hn
    rw [List.Nodup, List.pairwise_map] at hn
    exact (hs.and hn).imp (fun ⟨h1, h2⟩ => by simp at h1; omega)
  exact eq_of_perm_of_strict_sorted (lt := fun a b : String × Nat => a.2 > b.2)
    (fun a => by omega) (fun a b h => by omega) pp (strict _ s1 nd1) (strict _ s2 nd2)

/-- name and priority of every primary, in the order computed by the real code -/
def primaryKeys : List (String × Nat) := Generated.primaries.map (fun p => (p.1, p.2.1))

/-- table obligation: the priorities are pairwise distinct -/
theorem priorities_nodup : (primaryKeys.map Prod.snd).Nodup := by decide +kernel

/-- table obligation: rule names are pairwise distinct -/
theorem rule_names_nodup :
    (Generated.primaries.map (·.1) ++ Generated.checks.map (·.1)).Nodup := by decide +kernel

/-- **The primaries' order does not depend on the directory listing**: whatever order
`os.listdir` (hence the imports, hence `Primary.__subclasses__()`) produces, sorting gives
exactly the order the real code computed on this tree. -/
theorem registry_perm (listing : List (String × Nat)) (hp : listing.Perm primaryKeys) :
    sortPrimaries listing = primaryKeys := by
  have h1 := sortPrimaries_perm_invariant listing primaryKeys hp
    ((hp.map Prod.snd).nodup_iff.mpr priorities_nodup)
  rw [h1]
  -- the generated order is already sorted (it IS the real code's result): sorting is the identity
  decide +kernel

theorem sortByNameDesc_perm_invariant (l l' : List String) (hp : l.Perm l') (hnd : l.Nodup) :
    sortByNameDesc l = sortByNameDesc l' := by
  unfold sortByNameDesc
  have total : ∀ a b : String, True → True → decide (b ≤ a) = true ∨ decide (a ≤ b) = true := by
    intro a b _ _
    rcases String.le_total a b with h | h
    · right; simpa using h
    · left; simpa using h
  have trans : ∀ a b c : String, True → True → True → decide (b ≤ a) = true → decide (c ≤ b) = true → decide (c ≤ a) = true := by
    intro a b c _ _ _ h1 h2
    simp at h1 h2 ⊢
    exact String.le_trans h2 h1
  have s1 := sortBy_sorted (fun a b : String => decide (b ≤ a)) (fun _ => True) total trans l (fun _ _ => trivial)
  have s2 := sortBy_sorted (fun a b : String => decide (b ≤ a)) (fun _ => True) total trans l' (fun _ _ => trivial)
  have p1 := sortBy_perm (fun a b : String => decide (b ≤ a)) l
  have p2 := sortBy_perm (fun a b : String => decide (b ≤ a)) l'
  have pp := p1.trans (hp.trans p2.symm)
  have nd1 : (sortBy (fun a b : String => decide (b ≤ a)) l).Nodup := p1.nodup_iff.mpr hnd
  have nd2 : (sortBy (fun a b : String => decide (b ≤ a)) l').Nodup := (p2.trans hp.symm).nodup_iff.mpr hnd
  have strict : ∀ m : List String, m.Pairwise (fun a b => decide (b ≤ a) = true) → m.Nodup →
      m.Pairwise (fun a b => b < a) := by
    intro m hs hn
    exact (hs.and hn).imp (fun ⟨h1, h2⟩ => by
      simp at h1
      rcases Std.le_iff_lt_or_eq.mp h1 with h | h
      · exact h
      · exact absurd h.symm h2)
  exact eq_of_perm_of_strict_sorted (lt := fun a b : String => b < a)
    (fun a => String.lt_irrefl a) (fun a b h => String.lt_asymm h) pp (strict _ s1 nd1) (strict _ s2 nd2)

/-- **Every dependency list is independent of the listing order**: for each key of
`Registry().dependencies`, any permutation of its members sorts to the list the real code
computed. -/
theorem dependencies_perm :
    ∀ kv ∈ Generated.dependencies, ∀ l : List String, l.Perm kv.2 → sortByNameDesc l = kv.2 := by
  intro kv hkv l hp
  have hnd : kv.2.Nodup := by
    have : ∀ kv ∈ Generated.dependencies, kv.2.Nodup := by decide +kernel
    exact this kv hkv
  rw [sortByNameDesc_perm_invariant l kv.2 hp (hp.nodup_iff.mpr hnd)]
  have : ∀ kv ∈ Generated.dependencies, sortByNameDesc kv.2 = kv.2 := by decide +kernel
  exact this kv hkv

/-- **Frame facts** (regenerated from the AST of the source on every run): no state is
shared between files through class attributes, module-level objects or globals. -/
theorem no_shared_state :
    Generated.sharedMutableClassAttrs = [] ∧ Generated.moduleLevelWrites = [] ∧ Generated.globalDecls = [] ∧
    Generated.moduleLevelIterators = [] ∧ Generated.registryInstanceWrites = [] := by
  decide

/-- No check runs on start or on end (the engine model has no such phases). -/
theorem no_start_end_checks : ∀ c ∈ Generated.checks, c.2.2.1 = false ∧ c.2.2.2.2 = false := by decide +kernel

/-- Non-vacuity: a reversed listing of the primaries sorts to the same order. -/
example : sortPrimaries primaryKeys.reverse = primaryKeys := by decide +kernel

end Norm.C06
