/-
C11 — C literals are classified as C defines them.
Spec/Literals.lean is written from C11 §6.4.4.1 (+ the extensions the property names); the
theorems say what the lexer model does with every constant of that grammar.
-/
import NormModel.Proofs.LiteralsLex
import NormModel.Proofs.IntReport
import NormModel.Proofs.CharString
import NormModel.Proofs.Floats
import NormModel.Proofs.CharEscapes
import NormModel.Proofs.HexFloats
import NormModel.Proofs.StringEscapes
import NormModel.Proofs.BadLiterals
import NormModel.Proofs.BadFloats
namespace Norm.C11
open Norm Spec

/-- every suffix spelling of the specification is in the table regenerated from the source -/
theorem suffix_table_complete : ∀ s ∈ Spec.integerSuffixes, Generated.integerSuffixes.contains s = true := by
  decide +kernel

theorem render_word (k : IntConst) (hk : k.WF) : ∀ c ∈ k.render, c ∈ wordChars :=
  render_word_shape k hk.shape

/-- **An integer constant of a recognised shape — well-formed or malformed — becomes ONE token spanning it, and the
lexer adds exactly the diagnostics `intReport k`** (`Proofs/IntReport.lean`: INVALID_SUFFIX on a suffix that is not in
the table, then INVALID_OCT_INT / INVALID_BIN_INT with one highlight per digit the base does not allow; nothing for a
well-formed constant). `IntConst.Shape` is `WF` with any suffix-shaped text for suffix and any decimal digits after
`0` / `0b`; digit strings of any length, at any position, whatever follows (within `boundaryOK`). -/
theorem int_token (u : Uni) (k : IntConst) (hk : k.Shape) (rest : List Char) (hb : boundaryOK rest)
    (s : LexSt) (hr : s.rest = k.render ++ rest) :
    ∃ s' t, trySubLexers u s = .ok (some (s', t)) ∧ t.type = "CONSTANT" ∧
      t.value = some (String.ofList k.render) ∧ t.line = s.line ∧ t.col = s.col ∧
      s'.rest = rest ∧ s'.diags = s.diags ++ intReport k s.line s.col :=
  Norm.int_token u k hk rest hb s hr

/-- **A valid integer constant becomes one token spanning the whole constant, with no lexical
diagnostic** — for every base, every digit string of any length, every suffix of the table,
at any position of any file, whatever follows (within `boundaryOK`): the sub-lexer chain of
`get_next_token` returns a `CONSTANT` whose text is exactly the constant, leaves the
continuation unread and adds no diagnostic. -/
theorem int_valid (u : Uni) (k : IntConst) (hk : k.WF) (rest : List Char) (hb : boundaryOK rest)
    (s : LexSt) (hr : s.rest = k.render ++ rest) :
    ∃ s' t, trySubLexers u s = .ok (some (s', t)) ∧ t.type = "CONSTANT" ∧
      t.value = some (String.ofList k.render) ∧ t.line = s.line ∧ t.col = s.col ∧
      s'.rest = rest ∧ s'.diags = s.diags := by
  obtain ⟨s', t, h1, h2, h3, h4, h5, h6, h7⟩ := Norm.int_token u k hk.shape rest hb s hr
  rw [intReport_wf k hk, List.append_nil] at h7
  exact ⟨s', t, h1, h2, h3, h4, h5, h6, h7⟩

/-- **Malformed family "unknown suffix"**: digits that are valid for the base followed by a suffix-shaped text that is
not in the suffix table (`10uu`, `1lul`, `0x1g`, `7_t`, …) — one CONSTANT token spanning everything, and the first
diagnostic added is INVALID_SUFFIX, highlighted on the suffix (its first character, its whole length). -/
theorem int_unknown_suffix_reported (u : Uni) (k : IntConst) (hk : k.Shape) (hsfx : k.suffix ∉ Spec.integerSuffixes)
    (rest : List Char) (hb : boundaryOK rest) (s : LexSt) (hr : s.rest = k.render ++ rest) :
    ∃ s' t ds, trySubLexers u s = .ok (some (s', t)) ∧ t.type = "CONSTANT" ∧
      t.value = some (String.ofList k.render) ∧ s'.rest = rest ∧
      s'.diags = s.diags ++ mkDiag "INVALID_SUFFIX" .error
        [⟨s.line, s.col + k.body.length, some k.suffix.toList.length, none⟩] :: ds := by
  obtain ⟨s', t, h1, h2, h3, _, _, h6, h7⟩ := Norm.int_token u k hk rest hb s hr
  refine ⟨s', t, intDigitReport k s.line s.col, h1, h2, h3, h6, ?_⟩
  rw [h7]
  unfold intReport
  simp only [hsfx, ↓reduceIte, List.cons_append, List.nil_append]

/-- **Malformed family "digit not allowed in its base", octal**: `0` followed by decimal digits at least one of which
is 8 or 9 (`0189`, `08`, `00079u`, …) — one CONSTANT token, and an INVALID_OCT_INT diagnostic with exactly one
one-character highlight per offending digit, at that digit's column, in order (`badDigitHighlights`). -/
theorem int_bad_octal_digit_reported (u : Uni) (k : IntConst) (hk : k.Shape) (hbase : k.base = .oct)
    (hbad : ∃ c ∈ k.digits, isOct c = false)
    (rest : List Char) (hb : boundaryOK rest) (s : LexSt) (hr : s.rest = k.render ++ rest) :
    ∃ s' t, trySubLexers u s = .ok (some (s', t)) ∧ t.type = "CONSTANT" ∧
      t.value = some (String.ofList k.render) ∧ s'.rest = rest ∧
      mkDiag "INVALID_OCT_INT" .error (badDigitHighlights s.line s.col 1 k.digits isOct) ∈ s'.diags ∧
      badDigitHighlights s.line s.col 1 k.digits isOct ≠ [] := by
  obtain ⟨s', t, h1, h2, h3, _, _, h6, h7⟩ := Norm.int_token u k hk rest hb s hr
  have hne := badDigitHighlights_ne_nil s.line s.col 1 k.digits isOct hbad
  refine ⟨s', t, h1, h2, h3, h6, ?_, hne⟩
  rw [h7]
  apply List.mem_append_right
  unfold intReport intDigitReport
  apply List.mem_append_right
  rw [hbase]
  simp only
  unfold digitReport
  have : (badDigitHighlights s.line s.col 1 k.digits isOct).isEmpty = false := by
    cases h : badDigitHighlights s.line s.col 1 k.digits isOct with
    | nil => exact absurd h hne
    | cons _ _ => rfl
  simp [this]

/-- … binary: `0b` / `0B` followed by decimal digits at least one of which is not 0 or 1 (`0b12013`, `0B2`, …). -/
theorem int_bad_binary_digit_reported (u : Uni) (k : IntConst) (hk : k.Shape) (b : Char) (hbase : k.base = .bin b)
    (hbad : ∃ c ∈ k.digits, isBin c = false)
    (rest : List Char) (hb : boundaryOK rest) (s : LexSt) (hr : s.rest = k.render ++ rest) :
    ∃ s' t, trySubLexers u s = .ok (some (s', t)) ∧ t.type = "CONSTANT" ∧
      t.value = some (String.ofList k.render) ∧ s'.rest = rest ∧
      mkDiag "INVALID_BIN_INT" .error (badDigitHighlights s.line s.col 2 k.digits isBin) ∈ s'.diags ∧
      badDigitHighlights s.line s.col 2 k.digits isBin ≠ [] := by
  obtain ⟨s', t, h1, h2, h3, _, _, h6, h7⟩ := Norm.int_token u k hk rest hb s hr
  have hne := badDigitHighlights_ne_nil s.line s.col 2 k.digits isBin hbad
  refine ⟨s', t, h1, h2, h3, h6, ?_, hne⟩
  rw [h7]
  apply List.mem_append_right
  unfold intReport intDigitReport
  apply List.mem_append_right
  rw [hbase]
  simp only
  unfold digitReport
  have : (badDigitHighlights s.line s.col 2 k.digits isBin).isEmpty = false := by
    cases h : badDigitHighlights s.line s.col 2 k.digits isBin with
    | nil => exact absurd h hne
    | cons _ _ => rfl
  simp [this]

/-- Non-vacuity: `0189`, `0b12013` and `10uu` have the shape, are not well-formed in the way the theorems name, and
their expected reports are what the golden files of the test-suite show. -/
example : (⟨.oct, "189".toList, ""⟩ : IntConst).Shape ∧ (∃ c ∈ "189".toList, isOct c = false) ∧
    (intReport ⟨.oct, "189".toList, ""⟩ 1 5).map (fun d => (d.name, d.highlights.map (fun h => (h.line, h.col)))) =
      [("INVALID_OCT_INT", [(1, 7), (1, 8)])] := by
  refine ⟨⟨by decide, ?_⟩, ⟨'8', by decide, by decide⟩, by decide⟩
  intro c hc; revert c; decide
example : (⟨.bin 'b', "12013".toList, ""⟩ : IntConst).Shape ∧ (∃ c ∈ "12013".toList, isBin c = false) ∧
    (intReport ⟨.bin 'b', "12013".toList, ""⟩ 1 1).map (fun d => (d.name, d.highlights.map (fun h => (h.line, h.col)))) =
      [("INVALID_BIN_INT", [(1, 4), (1, 7)])] := by
  refine ⟨⟨by decide, Or.inl rfl, by decide, ?_⟩, ⟨'2', by decide, by decide⟩, by decide⟩
  intro c hc; revert c; decide
example : (⟨.dec, "10".toList, "uu"⟩ : IntConst).Shape ∧ "uu" ∉ Spec.integerSuffixes ∧
    (intReport ⟨.dec, "10".toList, "uu"⟩ 3 9).map (fun d => (d.name, d.highlights.map (fun h => (h.line, h.col, h.length)))) =
      [("INVALID_SUFFIX", [(3, 11, some 2)])] := by
  refine ⟨⟨by decide, '1', ['0'], rfl, by decide, ?_⟩, by decide, by decide⟩
  intro c hc; revert c; decide

/-- every floating suffix of the standard is in the table regenerated from the source -/
theorem float_suffix_table_complete : ∀ s ∈ Spec.floatSuffixes, Generated.floatSuffixes.contains s = true := by
  decide

/-- **A well-formed decimal floating constant** — `D+ Exp`, `D* . D+ Exp?` or `D+ . Exp?` with digit
strings of any length, either exponent letter, either sign or none, every suffix of the standard —
**becomes one CONSTANT token spanning exactly the constant, with no lexical diagnostic**, at any
position, whatever follows (within `boundaryOK`). -/
theorem float_valid (u : Uni) (k : DecFloat) (hk : k.WF) (rest : List Char) (hb : boundaryOK rest)
    (s : LexSt) (hr : s.rest = k.render ++ rest) :
    ∃ s' t, trySubLexers u s = .ok (some (s', t)) ∧ t.type = "CONSTANT" ∧
      t.value = some (String.ofList k.render) ∧ t.line = s.line ∧ t.col = s.col ∧
      s'.rest = rest ∧ s'.diags = s.diags :=
  Norm.float_valid u k hk rest hb s hr

/-- Non-vacuity: `1.5e-3f`, `.25`, `10.`, `6E23L`. -/
example : DecFloat.WF (.frac "1".toList "5".toList (some ⟨'e', some '-', "3".toList⟩) "f") ∧
    DecFloat.WF (.frac [] "25".toList none "") ∧ DecFloat.WF (.frac "10".toList [] none "") ∧
    DecFloat.WF (.exp "6".toList ⟨'E', none, "23".toList⟩ "L") ∧
    DecFloat.render (.frac "1".toList "5".toList (some ⟨'e', some '-', "3".toList⟩) "f") = "1.5e-3f".toList := by
  refine ⟨?_, ?_, ?_, ?_, by decide⟩
  · refine ⟨Or.inl (by decide), by decide, by decide, ?_, by decide⟩
    intro y hy
    simp only [Option.some.injEq] at hy
    subst hy
    exact ⟨Or.inl rfl, (by intro s hs; simp at hs; subst hs; exact Or.inr rfl), by decide, by decide⟩
  · exact ⟨Or.inr (by decide), by decide, by decide, (by intro y hy; cases hy), by decide⟩
  · exact ⟨Or.inl (by decide), by decide, by decide, (by intro y hy; cases hy), by decide⟩
  · exact ⟨by decide, by decide, ⟨Or.inr rfl, (by intro s hs; cases hs), by decide, by decide⟩, by decide⟩

/-- **A well-formed hexadecimal floating constant** — `0x`/`0X`, `H+`, `H+.`, `H*.H+`, the mandatory binary exponent
`[pP][+-]?D+`, every suffix of the standard (an `f`/`F` suffix is itself a hexadecimal digit: the code reads it into the
exponent group, the token is the same) — **becomes one CONSTANT token spanning exactly the constant, with no lexical
diagnostic**, at any position, whatever follows (within `boundaryOK`). -/
theorem hexfloat_valid (u : Uni) (k : HexFloat) (hk : k.WF) (rest : List Char) (hb : boundaryOK rest)
    (s : LexSt) (hr : s.rest = k.render ++ rest) :
    ∃ s' t, trySubLexers u s = .ok (some (s', t)) ∧ t.type = "CONSTANT" ∧
      t.value = some (String.ofList k.render) ∧ t.line = s.line ∧ t.col = s.col ∧
      s'.rest = rest ∧ s'.diags = s.diags :=
  Norm.hexfloat_valid u k hk rest hb s hr

/-- Non-vacuity: `0x1.8p-3f`, `0X.fP2`, `0xAp10L`; and the malformed sibling `0x1p` gets BAD_EXPONENT (ed0ba8c). -/
example : HexFloat.WF ⟨'x', "1".toList, some "8".toList, ⟨'p', some '-', "3".toList⟩, "f"⟩ ∧
    HexFloat.WF ⟨'X', [], some "f".toList, ⟨'P', none, "2".toList⟩, ""⟩ ∧
    HexFloat.WF ⟨'x', "A".toList, none, ⟨'p', none, "10".toList⟩, "L"⟩ ∧
    HexFloat.render ⟨'x', "1".toList, some "8".toList, ⟨'p', some '-', "3".toList⟩, "f"⟩ = "0x1.8p-3f".toList ∧
    ((lex {} "0x1p".toList).toOption.map (fun r => r.diags.map (·.name))) = some ["BAD_EXPONENT"] := by
  refine ⟨⟨Or.inl rfl, by decide, ⟨by decide, Or.inl (by decide)⟩, ⟨Or.inl rfl, ?_, by decide, by decide⟩, by decide⟩,
    ⟨Or.inr rfl, by decide, ⟨by decide, Or.inr (by decide)⟩, ⟨Or.inr rfl, ?_, by decide, by decide⟩, by decide⟩,
    ⟨Or.inl rfl, by decide, (by show "A".toList ≠ []; decide), ⟨Or.inl rfl, ?_, by decide, by decide⟩, by decide⟩, by decide, by decide +kernel⟩
  · intro s hs; simp at hs; subst hs; exact Or.inr rfl
  · intro s hs; cases hs
  · intro s hs; cases hs

/-- **A character constant `pre ' c '`** (pre ∈ {"", L, u, U, u8}; c any character other than the
quote, the backslash, newline and tab) **becomes one CHAR_CONST token spanning exactly the
constant, with no lexical diagnostic**, at any position, whatever follows. -/
theorem char_valid (u : Uni) (pre : String) (hp : pre ∈ litPrefixes) (c : Char)
    (hc : c ≠ '\'' ∧ c ≠ '\\' ∧ c ≠ '\n' ∧ c ≠ '\t') (rest : List Char) (s : LexSt)
    (hr : s.rest = pre.toList ++ '\'' :: c :: '\'' :: rest) :
    ∃ s' t, trySubLexers u s = .ok (some (s', t)) ∧ t.type = "CHAR_CONST" ∧
      t.value = some (String.ofList (pre.toList ++ ['\'', c, '\''])) ∧ t.line = s.line ∧ t.col = s.col ∧
      s'.rest = rest ∧ s'.diags = s.diags :=
  Norm.char_valid u pre hp c hc rest s hr

/-- … and likewise when the character is a simple escape sequence (`\n \t \\ \' \" \? \a \b \e \f \r \v`). -/
theorem char_escape_valid (u : Uni) (pre : String) (hp : pre ∈ litPrefixes) (e : Char)
    (he : simpleEscapes.contains e = true) (rest : List Char) (s : LexSt)
    (hr : s.rest = pre.toList ++ '\'' :: '\\' :: e :: '\'' :: rest) :
    ∃ s' t, trySubLexers u s = .ok (some (s', t)) ∧ t.type = "CHAR_CONST" ∧
      t.value = some (String.ofList (pre.toList ++ ['\'', '\\', e, '\''])) ∧ t.line = s.line ∧ t.col = s.col ∧
      s'.rest = rest ∧ s'.diags = s.diags :=
  Norm.char_escape_valid u pre hp e he rest s hr

/-- … an **octal escape sequence** (`'\0'`, `'\12'`, `'\177'`): one CHAR_CONST token spanning exactly the constant, no
lexical diagnostic. (Like the code, the statement takes every octal digit that follows; C takes three at most and reads
a fourth one as a second character.) -/
theorem char_octal_valid (u : Uni) (pre : String) (hp : pre ∈ litPrefixes) (ds : List Char) (hne : ds ≠ [])
    (hd : ∀ c ∈ ds, isOctal c = true) (rest : List Char) (s : LexSt)
    (hr : s.rest = pre.toList ++ '\'' :: '\\' :: (ds ++ '\'' :: rest)) :
    ∃ s' t, trySubLexers u s = .ok (some (s', t)) ∧ t.type = "CHAR_CONST" ∧
      t.value = some (String.ofList (pre.toList ++ '\'' :: '\\' :: (ds ++ ['\'']))) ∧ t.line = s.line ∧ t.col = s.col ∧
      s'.rest = rest ∧ s'.diags = s.diags :=
  Norm.char_octal_valid u pre hp ds hne hd rest s hr

/-- … a **hexadecimal escape sequence with any number of digits** (`'\x41'`, `'\x041'`, `L'\x1234'`): one CHAR_CONST
token spanning exactly the constant, no lexical diagnostic. (The pinned code took two digits at most: 6443d9c.) -/
theorem char_hex_valid (u : Uni) (pre : String) (hp : pre ∈ litPrefixes) (ds : List Char) (hne : ds ≠ [])
    (hd : ∀ c ∈ ds, isHexDigit c = true) (rest : List Char) (s : LexSt)
    (hr : s.rest = pre.toList ++ '\'' :: '\\' :: ('x' :: ds ++ '\'' :: rest)) :
    ∃ s' t, trySubLexers u s = .ok (some (s', t)) ∧ t.type = "CHAR_CONST" ∧
      t.value = some (String.ofList (pre.toList ++ '\'' :: '\\' :: ('x' :: ds ++ ['\'']))) ∧ t.line = s.line ∧ t.col = s.col ∧
      s'.rest = rest ∧ s'.diags = s.diags :=
  Norm.char_hex_valid u pre hp ds hne hd rest s hr

/-- Non-vacuity: the digits of `\x041` and `\177`. -/
example : (∀ c ∈ "041".toList, isHexDigit c = true) ∧ (∀ c ∈ "177".toList, isOctal c = true) ∧
    ((lex {} "L'\\x1234' '\\x041'".toList).toOption.map (fun r => (r.tokens.map (·.type), r.diags.length))) =
      some (["CHAR_CONST", "SPACE", "CHAR_CONST"], 0) := by
  decide +kernel

/-- **A string literal `pre " body "`** whose body (of any length) consists of characters other than
the quote, the backslash, newline, tab and the digraph/trigraph starters **becomes one STRING
token spanning exactly the literal, with no lexical diagnostic**, at any position, whatever follows. -/
theorem string_valid (u : Uni) (pre : String) (hp : pre ∈ litPrefixes) (body : List Char)
    (hb : ∀ c ∈ body, OpaqueChar c ∧ c ≠ '"') (rest : List Char) (s : LexSt)
    (hr : s.rest = pre.toList ++ '"' :: (body ++ '"' :: rest)) :
    ∃ s' t, trySubLexers u s = .ok (some (s', t)) ∧ t.type = "STRING" ∧
      t.value = some (String.ofList (pre.toList ++ '"' :: (body ++ ['"']))) ∧ t.line = s.line ∧ t.col = s.col ∧
      s'.rest = rest ∧ s'.diags = s.diags :=
  Norm.string_valid u pre hp body hb rest s hr

/-- **A string literal whose body mixes plain characters and escape sequences** (`SUnit`: plain character, simple
escape other than `\?`, octal escape, hexadecimal escape with any number of digits; an octal/hexadecimal escape is
not directly followed by a digit of its class) **becomes one STRING token spanning exactly the literal, with no lexical
diagnostic** — any number of elements, every encoding prefix, at any position, whatever follows. -/
theorem string_units_valid (u : Uni) (pre : String) (hp : pre ∈ litPrefixes) (xs : List SUnit) (hxs : UnitsOK xs)
    (rest : List Char) (s : LexSt) (hr : s.rest = pre.toList ++ '"' :: (renderAll xs ++ '"' :: rest)) :
    ∃ s' t, trySubLexers u s = .ok (some (s', t)) ∧ t.type = "STRING" ∧
      t.value = some (String.ofList (pre.toList ++ '"' :: (renderAll xs ++ ['"']))) ∧ t.line = s.line ∧ t.col = s.col ∧
      s'.rest = rest ∧ s'.diags = s.diags :=
  Norm.string_units_valid u pre hp xs hxs rest s hr

/-- Non-vacuity: the body of `"a\tb\101z\x41;"`. -/
example : renderAll [.plain 'a', .simple 't', .plain 'b', .octal "101".toList, .plain 'z', .hex "41".toList, .plain ';'] =
      "a\\tb\\101z\\x41;".toList ∧
    UnitsOK [.plain 'a', .simple 't', .plain 'b', .octal "101".toList, .plain 'z', .hex "41".toList, .plain ';'] := by
  refine ⟨by decide, ?_⟩
  refine ⟨⟨?_, by decide⟩, ⟨by decide, by decide⟩, ⟨?_, by decide⟩, ⟨by decide, by decide, by decide⟩, ⟨?_, by decide⟩,
    ⟨by decide, by decide, by decide⟩, ⟨?_, by decide⟩, trivial⟩ <;> (unfold OpaqueChar plainChar; decide)

/-- Non-vacuity: `L'x'`, `'\n'`, `u8"hi there"`. -/
example : ("L" ∈ litPrefixes) ∧ ("u8" ∈ litPrefixes) ∧ simpleEscapes.contains 'n' = true ∧
    (∀ c ∈ "hi there".toList, OpaqueChar c ∧ c ≠ '"') := by
  refine ⟨by decide, by decide, by decide, ?_⟩
  intro c hc
  simp at hc
  rcases hc with rfl | rfl | rfl | rfl | rfl | rfl | rfl | rfl <;> (unfold OpaqueChar plainChar; decide)

/-- Non-vacuity and the former defect: `0xb3ba`, binary, octal zero, all-caps suffix. -/
example : IntConst.WF ⟨.hex 'x', "b3ba".toList, "UL"⟩ ∧ IntConst.WF ⟨.bin 'B', "101".toList, ""⟩ ∧
    IntConst.WF ⟨.oct, [], "u"⟩ ∧ IntConst.WF ⟨.dec, "42".toList, "i64U"⟩ := by
  refine ⟨⟨by decide, by decide, by decide, by decide⟩, ⟨by decide, by decide, by decide, by decide⟩,
    ⟨by decide, by decide⟩, ⟨by decide, '4', ['2'], rfl, by decide, by decide⟩⟩

/-- Malformed families (closed witnesses; the families themselves are compared with the
implementation by the `literal` correspondence): digit not allowed in its base, unknown
suffix, sign glued to an `e`-ending hex constant, exponent without digits, several dots. -/
example : ((lex {} "089".toList).toOption.map (fun r => r.diags.map (·.name))) = some ["INVALID_OCT_INT"] ∧
    ((lex {} "0b102".toList).toOption.map (fun r => r.diags.map (·.name))) = some ["INVALID_BIN_INT"] ∧
    ((lex {} "10uu".toList).toOption.map (fun r => r.diags.map (·.name))) = some ["INVALID_SUFFIX"] ∧
    ((lex {} "0x1e+3".toList).toOption.map (fun r => r.diags.map (·.name))) = some ["MAXIMAL_MUNCH"] ∧
    ((lex {} "1e+".toList).toOption.map (fun r => r.diags.map (·.name))) = some ["BAD_EXPONENT"] ∧
    ((lex {} "1.2.3".toList).toOption.map (fun r => r.diags.map (·.name))) = some ["MULTIPLE_DOTS"] ∧
    ((lex {} "''".toList).toOption.map (fun r => r.diags.map (·.name))) = some ["EMPTY_CHAR"] := by
  decide +kernel

/-! ### malformed character constants and strings (`Proofs/BadLiterals.lean`) -/

/-- **Malformed family "empty character constant"** `pre ''` (every encoding prefix, at any position, whatever
follows): one CHAR_CONST token spanning it, and exactly one diagnostic added, EMPTY_CHAR over the token. -/
theorem empty_char_reported (u : Uni) (pre : String) (hp : pre ∈ litPrefixes) (rest : List Char) (s : LexSt)
    (hr : s.rest = pre.toList ++ '\'' :: '\'' :: rest) :
    ∃ s' t, trySubLexers u s = .ok (some (s', t)) ∧ t.type = "CHAR_CONST" ∧
      t.value = some (String.ofList (pre.toList ++ ['\'', '\''])) ∧ t.line = s.line ∧ t.col = s.col ∧
      s'.rest = rest ∧
      s'.diags = s.diags ++ [mkDiag "EMPTY_CHAR" .error [⟨s.line, s.col, some (pre.toList ++ ['\'', '\'']).length, none⟩]] :=
  Norm.empty_char_reported u pre hp rest s hr

/-- **Malformed family "unterminated character constant", end of file**: `pre ' body` and nothing more (body: any
number of opaque characters other than the quote, possibly none) — one CHAR_CONST token spanning everything, and
exactly UNEXPECTED_EOF_CHR over the token. -/
theorem char_eof_reported (u : Uni) (pre : String) (hp : pre ∈ litPrefixes) (body : List Char)
    (hb : ∀ c ∈ body, OpaqueChar c ∧ c ≠ '\'') (s : LexSt) (hr : s.rest = pre.toList ++ '\'' :: body) :
    ∃ s' t, trySubLexers u s = .ok (some (s', t)) ∧ t.type = "CHAR_CONST" ∧
      t.value = some (String.ofList (pre.toList ++ '\'' :: body)) ∧ t.line = s.line ∧ t.col = s.col ∧
      s'.rest = [] ∧
      s'.diags = s.diags ++ [mkDiag "UNEXPECTED_EOF_CHR" .error
        [⟨s.line, s.col, some (pre.toList ++ '\'' :: body).length, none⟩]] :=
  Norm.char_eof_reported u pre hp body hb s hr

/-- **… end of line**: `pre ' body` directly followed by a newline — one CHAR_CONST token spanning the text up to the
newline, which stays unread (the line structure of the file survives), and exactly UNEXPECTED_EOL_CHR: the token, and
the place where the closing quote is missing. -/
theorem char_eol_reported (u : Uni) (pre : String) (hp : pre ∈ litPrefixes) (body : List Char)
    (hb : ∀ c ∈ body, OpaqueChar c ∧ c ≠ '\'') (rest : List Char) (s : LexSt)
    (hr : s.rest = pre.toList ++ '\'' :: (body ++ '\n' :: rest)) :
    ∃ s' t, trySubLexers u s = .ok (some (s', t)) ∧ t.type = "CHAR_CONST" ∧
      t.value = some (String.ofList (pre.toList ++ '\'' :: body)) ∧ t.line = s.line ∧ t.col = s.col ∧
      s'.rest = '\n' :: rest ∧
      s'.diags = s.diags ++ [mkDiag "UNEXPECTED_EOL_CHR" .error
        [⟨s.line, s.col, some (pre.toList ++ '\'' :: body).length, none⟩,
         ⟨s.line, s.col + (pre.toList ++ '\'' :: body).length, some 1, some charHint⟩]] :=
  Norm.char_eol_reported u pre hp body hb rest s hr

/-- **Malformed family "unterminated string"**: `pre " body` and nothing more — one STRING token spanning everything,
and exactly UNEXPECTED_EOF_STR: the token, and the place where the closing quote is missing. -/
theorem string_eof_reported (u : Uni) (pre : String) (hp : pre ∈ litPrefixes) (body : List Char)
    (hb : ∀ c ∈ body, OpaqueChar c ∧ c ≠ '"') (s : LexSt) (hr : s.rest = pre.toList ++ '"' :: body) :
    ∃ s' t, trySubLexers u s = .ok (some (s', t)) ∧ t.type = "STRING" ∧
      t.value = some (String.ofList (pre.toList ++ '"' :: body)) ∧ t.line = s.line ∧ t.col = s.col ∧
      s'.rest = [] ∧
      s'.diags = s.diags ++ [mkDiag "UNEXPECTED_EOF_STR" .error
        [⟨s.line, s.col, some (pre.toList ++ '"' :: body).length, none⟩,
         ⟨s.line, s.col + (pre.toList ++ '"' :: body).length, some 1, some strHint⟩]] :=
  Norm.string_eof_reported u pre hp body hb s hr

/-- Non-vacuity: the hypotheses hold for `L'ab`, and the whole lexer agrees on `x = 'ab` + newline and `"abc`. -/
example : ("L" ∈ litPrefixes) ∧ (∀ c ∈ "ab".toList, OpaqueChar c ∧ c ≠ '\'') := by
  refine ⟨by decide, ?_⟩
  intro c hc
  have : c = 'a' ∨ c = 'b' := by simpa using hc
  rcases this with rfl | rfl <;> (unfold OpaqueChar plainChar; decide)
example : (lex {} "x = 'ab\ny = \"abc".toList).toOption.map
      (fun r => (r.tokens.map (fun t => (t.type, t.line, t.col)), r.diags.map (fun d => (d.name, d.highlights.map (fun h => (h.line, h.col))))))
    = some ([("IDENTIFIER", 1, 1), ("SPACE", 1, 2), ("ASSIGN", 1, 3), ("SPACE", 1, 4), ("CHAR_CONST", 1, 5), ("NEWLINE", 1, 8),
             ("IDENTIFIER", 2, 1), ("SPACE", 2, 2), ("ASSIGN", 2, 3), ("SPACE", 2, 4), ("STRING", 2, 5)],
            [("UNEXPECTED_EOL_CHR", [(1, 5), (1, 8)]), ("UNEXPECTED_EOF_STR", [(2, 5), (2, 9)])]) := by decide +kernel

/-! ### malformed floating constants (`Proofs/BadFloats.lean`) -/

/-- **Malformed family "exponent without digits"**: `D+ [eE][+-]?`, `D*.D+ [eE][+-]?`, `D+. [eE][+-]?` (digit strings
of any length, either letter, either sign or none, every floating suffix of the standard) where nothing follows that
could continue the exponent — `1e`, `1e+`, `1.5e-`, `.5E`, `1.e+f` —: one CONSTANT token spanning the whole text, and
exactly one diagnostic added, BAD_EXPONENT, highlighted from the exponent letter to the end of the constant. -/
theorem bad_exponent_reported (u : Uni) (k : BadExpFloat) (hk : k.WF) (rest : List Char) (hb : boundaryOK rest)
    (s : LexSt) (hr : s.rest = k.render ++ rest) :
    ∃ s' t, trySubLexers u s = .ok (some (s', t)) ∧ t.type = "CONSTANT" ∧
      t.value = some (String.ofList k.render) ∧ t.line = s.line ∧ t.col = s.col ∧
      s'.rest = rest ∧
      s'.diags = s.diags ++ [mkDiag "BAD_EXPONENT" .error
        [⟨s.line, s.col + k.mant.length, some (k.x.render.length + k.sfx.toList.length), none⟩]] :=
  Norm.bad_exponent_reported u k hk rest hb s hr

/-- Non-vacuity: `1.5e-` is a member, and the whole lexer reports it where the theorem says. -/
example : (BadExpFloat.frac "1".toList "5".toList ⟨'e', some '-'⟩ "").WF ∧
    (BadExpFloat.frac "1".toList "5".toList ⟨'e', some '-'⟩ "").render = "1.5e-".toList := by
  refine ⟨⟨Or.inl (by decide), by decide, by decide, ⟨Or.inl rfl, ?_⟩, by decide⟩, by decide⟩
  intro s hs; simp at hs; subst hs; exact Or.inr rfl
example : (lex {} "x = 1.5e-;".toList).toOption.map
      (fun r => (r.tokens.map (fun t => (t.type, t.col)), r.diags.map (fun d => (d.name, d.highlights.map (fun h => (h.line, h.col))))))
    = some ([("IDENTIFIER", 1), ("SPACE", 2), ("ASSIGN", 3), ("SPACE", 4), ("CONSTANT", 5), ("SEMI_COLON", 10)],
            [("BAD_EXPONENT", [(1, 8)])]) := by decide +kernel

/-- **Malformed family "several dots"**: `D*.D*` (at least one digit) directly followed by another dot and any run of
letters, digits, underscores and dots — `1.2.3`, `1..5`, `.5.`, `3.14.15f` —: one CONSTANT token spanning the whole
text, and exactly one diagnostic added, MULTIPLE_DOTS, highlighted from the second dot to the end of the token. -/
theorem multiple_dots_reported (u : Uni) (ip fp more : List Char) (hne : ip ≠ [] ∨ fp ≠ [])
    (hip : ∀ c ∈ ip, c ∈ decDigits) (hfp : ∀ c ∈ fp, c ∈ decDigits) (hmore : ∀ c ∈ more, c ∈ wordChars ∨ c = '.')
    (rest : List Char) (hb : boundaryOK rest) (s : LexSt) (hr : s.rest = ip ++ '.' :: fp ++ '.' :: more ++ rest) :
    ∃ s' t, trySubLexers u s = .ok (some (s', t)) ∧ t.type = "CONSTANT" ∧
      t.value = some (String.ofList (ip ++ '.' :: fp ++ '.' :: more)) ∧ t.line = s.line ∧ t.col = s.col ∧
      s'.rest = rest ∧
      s'.diags = s.diags ++ [mkDiag "MULTIPLE_DOTS" .error
        [⟨s.line, s.col + (ip ++ '.' :: fp).length, some ('.' :: more).length, none⟩]] :=
  Norm.multiple_dots_reported u ip fp more hne hip hfp hmore rest hb s hr

/-- Non-vacuity: `1.2.3` through the whole lexer. -/
example : (lex {} "x = 1.2.3;".toList).toOption.map
      (fun r => (r.tokens.map (fun t => (t.type, t.col)), r.diags.map (fun d => (d.name, d.highlights.map (fun h => (h.line, h.col))))))
    = some ([("IDENTIFIER", 1), ("SPACE", 2), ("ASSIGN", 3), ("SPACE", 4), ("CONSTANT", 5), ("SEMI_COLON", 10)],
            [("MULTIPLE_DOTS", [(1, 8)])]) := by decide +kernel

/-- **Malformed family "exponent without digits", hexadecimal**: `0[xX]`, a hexadecimal mantissa (digits on at least one
side of an optional dot), `[pP][+-]?` and `l`/`L` or nothing — `0x1p`, `0x1.8p+`, `0X.8P-l` —: one CONSTANT token and
exactly one diagnostic added, BAD_EXPONENT from the exponent letter to the end of the constant. (Before the repair
ed0ba8c in /repo such a constant was accepted silently; stating `hexfloat_valid` had exposed it.) -/
theorem bad_hex_exponent_reported (u : Uni) (k : BadHexFloat) (hk : k.WF) (rest : List Char) (hb : boundaryOK rest)
    (s : LexSt) (hr : s.rest = k.render ++ rest) :
    ∃ s' t, trySubLexers u s = .ok (some (s', t)) ∧ t.type = "CONSTANT" ∧
      t.value = some (String.ofList k.render) ∧ t.line = s.line ∧ t.col = s.col ∧
      s'.rest = rest ∧
      s'.diags = s.diags ++ [mkDiag "BAD_EXPONENT" .error
        [⟨s.line, s.col + ('0' :: k.x :: k.mant).length, some (k.exp.length + k.sfx.toList.length), none⟩]] :=
  Norm.bad_hex_exponent_reported u k hk rest hb s hr

/-- Non-vacuity: `0x1.8p+` is a member and the whole lexer reports it at the `p`. -/
example : (BadHexFloat.mk 'x' "1".toList (some "8".toList) 'p' (some '+') "").WF ∧
    (BadHexFloat.mk 'x' "1".toList (some "8".toList) 'p' (some '+') "").render = "0x1.8p+".toList := by
  refine ⟨⟨Or.inl rfl, by decide, ⟨by decide, Or.inl (by decide)⟩, Or.inl rfl, ?_, Or.inl rfl⟩, by decide⟩
  intro s hs; simp at hs; subst hs; exact Or.inl rfl
example : (lex {} "x = 0x1.8p+;".toList).toOption.map
      (fun r => (r.tokens.map (fun t => (t.type, t.col)), r.diags.map (fun d => (d.name, d.highlights.map (fun h => (h.line, h.col))))))
    = some ([("IDENTIFIER", 1), ("SPACE", 2), ("ASSIGN", 3), ("SPACE", 4), ("CONSTANT", 5), ("SEMI_COLON", 12)],
            [("BAD_EXPONENT", [(1, 10)])]) := by decide +kernel

/-- **Malformed family "several x"**: a well-formed hexadecimal floating constant with one or more further `x`/`X`
after its `0x` — `0xx1p3`, `0xX.8p-1f` —: one CONSTANT token spanning everything and exactly one diagnostic added,
MULTIPLE_X over the whole run of `x` (it starts one column after the `0`). -/
theorem multiple_x_reported (u : Uni) (k : HexFloat) (hk : k.WF) (extra : List Char) (hne : extra ≠ [])
    (hextra : ∀ c ∈ extra, c = 'x' ∨ c = 'X') (rest : List Char) (hb : boundaryOK rest)
    (s : LexSt) (hr : s.rest = multXRender k extra ++ rest) :
    ∃ s' t, trySubLexers u s = .ok (some (s', t)) ∧ t.type = "CONSTANT" ∧
      t.value = some (String.ofList (multXRender k extra)) ∧ t.line = s.line ∧ t.col = s.col ∧
      s'.rest = rest ∧
      s'.diags = s.diags ++ [mkDiag "MULTIPLE_X" .error [⟨s.line, s.col + 1, some (extra.length + 1), none⟩]] :=
  Norm.multiple_x_reported u k hk extra hne hextra rest hb s hr

/-- Non-vacuity: `0xX1p3` through the whole lexer. -/
example : (lex {} "y = 0xX1p3;".toList).toOption.map
      (fun r => (r.tokens.map (fun t => (t.type, t.col)), r.diags.map (fun d => (d.name, d.highlights.map (fun h => (h.line, h.col))))))
    = some ([("IDENTIFIER", 1), ("SPACE", 2), ("ASSIGN", 3), ("SPACE", 4), ("CONSTANT", 5), ("SEMI_COLON", 11)],
            [("MULTIPLE_X", [(1, 6)])]) := by decide +kernel

/-- **Malformed family "unknown suffix", floating constants**: a well-formed decimal floating constant whose suffix is
replaced by a suffix-shaped text (letters, digits, underscores, not starting with a digit or `e`/`E`) that the tool's
regenerated table does not hold — `1.5x`, `2e3ff`, `.5_t` —: one CONSTANT token spanning everything and exactly one
diagnostic added, BAD_FLOAT_SUFFIX on the suffix (`off` = where the suffix starts). The tool's table is a superset of the
standard's (`d`, `df`, `fi` …), so "unknown" is relative to that table. -/
theorem bad_float_suffix_reported (u : Uni) (k : DecFloat) (hk : k.BadSfx) (rest : List Char) (hb : boundaryOK rest)
    (s : LexSt) (hr : s.rest = k.render ++ rest) :
    ∃ s' t off, trySubLexers u s = .ok (some (s', t)) ∧ t.type = "CONSTANT" ∧
      t.value = some (String.ofList k.render) ∧ t.line = s.line ∧ t.col = s.col ∧ s'.rest = rest ∧
      off + k.sfxText.length = k.render.length ∧
      s'.diags = s.diags ++ [mkDiag "BAD_FLOAT_SUFFIX" .error [⟨s.line, s.col + off, some k.sfxText.length, none⟩]] :=
  Norm.bad_float_suffix_reported u k hk rest hb s hr

/-- Non-vacuity: `1.5x` is a member; the whole lexer reports it on the `x`. -/
example : (DecFloat.frac "1".toList "5".toList none "x").BadSfx := by
  refine ⟨Or.inl (by decide), by decide, by decide, (by intro y hy; cases hy), by decide, by decide⟩
example : (lex {} "y = 1.5x;".toList).toOption.map
      (fun r => (r.tokens.map (fun t => (t.type, t.col)), r.diags.map (fun d => (d.name, d.highlights.map (fun h => (h.line, h.col))))))
    = some ([("IDENTIFIER", 1), ("SPACE", 2), ("ASSIGN", 3), ("SPACE", 4), ("CONSTANT", 5), ("SEMI_COLON", 9)],
            [("BAD_FLOAT_SUFFIX", [(1, 8)])]) := by decide +kernel

end Norm.C11
