/-
C11 — C literals are classified as C defines them.
Spec/Literals.lean is written from C11 §6.4.4.1 (+ the extensions the property names); the
theorems say what the lexer model does with every constant of that grammar.
-/
import NormModel.Proofs.LiteralsLex
import NormModel.Proofs.CharString
import NormModel.Proofs.Floats
import NormModel.Proofs.CharEscapes
import NormModel.Proofs.HexFloats
import NormModel.Proofs.StringEscapes
namespace Norm.C11
open Norm Spec

/-- every suffix spelling of the specification is in the table regenerated from the source -/
theorem suffix_table_complete : ∀ s ∈ Spec.integerSuffixes, Generated.integerSuffixes.contains s = true := by
  decide +kernel

theorem render_word (k : IntConst) (hk : k.WF) : ∀ c ∈ k.render, c ∈ wordChars := by
  obtain ⟨hs, hbase⟩ := hk
  have hsuf := (suffix_tbl k.suffix hs).2.1
  have dsub : ∀ c ∈ decDigits, c ∈ wordChars := by decide
  have hsub : ∀ c ∈ hexDigits, c ∈ wordChars := by decide
  intro c hc
  unfold IntConst.render at hc
  rcases List.mem_append.mp hc with hc | hc
  · unfold IntConst.body at hc
    cases hb : k.base with
    | dec =>
      rw [hb] at hbase hc; simp only at hbase hc
      obtain ⟨d, ds, hd, hnz, hds⟩ := hbase
      rw [hd] at hc
      rcases List.mem_cons.mp hc with rfl | hc
      · exact dsub _ (nonzero_tbl _ hnz).1
      · exact dsub _ (by have := hds c hc; unfold isDec at this; simpa using this)
    | oct =>
      rw [hb] at hbase hc; simp only at hbase hc
      rcases List.mem_cons.mp hc with rfl | hc
      · decide
      · exact dsub _ (oct_tbl c (by have := hbase c hc; unfold isOct at this; simpa using this)).1
    | hex x =>
      rw [hb] at hbase hc; simp only at hbase hc
      obtain ⟨hx, _, hh⟩ := hbase
      rcases List.mem_cons.mp hc with rfl | hc
      · decide
      · rcases List.mem_cons.mp hc with rfl | hc
        · rcases hx with rfl | rfl <;> decide
        · exact hsub _ (by have := hh c hc; unfold isHex at this; simpa using this)
    | bin b =>
      rw [hb] at hbase hc; simp only at hbase hc
      obtain ⟨hbb, _, hh⟩ := hbase
      rcases List.mem_cons.mp hc with rfl | hc
      · decide
      · rcases List.mem_cons.mp hc with rfl | hc
        · rcases hbb with rfl | rfl <;> decide
        · exact dsub _ (bin_tbl c (by have := hh c hc; unfold isBin at this; simpa using this)).1
  · exact hsuf c hc

/-- **A valid integer constant becomes one token spanning the whole constant, with no lexical
diagnostic** — for every base, every digit string of any length, every suffix of the table,
at any position of any file, whatever follows (within `boundaryOK`): the sub-lexer chain of
`get_next_token` returns a `CONSTANT` whose text is exactly the constant, leaves the
continuation unread and adds no diagnostic. -/
theorem int_valid (u : Uni) (k : IntConst) (hk : k.WF) (rest : List Char) (hb : boundaryOK rest)
    (s : LexSt) (hr : s.rest = k.render ++ rest) :
    ∃ s' t, trySubLexers u s = .ok (some (s', t)) ∧ t.type = "CONSTANT" ∧
      t.value = some (String.ofList k.render) ∧ t.line = s.line ∧ t.col = s.col ∧
      s'.rest = rest ∧ s'.diags = s.diags := by
  obtain ⟨m, hm, hsplit, _, hdiag⟩ := matchInt_valid u k hk rest hb
  have hfl := floatLogic_int_noMatch u k hk rest hb s.line s.col
  have hplain : ∀ c ∈ k.render, plainChar c := by
    intro c hc
    obtain ⟨a, b, c', d, e, _⟩ := word_plain c (render_word k hk c hc)
    exact ⟨a, b, c', d, e⟩
  obtain ⟨p1, p2, p3⟩ := popN_plain k.render rest s hr hplain
  have hlen : m.pre.length + m.const.length + m.suf.length = k.render.length := by
    rw [← hsplit]; simp; omega
  have hpf : parseFloat u s = none := by
    unfold parseFloat
    rw [hr, hfl]
    split <;> rfl
  have hpi : parseInt u s = some ((popN k.render.length s).1,
      mkTok "CONSTANT" s (popN k.render.length s).1 (some k.render)) := by
    unfold parseInt
    rw [hr, hm]
    simp only [hlen]
    cases hpn : popN k.render.length s with
    | mk s2 r2 =>
      rw [hpn] at p1
      simp only at p1
      subst p1
      simp only [hdiag, List.append_nil]
      try (cases s2; rfl)
  refine ⟨(popN k.render.length s).1, mkTok "CONSTANT" s (popN k.render.length s).1 (some k.render),
    ?_, rfl, rfl, rfl, rfl, p2, p3⟩
  unfold trySubLexers
  rw [hpf, hpi]

/-- every floating suffix of the standard is in the table regenerated from the source -/
theorem float_suffix_table_complete : ∀ s ∈ Spec.floatSuffixes, Generated.floatSuffixes.contains s = true := by
  decide

/-- **A well-formed decimal floating constant** — `D+ Exp`, `D* . D+ Exp?` or `D+ . Exp?` with digit
strings of any length, either exponent letter, either sign or none, every suffix of the standard —
**becomes one CONSTANT token spanning exactly the constant, with no lexical diagnostic**, at any
position, whatever follows (within `boundaryOK`). -/
theorem float_valid (u : Uni) (k : DecFloat) (hk : k.WF) (rest : List Char) (hb : boundaryOK rest)
    (s : LexSt) (hr : s.rest = k.render ++ rest) :
    ∃ s' t, trySubLexers u s = .ok (some (s', t)) ∧ t.type = "CONSTANT" ∧
      t.value = some (String.ofList k.render) ∧ t.line = s.line ∧ t.col = s.col ∧
      s'.rest = rest ∧ s'.diags = s.diags :=
  Norm.float_valid u k hk rest hb s hr

/-- Non-vacuity: `1.5e-3f`, `.25`, `10.`, `6E23L`. -/
example : DecFloat.WF (.frac "1".toList "5".toList (some ⟨'e', some '-', "3".toList⟩) "f") ∧
    DecFloat.WF (.frac [] "25".toList none "") ∧ DecFloat.WF (.frac "10".toList [] none "") ∧
    DecFloat.WF (.exp "6".toList ⟨'E', none, "23".toList⟩ "L") ∧
    DecFloat.render (.frac "1".toList "5".toList (some ⟨'e', some '-', "3".toList⟩) "f") = "1.5e-3f".toList := by
  refine ⟨?_, ?_, ?_, ?_, by decide⟩
  · refine ⟨Or.inl (by decide), by decide, by decide, ?_, by decide⟩
    intro y hy
    simp only [Option.some.injEq] at hy
    subst hy
    exact ⟨Or.inl rfl, (by intro s hs; simp at hs; subst hs; exact Or.inr rfl), by decide, by decide⟩
  · exact ⟨Or.inr (by decide), by decide, by decide, (by intro y hy; cases hy), by decide⟩
  · exact ⟨Or.inl (by decide), by decide, by decide, (by intro y hy; cases hy), by decide⟩
  · exact ⟨by decide, by decide, ⟨Or.inr rfl, (by intro s hs; cases hs), by decide, by decide⟩, by decide⟩

/-- **A well-formed hexadecimal floating constant** — `0x`/`0X`, `H+`, `H+.`, `H*.H+`, the mandatory binary exponent
`[pP][+-]?D+`, every suffix of the standard (an `f`/`F` suffix is itself a hexadecimal digit: the code reads it into the
exponent group, the token is the same) — **becomes one CONSTANT token spanning exactly the constant, with no lexical
diagnostic**, at any position, whatever follows (within `boundaryOK`). -/
theorem hexfloat_valid (u : Uni) (k : HexFloat) (hk : k.WF) (rest : List Char) (hb : boundaryOK rest)
    (s : LexSt) (hr : s.rest = k.render ++ rest) :
    ∃ s' t, trySubLexers u s = .ok (some (s', t)) ∧ t.type = "CONSTANT" ∧
      t.value = some (String.ofList k.render) ∧ t.line = s.line ∧ t.col = s.col ∧
      s'.rest = rest ∧ s'.diags = s.diags :=
  Norm.hexfloat_valid u k hk rest hb s hr

/-- Non-vacuity: `0x1.8p-3f`, `0X.fP2`, `0xAp10L`; and the malformed sibling `0x1p` gets BAD_EXPONENT (ed0ba8c). -/
example : HexFloat.WF ⟨'x', "1".toList, some "8".toList, ⟨'p', some '-', "3".toList⟩, "f"⟩ ∧
    HexFloat.WF ⟨'X', [], some "f".toList, ⟨'P', none, "2".toList⟩, ""⟩ ∧
    HexFloat.WF ⟨'x', "A".toList, none, ⟨'p', none, "10".toList⟩, "L"⟩ ∧
    HexFloat.render ⟨'x', "1".toList, some "8".toList, ⟨'p', some '-', "3".toList⟩, "f"⟩ = "0x1.8p-3f".toList ∧
    ((lex {} "0x1p".toList).toOption.map (fun r => r.diags.map (·.name))) = some ["BAD_EXPONENT"] := by
  refine ⟨⟨Or.inl rfl, by decide, ⟨by decide, Or.inl (by decide)⟩, ⟨Or.inl rfl, ?_, by decide, by decide⟩, by decide⟩,
    ⟨Or.inr rfl, by decide, ⟨by decide, Or.inr (by decide)⟩, ⟨Or.inr rfl, ?_, by decide, by decide⟩, by decide⟩,
    ⟨Or.inl rfl, by decide, (by show "A".toList ≠ []; decide), ⟨Or.inl rfl, ?_, by decide, by decide⟩, by decide⟩, by decide, by decide +kernel⟩
  · intro s hs; simp at hs; subst hs; exact Or.inr rfl
  · intro s hs; cases hs
  · intro s hs; cases hs

/-- **A character constant `pre ' c '`** (pre ∈ {"", L, u, U, u8}; c any character other than the
quote, the backslash, newline and tab) **becomes one CHAR_CONST token spanning exactly the
constant, with no lexical diagnostic**, at any position, whatever follows. -/
theorem char_valid (u : Uni) (pre : String) (hp : pre ∈ litPrefixes) (c : Char)
    (hc : c ≠ '\'' ∧ c ≠ '\\' ∧ c ≠ '\n' ∧ c ≠ '\t') (rest : List Char) (s : LexSt)
    (hr : s.rest = pre.toList ++ '\'' :: c :: '\'' :: rest) :
    ∃ s' t, trySubLexers u s = .ok (some (s', t)) ∧ t.type = "CHAR_CONST" ∧
      t.value = some (String.ofList (pre.toList ++ ['\'', c, '\''])) ∧ t.line = s.line ∧ t.col = s.col ∧
      s'.rest = rest ∧ s'.diags = s.diags :=
  Norm.char_valid u pre hp c hc rest s hr

/-- … and likewise when the character is a simple escape sequence (`\n \t \\ \' \" \? \a \b \e \f \r \v`). -/
theorem char_escape_valid (u : Uni) (pre : String) (hp : pre ∈ litPrefixes) (e : Char)
    (he : simpleEscapes.contains e = true) (rest : List Char) (s : LexSt)
    (hr : s.rest = pre.toList ++ '\'' :: '\\' :: e :: '\'' :: rest) :
    ∃ s' t, trySubLexers u s = .ok (some (s', t)) ∧ t.type = "CHAR_CONST" ∧
      t.value = some (String.ofList (pre.toList ++ ['\'', '\\', e, '\''])) ∧ t.line = s.line ∧ t.col = s.col ∧
      s'.rest = rest ∧ s'.diags = s.diags :=
  Norm.char_escape_valid u pre hp e he rest s hr

/-- … an **octal escape sequence** (`'\0'`, `'\12'`, `'\177'`): one CHAR_CONST token spanning exactly the constant, no
lexical diagnostic. (Like the code, the statement takes every octal digit that follows; C takes three at most and reads
a fourth one as a second character.) -/
theorem char_octal_valid (u : Uni) (pre : String) (hp : pre ∈ litPrefixes) (ds : List Char) (hne : ds ≠ [])
    (hd : ∀ c ∈ ds, isOctal c = true) (rest : List Char) (s : LexSt)
    (hr : s.rest = pre.toList ++ '\'' :: '\\' :: (ds ++ '\'' :: rest)) :
    ∃ s' t, trySubLexers u s = .ok (some (s', t)) ∧ t.type = "CHAR_CONST" ∧
      t.value = some (String.ofList (pre.toList ++ '\'' :: '\\' :: (ds ++ ['\'']))) ∧ t.line = s.line ∧ t.col = s.col ∧
      s'.rest = rest ∧ s'.diags = s.diags :=
  Norm.char_octal_valid u pre hp ds hne hd rest s hr

/-- … a **hexadecimal escape sequence with any number of digits** (`'\x41'`, `'\x041'`, `L'\x1234'`): one CHAR_CONST
token spanning exactly the constant, no lexical diagnostic. (The pinned code took two digits at most: 6443d9c.) -/
theorem char_hex_valid (u : Uni) (pre : String) (hp : pre ∈ litPrefixes) (ds : List Char) (hne : ds ≠ [])
    (hd : ∀ c ∈ ds, isHexDigit c = true) (rest : List Char) (s : LexSt)
    (hr : s.rest = pre.toList ++ '\'' :: '\\' :: ('x' :: ds ++ '\'' :: rest)) :
    ∃ s' t, trySubLexers u s = .ok (some (s', t)) ∧ t.type = "CHAR_CONST" ∧
      t.value = some (String.ofList (pre.toList ++ '\'' :: '\\' :: ('x' :: ds ++ ['\'']))) ∧ t.line = s.line ∧ t.col = s.col ∧
      s'.rest = rest ∧ s'.diags = s.diags :=
  Norm.char_hex_valid u pre hp ds hne hd rest s hr

/-- Non-vacuity: the digits of `\x041` and `\177`. -/
example : (∀ c ∈ "041".toList, isHexDigit c = true) ∧ (∀ c ∈ "177".toList, isOctal c = true) ∧
    ((lex {} "L'\\x1234' '\\x041'".toList).toOption.map (fun r => (r.tokens.map (·.type), r.diags.length))) =
      some (["CHAR_CONST", "SPACE", "CHAR_CONST"], 0) := by
  decide +kernel

/-- **A string literal `pre " body "`** whose body (of any length) consists of characters other than
the quote, the backslash, newline, tab and the digraph/trigraph starters **becomes one STRING
token spanning exactly the literal, with no lexical diagnostic**, at any position, whatever follows. -/
theorem string_valid (u : Uni) (pre : String) (hp : pre ∈ litPrefixes) (body : List Char)
    (hb : ∀ c ∈ body, OpaqueChar c ∧ c ≠ '"') (rest : List Char) (s : LexSt)
    (hr : s.rest = pre.toList ++ '"' :: (body ++ '"' :: rest)) :
    ∃ s' t, trySubLexers u s = .ok (some (s', t)) ∧ t.type = "STRING" ∧
      t.value = some (String.ofList (pre.toList ++ '"' :: (body ++ ['"']))) ∧ t.line = s.line ∧ t.col = s.col ∧
      s'.rest = rest ∧ s'.diags = s.diags :=
  Norm.string_valid u pre hp body hb rest s hr

/-- **A string literal whose body mixes plain characters and escape sequences** (`SUnit`: plain character, simple
escape other than `\?`, octal escape, hexadecimal escape with any number of digits; an octal/hexadecimal escape is
not directly followed by a digit of its class) **becomes one STRING token spanning exactly the literal, with no lexical
diagnostic** — any number of elements, every encoding prefix, at any position, whatever follows. -/
theorem string_units_valid (u : Uni) (pre : String) (hp : pre ∈ litPrefixes) (xs : List SUnit) (hxs : UnitsOK xs)
    (rest : List Char) (s : LexSt) (hr : s.rest = pre.toList ++ '"' :: (renderAll xs ++ '"' :: rest)) :
    ∃ s' t, trySubLexers u s = .ok (some (s', t)) ∧ t.type = "STRING" ∧
      t.value = some (String.ofList (pre.toList ++ '"' :: (renderAll xs ++ ['"']))) ∧ t.line = s.line ∧ t.col = s.col ∧
      s'.rest = rest ∧ s'.diags = s.diags :=
  Norm.string_units_valid u pre hp xs hxs rest s hr

/-- Non-vacuity: the body of `"a\tb\101z\x41;"`. -/
example : renderAll [.plain 'a', .simple 't', .plain 'b', .octal "101".toList, .plain 'z', .hex "41".toList, .plain ';'] =
      "a\\tb\\101z\\x41;".toList ∧
    UnitsOK [.plain 'a', .simple 't', .plain 'b', .octal "101".toList, .plain 'z', .hex "41".toList, .plain ';'] := by
  refine ⟨by decide, ?_⟩
  refine ⟨⟨?_, by decide⟩, ⟨by decide, by decide⟩, ⟨?_, by decide⟩, ⟨by decide, by decide, by decide⟩, ⟨?_, by decide⟩,
    ⟨by decide, by decide, by decide⟩, ⟨?_, by decide⟩, trivial⟩ <;> (unfold OpaqueChar plainChar; decide)

/-- Non-vacuity: `L'x'`, `'\n'`, `u8"hi there"`. -/
example : ("L" ∈ litPrefixes) ∧ ("u8" ∈ litPrefixes) ∧ simpleEscapes.contains 'n' = true ∧
    (∀ c ∈ "hi there".toList, OpaqueChar c ∧ c ≠ '"') := by
  refine ⟨by decide, by decide, by decide, ?_⟩
  intro c hc
  simp at hc
  rcases hc with rfl | rfl | rfl | rfl | rfl | rfl | rfl | rfl <;> (unfold OpaqueChar plainChar; decide)

/-- Non-vacuity and the former defect: `0xb3ba`, binary, octal zero, all-caps suffix. -/
example : IntConst.WF ⟨.hex 'x', "b3ba".toList, "UL"⟩ ∧ IntConst.WF ⟨.bin 'B', "101".toList, ""⟩ ∧
    IntConst.WF ⟨.oct, [], "u"⟩ ∧ IntConst.WF ⟨.dec, "42".toList, "i64U"⟩ := by
  refine ⟨⟨by decide, by decide, by decide, by decide⟩, ⟨by decide, by decide, by decide, by decide⟩,
    ⟨by decide, by decide⟩, ⟨by decide, '4', ['2'], rfl, by decide, by decide⟩⟩

/-- Malformed families (closed witnesses; the families themselves are compared with the
implementation by the `literal` correspondence): digit not allowed in its base, unknown
suffix, sign glued to an `e`-ending hex constant, exponent without digits, several dots. -/
example : ((lex {} "089".toList).toOption.map (fun r => r.diags.map (·.name))) = some ["INVALID_OCT_INT"] ∧
    ((lex {} "0b102".toList).toOption.map (fun r => r.diags.map (·.name))) = some ["INVALID_BIN_INT"] ∧
    ((lex {} "10uu".toList).toOption.map (fun r => r.diags.map (·.name))) = some ["INVALID_SUFFIX"] ∧
    ((lex {} "0x1e+3".toList).toOption.map (fun r => r.diags.map (·.name))) = some ["MAXIMAL_MUNCH"] ∧
    ((lex {} "1e+".toList).toOption.map (fun r => r.diags.map (·.name))) = some ["BAD_EXPONENT"] ∧
    ((lex {} "1.2.3".toList).toOption.map (fun r => r.diags.map (·.name))) = some ["MULTIPLE_DOTS"] ∧
    ((lex {} "''".toList).toOption.map (fun r => r.diags.map (·.name))) = some ["EMPTY_CHAR"] := by
  decide +kernel

end Norm.C11
