"""Shared machinery of every check: build + audit of the Lean side, the driver process,
result accounting, replays, known findings, evidence."""
import os
import sys
import json
import time
import fcntl
import hashlib
import random
import subprocess
import contextlib

HERE = os.path.dirname(os.path.abspath(__file__))
VERIF = os.path.dirname(HERE)
LEAN = os.path.join(VERIF, "lean")
REPO = os.path.realpath(os.environ.get("VERIF_REPO", "/repo"))
PY = "/venv/bin/python"
DRIVER = os.path.join(LEAN, ".lake", "build", "bin", "driver")
ALLOWED_AXIOMS = {"propext", "Classical.choice", "Quot.sound"}

TRUSTED_BASE = [
    "T0 Lean 4.33.0 kernel; axioms allowed: propext, Classical.choice, Quot.sound (audited each run; no native_decide, bv_decide, sorry, own axioms)",
    "T1 harness/gen_tables.py and harness/facts.py: faithful printing of imported Python objects / syntactic facts as Lean literals",
    "T2 correspondence harness, canonicalisation of outputs, generators (quality bounds what the correspondence sees)",
    "T4 Model/*.lean is a hand transcription of the Python code, validated behaviourally, not verified",
]


class Infra(Exception):
    """Infrastructure failure: exit 2, never a violation."""


def ensure_repo():
    sys.path.insert(0, REPO) if REPO not in sys.path else None
    import norminette
    root = os.path.realpath(os.path.dirname(os.path.dirname(norminette.__file__)))
    if root != REPO:
        raise Infra(f"norminette imported from {root}, not from {REPO}")


@contextlib.contextmanager
def locked(name):
    d = os.path.join(VERIF, ".locks")
    os.makedirs(d, exist_ok=True)
    with open(os.path.join(d, name), "w") as f:
        fcntl.flock(f, fcntl.LOCK_EX)
        try:
            yield
        finally:
            fcntl.flock(f, fcntl.LOCK_UN)


def run(cmd, **kw):
    return subprocess.run(cmd, stdout=subprocess.PIPE, stderr=subprocess.STDOUT, text=True, **kw)


class BuildResult:
    def __init__(self):
        self.ok = True
        self.log = ""
        self.broken = []        # names of modules / theorems that no longer check
        self.theorems = []      # property theorems found in Properties/Cxx.lean
        self.axioms = {}        # theorem -> list of axioms
        self.audit_problems = []
        self.checker_cmd = ""
        self.tables_changed = []


def property_theorems(pid):
    """Names of `theorem`s declared in Properties/<pid>.lean (statement file)."""
    import re
    path = os.path.join(LEAN, "NormModel", "Properties", f"{pid}.lean")
    if not os.path.exists(path):
        return []
    src = open(path).read()
    src = re.sub(r"/-.*?-/", "", src, flags=re.S)
    src = re.sub(r"--.*", "", src)
    ns = re.findall(r"^namespace\s+(\S+)", src, flags=re.M)
    prefix = (ns[0] + ".") if ns else ""
    return [prefix + m for m in re.findall(r"^\s*(?:protected\s+)?theorem\s+([A-Za-z0-9_'.]+)", src, flags=re.M)]


def grep_forbidden(pid):
    """Source audit: sorry/admit/axiom/native_decide/... outside comments, in every file the
    property module can depend on (the whole NormModel tree)."""
    import re
    bad = []
    pat = re.compile(r"\b(sorry|admit|native_decide|bv_decide|implemented_by|maxHeartbeats\s+0)\b|^\s*axiom\s|\bunsafe\s")
    for root, _, files in os.walk(os.path.join(LEAN, "NormModel")):
        for fn in files:
            if not fn.endswith(".lean"):
                continue
            p = os.path.join(root, fn)
            src = open(p).read()
            src = re.sub(r"/-.*?-/", lambda m: "\n" * m.group(0).count("\n"), src, flags=re.S)
            for i, line in enumerate(src.split("\n"), 1):
                line = re.sub(r"--.*", "", line)
                line = re.sub(r'"(?:[^"\\]|\\.)*"', '""', line)
                if pat.search(line):
                    bad.append(f"{os.path.relpath(p, LEAN)}:{i}: {line.strip()[:80]}")
    return bad


def build(pid, thorough=False):
    """Regenerate the tables from /repo, build the model, the property module, the audit and
    the driver.  Returns a BuildResult; raises Infra when the toolchain itself is unusable."""
    import re
    br = BuildResult()
    t0 = time.time()
    with locked("lake"):
        g = run([PY, os.path.join(HERE, "gen_tables.py")], env={**os.environ, "PYTHONPATH": REPO})
        if g.returncode == 2:
            raise Infra("gen_tables: " + g.stdout)
        if g.returncode != 0:
            # a table can no longer be produced from the source: broken tie, not infra
            br.ok = False
            br.log = g.stdout
            br.broken.append("gen_tables:" + g.stdout.strip().split("\n")[-1][:200])
            return br
        try:
            br.tables_changed = json.loads(g.stdout.strip().split("\n")[-1]).get("changed", [])
        except Exception:
            pass
        # Audit/<pid>.lean is regenerated from the theorem names found in Properties/<pid>.lean
        ths = property_theorems(pid)
        audit = f"import NormModel.Properties.{pid}\n" + "".join(f"#print axioms {t}\n" for t in ths)
        from gen_tables import write_if_changed
        os.makedirs(os.path.join(LEAN, "NormModel", "Audit"), exist_ok=True)
        write_if_changed(os.path.join(LEAN, "NormModel", "Audit", f"{pid}.lean"), audit)
        targets = ["driver", f"NormModel.Properties.{pid}", f"NormModel.Audit.{pid}"]
        br.checker_cmd = "cd lean && lake build " + " ".join(targets)
        try:
            r = run(["lake", "build"] + targets, cwd=LEAN, timeout=3000)
        except FileNotFoundError:
            raise Infra("lake not found")
        except subprocess.TimeoutExpired:
            raise Infra("lake build timed out")
        br.log = r.stdout
        if r.returncode != 0:
            errs = re.findall(r"^error: (\S+?\.lean):(\d+):\d+: (.*)$", r.stdout, flags=re.M)
            if not errs and "error" not in r.stdout:
                raise Infra("lake build failed without a Lean error:\n" + r.stdout[-2000:])
            br.ok = False
            for f, ln, msg in errs[:20]:
                br.broken.append(f"{f}:{ln}: {msg[:160]}")
            if not errs:
                br.broken.append(r.stdout[-400:])
            return br
        # axiom audit: Audit/<pid>.lean prints `#print axioms` for every property theorem
        a = run(["lake", "env", "lean", os.path.join("NormModel", "Audit", f"{pid}.lean")], cwd=LEAN, timeout=1800)
        if a.returncode != 0:
            br.ok = False
            br.broken.append("audit: " + a.stdout[-400:])
            return br
        cur = None
        text = a.stdout.replace("\n  ", " ")
        for m in re.finditer(r"'([^']+)' (depends on axioms: \[([^\]]*)\]|does not depend on any axioms)", text):
            name = m.group(1)
            axs = [x.strip() for x in (m.group(3) or "").split(",") if x.strip()]
            br.axioms[name] = axs
            extra = [x for x in axs if x not in ALLOWED_AXIOMS]
            if extra:
                br.audit_problems.append(f"{name}: axioms {extra}")
        br.theorems = property_theorems(pid)
        missing = [t for t in br.theorems if t not in br.axioms]
        if missing:
            br.audit_problems.append("not audited: " + ", ".join(missing))
        bad = grep_forbidden(pid)
        if bad:
            br.audit_problems.append("forbidden tokens: " + "; ".join(bad[:5]))
        if thorough:
            mods = [f"NormModel.Properties.{pid}"]
            c = run(["lake", "env", "leanchecker"] + mods, cwd=LEAN, timeout=3000)
            br.checker_cmd += " && lake env leanchecker " + " ".join(mods)
            if c.returncode != 0:
                br.ok = False
                br.broken.append("leanchecker: " + c.stdout[-400:])
    br.build_s = time.time() - t0
    return br


class Driver:
    """Batch interface to the compiled model driver."""

    def __init__(self):
        if not os.path.exists(DRIVER):
            raise Infra("driver not built")

    def batch(self, reqs, chunk=20000):
        out = []
        for i in range(0, len(reqs), chunk):
            data = "\n".join(json.dumps(r, separators=(",", ":")) for r in reqs[i:i + chunk]) + "\n"
            p = subprocess.run([DRIVER], input=data, stdout=subprocess.PIPE, stderr=subprocess.PIPE, text=True)
            if p.returncode != 0:
                raise Infra("driver failed: " + p.stderr[-500:])
            lines = p.stdout.split("\n")
            if lines and lines[-1] == "":
                lines.pop()
            if len(lines) != len(reqs[i:i + chunk]):
                raise Infra(f"driver returned {len(lines)} replies for {len(reqs[i:i+chunk])} requests: {p.stderr[-300:]}")
            out.extend(json.loads(x) for x in lines)
        return out


class LiveDriver:
    """A persistent driver process: one request, one reply."""

    def __init__(self):
        if not os.path.exists(DRIVER):
            raise Infra("driver not built")
        self.p = subprocess.Popen([DRIVER], stdin=subprocess.PIPE, stdout=subprocess.PIPE, text=True, bufsize=1)

    def ask(self, req):
        self.p.stdin.write(json.dumps(req, separators=(",", ":")) + "\n")
        self.p.stdin.flush()
        line = self.p.stdout.readline()
        if not line:
            raise Infra("driver died")
        return json.loads(line)

    def close(self):
        try:
            self.p.stdin.close()
            self.p.wait(timeout=5)
        except Exception:
            self.p.kill()


def cps(s):
    return [ord(c) for c in s]


def uncps(a):
    return None if a is None else "".join(chr(x) for x in a)


class Findings:
    def __init__(self):
        p = os.path.join(VERIF, "known_findings.json")
        self.data = json.load(open(p)) if os.path.exists(p) else {"known": [], "fixed": []}

    def known_for(self, pid):
        return [k for k in self.data.get("known", []) if k["property"] == pid]

    def match(self, pid, signature):
        for k in self.known_for(pid):
            if k["signature"] == signature:
                return k
        return None


class Result:
    """Accumulates what a run covered and what it found."""

    def __init__(self, pid, tier, seed):
        self.pid, self.tier, self.seed = pid, tier, seed
        self.t0 = time.time()
        self.evaluations = 0
        self.nontrivial = set()
        self.samples = []
        self.violations = []       # (signature, description, replay dict)
        self.known_hits = {}       # signature -> description
        self.streams = {}          # stream name -> dict of counters
        self.traces_validated = 0
        self.notes = []
        self.findings = Findings()
        self.broken = []           # broken obligations / correspondences
        self.rng = random.Random(seed)

    def count(self, stream, n=1, **kw):
        s = self.streams.setdefault(stream, {"n": 0})
        s["n"] += n
        for k, v in kw.items():
            s[k] = s.get(k, 0) + v
        self.evaluations += n

    def nontriv(self, key):
        self.nontrivial.add(hashlib.sha1(repr(key).encode()).hexdigest()[:16])

    def sample(self, x, cap=12):
        if len(self.samples) < cap:
            self.samples.append(x)

    def report(self, signature, desc, replay):
        """A property failure observed on the implementation (or a broken tie).  Suppressed
        only when its signature is listed in known_findings.json."""
        k = self.findings.match(self.pid, signature)
        if k is not None:
            self.known_hits.setdefault(signature, k.get("what", desc))
            return False
        if len(self.violations) < 50:
            self.violations.append((signature, desc, replay))
        return True


def write_replay(pid, replay):
    d = os.path.join(VERIF, "replays")
    os.makedirs(d, exist_ok=True)
    blob = json.dumps(replay, sort_keys=True, default=str)
    h = hashlib.sha1(blob.encode()).hexdigest()[:12]
    p = os.path.join(d, f"{pid}-{h}.json")
    with open(p, "w") as f:
        json.dump(replay, f, indent=1, default=str)
    return os.path.relpath(p, VERIF)


def write_evidence(res: Result, br: BuildResult, level_note, partial, extra=None):
    theorems = (br.theorems if br else []) or property_theorems(res.pid)
    if br and br.ok and not theorems:
        raise Infra(f"no theorem found in Properties/{res.pid}.lean")
    discharged = [t for t in theorems if t in (br.axioms if br else {}) and
                  all(a in ALLOWED_AXIOMS for a in br.axioms[t])] if (br and br.ok and not br.audit_problems) else []
    cov = {
        "obligations": len(theorems),
        "discharged": len(discharged),
        "checker_cmd": br.checker_cmd if br else "",
        "trusted_base": TRUSTED_BASE + level_note,
        "theorems": theorems,
        "axioms": {t: br.axioms.get(t, []) for t in theorems} if br else {},
        "partial_theorems": partial,
        "evaluations": res.evaluations,
        "distinct_nontrivial": len(res.nontrivial),
        "rule": "see streams: each stream names its generator; a case is non-trivial per the stream's own rule and counted by hash of its canonical input",
        "samples": res.samples[:12] or ["(no sample)"],
        "traces_validated_against_impl": res.traces_validated,
        "streams": res.streams,
        "tables_regenerated_changed": br.tables_changed if br else [],
        "known_findings_reproduced": sorted(res.known_hits),
        "broken": res.broken,
        "notes": res.notes,
    }
    if extra:
        cov.update(extra)
    ev = {
        "property_id": res.pid,
        "tier": res.tier,
        "seed": res.seed,
        "level": "proof",
        "coverage": cov,
        "assumptions": level_note,
        "wall_s": round(time.time() - res.t0, 2),
        "violations": len(res.violations),
    }
    d = os.path.join(VERIF, "evidence")
    os.makedirs(d, exist_ok=True)
    tmp = os.path.join(d, f".{res.pid}.json.tmp")
    with open(tmp, "w") as f:
        json.dump(ev, f, indent=1, default=str)
    os.replace(tmp, os.path.join(d, f"{res.pid}.json"))


def finish(res: Result, br, level_note, partial, extra=None):
    """Print KNOWN-FINDING / VIOLATION lines, write evidence, return the exit code."""
    write_evidence(res, br, level_note, partial, extra)
    for sig, what in sorted(res.known_hits.items()):
        print(f"KNOWN-FINDING: property={res.pid} {sig}: {what}")
    if not res.violations:
        print(f"OK property={res.pid} tier={res.tier} seed={res.seed} evaluations={res.evaluations} "
              f"nontrivial={len(res.nontrivial)} wall={time.time()-res.t0:.1f}s")
        return 0
    # one VIOLATION line per distinct signature
    seen = set()
    for sig, desc, replay in res.violations:
        if sig in seen:
            continue
        seen.add(sig)
        replay = dict(replay)
        replay.update({"property": res.pid, "signature": sig, "description": desc, "seed": res.seed, "tier": res.tier})
        path = write_replay(res.pid, replay)
        tail = " no-failing-input-found" if replay.get("no_failing_input_found") else ""
        print(f"VIOLATION property={res.pid} replay={path}{tail}")
        print(f"  {sig}: {desc}"[:400])
    return 1
