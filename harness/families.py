"""Input families shared by the pipeline-level properties: conforming programs (gen/grammar),
single-violation variants (gen/mutate), the repository's own samples, and the four file
classes of C04."""
import os
import glob
import random

from core import REPO
from gen import grammar, mutate, header


def programs(rng, n, kinds=("c", "c", "h"), **kw):
    out = []
    for _ in range(n):
        k = rng.choice(kinds)
        out.append(grammar.gen_program(random.Random(rng.getrandbits(48)), kind=k, **kw))
    return out


def violating(rng, progs, per_prog=2):
    """(program, operator, site, text, line) tuples"""
    out = []
    for p in progs:
        ops = [o for o in mutate.OPERATORS]
        rng.shuffle(ops)
        got = 0
        for op in ops:
            try:
                sites = op.sites(p)
            except Exception:
                sites = []
            if not sites:
                continue
            site = rng.choice(sites)
            try:
                text, line = op.apply(p, site)
            except Exception:
                continue
            out.append((p, op, site, text, line))
            got += 1
            if got >= per_prog:
                break
    return out


def repo_samples():
    out = []
    for f in sorted(glob.glob(os.path.join(REPO, "tests", "rules", "samples", "*.[ch]"))):
        try:
            out.append((os.path.basename(f), open(f).read()))
        except Exception:
            pass
    return out


# what a half-typed or damaged token looks like: lone delimiters, open literals and comments, foreign characters
LEXICAL_DAMAGE = ["'", "'a", "'\\", "\"", "\"abc", "\"a\\", "/* open", "@", "`", "\\", "0x", "1e+", "''", "'ab'", "\f", "\r", "??/", "#"]


def damaged(rng, hosts, per_host=6):
    """(name, text, what): a piece of LEXICAL_DAMAGE put at the end of one line (or in the middle of one)
    of a host program, the host's last line carrying a diagnostic of its own (a blank before the final newline)"""
    out = []
    for name, text in hosts:
        lines = text.rstrip("\n").split("\n")
        if len(lines) < 3:
            continue
        for _ in range(per_host):
            dmg = rng.choice(LEXICAL_DAMAGE)
            k = rng.randrange(0, len(lines) - 1)
            ls = list(lines)
            if rng.random() < 0.5 or not ls[k]:
                ls[k] = ls[k] + (" " if ls[k] and rng.random() < 0.5 else "") + dmg
            else:
                c = rng.randrange(len(ls[k]))
                ls[k] = ls[k][:c] + dmg + ls[k][c:]
            ls[-1] = ls[-1] + " "
            out.append((name, "\n".join(ls) + "\n", f"{dmg!r}@line{k + 1}"))
    return out


# characters that str.splitlines() / str.isspace() treat as line or space, and that are ordinary characters to a C lexer
PAGE_BREAKS = ["\f", "\v", "\x1c", "\x1d", "\x1e", "\x85", "\u2028", "\u2029"]


def damaged_tail(rng, hosts, per_host=2):
    """(name, text, what): comments holding such characters, and an over-long comment line after them, at the END of a
    host program (so that a line counted once too often falls outside the file)"""
    out = []
    for name, text in hosts:
        for _ in range(per_host):
            brk = [rng.choice(PAGE_BREAKS) for _ in range(rng.randint(1, 4))]
            words = ["page"] * (len(brk) + 1)
            inner = "".join(w + " " + b + " " for w, b in zip(words, brk)) + "end"
            shape = rng.choice(["block", "line", "oneline"])
            if shape == "block":
                tail = "/*\n** " + inner + "\n** " + "x" * 90 + "\n*/\n"
            elif shape == "line":
                tail = "// " + inner + "\n// " + "y" * 90 + "\n"
            else:
                tail = "/* " + inner + " */\n/* " + "z" * 90 + " */\n"
            out.append((name, text.rstrip("\n") + "\n" + tail, "page-breaks-in-" + shape))
    return out


LEXICAL_SNIPPETS = [
    "int\tmain(void)\n{\n\treturn ('\\q\n);\n}\n",
    "char\t*g_s = \"ab\\qcd;\n",
    "int\tg_a = 089 + 0b102 + 1e + 1.2.3 + 10uu + 0x1e+3;\n",
    "int\tg_b = '' + 'ab' + '\\x' + 0xx1.8p1;\n",
    "/* caf\u00e9 \u00fcber */\nchar\t*g_t = \"na\u00efve \u2603\";\n",
    "int\tmain(void)\n{\n\tint\ta;\n\n\ta = 1 @ 2 $ 3;\n\treturn (a);\n}\n",
    "int\tg_c = 1;int\tg_d = 2; \n  int g_e=3;\n",
    "\tint x  =  1 ;\t\n#define foo(x) x+1\n#include \"a.c\"\n",
    "int\tf(int a,int b)\n{\n\treturn(a+b) ;\n}\nint\tg( int a )\n{\n\tif(a)return 1;\n}\n",
]


def file_classes(rng=None):
    h = header.header42("x.c")
    cls = {
        "clean": [h + "\nint\tmain(void)\n{\n\treturn (0);\n}\n"],
        "notice": [h + "\nint\tg_x;\n", h + "\nchar\t*g_s = \"a\\qb\";\n"],
        "error": [h + "\nint\tmain()\n{\n}\n", "int\tmain(void)\n{\n\treturn (0);\n}\n", h + "\nint main(void) {return 0;}\n",
                  # files whose ONLY Error-level diagnostics come from the lexer
                  h + "\nint\tmain(void)\n{\n\treturn (10xyz);\n}\n", h + "\nint\tmain(void)\n{\n\treturn ('');\n}\n",
                  h + "\nint\tmain(void)\n{\n\treturn (1.2.3 > 08);\n}\n"],
        "fatal": [h + "\n#foo\n", h + "\nint\tmain(void)\n{\n\treturn (0);\n}\n) )", "#include\n"],
    }
    if rng is not None:
        for _ in range(3):
            p = grammar.gen_program(random.Random(rng.getrandbits(48)), kind="c")
            cls["clean"].append(p.text.replace(header.header42(p.name), header.header42("x.c")) if False else p.text)
    return cls


# Conforming shapes that the generator does not produce (postfix ++/-- inside expressions,
# statements wrapped over several lines): accepted by the unchanged tool, used by C01/C02.
EXTRA_CONFORMING_BODY = """
#include <unistd.h>

static int	compute(int a, int b, int c)
{
	return (a + b * c);
}

int	ft_shift(char *src, int n)
{
	int	i;
	int	x;

	i = 0;
	x = 0;
	while (n-- - 1 > 0)
		x += src[i++ + 1];
	x = compute(i++ + 1, x,
			n);
	if (x > 0 && i < n
		&& src[i] != 0)
		return (i++ + 1);
	ft_putnbr(i-- - n);
	return (x-- - 1);
}
"""


# ... and conforming C outside the grammar of DESIGN §4.1 altogether: function-pointer parameters (with their own
# parameter lists), `++`/`--` on both sides of an assignment, `*p++ = ...`; accepted by the unchanged tool.
EXTRA_CONFORMING_BODY2 = """
#include <stdlib.h>

static void	ft_swap(char *a, char *b, size_t size)
{
	char	tmp;

	while (size--)
	{
		tmp = *a;
		*a++ = *b;
		*b++ = tmp;
	}
}

void	ft_sort(void *base, size_t n, size_t size, int (*cmp)(void *, void *))
{
	size_t	i;
	size_t	j;
	char	*tab;

	tab = (char *)base;
	i = 0;
	while (i < n)
	{
		j = i + 1;
		while (j < n)
		{
			if (cmp(tab + i * size, tab + j * size) > 0)
				ft_swap(tab + i * size, tab + j * size, size);
			j++;
		}
		i++;
	}
}

int	ft_fold(int *tab, int n, int (*f)(int, int, int, int))
{
	int	acc;
	int	i;

	acc = 0;
	i = 0;
	while (i + 2 < n)
	{
		acc = f(acc, tab[i], tab[i + 1], tab[i + 2]);
		i += 3;
	}
	return (acc);
}

char	*ft_copy(char *dst, const char *src, int n)
{
	int	i;
	int	j;

	i = 0;
	j = 0;
	while (j < n && src[j])
		dst[i++] = src[j++];
	while (n-- > j)
		dst[i++] = 0;
	*dst = *src;
	dst[--i] = src[--j];
	return (dst);
}

void	ft_apply(int (*cmp)(void *, void *), void (*each)(void *), void **items)
{
	int	k;

	k = 0;
	while (items[k])
	{
		each(items[k]);
		if (items[k + 1] && cmp(items[k], items[k + 1]))
			each(items[k + 1]);
		k++;
	}
}
"""


# loops whose body is the lone `;` (top level and inside a block), an if / else if / else chain, `break ;`
EXTRA_CONFORMING_BODY3 = """
static int	scan(char *str, int n)
{
	int	i;

	i = 0;
	while (str[i] && str[i] != n)
		i++;
	while (str[i] == ' ' && i++ < n)
		;
	if (i > n)
	{
		while (n-- > 0 && str[n] != 'x')
			;
		i = n;
	}
	else if (i == n)
		i = 0;
	else
		i = -1;
	return (i);
}

int	ft_scan(char *str)
{
	int	k;

	k = scan(str, 3);
	while (k > 0)
	{
		k = scan(str + k, k);
		if (k == 2)
			break ;
	}
	return (k);
}
"""


def extra_conforming():
    return [("ft_shift.c", header.header42("ft_shift.c") + EXTRA_CONFORMING_BODY),
            ("ft_extra.c", header.header42("ft_extra.c") + EXTRA_CONFORMING_BODY2),
            ("ft_scan.c", header.header42("ft_scan.c") + EXTRA_CONFORMING_BODY3)]


def indent_edits():
    """(name, text, code, line): every line of the function bodies of ft_scan.c with one tab less (TOO_FEW_TAB) and one
    tab more (TOO_MANY_TAB) — statements, braces, `else`, the lone `;` of an empty loop, at every depth"""
    name, src = extra_conforming()[2]
    lines = src.split("\n")
    out = []
    for i, l in enumerate(lines):
        if i > 11 and l.startswith("\t"):
            v = list(lines); v[i] = l[1:]
            out.append((name, "\n".join(v), "TOO_FEW_TAB", i + 1))
            v = list(lines); v[i] = "\t" + l
            out.append((name, "\n".join(v), "TOO_MANY_TAB", i + 1))
    return out


# other names a source file may have: dots, a leading underscore, capitals, a hyphen in the stem
def name_variants(name):
    stem, ext = name.rsplit(".", 1)
    return [f"{stem}.utils.{ext}", f"lib.{stem}.{ext}", f"_{stem}.{ext}", f"{stem}-2.{ext}", f"{stem.upper()}.{ext}", f"{stem}.h.{ext}" if ext == "c" else f"{stem}.c.{ext}"]


def extra_violating():
    """(name, text, code, line): single violations placed on CONTINUATION lines of wrapped statements"""
    name, src = extra_conforming()[0]
    lines = src.split("\n")
    out = []
    for i, l in enumerate(lines):
        if l.strip() == "n);":
            v = list(lines); v[i] = l.replace("n);", "n ? n : x);")
            out.append((name, "\n".join(v), "TERNARY_FBIDDEN", i + 1))
            v = list(lines); v[i] = l.replace("n);", "n); ")
            out.append((name, "\n".join(v), "SPC_BEFORE_NL", i + 1))
        if l.strip() == "&& src[i] != 0)":
            v = list(lines); v[i] = l.replace("src[i] != 0)", "(src[i] ? 1 : 0))")
            out.append((name, "\n".join(v), "TERNARY_FBIDDEN", i + 1))
            v = list(lines); v[i] = l + " "
            out.append((name, "\n".join(v), "SPC_BEFORE_NL", i + 1))
    for i, l in enumerate(lines):
        if l.startswith("\tif (x > 0") or l.startswith("\twhile (n--"):
            v = list(lines); v[i] = l + " "
            out.append((name, "\n".join(v), "SPC_BEFORE_NL", i + 1))
    return out + indent_edits()
