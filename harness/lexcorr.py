"""Correspondence stream `lex`: the real lexer vs the Lean model on the same strings,
plus the independent raw scanner used as the C09/C10 specification oracle."""
import re
import itertools
import multiprocessing as mp

from core import Driver, cps, uncps

ALPHABET = "a01xbe.+'\"\\\n \t/*?=<:#@({\r"
_d = re.compile(r"\d")
_w = re.compile(r"\w")


def uni_classes(src):
    ud = sorted({ord(c) for c in src if ord(c) >= 128 and _d.match(c)})
    uw = sorted({ord(c) for c in src if ord(c) >= 128 and _w.match(c)})
    return ud, uw


def lex_request(src):
    ud, uw = uni_classes(src)
    r = {"op": "lex", "src": cps(src)}
    if ud:
        r["ud"] = ud
    if uw:
        r["uw"] = uw
    return r


def canon_model(rep):
    if rep.get("exc"):
        return {"exc": rep["exc"]}
    if "error" in rep:
        return {"exc": "driver:" + rep["error"]}
    toks = [[t[0], t[1], t[2], uncps(t[3])] for t in rep["tokens"]]
    diags = [[uncps(d[0]), uncps(d[1]), d[2], [[h[0], h[1], h[2], uncps(h[3])] for h in d[3]]] for d in rep["diags"]]
    return {"tokens": toks, "diags": diags, "exc": None, "spans": [(t[4], t[5]) for t in rep["tokens"]],
            "items": rep.get("items", [])}


def _impl_worker(srcs):
    from impl import lex_impl
    return [lex_impl(s, timeout=5.0) for s in srcs]


def impl_many(srcs, procs=None):
    if len(srcs) < 2000:
        return _impl_worker(srcs)
    import gc
    from impl import lex_impl
    procs = procs or min(16, mp.cpu_count())
    n = max(500, len(srcs) // (procs * 4))
    chunks = [srcs[i:i + n] for i in range(0, len(srcs), n)]
    gc.freeze()          # keep the big input lists out of the workers' collections (no copy-on-write storms)
    with mp.Pool(procs) as pool:
        out = pool.map(_impl_worker, chunks)
    out = [x for c in out for x in c]
    # a worker can be stalled for seconds by the machine, not by the input: a run that did not finish in
    # a worker is only believed after it does not finish in this process either, with a generous limit
    again = [k for k, o in enumerate(out) if o.get("exc") == "hang"]
    confirmed = 0
    for k in again:
        if confirmed >= 4:
            break               # plenty of genuine ones: the rest is believed
        out[k] = lex_impl(srcs[k], timeout=30.0)
        confirmed += out[k].get("exc") == "hang"
    return out


def _model_worker(srcs):
    d = Driver()
    return [canon_model(r) for r in d.batch([lex_request(s) for s in srcs])]


def model_many(srcs, procs=None):
    if len(srcs) < 4000:
        return _model_worker(srcs)
    procs = procs or min(16, mp.cpu_count())
    n = max(1000, len(srcs) // (procs * 2))
    chunks = [srcs[i:i + n] for i in range(0, len(srcs), n)]
    with mp.Pool(procs) as pool:
        out = pool.map(_model_worker, chunks)
    return [x for c in out for x in c]


def diff(impl, model):
    """None if they agree, else a short description."""
    if impl.get("exc") or model.get("exc"):
        if impl.get("exc") == model.get("exc"):
            return None
        # model has no notion of frames: compare exception classes only
        ie = (impl.get("exc") or "").split("@")[0].replace("crash:", "")
        if ie and ie == model.get("exc"):
            return None
        return f"exception: impl={impl.get('exc')} model={model.get('exc')}"
    if impl["tokens"] != model["tokens"]:
        for i, (a, b) in enumerate(itertools.zip_longest(impl["tokens"], model["tokens"])):
            if a != b:
                return f"token {i}: impl={a} model={b}"
    if impl["diags"] != model["diags"]:
        for i, (a, b) in enumerate(itertools.zip_longest(impl["diags"], model["diags"])):
            if a != b:
                return f"diag {i}: impl={a} model={b}"
    return None


def exhaustive(maxlen, alphabet=ALPHABET):
    for n in range(0, maxlen + 1):
        for t in itertools.product(alphabet, repeat=n):
            yield "".join(t)


# identifiers that look like keywords with underscores, GNU alternate keywords, prefixes of literals
KEYWORDISH = ["__inline__", "__restrict", "__volatile__", "_int", "int_", "__if", "short_", "do_", "__do__", "_Bool", "L", "u8", "U",
              "default_", "__attribute__", "NULL", "sizeof_", "x1", "BUF_2K", "BUF_XK"]

# pathological runs for backtracking regular expressions: long runs of digits, hex digits, dots, exponent letters
def pathological():
    out = []
    for n in (24, 40, 64):
        out += ["1" * n, "0" * n, "9" * n + "u", "1" * n + ";", "0x" + "f" * n, "0b" + "1" * n, "1" * n + "e", "1" * n + ".",
                "." + "1" * n, "1." * (n // 2), "e" * n, "1" + "e" * n, "0x" + "p" * n, "1e+" + "1" * n, "x" * n, "1" * n + "x" * n,
                "0x1" + ".f" * (n // 2), "1" + "+-" * (n // 2), "1" * n + " ", "'" + "a" * n, '"' + "\\" * n]
    return out


LEXEMES = KEYWORDISH + [
    "a", "ab_1", "int", "return", "NULL", "x", "0", "1", "42", "0x1F", "0b101", "017", "1.5", ".5", "1e3", "0x1p3", "10UL",
    "1.0f", "'a'", "'\\n'", "'\\x41'", "L'a'", "\"str\"", "\"a\\tb\"", "u8\"s\"", "\"a;{\"", " ", " ", "\t", "\n", "\n",
    "+", "-", "*", "/", "%", "=", "==", "!=", "<", ">", "<=", ">=", "&&", "||", "&", "|", "^", "~", "!", "<<", ">>", "<<=",
    ">>=", "+=", "-=", "++", "--", "->", ".", "...", ",", ";", ":", "?", "#", "(", ")", "[", "]", "{", "}",
    "<:", ":>", "<%", "%>", "%:", "??(", "??)", "??<", "??>", "??=", "??!", "??'", "??-", "??/", "\\\n", "??/\n",
    "// c", "// c\n", "/* c */", "/*\n\tc\n*/", "/* a\\\nb */", "\"a\\\nb\"", "@", "$", "`", "\\", "é", "٣", "'", "\"", "''", "'ab'",
    "\f", "\v", "\r", "\r\n", "\x1c", "\x85", "\xa0", "\u2028", "\u3000", "\ufeff", "\x00", "\u200b", "²", "Ⅷ", "ª", "\u0301",
    "'a??/\n", "'ab\\\n", "\"a??/\n", "\"ab\\\n", "'??/\n", "/* a??/\n", "// a??/\n", "'a\t", "\"a\tb\" ",
    "1e", "1e+", "1.2.3", "089", "0b12", "1uu", "0x1e+3", "0xx1", "1.0q", "0x", ".", "..", "'\\q'", "\"\\x\"", "'\\777'",
]


INSIDE = ["\r", "\f", "\xa0", "a", "b", "0", " ", " ", "\t", "\t", "\\\n", "??/\n", "??<", "<:", "%>", "\\n", "\\\\", "\\\"", "\\'", "\\x41",
          "\\0", "\\q", "\\\t", "*", "/", "?", "\n", ";", "{", "\"", "'", "é"]


def inside_token(rng):
    """a comment / string / character constant built from pieces that matter inside a token
    (tabs, splices in both spellings, digraphs/trigraphs, escapes), followed by more tokens"""
    kind = rng.choice(["/*", "/*", "//", '"', '"', "'"])
    body = "".join(rng.choice(INSIDE) for _ in range(rng.randint(0, 8)))
    close = {"/*": "*/", "//": "\n", '"': '"', "'": "'"}[kind]
    if rng.random() < 0.15:
        close = ""
    pre = rng.choice(["", "", "\t", "x ", "\n", "a\t"])
    post = rng.choice(["", " x", "\tx;", "\n\ty", " @"])
    return pre + kind + body + close + post


def sampled(rng, n, maxlex=12):
    out = []
    for _ in range(n):
        if rng.random() < 0.35:
            out.append(inside_token(rng))
            continue
        k = rng.randint(1, maxlex)
        out.append("".join(rng.choice(LEXEMES) for _ in range(k)))
    return out


# ---------------------------------------------------------------- specification oracles

TRI = {"??<": '{', "??>": '}', "??(": '[', "??)": ']', "??=": '#', "??/": '\\', "??'": '^', "??!": '|', "??-": '~'}
DI = {"<%": '{', "%>": '}', "<:": '[', ":>": ']', "%:": '#'}


def visual_positions(src):
    """Spec of C09: (line, column) of every raw offset, tab stops every 4 columns."""
    pos = []
    line, col = 1, 1
    for ch in src:
        pos.append((line, col))
        if ch == "\n":
            line, col = line + 1, 1
        elif ch == "\t":
            col = col + (4 - (col - 1) % 4)
        else:
            col += 1
    pos.append((line, col))
    return pos


def shrink(src, pred, budget=400):
    """ddmin-style character deletion keeping `pred` true."""
    cur = src
    n = 2
    calls = 0
    while len(cur) >= 2 and calls < budget:
        chunk = max(1, len(cur) // n)
        reduced = False
        for i in range(0, len(cur), chunk):
            cand = cur[:i] + cur[i + chunk:]
            calls += 1
            try:
                ok = pred(cand)
            except Exception:
                ok = False
            if ok:
                cur = cand
                n = max(n - 1, 2)
                reduced = True
                break
        if not reduced:
            if chunk == 1:
                break
            n = min(len(cur), n * 2)
    return cur
